(* The program DSL of the C11 correspondence check, its interpreter over the
   Gates model instantiated at Cyc32, and the wire codec.

   WIRE FORMAT (nested integer lists).

   phase   an integer k stands for the DisCoPy phase k/16 (in full turns, as
           DisCoPy counts: Rz(k/16), CU1(k/16), ...), i.e. e = exp(i*pi*k/16)
           = zeta^(k mod 32); 32 distinct grid values.
   gate1   (0 g dag)  g = 0..5 for H S T X Y Z, dag = 0/1 (the `_dagger` flag
                      being True; only generated for S T Y)
           (1 r k)    r = 0..2 for Rx Ry Rz, phase k
   box     gate1 | (2) CZ | (3 gate1) Controlled(gate1) | (4 r k) r = 0..2 for
           CU1 CRz CRx | (5) SWAP | (6 (bits)) Ket | (7 (bits)) Bra
           | (8 (n0 .. n15) d) scalar(sum_j n_j/d zeta^j) | (9 k) sqrt(2 ** k)
   prog    (0 n ((off box) ...))   Circuit(qubit ** n, cod, boxes, offsets)
           (1 p) p.dagger()   (2 p q) p >> q   (3 p q) p @ q
           (4 p a b (n)?) rewire(p, a, b[, dom=qubit ** n])
   request (5 code k)  the reference table Std.v (no implementation side): the
           [out, in] matrix of the tket operation number `code` (0 H, 1 S, 2 T,
           3 X, 4 Y, 5 Z, 6 Sdg, 7 Tdg, 8 Rx, 9 Ry, 10 Rz, 11 CX, 12 CY, 13 CZ,
           14 CH, 15 CS, 16 CSdg, 17 SWAP, 18 CU1, 19 CRz, 20 CRx, 21 CRy) at
           the phase k, answered as (0 (n n entries)), n = number of qubits
   answer  (0 (dom cod (entry ...)))  the flat array of Circuit.eval(), every
           entry an exact element of Cyc32, written sparsely as
           (d (j n) ...) = sum_j n/d zeta^j over the non-zero numerators only
           (common positive denominator d; zero is (1))
           | (1 code)   error (Common/Base.v err_code)

   Definitions only. *)
From Coq Require Import List Bool Arith ZArith QArith Qcanon.
Import ListNotations.
Require Import DV.Common.Base DV.Quantum.Ring DV.Quantum.Cyc32 DV.Quantum.Matrix DV.Quantum.Gates DV.Quantum.Std.
Local Open Scope Z_scope.

Definition cbox_t := box Cyc32.
Definition ccirc := circuit Cyc32.

Inductive prog :=
| PCirc (n : nat) (ls : list (nat * cbox_t))
| PDagger (p : prog)
| PThen (p q : prog)
| PTensor (p q : prog)
| PRewire (p : prog) (a b : nat) (dom : option nat).

Fixpoint run (p : prog) : res ccirc :=
  match p with
  | PCirc n ls => mk_circuit n ls
  | PDagger p => do c <- run p; Ok (cdagger c)
  | PThen p q => do a <- run p; do b <- run q; cthen a b
  | PTensor p q => do a <- run p; do b <- run q; Ok (ctensor a b)
  | PRewire p a b dom => do c <- run p; rewire c a b dom
  end.

(* ------------------------------------------------------------------ codec *)
Definition dec_nat (s : sexp) : res nat :=
  match s with I z => if z <? 0 then Err BadProgram else Ok (Z.to_nat z) | _ => Err BadProgram end.

Definition dec_named1 (z : Z) : res named1 :=
  match z with
  | 0 => Ok NH | 1 => Ok NS | 2 => Ok NT | 3 => Ok NX | 4 => Ok NY | 5 => Ok NZ
  | _ => Err BadProgram
  end.
Definition dec_rot1 (z : Z) : res rot1 :=
  match z with 0 => Ok RRx | 1 => Ok RRy | 2 => Ok RRz | _ => Err BadProgram end.
Definition dec_rot2 (z : Z) : res rot2 :=
  match z with 0 => Ok RCU1 | 1 => Ok RCRz | 2 => Ok RCRx | _ => Err BadProgram end.

Definition dec_gate1 (s : sexp) : res (gate1 Cyc32) :=
  match s with
  | L [I 0; I g; d] => do g' <- dec_named1 g; do d' <- sx_bool d; Ok (G1Named g' d')
  | L [I 1; I r; I k] => do r' <- dec_rot1 r; Ok (G1Rot r' (c32_phase k))
  | _ => Err BadProgram
  end.

Definition dec_bits (s : sexp) : res bits :=
  do l <- sx_list s; mapM sx_bool l.

Definition dec_box (s : sexp) : res cbox_t :=
  match s with
  | L [I 0; _; _] | L [I 1; _; _] => do g <- dec_gate1 s; Ok (BG1 g)
  | L [I 2] => Ok (BG2 G2CZ)
  | L [I 3; g] => do g' <- dec_gate1 g; Ok (BG2 (G2Ctrl g'))
  | L [I 4; I r; I k] => do r' <- dec_rot2 r; Ok (BG2 (G2Rot r' (c32_phase k)))
  | L [I 5] => Ok BSwap
  | L [I 6; b] => do b' <- dec_bits b; Ok (BKet b')
  | L [I 7; b] => do b' <- dec_bits b; Ok (BBra b')
  | L [I 8; ns; I d] =>
      do ns' <- sx_ints ns;
      if d <=? 0 then Err BadProgram else Ok (BScalar (c32_of_nums ns' (Z.to_pos d) : Cyc32))
  | L [I 9; I k] => Ok (BSqrt2 k)
  | _ => Err BadProgram
  end.

Definition dec_layer (s : sexp) : res (nat * cbox_t) :=
  match s with
  | L [o; b] => do o' <- dec_nat o; do b' <- dec_box b; Ok (o', b')
  | _ => Err BadProgram
  end.

Fixpoint dec_prog (fuel : nat) (s : sexp) : res prog :=
  match fuel with
  | O => Err BadProgram
  | S f =>
    match s with
    | L [I 0; n; L ls] => do n' <- dec_nat n; do ls' <- mapM dec_layer ls; Ok (PCirc n' ls')
    | L [I 1; p] => do p' <- dec_prog f p; Ok (PDagger p')
    | L [I 2; p; q] => do p' <- dec_prog f p; do q' <- dec_prog f q; Ok (PThen p' q')
    | L [I 3; p; q] => do p' <- dec_prog f p; do q' <- dec_prog f q; Ok (PTensor p' q')
    | L [I 4; p; a; b; L []] =>
        do p' <- dec_prog f p; do a' <- dec_nat a; do b' <- dec_nat b; Ok (PRewire p' a' b' None)
    | L [I 4; p; a; b; L [n]] =>
        do p' <- dec_prog f p; do a' <- dec_nat a; do b' <- dec_nat b; do n' <- dec_nat n;
        Ok (PRewire p' a' b' (Some n'))
    | _ => Err BadProgram
    end
  end.

Fixpoint enc_sparse (j : Z) (ns : list Z) : list sexp :=
  match ns with
  | [] => []
  | n :: ns' => if n =? 0 then enc_sparse (j + 1) ns' else L [I j; I n] :: enc_sparse (j + 1) ns'
  end.
Definition enc_c32 (x : Cyc32) : sexp := L (I (c32_den x) :: enc_sparse 0 (c32_nums x)).

Definition enc_eval (c : ccirc) : sexp :=
  L [I (Z.of_nat (c_dom c)); I (Z.of_nat (cod_or0 c)); L (map enc_c32 (eval_flat c))].

Definition enc_res (r : res ccirc) : sexp :=
  match r with
  | Ok c => L [I 0; enc_eval c]
  | Err e => L [I 1; I (err_code e)]
  end.

Definition dec_std (z : Z) : res std_op :=
  match z with
  | 0 => Ok SH | 1 => Ok SS | 2 => Ok ST | 3 => Ok SX | 4 => Ok SY | 5 => Ok SZ
  | 6 => Ok SSdg | 7 => Ok STdg | 8 => Ok SRx | 9 => Ok SRy | 10 => Ok SRz
  | 11 => Ok SCX | 12 => Ok SCY | 13 => Ok SCZ | 14 => Ok SCH | 15 => Ok SCS
  | 16 => Ok SCSdg | 17 => Ok SSWAP | 18 => Ok SCU1 | 19 => Ok SCRz | 20 => Ok SCRx
  | 21 => Ok SCRy | _ => Err BadProgram
  end.

Definition run_std (code k : Z) : sexp :=
  match dec_std code with
  | Ok op =>
      let n := Z.of_nat (std_qubits op) in
      L [I 0; L [I n; I n; L (map enc_c32 (std_flat op (c32_phase k)))]]
  | Err e => L [I 1; I (err_code e)]
  end.

(* the single entry point of the extracted runner *)
Definition run_sexp (s : sexp) : sexp :=
  match s with L [I 5; I code; I k] => run_std code k | _ =>
  match dec_prog 200 s with
  | Ok p => enc_res (run p)
  | Err e => L [I 1; I (err_code e)]
  end
  end.
