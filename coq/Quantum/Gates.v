(* "discopy/quantum/gates.py in Gallina", pure part: the arrays of every exported
   gate exactly as gates.py builds them (index order [in..., out...], as
   tensor.Tensor stores them), Controlled as the code builds it, the dagger
   rules, Ket / Bra / scalars, pure circuits and their evaluation
   (Circuit.eval(mixed=False) = tensor.Functor(lambda x: x[0].dim,
   lambda f: f.array)), composition, tensor, dagger and [rewire].

   The model describes the code as it is.  Three defects found with this model
   were repaired upstream (fix commits 283c08a, 648c8a7, a3ece78) and the model
   follows the repaired code:
     F6  Y.array was the transpose of the Pauli matrix (arrays are read
         [in, out]); now [0, 1j, -1j, 0];
     F7  Ry.array likewise; now [[cos, sin], [-1 * sin, cos]];
     F8  Controlled.__init__ copied controlled.array whatever controlled._dagger;
         now numpy.conjugate(controlled.array).transpose() when
         controlled.is_dagger.

   A phase p (in full turns, as DisCoPy counts) enters as e = exp(i*pi*p)
   (Ring.v): half_theta = pi*p, so cos/sin(half_theta) = pcos/psin e,
   exp(+-1j*half_theta) = e / conj e, and CU1's exp(1j*2*pi*p) = e*e.

   Evaluation is modelled at the level of the specification that C09 proves
   for tensor.Functor.__call__ (the value after k boxes is the composite of the
   first k whiskered layers); the axes bookkeeping of that loop
   (tensordot / moveaxis) is C09's subject, and the correspondence check of
   C11 compares [eval] with the real Circuit.eval on every generated circuit.

   Definitions only; proofs are in GatesLemmas.v. *)
From Coq Require Import List Bool Arith ZArith.
Import ListNotations.
Require Import DV.Common.Base DV.Core.Diagram DV.Core.Perm.
Require Import DV.Quantum.Ring DV.Quantum.Matrix.
Local Open Scope nat_scope.

(* the named one-qubit QuantumGate instances of gates.py *)
Inductive named1 := NH | NS | NT | NX | NY | NZ.
Inductive rot1 := RRx | RRy | RRz.                 (* Rotation subclasses, n_qubits=1 *)
Inductive rot2 := RCU1 | RCRz | RCRx.              (* Rotation subclasses, n_qubits=2 *)

(* `_dagger=None` in the definition of the instance: H, X, Z (and CZ) *)
Definition self_adjoint1 (g : named1) : bool :=
  match g with NH | NX | NZ => true | NS | NT | NY => false end.

Section Gates.
  Variable SR : StarRing.

  (* a QuantumGate on one qubit: a named instance with its `_dagger` flag
     ([dag] is only ever true for S, T, Y: QuantumGate.dagger keeps None), or
     a rotation with e = exp(i*pi*phase) *)
  Inductive gate1 :=
  | G1Named (g : named1) (dag : bool)
  | G1Rot (r : rot1) (e : SR).

  (* a QuantumGate on two qubits: CZ, Controlled(g) (CX = Controlled(X)), or a
     two-qubit rotation *)
  Inductive gate2 :=
  | G2CZ
  | G2Ctrl (g : gate1)
  | G2Rot (r : rot2) (e : SR).

  (* the boxes of a pure circuit *)
  Inductive box :=
  | BG1 (g : gate1)
  | BG2 (g : gate2)
  | BSwap                                  (* SWAP = Swap(qubit, qubit) *)
  | BKet (b : bits)
  | BBra (b : bits)
  | BScalar (z : SR)                       (* scalar(z) *)
  | BSqrt2 (k : Z).                        (* sqrt(2 ** k), k any integer *)

  (* ------------------------------------------------------------ raw arrays *)
  Local Open Scope sr_scope.
  (* the `.array` attribute / property, flat in C order; for a gate on n qubits
     the shape is (2,)*2n = [in..., out...] *)
  Definition named1_flat (g : named1) : list SR :=
    match g with
    | NH => [risq2 * 1; risq2 * 1; risq2 * 1; risq2 * (ropp 1)]   (* 1/sqrt(2) * [1, 1, 1, -1] *)
    | NS => [1; 0; 0; ri]
    | NT => [1; 0; 0; rw8]                                     (* exp(1j*pi/4) *)
    | NX => [0; 1; 1; 0]
    | NY => [0; ri; - ri; 0]                                   (* [0, 1j, -1j, 0] *)
    | NZ => [1; 0; 0; ropp 1]
    end.

  Definition rot1_flat (r : rot1) (e : SR) : list SR :=
    let c := pcos e in let s := psin e in
    match r with
    | RRx => [c; - ri * s; - ri * s; c]                        (* [[cos, -1j*sin], [-1j*sin, cos]] *)
    | RRy => [c; s; (ropp 1) * s; c]                          (* [[cos, sin], [-1*sin, cos]] *)
    | RRz => [rconj e; 0; 0; e]                                (* [[exp(-1j*ht), 0], [0, exp(1j*ht)]] *)
    end.

  (* gate.array for a one-qubit QuantumGate: the raw array, whatever `_dagger` *)
  Definition gate1_flat (g : gate1) : list SR :=
    match g with
    | G1Named n _ => named1_flat n
    | G1Rot r e => rot1_flat r e
    end.

  (* Controlled.__init__: zeros((4,4)); [:2,:2] = eye(2); [2:,2:] = controlled.array *)
  Definition controlled_flat (a : list SR) : list SR :=
    [1; 0; 0; 0;
     0; 1; 0; 0;
     0; 0; nth 0 a 0; nth 1 a 0;
     0; 0; nth 2 a 0; nth 3 a 0].

  Definition rot2_flat (r : rot2) (e : SR) : list SR :=
    let c := pcos e in let s := psin e in
    match r with
    | RCU1 => [1;0;0;0; 0;1;0;0; 0;0;1;0; 0;0;0; e * e]            (* exp(1j * 2*pi*phase) *)
    | RCRz => [1;0;0;0; 0;1;0;0; 0;0; rconj e; 0; 0;0;0; e]
    | RCRx => [1;0;0;0; 0;1;0;0; 0;0; c; - ri * s; 0;0; - ri * s; c]
    end.

  (* box.is_dagger: only a named gate whose flag is True *)
  Definition gate1_is_dagger (g : gate1) : bool :=
    match g with G1Named _ d => d | G1Rot _ _ => false end.

  (* numpy.conjugate(a).transpose() of a flat 2x2 array *)
  Definition conj_transpose_flat (a : list SR) : list SR :=
    [rconj (nth 0 a 0); rconj (nth 2 a 0); rconj (nth 1 a 0); rconj (nth 3 a 0)].

  (* what Controlled.__init__ writes into array[2:, 2:] *)
  Definition controlled_target (g1 : gate1) : list SR :=
    if gate1_is_dagger g1 then conj_transpose_flat (gate1_flat g1) else gate1_flat g1.

  Definition gate2_flat (g : gate2) : list SR :=
    match g with
    | G2CZ => [1;0;0;0; 0;1;0;0; 0;0;1;0; 0;0;0; ropp 1]
    | G2Ctrl g1 => controlled_flat (controlled_target g1)
    | G2Rot r e => rot2_flat r e
    end.

  (* sqrt 2 to an integer power *)
  Definition sqrt2_pow (k : Z) : SR :=
    match k with
    | Z0 => 1
    | Zpos p => rpow rsqrt2 (Pos.to_nat p)
    | Zneg p => rpow risq2 (Pos.to_nat p)
    end.

  Definition swap_flat : list SR := [1;0;0;0; 0;0;1;0; 0;1;0;0; 0;0;0;1].
  Local Close Scope sr_scope.

  (* ------------------------------------------------------------ box interface *)
  Definition box_dom (b : box) : nat :=
    match b with
    | BG1 _ => 1 | BG2 _ => 2 | BSwap => 2
    | BKet _ => 0 | BBra bs => length bs | BScalar _ => 0 | BSqrt2 _ => 0
    end.
  Definition box_cod (b : box) : nat :=
    match b with
    | BG1 _ => 1 | BG2 _ => 2 | BSwap => 2
    | BKet bs => length bs | BBra _ => 0 | BScalar _ => 0 | BSqrt2 _ => 0
    end.

  (* QuantumGate.dagger / Rotation.dagger *)
  Definition gate1_dagger (g : gate1) : gate1 :=
    match g with
    | G1Named n d => if self_adjoint1 n then G1Named n d else G1Named n (negb d)
    | G1Rot r e => G1Rot r (rconj e)                          (* type(self)(-self.phase) *)
    end.
  (* QuantumGate.dagger (CZ: None) / Controlled.dagger / Rotation.dagger *)
  Definition gate2_dagger (g : gate2) : gate2 :=
    match g with
    | G2CZ => G2CZ
    | G2Ctrl g1 => G2Ctrl (gate1_dagger g1)                   (* Controlled(self.controlled.dagger()) *)
    | G2Rot r e => G2Rot r (rconj e)
    end.
  (* box.dagger() *)
  Definition box_dagger (b : box) : box :=
    match b with
    | BG1 g => BG1 (gate1_dagger g)
    | BG2 g => BG2 (gate2_dagger g)
    | BSwap => BSwap                                          (* Swap(right, left) *)
    | BKet bs => BBra bs
    | BBra bs => BKet bs
    | BScalar z => BScalar (rconj z)                          (* self if real, else Scalar(conj) *)
    | BSqrt2 k => BSqrt2 k                                    (* real data: _dagger None: self *)
    end.

  (* tensor.Functor on a box: Tensor(dom, cod, box.array), through
     `self(box.dagger()).dagger()` when box.is_dagger *)
  Definition gate1_eval (g : gate1) : mat SR :=
    if gate1_is_dagger g then madj (mat_of_flat (gate1_flat g)) else mat_of_flat (gate1_flat g).
  Definition gate2_eval (g : gate2) : mat SR := mat_of_flat (gate2_flat g).

  Definition box_eval (b : box) : mat SR :=
    match b with
    | BG1 g => gate1_eval g
    | BG2 g => gate2_eval g
    | BSwap => mat_of_flat swap_flat                          (* moveaxis of the two axes *)
    | BKet bs => fun i o => delta (i ++ o) bs                 (* zeros; array[bitstring] = 1 *)
    | BBra bs => fun i o => delta (i ++ o) bs                 (* Bra.array = Bits.array too *)
    | BScalar z => fun _ _ => z
    | BSqrt2 k => fun _ _ => sqrt2_pow k                      (* [data ** .5] *)
    end.

  (* ------------------------------------------------------------ circuits *)
  (* a circuit on qubit wires only: domain width and (offset, box) layers *)
  Record circuit := Circ { c_dom : nat; c_layers : list (nat * box) }.

  (* width after the layers; None when a box does not fit at its offset *)
  Fixpoint run_width (w : nat) (ls : list (nat * box)) : option nat :=
    match ls with
    | [] => Some w
    | (off, b) :: ls' =>
        if off + box_dom b <=? w then run_width (w - box_dom b + box_cod b) ls' else None
    end.
  Definition c_cod (c : circuit) : option nat := run_width (c_dom c) (c_layers c).
  Definition wf_circuit (c : circuit) : bool :=
    match c_cod c with Some _ => true | None => false end.

  (* Circuit(dom, cod, boxes, offsets): AxiomError when a box is out of range *)
  Definition mk_circuit (n : nat) (ls : list (nat * box)) : res circuit :=
    match run_width n ls with Some _ => Ok (Circ n ls) | None => Err AxiomError end.

  Definition cod_or0 (c : circuit) : nat := match c_cod c with Some n => n | None => 0 end.

  (* self >> other *)
  Definition cthen (a b : circuit) : res circuit :=
    if cod_or0 a =? c_dom b then Ok (Circ (c_dom a) (c_layers a ++ c_layers b))
    else Err AxiomError.
  (* self @ other: self's layers, then other's shifted by len(self.cod) *)
  Definition ctensor (a b : circuit) : circuit :=
    Circ (c_dom a + c_dom b)
         (c_layers a ++ map (fun l => (cod_or0 a + fst l, snd l)) (c_layers b)).
  (* self.dagger(): reversed, box by box *)
  Definition cdagger (a : circuit) : circuit :=
    Circ (cod_or0 a) (rev (map (fun l => (fst l, box_dagger (snd l))) (c_layers a))).
  Definition cid (n : nat) : circuit := Circ n [].
  Definition cbox (b : box) : circuit := Circ (box_dom b) [(0, b)].

  (* ------------------------------------------------------------ evaluation *)
  (* id_off (x) box (x) id_rest, as a matrix [in, out] *)
  Definition layer_mat (l : nat * box) : mat SR :=
    whisker (fst l) (box_dom (snd l)) (box_cod (snd l)) (box_eval (snd l)).

  (* the fold of Circuit.eval; [fz m n A] re-tabulates the m -> n matrix A
     (executable version) or is the identity (specification version) *)
  Fixpoint eval_layers (fz : nat -> nat -> mat SR -> mat SR)
           (n w : nat) (acc : mat SR) (ls : list (nat * box)) : mat SR :=
    match ls with
    | [] => acc
    | l :: ls' =>
        let w' := w - box_dom (snd l) + box_cod (snd l) in
        eval_layers fz n w' (fz n w' (mmul w acc (fz w w' (layer_mat l)))) ls'
    end.

  (* specification: the ordered product of the whiskered boxes *)
  Definition eval_spec (c : circuit) : mat SR :=
    eval_layers (fun _ _ A => A) (c_dom c) (c_dom c) mid (c_layers c).
  (* executable: the same with every intermediate array materialised *)
  Definition eval (c : circuit) : mat SR :=
    eval_layers mfreeze (c_dom c) (c_dom c) (mfreeze (c_dom c) (c_dom c) mid) (c_layers c).

  (* Circuit.eval().array.flatten() *)
  Definition eval_flat (c : circuit) : list SR :=
    tflat (mat_tab (c_dom c) (cod_or0 c) (eval c)).

  (* ------------------------------------------------------------ rewire *)
  Definition nat_list_set (l : list nat) (i : nat) (x : nat) : list nat :=
    firstn i l ++ x :: skipn (S i) l.

  (* the permutation list built by rewire (non-contiguous case); a < b here *)
  Definition rewire_perm (n a b : nat) (reverse : bool) : list nat :=
    let p0 := seq 0 n in
    let p1 := nat_list_set (nat_list_set p0 0 a) a 0 in            (* perm[0], perm[a] = a, 0 *)
    let p2 := nat_list_set (nat_list_set p1 1 (nth b p1 0)) b (nth 1 p1 0) in
    if reverse
    then nat_list_set (nat_list_set p2 0 (nth 1 p2 0)) 1 (nth 0 p2 0)
    else p2.

  Definition qubit_ty (n : nat) : ty := repeat (Ob 1 0) n.

  (* Box.permutation(perm, dom): the offsets of its adjacent swaps
     (monoidal.Diagram.permutation, model Core/Perm.v) *)
  Definition perm_offsets (perm : list nat) (n : nat) : res (list nat) :=
    do d <- dpermutation (map Z.of_nat perm) (qubit_ty n);
    Ok (map Z.to_nat (doffs d)).

  Definition swaps_at (offs : list nat) : list (nat * box) := map (fun o => (o, BSwap)) offs.

  (* rewire(op, a, b, dom=qubit ** n) for a circuit op on two qubits;
     n = None stands for the default dom = qubit ** (max(a, b) + 1).
     The model covers max(a, b) < n (the documented use); other widths are not
     generated by the check. *)
  Definition rewire (op : circuit) (a b : nat) (dom : option nat) : res circuit :=
    if a =? b then Err ValueError
    else
      let n := match dom with Some n => n | None => S (max a b) end in
      if n <? 2 then Err ValueError
      else if negb (c_dom op =? 2) then Err ValueError
      else if n <=? max a b then Err BadProgram
      else
        let square := cod_or0 op =? c_dom op in
        if b =? S a then
          Ok (ctensor (ctensor (cid a) op) (cid (n - S b)))
        else if a =? S b then
          let sw := cbox BSwap in
          do op' <- (if square then do x <- cthen sw op; cthen x sw else cthen sw op);
          Ok (ctensor (ctensor (cid b) op') (cid (n - S a)))
        else if negb square then Err NotImplementedError
        else
          let reverse := b <? a in
          let a' := min a b in let b' := max a b in
          do offs <- perm_offsets (rewire_perm n a' b' reverse) n;
          let perm := Circ n (swaps_at offs) in
          do x <- cthen (cdagger perm) (ctensor op (cid (n - 2)));
          cthen x perm.
End Gates.

Arguments G1Named {_}. Arguments G1Rot {_}. Arguments G2CZ {_}. Arguments G2Ctrl {_}.
Arguments G2Rot {_}. Arguments BG1 {_}. Arguments BG2 {_}. Arguments BSwap {_}.
Arguments BKet {_}. Arguments BBra {_}. Arguments BScalar {_}. Arguments BSqrt2 {_}.
Arguments Circ {_}. Arguments c_dom {_}. Arguments c_layers {_}.
Arguments named1_flat {_}. Arguments rot1_flat {_}. Arguments gate1_flat {_}.
Arguments controlled_flat {_}. Arguments conj_transpose_flat {_}. Arguments controlled_target {_}. Arguments rot2_flat {_}. Arguments gate2_flat {_}.
Arguments sqrt2_pow {_}. Arguments box_dom {_}. Arguments box_cod {_}.
Arguments gate1_dagger {_}. Arguments gate2_dagger {_}. Arguments box_dagger {_}.
Arguments gate1_is_dagger {_}. Arguments gate1_eval {_}. Arguments gate2_eval {_}.
Arguments swap_flat {_}. Arguments box_eval {_}. Arguments run_width {_}. Arguments c_cod {_}.
Arguments wf_circuit {_}. Arguments mk_circuit {_}. Arguments cod_or0 {_}. Arguments cthen {_}.
Arguments ctensor {_}. Arguments cdagger {_}. Arguments cid {_}. Arguments cbox {_}.
Arguments layer_mat {_}. Arguments eval_layers {_}. Arguments eval_spec {_}. Arguments eval {_}.
Arguments eval_flat {_}. Arguments perm_offsets {_}. Arguments swaps_at {_}. Arguments rewire {_}.
