(* C03 -- equality, hash and repr of the free categories (monoidal, rigid).
   Definitions only; proofs live in Repr/ReprLemmas.v.

   A Python string is a list of character codes (list Z).  Names are interned:
   the Python name of object / box k is the string 'n<k>'; payloads (`data`) are
   None or an int.  Every printer says which Python __repr__ it mirrors; the
   parser is the recursive-descent reader of exactly that constructor syntax
   (what `eval(repr(v))` has to understand), ending in the constructor `mk`. *)
From Coq Require Import List ZArith Bool Lia Ascii String.
From Coq Require Decimal DecimalZ.
Import ListNotations.
Require Import DV.Common.Base DV.Core.Diagram DV.Core.Prog.
Open Scope Z_scope.

Definition str := list Z.

(* string literals are evaluated to lists of codes at definition time, so no
   `string` / `ascii` value survives into the extracted code *)
Definition codes (s : string) : str :=
  map (fun a => Z.of_nat (nat_of_ascii a)) (list_ascii_of_string s).

Definition l_quote_n : str := Eval compute in codes "'n".
Definition l_quote   : str := Eval compute in codes "'".
Definition l_sep     : str := Eval compute in codes ", ".
Definition l_rp      : str := Eval compute in codes ")".
Definition l_lb      : str := Eval compute in codes "[".
Definition l_rb      : str := Eval compute in codes "]".
Definition l_Ob      : str := Eval compute in codes "Ob(".
Definition l_z       : str := Eval compute in codes ", z=".
Definition l_Ty      : str := Eval compute in codes "Ty(".
Definition l_Box     : str := Eval compute in codes "Box(".
Definition l_data    : str := Eval compute in codes ", data=".
Definition l_dagger  : str := Eval compute in codes ".dagger()".
Definition l_Swap    : str := Eval compute in codes "Swap(".
Definition l_Cup     : str := Eval compute in codes "Cup(".
Definition l_Cap     : str := Eval compute in codes "Cap(".
Definition l_Id      : str := Eval compute in codes "Id(".
Definition l_Diagram : str := Eval compute in codes "Diagram(dom=".
Definition l_cod     : str := Eval compute in codes ", cod=".
Definition l_boxes   : str := Eval compute in codes ", boxes=".
Definition l_offsets : str := Eval compute in codes ", offsets=".
Definition l_Sum     : str := Eval compute in codes "Sum(".
Definition l_Sum0    : str := Eval compute in codes "Sum([], dom=".

Definition c_rp : Z := 41.      (* ')' *)
Definition c_rb : Z := 93.      (* ']' *)
Definition c_comma : Z := 44.
Definition c_space : Z := 32.
Definition c_minus : Z := 45.

(* the diagram classes whose printers differ *)
Inductive cls := Mon | Rig.

(* ------------------------------------------------------------------ printing *)

(* int.__repr__ : decimal, '-' for negatives, no leading zeros *)
Fixpoint uint_codes (u : Decimal.uint) : str :=
  match u with
  | Decimal.Nil => []
  | Decimal.D0 u => 48 :: uint_codes u | Decimal.D1 u => 49 :: uint_codes u
  | Decimal.D2 u => 50 :: uint_codes u | Decimal.D3 u => 51 :: uint_codes u
  | Decimal.D4 u => 52 :: uint_codes u | Decimal.D5 u => 53 :: uint_codes u
  | Decimal.D6 u => 54 :: uint_codes u | Decimal.D7 u => 55 :: uint_codes u
  | Decimal.D8 u => 56 :: uint_codes u | Decimal.D9 u => 57 :: uint_codes u
  end.

Definition repr_int (z : Z) : str :=
  match Z.to_int z with
  | Decimal.Pos u => uint_codes u
  | Decimal.Neg u => c_minus :: uint_codes u
  end.

(* str.__repr__ of the interned name 'n<k>' *)
Definition repr_name (k : Z) : str := l_quote_n ++ repr_int k ++ l_quote.

(* ', '.join(map f l) *)
Fixpoint sep {A} (f : A -> str) (l : list A) : str :=
  match l with
  | [] => []
  | [x] => f x
  | x :: l' => f x ++ l_sep ++ sep f l'
  end.

(* list.__repr__ *)
Definition repr_list {A} (f : A -> str) (l : list A) : str := l_lb ++ sep f l ++ l_rb.

(* cat.Ob.__repr__ : "Ob({})".format(repr(self.name))
   rigid.Ob.__repr__ : "Ob({}{})".format(repr(self.name), ", z=" + repr(self.z) if self.z else '') *)
Definition repr_ob (c : cls) (x : ob) : str :=
  match c with
  | Mon => l_Ob ++ repr_name (oname x) ++ l_rp
  | Rig => l_Ob ++ repr_name (oname x)
           ++ (if oz x =? 0 then [] else l_z ++ repr_int (oz x)) ++ l_rp
  end.

(* the items of monoidal.Ty.__repr__ : repr(x.name)
   and of rigid.Ty.__repr__ : repr(x if x.z else x.name) *)
Definition repr_item (c : cls) (x : ob) : str :=
  match c with
  | Mon => repr_name (oname x)
  | Rig => if oz x =? 0 then repr_name (oname x) else repr_ob Rig x
  end.

(* monoidal.Ty.__repr__ / rigid.Ty.__repr__ : "Ty({})".format(', '.join(...)) *)
Definition repr_ty (c : cls) (t : ty) : str := l_Ty ++ sep (repr_item c) t ++ l_rp.

(* '' if self.data is None else ", data=" + repr(self.data) *)
Definition repr_data (d : option Z) : str :=
  match d with None => [] | Some z => l_data ++ repr_int z end.

(* cat.Box.__repr__, the branch of a box that is not a dagger:
   "Box({}, {}, {}{})".format(repr(name), repr(dom), repr(cod), data part) *)
Definition repr_box_plain (c : cls) (b : box) : str :=
  l_Box ++ repr_name (bname b) ++ l_sep ++ repr_ty c (bdom b) ++ l_sep ++ repr_ty c (bcod b)
  ++ repr_data (bdata b) ++ l_rp.

(* monoidal.Swap.__repr__, rigid.Cup.__repr__, rigid.Cap.__repr__ :
   "Swap({}, {})".format(repr(self.left), repr(self.right)); the two one-wire
   types are the halves of the domain (of the codomain for a cap) *)
Definition repr_two (c : cls) (lit : str) (t : ty) : str :=
  lit ++ repr_ty c (firstn 1 t) ++ l_sep ++ repr_ty c (skipn 1 t) ++ l_rp.

(* cat.Box.__repr__ : if self._dagger: repr(self.dagger()) + ".dagger()" *)
Definition repr_box (c : cls) (b : box) : str :=
  match bk b with
  | KBox => if bdag b then repr_box_plain c (box_dagger b) ++ l_dagger
            else repr_box_plain c b
  | KSwap => repr_two c l_Swap (bdom b)
  | KCup => repr_two c l_Cup (bdom b)
  | KCap => repr_two c l_Cap (bcod b)
  end.

(* cat.Id.__repr__ : "Id({})".format(repr(self.dom)) *)
Definition repr_id (c : cls) (t : ty) : str := l_Id ++ repr_ty c t ++ l_rp.

(* monoidal.Diagram.__repr__ :
     if not self.boxes: return repr(self.id(self.dom))
     if len(self.boxes) == 1 and self.dom == self.boxes[0].dom: return repr(self.boxes[0])
     return "Diagram(dom={}, cod={}, boxes={}, offsets={})".format(...) *)
Definition repr_diagram_full (c : cls) (d : diagram) : str :=
  l_Diagram ++ repr_ty c (ddom d) ++ l_cod ++ repr_ty c (dcod d)
  ++ l_boxes ++ repr_list (repr_box c) (dboxes d)
  ++ l_offsets ++ repr_list repr_int (doffs d) ++ l_rp.

Definition repr_diagram (c : cls) (d : diagram) : str :=
  match dboxes d with
  | [] => repr_id c (ddom d)
  | [b] => if ty_eqb (ddom d) (bdom b) then repr_box c b else repr_diagram_full c d
  | _ => repr_diagram_full c d
  end.

(* cat.Sum : terms, dom, cod;  __repr__ returns self.name, which __init__ sets to
   "Sum({})".format(repr(terms)) if terms
   else "Sum([], dom={}, cod={})".format(repr(dom), repr(cod)) *)
Record dsum := DSum { sterms : list diagram; sdom : ty; scod : ty }.

Definition repr_sum (c : cls) (s : dsum) : str :=
  match sterms s with
  | [] => l_Sum0 ++ repr_ty c (sdom s) ++ l_cod ++ repr_ty c (scod s) ++ l_rp
  | _ => l_Sum ++ repr_list (repr_diagram c) (sterms s) ++ l_rp
  end.

(* ------------------------------------------------------------------ equality *)

(* cat.Sum.__eq__ : (dom, cod, terms) == (dom, cod, terms), terms by Diagram.__eq__ *)
Definition sum_eqb (a b : dsum) : bool :=
  ty_eqb (sdom a) (sdom b) && ty_eqb (scod a) (scod b) && list_eqb deqb (sterms a) (sterms b).

(* monoidal.Box.__eq__(self, other) for `other` a Diagram that is not a Box:
     len(other) == 1 and other.boxes[0] == self
     and (other.dom, other.cod) == (self.dom, self.cod)
   (the offsets are NOT compared).  Because Box is a subclass of Diagram that
   overrides __eq__, Python calls this method for `box == d` AND for `d == box`. *)
Definition box_eq_diagram (b : box) (d : diagram) : bool :=
  (len (dboxes d) =? 1)
  && match dboxes d with b' :: _ => box_eqb b' b | [] => false end
  && ty_eqb (ddom d) (bdom b) && ty_eqb (dcod d) (bcod b).

(* monoidal.Diagram.__eq__(d, box), reached when the box's class does not derive
   from the diagram's: the box is read as the diagram it is, boxes == [box],
   offsets == [0] *)
Definition diagram_eq_box (d : diagram) (b : box) : bool := deqb d (dbox b).

(* ------------------------------------------------------------------ hashing *)
Section Hash.
  (* hash of a str, and of a tuple (str, int): arbitrary functions *)
  Variable H : str -> Z.
  Variable H2 : str -> Z -> Z.

  (* cat.Ob.__hash__ : hash(self.name)
     rigid.Ob.__hash__ : hash(self.name if not self.z else (self.name, self.z)) *)
  Definition name_str (k : Z) : str := 110 :: repr_int k.
  Definition hash_ob (x : ob) : Z :=
    if oz x =? 0 then H (name_str (oname x)) else H2 (name_str (oname x)) (oz x).
  (* monoidal.Ty.__hash__, cat.Box.__hash__, monoidal.Box.__hash__,
     monoidal.Diagram.__hash__, cat.Sum.__hash__ : hash(repr(self)) *)
  Definition hash_ty (c : cls) (t : ty) : Z := H (repr_ty c t).
  Definition hash_box (c : cls) (b : box) : Z := H (repr_box c b).
  Definition hash_diagram (c : cls) (d : diagram) : Z := H (repr_diagram c d).
  Definition hash_sum (c : cls) (s : dsum) : Z := H (repr_sum c s).
End Hash.

(* ------------------------------------------------------------------ parsing *)

(* consume a literal *)
Fixpoint expect (lit s : str) : option str :=
  match lit with
  | [] => Some s
  | c :: lit' =>
      match s with
      | c' :: s' => if c =? c' then expect lit' s' else None
      | [] => None
      end
  end.

Definition is_digit (c : Z) : bool := (48 <=? c) && (c <=? 57).

(* the longest prefix of decimal digits, most significant first *)
Fixpoint read_uint (s : str) : Decimal.uint * str :=
  match s with
  | [] => (Decimal.Nil, [])
  | c :: s' =>
      if is_digit c then
        let r := read_uint s' in
        ((if c =? 48 then Decimal.D0 else if c =? 49 then Decimal.D1
          else if c =? 50 then Decimal.D2 else if c =? 51 then Decimal.D3
          else if c =? 52 then Decimal.D4 else if c =? 53 then Decimal.D5
          else if c =? 54 then Decimal.D6 else if c =? 55 then Decimal.D7
          else if c =? 56 then Decimal.D8 else Decimal.D9) (fst r), snd r)
      else (Decimal.Nil, s)
  end.

Definition uint_is_nil (u : Decimal.uint) : bool :=
  match u with Decimal.Nil => true | _ => false end.

(* an int literal: optional '-', at least one digit *)
Definition parse_int (s : str) : option (Z * str) :=
  match s with
  | [] => None
  | c :: s' =>
      if c =? c_minus then
        let r := read_uint s' in
        if uint_is_nil (fst r) then None else Some (Z.of_int (Decimal.Neg (fst r)), snd r)
      else
        let r := read_uint s in
        if uint_is_nil (fst r) then None else Some (Z.of_int (Decimal.Pos (fst r)), snd r)
  end.

(* 'n<k>' *)
Definition parse_name (s : str) : option (Z * str) :=
  match expect l_quote_n s with
  | None => None
  | Some s1 =>
      match parse_int s1 with
      | None => None
      | Some (k, s2) =>
          match expect l_quote s2 with None => None | Some s3 => Some (k, s3) end
      end
  end.

(* Ob('n<k>') or Ob('n<k>', z=<z>) *)
Definition parse_ob (s : str) : option (ob * str) :=
  match expect l_Ob s with
  | None => None
  | Some s1 =>
      match parse_name s1 with
      | None => None
      | Some (k, s2) =>
          match expect l_z s2 with
          | Some s3 =>
              match parse_int s3 with
              | None => None
              | Some (z, s4) =>
                  match expect l_rp s4 with None => None | Some s5 => Some (Ob k z, s5) end
              end
          | None =>
              match expect l_rp s2 with None => None | Some s3 => Some (Ob k 0, s3) end
          end
      end
  end.

(* an argument of Ty(...): a name (Ty wraps it into an object with z = 0) or an Ob *)
Definition parse_item (s : str) : option (ob * str) :=
  match expect l_Ob s with
  | Some _ => parse_ob s
  | None => match parse_name s with None => None | Some (k, r) => Some (Ob k 0, r) end
  end.

Section PList.
  Context {A : Type} (p : str -> option (A * str)) (closer : Z).
  (* x, x, ..., x <closer> : at least one item, each followed by ", " or the closer *)
  Fixpoint parse_items (fuel : nat) (s : str) : option (list A * str) :=
    match fuel with
    | O => None
    | S fuel' =>
        match p s with
        | None => None
        | Some (x, r) =>
            match r with
            | [] => None
            | c :: r' =>
                if c =? closer then Some ([x], r')
                else if c =? c_comma then
                  match r' with
                  | [] => None
                  | c2 :: r'' =>
                      if c2 =? c_space then
                        match parse_items fuel' r'' with
                        | None => None
                        | Some (xs, r3) => Some (x :: xs, r3)
                        end
                      else None
                  end
                else None
            end
        end
    end.
  (* possibly empty, up to and including the closer *)
  Definition parse_list (s : str) : option (list A * str) :=
    match parse_items (List.length s) s with
    | Some r => Some r
    | None =>
        match s with
        | c :: s' => if c =? closer then Some ([], s') else None
        | [] => None
        end
    end.
End PList.

(* Ty(...) *)
Definition parse_ty (s : str) : option (ty * str) :=
  match expect l_Ty s with None => None | Some s1 => parse_list parse_item c_rp s1 end.

(* Box('n<k>', Ty(...), Ty(...)[, data=<int>])[.dagger()]
   -- `.dagger()` is evaluated as cat.Box.dagger does *)
Definition parse_box_plain (s : str) : option (box * str) :=
  match expect l_Box s with
  | None => None
  | Some s1 =>
    match parse_name s1 with
    | None => None
    | Some (k, s2) =>
      match expect l_sep s2 with
      | None => None
      | Some s3 =>
        match parse_ty s3 with
        | None => None
        | Some (dom, s4) =>
          match expect l_sep s4 with
          | None => None
          | Some s5 =>
            match parse_ty s5 with
            | None => None
            | Some (cod, s6) =>
              match expect l_data s6 with
              | Some s7 =>
                  match parse_int s7 with
                  | None => None
                  | Some (dt, s8) =>
                      match expect l_rp s8 with
                      | None => None
                      | Some s9 => Some (Box KBox k dom cod false (Some dt), s9)
                      end
                  end
              | None =>
                  match expect l_rp s6 with
                  | None => None
                  | Some s7 => Some (Box KBox k dom cod false None, s7)
                  end
              end
            end
          end
        end
      end
    end
  end.

(* <lit>Ty(x), Ty(y)) : two one-wire types (ValueError otherwise) *)
Definition parse_two (lit : str) (s : str) : option (ob * ob * str) :=
  match expect lit s with
  | None => None
  | Some s1 =>
    match parse_ty s1 with
    | None => None
    | Some (l, s2) =>
      match expect l_sep s2 with
      | None => None
      | Some s3 =>
        match parse_ty s3 with
        | None => None
        | Some (r, s4) =>
          match expect l_rp s4 with
          | None => None
          | Some s5 =>
              match l, r with
              | [x], [y] => Some (x, y, s5)
              | _, _ => None
              end
          end
        end
      end
    end
  end.

(* rigid.Cup.__init__ / rigid.Cap.__init__ : left.r == right or left == right.r *)
Definition adjoint (x y : ob) : bool :=
  (oname x =? oname y) && ((oz x + 1 =? oz y) || (oz x =? oz y + 1)).

Definition parse_box (s : str) : option (box * str) :=
  match expect l_Box s with
  | Some _ =>
      match parse_box_plain s with
      | None => None
      | Some (b, r) =>
          match expect l_dagger r with
          | Some r' => Some (box_dagger b, r')
          | None => Some (b, r)
          end
      end
  | None =>
  match expect l_Swap s with
  | Some _ =>
      match parse_two l_Swap s with
      | None => None
      | Some (x, y, r) => Some (Box KSwap (-1) [x; y] [y; x] false None, r)
      end
  | None =>
  match expect l_Cup s with
  | Some _ =>
      match parse_two l_Cup s with
      | None => None
      | Some (x, y, r) =>
          if adjoint x y then Some (Box KCup (-2) [x; y] [] false None, r) else None
      end
  | None =>
      match parse_two l_Cap s with
      | None => None
      | Some (x, y, r) =>
          if adjoint x y then Some (Box KCap (-3) [] [x; y] false None, r) else None
      end
  end end end.

(* a diagram expression: Id(Ty(...)) | Diagram(dom=.., cod=.., boxes=[..], offsets=[..])
   | a box expression.  The result is what evaluating the expression builds:
   monoidal.Id, the checking constructor `mk`, or the one-box diagram of a box. *)
Definition parse_id_args (s1 : str) : option (diagram * str) :=
  match parse_ty s1 with
  | None => None
  | Some (t, s2) =>
      match expect l_rp s2 with None => None | Some s3 => Some (did t, s3) end
  end.

Definition parse_diagram_args (s1 : str) : option (diagram * str) :=
  match parse_ty s1 with
  | None => None
  | Some (dom, s2) =>
    match expect l_cod s2 with
    | None => None
    | Some s3 =>
      match parse_ty s3 with
      | None => None
      | Some (cod, s4) =>
        match expect l_boxes s4 with
        | None => None
        | Some s4' =>
        match expect l_lb s4' with
        | None => None
        | Some s5 =>
          match parse_list parse_box c_rb s5 with
          | None => None
          | Some (bs, s6) =>
            match expect l_offsets s6 with
            | None => None
            | Some s6' =>
            match expect l_lb s6' with
            | None => None
            | Some s7 =>
              match parse_list parse_int c_rb s7 with
              | None => None
              | Some (offs, s8) =>
                match expect l_rp s8 with
                | None => None
                | Some s9 =>
                    match mk dom cod bs offs with
                    | Ok d => Some (d, s9)
                    | Err _ => None
                    end
                end
              end
            end end
          end
        end end
      end
    end
  end.

Definition parse_diagram (s : str) : option (diagram * str) :=
  match expect l_Id s with
  | Some s1 => parse_id_args s1
  | None =>
  match expect l_Diagram s with
  | Some s1 => parse_diagram_args s1
  | None =>
      match parse_box s with
      | None => None
      | Some (b, r) => Some (dbox b, r)
      end
  end end.

(* cat.Sum.__init__ : every term has the sum's dom and cod (AxiomError otherwise) *)
Definition sum_mk (terms : list diagram) (dom cod : ty) : option dsum :=
  if forallb (fun d => ty_eqb (ddom d) dom && ty_eqb (dcod d) cod) terms
  then Some (DSum terms dom cod) else None.

(* Sum([], dom=Ty(..), cod=Ty(..)) | Sum([d, d, ...]) *)
Definition parse_sum (s : str) : option (dsum * str) :=
  match expect l_Sum0 s with
  | Some s1 =>
      match parse_ty s1 with
      | None => None
      | Some (dom, s2) =>
          match expect l_cod s2 with
          | None => None
          | Some s3 =>
              match parse_ty s3 with
              | None => None
              | Some (cod, s4) =>
                  match expect l_rp s4 with
                  | None => None
                  | Some s5 => Some (DSum [] dom cod, s5)
                  end
              end
          end
      end
  | None =>
      match expect l_Sum s with
      | None => None
      | Some s0 =>
      match expect l_lb s0 with
      | None => None
      | Some s1 =>
          match parse_list parse_diagram c_rb s1 with
          | None => None
          | Some (ts, s2) =>
              match expect l_rp s2 with
              | None => None
              | Some s3 =>
                  match ts with
                  | [] => None     (* Sum([]) without types: ValueError *)
                  | t0 :: _ =>
                      match sum_mk ts (ddom t0) (dcod t0) with
                      | None => None
                      | Some v => Some (v, s3)
                      end
                  end
              end
          end
      end end
  end.

(* whole-string versions: nothing may be left over *)
Definition whole {A} (r : option (A * str)) : option A :=
  match r with Some (v, []) => Some v | _ => None end.

(* ------------------------------------------------- what real values look like *)

(* types of the plain monoidal class carry no winding numbers *)
Definition ty_ok (c : cls) (t : ty) : bool :=
  match c with Mon => forallb (fun x => oz x =? 0) t | Rig => true end.

(* the boxes the library builds: named boxes over types of the class; Swap /
   Cup / Cap objects have no dagger flag and no data, two wires, and the name
   the canonical observation gives them; cups and caps join adjoint wires and
   exist in the rigid class only *)
Definition box_ok (c : cls) (b : box) : bool :=
  match bk b with
  | KBox => ty_ok c (bdom b) && ty_ok c (bcod b)
  | KSwap =>
      match bdom b with
      | [x; y] => box_eqb b (Box KSwap (-1) [x; y] [y; x] false None) && ty_ok c [x; y]
      | _ => false
      end
  | KCup =>
      match c, bdom b with
      | Rig, [x; y] => box_eqb b (Box KCup (-2) [x; y] [] false None) && adjoint x y
      | _, _ => false
      end
  | KCap =>
      match c, bcod b with
      | Rig, [x; y] => box_eqb b (Box KCap (-3) [] [x; y] false None) && adjoint x y
      | _, _ => false
      end
  end.

Definition diagram_ok (c : cls) (d : diagram) : bool :=
  ty_ok c (ddom d) && ty_ok c (dcod d) && forallb (box_ok c) (dboxes d).

Definition sum_ok (c : cls) (s : dsum) : bool :=
  ty_ok c (sdom s) && ty_ok c (scod s) && forallb (diagram_ok c) (sterms s)
  && forallb (fun d => ty_eqb (ddom d) (sdom s) && ty_eqb (dcod d) (scod s)) (sterms s).

(* ------------------------------------------------------------------ wire codec *)
(* requests:  (0 c ty) (1 c box) (2 c dom cod boxes offs) (3 c dom cod ((dom cod boxes offs) ...))
              (4 c ob)                                     -> (0 codes)      repr
              (10 t t') (11 b b') (12 d d') (13 s s')      -> (0 0|1)        __eq__
              (14 box d)  -> (0 (Box.__eq__ Diagram.__eq__))
              (20 kind codes) kind 0 ty / 1 box / 2 diagram / 3 sum
                    -> (0 encoded value) | (1 8)                             parse *)
Definition dec_cls (s : sexp) : res cls :=
  match s with I 0 => Ok Mon | I 1 => Ok Rig | _ => Err BadProgram end.

(* a diagram as data: the layer view plays no part in ==, hash or repr *)
Definition raw (dom cod : ty) (bs : list box) (offs : list Z) : diagram :=
  D dom cod bs offs (la_id dom).

Definition dec_raw (s : sexp) : res diagram :=
  match s with
  | L [d; c; bs; offs] =>
      do d' <- dec_ty d; do c' <- dec_ty c; do bs' <- dec_boxes bs; do o' <- sx_ints offs;
      Ok (raw d' c' bs' o')
  | _ => Err BadProgram
  end.

Definition dec_sum (s : sexp) : res dsum :=
  match s with
  | L [d; c; ts] =>
      do d' <- dec_ty d; do c' <- dec_ty c; do l <- sx_list ts; do ts' <- mapM dec_raw l;
      Ok (DSum ts' d' c')
  | _ => Err BadProgram
  end.

Definition enc_raw (d : diagram) : sexp :=
  L [enc_ty (ddom d); enc_ty (dcod d); L (map enc_box (dboxes d)); of_ints (doffs d)].
Definition enc_sum (s : dsum) : sexp :=
  L [enc_ty (sdom s); enc_ty (scod s); L (map enc_raw (sterms s))].

Definition ok_str (s : str) : sexp := L [I 0; of_ints s].
Definition ok_bool (b : bool) : sexp := L [I 0; of_bool b].
Definition bad : sexp := L [I 1; I (err_code BadProgram)].
Definition ok_opt {A} (enc : A -> sexp) (o : option A) : sexp :=
  match o with Some v => L [I 0; enc v] | None => L [I 1; I (err_code ValueError)] end.

Definition out {A} (r : res A) (k : A -> sexp) : sexp :=
  match r with Ok a => k a | Err _ => bad end.

Definition run_sexp (s : sexp) : sexp :=
  match s with
  | L [I 0; c; t] => out (dec_cls c) (fun c' => out (dec_ty t) (fun t' => ok_str (repr_ty c' t')))
  | L [I 1; c; b] => out (dec_cls c) (fun c' => out (dec_box b) (fun b' => ok_str (repr_box c' b')))
  | L [I 2; c; d; cd; bs; offs] =>
      out (dec_cls c) (fun c' => out (dec_raw (L [d; cd; bs; offs]))
        (fun d' => ok_str (repr_diagram c' d')))
  | L [I 3; c; d; cd; ts] =>
      out (dec_cls c) (fun c' => out (dec_sum (L [d; cd; ts])) (fun s' => ok_str (repr_sum c' s')))
  | L [I 4; c; x] => out (dec_cls c) (fun c' => out (dec_ob x) (fun x' => ok_str (repr_ob c' x')))
  | L [I 10; a; b] => out (dec_ty a) (fun a' => out (dec_ty b) (fun b' => ok_bool (ty_eqb a' b')))
  | L [I 11; a; b] => out (dec_box a) (fun a' => out (dec_box b) (fun b' => ok_bool (box_eqb a' b')))
  | L [I 12; a; b] => out (dec_raw a) (fun a' => out (dec_raw b) (fun b' => ok_bool (deqb a' b')))
  | L [I 13; a; b] => out (dec_sum a) (fun a' => out (dec_sum b) (fun b' => ok_bool (sum_eqb a' b')))
  | L [I 14; b; d] =>
      out (dec_box b) (fun b' => out (dec_raw d) (fun d' =>
        L [I 0; L [of_bool (box_eq_diagram b' d'); of_bool (diagram_eq_box d' b')]]))
  | L [I 20; I k; cs] =>
      out (sx_ints cs) (fun cs' =>
        if k =? 0 then ok_opt enc_ty (whole (parse_ty cs'))
        else if k =? 1 then ok_opt enc_box (whole (parse_box cs'))
        else if k =? 2 then ok_opt enc_raw (whole (parse_diagram cs'))
        else if k =? 3 then ok_opt enc_sum (whole (parse_sum cs'))
        else bad)
  | _ => bad
  end.
