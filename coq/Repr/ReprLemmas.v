(* Proofs about Repr/Repr.v: equality is an equivalence deciding sameness of the
   four public fields, a box equals the diagram that wraps it (both methods
   agree on everything the constructor accepts), equal values print identically
   (hence hash identically for every hash function), and the printed constructor
   syntax parses back to an equal value (codec theorem), so repr is injective. *)
From Coq Require Import List ZArith Bool Lia.
From Coq Require Decimal DecimalZ DecimalPos.
Import ListNotations.
Require Import DV.Common.Base DV.Common.ListLemmas DV.Core.Diagram DV.Core.WF
  DV.Core.DiagramLemmas DV.Core.Prog DV.Repr.Repr.
Open Scope Z_scope.

(* ================================================================ equality *)

Lemma ob_eqb_refl a : ob_eqb a a = true.
Proof. now apply ob_eqb_eq. Qed.

Lemma deq_refl d : deqb d d = true.
Proof. apply deqb_eq; auto. Qed.
Lemma deq_sym a b : deqb a b = deqb b a.
Proof.
  destruct (deqb a b) eqn:E1, (deqb b a) eqn:E2; auto.
  - apply deqb_eq in E1. assert (deqb b a = true) by (apply deqb_eq; intuition). congruence.
  - apply deqb_eq in E2. assert (deqb a b = true) by (apply deqb_eq; intuition). congruence.
Qed.
Lemma deq_trans a b c : deqb a b = true -> deqb b c = true -> deqb a c = true.
Proof.
  rewrite !deqb_eq. intros (A1 & A2 & A3 & A4) (B1 & B2 & B3 & B4).
  repeat split; congruence.
Qed.

Lemma ty_eq_sym a b : ty_eqb a b = ty_eqb b a.
Proof.
  destruct (ty_eqb a b) eqn:E1, (ty_eqb b a) eqn:E2; auto.
  - apply ty_eqb_eq in E1. subst. now rewrite ty_eqb_refl in E2.
  - apply ty_eqb_eq in E2. subst. now rewrite ty_eqb_refl in E1.
Qed.
Lemma ty_eq_trans a b c : ty_eqb a b = true -> ty_eqb b c = true -> ty_eqb a c = true.
Proof. rewrite !ty_eqb_eq. congruence. Qed.

Lemma box_eq_sym a b : box_eqb a b = box_eqb b a.
Proof.
  destruct (box_eqb a b) eqn:E1, (box_eqb b a) eqn:E2; auto.
  - apply box_eqb_eq in E1. subst. now rewrite box_eqb_refl in E2.
  - apply box_eqb_eq in E2. subst. now rewrite box_eqb_refl in E1.
Qed.
Lemma box_eq_trans a b c : box_eqb a b = true -> box_eqb b c = true -> box_eqb a c = true.
Proof. rewrite !box_eqb_eq. congruence. Qed.

(* list_eqb over an equivalence that is not Leibniz equality (sum terms) *)
Lemma list_eqb_refl' {A} (e : A -> A -> bool) : (forall x, e x x = true) ->
  forall l, list_eqb e l l = true.
Proof. intros R. induction l; cbn; auto. now rewrite R, IHl. Qed.
Lemma list_eqb_sym' {A} (e : A -> A -> bool) : (forall x y, e x y = e y x) ->
  forall a b, list_eqb e a b = list_eqb e b a.
Proof.
  intros S. induction a as [|x a IH]; destruct b as [|y b]; cbn; auto.
  now rewrite S, IH.
Qed.
Lemma list_eqb_trans' {A} (e : A -> A -> bool) :
  (forall x y z, e x y = true -> e y z = true -> e x z = true) ->
  forall a b c, list_eqb e a b = true -> list_eqb e b c = true -> list_eqb e a c = true.
Proof.
  intros T. induction a as [|x a IH]; destruct b as [|y b], c as [|z c]; cbn; auto; try discriminate.
  rewrite !andb_true_iff. intros [] []. split; eauto.
Qed.

Lemma sum_eq_refl s : sum_eqb s s = true.
Proof. unfold sum_eqb. now rewrite !ty_eqb_refl, (list_eqb_refl' deqb deq_refl). Qed.
Lemma sum_eq_sym a b : sum_eqb a b = sum_eqb b a.
Proof.
  unfold sum_eqb. now rewrite (ty_eq_sym (sdom a)), (ty_eq_sym (scod a)), (list_eqb_sym' deqb deq_sym).
Qed.
Lemma sum_eq_trans a b c : sum_eqb a b = true -> sum_eqb b c = true -> sum_eqb a c = true.
Proof.
  unfold sum_eqb. rewrite !andb_true_iff. intros [[A1 A2] A3] [[B1 B2] B3].
  repeat split; eauto using ty_eq_trans, (list_eqb_trans' deqb deq_trans).
Qed.

(* pointwise description of list_eqb deqb *)
Lemma sum_eqb_iff a b : sum_eqb a b = true <->
  sdom a = sdom b /\ scod a = scod b /\
  Forall2 (fun x y => ddom x = ddom y /\ dcod x = dcod y /\ dboxes x = dboxes y /\ doffs x = doffs y)
          (sterms a) (sterms b).
Proof.
  unfold sum_eqb. rewrite !andb_true_iff, !ty_eqb_eq.
  assert (L : forall l1 l2, list_eqb deqb l1 l2 = true <->
     Forall2 (fun x y => ddom x = ddom y /\ dcod x = dcod y /\ dboxes x = dboxes y /\ doffs x = doffs y) l1 l2).
  { induction l1 as [|x l1 IH]; destruct l2 as [|y l2]; cbn.
    - split; auto.
    - split; [discriminate|intros H; inversion H].
    - split; [discriminate|intros H; inversion H].
    - rewrite andb_true_iff, deqb_eq, IH. split.
      + intros []; constructor; auto.
      + intros H; inversion H; subst; auto. }
  rewrite L. tauto.
Qed.

(* ====================================================== box vs one-box diagram *)

Lemma box_eq_diagram_iff b d : box_eq_diagram b d = true <->
  dboxes d = [b] /\ ddom d = bdom b /\ dcod d = bcod b.
Proof.
  unfold box_eq_diagram. rewrite !andb_true_iff, !ty_eqb_eq, Z.eqb_eq.
  destruct (dboxes d) as [|b' [|b'' l]]; cbn.
  - split; [intros [[[? ?] ?] ?]; discriminate|intros [? _]; discriminate].
  - rewrite box_eqb_eq. split; [intros [[[? ?] ?] ?]; subst; auto|intros [H [? ?]]; inversion H; auto].
  - split.
    + intros [[[H ?] ?] ?]. unfold len in H. cbn in H. lia.
    + intros [H _]. discriminate.
Qed.

Lemma diagram_eq_box_iff d b : diagram_eq_box d b = true <->
  dboxes d = [b] /\ ddom d = bdom b /\ dcod d = bcod b /\ doffs d = [0].
Proof. unfold diagram_eq_box. rewrite deqb_eq. cbn. tauto. Qed.

(* a well-typed diagram with exactly one box whose domain is the diagram's domain
   is that box at offset 0 *)
Lemma wf_one_box d b : wf d -> dboxes d = [b] -> ddom d = bdom b ->
  dcod d = bcod b /\ doffs d = [0].
Proof.
  intros (W1 & W2 & W3 & W4 & W5) Hb Hd.
  destruct (la_ls (dlayers d)) as [|l [|l' ls]] eqn:E; rewrite Hb in W4; cbn in W4; try discriminate.
  inversion W4; subst b. unfold la_wf in W3. rewrite E in W3. cbn in W3. destruct W3 as [C1 C2].
  rewrite W1 in C1. rewrite Hd in C1. unfold ldom in C1.
  assert (Hl : lleft l = [] /\ lright l = []).
  { apply (f_equal (@length ob)) in C1. rewrite !app_length in C1.
    split; apply length_zero_iff_nil; lia. }
  destruct Hl as [Hl Hr]. rewrite W5. cbn. rewrite Hl. split; [|reflexivity].
  rewrite <- W2, <- C2. unfold lcod. rewrite Hl, Hr. cbn. now rewrite app_nil_r.
Qed.

Lemma wf_no_box d : wf d -> dboxes d = [] -> dcod d = ddom d /\ doffs d = [].
Proof.
  intros (W1 & W2 & W3 & W4 & W5) Hb.
  destruct (la_ls (dlayers d)) as [|l ls] eqn:E; rewrite Hb in W4; cbn in W4; try discriminate.
  unfold la_wf in W3. rewrite E in W3. cbn in W3. rewrite W5. cbn. split; congruence.
Qed.

(* the two equality methods agree on every well-typed diagram *)
Lemma box_eq_diagram_wf b d : wf d -> box_eq_diagram b d = diagram_eq_box d b.
Proof.
  intros W. destruct (box_eq_diagram b d) eqn:E1, (diagram_eq_box d b) eqn:E2; auto.
  - apply box_eq_diagram_iff in E1. destruct E1 as (A & B & C).
    destruct (wf_one_box d b W A B) as [_ O].
    assert (diagram_eq_box d b = true) by (apply diagram_eq_box_iff; auto). congruence.
  - apply diagram_eq_box_iff in E2. destruct E2 as (A & B & C & _).
    assert (box_eq_diagram b d = true) by (apply box_eq_diagram_iff; auto). congruence.
Qed.

Lemma box_eq_diagram_mk b dom cod bs offs d : mk dom cod bs offs = Ok d ->
  box_eq_diagram b d = diagram_eq_box d b.
Proof. intros H. apply box_eq_diagram_wf. eapply mk_wf; eauto. Qed.

Lemma box_eq_wrap b : box_eq_diagram b (dbox b) = true /\ diagram_eq_box (dbox b) b = true.
Proof. split; [apply box_eq_diagram_iff|apply diagram_eq_box_iff]; cbn; auto. Qed.

(* without well-typedness the two methods differ: Box.__eq__ ignores offsets *)
Example box_eq_methods_differ_on_ill_typed :
  let b := Box KBox 5 [] [] false None in
  let d := raw [] [] [b] [3] in
  box_eq_diagram b d = true /\ diagram_eq_box d b = false.
Proof. vm_compute. auto. Qed.

(* ========================================= equal values print and hash alike *)

Lemma deq_repr c a b : deqb a b = true -> repr_diagram c a = repr_diagram c b.
Proof.
  rewrite deqb_eq. intros (A1 & A2 & A3 & A4).
  unfold repr_diagram, repr_diagram_full. now rewrite A1, A2, A3, A4.
Qed.

Lemma ty_eq_repr c a b : ty_eqb a b = true -> repr_ty c a = repr_ty c b.
Proof. rewrite ty_eqb_eq. congruence. Qed.
Lemma box_eq_repr c a b : box_eqb a b = true -> repr_box c a = repr_box c b.
Proof. rewrite box_eqb_eq. congruence. Qed.

Lemma sep_deq c l1 : forall l2, list_eqb deqb l1 l2 = true ->
  sep (repr_diagram c) l1 = sep (repr_diagram c) l2.
Proof.
  induction l1 as [|x l1 IH]; destruct l2 as [|y l2]; cbn [list_eqb]; try discriminate; auto.
  rewrite andb_true_iff. intros [E1 E2]. specialize (IH _ E2).
  destruct l1, l2; cbn [list_eqb] in E2; try discriminate; cbn [sep] in *.
  - now apply deq_repr.
  - rewrite (deq_repr c _ _ E1). now rewrite IH.
Qed.

Lemma sum_eq_repr c a b : sum_eqb a b = true -> repr_sum c a = repr_sum c b.
Proof.
  unfold sum_eqb. rewrite !andb_true_iff, !ty_eqb_eq. intros [[A1 A2] A3].
  unfold repr_sum, repr_list. rewrite A1, A2, (sep_deq c _ _ A3).
  destruct (sterms a), (sterms b); cbn in A3; try discriminate; reflexivity.
Qed.

(* a box and a diagram that Box.__eq__ declares equal print alike *)
Lemma box_eq_diagram_repr c b d : box_eq_diagram b d = true -> repr_diagram c d = repr_box c b.
Proof.
  rewrite box_eq_diagram_iff. intros (A & B & C). unfold repr_diagram. rewrite A, B.
  now rewrite ty_eqb_refl.
Qed.

Section HashFacts.
  Variable H : str -> Z.
  Variable H2 : str -> Z -> Z.
  Lemma hash_ob_consistent a b : ob_eqb a b = true -> hash_ob H H2 a = hash_ob H H2 b.
  Proof. rewrite ob_eqb_eq. congruence. Qed.
  Lemma hash_ty_consistent c a b : ty_eqb a b = true -> hash_ty H c a = hash_ty H c b.
  Proof. unfold hash_ty. intros E. now rewrite (ty_eq_repr c a b E). Qed.
  Lemma hash_box_consistent c a b : box_eqb a b = true -> hash_box H c a = hash_box H c b.
  Proof. unfold hash_box. intros E. now rewrite (box_eq_repr c a b E). Qed.
  Lemma hash_diagram_consistent c a b : deqb a b = true -> hash_diagram H c a = hash_diagram H c b.
  Proof. unfold hash_diagram. intros E. now rewrite (deq_repr c a b E). Qed.
  Lemma hash_sum_consistent c a b : sum_eqb a b = true -> hash_sum H c a = hash_sum H c b.
  Proof. unfold hash_sum. intros E. now rewrite (sum_eq_repr c a b E). Qed.
  Lemma hash_box_diagram_consistent c b d : box_eq_diagram b d = true ->
    hash_diagram H c d = hash_box H c b.
  Proof. unfold hash_diagram, hash_box. intros E. now rewrite (box_eq_diagram_repr c b d E). Qed.
End HashFacts.

(* ============================================================ codec: parsing *)

Lemma expect_app lit rest : expect lit (lit ++ rest) = Some rest.
Proof. induction lit as [|c lit IH]; cbn; [reflexivity|]. now rewrite Z.eqb_refl. Qed.

(* characters that may follow a printed value: ',' ')' ']' or the end *)
Definition fol (s : str) : bool :=
  match s with [] => true | c :: _ => (c =? 44) || (c =? 41) || (c =? 93) end.
Definition nodigit (s : str) : bool :=
  match s with [] => true | c :: _ => negb (is_digit c) end.

Lemma fol_nodigit s : fol s = true -> nodigit s = true.
Proof.
  destruct s as [|c s]; cbn; auto. rewrite !orb_true_iff, !Z.eqb_eq.
  intros [[->| ->]| ->]; reflexivity.
Qed.
Lemma fol_no_dagger s : fol s = true -> expect l_dagger s = None.
Proof.
  destruct s as [|c s]; cbn; auto. rewrite !orb_true_iff, !Z.eqb_eq.
  intros [[->| ->]| ->]; reflexivity.
Qed.
Lemma fol_comma s : fol (c_comma :: s) = true. Proof. reflexivity. Qed.
Lemma fol_rp s : fol (c_rp :: s) = true. Proof. reflexivity. Qed.
Lemma fol_rb s : fol (c_rb :: s) = true. Proof. reflexivity. Qed.

Lemma read_uint_codes u : forall rest, nodigit rest = true ->
  read_uint (uint_codes u ++ rest) = (u, rest).
Proof.
  induction u; intros rest Hr; cbn [uint_codes app];
    try (cbn [read_uint]; rewrite (IHu rest Hr); reflexivity).
  destruct rest as [|c rest]; cbn in *; auto.
  apply negb_true_iff in Hr. now rewrite Hr.
Qed.

Lemma to_int_nonnil z : match Z.to_int z with Decimal.Pos u | Decimal.Neg u => u <> Decimal.Nil end.
Proof.
  destruct z; cbn; try apply DecimalPos.Unsigned.to_uint_nonnil. discriminate.
Qed.

Lemma parse_int_pos u rest : u <> Decimal.Nil -> nodigit rest = true ->
  parse_int (uint_codes u ++ rest) = Some (Z.of_int (Decimal.Pos u), rest).
Proof.
  intros Hu Hr. unfold parse_int. rewrite (read_uint_codes u rest Hr).
  destruct u; try congruence; reflexivity.
Qed.

Lemma parse_int_repr z rest : nodigit rest = true ->
  parse_int (repr_int z ++ rest) = Some (z, rest).
Proof.
  intros Hr. unfold repr_int. pose proof (to_int_nonnil z) as Hn.
  pose proof (DecimalZ.of_to z) as Hz.
  destruct (Z.to_int z) as [u|u] eqn:E.
  - rewrite parse_int_pos by auto. now rewrite Hz.
  - cbn [app]. unfold parse_int. unfold c_minus. rewrite Z.eqb_refl.
    rewrite (read_uint_codes u rest Hr). cbn [fst snd].
    destruct u; try congruence; cbn [uint_is_nil]; now rewrite Hz.
Qed.

Lemma parse_name_repr k rest : parse_name (repr_name k ++ rest) = Some (k, rest).
Proof.
  unfold parse_name, repr_name. rewrite <- !app_assoc, expect_app.
  rewrite parse_int_repr by reflexivity. now rewrite expect_app.
Qed.

Lemma ob_eta x : Ob (oname x) (oz x) = x.
Proof. now destruct x. Qed.

Lemma parse_ob_repr x rest : parse_ob (repr_ob Rig x ++ rest) = Some (x, rest).
Proof.
  unfold parse_ob, repr_ob. rewrite <- !app_assoc, expect_app, parse_name_repr.
  destruct (oz x =? 0) eqn:Ez.
  - apply Z.eqb_eq in Ez. cbn [app]. replace (expect l_z (l_rp ++ rest)) with (@None str) by reflexivity.
    rewrite expect_app. rewrite <- Ez. now rewrite ob_eta.
  - rewrite <- !app_assoc, expect_app. rewrite parse_int_repr by reflexivity.
    rewrite expect_app. now rewrite ob_eta.
Qed.

Lemma parse_ob_repr_mon x rest : oz x = 0 -> parse_ob (repr_ob Mon x ++ rest) = Some (x, rest).
Proof.
  intros Ez. unfold parse_ob, repr_ob. rewrite <- !app_assoc, expect_app, parse_name_repr.
  replace (expect l_z (l_rp ++ rest)) with (@None str) by reflexivity.
  rewrite expect_app. rewrite <- Ez. now rewrite ob_eta.
Qed.

Definition ob_ok (c : cls) (x : ob) : bool := match c with Mon => oz x =? 0 | Rig => true end.

Lemma expect_Ob_name k rest : expect l_Ob (repr_name k ++ rest) = None.
Proof. reflexivity. Qed.

Lemma parse_item_repr c x rest : ob_ok c x = true ->
  parse_item (repr_item c x ++ rest) = Some (x, rest).
Proof.
  intros Hx. unfold parse_item, repr_item.
  assert (Hname : oz x = 0 ->
    match expect l_Ob (repr_name (oname x) ++ rest) with
    | Some _ => parse_ob (repr_name (oname x) ++ rest)
    | None => match parse_name (repr_name (oname x) ++ rest) with
              | None => None | Some (k, r) => Some (Ob k 0, r) end
    end = Some (x, rest)).
  { intros Ez. rewrite expect_Ob_name, parse_name_repr. rewrite <- Ez. now rewrite ob_eta. }
  destruct c.
  - apply Hname. now apply Z.eqb_eq.
  - destruct (oz x =? 0) eqn:Ez; [apply Hname; now apply Z.eqb_eq|].
    replace (expect l_Ob (repr_ob Rig x ++ rest)) with (Some (repr_name (oname x) ++
      (if oz x =? 0 then [] else l_z ++ repr_int (oz x)) ++ l_rp ++ rest)).
    + apply parse_ob_repr.
    + unfold repr_ob. now rewrite <- !app_assoc, expect_app.
Qed.

(* ---- separated lists ---- *)
Lemma sep_cons2 {A} (f : A -> str) x y l : sep f (x :: y :: l) = f x ++ l_sep ++ sep f (y :: l).
Proof. reflexivity. Qed.

Lemma sep_length {A} (f : A -> str) l : (length l <= S (length (sep f l)))%nat.
Proof.
  induction l as [|x [|y l] IH]; cbn [length sep] in *; try lia.
  rewrite !app_length. cbn [length l_sep]. lia.
Qed.

Section PListFacts.
  Context {A : Type} (p : str -> option (A * str)) (f : A -> str) (closer : Z).
  Hypothesis Hc : closer = c_rp \/ closer = c_rb.

  Lemma parse_items_sep l : forall fuel rest, l <> [] -> (length l <= fuel)%nat ->
    (forall x r, In x l -> fol r = true -> p (f x ++ r) = Some (x, r)) ->
    parse_items p closer fuel (sep f l ++ closer :: rest) = Some (l, rest).
  Proof.
    induction l as [|x [|y l] IH]; intros fuel rest Hne Hf Hp; [congruence| |].
    - destruct fuel; [cbn in Hf; lia|]. cbn [sep parse_items].
      rewrite Hp; [|now left|destruct Hc; subst; reflexivity].
      now rewrite Z.eqb_refl.
    - destruct fuel; [cbn in Hf; lia|]. rewrite sep_cons2, <- !app_assoc. cbn [parse_items].
      rewrite Hp; [|now left|reflexivity].
      change (l_sep ++ sep f (y :: l) ++ closer :: rest)
        with (c_comma :: c_space :: (sep f (y :: l) ++ closer :: rest)).
      cbv beta iota.
      replace (c_comma =? closer) with false by (destruct Hc; subst; reflexivity).
      rewrite !Z.eqb_refl. rewrite IH; auto; [discriminate|cbn in *; lia|].
      intros; apply Hp; auto. now right.
  Qed.

  Lemma parse_list_sep l rest :
    (forall r, p (closer :: r) = None) ->
    (forall x r, In x l -> fol r = true -> p (f x ++ r) = Some (x, r)) ->
    parse_list p closer (sep f l ++ closer :: rest) = Some (l, rest).
  Proof.
    intros Hn Hp. unfold parse_list. destruct l as [|x l].
    - cbn [sep app length parse_items]. rewrite Hn. now rewrite Z.eqb_refl.
    - rewrite parse_items_sep; auto; [discriminate|].
      rewrite app_length. pose proof (sep_length f (x :: l)). cbn [length] in *. lia.
  Qed.
End PListFacts.

(* ---- types ---- *)
Lemma ty_ok_forall c t : ty_ok c t = true -> forall x, In x t -> ob_ok c x = true.
Proof.
  destruct c; cbn; auto. rewrite forallb_forall. auto.
Qed.

Lemma parse_ty_repr c t rest : ty_ok c t = true ->
  parse_ty (repr_ty c t ++ rest) = Some (t, rest).
Proof.
  intros Ht. unfold parse_ty, repr_ty. rewrite <- !app_assoc, expect_app.
  change (l_rp ++ rest) with (c_rp :: rest).
  apply parse_list_sep; [now left|reflexivity|].
  intros x r Hx _. apply parse_item_repr. eapply ty_ok_forall; eauto.
Qed.

(* ---- boxes ---- *)
Lemma parse_box_plain_repr c b rest : ty_ok c (bdom b) = true -> ty_ok c (bcod b) = true ->
  parse_box_plain (repr_box_plain c b ++ rest)
  = Some (Box KBox (bname b) (bdom b) (bcod b) false (bdata b), rest).
Proof.
  intros Hd Hc. unfold parse_box_plain, repr_box_plain.
  rewrite <- !app_assoc, expect_app, parse_name_repr, expect_app.
  rewrite parse_ty_repr by auto. rewrite expect_app. rewrite parse_ty_repr by auto.
  destruct (bdata b) as [z|]; cbn [repr_data].
  - rewrite <- !app_assoc, expect_app. rewrite parse_int_repr by reflexivity.
    now rewrite expect_app.
  - cbn [app]. replace (expect l_data (l_rp ++ rest)) with (@None str) by reflexivity.
    now rewrite expect_app.
Qed.

Lemma expect_Box_plain c b r : expect l_Box (repr_box_plain c b ++ r) <> None.
Proof. unfold repr_box_plain. rewrite <- !app_assoc, expect_app. discriminate. Qed.

Lemma ty_ok_two c x y : ty_ok c [x; y] = true -> ty_ok c [x] = true /\ ty_ok c [y] = true.
Proof. destruct c; cbn; auto. rewrite !andb_true_iff. tauto. Qed.

Lemma parse_two_repr c lit x y rest : ty_ok c [x] = true -> ty_ok c [y] = true ->
  parse_two lit (lit ++ repr_ty c [x] ++ l_sep ++ repr_ty c [y] ++ l_rp ++ rest) = Some (x, y, rest).
Proof.
  intros Hx Hy. unfold parse_two. rewrite expect_app. rewrite parse_ty_repr by auto.
  rewrite expect_app. rewrite parse_ty_repr by auto. now rewrite expect_app.
Qed.

Lemma parse_box_swap X : parse_box (l_Swap ++ X) =
  match parse_two l_Swap (l_Swap ++ X) with
  | None => None
  | Some (x, y, r) => Some (Box KSwap (-1) [x; y] [y; x] false None, r)
  end.
Proof. reflexivity. Qed.
Lemma parse_box_cup X : parse_box (l_Cup ++ X) =
  match parse_two l_Cup (l_Cup ++ X) with
  | None => None
  | Some (x, y, r) => if adjoint x y then Some (Box KCup (-2) [x; y] [] false None, r) else None
  end.
Proof. reflexivity. Qed.
Lemma parse_box_cap X : parse_box (l_Cap ++ X) =
  match parse_two l_Cap (l_Cap ++ X) with
  | None => None
  | Some (x, y, r) => if adjoint x y then Some (Box KCap (-3) [] [x; y] false None, r) else None
  end.
Proof. reflexivity. Qed.

Lemma parse_box_repr c b rest : box_ok c b = true -> fol rest = true ->
  parse_box (repr_box c b ++ rest) = Some (b, rest).
Proof.
  destruct b as [k n dom cod dag data]. unfold box_ok, repr_box. cbn [bk bdag bdom bcod bname bdata].
  destruct k.
  - rewrite andb_true_iff. intros [Hd Hc] Hf. destruct dag.
    + unfold box_dagger. cbn [bk bdag bdom bcod bname bdata negb]. rewrite <- app_assoc.
      unfold parse_box.
      destruct (expect l_Box (repr_box_plain c (Box KBox n cod dom false data) ++ l_dagger ++ rest)) eqn:E;
        [|now apply expect_Box_plain in E].
      rewrite parse_box_plain_repr by auto. rewrite expect_app. reflexivity.
    + unfold parse_box.
      destruct (expect l_Box (repr_box_plain c (Box KBox n dom cod false data) ++ rest)) eqn:E;
        [|now apply expect_Box_plain in E].
      rewrite parse_box_plain_repr by auto. now rewrite fol_no_dagger.
  - destruct dom as [|x [|y [|? ?]]]; try discriminate.
    rewrite andb_true_iff, box_eqb_eq. intros [Hb Ht] Hf. rewrite Hb.
    apply ty_ok_two in Ht. destruct Ht. unfold repr_two. cbn [firstn skipn].
    rewrite <- !app_assoc, parse_box_swap, parse_two_repr; auto.
  - destruct c; [discriminate|]. destruct dom as [|x [|y [|? ?]]]; try discriminate.
    rewrite andb_true_iff, box_eqb_eq. intros [Hb Ha] Hf. rewrite Hb.
    unfold repr_two. cbn [firstn skipn].
    rewrite <- !app_assoc, parse_box_cup, parse_two_repr; auto. now rewrite Ha.
  - destruct c; [discriminate|]. destruct cod as [|x [|y [|? ?]]]; try discriminate.
    rewrite andb_true_iff, box_eqb_eq. intros [Hb Ha] Hf. rewrite Hb.
    unfold repr_two. cbn [firstn skipn].
    rewrite <- !app_assoc, parse_box_cap, parse_two_repr; auto. now rewrite Ha.
Qed.

(* every printed box starts with one of the four constructor names *)
Lemma repr_box_head c b : exists lit tail, repr_box c b = lit ++ tail /\
  (lit = l_Box \/ lit = l_Swap \/ lit = l_Cup \/ lit = l_Cap).
Proof.
  unfold repr_box, repr_box_plain, repr_two. destruct (bk b); [destruct (bdag b)| | |];
    rewrite <- ?app_assoc; eauto 10.
Qed.

Lemma parse_diagram_box X lit : (lit = l_Box \/ lit = l_Swap \/ lit = l_Cup \/ lit = l_Cap) ->
  parse_diagram (lit ++ X) =
  match parse_box (lit ++ X) with None => None | Some (b, r) => Some (dbox b, r) end.
Proof. intros [->|[->|[->| ->]]]; reflexivity. Qed.

(* ---- diagrams ---- *)
Lemma wf_mk d : wf d -> exists d', mk (ddom d) (dcod d) (dboxes d) (doffs d) = Ok d'.
Proof.
  intros W. apply mk_ok_iff. split; [|now apply wf_reads].
  destruct W as (_ & _ & _ & W4 & W5). now rewrite W4, W5, !map_length.
Qed.

Lemma parse_diagram_Diagram X : parse_diagram (l_Diagram ++ X) = parse_diagram_args X.
Proof. reflexivity. Qed.
Lemma parse_diagram_Id X : parse_diagram (l_Id ++ X) = parse_id_args X.
Proof. reflexivity. Qed.

Lemma parse_diagram_full_repr c d rest : diagram_ok c d = true -> wf d ->
  exists d', parse_diagram (repr_diagram_full c d ++ rest) = Some (d', rest) /\ deqb d' d = true.
Proof.
  unfold diagram_ok. rewrite !andb_true_iff, forallb_forall. intros [[Hd Hc] Hb] W.
  destruct (wf_mk d W) as [d' Hmk]. exists d'. split.
  - unfold repr_diagram_full, repr_list. rewrite <- !app_assoc, parse_diagram_Diagram.
    unfold parse_diagram_args. rewrite parse_ty_repr by auto. rewrite expect_app.
    rewrite parse_ty_repr by auto. rewrite !expect_app.
    change (l_rb ++ l_offsets ++ ?X) with (c_rb :: l_offsets ++ X).
    rewrite (parse_list_sep parse_box (repr_box c) c_rb (or_intror eq_refl));
      [|reflexivity|intros; apply parse_box_repr; auto].
    rewrite !expect_app.
    change (l_rb ++ l_rp ++ rest) with (c_rb :: l_rp ++ rest).
    rewrite (parse_list_sep parse_int repr_int c_rb (or_intror eq_refl));
      [|reflexivity|intros; apply parse_int_repr, fol_nodigit; auto].
    rewrite expect_app. now rewrite Hmk.
  - destruct (mk_fields _ _ _ _ _ Hmk) as (F1 & F2 & F3 & F4). apply deqb_eq. auto.
Qed.

Theorem parse_diagram_repr c d rest : diagram_ok c d = true -> wf d -> fol rest = true ->
  exists d', parse_diagram (repr_diagram c d ++ rest) = Some (d', rest) /\ deqb d' d = true.
Proof.
  intros Hok W Hf. unfold repr_diagram.
  destruct (dboxes d) as [|b [|b' bs]] eqn:Eb.
  - (* identity *)
    destruct (wf_no_box d W Eb) as [Hc Ho]. exists (did (ddom d)). split.
    + unfold repr_id. rewrite <- !app_assoc, parse_diagram_Id. unfold parse_id_args.
      unfold diagram_ok in Hok. rewrite !andb_true_iff in Hok. destruct Hok as [[Hd _] _].
      rewrite parse_ty_repr by auto. now rewrite expect_app.
    + apply deqb_eq. cbn. auto.
  - destruct (ty_eqb (ddom d) (bdom b)) eqn:Et.
    + (* the one-box short-cut *)
      apply ty_eqb_eq in Et. destruct (wf_one_box d b W Eb Et) as [Hc Ho].
      exists (dbox b). split.
      * destruct (repr_box_head c b) as (lit & tail & Hr & Hl).
        assert (Hp : parse_box (repr_box c b ++ rest) = Some (b, rest)).
        { apply parse_box_repr; auto. unfold diagram_ok in Hok. rewrite !andb_true_iff in Hok.
          destruct Hok as [_ Hbs]. rewrite Eb in Hbs. cbn in Hbs. now rewrite andb_true_r in Hbs. }
        rewrite Hr, <- app_assoc in *. rewrite (parse_diagram_box _ _ Hl). now rewrite Hp.
      * apply deqb_eq. cbn. auto.
    + replace (repr_diagram_full c d) with (repr_diagram_full c d) by reflexivity.
      apply parse_diagram_full_repr; auto.
  - apply parse_diagram_full_repr; auto.
Qed.

(* ---- sums: the terms come back equal (==), not identical (the layer view is rebuilt) ---- *)
Section PListRel.
  Context {A : Type} (p : str -> option (A * str)) (f : A -> str) (closer : Z) (R : A -> A -> Prop).
  Hypothesis Hc : closer = c_rp \/ closer = c_rb.

  Lemma parse_items_sep_rel l : forall fuel rest, l <> [] -> (length l <= fuel)%nat ->
    (forall x r, In x l -> fol r = true -> exists x', p (f x ++ r) = Some (x', r) /\ R x' x) ->
    exists l', parse_items p closer fuel (sep f l ++ closer :: rest) = Some (l', rest) /\ Forall2 R l' l.
  Proof.
    induction l as [|x [|y l] IH]; intros fuel rest Hne Hf Hp; [congruence| |].
    - destruct fuel; [cbn in Hf; lia|]. cbn [sep parse_items].
      destruct (Hp x (closer :: rest)) as (x' & E & HR); [now left|destruct Hc; subst; reflexivity|].
      rewrite E. rewrite Z.eqb_refl. eauto.
    - destruct fuel; [cbn in Hf; lia|]. rewrite sep_cons2, <- !app_assoc. cbn [parse_items].
      destruct (Hp x (l_sep ++ sep f (y :: l) ++ closer :: rest)) as (x' & E & HR); [now left|reflexivity|].
      rewrite E.
      change (l_sep ++ sep f (y :: l) ++ closer :: rest)
        with (c_comma :: c_space :: (sep f (y :: l) ++ closer :: rest)).
      cbv beta iota.
      replace (c_comma =? closer) with false by (destruct Hc; subst; reflexivity).
      rewrite !Z.eqb_refl.
      destruct (IH fuel rest) as (l' & E' & HR'); [discriminate|cbn in *; lia| |].
      + intros; apply Hp; auto. now right.
      + rewrite E'. eauto.
  Qed.

  Lemma parse_list_sep_rel l rest : l <> [] ->
    (forall x r, In x l -> fol r = true -> exists x', p (f x ++ r) = Some (x', r) /\ R x' x) ->
    exists l', parse_list p closer (sep f l ++ closer :: rest) = Some (l', rest) /\ Forall2 R l' l.
  Proof.
    intros Hne Hp. unfold parse_list.
    destruct (parse_items_sep_rel l (length (sep f l ++ closer :: rest)) rest) as (l' & E & HR); auto.
    - rewrite app_length. pose proof (sep_length f l). cbn [length] in *. lia.
    - rewrite E. eauto.
  Qed.
End PListRel.

Lemma repr_diagram_head c d : exists ch tail, repr_diagram c d = ch :: tail /\ ch <> 93.
Proof.
  unfold repr_diagram.
  assert (F : exists ch tail, repr_diagram_full c d = ch :: tail /\ ch <> 93).
  { unfold repr_diagram_full, l_Diagram. cbn [app]. do 2 eexists. split; [reflexivity|discriminate]. }
  destruct (dboxes d) as [|b [|b' bs]]; auto.
  - unfold repr_id, l_Id. cbn [app]. do 2 eexists. split; [reflexivity|discriminate].
  - destruct (ty_eqb _ _); auto.
    destruct (repr_box_head c b) as (lit & tail & -> & [->|[->|[->| ->]]]); cbn [app];
      do 2 eexists; (split; [reflexivity|discriminate]).
Qed.

Lemma expect_Sum0_nonempty ch X : ch <> 93 -> expect l_Sum0 (l_Sum ++ l_lb ++ ch :: X) = None.
Proof.
  intros H. unfold l_Sum0, l_Sum, l_lb. cbn [app expect].
  repeat (rewrite Z.eqb_refl). destruct (Z.eqb_spec 93 ch); [congruence|reflexivity].
Qed.

Lemma parse_sum_Sum X : expect l_Sum0 (l_Sum ++ l_lb ++ X) = None ->
  parse_sum (l_Sum ++ l_lb ++ X) =
  match parse_list parse_diagram c_rb X with
  | None => None
  | Some (ts, s2) =>
      match expect l_rp s2 with
      | None => None
      | Some s3 =>
          match ts with
          | [] => None
          | t0 :: _ => match sum_mk ts (ddom t0) (dcod t0) with None => None | Some v => Some (v, s3) end
          end
      end
  end.
Proof. intros E. unfold parse_sum. rewrite E. now rewrite !expect_app. Qed.

Lemma forall2_in_left {A B} (R : A -> B -> Prop) l1 l2 x : Forall2 R l1 l2 -> In x l1 ->
  exists y, In y l2 /\ R x y.
Proof.
  induction 1; cbn; [tauto|]. intros [->|Hin]; [eauto|].
  destruct (IHForall2 Hin) as (y' & ? & ?). eauto.
Qed.

Definition deq_rel (x y : diagram) : Prop := deqb x y = true.

Lemma forall2_deq_list l1 l2 : Forall2 deq_rel l1 l2 -> list_eqb deqb l1 l2 = true.
Proof. induction 1; cbn; auto. now rewrite H, IHForall2. Qed.

Theorem parse_sum_repr c s rest : sum_ok c s = true -> Forall wf (sterms s) ->
  exists s', parse_sum (repr_sum c s ++ rest) = Some (s', rest) /\ sum_eqb s' s = true.
Proof.
  unfold sum_ok. rewrite !andb_true_iff, !forallb_forall. intros [[[Hd Hc] Hok] Hty] Hwf.
  rewrite Forall_forall in Hwf. unfold repr_sum.
  destruct (sterms s) as [|t0 ts] eqn:Et.
  - exists (DSum [] (sdom s) (scod s)). split.
    + unfold parse_sum. rewrite <- !app_assoc, expect_app. rewrite parse_ty_repr by auto.
      rewrite expect_app. rewrite parse_ty_repr by auto. now rewrite expect_app.
    + unfold sum_eqb. cbn. rewrite Et. cbn. now rewrite !ty_eqb_refl.
  - unfold repr_list. rewrite <- !app_assoc.
    change (l_rb ++ l_rp ++ rest) with (c_rb :: l_rp ++ rest).
    destruct (parse_list_sep_rel parse_diagram (repr_diagram c) c_rb deq_rel (or_intror eq_refl)
                (t0 :: ts) (l_rp ++ rest)) as (l' & E & HR); [discriminate| |].
    { intros x r Hx Hr. apply parse_diagram_repr; auto. }
    rewrite parse_sum_Sum.
    2:{ destruct (repr_diagram_head c t0) as (ch & tail & Hh & Hne).
        destruct ts as [|t1 ts]; cbn [sep]; rewrite Hh; cbn [app]; now apply expect_Sum0_nonempty. }
    rewrite E, expect_app.
    inversion HR as [|t0' t0x l'' tsx R0 Rs]; subst.
    assert (D0 : ddom t0' = sdom s /\ dcod t0' = scod s).
    { unfold deq_rel in R0. apply deqb_eq in R0. destruct R0 as (A1 & A2 & _).
      specialize (Hty t0 (or_introl eq_refl)). rewrite andb_true_iff, !ty_eqb_eq in Hty.
      destruct Hty. split; congruence. }
    destruct D0 as [D1 D2].
    assert (Hmk : sum_mk (t0' :: l'') (ddom t0') (dcod t0') = Some (DSum (t0' :: l'') (ddom t0') (dcod t0'))).
    { unfold sum_mk.
      replace (forallb _ (t0' :: l'')) with true; [reflexivity|].
      symmetry. apply forallb_forall. intros x' Hx'.
      destruct (forall2_in_left _ _ _ _ HR Hx') as (x & Hx & Rx).
      unfold deq_rel in Rx. apply deqb_eq in Rx. destruct Rx as (A1 & A2 & _).
      specialize (Hty x Hx). rewrite andb_true_iff, !ty_eqb_eq in Hty. destruct Hty.
      rewrite andb_true_iff, !ty_eqb_eq. split; congruence. }
    rewrite Hmk. eexists. split; [reflexivity|].
    unfold sum_eqb. cbn [sdom scod sterms]. rewrite D1, D2, !ty_eqb_refl, Et.
    now rewrite (forall2_deq_list _ _ HR).
Qed.

(* ======================================= whole-string round trips, injectivity *)
Lemma fol_nil : fol [] = true. Proof. reflexivity. Qed.

Theorem repr_roundtrip_ty c t : ty_ok c t = true -> whole (parse_ty (repr_ty c t)) = Some t.
Proof. intros H. rewrite <- (app_nil_r (repr_ty c t)), parse_ty_repr; auto. Qed.

Theorem repr_roundtrip_ob c x : ob_ok c x = true -> whole (parse_ob (repr_ob c x)) = Some x.
Proof.
  intros H. rewrite <- (app_nil_r (repr_ob c x)). destruct c.
  - rewrite parse_ob_repr_mon; auto. now apply Z.eqb_eq.
  - now rewrite parse_ob_repr.
Qed.

Theorem repr_roundtrip_box c b : box_ok c b = true -> whole (parse_box (repr_box c b)) = Some b.
Proof. intros H. rewrite <- (app_nil_r (repr_box c b)), parse_box_repr; auto. Qed.

Theorem repr_roundtrip_diagram c d : diagram_ok c d = true -> wf d ->
  exists d', whole (parse_diagram (repr_diagram c d)) = Some d' /\ deqb d' d = true.
Proof.
  intros H W. destruct (parse_diagram_repr c d [] H W fol_nil) as (d' & E & Q).
  exists d'. rewrite app_nil_r in E. now rewrite E.
Qed.

Theorem repr_roundtrip_sum c s : sum_ok c s = true -> Forall wf (sterms s) ->
  exists s', whole (parse_sum (repr_sum c s)) = Some s' /\ sum_eqb s' s = true.
Proof.
  intros H W. destruct (parse_sum_repr c s [] H W) as (s' & E & Q).
  exists s'. rewrite app_nil_r in E. now rewrite E.
Qed.

Theorem repr_injective_ty c a b : ty_ok c a = true -> ty_ok c b = true ->
  repr_ty c a = repr_ty c b -> a = b.
Proof.
  intros Ha Hb E. pose proof (repr_roundtrip_ty c a Ha) as Pa.
  pose proof (repr_roundtrip_ty c b Hb) as Pb. rewrite E in Pa. congruence.
Qed.

Theorem repr_injective_box c a b : box_ok c a = true -> box_ok c b = true ->
  repr_box c a = repr_box c b -> a = b.
Proof.
  intros Ha Hb E. pose proof (repr_roundtrip_box c a Ha) as Pa.
  pose proof (repr_roundtrip_box c b Hb) as Pb. rewrite E in Pa. congruence.
Qed.

Theorem repr_injective_diagram c a b : diagram_ok c a = true -> diagram_ok c b = true ->
  wf a -> wf b -> repr_diagram c a = repr_diagram c b -> deqb a b = true.
Proof.
  intros Ha Hb Wa Wb E.
  destruct (repr_roundtrip_diagram c a Ha Wa) as (a' & Pa & Qa).
  destruct (repr_roundtrip_diagram c b Hb Wb) as (b' & Pb & Qb).
  rewrite E in Pa. assert (a' = b') by congruence. subst b'.
  rewrite deq_sym in Qa. eapply deq_trans; eauto.
Qed.

Theorem repr_injective_sum c a b : sum_ok c a = true -> sum_ok c b = true ->
  Forall wf (sterms a) -> Forall wf (sterms b) -> repr_sum c a = repr_sum c b -> sum_eqb a b = true.
Proof.
  intros Ha Hb Wa Wb E.
  destruct (repr_roundtrip_sum c a Ha Wa) as (a' & Pa & Qa).
  destruct (repr_roundtrip_sum c b Hb Wb) as (b' & Pb & Qb).
  rewrite E in Pa. assert (a' = b') by congruence. subst b'.
  rewrite sum_eq_sym in Qa. eapply sum_eq_trans; eauto.
Qed.

(* equality and printing coincide on real values *)
Theorem deq_iff_repr_eq c a b : diagram_ok c a = true -> diagram_ok c b = true -> wf a -> wf b ->
  (deqb a b = true <-> repr_diagram c a = repr_diagram c b).
Proof. intros. split; [apply deq_repr|now apply repr_injective_diagram]. Qed.

(* ================================================================ non-vacuity *)
From Coq Require Import String.

Module Examples.
  Definition x := Ob 1 0.
  Definition xr := Ob 1 1.
  Definition y := Ob 2 (-2).
  (* a daggered box with a negative payload, a scalar, a cup *)
  Definition f := Box KBox 5 [x] [y; x; xr] true (Some (-30)).
  Definition s := Box KBox 7 [] [] false (Some 0).
  Definition cup := Box KCup (-2) [x; xr] [] false None.
  Definition sw := Box KSwap (-1) [x; y] [y; x] false None.
  Definition d_res := mk [x] [y] [f; s; cup] [0; 1; 1].
  Definition d := match d_res with Ok d => d | Err _ => did [] end.

  Example d_built : d_res = Ok d. Proof. reflexivity. Qed.
  Example d_wf : wf d. Proof. exact (mk_wf _ _ _ _ _ d_built). Qed.
  Example d_ok : diagram_ok Rig d = true. Proof. reflexivity. Qed.
  Example boxes_ok : forallb (box_ok Rig) [f; s; cup; sw] = true. Proof. reflexivity. Qed.

  (* the printed form, verbatim *)
  Example d_repr : repr_diagram Rig d = codes
    "Diagram(dom=Ty('n1'), cod=Ty(Ob('n2', z=-2)), boxes=[Box('n5', Ty(Ob('n2', z=-2), 'n1', Ob('n1', z=1)), Ty('n1'), data=-30).dagger(), Box('n7', Ty(), Ty(), data=0), Cup(Ty('n1'), Ty(Ob('n1', z=1)))], offsets=[0, 1, 1])".
  Proof. vm_compute. reflexivity. Qed.

  Example d_roundtrip : option_map (fun d' => deqb d' d) (whole (parse_diagram (repr_diagram Rig d))) = Some true.
  Proof. vm_compute. reflexivity. Qed.

  (* equality: same fields built two ways are equal; one offset / dagger flag /
     payload apart is unequal *)
  Example eq_other_route : deqb d (raw [x] [y] [f; s; cup] [0; 1; 1]) = true.
  Proof. vm_compute. reflexivity. Qed.
  Example neq_offset : deqb d (raw [x] [y] [f; s; cup] [0; 2; 1]) = false.
  Proof. vm_compute. reflexivity. Qed.
  Example neq_dagger : box_eqb f (Box KBox 5 [x] [y; x; xr] false (Some (-30))) = false.
  Proof. vm_compute. reflexivity. Qed.
  Example neq_data : box_eqb s (Box KBox 7 [] [] false None) = false.
  Proof. vm_compute. reflexivity. Qed.

  (* box vs wrapping diagram: equal through both methods, same repr *)
  Example box_wrap : box_eq_diagram f (dbox f) = true /\ diagram_eq_box (dbox f) f = true
    /\ repr_diagram Rig (dbox f) = repr_box Rig f.
  Proof. vm_compute. auto. Qed.

  (* sums *)
  Definition sm := DSum [d; d] [x] [y].
  Example sm_ok : sum_ok Rig sm = true. Proof. reflexivity. Qed.
  Example sm_wf : Forall wf (sterms sm). Proof. repeat constructor; exact d_wf. Qed.
  Example sm0_repr : repr_sum Rig (DSum [] [x] [y]) = codes "Sum([], dom=Ty('n1'), cod=Ty(Ob('n2', z=-2)))".
  Proof. vm_compute. reflexivity. Qed.
  Example sm_roundtrip : option_map (fun s' => sum_eqb s' sm) (whole (parse_sum (repr_sum Rig sm))) = Some true.
  Proof. vm_compute. reflexivity. Qed.

  (* monoidal class *)
  Definition g := Box KBox 6 [x; Ob 3 0] [] false None.
  Example mon_ok : box_ok Mon g = true /\ box_ok Mon f = false. Proof. vm_compute. auto. Qed.
  Example mon_repr : repr_box Mon g = codes "Box('n6', Ty('n1', 'n3'), Ty())".
  Proof. vm_compute. reflexivity. Qed.

  (* a hash function under which the consistency theorems are not trivial *)
  Definition Hsum (s : str) : Z := fold_right Z.add 0 s.
  Example hash_differs : hash_box Hsum Rig f <> hash_box Hsum Rig s. Proof. vm_compute. discriminate. Qed.
End Examples.
