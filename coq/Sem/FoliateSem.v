(* Foliation does not change the denotation: every diagram yielded by foliate,
   hence the flattened foliation, denotes the same morphism as the input in every
   strict monoidal category (in the style of normalize_interp). *)
From Coq Require Import List ZArith Bool Lia.
Import ListNotations.
Require Import DV.Common.Base DV.Common.ListLemmas DV.Core.Diagram DV.Core.WF DV.Core.DiagramLemmas
  DV.Core.Rewriting DV.Core.RewritingLemmas DV.Core.Foliate DV.Core.FoliateLemmas
  DV.Sem.Monoidal DV.Sem.MonoidalLemmas.

Section FoliateSem.
  Variable Mod : monoidal_model.
  Variable F : box -> M Mod.
  Hypothesis HF : respects_types Mod F.

  (* "same denotation", the relation carried through Core/FoliateLemmas.v *)
  Definition same_interp (a b : diagram) : Prop := interp Mod F b = interp Mod F a.

  Lemma same_interp_refl d : same_interp d d.
  Proof. reflexivity. Qed.
  Lemma same_interp_trans a b c : same_interp a b -> same_interp b c -> same_interp a c.
  Proof. unfold same_interp. congruence. Qed.
  Lemma same_interp_adj d i left d' : wf d -> interchange_adj d i left = Ok d' -> same_interp d d'.
  Proof. intros Hwf H. unfold same_interp. eapply interchange_adj_interp; eauto. Qed.

  Lemma move_in_slice_interp first m k d d' : wf d -> (first + m < k)%nat ->
    move_in_slice first m k d = Ok (Some d') -> wf d' /\ interp Mod F d' = interp Mod F d.
  Proof.
    intros Hwf Hk H.
    destruct (move_in_slice_stable same_interp same_interp_refl same_interp_trans same_interp_adj
                first m k d d' Hwf Hk H) as (W & _ & _ & HR).
    split; [exact W|exact HR].
  Qed.
End FoliateSem.

(* every diagram yielded by d.foliate() denotes the same morphism as d under every
   monoidal functor, i.e. in every strict monoidal category *)
Theorem foliate_interp (Mod : monoidal_model) (F : box -> M Mod) d steps slices :
  wf d -> respects_types Mod F -> foliate d = Ok (steps, slices) ->
  Forall (fun x => interp Mod F x = interp Mod F d) steps.
Proof.
  intros Hwf HF H.
  destruct (foliate_spec (same_interp Mod F) (same_interp_refl Mod F) (same_interp_trans Mod F)
              (same_interp_adj Mod F HF) d steps slices Hwf H) as (Fs & _).
  eapply Forall_impl; [|exact Fs]. intros x (_ & _ & _ & HR). exact HR.
Qed.

(* so does the last one, which is the flattening of d.foliation() *)
Corollary foliate_last_interp (Mod : monoidal_model) (F : box -> M Mod) d steps slices :
  wf d -> respects_types Mod F -> foliate d = Ok (steps, slices) ->
  interp Mod F (last_step d steps) = interp Mod F d.
Proof.
  intros Hwf HF H. unfold last_step.
  apply (Forall_last (fun x => interp Mod F x = interp Mod F d)); [reflexivity|].
  eapply foliate_interp; eauto.
Qed.

(* composing the layers of the slices, in order, from Id(dom) gives the denotation of d *)
Corollary foliation_flatten_interp (Mod : monoidal_model) (F : box -> M Mod) d steps slices :
  wf d -> respects_types Mod F -> foliate d = Ok (steps, slices) ->
  interp_layers Mod F (idm Mod (obj_ty Mod (ddom d)))
    (concat (map (fun s => la_ls (dlayers s)) slices)) = interp Mod F d.
Proof.
  intros Hwf HF H.
  destruct (foliation_flatten d steps slices Hwf H) as (C & _).
  rewrite C, <- (foliate_last_interp Mod F d steps slices Hwf HF H). unfold interp. f_equal. f_equal. f_equal.
  destruct (foliate_wf d steps slices Hwf H) as [Fs _]. unfold last_step. symmetry.
  apply (Forall_last (fun x => ddom x = ddom d)); [reflexivity|].
  eapply Forall_impl; [|exact Fs]. intros x Hx. apply Hx.
Qed.
