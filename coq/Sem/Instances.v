(* A concrete strict monoidal category, to show that the axioms of
   `monoidal_model` are satisfiable (non-vacuity of every theorem quantifying over
   models): objects are widths, a morphism records its width in, width out and
   how many boxes it contains. *)
From Coq Require Import List ZArith Bool Lia.
Import ListNotations.
Require Import DV.Common.Base DV.Core.Diagram DV.Core.WF DV.Sem.Monoidal.

Record cmor := CM { cdom : nat; ccod : nat; ccount : nat }.

Lemma cmor_eq a b : cdom a = cdom b -> ccod a = ccod b -> ccount a = ccount b -> a = b.
Proof. destruct a, b; cbn; intros; subst; reflexivity. Qed.

Definition counting_model : monoidal_model.
Proof.
  refine {|
    O := nat; M := cmor; ounit := 0%nat; otens := Nat.add; obj := fun _ => 1%nat;
    idm := fun a => CM a a 0;
    comp := fun f g => CM (cdom f) (ccod g) (ccount f + ccount g);
    tens := fun f g => CM (cdom f + cdom g) (ccod f + ccod g) (ccount f + ccount g);
    domM := cdom; codM := ccod |}; intros; cbn in *; try (apply cmor_eq; cbn; lia); try lia; try reflexivity.
Defined.

Definition counting_F (b : box) : cmor := CM (length (bdom b)) (length (bcod b)) 1.

Lemma counting_obj_ty t : obj_ty counting_model t = length t.
Proof. induction t as [|x t IH]; cbn; [reflexivity|]. now rewrite IH. Qed.

Lemma counting_respects : respects_types counting_model counting_F.
Proof. intros b. cbn. now rewrite !counting_obj_ty. Qed.

(* in this model the denotation of a diagram counts its boxes *)
Example counting_example :
  let x := Ob 1 0 in
  let f := Box KBox 5 [x] [x; x] false None in
  let g := Box KBox 6 [x] [] false None in
  forall d, mk [x] [x] [f; g] [0; 1] = Ok d ->
  ccount (interp counting_model counting_F d) = 2%nat.
Proof. intros x f g d H. vm_compute in H. inversion H; subst d. reflexivity. Qed.
