(* Interchange preserves the denotation in every strict monoidal category. *)
From Coq Require Import List ZArith Bool Lia.
Import ListNotations.
Require Import DV.Common.Base DV.Common.ListLemmas DV.Core.Diagram DV.Core.WF DV.Core.DiagramLemmas
  DV.Core.Rewriting DV.Core.RewritingLemmas DV.Sem.Monoidal.

Section Lemmas.
  Variable Mod : monoidal_model.
  Variable F : box -> M Mod.
  Hypothesis HF : respects_types Mod F.

  Notation "f ;; g" := (comp Mod f g) (at level 40, left associativity).
  Notation "f ⊗ g" := (tens Mod f g) (at level 35, right associativity).
  Notation idt t := (idm Mod (obj_ty Mod t)).

  Lemma obj_ty_app a b : obj_ty Mod (a ++ b) = otens Mod (obj_ty Mod a) (obj_ty Mod b).
  Proof.
    induction a as [|x a IH]; cbn.
    - now rewrite otens_unit_l.
    - now rewrite IH, otens_assoc.
  Qed.

  Lemma idt_app a b : idt (a ++ b) = idt a ⊗ idt b.
  Proof. now rewrite obj_ty_app, tens_id. Qed.

  (* n-ary tensor, right nested *)
  Fixpoint tl (fs : list (M Mod)) : M Mod :=
    match fs with
    | [] => idm Mod (ounit Mod)
    | f :: fs' => f ⊗ tl fs'
    end.

  Fixpoint otl (os : list (O Mod)) : O Mod :=
    match os with
    | [] => ounit Mod
    | a :: os' => otens Mod a (otl os')
    end.

  Lemma dom_tl fs : domM Mod (tl fs) = otl (map (domM Mod) fs).
  Proof. induction fs as [|f fs IH]; cbn; [apply dom_id|]. now rewrite dom_tens, IH. Qed.
  Lemma cod_tl fs : codM Mod (tl fs) = otl (map (codM Mod) fs).
  Proof. induction fs as [|f fs IH]; cbn; [apply cod_id|]. now rewrite cod_tens, IH. Qed.

  Fixpoint map2 {A B C} (f : A -> B -> C) (l1 : list A) (l2 : list B) : list C :=
    match l1, l2 with
    | a :: l1', b :: l2' => f a b :: map2 f l1' l2'
    | _, _ => []
    end.

  (* generalised interchange law *)
  Lemma tl_comp fs gs : Forall2 (fun f g => codM Mod f = domM Mod g) fs gs ->
    tl fs ;; tl gs = tl (map2 (comp Mod) fs gs).
  Proof.
    induction 1 as [|f g fs gs Hfg Hrest IH]; cbn.
    - rewrite <- (dom_id Mod (ounit Mod)) at 1. apply comp_id_l.
    - rewrite interchange_law; [now rewrite IH|exact Hfg|].
      rewrite cod_tl, dom_tl. clear IH. induction Hrest as [|? ? ? ? H ? IH']; cbn; [reflexivity|].
      now rewrite H, IH'.
  Qed.

  Lemma tl_single f : tl [f] = f.
  Proof. cbn. apply tens_unit_r. Qed.

  Lemma whisker_tl l f r : whisker Mod l f r = tl [idt l; f; idt r].
  Proof. unfold whisker. cbn [tl]. now rewrite tens_assoc, tens_unit_r. Qed.

  (* a whiskered box with its right wires split in three / left wires split in three *)
  Lemma whisker_split_r l f a b c :
    whisker Mod l f (a ++ b ++ c) = tl [idt l; f; idt a; idt b; idt c].
  Proof. rewrite whisker_tl. cbn [tl]. now rewrite !idt_app, !tens_assoc, !tens_unit_r. Qed.

  Lemma whisker_split_l a b c f r :
    whisker Mod (a ++ b ++ c) f r = tl [idt a; idt b; idt c; f; idt r].
  Proof. rewrite whisker_tl. cbn [tl]. now rewrite !idt_app, !tens_assoc, !tens_unit_r. Qed.

  Lemma comp_idt_idt t : idt t ;; idt t = idt t.
  Proof. rewrite <- (dom_id Mod (obj_ty Mod t)) at 1. apply comp_id_l. Qed.

  Lemma F_dom b : domM Mod (F b) = obj_ty Mod (bdom b).
  Proof. apply HF. Qed.
  Lemma F_cod b : codM Mod (F b) = obj_ty Mod (bcod b).
  Proof. apply HF. Qed.

  Lemma F_comp_id b : F b ;; idt (bcod b) = F b.
  Proof. rewrite <- F_cod. apply comp_id_r. Qed.
  Lemma id_comp_F b : idt (bdom b) ;; F b = F b.
  Proof. rewrite <- F_dom. apply comp_id_l. Qed.

  (* the heart of C05: two boxes that share no wire commute *)
  Theorem exchange_semantics l0 b0 mid b1 r1 :
    whisker Mod l0 (F b0) (mid ++ bdom b1 ++ r1) ;; whisker Mod (l0 ++ bcod b0 ++ mid) (F b1) r1
    = whisker Mod (l0 ++ bdom b0 ++ mid) (F b1) r1 ;; whisker Mod l0 (F b0) (mid ++ bcod b1 ++ r1).
  Proof.
    rewrite !whisker_split_r, !whisker_split_l.
    rewrite !tl_comp.
    - cbn [map2]. now rewrite !comp_idt_idt, F_comp_id, id_comp_F, F_comp_id, id_comp_F.
    - repeat constructor; rewrite ?dom_id, ?cod_id, ?F_dom, ?F_cod; reflexivity.
    - repeat constructor; rewrite ?dom_id, ?cod_id, ?F_dom, ?F_cod; reflexivity.
  Qed.

  (* ------------------------------------------------------------ typing along a chain *)
  Lemma dom_whisker l f r : domM Mod (whisker Mod l f r) =
    otens Mod (obj_ty Mod l) (otens Mod (domM Mod f) (obj_ty Mod r)).
  Proof. unfold whisker. now rewrite !dom_tens, !dom_id, otens_assoc. Qed.
  Lemma cod_whisker l f r : codM Mod (whisker Mod l f r) =
    otens Mod (obj_ty Mod l) (otens Mod (codM Mod f) (obj_ty Mod r)).
  Proof. unfold whisker. now rewrite !cod_tens, !cod_id, otens_assoc. Qed.

  Lemma dom_interp_layer l : domM Mod (interp_layer Mod F l) = obj_ty Mod (ldom l).
  Proof. unfold interp_layer, ldom. now rewrite dom_whisker, F_dom, !obj_ty_app. Qed.
  Lemma cod_interp_layer l : codM Mod (interp_layer Mod F l) = obj_ty Mod (lcod l).
  Proof. unfold interp_layer, lcod. now rewrite cod_whisker, F_cod, !obj_ty_app. Qed.

  Lemma interp_layers_app acc l1 l2 :
    interp_layers Mod F acc (l1 ++ l2) = interp_layers Mod F (interp_layers Mod F acc l1) l2.
  Proof. revert acc. induction l1 as [|l l1 IH]; intros acc; cbn; auto. Qed.

  Lemma cod_interp_layers ls : forall acc a b, chain a ls b -> codM Mod acc = obj_ty Mod a ->
    codM Mod (interp_layers Mod F acc ls) = obj_ty Mod b.
  Proof.
    induction ls as [|l ls IH]; intros acc a b Hc Hacc; cbn in *.
    - now subst.
    - destruct Hc as [-> Hc]. eapply IH; [exact Hc|].
      rewrite cod_comp; [apply cod_interp_layer|]. now rewrite dom_interp_layer.
  Qed.

  (* replacing two consecutive layers by two others with the same composite *)
  Lemma interp_splice acc pre post L0 L1 L0' L1' a m :
    chain a pre m -> codM Mod acc = obj_ty Mod a ->
    m = ldom L0 -> lcod L0 = ldom L1 -> m = ldom L1' -> lcod L1' = ldom L0' ->
    interp_layer Mod F L0 ;; interp_layer Mod F L1 = interp_layer Mod F L1' ;; interp_layer Mod F L0' ->
    interp_layers Mod F acc (pre ++ [L0; L1] ++ post) =
    interp_layers Mod F acc (pre ++ [L1'; L0'] ++ post).
  Proof.
    intros Hc Hacc H0 H01 H1' H10' Heq.
    rewrite !interp_layers_app. cbn [interp_layers app].
    set (X := interp_layers Mod F acc pre).
    assert (HX : codM Mod X = obj_ty Mod m) by (eapply cod_interp_layers; eauto).
    rewrite (comp_assoc Mod X), (comp_assoc Mod X); rewrite ?HX, ?dom_interp_layer, ?cod_interp_layer; try congruence.
  Qed.
End Lemmas.

(* ---------------------------------------------------------------- the theorems *)
Theorem interchange_adj_interp (Mod : monoidal_model) (F : box -> M Mod) d i left d' :
  respects_types Mod F -> wf d -> interchange_adj d i left = Ok d' ->
  interp Mod F d' = interp Mod F d.
Proof.
  intros HF Hwf H. pose proof Hwf as (W1 & W2 & W3 & W4 & W5).
  destruct (interchange_adj_inv d i left d' Hwf H)
    as (left0 & box0 & right0 & left1 & box1 & right1 & mid & E0 & E1 & Hd & Hcase).
  pose proof (nth_error_split3 _ _ _ _ E0 E1) as SL.
  assert (Hlen : (i <= length (la_ls (dlayers d)))%nat).
  { assert (i < length (la_ls (dlayers d)))%nat by (apply nth_error_Some; rewrite E0; discriminate). lia. }
  pose proof (chain_firstn _ _ _ i W3 Hlen) as Hpre.
  destruct (type_at_nth _ _ _ _ _ W3 E0) as [T0a T0].
  destruct (type_at_nth _ _ _ _ _ W3 E1) as [T1 _].
  assert (H01 : lcod (left0, box0, right0) = ldom (left1, box1, right1)) by (rewrite <- T0, T1; reflexivity).
  unfold interp. rewrite Hd. rewrite SL at 1.
  destruct Hcase as [(HA & HB & Hls) | (HA & HB & Hls)]; rewrite Hls; symmetry.
  - eapply (interp_splice Mod F HF); [exact Hpre| now rewrite cod_id, W1 | exact T0a | exact H01 | | | ].
    + rewrite T0a. unfold ldom, lleft, lbox, lright; cbn [fst snd]. rewrite HB, <- !app_assoc. reflexivity.
    + unfold ldom, lcod, lleft, lbox, lright; cbn [fst snd]. rewrite <- !app_assoc. reflexivity.
    + unfold interp_layer, lleft, lbox, lright; cbn [fst snd]. rewrite HA, HB.
      apply (exchange_semantics Mod F HF).
  - eapply (interp_splice Mod F HF); [exact Hpre| now rewrite cod_id, W1 | exact T0a | exact H01 | | | ].
    + rewrite T0a. unfold ldom, lleft, lbox, lright; cbn [fst snd]. rewrite HA, <- !app_assoc. reflexivity.
    + unfold ldom, lcod, lleft, lbox, lright; cbn [fst snd]. rewrite <- !app_assoc. reflexivity.
    + unfold interp_layer, lleft, lbox, lright; cbn [fst snd]. rewrite HA, HB.
      symmetry. apply (exchange_semantics Mod F HF).
Qed.

Lemma interchange_up_interp (Mod : monoidal_model) (F : box -> M Mod) n : forall d i left d',
  respects_types Mod F -> wf d -> interchange_up d i n left = Ok d' -> interp Mod F d' = interp Mod F d.
Proof.
  induction n as [|n IH]; cbn; intros d i left d' HF Hwf H.
  - inversion H; reflexivity.
  - destruct (interchange_adj d i left) as [d1|] eqn:E; [|discriminate]. cbn in H.
    destruct (interchange_adj_shape _ _ _ _ Hwf E) as [W1 _].
    rewrite (IH _ _ _ _ HF W1 H). eapply interchange_adj_interp; eauto.
Qed.

Lemma interchange_down_interp (Mod : monoidal_model) (F : box -> M Mod) n : forall d i left d',
  respects_types Mod F -> wf d -> interchange_down d i n left = Ok d' -> interp Mod F d' = interp Mod F d.
Proof.
  induction n as [|n IH]; cbn; intros d i left d' HF Hwf H.
  - inversion H; reflexivity.
  - destruct (interchange_adj d (i - 1) left) as [d1|] eqn:E; [|discriminate]. cbn in H.
    destruct (interchange_adj_shape _ _ _ _ Hwf E) as [W1 _].
    rewrite (IH _ _ _ _ HF W1 H). eapply interchange_adj_interp; eauto.
Qed.

(* C05: the result of interchange(i, j) denotes the same morphism under every
   monoidal functor, i.e. in every strict monoidal category *)
Theorem interchange_interp (Mod : monoidal_model) (F : box -> M Mod) d i j left d' :
  respects_types Mod F -> wf d -> interchange d i j left = Ok d' ->
  interp Mod F d' = interp Mod F d.
Proof.
  intros HF Hwf. unfold interchange. destruct (negb _); [discriminate|].
  destruct (i =? j)%Z; [intros H; inversion H; reflexivity|].
  destruct (j <? i)%Z; intros H.
  - eapply interchange_down_interp; eauto.
  - eapply interchange_up_interp; eauto.
Qed.

(* C06: so does every diagram yielded by normalize, and the normal form *)
Lemma normalize_pass_interp (Mod : monoidal_model) (F : box -> M Mod) n :
  forall d i left acc moved d' acc' moved',
  respects_types Mod F -> wf d ->
  Forall (fun x => interp Mod F x = interp Mod F d) acc ->
  normalize_pass d i n left acc moved = Ok (d', acc', moved') ->
  wf d' /\ interp Mod F d' = interp Mod F d /\ Forall (fun x => interp Mod F x = interp Mod F d) acc'.
Proof.
  induction n as [|n IH]; cbn [normalize_pass]; intros d i left acc moved d' acc' moved' HF Hwf Ha H.
  - inversion H; subst. auto.
  - destruct (can_move d i left).
    + destruct (interchange_adj d i left) as [d1|] eqn:E; [|discriminate]. cbn [bind] in H.
      destruct (interchange_adj_shape _ _ _ _ Hwf E) as [W1 _].
      pose proof (interchange_adj_interp Mod F _ _ _ _ HF Hwf E) as I1.
      destruct (IH d1 (S i) left (d1 :: acc) true d' acc' moved' HF W1) as (W2 & I2 & F2); auto.
      * constructor; [reflexivity|]. eapply Forall_impl; [|exact Ha]. cbn. intros x Hx. congruence.
      * split; [auto|]. split; [congruence|]. eapply Forall_impl; [|exact F2]. cbn. intros x Hx. congruence.
    + apply (IH d (S i) left acc moved d' acc' moved'); auto.
Qed.

Lemma normalize_loop_interp (Mod : monoidal_model) (F : box -> M Mod) fuel : forall d left acc tr,
  respects_types Mod F -> wf d -> Forall (fun x => interp Mod F x = interp Mod F d) acc ->
  normalize_loop fuel d left acc = Ok tr -> Forall (fun x => interp Mod F x = interp Mod F d) tr.
Proof.
  induction fuel as [|fuel IH]; cbn [normalize_loop]; intros d left acc tr HF Hwf Ha H; [discriminate|].
  destruct (normalize_pass d 0 (length (dboxes d) - 1) left acc false) as [[[d1 acc1] moved]|] eqn:E; [|discriminate].
  cbn [bind] in H.
  destruct (normalize_pass_interp Mod F _ _ _ _ _ _ _ _ _ HF Hwf Ha E) as (W1 & I1 & F1).
  destruct moved.
  - assert (G : Forall (fun x => interp Mod F x = interp Mod F d1) tr).
    { apply (IH d1 left acc1 tr HF W1); auto. eapply Forall_impl; [|exact F1]. cbn. intros x Hx. congruence. }
    eapply Forall_impl; [|exact G]. cbn. intros x Hx. congruence.
  - inversion H; subst. auto.
Qed.

Theorem normalize_interp (Mod : monoidal_model) (F : box -> M Mod) fuel d left tr :
  respects_types Mod F -> wf d -> normalize fuel d left = Ok tr ->
  Forall (fun x => interp Mod F x = interp Mod F d) tr.
Proof.
  intros HF Hwf. unfold normalize.
  destruct (normalize_loop fuel d left []) as [acc|] eqn:E; [|discriminate]. cbn [bind].
  intros H; inversion H; subst tr. apply Forall_rev.
  eapply normalize_loop_interp; eauto.
Qed.

Lemma nf_loop_interp (Mod : monoidal_model) (F : box -> M Mod) fuel : forall d left seen d',
  respects_types Mod F -> wf d -> nf_loop fuel d left seen = Ok d' -> interp Mod F d' = interp Mod F d.
Proof.
  induction fuel as [|fuel IH]; cbn [nf_loop]; intros d left seen d' HF Hwf H; [discriminate|].
  destruct (normalize_pass d 0 (length (dboxes d) - 1) left [] false) as [[[d1 ys] moved]|] eqn:E; [|discriminate].
  cbn [bind] in H.
  destruct (normalize_pass_interp Mod F _ _ _ _ _ _ _ _ _ HF Hwf (Forall_nil _) E) as (W1 & I1 & _).
  destruct (first_repeat seen (rev ys)); [discriminate|].
  destruct moved.
  - rewrite (IH _ _ _ _ HF W1 H). exact I1.
  - inversion H; subst. exact I1.
Qed.

Theorem normal_form_interp (Mod : monoidal_model) (F : box -> M Mod) fuel d left d' :
  respects_types Mod F -> wf d -> normal_form fuel d left = Ok d' -> interp Mod F d' = interp Mod F d.
Proof. intros HF Hwf H. eapply nf_loop_interp; eauto. Qed.
