(* Denotation of a diagram in an arbitrary strict monoidal category ("under every
   monoidal functor"): a record of carriers, operations and the axioms of a strict
   monoidal category with a typing discipline; `interp` folds composition over the
   whiskered boxes of the layers.  Definitions only. *)
From Coq Require Import List ZArith Bool Lia.
Import ListNotations.
Require Import DV.Common.Base DV.Core.Diagram.

Record monoidal_model := {
  O : Type;                       (* objects *)
  M : Type;                       (* morphisms *)
  ounit : O;
  otens : O -> O -> O;
  obj : ob -> O;                  (* image of an atomic type *)
  idm : O -> M;
  comp : M -> M -> M;             (* diagrammatic order: comp f g = f ; g *)
  tens : M -> M -> M;
  domM : M -> O;
  codM : M -> O;
  (* objects form a monoid *)
  otens_assoc : forall a b c, otens (otens a b) c = otens a (otens b c);
  otens_unit_l : forall a, otens ounit a = a;
  otens_unit_r : forall a, otens a ounit = a;
  (* typing *)
  dom_id : forall a, domM (idm a) = a;
  cod_id : forall a, codM (idm a) = a;
  dom_comp : forall f g, codM f = domM g -> domM (comp f g) = domM f;
  cod_comp : forall f g, codM f = domM g -> codM (comp f g) = codM g;
  dom_tens : forall f g, domM (tens f g) = otens (domM f) (domM g);
  cod_tens : forall f g, codM (tens f g) = otens (codM f) (codM g);
  (* category *)
  comp_assoc : forall f g h, codM f = domM g -> codM g = domM h ->
                 comp (comp f g) h = comp f (comp g h);
  comp_id_l : forall f, comp (idm (domM f)) f = f;
  comp_id_r : forall f, comp f (idm (codM f)) = f;
  (* strict monoidal structure *)
  tens_assoc : forall f g h, tens (tens f g) h = tens f (tens g h);
  tens_unit_l : forall f, tens (idm ounit) f = f;
  tens_unit_r : forall f, tens f (idm ounit) = f;
  tens_id : forall a b, tens (idm a) (idm b) = idm (otens a b);
  (* bifunctoriality: the interchange law *)
  interchange_law : forall f g h k, codM f = domM h -> codM g = domM k ->
                      comp (tens f g) (tens h k) = tens (comp f h) (comp g k)
}.

Section Interp.
  Variable Mod : monoidal_model.
  Variable F : box -> M Mod.       (* image of the boxes *)

  Fixpoint obj_ty (t : ty) : O Mod :=
    match t with
    | [] => ounit Mod
    | x :: t' => otens Mod (obj Mod x) (obj_ty t')
    end.

  (* F respects the types of the boxes *)
  Definition respects_types : Prop :=
    forall b, domM Mod (F b) = obj_ty (bdom b) /\ codM Mod (F b) = obj_ty (bcod b).

  (* Id(left) @ box @ Id(right) *)
  Definition whisker (l : ty) (f : M Mod) (r : ty) : M Mod :=
    tens Mod (tens Mod (idm Mod (obj_ty l)) f) (idm Mod (obj_ty r)).

  Definition interp_layer (l : layer) : M Mod := whisker (lleft l) (F (lbox l)) (lright l).

  Fixpoint interp_layers (acc : M Mod) (ls : list layer) : M Mod :=
    match ls with
    | [] => acc
    | l :: ls' => interp_layers (comp Mod acc (interp_layer l)) ls'
    end.

  (* the denotation of a diagram: Id(dom) >> layer_1 >> ... >> layer_n *)
  Definition interp (d : diagram) : M Mod :=
    interp_layers (idm Mod (obj_ty (ddom d))) (la_ls (dlayers d)).
End Interp.
