(* Model of discopy/quantum/tk.py (to_tk, from_tk, Circuit wrapper) and of the parts of
   discopy/quantum/circuit.py it relies on (init_and_discard).  Definitions only.

   Circuits are lists of (box, offset) over a typed wire list of bits and qubits
   (circuit.Ty restricted to `bit` and `qubit`).  A tket circuit is
   {n_qubits; n_bits; commands; post_selection; scalar factors; post_processing}.
   The model is BUG-COMPATIBLE: it mirrors the code as it is (see notes/C13.md for
   the defects it reproduces: F10, F18, F30..F34). *)
From Coq Require Import List ZArith Bool Lia Arith.
Import ListNotations.
Require Import DV.Common.Base.
Open Scope nat_scope.

(* ------------------------------------------------------------------ repair switches *)
(* One boolean per defect of tk.py that has a small upstream repair.  `false` selects the
   pinned (defective) behaviour, `true` the repaired one.  The record is decoded from the
   wire program (TkProg.dec_fixes); the harness table FIXED in harness/props/c13.py says
   which repairs the implementation under test contains. *)
Record fixes := FX { fx10 : bool; fx18 : bool; fx31 : bool; fx32 : bool; fx33 : bool; fx34 : bool }.
Definition pinned : fixes := FX false false false false false false.
Definition repaired : fixes := FX true true true true true true.
(* the classical effect post-processed for discarded bits by the F31 repair:
   ClassicalGate('discard', n, 0, 2 ** n * [1]) *)
Definition discard_id : Z := 8.

(* ------------------------------------------------------------------ wires *)
Inductive wty := WBit | WQubit.
Definition wty_eqb (a b : wty) : bool :=
  match a, b with WBit, WBit => true | WQubit, WQubit => true | _, _ => false end.
Definition is_q (w : wty) : bool := match w with WQubit => true | _ => false end.
Definition is_b (w : wty) : bool := match w with WBit => true | _ => false end.
Definition countq (t : list wty) : nat := length (filter is_q t).
Definition countb (t : list wty) : nat := length (filter is_b t).

(* Python t[a:b] for 0 <= a, 0 <= b (clipping) *)
Definition slice {A} (l : list A) (a b : nat) : list A := firstn (b - a) (skipn a l).

(* ------------------------------------------------------------------ dyadic phases *)
(* dnum / 2^dexp ; normal form: dexp = 0 or dnum odd.  DisCoPy phases and tket
   parameters on the test grid are dyadic rationals, for which Python's float
   arithmetic ( 2 * x, x / 2 ) is exact. *)
Record dy := Dy { dnum : Z; dexp : nat }.
Definition dy_eqb (a b : dy) : bool := (dnum a =? dnum b)%Z && Nat.eqb (dexp a) (dexp b).
Definition dy_normal (d : dy) : bool :=
  match dexp d with O => true | S _ => Z.odd (dnum d) end.
(* tk.py add_gate: 2 * box.phase *)
Definition dy_double (d : dy) : dy :=
  match dexp d with O => Dy (2 * dnum d)%Z O | S e => Dy (dnum d) e end.
(* tk.py box_from_tk: params[0] / 2 *)
Definition dy_half (d : dy) : dy :=
  match dexp d with
  | O => if Z.even (dnum d) then Dy (dnum d / 2)%Z O else Dy (dnum d) 1
  | S e => Dy (dnum d) (S (S e))
  end.
(* pytket stores the parameters of Rx, Rz, CRz modulo 4 (external behaviour, observed) *)
Definition dy_modk (k : Z) (d : dy) : dy := Dy (dnum d mod (k * 2 ^ Z.of_nat (dexp d)))%Z (dexp d).
Definition dy_mod4 := dy_modk 4.
Definition dy_mod2 := dy_modk 2.

(* ------------------------------------------------------------------ gate names *)
(* 1 H, 2 S, 3 T, 4 X, 5 Y, 6 Z, 7 CX, 8 CZ, 9 CY, 10 CH, 11 CS, 12 Rx, 13 Rz, 14 CRz;
   anything else (15 Ry, 16 CRx, 17 CU1, 18 CT, 19 tket SWAP, ...) is not exportable.
   0 is the tket Measure operation. *)
Definition g_X : Z := 4.
Definition g_Rx : Z := 12.
Definition g_Rz : Z := 13.
Definition g_CRz : Z := 14.
Definition op_Measure : Z := 0.
Definition is_rot (g : Z) : bool := (g =? g_Rx)%Z || (g =? g_Rz)%Z || (g =? g_CRz)%Z.
(* hasattr(tk_circ, box.name) for the names the harness can produce *)
Definition tk_has_attr (g : Z) : bool := (1 <=? g)%Z && (g <=? 11)%Z.
(* from_tk: box_from_tk knows Rx, Rz, CRz and GATES = [SWAP, CZ, CX, H, S, T, X, Y, Z];
   SWAP's name is 'Swap(qubit, qubit)', which never equals the tket name 'SWAP' *)
Definition from_tk_known (g : Z) : bool :=
  is_rot g || ((1 <=? g)%Z && (g <=? 8)%Z).
Definition gate_arity (g : Z) : nat :=
  if ((1 <=? g)%Z && (g <=? 6)%Z) || (g =? g_Rx)%Z || (g =? g_Rz)%Z || (g =? 15)%Z then 1 else 2.

(* ------------------------------------------------------------------ boxes *)
Inductive box :=
| BKet (bs : list bool)
| BBra (bs : list bool)
| BBits (bs : list bool) (dag : bool)
| BGate (g : Z) (n : nat) (ph : dy)            (* n = len(box.dom); ph only meaningful for rotations *)
| BSwap (l r : wty)
| BMeasure (n : nat) (destr over : bool)
| BDiscard (dom : list wty)
| BScalar (id : Z) (mixed : bool)              (* the number itself is opaque *)
| BClassical (id : Z) (n m : nat)              (* opaque classical gate bit^n -> bit^m *)
| BOther (id : Z) (dom cod : list wty).        (* Encode, MixedState, ...: not exportable *)

Definition rep {A} (n : nat) (x : A) : list A := repeat x n.

Definition bdom (b : box) : list wty :=
  match b with
  | BKet _ => [] | BBra bs => rep (length bs) WQubit
  | BBits bs dag => if dag then rep (length bs) WBit else []
  | BGate _ n _ => rep n WQubit
  | BSwap l r => [l; r]
  | BMeasure n _ over => rep n WQubit ++ (if over then rep n WBit else [])
  | BDiscard d => d
  | BScalar _ _ => []
  | BClassical _ n _ => rep n WBit
  | BOther _ d _ => d
  end.
Definition bcod (b : box) : list wty :=
  match b with
  | BKet bs => rep (length bs) WQubit | BBra _ => []
  | BBits bs dag => if dag then [] else rep (length bs) WBit
  | BGate _ n _ => rep n WQubit
  | BSwap l r => [r; l]
  | BMeasure n destr _ => (if destr then [] else rep n WQubit) ++ rep n WBit
  | BDiscard _ => []
  | BScalar _ _ => []
  | BClassical _ _ m => rep m WBit
  | BOther _ _ c => c
  end.

Definition layer := (box * nat)%type.
Record circuit := Circ { c_dom : list wty; c_layers : list layer }.

(* the type after a layer: scan[:off] @ box.cod @ scan[off + len(box.dom):] *)
Definition step_ty (scan : list wty) (l : layer) : list wty :=
  let '(b, off) := l in firstn off scan ++ bcod b ++ skipn (off + length (bdom b)) scan.
Definition cod_of (dom : list wty) (ls : list layer) : list wty := fold_left step_ty ls dom.

(* a layer is well-typed when the box's domain sits at its offset *)
Definition layer_ok (scan : list wty) (l : layer) : bool :=
  let '(b, off) := l in
  list_eqb wty_eqb (slice scan off (off + length (bdom b))) (bdom b).
Fixpoint layers_ok (scan : list wty) (ls : list layer) : bool :=
  match ls with
  | [] => true
  | l :: ls' => layer_ok scan l && layers_ok (step_ty scan l) ls'
  end.
Definition circuit_ok (c : circuit) : bool := layers_ok (c_dom c) (c_layers c).

(* ------------------------------------------------------------------ circuit.py: init_and_discard *)
Fixpoint init_layers (dom : list wty) (k : nat) : list layer :=
  match dom with
  | [] => []
  | w :: dom' => ((if is_b w then BBits [false] false else BKet [false]), k) :: init_layers dom' (S k)
  end.
(* Discard() for every qubit, Id(bit) for every bit, tensored left to right: the
   offset of a discard is the number of bits to its left *)
Fixpoint discard_layers (cod : list wty) (nbits : nat) : list layer :=
  match cod with
  | [] => []
  | WBit :: cod' => discard_layers cod' (S nbits)
  | WQubit :: cod' => (BDiscard [WQubit], nbits) :: discard_layers cod' nbits
  end.
Definition init_and_discard (c : circuit) : circuit :=
  let ls := init_layers (c_dom c) 0 ++ c_layers c in
  let cod := cod_of [] ls in
  Circ [] (ls ++ (if Nat.eqb (countq cod) 0 then [] else discard_layers cod 0)).

(* tk.py remove_ket1 through circuit.Functor: Ket(b1..bn) at offset o becomes
   Ket(0..0) at o followed by X at o + k for every k with bk = 1 *)
Fixpoint x_layers (bs : list bool) (off : nat) : list layer :=
  match bs with
  | [] => []
  | b :: bs' => (if b then [(BGate g_X 1 (Dy 0 0), off)] else []) ++ x_layers bs' (S off)
  end.
Definition remove_ket1_layer (l : layer) : list layer :=
  match l with
  | (BKet bs, off) => (BKet (rep (length bs) false), off) :: x_layers bs off
  | _ => [l]
  end.
Definition remove_ket1 (c : circuit) : circuit :=
  Circ (c_dom c) (flat_map remove_ket1_layer (c_layers c)).
Definition prep (c : circuit) : circuit := remove_ket1 (init_and_discard c).

(* ------------------------------------------------------------------ tket circuits *)
Record cmd := Cmd { c_op : Z; c_par : option dy; c_qs : list nat; c_bs : list nat }.

Inductive pbox := PSwap | PClass (id : Z) (n m : nat) | PBitsDag (bs : list bool).
Record ppd := PP { pp_dom : nat; pp_cod : nat; pp_boxes : list (pbox * nat) }.

Record tkc := TK {
  t_nq : nat; t_nb : nat; t_cmds : list cmd;         (* commands in insertion order *)
  t_psel : list (nat * bool);                         (* post_selection dict (insertion order) *)
  t_scal : list (Z * bool);                           (* factors multiplied into .scalar, in order *)
  t_pp : ppd }.

Definition pbox_dom (p : pbox) : nat :=
  match p with PSwap => 2 | PClass _ n _ => n | PBitsDag bs => length bs end.
Definition pbox_cod (p : pbox) : nat :=
  match p with PSwap => 2 | PClass _ _ m => m | PBitsDag _ => 0 end.

(* monoidal.Diagram.swap(left, right) for single-wire boxes:
   swap([], r) = id;  swap(l0 :: ls, r) = id(l0) @ swap(ls, r) >> swap(l0, r) @ id(ls)
   and swap([l0], r) has the boxes Swap(l0, r_i) at offsets i.  The list carries the
   two wire types of every Swap box and its offset. *)
Fixpoint swap1 (l0 : wty) (right : list wty) (k : nat) : list (wty * wty * nat) :=
  match right with
  | [] => []
  | r :: right' => (l0, r, k) :: swap1 l0 right' (S k)
  end.
Fixpoint swap_boxes (left right : list wty) : list (wty * wty * nat) :=
  match left with
  | [] => []
  | l0 :: ls => map (fun '(a, b, k) => (a, b, S k)) (swap_boxes ls right) ++ swap1 l0 right 0
  end.
Definition shift_swaps (d : nat) (l : list (wty * wty * nat)) : list (wty * wty * nat) :=
  map (fun '(a, b, k) => (a, b, d + k)) l.

(* tk.Circuit.add_bit(unit, offset): post_processing @= Id(bit);
   post_processing >>= Id(bit ** offset) @ Id.swap(cod[offset:-1], bit) *)
Definition pp_add_bit (p : ppd) (offset : nat) : res ppd :=
  let c := S (pp_cod p) in
  let k := (c - 1) - offset in                         (* len(cod[offset:-1]) *)
  if negb (Nat.eqb (offset + k + 1) c) then Err AxiomError
  else Ok (PP (S (pp_dom p)) c
              (pp_boxes p ++ map (fun '(_, _, o) => (PSwap, offset + o))
                                 (swap_boxes (rep k WBit) [WBit]))).

(* tk.Circuit.post_process(Id(bit ** off) @ box @ Id(cod[off + len(box.dom):])) *)
Definition pp_post_process (p : ppd) (off : nat) (b : pbox) : res ppd :=
  let r := pp_cod p - (off + pbox_dom b) in             (* len(cod[off + n:]) *)
  if negb (Nat.eqb (off + pbox_dom b + r) (pp_cod p)) then Err AxiomError
  else Ok (PP (pp_dom p) (off + pbox_cod b + r) (pp_boxes p ++ [(b, off)])).

(* unit renaming on the command list *)
Definition map_q (f : nat -> nat) (c : cmd) : cmd := Cmd (c_op c) (c_par c) (map f (c_qs c)) (c_bs c).
Definition map_b (f : nat -> nat) (c : cmd) : cmd := Cmd (c_op c) (c_par c) (c_qs c) (map f (c_bs c)).
Definition shift_from (start n i : nat) : nat := if start <=? i then i + n else i.
Definition transpose (i j r : nat) : nat := if Nat.eqb r i then j else if Nat.eqb r j then i else r.

(* tk.Circuit.rename_units restricted to Bits, on the post_selection dict:
   keys that are renamed are deleted and re-inserted under their new index *)
Fixpoint ps_lookup (ps : list (nat * bool)) (k : nat) : option bool :=
  match ps with
  | [] => None
  | (k', v) :: ps' => if Nat.eqb k k' then Some v else ps_lookup ps' k
  end.
Definition ps_remove (ps : list (nat * bool)) (k : nat) : list (nat * bool) :=
  filter (fun kv => negb (Nat.eqb (fst kv) k)) ps.
(* dict.update({k: v}) *)
Definition ps_set (ps : list (nat * bool)) (k : nat) (v : bool) : list (nat * bool) :=
  match ps_lookup ps k with
  | Some _ => map (fun kv => if Nat.eqb (fst kv) k then (k, v) else kv) ps
  | None => ps ++ [(k, v)]
  end.
Definition ps_rename (ps : list (nat * bool)) (renaming : list (nat * nat)) : list (nat * bool) :=
  let todo := filter (fun on => match ps_lookup ps (fst on) with Some _ => true | None => false end) renaming in
  let moved := map (fun on => (snd on, match ps_lookup ps (fst on) with Some v => v | None => false end)) todo in
  let ps' := fold_left (fun acc on => ps_remove acc (fst on)) todo ps in
  fold_left (fun acc kv => ps_set acc (fst kv) (snd kv)) moved ps'.

(* ------------------------------------------------------------------ to_tk state machine *)
Record st := ST { s_tk : tkc; s_bits : list nat; s_qubits : list nat }.

Definition nth_res {A} (l : list A) (i : nat) : res A :=
  match nth_error l i with Some x => Ok x | None => Err IndexError end.

Definition set_cmds (t : tkc) (cs : list cmd) : tkc := TK (t_nq t) (t_nb t) cs (t_psel t) (t_scal t) (t_pp t).
Definition add_cmd (t : tkc) (c : cmd) : tkc := set_cmds t (t_cmds t ++ [c]).

(* start = tk_circ.n_xs if not regs else 0 if not offset else regs[offset - 1] + 1 *)
Definition prep_start (regs : list nat) (total offset : nat) : res nat :=
  match regs with
  | [] => Ok total
  | _ => match offset with
         | O => Ok 0
         | S o => do r <- nth_res regs o; Ok (S r)
         end
  end.
Definition prep_regs (regs : list nat) (offset start n : nat) : list nat :=
  firstn offset regs ++ seq start n ++ map (fun i => i + n) (skipn offset regs).

(* to_tk.prepare_qubits *)
Definition prepare_qubits (s : st) (n offset : nat) : res st :=
  let t := s_tk s in
  do start <- prep_start (s_qubits s) (t_nq t) offset;
  let t' := TK (t_nq t + n) (t_nb t) (map (map_q (shift_from start n)) (t_cmds t))
               (t_psel t) (t_scal t) (t_pp t) in
  Ok (ST t' (s_bits s) (prep_regs (s_qubits s) offset start n)).

(* add_bit(Bit(i), offset) on the whole tket circuit *)
Definition tk_add_bit (t : tkc) (offset : option nat) : res tkc :=
  do p <- match offset with None => Ok (t_pp t) | Some o => pp_add_bit (t_pp t) o end;
  Ok (TK (t_nq t) (S (t_nb t)) (t_cmds t) (t_psel t) (t_scal t) p).

Fixpoint add_bits_loop (t : tkc) (offset n : nat) : res tkc :=
  match n with
  | O => Ok t
  | S n' => do t' <- tk_add_bit t (Some offset); add_bits_loop t' (S offset) n'
  end.

(* to_tk.prepare_bits *)
Definition prepare_bits (s : st) (n offset : nat) : res st :=
  let t := s_tk s in
  do start <- prep_start (s_bits s) (t_nb t) offset;
  let renaming := map (fun i => (i, i + n)) (seq start (t_nb t - start)) in
  let t1 := TK (t_nq t) (t_nb t) (map (map_b (shift_from start n)) (t_cmds t))
               (ps_rename (t_psel t) renaming) (t_scal t) (t_pp t) in
  do t2 <- add_bits_loop t1 offset n;
  Ok (ST t2 (prep_regs (s_bits s) offset start n) (s_qubits s)).

Definition insert_at {A} (l : list A) (i : nat) (x : A) : list A := firstn i l ++ [x] ++ skipn i l.
Definition remove_range {A} (l : list A) (i n : nat) : list A := firstn i l ++ skipn (i + n) l.

(* to_tk.measure_qubits, override_bits branch *)
Fixpoint measure_override (t : tkc) (bits qubits : list nat) (boff qoff j n : nat) : res tkc :=
  match n with
  | O => Ok t
  | S n' =>
      do ib <- nth_res bits (boff + j);
      do iq <- nth_res qubits (qoff + j);
      measure_override (add_cmd t (Cmd op_Measure None [iq] [ib])) bits qubits boff qoff (S j) n'
  end.

(* to_tk.measure_qubits, main loop.  bras = Some bitstring for a Bra *)
Fixpoint measure_loop (fx : fixes) (t : tkc) (bits qubits : list nat) (bras : option (list bool))
         (boff qoff j n : nat) : res (tkc * list nat) :=
  match n with
  | O => Ok (t, bits)
  | S n' =>
      let ib := t_nb t in
      do iq <- nth_res qubits (qoff + j);
      (* DEFECT F10 (pinned): offset = len(bits), not bit_offset + j *)
      do t1 <- tk_add_bit t (match bras with
                             | None => Some (if fx10 fx then boff + j else length bits)
                             | Some _ => None end);
      let t2 := add_cmd t1 (Cmd op_Measure None [iq] [ib]) in
      match bras with
      | Some bs =>
          do v <- nth_res bs j;
          let t3 := TK (t_nq t2) (t_nb t2) (t_cmds t2) (ps_set (t_psel t2) ib v) (t_scal t2) (t_pp t2) in
          measure_loop fx t3 bits qubits bras boff qoff (S j) n'
      | None =>
          measure_loop fx t2 (insert_at bits (boff + j) ib) qubits bras boff qoff (S j) n'
      end
  end.

(* to_tk.swap(i, j, unit_factory): three renamings through the unit ('tmp', 0) *)
Definition swap_qubits (t : tkc) (i j : nat) : tkc :=
  set_cmds t (map (map_q (transpose i j)) (t_cmds t)).
Definition swap_bits (fx : fixes) (t : tkc) (i j : nat) : tkc :=
  (* rename_units looks at old.index[0], and Bit('tmp', 0).index[0] = 0:
     DEFECT F32 (pinned): the third renaming {tmp: Bit(j)} moves a post-selection
     recorded for bit 0 to bit j.  Repaired: only bits of register 'c' are looked up,
     so the renaming of the temporary unit leaves post_selection alone. *)
  let ps1 := ps_rename (t_psel t) [(i, 0)] in
  let ps2 := ps_rename ps1 [(j, i)] in
  let ps3 := if fx32 fx then ps2 else ps_rename ps2 [(0, j)] in
  TK (t_nq t) (t_nb t) (map (map_b (transpose i j)) (t_cmds t)) ps3 (t_scal t) (t_pp t).

(* to_tk.add_gate *)
Definition gate_param (g : Z) (ph : dy) : res (option dy) :=
  if is_rot g then Ok (Some (dy_mod4 (dy_double ph)))
  else if tk_has_attr g then Ok None
  else Err NotImplementedError.
Fixpoint index_range (regs : list nat) (off n : nat) : res (list nat) :=
  match n with
  | O => Ok []
  | S n' => do r <- nth_res regs off; do rs <- index_range regs (S off) n'; Ok (r :: rs)
  end.

Definition set_pp (t : tkc) (p : ppd) : tkc := TK (t_nq t) (t_nb t) (t_cmds t) (t_psel t) (t_scal t) p.

(* one iteration of `for left, box, _ in circuit.layers` *)
Definition to_tk_step (fx : fixes) (scan : list wty) (s : st) (l : layer) : res st :=
  let '(b, off) := l in
  let left := firstn off scan in
  let qoff := countq left in
  let boff := countb left in
  let t := s_tk s in
  match b with
  | BKet bs => prepare_qubits s (length bs) qoff
  | BBits bs false =>
      if existsb (fun x => x) bs then Err NotImplementedError
      else prepare_bits s (length bs) boff
  | BMeasure n destr true =>
      do t' <- measure_override t (s_bits s) (s_qubits s) boff qoff 0 n;
      (* DEFECT F34 (pinned): `return bits, qubits` even when destructive *)
      Ok (ST t' (s_bits s)
             (if fx34 fx && destr then remove_range (s_qubits s) qoff n else s_qubits s))
  | BMeasure n destr false =>
      do tb <- measure_loop fx t (s_bits s) (s_qubits s) None boff qoff 0 n;
      Ok (ST (fst tb) (snd tb)
             (if destr then remove_range (s_qubits s) qoff n else s_qubits s))
  | BBra bs =>
      do tb <- measure_loop fx t (s_bits s) (s_qubits s) (Some bs) boff qoff 0 (length bs);
      Ok (ST (fst tb) (snd tb) (remove_range (s_qubits s) qoff (length bs)))
  | BDiscard d =>
      (* DEFECT F31 (pinned): discarded bits stay in post_processing.  Repaired:
         `if box.dom.count(bit): post_process(Id(bit ** off) @ discard @ right)` *)
      do p <- (if fx31 fx && (0 <? countb d)
               then pp_post_process (t_pp t) boff (PClass discard_id (countb d) 0)
               else Ok (t_pp t));
      Ok (ST (set_pp t p) (remove_range (s_bits s) boff (countb d))
             (remove_range (s_qubits s) qoff (countq d)))
  | BSwap WQubit WQubit =>
      do i <- nth_res (s_qubits s) qoff;
      do j <- nth_res (s_qubits s) (S qoff);
      Ok (ST (swap_qubits t i j) (s_bits s) (s_qubits s))
  | BSwap WBit WBit =>
      match pp_boxes (t_pp t) with
      | _ :: _ =>                                (* `if tk_circ.post_processing:` *)
          do p <- pp_post_process (t_pp t) boff PSwap;
          Ok (ST (set_pp t p) (s_bits s) (s_qubits s))
      | [] =>
          do i <- nth_res (s_bits s) boff;
          do j <- nth_res (s_bits s) (S boff);
          Ok (ST (swap_bits fx t i j) (s_bits s) (s_qubits s))
      end
  | BSwap _ _ => Ok s
  | BScalar id mixed =>
      Ok (ST (TK (t_nq t) (t_nb t) (t_cmds t) (t_psel t) (t_scal t ++ [(id, mixed)]) (t_pp t))
             (s_bits s) (s_qubits s))
  | BClassical id n m =>
      do p <- pp_post_process (t_pp t) boff (PClass id n m);
      Ok (ST (set_pp t p) (s_bits s) (s_qubits s))
  | BBits bs true =>
      do p <- pp_post_process (t_pp t) boff (PBitsDag bs);
      Ok (ST (set_pp t p) (s_bits s) (s_qubits s))
  | BGate g n ph =>
      do iqs <- index_range (s_qubits s) qoff n;
      do par <- gate_param g ph;
      Ok (ST (add_cmd t (Cmd g par iqs [])) (s_bits s) (s_qubits s))
  | BOther _ _ _ => Err NotImplementedError
  end.

Fixpoint to_tk_layers (fx : fixes) (scan : list wty) (s : st) (ls : list layer) : res st :=
  match ls with
  | [] => Ok s
  | l :: ls' => do s' <- to_tk_step fx scan s l; to_tk_layers fx (step_ty scan l) s' ls'
  end.

Definition tk_empty : tkc := TK 0 0 [] [] [] (PP 0 0 []).
Definition st0 : st := ST tk_empty [] [].

(* tk.py to_tk *)
Definition to_tk_state (fx : fixes) (c : circuit) : res st :=
  let c' := prep c in to_tk_layers fx (c_dom c') st0 (c_layers c').
Definition to_tk (fx : fixes) (c : circuit) : res tkc := do s <- to_tk_state fx c; Ok (s_tk s).

(* ------------------------------------------------------------------ from_tk *)
Definition dagger_swaps (l : list (wty * wty * nat)) : list (wty * wty * nat) :=
  map (fun '(a, b, k) => (b, a, k)) (rev l).
Definition swaps_layers (l : list (wty * wty * nat)) : list layer :=
  map (fun '(a, b, k) => (BSwap a b, k)) l.
Definition ty_eqb := list_eqb wty_eqb.

(* from_tk.make_units_adjacent: returns (offset, swaps.cod, swaps boxes).  The offset
   of `Id(left) @ swap @ Id(right)` is len(left) = len(cod[:source]).  The composition
   check `swaps.cod == left @ box.dom @ right` with left = swaps.cod[:offset] and
   right = swaps.cod[offset + len(box.dom):] is, for a non-empty box.dom, the same as
   `layer_ok swaps.cod (box, offset)`. *)
Fixpoint mua_loop (fx : fixes) (cod : list wty) (offset : nat) (acc : list (wty * wty * nat))
         (qs : list nat) (i : nat) : nat * list wty * list (wty * wty * nat) :=
  match qs with
  | [] => (offset, cod, acc)
  | source :: qs' =>
      let target := offset + i + 1 in
      if source <? target then
        let sw := swap_boxes (slice cod source (S source)) (slice cod (S source) target) in
        let cod' := firstn source cod ++ slice cod (S source) target ++ slice cod source (S source)
                    ++ skipn target cod in
        let offset' := if source <=? offset then offset - 1 else offset in
        mua_loop fx cod' offset' (acc ++ shift_swaps (length (firstn source cod)) sw) qs' (S i)
      else if target <? source then
        (* DEFECT F33 (pinned): moves the wire at `target` to the far right instead of
           bringing the wire at `source` to `target`.  Repaired:
           Id.swap(cod[target:source], cod[source:source + 1]) *)
        let mid := if fx33 fx then source else S target in
        let sw := swap_boxes (slice cod target mid) (slice cod mid (S source)) in
        let cod' := firstn target cod ++ slice cod mid (S source) ++ slice cod target mid
                    ++ skipn (S source) cod in
        mua_loop fx cod' offset (acc ++ shift_swaps (length (firstn target cod)) sw) qs' (S i)
      else mua_loop fx cod offset acc qs' (S i)
  end.

Definition from_tk_box (c : cmd) : res box :=
  let g := c_op c in
  if is_rot g then
    match c_par c with
    | Some p => Ok (BGate g (gate_arity g) (dy_half p))
    | None => Err IndexError
    end
  else if from_tk_known g then Ok (BGate g (gate_arity g) (Dy 0 0))
  else Err NotImplementedError.

Record ftk := FTK { f_layers : list layer; f_bras : list (nat * bool) }.

(* one iteration of `for tk_gate in tk_circuit.get_commands()`;
   cod is qubit ** n_qubits @ bit ** n_bits throughout *)
Definition from_tk_cmd (fx : fixes) (nq nb : nat) (psel : list (nat * bool)) (cod : list wty) (f : ftk) (c : cmd)
  : res ftk :=
  if (c_op c =? op_Measure)%Z then
    do offset <- nth_res (c_qs c) 0;
    do bi0 <- nth_res (c_bs c) 0;
    match ps_lookup psel bi0 with
    | Some v => Ok (FTK (f_layers f) (ps_set (f_bras f) offset v))
    | None =>
        (* DEFECT F18 (pinned): bit_index is the raw tket index although the bit register
           has been shrunk by the post-selected bits.  Repaired:
           bit_index -= len([i for i in post_selection if i < bit_index]) *)
        let bi := if fx18 fx
                  then bi0 - length (filter (fun kv => fst kv <? bi0) psel) else bi0 in
        let left := slice cod (S offset) (nq + bi) in
        let right := slice (skipn nq cod) bi (S bi) in
        let sdom := firstn (S offset) cod ++ left ++ right ++ skipn (nq + bi + 1) cod in
        let scod := firstn (S offset) cod ++ right ++ left ++ skipn (nq + bi + 1) cod in
        let sw := shift_swaps (length (firstn (S offset) cod)) (swap_boxes left right) in
        let b := BMeasure 1 false true in
        if negb (ty_eqb cod sdom) then Err AxiomError
        else if negb (layer_ok scod (b, offset))    (* swaps.cod == left @ box.dom @ right *)
        then Err AxiomError
        else Ok (FTK (f_layers f ++ swaps_layers sw ++ [(b, offset)] ++ swaps_layers (dagger_swaps sw))
                     (f_bras f))
    end
  else
    do b <- from_tk_box c;
    do q0 <- nth_res (c_qs c) 0;
    let '(offset, scod, sw) := mua_loop fx cod q0 [] (tl (c_qs c)) 0 in
    if negb (layer_ok scod (b, offset))            (* swaps.cod == left @ box.dom @ right *)
    then Err AxiomError
    else Ok (FTK (f_layers f ++ swaps_layers sw ++ [(b, offset)] ++ swaps_layers (dagger_swaps sw))
                 (f_bras f)).

Fixpoint from_tk_cmds (fx : fixes) (nq nb : nat) (psel : list (nat * bool)) (cod : list wty) (f : ftk)
         (cs : list cmd) : res ftk :=
  match cs with
  | [] => Ok f
  | c :: cs' => do f' <- from_tk_cmd fx nq nb psel cod f c; from_tk_cmds fx nq nb psel cod f' cs'
  end.

Fixpoint ket_layers (n k : nat) : list layer :=
  match n with O => [] | S n' => (BKet [false], k) :: ket_layers n' (S k) end.
Fixpoint bits_layers (n k : nat) : list layer :=
  match n with O => [] | S n' => (BBits [false] false, k) :: bits_layers n' (S k) end.

(* the final tensor of Bra / Discard / Id(bit): offset = number of kept bits on the left *)
Fixpoint final_layers (cod : list wty) (bras : list (nat * bool)) (i kept : nat) : list layer :=
  match cod with
  | [] => []
  | w :: cod' =>
      match ps_lookup bras i with
      | Some v => (BBra [v], kept) :: final_layers cod' bras (S i) kept
      | None =>
          match w with
          | WQubit => (BDiscard [WQubit], kept) :: final_layers cod' bras (S i) kept
          | WBit => final_layers cod' bras (S i) (S kept)
          end
      end
  end.

Definition pbox_to_box (p : pbox) : box :=
  match p with
  | PSwap => BSwap WBit WBit
  | PClass id n m => BClassical id n m
  | PBitsDag bs => BBits bs true
  end.

(* tk.py from_tk.  scalar_id = None when tk_circuit.scalar == 1.  The command list
   is the one `get_commands()` returns. *)
Definition from_tk (fx : fixes) (t : tkc) (scalar_id : option Z) : res circuit :=
  let nb := t_nb t - length (t_psel t) in
  let nq := t_nq t in
  let cod := rep nq WQubit ++ rep nb WBit in
  let init := ket_layers nq 0 ++ bits_layers nb nq in
  do f <- from_tk_cmds fx nq nb (t_psel t) cod (FTK init []) (t_cmds t);
  let fin := final_layers cod (f_bras f) 0 0 in
  let cod1 := cod_of cod fin in
  let sc := match scalar_id with Some id => [(BScalar id true, length cod1)] | None => [] end in
  if negb (Nat.eqb (length cod1) (pp_dom (t_pp t))) then Err AxiomError
  else Ok (Circ [] (f_layers f ++ fin ++ sc
                    ++ map (fun '(p, o) => (pbox_to_box p, o)) (pp_boxes (t_pp t)))).

(* ------------------------------------------------------------------ wire-labelled trace of a circuit *)
(* Every qubit wire gets a label when it is created; a gate / measurement event
   names the labels it acts on.  This is the circuit's own meaning at the level
   of "which operation hits which logical wire, in which order". *)
Inductive event :=
| EGate (g : Z) (ph : dy) (labs : list nat)
| EMeas (lab : nat).

Record qst := QS { q_labs : list nat; q_next : nat; q_events : list event }.

Definition qtrace_step (scan : list wty) (s : qst) (l : layer) : option qst :=
  let '(b, off) := l in
  let qoff := countq (firstn off scan) in
  match b with
  | BKet bs =>
      let n := length bs in
      Some (QS (firstn qoff (q_labs s) ++ seq (q_next s) n ++ skipn qoff (q_labs s))
               (q_next s + n) (q_events s))
  | BGate g n ph =>
      let labs := firstn n (skipn qoff (q_labs s)) in
      if Nat.eqb (length labs) n
      then Some (QS (q_labs s) (q_next s) (q_events s ++ [EGate g ph labs]))
      else None
  | BSwap WQubit WQubit =>
      match skipn qoff (q_labs s) with
      | a :: b' :: rest => Some (QS (firstn qoff (q_labs s) ++ b' :: a :: rest) (q_next s) (q_events s))
      | _ => None
      end
  | BMeasure n destr over =>
      let labs := firstn n (skipn qoff (q_labs s)) in
      if Nat.eqb (length labs) n
      then Some (QS (if destr then remove_range (q_labs s) qoff n else q_labs s) (q_next s)
                    (q_events s ++ map EMeas labs))
      else None
  | BBra bs =>
      let n := length bs in
      let labs := firstn n (skipn qoff (q_labs s)) in
      if Nat.eqb (length labs) n
      then Some (QS (remove_range (q_labs s) qoff n) (q_next s) (q_events s ++ map EMeas labs))
      else None
  | BDiscard d => Some (QS (remove_range (q_labs s) qoff (countq d)) (q_next s) (q_events s))
  | _ => Some s
  end.

Fixpoint qtrace_layers (scan : list wty) (s : qst) (ls : list layer) : option qst :=
  match ls with
  | [] => Some s
  | l :: ls' =>
      match qtrace_step scan s l with
      | Some s' => qtrace_layers (step_ty scan l) s' ls'
      | None => None
      end
  end.

Definition qtrace (c : circuit) : option qst :=
  qtrace_layers (c_dom c) (QS [] 0 []) (c_layers c).

(* the qubit part of a tket command: (op, params, qubit registers) *)
Definition qpart (c : cmd) : Z * option dy * list nat := (c_op c, c_par c, c_qs c).
(* what an event becomes under an assignment rho of registers to labels *)
Definition relabel (rho : nat -> nat) (e : event) : Z * option dy * list nat :=
  match e with
  | EGate g ph labs =>
      (g, (if is_rot g then Some (dy_mod4 (dy_double ph)) else None), map rho labs)
  | EMeas lab => (op_Measure, None, [rho lab])
  end.

(* ------------------------------------------------------------------ provenance of output bits *)
(* Symbolic classical semantics: where does every output bit come from?
   PMeas k = outcome of the k-th event / command (insertion order). *)
Inductive prov :=
| PZero
| PMeas (k : nat)
| PApp (id : Z) (args : list prov) (k : nat)
| PBad.

Fixpoint prov_eqb (a b : prov) : bool :=
  match a, b with
  | PZero, PZero => true
  | PMeas k, PMeas k' => Nat.eqb k k'
  | PApp i xs k, PApp i' ys k' =>
      (i =? i')%Z && Nat.eqb k k' &&
      (fix go (xs ys : list prov) : bool :=
         match xs, ys with
         | [], [] => true
         | x :: xs', y :: ys' => prov_eqb x y && go xs' ys'
         | _, _ => false
         end) xs ys
  | PBad, PBad => true
  | _, _ => false
  end.

Definition constr := (prov * bool)%type.
Definition constr_eqb (a b : constr) : bool := prov_eqb (fst a) (fst b) && Bool.eqb (snd a) (snd b).
Fixpoint remove_first (x : constr) (l : list constr) : option (list constr) :=
  match l with
  | [] => None
  | y :: l' => if constr_eqb x y then Some l'
               else match remove_first x l' with Some r => Some (y :: r) | None => None end
  end.
Fixpoint multiset_eqb (a b : list constr) : bool :=
  match a with
  | [] => match b with [] => true | _ => false end
  | x :: a' => match remove_first x b with Some b' => multiset_eqb a' b' | None => false end
  end.

Record dsem_st := DS { d_bits : list prov; d_nev : nat; d_constr : list constr }.

Definition replace_range {A} (l : list A) (i n : nat) (new : list A) : list A :=
  firstn i l ++ new ++ skipn (i + n) l.
Definition app_outputs (id : Z) (args : list prov) (m : nat) : list prov :=
  map (fun k => PApp id args k) (seq 0 m).

(* circuit side *)
Definition dsem_step (scan : list wty) (s : dsem_st) (l : layer) : dsem_st :=
  let '(b, off) := l in
  let boff := countb (firstn off scan) in
  match b with
  | BKet bs => DS (d_bits s) (d_nev s + length (filter (fun x => x) bs)) (d_constr s)
  | BBits bs false => DS (replace_range (d_bits s) boff 0 (rep (length bs) PZero)) (d_nev s) (d_constr s)
  | BBits bs true =>
      DS (remove_range (d_bits s) boff (length bs)) (d_nev s)
         (d_constr s ++ combine (firstn (length bs) (skipn boff (d_bits s))) bs)
  | BGate _ _ _ => DS (d_bits s) (S (d_nev s)) (d_constr s)
  | BSwap WBit WBit =>
      match skipn boff (d_bits s) with
      | a :: b' :: rest => DS (firstn boff (d_bits s) ++ b' :: a :: rest) (d_nev s) (d_constr s)
      | _ => DS [PBad] (d_nev s) (d_constr s)
      end
  | BSwap _ _ => s
  | BMeasure n destr over =>
      let outs := map (fun j => PMeas (d_nev s + j)) (seq 0 n) in
      DS (replace_range (d_bits s) boff (if over then n else 0) outs) (d_nev s + n) (d_constr s)
  | BBra bs =>
      DS (d_bits s) (d_nev s + length bs)
         (d_constr s ++ combine (map (fun j => PMeas (d_nev s + j)) (seq 0 (length bs))) bs)
  | BDiscard d => DS (remove_range (d_bits s) boff (countb d)) (d_nev s) (d_constr s)
  | BScalar _ _ => s
  | BClassical id n m =>
      let args := firstn n (skipn boff (d_bits s)) in
      DS (replace_range (d_bits s) boff n (app_outputs id args m)) (d_nev s) (d_constr s)
  | BOther _ _ _ => DS [PBad] (d_nev s) (d_constr s)
  end.
Fixpoint dsem_layers (scan : list wty) (s : dsem_st) (ls : list layer) : dsem_st :=
  match ls with
  | [] => s
  | l :: ls' => dsem_layers (step_ty scan l) (dsem_step scan s l) ls'
  end.
Definition dsem (c : circuit) : list prov * list constr :=
  let s := dsem_layers (c_dom c) (DS [] 0 []) (c_layers c) in (d_bits s, d_constr s).

(* tket side: bit registers after the commands, post-selection, post-processing *)
Fixpoint regs_after (cs : list cmd) (k : nat) (regs : list prov) : list prov :=
  match cs with
  | [] => regs
  | c :: cs' =>
      let regs' :=
        if (c_op c =? op_Measure)%Z then
          match c_bs c with
          | [r] => if r <? length regs then replace_range regs r 1 [PMeas k] else [PBad]
          | _ => [PBad]
          end
        else regs in
      regs_after cs' (S k) regs'
  end.
Definition pp_step (s : list prov * list constr) (pb : pbox * nat) : list prov * list constr :=
  let '(bits, cs) := s in
  let '(p, off) := pb in
  match p with
  | PSwap =>
      match skipn off bits with
      | a :: b' :: rest => (firstn off bits ++ b' :: a :: rest, cs)
      | _ => ([PBad], cs)
      end
  | PClass id n m =>
      (replace_range bits off n (app_outputs id (firstn n (skipn off bits)) m), cs)
  | PBitsDag bs =>
      (remove_range bits off (length bs), cs ++ combine (firstn (length bs) (skipn off bits)) bs)
  end.
Definition tsem (t : tkc) : list prov * list constr :=
  let regs := regs_after (t_cmds t) 0 (rep (t_nb t) PZero) in
  let idx := seq 0 (t_nb t) in
  let sel := flat_map (fun i => match ps_lookup (t_psel t) i with
                                | Some v => [(nth i regs PBad, v)] | None => [] end) idx in
  let kept := flat_map (fun i => match ps_lookup (t_psel t) i with
                                 | Some _ => [] | None => [nth i regs PBad] end) idx in
  if negb (Nat.eqb (length kept) (pp_dom (t_pp t))) then ([PBad], sel)
  else fold_left pp_step (pp_boxes (t_pp t)) (kept, sel).

Definition sem_eqb (a b : list prov * list constr) : bool :=
  list_eqb prov_eqb (fst a) (fst b) && multiset_eqb (snd a) (snd b).

(* the exported circuit routes every output bit as the circuit does *)
Definition routing_ok (c : circuit) (t : tkc) : bool := sem_eqb (dsem (prep c)) (tsem t).

(* ------------------------------------------------------------------ trigger predicates of the known defects *)
Record flags := FL { fl_f10 : bool; fl_f30 : bool; fl_f31 : bool; fl_f32 : bool; fl_f34 : bool;
                     fl_over : bool; fl_arity : bool }.
Definition fl0 := FL false false false false false false false.
Definition has_key (ps : list (nat * bool)) (k : nat) : bool :=
  match ps_lookup ps k with Some _ => true | None => false end.

Definition flags_step (fx : fixes) (scan : list wty) (s : st) (f : flags) (l : layer) : flags :=
  let '(b, off) := l in
  let boff := countb (firstn off scan) in
  let t := s_tk s in
  match b with
  | BMeasure n _ false =>
      (* some measured bit is inserted to the left of an existing bit *)
      if negb (fx10 fx) && (0 <? n) && (boff <? length (s_bits s))
      then FL true (fl_f30 f) (fl_f31 f) (fl_f32 f) (fl_f34 f) (fl_over f) (fl_arity f) else f
  | BMeasure n destr true =>
      (* F37: a bit is overridden after classical post-processing started *)
      FL (fl_f10 f) (fl_f30 f) (fl_f31 f) (fl_f32 f) (fl_f34 f || (negb (fx34 fx) && destr))
         (fl_over f || ((0 <? n) && match pp_boxes (t_pp t) with [] => false | _ => true end))
         (fl_arity f)
  | BBits bs false =>
      (* a bit is prepared below a tket bit that is not post-selected *)
      match prep_start (s_bits s) (t_nb t) boff with
      | Ok start =>
          if (0 <? length bs) &&
             existsb (fun r => (start <=? r) && negb (has_key (t_psel t) r)) (seq 0 (t_nb t))
          then FL (fl_f10 f) true (fl_f31 f) (fl_f32 f) (fl_f34 f) (fl_over f) (fl_arity f) else f
      | Err _ => f
      end
  | BDiscard d =>
      if negb (fx31 fx) && (0 <? countb d)
      then FL (fl_f10 f) (fl_f30 f) true (fl_f32 f) (fl_f34 f) (fl_over f) (fl_arity f) else f
  | BSwap WBit WBit =>
      match pp_boxes (t_pp t) with
      | [] => if negb (fx32 fx) && has_key (t_psel t) 0
              then FL (fl_f10 f) (fl_f30 f) (fl_f31 f) true (fl_f34 f) (fl_over f) (fl_arity f) else f
      | _ => f
      end
  | BClassical _ n m =>
      if Nat.eqb n m then f
      else FL (fl_f10 f) (fl_f30 f) (fl_f31 f) (fl_f32 f) (fl_f34 f) (fl_over f) true
  | BBits bs true =>
      if 0 <? length bs
      then FL (fl_f10 f) (fl_f30 f) (fl_f31 f) (fl_f32 f) (fl_f34 f) (fl_over f) true else f
  | _ => f
  end.

Fixpoint flags_layers (fx : fixes) (scan : list wty) (s : st) (f : flags) (ls : list layer) : flags :=
  match ls with
  | [] => f
  | l :: ls' =>
      match to_tk_step fx scan s l with
      | Ok s' => flags_layers fx (step_ty scan l) s' (flags_step fx scan s f l) ls'
      | Err _ => flags_step fx scan s f l
      end
  end.
Definition to_tk_flags (fx : fixes) (c : circuit) : flags :=
  let c' := prep c in flags_layers fx (c_dom c') st0 fl0 (c_layers c').

(* from_tk side: the trace of the imported circuit against the tket commands *)
Definition from_tk_trace_ok (t : tkc) (c : circuit) : bool :=
  match qtrace c with
  | None => false
  | Some q =>
      let want := flat_map (fun cm =>
                    if (c_op cm =? op_Measure)%Z
                    then match c_qs cm with [r] => [EMeas r] | _ => [] end
                    else [EGate (c_op cm)
                                (match c_par cm with Some p => dy_half p | None => Dy 0 0 end)
                                (c_qs cm)]) (t_cmds t) in
      let ev_eqb (a b : event) :=
        match a, b with
        | EGate g p ls, EGate g' p' ls' =>
            (g =? g')%Z && (if is_rot g then dy_eqb p p' else true) && list_eqb Nat.eqb ls ls'
        | EMeas l1, EMeas l2 => Nat.eqb l1 l2
        | _, _ => false
        end in
      list_eqb ev_eqb (q_events q) want
  end.

(* the imported circuit routes every bit as the tket circuit does (meaningful when
   nothing is post-selected: then event k of the circuit is command k) *)
Definition from_tk_routing_ok (t : tkc) (c : circuit) : bool := sem_eqb (dsem c) (tsem t).

(* trigger of F18: a measurement that is not post-selected writes a bit whose raw
   index lies above a post-selected bit *)
Definition f18_trigger (fx : fixes) (t : tkc) : bool :=
  negb (fx18 fx) &&
  existsb (fun c => (c_op c =? op_Measure)%Z &&
                    match c_bs c with
                    | [bi] => negb (has_key (t_psel t) bi) &&
                              existsb (fun kv => fst kv <? bi) (t_psel t)
                    | _ => false
                    end) (t_cmds t).
(* trigger of F33: a two-qubit command whose second qubit lies three or more places
   to the right of the first *)
Definition f33_trigger (fx : fixes) (t : tkc) : bool :=
  negb (fx33 fx) &&
  existsb (fun c => match c_qs c with
                    | [a; b] => a + 2 <? b
                    | _ => false
                    end) (t_cmds t).
