(* Routing theorems for the tket translation model (coq/Tk/Tk.v):
   Part 1 -- from_tk: the imported circuit has the tket circuit's trace
             (import counterpart of to_tk_refines_trace), for the repaired
             make_units_adjacent (fx33 = true);
   Part 2 -- to_tk: outside the trigger predicates of the known defects every
             output bit and every post-selection constraint of the exported circuit
             has the provenance the circuit gives it (routing_ok).
   Proofs only; the model is in Tk.v, earlier lemmas in TkLemmas.v. *)
From Coq Require Import List ZArith Bool Lia Arith.
Import ListNotations.
Require Import DV.Common.Base DV.Tk.Tk DV.Tk.TkLemmas.
Open Scope nat_scope.

(* ================================================================== generic list helpers *)
Lemma firstn_exact : forall {A} (a b : list A) k, length a = k -> firstn k (a ++ b) = a.
Proof. intros A a b k <-. apply firstn_len_app. Qed.
Lemma skipn_exact : forall {A} (a b : list A) k j, length a = k -> skipn (k + j) (a ++ b) = skipn j b.
Proof. intros A a b k j <-. apply skipn_len_app. Qed.
Lemma skipn_exact0 : forall {A} (a b : list A) k, length a = k -> skipn k (a ++ b) = b.
Proof. intros A a b k H. rewrite <- (Nat.add_0_r k). rewrite (skipn_exact a b k 0 H). reflexivity. Qed.
Lemma firstn_app_le : forall {A} (a b : list A) k, k <= length a -> firstn k (a ++ b) = firstn k a.
Proof.
  intros A a b k H. rewrite firstn_app. replace (k - length a) with 0 by lia.
  simpl. apply app_nil_r.
Qed.

Lemma seq_split : forall n k, k <= n -> seq 0 n = seq 0 k ++ seq k (n - k).
Proof. intros n k H. replace n with (k + (n - k)) at 1 by lia. rewrite seq_app. reflexivity. Qed.
Lemma firstn_seq0 : forall n k, k <= n -> firstn k (seq 0 n) = seq 0 k.
Proof. intros n k H. rewrite (seq_split n k H). apply firstn_exact. apply seq_length. Qed.
Lemma skipn_seq0 : forall n k, k <= n -> skipn k (seq 0 n) = seq k (n - k).
Proof. intros n k H. rewrite (seq_split n k H). apply skipn_exact0. apply seq_length. Qed.
Lemma nth_error_seq : forall n a i, i < n -> nth_error (seq a n) i = Some (a + i).
Proof.
  induction n; intros a i H; [lia|]. destruct i; simpl.
  - f_equal. lia.
  - rewrite IHn by lia. f_equal. lia.
Qed.
Lemma nth_error_firstn_lt : forall {A} (l : list A) n i, i < n -> nth_error (firstn n l) i = nth_error l i.
Proof.
  intros A l; induction l as [|x l IH]; intros n i H.
  - rewrite firstn_nil. reflexivity.
  - destruct n; [lia|]. destruct i; simpl; auto. apply IH. lia.
Qed.
Lemma firstn2_of_nth : forall {A} (l : list A) o x y,
  nth_error l o = Some x -> nth_error l (S o) = Some y -> firstn 2 (skipn o l) = [x; y].
Proof.
  intros A l o x y Hx Hy. rewrite (skipn_cons_nth _ _ _ Hx). rewrite (skipn_cons_nth _ _ _ Hy). reflexivity.
Qed.
Lemma firstn1_of_nth : forall {A} (l : list A) o x,
  nth_error l o = Some x -> firstn 1 (skipn o l) = [x].
Proof. intros A l o x Hx. rewrite (skipn_cons_nth _ _ _ Hx). reflexivity. Qed.

Lemma slice_length : forall {A} (l : list A) a b, b <= length l -> length (slice l a b) = b - a.
Proof. intros A l a b H. unfold slice. rewrite firstn_length, skipn_length. lia. Qed.
Lemma nth_error_slice : forall {A} (l : list A) a b i, i < b - a -> nth_error (slice l a b) i = nth_error l (a + i).
Proof. intros A l a b i H. unfold slice. rewrite nth_error_firstn_lt by auto. apply nth_error_skipn. Qed.

(* ================================================================== swaps acting on labels *)
Definition swap_at {A} (k : nat) (l : list A) : list A :=
  match skipn k l with
  | a :: b :: rest => firstn k l ++ b :: a :: rest
  | _ => l
  end.
Definition apply_swaps {A} (ks : list nat) (l : list A) : list A :=
  fold_left (fun acc k => swap_at k acc) ks l.
Definition offs (sw : list (wty * wty * nat)) : list nat := map (fun x => snd x) sw.

Lemma swap_at_app : forall {A} (pre : list A) a b post,
  swap_at (length pre) (pre ++ a :: b :: post) = pre ++ b :: a :: post.
Proof.
  intros A pre a b post. unfold swap_at.
  rewrite (skipn_exact0 pre (a :: b :: post) (length pre) eq_refl).
  rewrite firstn_len_app. reflexivity.
Qed.
Lemma swap_at_length : forall {A} k (l : list A), length (swap_at k l) = length l.
Proof.
  intros A k l. unfold swap_at. destruct (skipn k l) as [|a [|b rest]] eqn:E; auto.
  rewrite <- (firstn_skipn k l) at 2. rewrite E, !app_length. reflexivity.
Qed.
Lemma swap_at_invol : forall {A} k (l : list A), swap_at k (swap_at k l) = l.
Proof.
  intros A k l. unfold swap_at at 2. destruct (skipn k l) as [|a [|b rest]] eqn:E.
  - unfold swap_at. rewrite E. reflexivity.
  - unfold swap_at. rewrite E. reflexivity.
  - assert (Hk : length (firstn k l) = k).
    { apply firstn_length_le. destruct (Nat.le_gt_cases k (length l)); auto.
      rewrite skipn_all2 in E by lia. discriminate. }
    rewrite <- Hk at 1. rewrite swap_at_app. rewrite <- E. apply firstn_skipn.
Qed.
Lemma apply_swaps_length : forall {A} ks (l : list A), length (apply_swaps ks l) = length l.
Proof.
  intros A ks. induction ks as [|k ks IH]; intros l; simpl; auto.
  unfold apply_swaps in *. simpl. rewrite IH. apply swap_at_length.
Qed.
Lemma apply_swaps_app : forall {A} a b (l : list A), apply_swaps (a ++ b) l = apply_swaps b (apply_swaps a l).
Proof. intros. unfold apply_swaps. apply fold_left_app. Qed.
Lemma apply_swaps_rev : forall {A} ks (l : list A), apply_swaps (rev ks) (apply_swaps ks l) = l.
Proof.
  intros A ks. induction ks as [|k ks IH]; intros l; auto.
  cbn [rev]. rewrite apply_swaps_app. change (apply_swaps (k :: ks) l) with (apply_swaps ks (swap_at k l)).
  rewrite IH. unfold apply_swaps. simpl. apply swap_at_invol.
Qed.

Lemma offs_app : forall a b, offs (a ++ b) = offs a ++ offs b.
Proof. intros. unfold offs. apply map_app. Qed.
Lemma offs_dagger : forall sw, offs (dagger_swaps sw) = rev (offs sw).
Proof.
  intros sw. unfold offs, dagger_swaps. rewrite map_map, <- map_rev. apply map_ext.
  intros [[a b] k]. reflexivity.
Qed.

(* the offsets of swap1 l0 right k, shifted by d, bubble one label through |right| labels *)
Lemma swap1_labels : forall {A} (right : list wty) (l0 : wty) k d (pre : list A) x R post,
  length pre = d + k -> length R = length right ->
  apply_swaps (offs (shift_swaps d (swap1 l0 right k))) (pre ++ x :: R ++ post) = pre ++ R ++ x :: post.
Proof.
  intros A right. induction right as [|r right IH]; intros l0 k d pre x R post Hp HR.
  - destruct R; [|discriminate]. reflexivity.
  - destruct R as [|y R]; [discriminate|]. simpl in HR.
    change (offs (shift_swaps d (swap1 l0 (r :: right) k)))
      with ((d + k) :: offs (shift_swaps d (swap1 l0 right (S k)))).
    change (apply_swaps ((d + k) :: offs (shift_swaps d (swap1 l0 right (S k)))) (pre ++ x :: (y :: R) ++ post))
      with (apply_swaps (offs (shift_swaps d (swap1 l0 right (S k)))) (swap_at (d + k) (pre ++ x :: y :: R ++ post))).
    rewrite <- Hp. rewrite swap_at_app.
    specialize (IH l0 (S k) d (pre ++ [y]) x R post).
    rewrite <- !app_assoc in IH. cbn [app] in IH. apply IH.
    + rewrite app_length. simpl. lia.
    + lia.
Qed.

(* Diagram.swap(left, right) on labels: pre ++ L ++ R ++ post  |->  pre ++ R ++ L ++ post *)
Lemma swap_boxes_labels : forall {A} (left right : list wty) d (pre L R post : list A),
  length pre = d -> length L = length left -> length R = length right ->
  apply_swaps (offs (shift_swaps d (swap_boxes left right))) (pre ++ L ++ R ++ post) = pre ++ R ++ L ++ post.
Proof.
  intros A left. induction left as [|l0 ls IH]; intros right d pre L R post Hp HL HR.
  - destruct L; [|discriminate]. reflexivity.
  - destruct L as [|x L]; [discriminate|]. simpl in HL.
    cbn [swap_boxes]. rewrite shift_swaps_app, shift_swaps_S, offs_app, apply_swaps_app.
    specialize (IH right (S d) (pre ++ [x]) L R post).
    rewrite <- !app_assoc in IH. cbn [app] in IH.
    change (pre ++ (x :: L) ++ R ++ post) with (pre ++ x :: L ++ R ++ post).
    rewrite IH; [| rewrite app_length; simpl; lia | lia | lia].
    change (pre ++ R ++ (x :: L) ++ post) with (pre ++ R ++ x :: (L ++ post)).
    apply (swap1_labels right l0 0 d pre x R (L ++ post)); lia.
Qed.

Lemma swap1_in : forall l0 right k0 a b k,
  In (a, b, k) (swap1 l0 right k0) -> a = l0 /\ In b right /\ k0 <= k < k0 + length right.
Proof.
  intros l0 right. induction right as [|r right IH]; intros k0 a b k H; simpl in H; [contradiction|].
  destruct H as [H|H].
  - inversion H; subst. simpl. repeat split; auto; lia.
  - apply IH in H. destruct H as [H1 [H2 H3]]. simpl. repeat split; auto; lia.
Qed.
Lemma swap_boxes_in : forall left right a b k,
  In (a, b, k) (swap_boxes left right) -> In a left /\ In b right /\ k + 2 <= length left + length right.
Proof.
  induction left as [|l0 ls IH]; intros right a b k H; simpl in H; [contradiction|].
  apply in_app_or in H. destruct H as [H|H].
  - apply in_map_iff in H. destruct H as [[[a' b'] k'] [E H]]. inversion E; subst.
    apply IH in H. destruct H as [H1 [H2 H3]]. simpl. repeat split; auto; lia.
  - apply swap1_in in H. destruct H as [H1 [H2 H3]]. subst. simpl. repeat split; auto; lia.
Qed.

(* ================================================================== qtrace through swaps *)
Lemma qtrace_layers_app : forall a scan s b,
  qtrace_layers scan s (a ++ b) =
  match qtrace_layers scan s a with
  | Some s' => qtrace_layers (cod_of scan a) s' b
  | None => None
  end.
Proof.
  induction a as [|l a IH]; intros scan s b; [reflexivity|].
  cbn [app qtrace_layers]. destruct (qtrace_step scan s l); [|reflexivity].
  rewrite cod_of_cons. apply IH.
Qed.

Lemma rep_S : forall {A} n (x : A), rep (S n) x = x :: rep n x.
Proof. reflexivity. Qed.
Lemma rep_length : forall {A} n (x : A), length (rep n x) = n.
Proof. intros. apply repeat_length. Qed.
Lemma rep_app : forall {A} n m (x : A), rep (n + m) x = rep n x ++ rep m x.
Proof. intros. apply repeat_app. Qed.
Lemma rep_split3 : forall m k j, k + j <= m ->
  rep m WQubit = rep k WQubit ++ rep j WQubit ++ rep (m - k - j) WQubit.
Proof.
  intros m k j H. replace m with (k + (j + (m - k - j))) at 1 by lia.
  rewrite !rep_app. reflexivity.
Qed.
Lemma countq_rep_q : forall k, countq (rep k WQubit) = k.
Proof. induction k; simpl; auto. unfold countq in *. simpl. f_equal. exact IHk. Qed.
Lemma firstn_rep_app : forall k m tail, k <= m -> firstn k (rep m WQubit ++ tail) = rep k WQubit.
Proof.
  intros k m tail H. rewrite (rep_split3 m k 0) by lia. rewrite <- app_assoc.
  apply firstn_exact. apply rep_length.
Qed.
Lemma slice_rep_app : forall a b m tail, a <= b -> b <= m ->
  slice (rep m WQubit ++ tail) a b = rep (b - a) WQubit.
Proof.
  intros a b m tail H1 H2. unfold slice. rewrite (rep_split3 m a (b - a)) by lia.
  rewrite <- !app_assoc. rewrite (skipn_exact0 (rep a WQubit)) by apply rep_length.
  apply firstn_exact. apply rep_length.
Qed.
Lemma step_ty_qq : forall m tail k, k + 2 <= m ->
  step_ty (rep m WQubit ++ tail) (BSwap WQubit WQubit, k) = rep m WQubit ++ tail.
Proof.
  intros m tail k H. unfold step_ty. cbn [bcod bdom length].
  rewrite firstn_rep_app by lia.
  rewrite (rep_split3 m k 2) at 1 by lia. rewrite <- !app_assoc.
  rewrite (skipn_exact (rep k WQubit) _ k 2) by apply rep_length.
  rewrite (rep_split3 m k 2) by lia. rewrite <- !app_assoc. reflexivity.
Qed.

Definition qq_swaps (m : nat) (sw : list (wty * wty * nat)) : Prop :=
  Forall (fun x => fst (fst x) = WQubit /\ snd (fst x) = WQubit /\ snd x + 2 <= m) sw.

Lemma qtrace_qq_swaps : forall sw m tail labs next evs,
  qq_swaps m sw -> m <= length labs ->
  qtrace_layers (rep m WQubit ++ tail) (QS labs next evs) (swaps_layers sw) =
    Some (QS (apply_swaps (offs sw) labs) next evs) /\
  cod_of (rep m WQubit ++ tail) (swaps_layers sw) = rep m WQubit ++ tail.
Proof.
  induction sw as [|[[a b] k] sw IH]; intros m tail labs next evs H Hl.
  - simpl. auto.
  - inversion H as [|? ? Hx Hr]; subst. cbn [fst snd] in Hx. destruct Hx as [-> [-> Hk]].
    change (swaps_layers ((WQubit, WQubit, k) :: sw)) with ((BSwap WQubit WQubit, k) :: swaps_layers sw).
    rewrite cod_of_cons. cbn [qtrace_layers]. rewrite step_ty_qq by auto.
    unfold qtrace_step. cbn [q_labs q_next q_events].
    rewrite firstn_rep_app by lia. rewrite countq_rep_q.
    destruct (skipn k labs) as [|x [|y rest]] eqn:E.
    + assert (length (skipn k labs) = 0) by (rewrite E; reflexivity). rewrite skipn_length in *. lia.
    + assert (length (skipn k labs) = 1) by (rewrite E; reflexivity). rewrite skipn_length in *. lia.
    + assert (Hs : firstn k labs ++ y :: x :: rest = swap_at k labs) by (unfold swap_at; rewrite E; reflexivity).
      rewrite Hs. apply IH; auto. rewrite swap_at_length. exact Hl.
Qed.

Lemma qtrace_nonqq_swaps : forall sw scan s,
  Forall (fun x => fst (fst x) = WBit \/ snd (fst x) = WBit) sw ->
  qtrace_layers scan s (swaps_layers sw) = Some s.
Proof.
  induction sw as [|[[a b] k] sw IH]; intros scan s H; simpl; auto.
  inversion H as [|? ? Hx Hr]; subst. cbn [fst snd] in Hx.
  destruct a, b; simpl; try (apply IH; exact Hr).
  destruct Hx; discriminate.
Qed.

Lemma qq_swaps_dagger : forall m sw, qq_swaps m sw -> qq_swaps m (dagger_swaps sw).
Proof.
  intros m sw H. unfold qq_swaps in *. rewrite Forall_forall in *. intros x Hx.
  unfold dagger_swaps in Hx. apply in_map_iff in Hx. destruct Hx as [[[a b] k] [E Hin]]. subst x.
  apply in_rev in Hin. specialize (H _ Hin). cbn [fst snd] in *. tauto.
Qed.
Lemma nonqq_dagger : forall sw,
  Forall (fun x : wty * wty * nat => fst (fst x) = WBit \/ snd (fst x) = WBit) sw ->
  Forall (fun x : wty * wty * nat => fst (fst x) = WBit \/ snd (fst x) = WBit) (dagger_swaps sw).
Proof.
  intros sw H. rewrite Forall_forall in *. intros x Hx.
  unfold dagger_swaps in Hx. apply in_map_iff in Hx. destruct Hx as [[[a b] k] [E Hin]]. subst x.
  apply in_rev in Hin. specialize (H _ Hin). cbn [fst snd] in *. tauto.
Qed.

Lemma in_rep : forall {A} n (x y : A), In y (rep n x) -> y = x.
Proof. intros A n x y H. unfold rep in H. apply repeat_spec in H. exact H. Qed.

(* shifted swap_boxes between two blocks of qubits inside the qubit region *)
Lemma qq_swaps_boxes : forall m d nl nr,
  d + nl + nr <= m ->
  qq_swaps m (shift_swaps d (swap_boxes (rep nl WQubit) (rep nr WQubit))).
Proof.
  intros m d nl nr H. unfold qq_swaps. apply Forall_forall. intros x Hx.
  unfold shift_swaps in Hx. apply in_map_iff in Hx. destruct Hx as [[[a b] k] [E Hin]]. subst x.
  apply swap_boxes_in in Hin. destruct Hin as [Ha [Hb Hk]]. rewrite !rep_length in Hk.
  apply in_rep in Ha. apply in_rep in Hb. cbn [fst snd]. repeat split; auto. lia.
Qed.

(* ================================================================== Part 1: the trace of from_tk *)
(* Well-formed tket commands: qubits exist, are pairwise distinct (pytket refuses CX(0, 0)),
   a Measure names one qubit, a gate names as many qubits as its arity. *)
Fixpoint nodupb (l : list nat) : bool :=
  match l with
  | [] => true
  | x :: r => negb (existsb (Nat.eqb x) r) && nodupb r
  end.
Definition cmd_wf (nq : nat) (c : cmd) : bool :=
  forallb (fun q => q <? nq) (c_qs c) && nodupb (c_qs c) &&
  (if (c_op c =? op_Measure)%Z then Nat.eqb (length (c_qs c)) 1
   else Nat.eqb (length (c_qs c)) (gate_arity (c_op c))).
Definition cmds_wf (nq : nat) (cs : list cmd) : bool := forallb (cmd_wf nq) cs.

(* what a command contributes to the trace of the imported circuit when it is met:
   post-selected measurements are deferred to the end (`continue  # post selection happens at the end`) *)
Definition gate_phase (c : cmd) : dy :=
  if is_rot (c_op c) then match c_par c with Some p => dy_half p | None => Dy 0 0 end else Dy 0 0.
Definition cmd_events (psel : list (nat * bool)) (c : cmd) : list event :=
  if (c_op c =? op_Measure)%Z then
    match c_qs c, c_bs c with
    | [r], b :: _ => match ps_lookup psel b with Some _ => [] | None => [EMeas r] end
    | [r], [] => [EMeas r]            (* never met: from_tk raises IndexError *)
    | _, _ => []
    end
  else [EGate (c_op c) (gate_phase c) (c_qs c)].
Definition cmd_bra (psel : list (nat * bool)) (c : cmd) : option (nat * bool) :=
  if (c_op c =? op_Measure)%Z then
    match c_qs c, c_bs c with
    | r :: _, b :: _ => match ps_lookup psel b with Some v => Some (r, v) | None => None end
    | _, _ => None
    end
  else None.
Definition bras_step (psel : list (nat * bool)) (acc : list (nat * bool)) (c : cmd) : list (nat * bool) :=
  match cmd_bra psel c with Some rv => ps_set acc (fst rv) (snd rv) | None => acc end.
Definition bras_of (psel : list (nat * bool)) (cs : list cmd) (init : list (nat * bool)) : list (nat * bool) :=
  fold_left (bras_step psel) cs init.

Definition tr_inv (nq : nat) (cod : list wty) (f : ftk) (evs : list event) : Prop :=
  layers_ok [] (f_layers f) = true /\ cod_of [] (f_layers f) = cod /\
  qtrace_layers [] (QS [] 0 []) (f_layers f) = Some (QS (seq 0 nq) nq evs).

Lemma step_ty_gate : forall m tail g n ph off, off + n <= m ->
  step_ty (rep m WQubit ++ tail) (BGate g n ph, off) = rep m WQubit ++ tail.
Proof.
  intros m tail g n ph off H. unfold step_ty. cbn [bcod bdom]. rewrite rep_length.
  rewrite firstn_rep_app by lia.
  rewrite (rep_split3 m off n) at 1 by lia. rewrite <- !app_assoc.
  rewrite (skipn_exact (rep off WQubit) _ off n) by apply rep_length.
  rewrite (skipn_exact0 (rep n WQubit)) by apply rep_length.
  rewrite (rep_split3 m off n) by lia. rewrite <- !app_assoc. reflexivity.
Qed.

(* swaps >> gate >> swaps[::-1] from the point of view of the labels *)
Lemma qtrace_conj_gate : forall nq tail sw g n ph off labs next evs qs,
  qq_swaps nq sw -> length labs = nq -> off + n <= nq ->
  firstn n (skipn off (apply_swaps (offs sw) labs)) = qs -> length qs = n ->
  qtrace_layers (rep nq WQubit ++ tail) (QS labs next evs)
    (swaps_layers sw ++ [(BGate g n ph, off)] ++ swaps_layers (dagger_swaps sw)) =
  Some (QS labs next (evs ++ [EGate g ph qs])).
Proof.
  intros nq tail sw g n ph off labs next evs qs Hqq Hl Hoff Hqs Hn.
  destruct (qtrace_qq_swaps sw nq tail labs next evs Hqq) as [Q1 Q2]; [lia|].
  rewrite qtrace_layers_app, Q1, Q2.
  cbn [app qtrace_layers]. unfold qtrace_step. cbn [q_labs q_next q_events].
  rewrite firstn_rep_app by lia. rewrite countq_rep_q. rewrite Hqs, Hn, Nat.eqb_refl.
  rewrite step_ty_gate by auto.
  destruct (qtrace_qq_swaps (dagger_swaps sw) nq tail (apply_swaps (offs sw) labs) next
              (evs ++ [EGate g ph qs]) (qq_swaps_dagger _ _ Hqq)) as [D1 _].
  { rewrite apply_swaps_length. lia. }
  rewrite D1. rewrite offs_dagger, apply_swaps_rev. reflexivity.
Qed.

(* bringing the wire at position a next to position b, a < b (source < target) *)
Lemma labels_move_right : forall {A} (l : list A) a b, a < b -> b < length l ->
  nth_error (firstn a l ++ slice l (S a) (S b) ++ slice l a (S a) ++ skipn (S b) l) (b - 1) = nth_error l b /\
  nth_error (firstn a l ++ slice l (S a) (S b) ++ slice l a (S a) ++ skipn (S b) l) b = nth_error l a.
Proof.
  intros A l a b Hab Hb.
  assert (L1 : length (firstn a l) = a) by (apply firstn_length_le; lia).
  assert (L2 : length (slice l (S a) (S b)) = b - a) by (rewrite slice_length; lia).
  assert (L3 : length (slice l a (S a)) = 1) by (rewrite slice_length; lia).
  split.
  - rewrite nth_error_app2 by lia. rewrite L1.
    rewrite nth_error_app1 by lia. rewrite nth_error_slice by lia. f_equal. lia.
  - rewrite nth_error_app2 by lia. rewrite L1.
    rewrite nth_error_app2 by lia. rewrite L2.
    rewrite nth_error_app1 by lia. rewrite nth_error_slice by lia. f_equal. lia.
Qed.
(* bringing the wire at position s to position t, t < s (target < source; repaired F33) *)
Lemma labels_move_left : forall {A} (l : list A) t s, 0 < t -> t < s -> s < length l ->
  nth_error (firstn t l ++ slice l s (S s) ++ slice l t s ++ skipn (S s) l) (t - 1) = nth_error l (t - 1) /\
  nth_error (firstn t l ++ slice l s (S s) ++ slice l t s ++ skipn (S s) l) t = nth_error l s.
Proof.
  intros A l t s H0 Hts Hs.
  assert (L1 : length (firstn t l) = t) by (apply firstn_length_le; lia).
  assert (L2 : length (slice l s (S s)) = 1) by (rewrite slice_length; lia).
  split.
  - rewrite nth_error_app1 by lia. apply nth_error_firstn_lt. lia.
  - rewrite nth_error_app2 by lia. rewrite L1.
    rewrite nth_error_app1 by lia. rewrite nth_error_slice by lia. f_equal. lia.
Qed.

Lemma from_tk_box_shape : forall c b, from_tk_box c = Ok b ->
  b = BGate (c_op c) (gate_arity (c_op c)) (gate_phase c).
Proof.
  intros c b H. unfold from_tk_box in H. unfold gate_phase.
  destruct (is_rot (c_op c)).
  - destruct (c_par c); inversion H; reflexivity.
  - destruct (from_tk_known (c_op c)); inversion H; reflexivity.
Qed.
Lemma gate_arity_cases : forall g, gate_arity g = 1 \/ gate_arity g = 2.
Proof. intros g. unfold gate_arity. match goal with |- context [if ?b then _ else _] => destruct b end; auto. Qed.

Lemma in_slice : forall {A} (l : list A) a b x, In x (slice l a b) -> In x l.
Proof. intros A l a b x H. unfold slice in H. eapply my_In_skipn. eapply my_In_firstn. eauto. Qed.

Lemma cod_length : forall nq nb, length (rep nq WQubit ++ rep nb WBit) = nq + nb.
Proof. intros. rewrite app_length, !rep_length. reflexivity. Qed.

Lemma from_tk_cmd_trace : forall fx nq nb psel f c f' evs,
  fx33 fx = true -> cmd_wf nq c = true ->
  tr_inv nq (rep nq WQubit ++ rep nb WBit) f evs ->
  from_tk_cmd fx nq nb psel (rep nq WQubit ++ rep nb WBit) f c = Ok f' ->
  tr_inv nq (rep nq WQubit ++ rep nb WBit) f' (evs ++ cmd_events psel c) /\
  f_bras f' = bras_step psel (f_bras f) c.
Proof.
  intros fx nq nb psel f c f' evs Hfx Hwf [I1 [I2 I3]] H.
  set (cod := rep nq WQubit ++ rep nb WBit) in *.
  destruct (from_tk_cmd_ok _ _ _ _ _ _ _ _ I1 I2 H) as [O1 O2].
  unfold tr_inv. rewrite O1, O2.
  cut (qtrace_layers [] (QS [] 0 []) (f_layers f') = Some (QS (seq 0 nq) nq (evs ++ cmd_events psel c)) /\
       f_bras f' = bras_step psel (f_bras f) c); [tauto|].
  unfold cmd_wf in Hwf. apply andb_prop in Hwf. destruct Hwf as [Hwf Hlen].
  apply andb_prop in Hwf. destruct Hwf as [Hrange Hnd].
  unfold from_tk_cmd in H. unfold cmd_events, bras_step, cmd_bra.
  destruct (c_op c =? op_Measure)%Z eqn:Eop.
  - (* Measure *)
    apply Nat.eqb_eq in Hlen.
    destruct (c_qs c) as [|r [|r' qs']] eqn:Eqs; try discriminate. clear Hlen.
    cbn [forallb] in Hrange. rewrite andb_true_r in Hrange. apply Nat.ltb_lt in Hrange.
    unfold nth_res in H. cbn [nth_error bind] in H.
    destruct (c_bs c) as [|bi0 bs'] eqn:Ebs; cbn [nth_error bind] in H; [discriminate|].
    destruct (ps_lookup psel bi0) as [v|] eqn:Eps.
    + inversion H; subst f'. cbn [f_layers f_bras fst snd]. rewrite app_nil_r. auto.
    + cbv zeta in H.
      set (bi := if fx18 fx then bi0 - length (filter (fun kv => fst kv <? bi0) psel) else bi0) in *.
      match type of H with context [ty_eqb cod ?sd] => destruct (ty_eqb cod sd) eqn:E1 end;
        cbn [negb] in H; [|discriminate].
      match type of H with context [layer_ok ?sc ?l] => destruct (layer_ok sc l) eqn:E2 end;
        cbn [negb] in H; [|discriminate].
      inversion H; subst f'; clear H. cbn [f_layers f_bras]. split; [|reflexivity].
      apply ty_eqb_eq in E1.
      pose proof (swap_boxes_ok (slice cod (S r) (nq + bi)) (slice (skipn nq cod) bi (S bi))
                    (firstn (S r) cod) (skipn (nq + bi + 1) cod) _ eq_refl) as [_ S2].
      rewrite <- E1 in S2.
      change (match cod with [] => [] | a :: l => a :: firstn r l end) with (firstn (S r) cod).
      set (sw := shift_swaps (length (firstn (S r) cod))
                   (swap_boxes (slice cod (S r) (nq + bi)) (slice (skipn nq cod) bi (S bi)))) in *.
      assert (Hnq : Forall (fun x : wty * wty * nat => fst (fst x) = WBit \/ snd (fst x) = WBit) sw).
      { apply Forall_forall. intros x Hx. unfold sw, shift_swaps in Hx. apply in_map_iff in Hx.
        destruct Hx as [[[a b] k] [E Hin]]. subst x. apply swap_boxes_in in Hin. destruct Hin as [_ [Hb _]].
        apply in_slice in Hb. unfold cod in Hb. rewrite (skipn_exact0 (rep nq WQubit)) in Hb by apply rep_length.
        apply in_rep in Hb. right. exact Hb. }
      rewrite qtrace_layers_app, I3, I2.
      rewrite qtrace_layers_app, (qtrace_nonqq_swaps sw cod _ Hnq), S2.
      cbn [app qtrace_layers]. unfold qtrace_step at 1. cbn [q_labs q_next q_events].
      assert (Hfr : firstn r (firstn (S r) cod ++ slice (skipn nq cod) bi (S bi) ++
                              slice cod (S r) (nq + bi) ++ skipn (nq + bi + 1) cod) = rep r WQubit).
      { rewrite firstn_app_le.
        - rewrite firstn_firstn. replace (Init.Nat.min r (S r)) with r by lia.
          unfold cod. apply firstn_rep_app. lia.
        - rewrite firstn_length_le; [lia|]. unfold cod. rewrite cod_length. lia. }
      rewrite Hfr, countq_rep_q.
      rewrite (firstn1_of_nth (seq 0 nq) r r) by (apply nth_error_seq; auto).
      cbn [length Nat.eqb map].
      apply qtrace_nonqq_swaps. apply nonqq_dagger. exact Hnq.
  - (* gate *)
    destruct (from_tk_box c) as [b|] eqn:Eb; cbn [bind] in H; [|discriminate].
    apply from_tk_box_shape in Eb. apply Nat.eqb_eq in Hlen.
    set (g := c_op c) in *. set (ph := gate_phase c) in *.
    destruct (gate_arity_cases g) as [Har|Har]; rewrite Har in *.
    + (* one qubit *)
      destruct (c_qs c) as [|q0 [|q1 qs']] eqn:Eqs; try discriminate. clear Hlen.
      cbn [forallb] in Hrange. rewrite andb_true_r in Hrange. apply Nat.ltb_lt in Hrange.
      unfold nth_res in H. cbn [nth_error bind tl mua_loop] in H.
      match type of H with context [layer_ok ?sc ?l] => destruct (layer_ok sc l) eqn:E2 end;
        cbn [negb] in H; [|discriminate].
      inversion H; subst f'; clear H. cbn [f_layers f_bras]. split; [|reflexivity].
      rewrite qtrace_layers_app, I3, I2. subst b. unfold cod.
      apply (qtrace_conj_gate nq (rep nb WBit) [] g 1 ph q0 (seq 0 nq) nq evs [q0]).
      * constructor.
      * apply seq_length.
      * lia.
      * cbn [offs map apply_swaps fold_left]. apply firstn1_of_nth. apply nth_error_seq. auto.
      * reflexivity.
    + (* two qubits *)
      destruct (c_qs c) as [|q0 [|q1 [|q2 qs']]] eqn:Eqs; try discriminate. clear Hlen.
      cbn [forallb] in Hrange. rewrite andb_true_r in Hrange. apply andb_prop in Hrange.
      destruct Hrange as [Hq0 Hq1]. apply Nat.ltb_lt in Hq0. apply Nat.ltb_lt in Hq1.
      assert (Hne : q0 <> q1).
      { intros ->. simpl in Hnd. rewrite Nat.eqb_refl in Hnd. discriminate. }
      clear Hnd.
      unfold nth_res in H. cbn [nth_error bind tl] in H.
      destruct (mua_loop fx cod q0 [] [q1] 0) as [[offset scod] sw] eqn:Em.
      match type of H with context [layer_ok ?sc ?l] => destruct (layer_ok sc l) eqn:E2 end;
        cbn [negb] in H; [|discriminate].
      inversion H; subst f'; clear H. cbn [f_layers f_bras]. split; [|reflexivity].
      rewrite qtrace_layers_app, I3, I2. subst b. unfold cod.
      assert (Hcl : length cod = nq + nb) by apply cod_length.
      assert (Hsl : length (seq 0 nq) = nq) by apply seq_length.
      cbn [mua_loop] in Em. replace (q0 + 0 + 1) with (S q0) in Em by lia.
      destruct (Nat.ltb_spec q1 (S q0)) as [Hlt|Hge].
      * (* the second qubit lies to the left: it is brought to position q0 *)
        assert (Hq : q1 < q0) by lia.
        destruct (Nat.leb_spec q1 q0) as [_|]; [|lia].
        cbn [app mua_loop] in Em. inversion Em; subst offset scod sw; clear Em.
        rewrite firstn_length_le by lia.
        unfold cod. rewrite !slice_rep_app by lia.
        apply qtrace_conj_gate.
        -- apply qq_swaps_boxes. lia.
        -- exact Hsl.
        -- lia.
        -- rewrite (decomp3 (seq 0 nq) q1 (S q1) (S q0)) at 1 by lia.
           rewrite swap_boxes_labels;
             [| rewrite firstn_length_le; lia | rewrite slice_length, rep_length; lia
              | rewrite slice_length, rep_length; lia].
           destruct (labels_move_right (seq 0 nq) q1 q0 Hq ltac:(lia)) as [N1 N2].
           rewrite nth_error_seq in N1, N2 by lia. cbn [plus] in N1, N2.
           apply (firstn2_of_nth _ _ _ _ N1).
           replace (S (q0 - 1)) with q0 by lia. exact N2.
        -- reflexivity.
      * destruct (Nat.ltb_spec (S q0) q1) as [Hlt|Hge2].
        -- (* the second qubit lies further to the right: it is brought to position q0 + 1 *)
           rewrite Hfx in Em. cbn [app mua_loop] in Em. inversion Em; subst offset scod sw; clear Em.
           change (match cod with [] => [] | a :: l => a :: firstn q0 l end) with (firstn (S q0) cod).
           rewrite firstn_length_le by lia.
           unfold cod. rewrite !slice_rep_app by lia.
           apply qtrace_conj_gate.
           ++ apply qq_swaps_boxes. lia.
           ++ exact Hsl.
           ++ lia.
           ++ rewrite (decomp3 (seq 0 nq) (S q0) q1 (S q1)) at 1 by lia.
              rewrite swap_boxes_labels;
                [| rewrite firstn_length_le; lia | rewrite slice_length, rep_length; lia
                 | rewrite slice_length, rep_length; lia].
              destruct (labels_move_left (seq 0 nq) (S q0) q1 ltac:(lia) Hlt ltac:(lia)) as [N1 N2].
              rewrite nth_error_seq in N1, N2 by lia. cbn [plus] in N1, N2.
              replace (S q0 - 1) with q0 in N1 by lia.
              apply (firstn2_of_nth _ _ _ _ N1 N2).
           ++ reflexivity.
        -- (* adjacent already *)
           assert (q1 = S q0) by lia. subst q1.
           cbn [mua_loop] in Em. inversion Em; subst offset scod sw; clear Em.
           apply qtrace_conj_gate.
           ++ constructor.
           ++ exact Hsl.
           ++ lia.
           ++ cbn [offs map apply_swaps fold_left].
              apply firstn2_of_nth; rewrite nth_error_seq by lia; reflexivity.
           ++ reflexivity.
Qed.

Lemma from_tk_cmds_trace : forall fx nq nb psel cs f f' evs,
  fx33 fx = true -> cmds_wf nq cs = true ->
  tr_inv nq (rep nq WQubit ++ rep nb WBit) f evs ->
  from_tk_cmds fx nq nb psel (rep nq WQubit ++ rep nb WBit) f cs = Ok f' ->
  tr_inv nq (rep nq WQubit ++ rep nb WBit) f' (evs ++ flat_map (cmd_events psel) cs) /\
  f_bras f' = bras_of psel cs (f_bras f).
Proof.
  intros fx nq nb psel. induction cs as [|c cs IH]; intros f f' evs Hfx Hwf I H.
  - simpl in H. inversion H; subst. cbn [flat_map bras_of fold_left]. rewrite app_nil_r. auto.
  - cbn [cmds_wf forallb] in Hwf. apply andb_prop in Hwf. destruct Hwf as [Hc Hcs].
    cbn [from_tk_cmds] in H.
    destruct (from_tk_cmd fx nq nb psel (rep nq WQubit ++ rep nb WBit) f c) as [f1|] eqn:E;
      cbn [bind] in H; [|discriminate].
    destruct (from_tk_cmd_trace _ _ _ _ _ _ _ _ Hfx Hc I E) as [I1 B1].
    destruct (IH f1 f' _ Hfx Hcs I1 H) as [I2 B2].
    cbn [flat_map]. rewrite app_assoc. split; [exact I2|].
    rewrite B2, B1. reflexivity.
Qed.

(* the preparation layers: Ket(0) for every qubit labels the wires 0 .. nq-1 *)
Lemma ket_layers_trace : forall n k evs,
  qtrace_layers (rep k WQubit) (QS (seq 0 k) k evs) (ket_layers n k) = Some (QS (seq 0 (k + n)) (k + n) evs).
Proof.
  induction n; intros k evs.
  - simpl. rewrite Nat.add_0_r. reflexivity.
  - cbn [ket_layers qtrace_layers]. unfold qtrace_step. cbn [q_labs q_next q_events length].
    rewrite (@firstn_all2 _ k (rep k WQubit)) by (rewrite rep_length; lia). rewrite countq_rep_q.
    rewrite (@firstn_all2 _ k (seq 0 k)) by (rewrite seq_length; lia).
    rewrite (@skipn_all2 _ k (seq 0 k)) by (rewrite seq_length; lia). rewrite app_nil_r.
    assert (Hs : step_ty (rep k WQubit) (BKet [false], k) = rep (S k) WQubit).
    { unfold step_ty. cbn [bcod bdom length]. rewrite (@firstn_all2 _ k (rep k WQubit)) by (rewrite rep_length; lia).
      rewrite skipn_all2 by (rewrite rep_length; lia).
      replace (S k) with (k + 1) by lia. rewrite rep_app. reflexivity. }
    rewrite Hs.
    assert (Hq : seq 0 k ++ seq k 1 = seq 0 (S k)).
    { replace (S k) with (k + 1) by lia. rewrite seq_app. reflexivity. }
    rewrite Hq. replace (k + 1) with (S k) by lia. rewrite IHn.
    replace (S k + n) with (k + S n) by lia. reflexivity.
Qed.

(* boxes that the trace does not see *)
Definition passive (b : box) : bool :=
  match b with
  | BBits _ _ | BScalar _ _ | BClassical _ _ _ | BOther _ _ _ => true
  | BSwap WQubit WQubit => false
  | BSwap _ _ => true
  | _ => false
  end.
Lemma qtrace_passive : forall ls scan s,
  forallb (fun l : layer => passive (fst l)) ls = true -> qtrace_layers scan s ls = Some s.
Proof.
  induction ls as [|[b off] ls IH]; intros scan s H; [reflexivity|].
  cbn [forallb fst] in H. apply andb_prop in H. destruct H as [Hb Hls].
  cbn [qtrace_layers].
  assert (E : qtrace_step scan s (b, off) = Some s).
  { destruct b; try discriminate; try reflexivity. destruct l, r; try discriminate; reflexivity. }
  rewrite E. apply IH. exact Hls.
Qed.
Lemma bits_layers_passive : forall n k, forallb (fun l : layer => passive (fst l)) (bits_layers n k) = true.
Proof. induction n; intros k; simpl; auto. Qed.
Lemma pp_layers_passive : forall boxes : list (pbox * nat),
  forallb (fun l : layer => passive (fst l)) (map (fun '(p, o) => (pbox_to_box p, o)) boxes) = true.
Proof. induction boxes as [|[p o] boxes IH]; simpl; auto. rewrite IH. destruct p; reflexivity. Qed.

(* the final tensor: Bra / Discard for every qubit from the left, nothing for the bits *)
Lemma final_qubits_trace : forall a bras i rest next evs,
  final_layers rest bras (i + a) 0 = [] ->
  qtrace_layers (rep a WQubit ++ rest) (QS (seq i a) next evs)
                (final_layers (rep a WQubit ++ rest) bras i 0) =
  Some (QS [] next (evs ++ map EMeas (filter (has_key bras) (seq i a)))).
Proof.
  induction a; intros bras i rest next evs Hrest.
  - cbn [rep repeat app seq filter map]. rewrite Nat.add_0_r in Hrest. rewrite Hrest.
    simpl. rewrite app_nil_r. reflexivity.
  - rewrite rep_S. cbn [app final_layers seq filter].
    replace (i + S a) with (S i + a) in Hrest by lia.
    unfold has_key at 1.
    destruct (ps_lookup bras i) as [v|].
    + cbn [qtrace_layers]. unfold qtrace_step. cbn [q_labs q_next q_events length firstn countq filter skipn].
      cbn [Nat.eqb remove_range firstn skipn app map].
      assert (Hs : step_ty (WQubit :: rep a WQubit ++ rest) (BBra [v], 0) = rep a WQubit ++ rest) by reflexivity.
      rewrite Hs. rewrite (IHa bras (S i) rest next _ Hrest). rewrite <- app_assoc. reflexivity.
    + cbn [qtrace_layers]. unfold qtrace_step. cbn [q_labs q_next q_events length firstn countq filter skipn is_q].
      cbn [remove_range firstn skipn app].
      assert (Hs : step_ty (WQubit :: rep a WQubit ++ rest) (BDiscard [WQubit], 0) = rep a WQubit ++ rest) by reflexivity.
      rewrite Hs. apply (IHa bras (S i) rest next _ Hrest).
Qed.

Lemma cmds_wf_in_range : forall nq cs, cmds_wf nq cs = true -> cmds_in_range nq cs = true.
Proof.
  intros nq cs H. unfold cmds_wf, cmds_in_range in *. rewrite forallb_forall in *. intros c Hc.
  specialize (H c Hc). unfold cmd_wf in H. apply andb_prop in H. destruct H as [H _].
  apply andb_prop in H. destruct H as [H _]. exact H.
Qed.

(* Import counterpart of to_tk_refines_trace, for EVERY post-selection: the circuit returned
   by from_tk applies, in command order, every gate to the wires carrying the qubits the
   command names and every measurement that is not post-selected to its qubit; the
   post-selected measurements come at the very end, in qubit order (Bra on that qubit). *)
Theorem from_tk_trace_general : forall fx t sid c,
  fx33 fx = true -> cmds_wf (t_nq t) (t_cmds t) = true ->
  from_tk fx t sid = Ok c ->
  qtrace c = Some (QS [] (t_nq t)
                      (flat_map (cmd_events (t_psel t)) (t_cmds t) ++
                       map EMeas (filter (has_key (bras_of (t_psel t) (t_cmds t) [])) (seq 0 (t_nq t))))).
Proof.
  intros fx t sid c Hfx Hwf H. unfold from_tk in H.
  set (nb := t_nb t - length (t_psel t)) in *. set (nq := t_nq t) in *.
  destruct (from_tk_cmds fx nq nb (t_psel t) (rep nq WQubit ++ rep nb WBit)
              (FTK (ket_layers nq 0 ++ bits_layers nb nq) []) (t_cmds t)) as [f|] eqn:E; cbn [bind] in H; [|discriminate].
  assert (I0 : tr_inv nq (rep nq WQubit ++ rep nb WBit) (FTK (ket_layers nq 0 ++ bits_layers nb nq) []) []).
  { destruct (from_tk_loop_well_typed fx nq nb (t_psel t) [] _ eq_refl) as [L1 L2].
    split; [exact L1|]. split; [exact L2|]. cbn [f_layers].
    rewrite qtrace_layers_app.
    pose proof (ket_layers_trace nq 0 []) as K. cbn [rep repeat seq plus] in K. rewrite K.
    apply qtrace_passive. apply bits_layers_passive. }
  destruct (from_tk_cmds_trace _ _ _ _ _ _ _ _ Hfx Hwf I0 E) as [[L1 [L2 L3]] HB].
  cbn [f_bras app] in HB, L3.
  assert (HBr : Forall (fun kv => fst kv < nq) (f_bras f)).
  { eapply from_tk_cmds_bras; [| |exact E]; [constructor | apply cmds_wf_in_range; exact Hwf]. }
  assert (Hfin : final_layers (rep nb WBit) (f_bras f) (0 + nq) 0 = []).
  { apply final_bits_nil. intros k Hk. eapply ps_lookup_out; [exact HBr | simpl in Hk; lia]. }
  destruct (Nat.eqb (length (cod_of (rep nq WQubit ++ rep nb WBit)
                              (final_layers (rep nq WQubit ++ rep nb WBit) (f_bras f) 0 0))) (pp_dom (t_pp t)));
    cbn [negb] in H; [|discriminate].
  inversion H; subst c; clear H. unfold qtrace. cbn [c_dom c_layers].
  rewrite qtrace_layers_app, L3, L2.
  rewrite qtrace_layers_app.
  rewrite (final_qubits_trace nq (f_bras f) 0 (rep nb WBit) nq _ Hfin).
  rewrite HB. apply qtrace_passive.
  rewrite forallb_app. rewrite pp_layers_passive, andb_true_r.
  destruct sid; reflexivity.
Qed.

(* ---- without post-selection: exactly the statement of TkLemmas, for well-formed commands ---- *)
Definition ev_eqb (a b : event) : bool :=
  match a, b with
  | EGate g p ls, EGate g' p' ls' =>
      (g =? g')%Z && (if is_rot g then dy_eqb p p' else true) && list_eqb Nat.eqb ls ls'
  | EMeas l1, EMeas l2 => Nat.eqb l1 l2
  | _, _ => false
  end.
Definition want_events (c : cmd) : list event :=
  if (c_op c =? op_Measure)%Z
  then match c_qs c with [r] => [EMeas r] | _ => [] end
  else [EGate (c_op c) (match c_par c with Some p => dy_half p | None => Dy 0 0 end) (c_qs c)].

Lemma from_tk_trace_ok_unfold : forall t c,
  from_tk_trace_ok t c =
  match qtrace c with
  | None => false
  | Some q => list_eqb ev_eqb (q_events q) (flat_map want_events (t_cmds t))
  end.
Proof. reflexivity. Qed.

Lemma list_eqb_nat_refl : forall l, list_eqb Nat.eqb l l = true.
Proof. induction l; simpl; auto. rewrite Nat.eqb_refl. auto. Qed.
Lemma dy_eqb_refl : forall d, dy_eqb d d = true.
Proof. intros [n e]. unfold dy_eqb. simpl. rewrite Z.eqb_refl, Nat.eqb_refl. reflexivity. Qed.

Lemma events_nopsel_match : forall nq cs,
  cmds_wf nq cs = true ->
  list_eqb ev_eqb (flat_map (cmd_events []) cs) (flat_map want_events cs) = true.
Proof.
  intros nq. induction cs as [|c cs IH]; intros Hwf; [reflexivity|].
  cbn [cmds_wf forallb] in Hwf. apply andb_prop in Hwf. destruct Hwf as [Hc Hcs].
  specialize (IH Hcs). cbn [flat_map].
  unfold cmd_wf in Hc. apply andb_prop in Hc. destruct Hc as [_ Hlen].
  set (A := flat_map (cmd_events []) cs) in *. set (B := flat_map want_events cs) in *.
  unfold cmd_events, want_events.
  destruct (c_op c =? op_Measure)%Z.
  - apply Nat.eqb_eq in Hlen. destruct (c_qs c) as [|r [|r' qs']]; try discriminate.
    destruct (c_bs c); cbn [ps_lookup app list_eqb ev_eqb]; rewrite Nat.eqb_refl; exact IH.
  - cbn [app list_eqb ev_eqb]. rewrite Z.eqb_refl, list_eqb_nat_refl, IH.
    unfold gate_phase. destruct (is_rot (c_op c)); [rewrite dy_eqb_refl|]; reflexivity.
Qed.

Lemma bras_of_nopsel : forall cs init, bras_of [] cs init = init.
Proof.
  induction cs as [|c cs IH]; intros init; [reflexivity|].
  unfold bras_of in *. cbn [fold_left]. rewrite IH. unfold bras_step, cmd_bra.
  destruct (c_op c =? op_Measure)%Z; auto. destruct (c_qs c); auto. destruct (c_bs c); auto.
Qed.
Lemma filter_has_key_nil : forall l, filter (has_key []) l = [].
Proof. induction l; simpl; auto. Qed.

Definition from_tk_refines_trace_wf_stmt (fx : fixes) : Prop :=
  forall t sid c, cmds_wf (t_nq t) (t_cmds t) = true -> t_psel t = [] ->
                  from_tk fx t sid = Ok c -> from_tk_trace_ok t c = true.

Theorem from_tk_refines_trace_wf : forall fx, fx33 fx = true -> from_tk_refines_trace_wf_stmt fx.
Proof.
  intros fx Hfx t sid c Hwf Hps H.
  rewrite from_tk_trace_ok_unfold. rewrite (from_tk_trace_general fx t sid c Hfx Hwf H).
  cbn [q_events]. rewrite Hps, bras_of_nopsel, filter_has_key_nil. cbn [map]. rewrite app_nil_r.
  eapply events_nopsel_match. exact Hwf.
Qed.

(* non-vacuity: distant and leftward second qubits, a rotation, measurements *)
Definition trace_example : tkc :=
  TK 5 2 [Cmd 1 None [4] []; Cmd 7 None [0; 3] []; Cmd 7 None [4; 1] []; Cmd 14 (Some (Dy 5 2)) [2; 0] [];
          Cmd 8 None [1; 2] []; Cmd 0 None [3] [1]; Cmd 13 (Some (Dy 1 1)) [3] []; Cmd 0 None [0] [0]]
     [] [] (PP 2 2 [(PSwap, 0)]).
Example from_tk_refines_trace_example :
  cmds_wf (t_nq trace_example) (t_cmds trace_example) = true /\ t_psel trace_example = [] /\
  exists c, from_tk repaired trace_example None = Ok c /\ from_tk_trace_ok trace_example c = true /\
            (* the pinned make_units_adjacent gets it wrong (F33) *)
            exists c', from_tk pinned trace_example None = Ok c' /\ from_tk_trace_ok trace_example c' = false.
Proof.
  vm_compute. split; [reflexivity|]. split; [reflexivity|].
  eexists. split; [reflexivity|]. split; [reflexivity|].
  eexists. split; reflexivity.
Qed.

(* ---- the statement of TkLemmas as it stands is refuted for EVERY setting of the switches ---- *)
(* (i) by a well-formed tket circuit: a post-selected mid-circuit measurement followed by a gate
   on the same qubit.  tk.Circuit(1, 1, post_selection={0: 0}).Measure(0, 0).X(0):
   from_tk places the Bra after the X ("post selection happens at the end"). *)
Definition psel_midcircuit_witness : tkc :=
  TK 1 1 [Cmd op_Measure None [0] [0]; Cmd g_X None [0] []] [(0, false)] [] (PP 0 0 []).
Theorem from_tk_refines_trace_refuted_postselection : forall fx, ~ from_tk_refines_trace_stmt fx.
Proof.
  intros fx H.
  assert (E : exists c, from_tk fx psel_midcircuit_witness None = Ok c /\
                        from_tk_trace_ok psel_midcircuit_witness c = false)
    by (vm_compute; eexists; split; reflexivity).
  destruct E as [c [E1 E2]]. rewrite (H psel_midcircuit_witness c eq_refl E1) in E2. discriminate.
Qed.
(* the gate and the measurement act on the SAME wire, in the opposite order: no commutation
   of independent events reconciles the two traces *)
Theorem from_tk_postselection_order_witness :
  cmds_wf 1 (t_cmds psel_midcircuit_witness) = true /\
  exists c, from_tk repaired psel_midcircuit_witness None = Ok c /\
            option_map q_events (qtrace c) = Some [EGate g_X (Dy 0 0) [0]; EMeas 0] /\
            flat_map want_events (t_cmds psel_midcircuit_witness) = [EMeas 0; EGate g_X (Dy 0 0) [0]].
Proof. vm_compute. split; [reflexivity|]. eexists. split; [reflexivity|]. split; reflexivity. Qed.

(* (ii) by a malformed command (pytket refuses CX(0, 0)): cmds_in_range is too weak a hypothesis *)
Definition malformed_witness : tkc := TK 2 0 [Cmd 7 None [0; 0] []] [] [] (PP 0 0 []).
Theorem from_tk_refines_trace_refuted_malformed : forall fx, ~ from_tk_refines_trace_stmt fx.
Proof.
  intros fx H.
  assert (E : exists c, from_tk fx malformed_witness None = Ok c /\
                        from_tk_trace_ok malformed_witness c = false)
    by (vm_compute; eexists; split; reflexivity).
  destruct E as [c [E1 E2]]. rewrite (H malformed_witness c eq_refl E1) in E2. discriminate.
Qed.

(* ================================================================== Part 2: routing of to_tk *)
(* ---- list helpers ---- *)
Lemma map_nth_seq : forall {A} (l : list A) d, map (fun i => nth i l d) (seq 0 (length l)) = l.
Proof.
  intros A l d. induction l as [|a l IH]; [reflexivity|].
  cbn [length seq map nth]. f_equal. rewrite <- seq_shift, map_map. exact IH.
Qed.
Lemma nth_map_seq : forall {A} (F : nat -> A) n i d, i < n -> nth i (map F (seq 0 n)) d = F i.
Proof.
  intros A F n i d H. apply nth_error_nth.
  rewrite my_nth_error_map, nth_error_seq by auto. reflexivity.
Qed.
Lemma flat_map_ext_in : forall {A B} (f g : A -> list B) l,
  (forall a, In a l -> f a = g a) -> flat_map f l = flat_map g l.
Proof.
  intros A B f g l. induction l as [|a l IH]; intros H; [reflexivity|].
  cbn [flat_map]. rewrite (H a) by (left; reflexivity). rewrite IH; auto. intros; apply H; right; auto.
Qed.
Lemma flat_map_map : forall {A B C} (h : A -> B) (g : B -> list C) l,
  flat_map g (map h l) = flat_map (fun a => g (h a)) l.
Proof. intros A B C h g l. induction l as [|a l IH]; simpl; auto. rewrite IH. reflexivity. Qed.
Lemma flat_map_nil_all : forall {A B} (f : A -> list B) l, (forall a, In a l -> f a = []) -> flat_map f l = [].
Proof.
  intros A B f l. induction l as [|a l IH]; intros H; [reflexivity|].
  cbn [flat_map]. rewrite (H a) by (left; reflexivity). apply IH. intros; apply H; right; auto.
Qed.
Lemma flat_map_single_const : forall {A B} (f : A -> list B) z l,
  (forall a, In a l -> f a = [z]) -> flat_map f l = rep (length l) z.
Proof.
  intros A B f z l. induction l as [|a l IH]; intros H; [reflexivity|].
  cbn [flat_map length]. rewrite (H a) by (left; reflexivity). rewrite rep_S. cbn [app]. f_equal.
  apply IH. intros; apply H; right; auto.
Qed.
Lemma seq_shift_add : forall m start n, seq (start + n) m = map (fun i => i + n) (seq start m).
Proof.
  induction m; intros start n; [reflexivity|].
  cbn [seq map]. f_equal. apply (IHm (S start) n).
Qed.
Lemma seq_split3 : forall nb start n, start <= nb ->
  seq 0 (nb + n) = seq 0 start ++ seq start n ++ map (fun i => i + n) (seq start (nb - start)).
Proof.
  intros nb start n H. rewrite <- seq_shift_add.
  replace (nb + n) with (start + (n + (nb - start))) by lia.
  rewrite seq_app, seq_app. reflexivity.
Qed.
Lemma seq_snoc : forall n, seq 0 (S n) = seq 0 n ++ [n].
Proof. intros n. replace (S n) with (n + 1) by lia. rewrite seq_app. reflexivity. Qed.
Lemma filter_map_comm : forall {A B} (p : B -> bool) (f : A -> B) l,
  filter p (map f l) = map f (filter (fun a => p (f a)) l).
Proof. intros A B p f l. induction l as [|a l IH]; simpl; auto. destruct (p (f a)); simpl; rewrite IH; reflexivity. Qed.
Lemma filter_ext_in' : forall {A} (p q : A -> bool) l, (forall a, In a l -> p a = q a) -> filter p l = filter q l.
Proof.
  intros A p q l. induction l as [|a l IH]; intros H; [reflexivity|].
  cbn [filter]. rewrite (H a) by (left; reflexivity). rewrite IH; auto. intros; apply H; right; auto.
Qed.
Lemma filter_all_true : forall {A} (p : A -> bool) l, (forall a, In a l -> p a = true) -> filter p l = l.
Proof.
  intros A p l. induction l as [|a l IH]; intros H; [reflexivity|].
  cbn [filter]. rewrite (H a) by (left; reflexivity). f_equal. apply IH. intros; apply H; right; auto.
Qed.
Lemma flat_map_filter_map : forall {A B} (p : A -> bool) (R : A -> B) l,
  flat_map (fun i => if p i then [R i] else []) l = map R (filter p l).
Proof. intros A B p R l. induction l as [|a l IH]; simpl; auto. destruct (p a); simpl; rewrite IH; reflexivity. Qed.
Lemma split_unique : forall (P : nat -> Prop) (a b c d : list nat),
  a ++ b = c ++ d -> Forall P a -> Forall (fun x => ~ P x) b -> Forall P c -> Forall (fun x => ~ P x) d ->
  a = c /\ b = d.
Proof.
  intros P. induction a as [|x a IH]; intros b c d E Ha Hb Hc Hd.
  - destruct c as [|y c]; [auto|]. simpl in E. subst b.
    inversion Hb; subst. inversion Hc; subst. contradiction.
  - destruct c as [|y c].
    + simpl in E. subst d. inversion Hd; subst. inversion Ha; subst. contradiction.
    + simpl in E. inversion E; subst. inversion Ha; subst. inversion Hc; subst.
      destruct (IH b c d H1 H3 Hb H5 Hd) as [-> ->]. auto.
Qed.

Lemma insert_at_end : forall {A} (l : list A) p x, length l <= p -> insert_at l p x = l ++ [x].
Proof. intros A l p x H. unfold insert_at. rewrite firstn_all2, skipn_all2 by lia. rewrite app_nil_r. reflexivity. Qed.
Lemma insert_at_length : forall {A} (l : list A) p x, length (insert_at l p x) = S (length l).
Proof.
  intros A l p x. unfold insert_at. rewrite !app_length. cbn [length].
  rewrite <- (firstn_skipn p l) at 3. rewrite app_length. lia.
Qed.
Lemma nth_replace1 : forall {A} (l : list A) r x i d, r < length l ->
  nth i (replace_range l r 1 [x]) d = if Nat.eqb r i then x else nth i l d.
Proof.
  intros A l. induction l as [|a l IH]; intros r x i d H; [simpl in H; lia|].
  destruct r as [|r].
  - unfold replace_range. cbn [firstn plus skipn app]. destruct i; reflexivity.
  - assert (E : replace_range (a :: l) (S r) 1 [x] = a :: replace_range l r 1 [x]) by reflexivity.
    rewrite E. destruct i as [|i]; [reflexivity|]. cbn [nth]. simpl in H.
    rewrite IH by lia. reflexivity.
Qed.
Lemma replace_range_length1 : forall {A} (l : list A) r x, r < length l -> length (replace_range l r 1 [x]) = length l.
Proof.
  intros A l r x H. unfold replace_range. rewrite !app_length, firstn_length, skipn_length. cbn [length]. lia.
Qed.

(* ---- the tket bit registers as functions of the index ---- *)
Definition writes (c : cmd) (i : nat) : bool :=
  (c_op c =? op_Measure)%Z && match c_bs c with [r] => Nat.eqb r i | _ => false end.
(* content of register i after the commands cs, the first of which is number k *)
Fixpoint regf (cs : list cmd) (k : nat) (i : nat) (init : prov) : prov :=
  match cs with
  | [] => init
  | c :: cs' => regf cs' (S k) i (if writes c i then PMeas k else init)
  end.
Definition cmd_bits_ok (nb : nat) (c : cmd) : bool :=
  if (c_op c =? op_Measure)%Z then match c_bs c with [r] => r <? nb | _ => false end else true.
Definition cmds_bits_ok (nb : nat) (cs : list cmd) : bool := forallb (cmd_bits_ok nb) cs.

Lemma regs_after_regf : forall cs k regs,
  cmds_bits_ok (length regs) cs = true ->
  regs_after cs k regs = map (fun i => regf cs k i (nth i regs PBad)) (seq 0 (length regs)).
Proof.
  induction cs as [|c cs IH]; intros k regs H.
  - cbn [regs_after regf]. symmetry. apply map_nth_seq.
  - cbn [cmds_bits_ok forallb] in H. apply andb_prop in H. destruct H as [Hc Hcs].
    cbn [regs_after regf]. unfold cmd_bits_ok in Hc. unfold writes.
    destruct (c_op c =? op_Measure)%Z.
    + destruct (c_bs c) as [|r [|r' bs']]; try discriminate. apply Nat.ltb_lt in Hc.
      destruct (Nat.ltb_spec r (length regs)) as [_|]; [|lia].
      rewrite IH by (rewrite replace_range_length1 by auto; exact Hcs).
      rewrite replace_range_length1 by auto. apply map_ext. intros i.
      rewrite nth_replace1 by auto. cbn [andb]. reflexivity.
    + rewrite IH by exact Hcs. reflexivity.
Qed.

Lemma regf_snoc : forall cs c k i init,
  regf (cs ++ [c]) k i init = if writes c i then PMeas (k + length cs) else regf cs k i init.
Proof.
  induction cs as [|c0 cs IH]; intros c k i init.
  - cbn [app regf length]. rewrite Nat.add_0_r. reflexivity.
  - cbn [app regf length]. rewrite IH. replace (S k + length cs) with (k + S (length cs)) by lia. reflexivity.
Qed.
Definition bpart (c : cmd) : Z * list nat := (c_op c, c_bs c).
Lemma writes_bpart : forall c c', bpart c = bpart c' -> forall i, writes c i = writes c' i.
Proof. intros c c' H i. unfold bpart in H. inversion H. unfold writes. rewrite H1, H2. reflexivity. Qed.
Lemma regf_bpart : forall cs cs' k i init, map bpart cs = map bpart cs' -> regf cs k i init = regf cs' k i init.
Proof.
  induction cs as [|c cs IH]; intros [|c' cs'] k i init H; try discriminate; [reflexivity|].
  cbn [map] in H.
  assert (E1 : bpart c = bpart c') by congruence.
  assert (E2 : map bpart cs = map bpart cs') by congruence.
  cbn [regf]. rewrite (writes_bpart c c' E1). apply IH. exact E2.
Qed.
Lemma cmds_bits_ok_bpart : forall nb cs cs', map bpart cs = map bpart cs' -> cmds_bits_ok nb cs = cmds_bits_ok nb cs'.
Proof.
  induction cs as [|c cs IH]; intros [|c' cs'] H; try discriminate; [reflexivity|].
  cbn [map] in H.
  assert (E1 : bpart c = bpart c') by congruence.
  assert (E2 : map bpart cs = map bpart cs') by congruence.
  cbn [cmds_bits_ok forallb]. fold (cmds_bits_ok nb cs) (cmds_bits_ok nb cs').
  rewrite (IH cs' E2). f_equal. unfold cmd_bits_ok. unfold bpart in E1.
  assert (Eo : c_op c = c_op c') by congruence. assert (Eb : c_bs c = c_bs c') by congruence.
  rewrite Eo, Eb. reflexivity.
Qed.
Lemma cmds_bits_ok_mono : forall nb nb' cs, nb <= nb' -> cmds_bits_ok nb cs = true -> cmds_bits_ok nb' cs = true.
Proof.
  intros nb nb' cs Hle H. unfold cmds_bits_ok in *. rewrite forallb_forall in *. intros c Hc. specialize (H c Hc).
  unfold cmd_bits_ok in *. destruct (c_op c =? op_Measure)%Z; auto.
  destruct (c_bs c) as [|r [|]]; auto. apply Nat.ltb_lt in H. apply Nat.ltb_lt. lia.
Qed.
(* renaming the bits of the commands by an injective function *)
Lemma regf_rename : forall (f : nat -> nat) cs k i init,
  (forall a b, f a = f b -> a = b) ->
  regf (map (map_b f) cs) k (f i) init = regf cs k i init.
Proof.
  intros f. induction cs as [|c cs IH]; intros k i init Hinj; [reflexivity|].
  cbn [map regf]. rewrite IH by auto. f_equal.
  unfold writes, map_b. cbn [c_op c_bs]. destruct (c_bs c) as [|r [|r' bs']]; cbn [map]; auto.
  destruct (Nat.eqb_spec r i) as [->|Hne].
  - rewrite Nat.eqb_refl. reflexivity.
  - destruct (Nat.eqb_spec (f r) (f i)) as [E|]; auto. apply Hinj in E. contradiction.
Qed.
Lemma regf_rename_fresh : forall (f : nat -> nat) cs k i init,
  (forall a, f a <> i) -> regf (map (map_b f) cs) k i init = init.
Proof.
  intros f. induction cs as [|c cs IH]; intros k i init Hf; [reflexivity|].
  cbn [map regf]. rewrite IH by auto.
  unfold writes, map_b. cbn [c_op c_bs]. destruct (c_bs c) as [|r [|r' bs']]; cbn [map]; rewrite ?andb_false_r; auto.
  destruct (Nat.eqb_spec (f r) i) as [E|]; [exfalso; eapply Hf; eauto|]. rewrite andb_false_r. reflexivity.
Qed.

Definition regR (t : tkc) (i : nat) : prov := regf (t_cmds t) 0 i PZero.
Definition selS (t : tkc) (i : nat) : option bool := ps_lookup (t_psel t) i.
Definition keptF (nb : nat) (R : nat -> prov) (S : nat -> option bool) : list prov :=
  flat_map (fun i => match S i with None => [R i] | Some _ => [] end) (seq 0 nb).
Definition selF (nb : nat) (R : nat -> prov) (S : nat -> option bool) : list constr :=
  flat_map (fun i => match S i with Some v => [(R i, v)] | None => [] end) (seq 0 nb).
Definition is_none {A} (o : option A) : bool := match o with None => true | Some _ => false end.
Definition idxF (nb : nat) (S : nat -> option bool) : list nat := filter (fun i => is_none (S i)) (seq 0 nb).
Definition keptT (t : tkc) := keptF (t_nb t) (regR t) (selS t).
Definition selT (t : tkc) := selF (t_nb t) (regR t) (selS t).
Definition idxT (t : tkc) := idxF (t_nb t) (selS t).

Lemma nth_rep_lt : forall {A} n (x d : A) i, i < n -> nth i (rep n x) d = x.
Proof.
  intros A n x d i H. apply nth_error_nth. unfold rep. apply nth_error_repeat. exact H.
Qed.

Lemma tsem_F : forall t, cmds_bits_ok (t_nb t) (t_cmds t) = true ->
  tsem t = if negb (Nat.eqb (length (keptT t)) (pp_dom (t_pp t))) then ([PBad], selT t)
           else fold_left pp_step (pp_boxes (t_pp t)) (keptT t, selT t).
Proof.
  intros t H. unfold tsem.
  assert (Hregs : forall i, i < t_nb t ->
            nth i (regs_after (t_cmds t) 0 (rep (t_nb t) PZero)) PBad = regR t i).
  { intros i Hi. rewrite regs_after_regf by (rewrite rep_length; exact H).
    rewrite rep_length. rewrite nth_map_seq by auto. rewrite nth_rep_lt by auto. reflexivity. }
  assert (Hk : flat_map (fun i => match ps_lookup (t_psel t) i with
                                  | Some _ => []
                                  | None => [nth i (regs_after (t_cmds t) 0 (rep (t_nb t) PZero)) PBad]
                                  end) (seq 0 (t_nb t)) = keptT t).
  { unfold keptT, keptF, selS. apply flat_map_ext_in. intros i Hi. apply in_seq in Hi.
    rewrite Hregs by lia. reflexivity. }
  assert (Hs : flat_map (fun i => match ps_lookup (t_psel t) i with
                                  | Some v => [(nth i (regs_after (t_cmds t) 0 (rep (t_nb t) PZero)) PBad, v)]
                                  | None => []
                                  end) (seq 0 (t_nb t)) = selT t).
  { unfold selT, selF, selS. apply flat_map_ext_in. intros i Hi. apply in_seq in Hi.
    rewrite Hregs by lia. reflexivity. }
  cbv zeta. rewrite Hk, Hs. reflexivity.
Qed.

(* ---- the classical post-processing as a function on the list of kept registers ---- *)
Definition pp_good (p : pbox) : Prop := match p with PBitsDag bs => bs = [] | _ => True end.
Fixpoint pp_fits (boxes : list (pbox * nat)) (len : nat) : Prop :=
  match boxes with
  | [] => True
  | pb :: r => snd pb + pbox_dom (fst pb) <= len /\ pp_good (fst pb) /\
               pp_fits r (len - pbox_dom (fst pb) + pbox_cod (fst pb))
  end.
Fixpoint pp_len (boxes : list (pbox * nat)) (len : nat) : nat :=
  match boxes with
  | [] => len
  | pb :: r => pp_len r (len - pbox_dom (fst pb) + pbox_cod (fst pb))
  end.
Definition pp_step_bits (bits : list prov) (pb : pbox * nat) : list prov := fst (pp_step (bits, []) pb).
Definition pp_bits (boxes : list (pbox * nat)) (bits : list prov) : list prov := fold_left pp_step_bits boxes bits.

Lemma pp_step_good : forall p off bits cs, pp_good p ->
  pp_step (bits, cs) (p, off) = (pp_step_bits bits (p, off), cs).
Proof.
  intros p off bits cs H. unfold pp_step_bits. destruct p; cbn [pp_step].
  - destruct (skipn off bits) as [|a [|b rest]]; reflexivity.
  - reflexivity.
  - simpl in H. subst bs. cbn [length firstn combine fst]. rewrite app_nil_r. reflexivity.
Qed.
Lemma pp_run_good : forall boxes len bits cs, pp_fits boxes len ->
  fold_left pp_step boxes (bits, cs) = (pp_bits boxes bits, cs).
Proof.
  induction boxes as [|[p off] boxes IH]; intros len bits cs H; [reflexivity|].
  cbn [pp_fits fst snd] in H. destruct H as [_ [Hg Hr]].
  cbn [fold_left]. rewrite pp_step_good by auto. unfold pp_bits. cbn [fold_left]. eapply IH; eauto.
Qed.

Lemma app_outputs_length : forall id args m, length (app_outputs id args m) = m.
Proof. intros. unfold app_outputs. rewrite map_length, seq_length. reflexivity. Qed.
Lemma skipn_two : forall {A} (l : list A) k, k + 2 <= length l ->
  exists a b rest, skipn k l = a :: b :: rest.
Proof.
  intros A l k H. destruct (skipn k l) as [|a [|b rest]] eqn:E.
  - assert (length (skipn k l) = 0) by (rewrite E; reflexivity). rewrite skipn_length in *. lia.
  - assert (length (skipn k l) = 1) by (rewrite E; reflexivity). rewrite skipn_length in *. lia.
  - eauto.
Qed.

Lemma pp_step_bits_length : forall p off bits, off + pbox_dom p <= length bits -> pp_good p ->
  length (pp_step_bits bits (p, off)) = length bits - pbox_dom p + pbox_cod p.
Proof.
  intros p off bits H Hg. unfold pp_step_bits. destruct p; cbn [pp_step fst pbox_dom pbox_cod] in *.
  - destruct (skipn_two bits off H) as [a [b [rest E]]]. rewrite E. cbn [fst].
    rewrite <- (firstn_skipn off bits) at 2. rewrite E, !app_length. cbn [length]. lia.
  - unfold replace_range. rewrite !app_length, app_outputs_length, firstn_length, skipn_length. lia.
  - simpl in Hg. subst bs. cbn [length]. unfold remove_range. rewrite app_length, firstn_length, skipn_length. lia.
Qed.
Lemma pp_bits_length : forall boxes bits, pp_fits boxes (length bits) ->
  length (pp_bits boxes bits) = pp_len boxes (length bits).
Proof.
  induction boxes as [|[p off] boxes IH]; intros bits H; [reflexivity|].
  cbn [pp_fits fst snd] in H. destruct H as [H1 [Hg Hr]].
  unfold pp_bits. cbn [fold_left pp_len fst snd]. fold (pp_bits boxes (pp_step_bits bits (p, off))).
  rewrite IH; rewrite pp_step_bits_length by auto; auto.
Qed.

Lemma skipn_app_le : forall {A} (a b : list A) k, k <= length a -> skipn k (a ++ b) = skipn k a ++ b.
Proof. intros A a b k H. rewrite skipn_app. replace (k - length a) with 0 by lia. reflexivity. Qed.

Lemma pp_step_bits_frame : forall p off bits extra, off + pbox_dom p <= length bits ->
  pp_step_bits (bits ++ extra) (p, off) = pp_step_bits bits (p, off) ++ extra.
Proof.
  intros p off bits extra H. unfold pp_step_bits. destruct p; cbn [pp_step fst pbox_dom] in *.
  - destruct (skipn_two bits off H) as [a [b [rest E]]].
    rewrite skipn_app_le by lia. rewrite E. cbn [app fst].
    rewrite firstn_app_le by lia. rewrite <- app_assoc. reflexivity.
  - unfold replace_range. rewrite firstn_app_le by lia. rewrite !skipn_app_le by lia.
    rewrite (firstn_app_le (skipn off bits)) by (rewrite skipn_length; lia).
    rewrite <- !app_assoc. reflexivity.
  - cbn [fst]. unfold remove_range. rewrite firstn_app_le by lia. rewrite skipn_app_le by lia.
    rewrite <- app_assoc. reflexivity.
Qed.
Lemma pp_bits_frame : forall boxes bits extra, pp_fits boxes (length bits) ->
  pp_bits boxes (bits ++ extra) = pp_bits boxes bits ++ extra.
Proof.
  induction boxes as [|[p off] boxes IH]; intros bits extra H; [reflexivity|].
  cbn [pp_fits fst snd] in H. destruct H as [H1 [Hg Hr]].
  unfold pp_bits. cbn [fold_left]. fold (pp_bits boxes (pp_step_bits (bits ++ extra) (p, off))).
  fold (pp_bits boxes (pp_step_bits bits (p, off))).
  rewrite pp_step_bits_frame by auto. apply IH. rewrite pp_step_bits_length by auto. exact Hr.
Qed.

Lemma pp_fits_mono : forall boxes len e, pp_fits boxes len ->
  pp_fits boxes (len + e) /\ pp_len boxes (len + e) = pp_len boxes len + e.
Proof.
  induction boxes as [|[p off] boxes IH]; intros len e H; [simpl; auto|].
  cbn [pp_fits pp_len fst snd] in *. destruct H as [H1 [Hg Hr]].
  replace (len + e - pbox_dom p + pbox_cod p) with (len - pbox_dom p + pbox_cod p + e) by lia.
  destruct (IH _ e Hr) as [I1 I2]. repeat split; auto. lia.
Qed.
Lemma pp_fits_app : forall a b len, pp_fits a len -> pp_fits b (pp_len a len) -> pp_fits (a ++ b) len.
Proof.
  induction a as [|[p off] a IH]; intros b len Ha Hb; [exact Hb|].
  cbn [app pp_fits pp_len fst snd] in *. destruct Ha as [H1 [Hg Hr]]. repeat split; auto.
Qed.
Lemma pp_len_app : forall a b len, pp_len (a ++ b) len = pp_len b (pp_len a len).
Proof. induction a as [|[p off] a IH]; intros b len; [reflexivity|]. cbn [app pp_len]. apply IH. Qed.
Lemma pp_bits_app : forall a b bits, pp_bits (a ++ b) bits = pp_bits b (pp_bits a bits).
Proof. intros. unfold pp_bits. apply fold_left_app. Qed.

(* a sequence of Swap(bit, bit) boxes *)
Definition pswaps (ks : list nat) : list (pbox * nat) := map (fun k => (PSwap, k)) ks.
Lemma pp_bits_swaps : forall ks bits, Forall (fun k => k + 2 <= length bits) ks ->
  pp_bits (pswaps ks) bits = apply_swaps ks bits /\ pp_fits (pswaps ks) (length bits) /\
  pp_len (pswaps ks) (length bits) = length bits.
Proof.
  induction ks as [|k ks IH]; intros bits H; [simpl; auto|].
  inversion H as [|? ? Hk Hks]; subst.
  assert (E : pp_step_bits bits (PSwap, k) = swap_at k bits).
  { unfold pp_step_bits, swap_at. cbn [pp_step]. destruct (skipn_two bits k Hk) as [a [b [rest E]]]. rewrite E. reflexivity. }
  assert (Hks' : Forall (fun k0 => k0 + 2 <= length (swap_at k bits)) ks) by (rewrite swap_at_length; exact Hks).
  destruct (IH (swap_at k bits) Hks') as [I1 [I2 I3]]. rewrite swap_at_length in I2, I3.
  cbn [pswaps map pp_fits pp_len fst snd pbox_dom pbox_cod].
  replace (length bits - 2 + 2) with (length bits) by lia.
  split; [|split; [repeat split; auto|exact I3]].
  unfold pp_bits. cbn [fold_left]. rewrite E. exact I1.
Qed.

Lemma pp_add_bit_spec : forall p offset p', pp_add_bit p offset = Ok p' ->
  offset <= pp_cod p /\ pp_dom p' = S (pp_dom p) /\ pp_cod p' = S (pp_cod p) /\
  pp_boxes p' = pp_boxes p ++
                pswaps (offs (shift_swaps offset (swap_boxes (rep (pp_cod p - offset) WBit) [WBit]))).
Proof.
  intros p offset p' H. unfold pp_add_bit in H. cbv zeta in H.
  replace (S (pp_cod p) - 1 - offset) with (pp_cod p - offset) in H by lia.
  destruct (Nat.eqb_spec (offset + (pp_cod p - offset) + 1) (S (pp_cod p))) as [E|E]; cbn [negb] in H; [|discriminate].
  inversion H; subst p'; clear H. cbn [pp_dom pp_cod pp_boxes]. repeat split; try lia.
  f_equal. unfold pswaps, offs, shift_swaps. rewrite !map_map. apply map_ext. intros [[a b] o]. reflexivity.
Qed.

Lemma pp_add_bit_run : forall p offset p' kept x,
  pp_add_bit p offset = Ok p' -> pp_fits (pp_boxes p) (pp_dom p) -> length kept = pp_dom p ->
  length (pp_bits (pp_boxes p) kept) = pp_cod p ->
  pp_bits (pp_boxes p') (kept ++ [x]) = insert_at (pp_bits (pp_boxes p) kept) offset x /\
  pp_fits (pp_boxes p') (pp_dom p').
Proof.
  intros p offset p' kept x H Hf Hk Hc.
  destruct (pp_add_bit_spec _ _ _ H) as [Ho [Hd [_ Hb]]].
  set (outs := pp_bits (pp_boxes p) kept) in *.
  set (sw := swap_boxes (rep (pp_cod p - offset) WBit) [WBit]) in *.
  assert (Hrange : Forall (fun k => k + 2 <= length (outs ++ [x])) (offs (shift_swaps offset sw))).
  { apply Forall_forall. intros k Hkin. unfold offs, shift_swaps in Hkin. rewrite map_map in Hkin.
    apply in_map_iff in Hkin. destruct Hkin as [[[a b] o] [E Hin]]. cbn [snd] in E. subst k.
    apply swap_boxes_in in Hin. destruct Hin as [_ [_ Hin]]. rewrite rep_length in Hin. cbn [length] in Hin.
    rewrite app_length. cbn [length]. lia. }
  destruct (pp_bits_swaps _ _ Hrange) as [S1 [S2 S3]].
  rewrite Hb, Hd. split.
  - rewrite pp_bits_app. rewrite <- Hk in Hf. rewrite pp_bits_frame by exact Hf. fold outs. rewrite S1.
    rewrite <- (firstn_skipn offset outs) at 1. rewrite <- app_assoc.
    rewrite <- (app_nil_r [x]) at 1. unfold sw.
    rewrite (swap_boxes_labels (rep (pp_cod p - offset) WBit) [WBit] offset (firstn offset outs)
               (skipn offset outs) [x] []).
    + rewrite app_nil_r. reflexivity.
    + apply firstn_length_le. lia.
    + rewrite skipn_length, rep_length. lia.
    + reflexivity.
  - apply pp_fits_app.
    + replace (S (pp_dom p)) with (pp_dom p + 1) by lia. apply pp_fits_mono. exact Hf.
    + replace (S (pp_dom p)) with (pp_dom p + 1) by lia.
      destruct (pp_fits_mono _ _ 1 Hf) as [_ E]. rewrite E.
      rewrite <- Hk in Hf. rewrite <- Hk. rewrite <- (pp_bits_length _ _ Hf). fold outs.
      rewrite app_length in S2. cbn [length] in S2. exact S2.
Qed.

(* ---- the bit-routing invariant of to_tk ---- *)
Record BInv (t : tkc) (bits : list nat) (ds : dsem_st) : Prop := {
  bi_cmds : cmds_bits_ok (t_nb t) (t_cmds t) = true;
  bi_keys : forall k, t_nb t <= k -> ps_lookup (t_psel t) k = None;
  bi_nev : d_nev ds = length (t_cmds t);              (* event k of the circuit is command k *)
  bi_dom : length (keptT t) = pp_dom (t_pp t);
  bi_fits : pp_fits (pp_boxes (t_pp t)) (pp_dom (t_pp t));
  bi_bits : pp_bits (pp_boxes (t_pp t)) (keptT t) = d_bits ds;   (* every bit wire has its provenance *)
  bi_sel : selT t = d_constr ds;                                   (* and so has every constraint *)
  bi_cod : length (d_bits ds) = pp_cod (t_pp t);
  bi_blen : length bits = length (d_bits ds);
  bi_bound : Forall (fun b => b < t_nb t) bits;
  (* while post_processing has no box, `bits` lists the registers that are not
     post-selected, in increasing order = in wire order *)
  bi_modeA : pp_boxes (t_pp t) = [] -> bits = idxT t }.

Lemma FT_ext : forall nb R R' S S',
  (forall i, i < nb -> R' i = R i) -> (forall i, i < nb -> S' i = S i) ->
  keptF nb R' S' = keptF nb R S /\ selF nb R' S' = selF nb R S /\ idxF nb S' = idxF nb S.
Proof.
  intros nb R R' S S' HR HS. unfold keptF, selF, idxF. repeat split.
  - apply flat_map_ext_in. intros i Hi. apply in_seq in Hi. rewrite HR, HS by lia. reflexivity.
  - apply flat_map_ext_in. intros i Hi. apply in_seq in Hi. rewrite HR, HS by lia. reflexivity.
  - apply filter_ext_in'. intros i Hi. apply in_seq in Hi. rewrite HS by lia. reflexivity.
Qed.

Lemma BInv_view : forall t t' bits ds,
  BInv t bits ds -> t_nb t' = t_nb t -> map bpart (t_cmds t') = map bpart (t_cmds t) ->
  t_psel t' = t_psel t -> t_pp t' = t_pp t -> BInv t' bits ds.
Proof.
  intros t t' bits ds [I1 I2 I3 I4 I5 I6 I7 I8 I9 I10 I11] Hnb Hc Hp Hpp.
  destruct (FT_ext (t_nb t) (regR t) (regR t') (selS t) (selS t')) as [E1 [E2 E3]].
  { intros i _. unfold regR. apply regf_bpart. exact Hc. }
  { intros i _. unfold selS. rewrite Hp. reflexivity. }
  assert (K : keptT t' = keptT t) by (unfold keptT; rewrite Hnb; exact E1).
  assert (S : selT t' = selT t) by (unfold selT; rewrite Hnb; exact E2).
  assert (X : idxT t' = idxT t) by (unfold idxT; rewrite Hnb; exact E3).
  constructor; rewrite ?Hnb, ?Hp, ?Hpp, ?K, ?S, ?X; auto.
  - rewrite (cmds_bits_ok_bpart _ _ _ Hc). exact I1.
  - rewrite I3. rewrite <- (map_length bpart (t_cmds t)), <- Hc, map_length. reflexivity.
Qed.

Lemma BInv_gate : forall t bits ds c,
  BInv t bits ds -> (c_op c =? op_Measure)%Z = false ->
  BInv (add_cmd t c) bits (DS (d_bits ds) (S (d_nev ds)) (d_constr ds)).
Proof.
  intros t bits ds c [I1 I2 I3 I4 I5 I6 I7 I8 I9 I10 I11] Hop.
  assert (Hw : forall i, writes c i = false) by (intros i; unfold writes; rewrite Hop; reflexivity).
  destruct (FT_ext (t_nb t) (regR t) (regR (add_cmd t c)) (selS t) (selS (add_cmd t c))) as [E1 [E2 E3]].
  { intros i _. unfold regR. cbn [add_cmd set_cmds t_cmds]. rewrite regf_snoc, Hw. reflexivity. }
  { intros i _. reflexivity. }
  assert (K : keptT (add_cmd t c) = keptT t) by exact E1.
  assert (S : selT (add_cmd t c) = selT t) by exact E2.
  assert (X : idxT (add_cmd t c) = idxT t) by exact E3.
  constructor; rewrite ?K, ?S, ?X; cbn [add_cmd set_cmds t_nb t_cmds t_psel t_pp d_bits d_nev d_constr];
    try assumption.
  - unfold cmds_bits_ok. rewrite forallb_app. fold (cmds_bits_ok (t_nb t) (t_cmds t)). rewrite I1.
    cbn [forallb]. unfold cmd_bits_ok. rewrite Hop. reflexivity.
  - rewrite app_length. cbn [length]. lia.
Qed.

Lemma pp_post_process_spec : forall p off b p', pp_post_process p off b = Ok p' ->
  off + pbox_dom b <= pp_cod p /\ pp_dom p' = pp_dom p /\
  pp_cod p' = pp_cod p - pbox_dom b + pbox_cod b /\ pp_boxes p' = pp_boxes p ++ [(b, off)].
Proof.
  intros p off b p' H. unfold pp_post_process in H. cbv zeta in H.
  destruct (Nat.eqb_spec (off + pbox_dom b + (pp_cod p - (off + pbox_dom b))) (pp_cod p)) as [E|E];
    cbn [negb] in H; [|discriminate].
  inversion H; subst p'. cbn [pp_dom pp_cod pp_boxes]. repeat split; lia.
Qed.

(* a box appended to the post-processing: the circuit's bits go through the same box *)
Lemma BInv_pp : forall t bits ds off b p' bits',
  BInv t bits ds -> pp_post_process (t_pp t) off b = Ok p' -> pp_good b ->
  length bits' = length (pp_step_bits (d_bits ds) (b, off)) -> Forall (fun x => x < t_nb t) bits' ->
  BInv (set_pp t p') bits' (DS (pp_step_bits (d_bits ds) (b, off)) (d_nev ds) (d_constr ds)).
Proof.
  intros t bits ds off b p' bits' [I1 I2 I3 I4 I5 I6 I7 I8 I9 I10 I11] H Hg Hl Hb.
  destruct (pp_post_process_spec _ _ _ _ H) as [P1 [P2 [P3 P4]]].
  assert (Hlen : pp_len (pp_boxes (t_pp t)) (pp_dom (t_pp t)) = pp_cod (t_pp t)).
  { rewrite <- I8, <- I6, <- I4. symmetry. apply pp_bits_length. rewrite I4. exact I5. }
  assert (K : keptT (set_pp t p') = keptT t) by reflexivity.
  assert (S : selT (set_pp t p') = selT t) by reflexivity.
  constructor; rewrite ?K, ?S; cbn [set_pp t_nb t_cmds t_psel t_pp d_bits d_nev d_constr]; try assumption.
  - rewrite P2. exact I4.
  - rewrite P2, P4. apply pp_fits_app; [exact I5|]. rewrite Hlen.
    cbn [pp_fits fst snd]. auto.
  - rewrite P4, pp_bits_app, I6. reflexivity.
  - rewrite pp_step_bits_length by (auto; lia). rewrite I8, P3. reflexivity.
  - rewrite P4. intros E. apply app_eq_nil in E. destruct E as [_ E]. discriminate.
Qed.

(* ---- one more register ---- *)
Lemma FT_snoc : forall nb (R : nat -> prov) (P : nat -> option bool),
  keptF (S nb) R P = keptF nb R P ++ (match P nb with None => [R nb] | Some _ => [] end) /\
  selF (S nb) R P = selF nb R P ++ (match P nb with Some v => [(R nb, v)] | None => [] end) /\
  idxF (S nb) P = idxF nb P ++ (if is_none (P nb) then [nb] else []).
Proof.
  intros nb R P. unfold keptF, selF, idxF. rewrite seq_snoc, !flat_map_app, filter_app.
  cbn [flat_map filter]. rewrite !app_nil_r.
  split; [reflexivity|]. split; [reflexivity|]. destruct (is_none (P nb)); reflexivity.
Qed.

Lemma tk_add_bit_some : forall t po t1, tk_add_bit t (Some po) = Ok t1 ->
  exists p', pp_add_bit (t_pp t) po = Ok p' /\
             t1 = TK (t_nq t) (S (t_nb t)) (t_cmds t) (t_psel t) (t_scal t) p'.
Proof.
  intros t po t1 H. unfold tk_add_bit in H.
  destruct (pp_add_bit (t_pp t) po) as [p'|]; cbn [bind] in H; [|discriminate].
  inversion H. eauto.
Qed.

Lemma swap_boxes_nonnil : forall x l r, swap_boxes (x :: l) [r] <> [].
Proof. intros x l r E. cbn [swap_boxes swap1] in E. apply app_eq_nil in E. destruct E as [_ E]. discriminate. Qed.
Lemma pswaps_nil : forall o k, pswaps (offs (shift_swaps o (swap_boxes (rep k WBit) [WBit]))) = [] -> k = 0.
Proof.
  intros o k E. unfold pswaps, offs, shift_swaps in E.
  apply map_eq_nil in E. apply map_eq_nil in E. apply map_eq_nil in E.
  destruct k; auto. exfalso. rewrite rep_S in E. eapply swap_boxes_nonnil; eauto.
Qed.

Lemma Forall_insert_at : forall (P : nat -> Prop) l q x, Forall P l -> P x -> Forall P (insert_at l q x).
Proof.
  intros P l q x Hl Hx. unfold insert_at. apply Forall_app. split; [apply my_Forall_firstn; auto|].
  apply Forall_app. split; [constructor; auto | apply my_Forall_skipn; auto].
Qed.

(* measuring one qubit into a fresh bit that becomes a wire at position q *)
Lemma BInv_measure_iter : forall t bits ds po q iq t1,
  BInv t bits ds -> tk_add_bit t (Some po) = Ok t1 ->
  (po = q \/ (po = length bits /\ length bits <= q)) ->
  BInv (add_cmd t1 (Cmd op_Measure None [iq] [t_nb t])) (insert_at bits q (t_nb t))
       (DS (insert_at (d_bits ds) q (PMeas (d_nev ds))) (S (d_nev ds)) (d_constr ds)).
Proof.
  intros t bits ds po q iq t1 [I1 I2 I3 I4 I5 I6 I7 I8 I9 I10 I11] H Hpo.
  destruct (tk_add_bit_some _ _ _ H) as [p' [Hp ->]].
  set (c := Cmd op_Measure None [iq] [t_nb t]).
  set (t2 := add_cmd (TK (t_nq t) (S (t_nb t)) (t_cmds t) (t_psel t) (t_scal t) p') c).
  assert (HR : forall i, regR t2 i = if Nat.eqb (t_nb t) i then PMeas (d_nev ds) else regR t i).
  { intros i. unfold regR, t2. cbn [add_cmd set_cmds t_cmds]. rewrite regf_snoc.
    unfold writes, c. cbn [c_op c_bs]. cbn [Z.eqb op_Measure andb plus]. rewrite I3. reflexivity. }
  destruct (FT_snoc (t_nb t) (regR t2) (selS t)) as [F1 [F2 F3]].
  destruct (FT_ext (t_nb t) (regR t) (regR t2) (selS t) (selS t)) as [E1 [E2 _]]; auto.
  { intros i Hi. rewrite HR. destruct (Nat.eqb_spec (t_nb t) i); [lia|reflexivity]. }
  assert (Hnone : selS t (t_nb t) = None) by (apply I2; lia).
  rewrite Hnone in F1, F2, F3. cbn [is_none] in F3. rewrite E1 in F1. rewrite E2, app_nil_r in F2.
  rewrite HR, Nat.eqb_refl in F1.
  assert (K : keptT t2 = keptT t ++ [PMeas (d_nev ds)]) by exact F1.
  assert (Sl : selT t2 = selT t) by exact F2.
  assert (X : idxT t2 = idxT t ++ [t_nb t]) by exact F3.
  assert (Hc : length (pp_bits (pp_boxes (t_pp t)) (keptT t)) = pp_cod (t_pp t)) by (rewrite I6; exact I8).
  destruct (pp_add_bit_spec _ _ _ Hp) as [P1 [P2 [P3 P4]]].
  destruct (pp_add_bit_run _ _ _ (keptT t) (PMeas (d_nev ds)) Hp I5 I4 Hc) as [R1 R2].
  assert (Hins : insert_at (d_bits ds) po (PMeas (d_nev ds)) = insert_at (d_bits ds) q (PMeas (d_nev ds))).
  { destruct Hpo as [->|[-> Hq]]; [reflexivity|]. rewrite !insert_at_end by lia. reflexivity. }
  constructor; rewrite ?K, ?Sl, ?X;
    cbn [t2 add_cmd set_cmds t_nb t_cmds t_psel t_pp d_bits d_nev d_constr]; try assumption.
  - unfold cmds_bits_ok. rewrite forallb_app. fold (cmds_bits_ok (S (t_nb t)) (t_cmds t)).
    rewrite (cmds_bits_ok_mono (t_nb t) (S (t_nb t))) by (auto; lia).
    cbn [forallb]. unfold cmd_bits_ok, c. cbn [c_op c_bs]. cbn [Z.eqb op_Measure].
    destruct (Nat.ltb_spec (t_nb t) (S (t_nb t))); [reflexivity|lia].
  - intros k Hk. apply I2. lia.
  - rewrite app_length. cbn [length]. lia.
  - rewrite app_length, I4, P2. cbn [length]. lia.
  - rewrite R1, I6. exact Hins.
  - rewrite insert_at_length, I8, P3. reflexivity.
  - rewrite !insert_at_length, I9. reflexivity.
  - apply Forall_insert_at; [|lia]. eapply Forall_impl; [|exact I10]. simpl. intros; lia.
  - rewrite P4. intros E. apply app_eq_nil in E. destruct E as [Eb Es].
    apply pswaps_nil in Es. rewrite (I11 Eb).
    apply insert_at_end. rewrite <- (I11 Eb). destruct Hpo as [<-|[_ Hq]]; [|exact Hq]. lia.
Qed.

(* measuring one qubit into a fresh post-selected bit (Bra) *)
Lemma BInv_bra_iter : forall t bits ds iq v,
  BInv t bits ds ->
  BInv (TK (t_nq t) (S (t_nb t)) (t_cmds t ++ [Cmd op_Measure None [iq] [t_nb t]])
           (ps_set (t_psel t) (t_nb t) v) (t_scal t) (t_pp t))
       bits (DS (d_bits ds) (S (d_nev ds)) (d_constr ds ++ [(PMeas (d_nev ds), v)])).
Proof.
  intros t bits ds iq v [I1 I2 I3 I4 I5 I6 I7 I8 I9 I10 I11].
  set (c := Cmd op_Measure None [iq] [t_nb t]).
  set (t3 := TK (t_nq t) (S (t_nb t)) (t_cmds t ++ [c]) (ps_set (t_psel t) (t_nb t) v) (t_scal t) (t_pp t)).
  assert (HR : forall i, regR t3 i = if Nat.eqb (t_nb t) i then PMeas (d_nev ds) else regR t i).
  { intros i. unfold regR, t3. cbn [t_cmds]. rewrite regf_snoc.
    unfold writes, c. cbn [c_op c_bs]. cbn [Z.eqb op_Measure andb plus]. rewrite I3. reflexivity. }
  assert (HP : forall i, selS t3 i = if Nat.eqb i (t_nb t) then Some v else selS t i).
  { intros i. unfold selS, t3. cbn [t_psel]. apply ps_lookup_set. }
  destruct (FT_snoc (t_nb t) (regR t3) (selS t3)) as [F1 [F2 F3]].
  destruct (FT_ext (t_nb t) (regR t) (regR t3) (selS t) (selS t3)) as [E1 [E2 E3]].
  { intros i Hi. rewrite HR. destruct (Nat.eqb_spec (t_nb t) i); [lia|reflexivity]. }
  { intros i Hi. rewrite HP. destruct (Nat.eqb_spec i (t_nb t)); [lia|reflexivity]. }
  rewrite HP, Nat.eqb_refl in F1, F2, F3. cbn [is_none] in F3.
  rewrite E1, app_nil_r in F1. rewrite E2, HR, Nat.eqb_refl in F2. rewrite E3, app_nil_r in F3.
  assert (K : keptT t3 = keptT t) by exact F1.
  assert (Sl : selT t3 = selT t ++ [(PMeas (d_nev ds), v)]) by exact F2.
  assert (X : idxT t3 = idxT t) by exact F3.
  constructor; rewrite ?K, ?Sl, ?X;
    cbn [t3 t_nb t_cmds t_psel t_pp d_bits d_nev d_constr]; try assumption.
  - unfold cmds_bits_ok. rewrite forallb_app. fold (cmds_bits_ok (S (t_nb t)) (t_cmds t)).
    rewrite (cmds_bits_ok_mono (t_nb t) (S (t_nb t))) by (auto; lia).
    cbn [forallb]. unfold cmd_bits_ok, c. cbn [c_op c_bs]. cbn [Z.eqb op_Measure].
    destruct (Nat.ltb_spec (t_nb t) (S (t_nb t))); [reflexivity|lia].
  - intros k Hk. rewrite ps_lookup_set. destruct (Nat.eqb_spec k (t_nb t)); [lia|]. apply I2. lia.
  - rewrite app_length. cbn [length]. lia.
  - rewrite I7. reflexivity.
  - eapply Forall_impl; [|exact I10]. simpl. intros; lia.
Qed.

Lemma insert_split : forall {A} (l : list A) q x,
  firstn (S q) (insert_at l q x) = firstn q l ++ [x] /\ skipn (S q) (insert_at l q x) = skipn q l.
Proof.
  intros A l q x. unfold insert_at. destruct (Nat.le_gt_cases q (length l)) as [H|H].
  - assert (L : length (firstn q l ++ [x]) = S q).
    { rewrite app_length, firstn_length_le by lia. cbn [length]. lia. }
    rewrite (app_assoc (firstn q l) [x]). split.
    + apply firstn_exact. exact L.
    + apply skipn_exact0. exact L.
  - rewrite (firstn_all2 (n:=q)), (skipn_all2 (n:=q)) by lia. rewrite app_nil_r. split.
    + apply firstn_all2. rewrite app_length. cbn [length]. lia.
    + apply skipn_all2. rewrite app_length. cbn [length]. lia.
Qed.

Lemma ds_eta : forall ds, ds = DS (d_bits ds) (d_nev ds) (d_constr ds).
Proof. intros [a b c]. reflexivity. Qed.

(* measure_qubits, main loop, for a Measure box *)
Lemma measure_loop_none_routing : forall fx n j t bits qubits boff qoff ds t' bits',
  BInv t bits ds -> (0 < n -> fx10 fx = true \/ length bits <= boff + j) ->
  measure_loop fx t bits qubits None boff qoff j n = Ok (t', bits') ->
  BInv t' bits'
       (DS (firstn (boff + j) (d_bits ds) ++ map (fun i => PMeas (d_nev ds + i)) (seq 0 n)
            ++ skipn (boff + j) (d_bits ds)) (d_nev ds + n) (d_constr ds)).
Proof.
  intros fx. induction n; intros j t bits qubits boff qoff ds t' bits' I Hq H.
  - cbn [measure_loop] in H. inversion H; subst. cbn [seq map app]. rewrite firstn_skipn, Nat.add_0_r.
    rewrite <- (ds_eta ds). exact I.
  - cbn [measure_loop] in H.
    destruct (nth_res qubits (qoff + j)) as [iq|]; cbn [bind] in H; [|discriminate].
    destruct (tk_add_bit t (Some (if fx10 fx then boff + j else length bits))) as [t1|] eqn:E1;
      cbn [bind] in H; [|discriminate].
    assert (I1 := BInv_measure_iter t bits ds _ (boff + j) iq t1 I E1).
    assert (Hpo : (if fx10 fx then boff + j else length bits) = boff + j \/
                  ((if fx10 fx then boff + j else length bits) = length bits /\ length bits <= boff + j)).
    { specialize (Hq ltac:(lia)).
      destruct (fx10 fx); [left; reflexivity|]. destruct Hq as [Hq|Hq]; [discriminate|]. right. auto. }
    specialize (I1 Hpo).
    assert (Hq' : 0 < n -> fx10 fx = true \/ length (insert_at bits (boff + j) (t_nb t)) <= boff + S j)
      by (intros _; destruct (Hq ltac:(lia)) as [Hq0|Hq0];
          [left; exact Hq0 | right; rewrite insert_at_length; lia]).
    pose proof (IHn _ _ _ _ _ _ _ _ _ I1 Hq' H) as H'. clear H. rename H' into H.
    cbn [d_bits d_nev d_constr] in H.
    replace (boff + S j) with (S (boff + j)) in H by lia.
    destruct (insert_split (d_bits ds) (boff + j) (PMeas (d_nev ds))) as [S1 S2].
    rewrite S1, S2 in H.
    replace (d_nev ds + S n) with (S (d_nev ds) + n) by lia.
    cbn [seq map]. rewrite <- seq_shift, map_map. rewrite Nat.add_0_r.
    rewrite <- app_assoc in H. cbn [app] in H.
    assert (Em : map (fun x => PMeas (d_nev ds + S x)) (seq 0 n) =
                 map (fun i => PMeas (S (d_nev ds) + i)) (seq 0 n))
      by (apply map_ext; intros x; f_equal; lia).
    rewrite Em. exact H.
Qed.

(* measure_qubits, main loop, for a Bra box *)
Lemma measure_loop_bra_routing : forall fx bs n j t bits qubits boff qoff ds t' bits',
  BInv t bits ds ->
  measure_loop fx t bits qubits (Some bs) boff qoff j n = Ok (t', bits') ->
  bits' = bits /\
  BInv t' bits
       (DS (d_bits ds) (d_nev ds + n)
           (d_constr ds ++ combine (map (fun i => PMeas (d_nev ds + i)) (seq 0 n)) (firstn n (skipn j bs)))).
Proof.
  intros fx bs. induction n; intros j t bits qubits boff qoff ds t' bits' I H.
  - cbn [measure_loop] in H. inversion H; subst. cbn [seq map combine]. rewrite app_nil_r, Nat.add_0_r.
    rewrite <- (ds_eta ds). auto.
  - cbn [measure_loop] in H.
    destruct (nth_res qubits (qoff + j)) as [iq|]; cbn [bind] in H; [|discriminate].
    cbn [tk_add_bit bind] in H.
    unfold nth_res in H. destruct (nth_error bs j) as [v|] eqn:Ev; cbn [bind] in H; [|discriminate].
    cbn [add_cmd set_cmds t_nq t_nb t_cmds t_psel t_scal t_pp] in H.
    pose proof (IHn _ _ _ _ _ _ _ _ _ (BInv_bra_iter t bits ds iq v I) H) as H'. clear H.
    destruct H' as [Hb H]. split; [exact Hb|].
    cbn [d_bits d_nev d_constr] in H.
    replace (d_nev ds + S n) with (S (d_nev ds) + n) by lia.
    rewrite (firstn_S_skipn _ _ _ _ Ev).
    cbn [seq map combine]. rewrite <- seq_shift, map_map. rewrite Nat.add_0_r.
    rewrite <- app_assoc in H. cbn [app] in H.
    assert (Em : map (fun x => PMeas (d_nev ds + S x)) (seq 0 n) =
                 map (fun i => PMeas (S (d_nev ds) + i)) (seq 0 n))
      by (apply map_ext; intros x; f_equal; lia).
    rewrite Em. exact H.
Qed.

(* ---- the kept registers through their indices ---- *)
Lemma keptF_idx : forall nb R P, keptF nb R P = map R (idxF nb P).
Proof.
  intros nb R P. unfold keptF, idxF. rewrite <- flat_map_filter_map.
  apply flat_map_ext. intros i. destruct (P i); reflexivity.
Qed.
Lemma idxF_NoDup : forall nb P, NoDup (idxF nb P).
Proof. intros. unfold idxF. apply NoDup_filter. apply seq_NoDup. Qed.
Lemma idxF_In : forall nb P i, In i (idxF nb P) <-> i < nb /\ P i = None.
Proof.
  intros nb P i. unfold idxF. rewrite filter_In, in_seq. split.
  - intros [H1 H2]. split; [lia|]. destruct (P i); [discriminate|reflexivity].
  - intros [H1 H2]. split; [lia|]. rewrite H2. reflexivity.
Qed.
Lemma incr_filter_seq : forall (p : nat -> bool) m a, incr a (filter p (seq a m)) (a + m).
Proof.
  intros p. induction m; intros a.
  - simpl. lia.
  - cbn [seq filter]. replace (a + S m) with (S a + m) by lia. destruct (p a).
    + cbn [incr]. split; [lia|]. apply IHm.
    + eapply incr_weaken; [apply IHm| lia | lia].
Qed.

Lemma map_update_nodup : forall {B} (R R2 : nat -> B) v b l p,
  NoDup l -> nth_error l p = Some b ->
  (forall i, R2 i = if Nat.eqb b i then v else R i) ->
  map R2 l = replace_range (map R l) p 1 [v].
Proof.
  intros B R R2 v b. induction l as [|a l IH]; intros p Hnd Hp HR; [destruct p; discriminate|].
  inversion Hnd as [|? ? Hnotin Hnd']; subst.
  destruct p as [|p]; cbn [nth_error] in Hp.
  - inversion Hp; subst a. cbn [map]. unfold replace_range. cbn [firstn plus skipn app].
    rewrite HR, Nat.eqb_refl. f_equal. apply map_ext_in. intros x Hx.
    rewrite HR. destruct (Nat.eqb_spec b x); [subst; contradiction|reflexivity].
  - cbn [map].
    assert (E : replace_range (R a :: map R l) (S p) 1 [v] = R a :: replace_range (map R l) p 1 [v]) by reflexivity.
    rewrite E. f_equal.
    + rewrite HR. destruct (Nat.eqb_spec b a); [|reflexivity].
      subst a. exfalso. apply Hnotin. eapply nth_error_In; eauto.
    + apply IH; auto.
Qed.

(* an overriding measurement while post_processing has no box: the register under the wire is rewritten *)
Lemma BInv_override_iter : forall t bits ds iq ib p,
  BInv t bits ds -> pp_boxes (t_pp t) = [] -> nth_error bits p = Some ib ->
  BInv (add_cmd t (Cmd op_Measure None [iq] [ib])) bits
       (DS (replace_range (d_bits ds) p 1 [PMeas (d_nev ds)]) (S (d_nev ds)) (d_constr ds)).
Proof.
  intros t bits ds iq ib p [I1 I2 I3 I4 I5 I6 I7 I8 I9 I10 I11] Hb Hp.
  set (c := Cmd op_Measure None [iq] [ib]). set (t2 := add_cmd t c).
  assert (Hbits := I11 Hb).
  assert (Hin : In ib (idxT t)) by (rewrite <- Hbits; eapply nth_error_In; eauto).
  apply idxF_In in Hin. destruct Hin as [Hlt Hnone].
  assert (HR : forall i, regR t2 i = if Nat.eqb ib i then PMeas (d_nev ds) else regR t i).
  { intros i. unfold regR, t2. cbn [add_cmd set_cmds t_cmds]. rewrite regf_snoc.
    unfold writes, c. cbn [c_op c_bs]. cbn [Z.eqb op_Measure andb plus]. rewrite I3. reflexivity. }
  assert (Hkept : keptT t = d_bits ds) by (rewrite Hb in I6; exact I6).
  assert (K : keptT t2 = replace_range (d_bits ds) p 1 [PMeas (d_nev ds)]).
  { rewrite <- Hkept. unfold keptT. rewrite !keptF_idx.
    change (idxF (t_nb t2) (selS t2)) with (idxT t). fold (idxT t). rewrite <- Hbits.
    apply (map_update_nodup (regR t) (regR t2) (PMeas (d_nev ds)) ib bits p); auto.
    rewrite Hbits. apply idxF_NoDup. }
  assert (Sl : selT t2 = selT t).
  { unfold selT, selF. change (t_nb t2) with (t_nb t). apply flat_map_ext_in. intros i Hi.
    change (selS t2 i) with (selS t i). destruct (selS t i) eqn:Es; [|reflexivity].
    rewrite HR. destruct (Nat.eqb_spec ib i); [subst; congruence|reflexivity]. }
  assert (X : idxT t2 = idxT t) by reflexivity.
  assert (Hplt : p < length (d_bits ds)).
  { rewrite <- I9. apply nth_error_Some. congruence. }
  constructor; rewrite ?K, ?Sl, ?X;
    cbn [t2 add_cmd set_cmds t_nb t_cmds t_psel t_pp d_bits d_nev d_constr]; try assumption.
  - unfold cmds_bits_ok. rewrite forallb_app. fold (cmds_bits_ok (t_nb t) (t_cmds t)). rewrite I1.
    cbn [forallb]. unfold cmd_bits_ok, c. cbn [c_op c_bs]. cbn [Z.eqb op_Measure].
    destruct (Nat.ltb_spec ib (t_nb t)); [reflexivity|lia].
  - rewrite app_length. cbn [length]. lia.
  - rewrite replace_range_length1 by auto. rewrite <- Hkept. exact I4.
  - rewrite Hb. reflexivity.
  - rewrite replace_range_length1 by auto. exact I8.
  - rewrite replace_range_length1 by auto. exact I9.
Qed.

Lemma replace_range_step : forall {A} (l : list A) q x n outs,
  q < length l ->
  replace_range (replace_range l q 1 [x]) (S q) n outs = replace_range l q (S n) (x :: outs).
Proof.
  intros A l q x n outs H. unfold replace_range.
  assert (L : length (firstn q l ++ [x]) = S q).
  { rewrite app_length, firstn_length_le by lia. cbn [length]. lia. }
  rewrite (app_assoc (firstn q l) [x]).
  rewrite (firstn_exact _ _ (S q) L).
  rewrite (skipn_exact (firstn q l ++ [x]) _ (S q) n L).
  rewrite my_skipn_skipn. rewrite <- app_assoc. cbn [app].
  replace (q + 1 + n) with (q + S n) by lia. reflexivity.
Qed.

Lemma measure_override_routing : forall n j t bits qubits boff qoff ds t',
  BInv t bits ds -> (0 < n -> pp_boxes (t_pp t) = []) ->
  measure_override t bits qubits boff qoff j n = Ok t' ->
  BInv t' bits
       (DS (replace_range (d_bits ds) (boff + j) n (map (fun i => PMeas (d_nev ds + i)) (seq 0 n)))
           (d_nev ds + n) (d_constr ds)).
Proof.
  induction n; intros j t bits qubits boff qoff ds t' I Hb H.
  - cbn [measure_override] in H. inversion H; subst. cbn [seq map]. unfold replace_range.
    cbn [app]. rewrite !Nat.add_0_r, firstn_skipn. rewrite <- (ds_eta ds). exact I.
  - cbn [measure_override] in H. unfold nth_res in H.
    destruct (nth_error bits (boff + j)) as [ib|] eqn:Eb; cbn [bind] in H; [|discriminate].
    destruct (nth_error qubits (qoff + j)) as [iq|]; cbn [bind] in H; [|discriminate].
    specialize (Hb ltac:(lia)).
    pose proof (BInv_override_iter t bits ds iq ib (boff + j) I Hb Eb) as I1.
    pose proof (IHn _ _ _ _ _ _ _ _ I1 (fun _ => Hb) H) as H'. cbn [d_bits d_nev d_constr] in H'.
    replace (boff + S j) with (S (boff + j)) in H' by lia.
    assert (Hlt : boff + j < length (d_bits ds)).
    { rewrite <- (bi_blen _ _ _ I). apply nth_error_Some. congruence. }
    rewrite replace_range_step in H' by exact Hlt.
    replace (d_nev ds + S n) with (S (d_nev ds) + n) by lia.
    cbn [seq map]. rewrite <- seq_shift, map_map. rewrite Nat.add_0_r.
    assert (Em : map (fun x => PMeas (d_nev ds + S x)) (seq 0 n) =
                 map (fun i => PMeas (S (d_nev ds) + i)) (seq 0 n))
      by (apply map_ext; intros x; f_equal; lia).
    rewrite Em. exact H'.
Qed.

(* ---- swap of two adjacent bits while post_processing has no box: the registers are renamed ---- *)
Lemma transpose_invol : forall i j x, transpose i j (transpose i j x) = x.
Proof.
  intros i j x. unfold transpose.
  destruct (Nat.eqb_spec x i); [subst; rewrite Nat.eqb_refl; destruct (Nat.eqb_spec j i); auto|].
  destruct (Nat.eqb_spec x j); [subst; rewrite Nat.eqb_refl; reflexivity|].
  destruct (Nat.eqb_spec x i); [contradiction|]. destruct (Nat.eqb_spec x j); [contradiction|reflexivity].
Qed.
Lemma transpose_other : forall i j x, x <> i -> x <> j -> transpose i j x = x.
Proof.
  intros i j x Hi Hj. unfold transpose.
  destruct (Nat.eqb_spec x i); [contradiction|]. destruct (Nat.eqb_spec x j); [contradiction|reflexivity].
Qed.
Lemma transpose_l : forall i j, transpose i j i = j.
Proof. intros. unfold transpose. rewrite Nat.eqb_refl. reflexivity. Qed.
Lemma transpose_r : forall i j, transpose i j j = i.
Proof. intros. unfold transpose. rewrite Nat.eqb_refl. destruct (Nat.eqb_spec j i); auto. Qed.
Lemma transpose_lt : forall i j x nb, i < nb -> j < nb -> x < nb -> transpose i j x < nb.
Proof. intros. unfold transpose. destruct (Nat.eqb x i); auto. destruct (Nat.eqb x j); auto. Qed.

Lemma cmds_bits_ok_map_b : forall f nb nb' cs,
  (forall r, r < nb -> f r < nb') -> cmds_bits_ok nb cs = true -> cmds_bits_ok nb' (map (map_b f) cs) = true.
Proof.
  intros f nb nb' cs Hf H. unfold cmds_bits_ok in *. rewrite forallb_forall in *. intros c' Hc'.
  apply in_map_iff in Hc'. destruct Hc' as [c [<- Hc]]. specialize (H c Hc).
  unfold cmd_bits_ok, map_b in *. cbn [c_op c_bs]. destruct (c_op c =? op_Measure)%Z; auto.
  destruct (c_bs c) as [|r [|]]; auto. cbn [map]. apply Nat.ltb_lt in H. apply Nat.ltb_lt. auto.
Qed.

Lemma BInv_swap_bits : forall fx t bits ds p i j,
  BInv t bits ds -> pp_boxes (t_pp t) = [] ->
  nth_error bits p = Some i -> nth_error bits (S p) = Some j ->
  (fx32 fx = true \/ has_key (t_psel t) 0 = false) ->
  BInv (swap_bits fx t i j) bits (DS (swap_at p (d_bits ds)) (d_nev ds) (d_constr ds)).
Proof.
  intros fx t bits ds p i j [I1 I2 I3 I4 I5 I6 I7 I8 I9 I10 I11] Hb Hi Hj H32.
  assert (Hbits := I11 Hb).
  assert (Hnd : NoDup bits) by (rewrite Hbits; apply idxF_NoDup).
  assert (Hini : In i (idxT t)) by (rewrite <- Hbits; eapply nth_error_In; eauto).
  assert (Hinj : In j (idxT t)) by (rewrite <- Hbits; eapply nth_error_In; eauto).
  apply idxF_In in Hini. apply idxF_In in Hinj. destruct Hini as [Hilt Hinone]. destruct Hinj as [Hjlt Hjnone].
  assert (Hki : has_key (t_psel t) i = false) by (unfold has_key; unfold selS in Hinone; rewrite Hinone; reflexivity).
  assert (Hkj : has_key (t_psel t) j = false) by (unfold has_key; unfold selS in Hjnone; rewrite Hjnone; reflexivity).
  assert (Hps : t_psel (swap_bits fx t i j) = t_psel t).
  { unfold swap_bits. cbn [t_psel]. rewrite (ps_rename_absent _ i 0 Hki). rewrite (ps_rename_absent _ j i Hkj).
    destruct (fx32 fx); [reflexivity|]. destruct H32 as [H32|H32]; [discriminate|].
    apply ps_rename_absent. exact H32. }
  set (t2 := swap_bits fx t i j) in *.
  assert (HR : forall x, regR t2 x = regR t (transpose i j x)).
  { intros x. unfold regR, t2, swap_bits. cbn [t_cmds].
    rewrite <- (transpose_invol i j x) at 1. apply regf_rename. apply transpose_inj. }
  assert (HP : forall x, selS t2 x = selS t x) by (intros x; unfold selS; rewrite Hps; reflexivity).
  assert (Hkept : keptT t = d_bits ds) by (rewrite Hb in I6; exact I6).
  assert (X : idxT t2 = idxT t).
  { unfold idxT, idxF. change (t_nb t2) with (t_nb t). apply filter_ext_in'. intros x _. rewrite HP. reflexivity. }
  assert (Hsplit : bits = firstn p bits ++ i :: j :: skipn (S (S p)) bits).
  { rewrite <- (firstn_skipn p bits) at 1. f_equal.
    rewrite (skipn_cons_nth _ _ _ Hi). f_equal. apply skipn_cons_nth. exact Hj. }
  assert (Hij : i <> j).
  { intros ->. rewrite Hsplit in Hnd. apply NoDup_remove_2 in Hnd. apply Hnd.
    apply in_or_app. right. left. reflexivity. }
  assert (Hother : forall x, In x (firstn p bits) \/ In x (skipn (S (S p)) bits) -> x <> i /\ x <> j).
  { intros x Hx. rewrite Hsplit in Hnd.
    pose proof (NoDup_remove_2 _ _ _ Hnd) as Ni.
    pose proof (NoDup_remove_1 _ _ _ Hnd) as Hnd1.
    change (firstn p bits ++ j :: skipn (S (S p)) bits)
      with (firstn p bits ++ j :: skipn (S (S p)) bits) in Hnd1.
    pose proof (NoDup_remove_2 _ _ _ Hnd1) as Nj.
    split; intros ->.
    - apply Ni. apply in_or_app. destruct Hx as [Hx|Hx]; [left; exact Hx | right; right; exact Hx].
    - apply Nj. apply in_or_app. destruct Hx as [Hx|Hx]; [left; exact Hx | right; exact Hx]. }
  assert (K : keptT t2 = swap_at p (d_bits ds)).
  { rewrite <- Hkept. unfold keptT. rewrite !keptF_idx.
    change (idxF (t_nb t2) (selS t2)) with (idxT t2). rewrite X. fold (idxT t). rewrite <- Hbits.
    rewrite Hsplit at 2. rewrite map_app. cbn [map].
    assert (Lp : length (map (regR t) (firstn p bits)) = p).
    { rewrite map_length. apply firstn_length_le. apply Nat.lt_le_incl. apply nth_error_Some. congruence. }
    rewrite <- Lp at 1. rewrite swap_at_app.
    rewrite Hsplit at 1. rewrite map_app. cbn [map]. rewrite !HR, transpose_l, transpose_r.
    f_equal; [|f_equal; f_equal].
    - apply map_ext_in. intros x Hx. rewrite HR. destruct (Hother x (or_introl Hx)) as [N1 N2].
      rewrite transpose_other by auto. reflexivity.
    - apply map_ext_in. intros x Hx. rewrite HR. destruct (Hother x (or_intror Hx)) as [N1 N2].
      rewrite transpose_other by auto. reflexivity. }
  assert (Sl : selT t2 = selT t).
  { unfold selT, selF. change (t_nb t2) with (t_nb t). apply flat_map_ext_in. intros x Hx.
    rewrite HP. destruct (selS t x) eqn:Es; [|reflexivity].
    rewrite HR. rewrite transpose_other; [reflexivity| |]; intros ->; congruence. }
  assert (Hp2 : S p < length (d_bits ds)) by (rewrite <- I9; apply nth_error_Some; congruence).
  constructor; rewrite ?K, ?Sl, ?X, ?Hps;
    cbn [t2 swap_bits t_nb t_cmds t_pp d_bits d_nev d_constr]; try assumption.
  - apply (cmds_bits_ok_map_b (transpose i j) (t_nb t)); auto. intros r Hr. apply transpose_lt; auto.
  - rewrite map_length. exact I3.
  - rewrite swap_at_length. rewrite <- Hkept. exact I4.
  - rewrite Hb. reflexivity.
  - rewrite swap_at_length. exact I8.
  - rewrite swap_at_length. exact I9.
Qed.

(* ---- prepare_bits ---- *)
Lemma fold_no_hit : forall (moved : list (nat * bool)) y init,
  (forall kv, In kv moved -> fst kv <> y) ->
  fold_left (fun r kv => if Nat.eqb y (fst kv) then Some (snd kv) else r) moved init = init.
Proof.
  induction moved as [|kv moved IH]; intros y init H; [reflexivity|].
  cbn [fold_left]. destruct (Nat.eqb_spec y (fst kv)) as [E|E].
  - exfalso. apply (H kv); [left; reflexivity | auto].
  - apply IH. intros kv' Hin. apply H. right. exact Hin.
Qed.
Lemma ps_rename_none : forall ps ren y,
  ps_lookup ps y = None -> (forall on, In on ren -> snd on <> y) -> ps_lookup (ps_rename ps ren) y = None.
Proof.
  intros ps ren y Hy Hren. unfold ps_rename. rewrite lookup_fold_set, lookup_fold_remove.
  rewrite fold_no_hit.
  - match goal with |- context [existsb ?f ?l] => destruct (existsb f l) end; auto.
  - intros kv Hin. apply in_map_iff in Hin. destruct Hin as [on [<- Hin]]. cbn [fst].
    apply filter_In in Hin. destruct Hin as [Hin _]. apply Hren. exact Hin.
Qed.

Fixpoint pp_add_bits (p : ppd) (off n : nat) : res ppd :=
  match n with
  | O => Ok p
  | S n' => do p' <- pp_add_bit p off; pp_add_bits p' (S off) n'
  end.
Lemma add_bits_loop_pp : forall n t off t', add_bits_loop t off n = Ok t' ->
  pp_add_bits (t_pp t) off n = Ok (t_pp t') /\ t_nb t' = t_nb t + n /\
  t_cmds t' = t_cmds t /\ t_psel t' = t_psel t.
Proof.
  induction n; intros t off t' H; cbn [add_bits_loop pp_add_bits] in *.
  - inversion H; subst. repeat split; auto.
  - destruct (tk_add_bit t (Some off)) as [t1|] eqn:E; cbn [bind] in H; [|discriminate].
    destruct (tk_add_bit_some _ _ _ E) as [p' [Hp ->]]. rewrite Hp. cbn [bind].
    destruct (IHn _ _ _ H) as [H1 [H2 [H3 H4]]]. cbn [t_pp t_nb t_cmds t_psel] in *.
    repeat split; auto. lia.
Qed.

Lemma pp_add_bits_run : forall n p off p' kept x,
  pp_add_bits p off n = Ok p' -> pp_fits (pp_boxes p) (pp_dom p) -> length kept = pp_dom p ->
  length (pp_bits (pp_boxes p) kept) = pp_cod p ->
  pp_bits (pp_boxes p') (kept ++ rep n x) =
    firstn off (pp_bits (pp_boxes p) kept) ++ rep n x ++ skipn off (pp_bits (pp_boxes p) kept) /\
  pp_fits (pp_boxes p') (pp_dom p') /\ pp_dom p' = pp_dom p + n /\ pp_cod p' = pp_cod p + n /\
  (pp_boxes p' = [] -> pp_boxes p = []).
Proof.
  induction n; intros p off p' kept x H Hf Hk Hc; cbn [pp_add_bits] in H.
  - inversion H; subst. cbn [rep repeat app]. rewrite app_nil_r, firstn_skipn. repeat split; auto.
  - destruct (pp_add_bit p off) as [p1|] eqn:E; cbn [bind] in H; [|discriminate].
    destruct (pp_add_bit_spec _ _ _ E) as [P1 [P2 [P3 P4]]].
    destruct (pp_add_bit_run _ _ _ kept x E Hf Hk Hc) as [R1 R2].
    assert (Hk1 : length (kept ++ [x]) = pp_dom p1) by (rewrite app_length, P2; cbn [length]; lia).
    assert (Hc1 : length (pp_bits (pp_boxes p1) (kept ++ [x])) = pp_cod p1)
      by (rewrite R1, insert_at_length, P3, Hc; reflexivity).
    destruct (IHn p1 (S off) p' (kept ++ [x]) x H R2 Hk1 Hc1) as [J1 [J2 [J3 [J4 J5]]]].
    rewrite R1 in J1. destruct (insert_split (pp_bits (pp_boxes p) kept) off x) as [S1 S2].
    rewrite S1, S2 in J1. rewrite <- app_assoc in J1. cbn [app] in J1.
    rewrite rep_S. repeat split.
    + rewrite J1. rewrite <- app_assoc. reflexivity.
    + exact J2.
    + lia.
    + lia.
    + intros Eb. apply J5 in Eb. rewrite P4 in Eb. apply app_eq_nil in Eb. tauto.
Qed.

(* the registers after renaming every bit >= start upwards by n and adding n fresh bits *)
Lemma FT_shift : forall nb start n (R R2 : nat -> prov) (P P2 : nat -> option bool),
  start <= nb ->
  (forall x, x < start -> R2 x = R x /\ P2 x = P x) ->
  (forall x, start <= x < start + n -> R2 x = PZero /\ P2 x = None) ->
  (forall y, start <= y < nb -> R2 (y + n) = R y /\ P2 (y + n) = P y) ->
  keptF (nb + n) R2 P2 = keptF start R P ++ rep n PZero ++
                         flat_map (fun i => match P i with None => [R i] | Some _ => [] end) (seq start (nb - start)) /\
  keptF nb R P = keptF start R P ++
                 flat_map (fun i => match P i with None => [R i] | Some _ => [] end) (seq start (nb - start)) /\
  selF (nb + n) R2 P2 = selF nb R P /\
  idxF (nb + n) P2 = filter (fun i => is_none (P i)) (seq 0 start) ++ seq start n ++
                     map (fun i => i + n) (filter (fun i => is_none (P i)) (seq start (nb - start))) /\
  idxF nb P = filter (fun i => is_none (P i)) (seq 0 start) ++ filter (fun i => is_none (P i)) (seq start (nb - start)).
Proof.
  intros nb start n R R2 P P2 Hs H1 H2 H3.
  assert (Hsplit : seq 0 nb = seq 0 start ++ seq start (nb - start)) by (apply seq_split; exact Hs).
  unfold keptF, selF, idxF. rewrite (seq_split3 nb start n Hs), Hsplit.
  rewrite !flat_map_app, !filter_app, !flat_map_map, filter_map_comm.
  assert (A1 : forall x, In x (seq 0 start) -> x < start) by (intros x Hx; apply in_seq in Hx; lia).
  assert (A2 : forall x, In x (seq start n) -> start <= x < start + n) by (intros x Hx; apply in_seq in Hx; lia).
  assert (A3 : forall x, In x (seq start (nb - start)) -> start <= x < nb) by (intros x Hx; apply in_seq in Hx; lia).
  repeat split.
  - f_equal; [|f_equal].
    + apply flat_map_ext_in. intros x Hx. destruct (H1 x (A1 x Hx)) as [-> ->]. reflexivity.
    + rewrite <- (seq_length n start) at 2. apply flat_map_single_const.
      intros x Hx. destruct (H2 x (A2 x Hx)) as [-> ->]. reflexivity.
    + apply flat_map_ext_in. intros x Hx. destruct (H3 x (A3 x Hx)) as [-> ->]. reflexivity.
  - f_equal; [|].
    + apply flat_map_ext_in. intros x Hx. destruct (H1 x (A1 x Hx)) as [-> ->]. reflexivity.
    + rewrite (flat_map_nil_all _ (seq start n)).
      * cbn [app]. apply flat_map_ext_in. intros x Hx. destruct (H3 x (A3 x Hx)) as [-> ->]. reflexivity.
      * intros x Hx. destruct (H2 x (A2 x Hx)) as [_ ->]. reflexivity.
  - f_equal; [|f_equal].
    + apply filter_ext_in'. intros x Hx. destruct (H1 x (A1 x Hx)) as [_ ->]. reflexivity.
    + apply filter_all_true. intros x Hx. destruct (H2 x (A2 x Hx)) as [_ ->]. reflexivity.
    + f_equal. apply filter_ext_in'. intros x Hx. destruct (H3 x (A3 x Hx)) as [_ ->]. reflexivity.
Qed.

Lemma prep_start_le : forall bits nb off start,
  Forall (fun b => b < nb) bits -> prep_start bits nb off = Ok start -> start <= nb.
Proof.
  intros bits nb off start Hb H. unfold prep_start in H. destruct bits as [|b0 bits'] eqn:Eb.
  - inversion H; lia.
  - rewrite <- Eb in *. destruct off as [|o].
    + inversion H; lia.
    + unfold nth_res in H. destruct (nth_error bits o) as [r|] eqn:En; cbn [bind] in H; [|discriminate].
      inversion H; subst. apply nth_error_In in En. rewrite Forall_forall in Hb. specialize (Hb r En). lia.
Qed.
Lemma shift_from_lt : forall start n x, x < start -> shift_from start n x = x.
Proof. intros. unfold shift_from. destruct (Nat.leb_spec start x); [lia|reflexivity]. Qed.
Lemma shift_from_ge : forall start n x, start <= x -> shift_from start n x = x + n.
Proof. intros. unfold shift_from. destruct (Nat.leb_spec start x); [reflexivity|lia]. Qed.
Lemma shift_from_inj : forall start n a b, shift_from start n a = shift_from start n b -> a = b.
Proof.
  intros start n a b. unfold shift_from.
  destruct (Nat.leb_spec start a); destruct (Nat.leb_spec start b); lia.
Qed.
Lemma shift_from_fresh : forall start n a x, start <= x < start + n -> shift_from start n a <> x.
Proof. intros start n a x H. unfold shift_from. destruct (Nat.leb_spec start a); lia. Qed.

Lemma prep_regs_length : forall regs off start n, length (prep_regs regs off start n) = length regs + n.
Proof.
  intros. unfold prep_regs. rewrite !app_length, seq_length, map_length.
  rewrite <- (firstn_skipn off regs) at 3. rewrite app_length. lia.
Qed.

Lemma BInv_prepare_bits : forall t bits qubits ds n off s',
  BInv t bits ds -> prepare_bits (ST t bits qubits) n off = Ok s' ->
  (n = 0 \/ forall start, prep_start bits (t_nb t) off = Ok start ->
             forall r, start <= r -> r < t_nb t -> has_key (t_psel t) r = true) ->
  BInv (s_tk s') (s_bits s')
       (DS (firstn off (d_bits ds) ++ rep n PZero ++ skipn off (d_bits ds)) (d_nev ds) (d_constr ds)).
Proof.
  intros t bits qubits ds n off s' I H Hquiet.
  assert (II := I). destruct II as [I1 I2 I3 I4 I5 I6 I7 I8 I9 I10 I11].
  unfold prepare_bits in H. cbn [s_tk s_bits s_qubits] in H.
  destruct (prep_start bits (t_nb t) off) as [start|] eqn:Es; cbn [bind] in H; [|discriminate].
  match type of H with context [add_bits_loop ?t1 ?o ?m] =>
    destruct (add_bits_loop t1 o m) as [t2|] eqn:E; cbn [bind] in H; [|discriminate] end.
  inversion H; subst s'; clear H. cbn [s_tk s_bits].
  assert (Hle : start <= t_nb t) by (eapply prep_start_le; eauto).
  destruct (add_bits_loop_pp _ _ _ _ E) as [Hpp [Hnb [Hcmds Hpsel]]].
  cbn [t_pp t_nb t_cmds t_psel] in Hpp, Hnb, Hcmds, Hpsel.
  fold (shift_renaming start n (t_nb t)) in Hpsel.
  assert (Hkeys : forall k, has_key (t_psel t) k = true -> k < t_nb t).
  { intros k Hk. destruct (Nat.lt_ge_cases k (t_nb t)); auto.
    unfold has_key in Hk. rewrite I2 in Hk by lia. discriminate. }
  destruct (ps_rename_shift (t_psel t) start n (t_nb t) Hkeys Hle) as [Q1 Q2].
  set (sh := shift_from start n) in *.
  assert (HR : forall x, regR t2 x = regf (map (map_b sh) (t_cmds t)) 0 x PZero)
    by (intros x; unfold regR; rewrite Hcmds; reflexivity).
  assert (HP : forall x, selS t2 x = ps_lookup (ps_rename (t_psel t) (shift_renaming start n (t_nb t))) x)
    by (intros x; unfold selS; rewrite Hpsel; reflexivity).
  destruct (FT_shift (t_nb t) start n (regR t) (regR t2) (selS t) (selS t2) Hle) as [F1 [F2 [F3 [F4 F5]]]].
  { intros x Hx. rewrite HR, HP. split.
    - rewrite <- (shift_from_lt start n x Hx) at 1. apply regf_rename. apply shift_from_inj.
    - rewrite <- (shift_from_lt start n x Hx) at 1. apply Q1. lia. }
  { intros x Hx. rewrite HR, HP. split.
    - apply regf_rename_fresh. intros a. apply shift_from_fresh. exact Hx.
    - apply Q2. exact Hx. }
  { intros y Hy. rewrite HR, HP. split.
    - rewrite <- (shift_from_ge start n y) by lia. apply regf_rename. apply shift_from_inj.
    - rewrite <- (shift_from_ge start n y) by lia. apply Q1. lia. }
  assert (K : keptT t2 = keptT t ++ rep n PZero).
  { unfold keptT. rewrite Hnb, F1, F2. destruct Hquiet as [->|Hq].
    - cbn [rep repeat app]. rewrite app_nil_r. reflexivity.
    - rewrite (flat_map_nil_all _ (seq start (t_nb t - start))).
      + rewrite !app_nil_r. reflexivity.
      + intros x Hx. apply in_seq in Hx. specialize (Hq start eq_refl x ltac:(lia) ltac:(lia)).
        unfold has_key in Hq. unfold selS. destruct (ps_lookup (t_psel t) x); [reflexivity|discriminate]. }
  assert (Sl : selT t2 = selT t) by (unfold selT; rewrite Hnb; exact F3).
  assert (Hc : length (pp_bits (pp_boxes (t_pp t)) (keptT t)) = pp_cod (t_pp t)) by (rewrite I6; exact I8).
  destruct (pp_add_bits_run n (t_pp t) off (t_pp t2) (keptT t) PZero Hpp I5 I4 Hc) as [J1 [J2 [J3 [J4 J5]]]].
  rewrite I6 in J1.
  constructor; rewrite ?K, ?Sl; cbn [d_bits d_nev d_constr]; try assumption.
  - rewrite Hnb, Hcmds. apply (cmds_bits_ok_map_b sh (t_nb t)); auto.
    intros r Hr. unfold sh, shift_from. destruct (start <=? r); lia.
  - intros k Hk. rewrite Hpsel. apply ps_rename_none.
    + apply I2. lia.
    + intros on Hin. unfold shift_renaming in Hin. apply in_map_iff in Hin. destruct Hin as [i [<- Hi]].
      apply in_seq in Hi. cbn [snd]. lia.
  - rewrite Hcmds, map_length. exact I3.
  - rewrite app_length, rep_length, I4, J3. reflexivity.
  - rewrite !app_length, rep_length, J4, <- I8.
    rewrite <- (firstn_skipn off (d_bits ds)) at 3. rewrite app_length. lia.
  - rewrite prep_regs_length, !app_length, rep_length, I9.
    rewrite <- (firstn_skipn off (d_bits ds)) at 1. rewrite app_length. lia.
  - unfold prep_regs. rewrite Hnb. apply Forall_app. split; [|apply Forall_app; split].
    + apply my_Forall_firstn. eapply Forall_impl; [|exact I10]. simpl; intros; lia.
    + apply Forall_forall. intros x Hx. apply in_seq in Hx. lia.
    + apply Forall_forall. intros x Hx. apply in_map_iff in Hx. destruct Hx as [y [<- Hy]].
      apply my_In_skipn in Hy. rewrite Forall_forall in I10. specialize (I10 y Hy). lia.
  - intros Eb. specialize (I11 (J5 Eb)).
    unfold idxT. rewrite Hnb, F4. unfold prep_regs.
    assert (Hincr : incr 0 bits (t_nb t)).
    { rewrite I11. unfold idxT, idxF. apply (incr_filter_seq _ (t_nb t) 0). }
    destruct (prep_start_split _ _ _ _ Es Hincr) as [Hlt [Hge _]].
    assert (Hsp : firstn off bits ++ skipn off bits =
                  filter (fun i => is_none (selS t i)) (seq 0 start) ++
                  filter (fun i => is_none (selS t i)) (seq start (t_nb t - start))).
    { rewrite firstn_skipn, I11. exact F5. }
    apply (split_unique (fun x => x < start)) in Hsp; auto.
    + destruct Hsp as [-> ->]. reflexivity.
    + eapply Forall_impl; [|exact Hge]. simpl; intros; lia.
    + apply Forall_forall. intros x Hx. apply filter_In in Hx. destruct Hx as [Hx _]. apply in_seq in Hx. lia.
    + apply Forall_forall. intros x Hx. apply filter_In in Hx. destruct Hx as [Hx _]. apply in_seq in Hx. lia.
Qed.

(* ---- the trigger predicates: flags only ever go up ---- *)
From Coq Require Import Btauto.
Definition fl_or (f g : flags) : flags :=
  FL (fl_f10 f || fl_f10 g) (fl_f30 f || fl_f30 g) (fl_f31 f || fl_f31 g) (fl_f32 f || fl_f32 g)
     (fl_f34 f || fl_f34 g) (fl_over f || fl_over g) (fl_arity f || fl_arity g).
Definition quiet (fx : fixes) (scan : list wty) (s : st) (l : layer) : bool :=
  no_trigger (flags_step fx scan s fl0 l).

Lemma flags_step_or : forall fx scan s f l,
  flags_step fx scan s f l = fl_or f (flags_step fx scan s fl0 l).
Proof.
  intros fx scan s f [b off]. destruct f as [a1 a2 a3 a4 a5 a6 a7].
  unfold flags_step, fl_or, fl0.
  destruct b; cbn [fl_f10 fl_f30 fl_f31 fl_f32 fl_f34 fl_over fl_arity];
    repeat match goal with
           | |- context [match ?x with _ => _ end] => destruct x
           end;
    cbn [fl_f10 fl_f30 fl_f31 fl_f32 fl_f34 fl_over fl_arity orb];
    rewrite ?orb_true_r, ?orb_false_r; reflexivity.
Qed.
Lemma no_trigger_or : forall f g, no_trigger (fl_or f g) = no_trigger f && no_trigger g.
Proof.
  intros [a1 a2 a3 a4 a5 a6 a7] [b1 b2 b3 b4 b5 b6 b7]. unfold no_trigger, fl_or.
  cbn [fl_f10 fl_f30 fl_f31 fl_f32 fl_f34 fl_over fl_arity]. btauto.
Qed.
Lemma flags_step_mono : forall fx scan s f l,
  no_trigger (flags_step fx scan s f l) = true -> no_trigger f = true /\ quiet fx scan s l = true.
Proof.
  intros fx scan s f l H. rewrite flags_step_or, no_trigger_or in H. apply andb_prop in H. exact H.
Qed.
Lemma flags_layers_mono : forall ls fx scan s f,
  no_trigger (flags_layers fx scan s f ls) = true -> no_trigger f = true.
Proof.
  induction ls as [|l ls IH]; intros fx scan s f H; [exact H|].
  cbn [flags_layers] in H. destruct (to_tk_step fx scan s l) as [s'|].
  - apply IH in H. apply flags_step_mono in H. tauto.
  - apply flags_step_mono in H. tauto.
Qed.

(* ---- one layer ---- *)
Definition ket_free_layer (l : layer) : bool :=
  match fst l with BKet bs => negb (existsb (fun x => x) bs) | _ => true end.
Definition ket_free (ls : list layer) : bool := forallb ket_free_layer ls.

Lemma remove_range_0 : forall {A} (l : list A) i, remove_range l i 0 = l.
Proof. intros. unfold remove_range. rewrite Nat.add_0_r. apply firstn_skipn. Qed.
Lemma remove_range_length_eq : forall {A B} (l : list A) (l' : list B) i n,
  length l = length l' -> length (remove_range l i n) = length (remove_range l' i n).
Proof. intros A B l l' i n H. unfold remove_range. rewrite !app_length, !firstn_length, !skipn_length. lia. Qed.
Lemma filter_id_nil : forall bs, existsb (fun x : bool => x) bs = false -> filter (fun x : bool => x) bs = [].
Proof. induction bs as [|b bs IH]; simpl; auto. destruct b; simpl; [discriminate|auto]. Qed.
Lemma gate_param_not_measure : forall g ph par, gate_param g ph = Ok par -> (g =? op_Measure)%Z = false.
Proof.
  intros g ph par H. unfold gate_param in H. destruct (Z.eqb_spec g op_Measure) as [->|]; auto.
  vm_compute in H. discriminate.
Qed.
Lemma bpart_map_q : forall f cs, map bpart (map (map_q f) cs) = map bpart cs.
Proof. intros. rewrite map_map. apply map_ext. intros c. reflexivity. Qed.

Lemma no_trigger_fl0 : no_trigger fl0 = true.
Proof. reflexivity. Qed.

Lemma step_routing : forall fx scan s ds l s',
  BInv (s_tk s) (s_bits s) ds -> to_tk_step fx scan s l = Ok s' ->
  quiet fx scan s l = true -> ket_free_layer l = true ->
  BInv (s_tk s') (s_bits s') (dsem_step scan ds l).
Proof.
  intros fx scan s ds [b off] s' I H Hq Hk. unfold quiet, flags_step in Hq. unfold to_tk_step in H.
  unfold dsem_step.
  set (qoff := countq (firstn off scan)) in *. set (boff := countb (firstn off scan)) in *.
  destruct b as [bs|bs|bs dag|g n ph|wl wr|n destr over|d|id mixed|id n m|id d c].
  - (* Ket *)
    cbn [ket_free_layer fst] in Hk. apply negb_true_iff in Hk. rewrite (filter_id_nil _ Hk).
    cbn [length]. rewrite Nat.add_0_r, <- (ds_eta ds).
    unfold prepare_qubits in H.
    destruct (prep_start (s_qubits s) (t_nq (s_tk s)) qoff); cbn [bind] in H; [|discriminate].
    inversion H; subst s'. cbn [s_tk s_bits].
    eapply BInv_view; [exact I | reflexivity | apply bpart_map_q | reflexivity | reflexivity].
  - (* Bra *)
    destruct (measure_loop fx (s_tk s) (s_bits s) (s_qubits s) (Some bs) boff qoff 0 (length bs))
      as [[t' bits']|] eqn:E; cbn [bind] in H; [|discriminate].
    inversion H; subst s'. cbn [s_tk s_bits fst snd].
    destruct (measure_loop_bra_routing _ _ _ _ _ _ _ _ _ _ _ _ I E) as [-> I'].
    cbn [skipn] in I'. rewrite firstn_all in I'. exact I'.
  - destruct dag.
    + (* Bits dagger *)
      destruct (pp_post_process (t_pp (s_tk s)) boff (PBitsDag bs)) as [p|] eqn:E; cbn [bind] in H; [|discriminate].
      inversion H; subst s'. cbn [s_tk s_bits].
      assert (Hbs : bs = []).
      { destruct bs; auto. cbn [length Nat.ltb Nat.leb] in Hq. discriminate. }
      subst bs. cbn [length firstn combine]. rewrite app_nil_r.
      apply (BInv_pp (s_tk s) (s_bits s) ds boff (PBitsDag []) p (s_bits s) I E); [reflexivity| |apply (bi_bound _ _ _ I)].
      change (pp_step_bits (d_bits ds) (PBitsDag [], boff)) with (remove_range (d_bits ds) boff 0).
      rewrite remove_range_0. apply (bi_blen _ _ _ I).
    + (* Bits *)
      destruct (existsb (fun x => x) bs); [discriminate|].
      unfold replace_range. rewrite Nat.add_0_r.
      assert (Es : s = ST (s_tk s) (s_bits s) (s_qubits s)) by (destruct s; reflexivity).
      rewrite Es in H. apply (BInv_prepare_bits _ _ _ _ _ _ _ I H).
      destruct (prep_start (s_bits s) (t_nb (s_tk s)) boff) as [start|] eqn:Ep.
      * destruct (Nat.ltb_spec 0 (length bs)) as [Hpos|Hz]; [|left; lia].
        right. intros start' Hs' r Hr1 Hr2. inversion Hs'; subst start'.
        cbn [andb] in Hq.
        match type of Hq with context [existsb ?f ?l] => destruct (existsb f l) eqn:Ex end; [discriminate|].
        assert (Hin : In r (seq 0 (t_nb (s_tk s)))) by (apply in_seq; lia).
        destruct (has_key (t_psel (s_tk s)) r) eqn:Hkey; auto.
        exfalso. assert (Ht : existsb (fun r0 => (start <=? r0) && negb (has_key (t_psel (s_tk s)) r0))
                                     (seq 0 (t_nb (s_tk s))) = true); [|congruence].
        apply existsb_exists. exists r. split; auto. rewrite Hkey.
        destruct (Nat.leb_spec start r); [reflexivity|lia].
      * right. intros start' Hs'. discriminate.
  - (* Gate *)
    destruct (index_range (s_qubits s) qoff n) as [iqs|]; cbn [bind] in H; [|discriminate].
    destruct (gate_param g ph) as [par|] eqn:Ep; cbn [bind] in H; [|discriminate].
    inversion H; subst s'. cbn [s_tk s_bits].
    apply BInv_gate; auto. cbn [c_op]. eapply gate_param_not_measure; eauto.
  - (* Swap *)
    destruct wl, wr.
    + (* bit bit *)
      destruct (pp_boxes (t_pp (s_tk s))) as [|pb pbs] eqn:Eb.
      * unfold nth_res in H.
        destruct (nth_error (s_bits s) boff) as [i|] eqn:Ei; cbn [bind] in H; [|discriminate].
        destruct (nth_error (s_bits s) (S boff)) as [j|] eqn:Ej; cbn [bind] in H; [|discriminate].
        inversion H; subst s'. cbn [s_tk s_bits].
        assert (Hlen : boff + 2 <= length (d_bits ds)).
        { rewrite <- (bi_blen _ _ _ I). assert (S boff < length (s_bits s)) by (apply nth_error_Some; congruence). lia. }
        destruct (skipn_two (d_bits ds) boff Hlen) as [a [b' [rest E]]]. rewrite E.
        assert (Esw : firstn boff (d_bits ds) ++ b' :: a :: rest = swap_at boff (d_bits ds))
          by (unfold swap_at; rewrite E; reflexivity).
        rewrite Esw. apply (BInv_swap_bits fx (s_tk s) (s_bits s) ds boff i j I Eb Ei Ej).
        destruct (fx32 fx); [left; reflexivity|]. right. cbn [negb andb] in Hq.
        destruct (has_key (t_psel (s_tk s)) 0); [discriminate|reflexivity].
      * destruct (pp_post_process (t_pp (s_tk s)) boff PSwap) as [p|] eqn:E; cbn [bind] in H; [|discriminate].
        inversion H; subst s'. cbn [s_tk s_bits].
        destruct (pp_post_process_spec _ _ _ _ E) as [P1 _]. cbn [pbox_dom] in P1.
        rewrite <- (bi_cod _ _ _ I) in P1.
        assert (Ed : match skipn boff (d_bits ds) with
                     | a :: b' :: rest => DS (firstn boff (d_bits ds) ++ b' :: a :: rest) (d_nev ds) (d_constr ds)
                     | _ => DS [PBad] (d_nev ds) (d_constr ds)
                     end = DS (pp_step_bits (d_bits ds) (PSwap, boff)) (d_nev ds) (d_constr ds)).
        { unfold pp_step_bits. cbn [pp_step]. destruct (skipn boff (d_bits ds)) as [|a [|b' rest]]; reflexivity. }
        rewrite Ed.
        apply (BInv_pp (s_tk s) (s_bits s) ds boff PSwap p (s_bits s) I E); [exact Logic.I| |apply (bi_bound _ _ _ I)].
        rewrite pp_step_bits_length by (cbn [pbox_dom]; auto; exact Logic.I).
        cbn [pbox_dom pbox_cod]. rewrite (bi_blen _ _ _ I). lia.
    + inversion H; subst s'. exact I.
    + inversion H; subst s'. exact I.
    + unfold nth_res in H.
      destruct (nth_error (s_qubits s) qoff) as [i|]; cbn [bind] in H; [|discriminate].
      destruct (nth_error (s_qubits s) (S qoff)) as [j|]; cbn [bind] in H; [|discriminate].
      inversion H; subst s'. cbn [s_tk s_bits].
      eapply BInv_view; [exact I | reflexivity | apply bpart_map_q | reflexivity | reflexivity].
  - (* Measure *)
    destruct over.
    + destruct (measure_override (s_tk s) (s_bits s) (s_qubits s) boff qoff 0 n) as [t'|] eqn:E;
        cbn [bind] in H; [|discriminate].
      inversion H; subst s'. cbn [s_tk s_bits].
      assert (Hb : 0 < n -> pp_boxes (t_pp (s_tk s)) = []).
      { intros Hn. unfold no_trigger in Hq. cbn [fl0 fl_f10 fl_f30 fl_f31 fl_f32 fl_f34 fl_over fl_arity orb] in Hq.
        destruct (pp_boxes (t_pp (s_tk s))); auto.
        destruct (Nat.ltb_spec 0 n); [|lia]. cbn [andb] in Hq. rewrite orb_true_r in Hq. discriminate. }
      pose proof (measure_override_routing _ _ _ _ _ _ _ _ _ I Hb E) as I'.
      rewrite Nat.add_0_r in I'. exact I'.
    + destruct (measure_loop fx (s_tk s) (s_bits s) (s_qubits s) None boff qoff 0 n) as [[t' bits']|] eqn:E;
        cbn [bind] in H; [|discriminate].
      inversion H; subst s'. cbn [s_tk s_bits fst snd].
      assert (Hc : 0 < n -> fx10 fx = true \/ length (s_bits s) <= boff + 0).
      { intros Hn. destruct (fx10 fx); [left; reflexivity|]. right.
        destruct (Nat.ltb_spec 0 n); [|lia]. cbn [negb andb] in Hq.
        destruct (Nat.ltb_spec boff (length (s_bits s))); [discriminate|lia]. }
      pose proof (measure_loop_none_routing _ _ _ _ _ _ _ _ _ _ _ I Hc E) as I'.
      rewrite Nat.add_0_r in I'. unfold replace_range. rewrite Nat.add_0_r. exact I'.
  - (* Discard *)
    destruct (fx31 fx && (0 <? countb d)) eqn:Ec.
    + destruct (pp_post_process (t_pp (s_tk s)) boff (PClass discard_id (countb d) 0)) as [p|] eqn:E;
        cbn [bind] in H; [|discriminate].
      inversion H; subst s'. cbn [s_tk s_bits].
      change (remove_range (d_bits ds) boff (countb d))
        with (pp_step_bits (d_bits ds) (PClass discard_id (countb d) 0, boff)).
      apply (BInv_pp (s_tk s) (s_bits s) ds boff _ p _ I E); [exact Logic.I| |].
      * change (pp_step_bits (d_bits ds) (PClass discard_id (countb d) 0, boff))
          with (remove_range (d_bits ds) boff (countb d)).
        apply remove_range_length_eq. apply (bi_blen _ _ _ I).
      * apply Forall_remove_range. apply (bi_bound _ _ _ I).
    + cbn [bind] in H. inversion H; subst s'. cbn [s_tk s_bits].
      assert (Hz : countb d = 0).
      { destruct (Nat.ltb_spec 0 (countb d)) as [Hpos|]; [|lia]. rewrite andb_true_r in Ec. rewrite Ec in Hq.
        cbn [negb andb] in Hq. discriminate. }
      rewrite Hz, !remove_range_0. rewrite <- (ds_eta ds).
      eapply BInv_view; [exact I | reflexivity | reflexivity | reflexivity | reflexivity].
  - (* Scalar *)
    inversion H; subst s'. cbn [s_tk s_bits].
    eapply BInv_view; [exact I | reflexivity | reflexivity | reflexivity | reflexivity].
  - (* Classical *)
    destruct (pp_post_process (t_pp (s_tk s)) boff (PClass id n m)) as [p|] eqn:E; cbn [bind] in H; [|discriminate].
    inversion H; subst s'. cbn [s_tk s_bits].
    assert (Hnm : n = m).
    { destruct (Nat.eqb_spec n m); auto. discriminate. }
    subst m.
    destruct (pp_post_process_spec _ _ _ _ E) as [P1 _]. cbn [pbox_dom] in P1. rewrite <- (bi_cod _ _ _ I) in P1.
    change (replace_range (d_bits ds) boff n (app_outputs id (firstn n (skipn boff (d_bits ds))) n))
      with (pp_step_bits (d_bits ds) (PClass id n n, boff)).
    apply (BInv_pp (s_tk s) (s_bits s) ds boff _ p (s_bits s) I E); [exact Logic.I| |apply (bi_bound _ _ _ I)].
    rewrite pp_step_bits_length by (cbn [pbox_dom]; auto; exact Logic.I).
    cbn [pbox_dom pbox_cod]. rewrite (bi_blen _ _ _ I). lia.
  - discriminate.
Qed.

(* ---- all layers ---- *)
Lemma layers_routing : forall ls fx scan s ds f s',
  BInv (s_tk s) (s_bits s) ds -> ket_free ls = true ->
  to_tk_layers fx scan s ls = Ok s' ->
  no_trigger (flags_layers fx scan s f ls) = true ->
  BInv (s_tk s') (s_bits s') (dsem_layers scan ds ls).
Proof.
  induction ls as [|l ls IH]; intros fx scan s ds f s' I Hk H Hf.
  - cbn [to_tk_layers] in H. inversion H; subst. exact I.
  - cbn [ket_free forallb] in Hk. apply andb_prop in Hk. destruct Hk as [Hk1 Hk2].
    cbn [to_tk_layers] in H. cbn [flags_layers] in Hf.
    destruct (to_tk_step fx scan s l) as [s1|] eqn:E; cbn [bind] in H; [|discriminate].
    pose proof (flags_layers_mono _ _ _ _ _ Hf) as Hf1. apply flags_step_mono in Hf1. destruct Hf1 as [_ Hq].
    cbn [dsem_layers]. eapply IH; [| exact Hk2 | exact H | exact Hf].
    eapply step_routing; eauto.
Qed.

Lemma BInv_init : BInv tk_empty [] (DS [] 0 []).
Proof.
  constructor; cbn; auto.
Qed.

(* prep leaves no Ket(1) *)
Lemma existsb_rep_false : forall n, existsb (fun x : bool => x) (rep n false) = false.
Proof. induction n; simpl; auto. Qed.
Lemma ket_free_x_layers : forall bs off, ket_free (x_layers bs off) = true.
Proof. induction bs as [|b bs IH]; intros off; simpl; auto. destruct b; simpl; auto. Qed.
Lemma ket_free_app : forall a b, ket_free (a ++ b) = ket_free a && ket_free b.
Proof. intros. apply forallb_app. Qed.
Lemma ket_free_remove_ket1 : forall ls, ket_free (flat_map remove_ket1_layer ls) = true.
Proof.
  induction ls as [|[b off] ls IH]; [reflexivity|].
  cbn [flat_map]. rewrite ket_free_app, IH, andb_true_r.
  destruct b; try reflexivity.
  cbn [remove_ket1_layer]. change (ket_free ((BKet (rep (length bs) false), off) :: x_layers bs off))
    with (negb (existsb (fun x => x) (rep (length bs) false)) && ket_free (x_layers bs off)).
  rewrite existsb_rep_false, ket_free_x_layers. reflexivity.
Qed.

(* ---- reflexivity of the comparison of provenances ---- *)
Fixpoint prov_eqb_refl (p : prov) : prov_eqb p p = true.
Proof.
  destruct p as [|k|id args k|]; cbn [prov_eqb].
  - reflexivity.
  - apply Nat.eqb_refl.
  - rewrite Z.eqb_refl, Nat.eqb_refl. cbn [andb].
    induction args as [|a args IHa]; [reflexivity|]. rewrite prov_eqb_refl. exact IHa.
  - reflexivity.
Qed.
Lemma list_prov_eqb_refl : forall l, list_eqb prov_eqb l l = true.
Proof. induction l as [|a l IH]; simpl; auto. rewrite prov_eqb_refl. exact IH. Qed.
Lemma constr_eqb_refl : forall c, constr_eqb c c = true.
Proof. intros [p v]. unfold constr_eqb. cbn [fst snd]. rewrite prov_eqb_refl. destruct v; reflexivity. Qed.
Lemma multiset_eqb_refl : forall l, multiset_eqb l l = true.
Proof. induction l as [|c l IH]; [reflexivity|]. cbn [multiset_eqb remove_first]. rewrite constr_eqb_refl. exact IH. Qed.
Lemma sem_eqb_refl : forall x, sem_eqb x x = true.
Proof. intros [a b]. unfold sem_eqb. cbn [fst snd]. rewrite list_prov_eqb_refl, multiset_eqb_refl. reflexivity. Qed.

(* ---- the routing theorem ---- *)
Theorem to_tk_routing_layers : forall fx dom ls s',
  ket_free ls = true -> to_tk_layers fx dom st0 ls = Ok s' ->
  no_trigger (flags_layers fx dom st0 fl0 ls) = true ->
  tsem (s_tk s') = (d_bits (dsem_layers dom (DS [] 0 []) ls), d_constr (dsem_layers dom (DS [] 0 []) ls)).
Proof.
  intros fx dom ls s' Hk H Hf.
  pose proof (layers_routing ls fx dom st0 (DS [] 0 []) fl0 s' BInv_init Hk H Hf) as I.
  destruct I as [I1 I2 I3 I4 I5 I6 I7 I8 I9 I10 I11].
  rewrite (tsem_F _ I1). rewrite I4, Nat.eqb_refl. cbn [negb].
  rewrite (pp_run_good _ _ _ _ I5). rewrite I6, I7. reflexivity.
Qed.

(* Outside the trigger predicates of the known defects (F30, F36 = arity change, F37 = override
   after post-processing, and those of the repairs that are switched off), every output bit and
   every post-selection constraint of the exported circuit has the provenance the circuit gives
   it.  For EVERY setting of the switches; no typing hypothesis is needed. *)
Theorem to_tk_routing_trigger_free_any : forall fx c t,
  to_tk fx c = Ok t -> no_trigger (to_tk_flags fx c) = true -> routing_ok c t = true.
Proof.
  intros fx c t H Hf. unfold to_tk in H.
  destruct (to_tk_state fx c) as [s|] eqn:E; cbn [bind] in H; [|discriminate].
  inversion H; subst t. unfold to_tk_state in E. unfold to_tk_flags in Hf.
  unfold routing_ok, dsem.
  rewrite (to_tk_routing_layers fx (c_dom (prep c)) (c_layers (prep c)) s); auto.
  - apply sem_eqb_refl.
  - unfold prep, remove_ket1. cbn [c_layers]. apply ket_free_remove_ket1.
Qed.

Theorem to_tk_routing_trigger_free : forall fx, to_tk_routing_trigger_free_stmt fx.
Proof. intros fx c t _ H Hf. eapply to_tk_routing_trigger_free_any; eauto. Qed.

(* non-vacuity: trigger-free circuits with mid-circuit measurements inserted to the left of a
   bit, a bit swap by renaming, an overriding measurement before any post-processing, a
   classical gate, a post-selection, a discarded bit; bits prepared at the right end *)
Definition routing_example : circuit :=
  Circ [] [(BKet [false; true; false], 0); (BGate 1 1 (Dy 0 0), 0);
           (BMeasure 1 true false, 2);                 (* q q b *)
           (BSwap WQubit WBit, 1);                      (* q b q *)
           (BSwap WBit WQubit, 1);                      (* q q b *)
           (BMeasure 1 false false, 1);                 (* q q b b : inserted left of a bit *)
           (BSwap WBit WBit, 2);
           (BClassical 21 2 2, 2);
           (BBra [true], 0);                            (* q b b *)
           (BDiscard [WBit], 1);                        (* q b *)
           (BMeasure 1 true false, 0)].                 (* b b *)
Definition routing_example_A : circuit :=
  Circ [] [(BKet [false; false], 0); (BMeasure 1 false false, 1);     (* q q b *)
           (BBits [false] false, 3);                                  (* q q b b *)
           (BSwap WBit WBit, 2);
           (BMeasure 1 true true, 1);                                 (* q b b : overrides wire 0 *)
           (BBra [false], 0)].
Example routing_examples :
  (exists t, to_tk repaired routing_example = Ok t /\ no_trigger (to_tk_flags repaired routing_example) = true /\
             circuit_ok (prep routing_example) = true /\ Nat.ltb 2 (length (pp_boxes (t_pp t))) = true) /\
  (exists t, to_tk repaired routing_example_A = Ok t /\ no_trigger (to_tk_flags repaired routing_example_A) = true /\
             circuit_ok (prep routing_example_A) = true /\ pp_boxes (t_pp t) = []) /\
  (exists t, to_tk pinned example_circuit = Ok t /\ no_trigger (to_tk_flags pinned example_circuit) = true).
Proof.
  vm_compute. split; [|split]; eexists; repeat split.
Qed.
