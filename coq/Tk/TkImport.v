(* Bit routing of from_tk (import) for the tket translation model coq/Tk/Tk.v:
   every bit wire of the imported circuit and every Bra carries the outcome of the tket
   Measure that writes that bit -- with the F18 repair (fx18 = true), outside the trigger
   predicates of F41 (a post-selected Measure followed by a command on the same qubit) and
   F42 (a post-selected bit written by more than one Measure).
   Proofs only; model in Tk.v, earlier lemmas in TkLemmas.v and TkRouting.v. *)
From Coq Require Import List ZArith Bool Lia Arith Permutation.
Import ListNotations.
Require Import DV.Common.Base DV.Tk.Tk DV.Tk.TkLemmas DV.Tk.TkRouting.
Open Scope nat_scope.

(* ================================================================== dsem through swaps *)
Lemma dsem_layers_app : forall a scan s b,
  dsem_layers scan s (a ++ b) = dsem_layers (cod_of scan a) (dsem_layers scan s a) b.
Proof.
  induction a as [|l a IH]; intros scan s b; [reflexivity|].
  cbn [app dsem_layers]. rewrite cod_of_cons. apply IH.
Qed.

Definition not_bb (x : wty * wty * nat) : Prop := fst (fst x) = WQubit \/ snd (fst x) = WQubit.
Lemma dsem_nonbb_swaps : forall sw scan s, Forall not_bb sw -> dsem_layers scan s (swaps_layers sw) = s.
Proof.
  induction sw as [|[[a b] k] sw IH]; intros scan s H; [reflexivity|].
  inversion H as [|? ? Hx Hr]; subst. unfold not_bb in Hx. cbn [fst snd] in Hx.
  change (swaps_layers ((a, b, k) :: sw)) with ((BSwap a b, k) :: swaps_layers sw).
  cbn [dsem_layers].
  assert (E : dsem_step scan s (BSwap a b, k) = s).
  { destruct a, b; try reflexivity. destruct Hx; discriminate. }
  rewrite E. apply IH. exact Hr.
Qed.
Lemma qq_not_bb : forall m sw, qq_swaps m sw -> Forall not_bb sw.
Proof.
  intros m sw H. unfold qq_swaps in H. eapply Forall_impl; [|exact H].
  intros x [H1 _]. left. exact H1.
Qed.

Lemma countb_app : forall a b, countb (a ++ b) = countb a + countb b.
Proof. intros. unfold countb. rewrite filter_app, app_length. reflexivity. Qed.
Lemma countb_rep_q : forall n, countb (rep n WQubit) = 0.
Proof. induction n; auto. Qed.
Lemma countb_rep_b : forall n, countb (rep n WBit) = n.
Proof. induction n; auto. unfold countb in *. rewrite rep_S. cbn [filter is_b length]. f_equal. exact IHn. Qed.

(* Diagram.swap(left, bit): the bit travels to the left through `left`; the circuit's bit
   wires (d_bits) follow: the entry of that bit passes the entries of the bits of `left` *)
Lemma dsem_swaps_fwd : forall left pre post A M x Z nev cs d,
  length pre = d -> length A = countb pre -> length M = countb left ->
  dsem_layers (pre ++ left ++ WBit :: post) (DS (A ++ M ++ x :: Z) nev cs)
              (swaps_layers (shift_swaps d (swap_boxes left [WBit]))) =
  DS (A ++ x :: M ++ Z) nev cs.
Proof.
  induction left as [|l0 ls IH]; intros pre post A M x Z nev cs d Hp HA HM.
  - destruct M; [reflexivity|discriminate].
  - cbn [swap_boxes swap1]. rewrite shift_swaps_app, swaps_layers_app, shift_swaps_S, dsem_layers_app.
    change (swaps_layers (shift_swaps d [(l0, WBit, 0)])) with [(BSwap l0 WBit, d + 0)].
    rewrite Nat.add_0_r.
    change (pre ++ (l0 :: ls) ++ WBit :: post) with (pre ++ l0 :: ls ++ WBit :: post).
    assert (Hscan : pre ++ l0 :: ls ++ WBit :: post = (pre ++ [l0]) ++ ls ++ [WBit] ++ post)
      by (rewrite <- app_assoc; reflexivity).
    rewrite Hscan.
    destruct (swap_boxes_ok ls [WBit] (pre ++ [l0]) post (S d)) as [_ C].
    { rewrite app_length. cbn [length]. lia. }
    rewrite C.
    assert (Hpre : firstn d ((pre ++ [l0]) ++ [WBit] ++ ls ++ post) = pre).
    { rewrite <- app_assoc. apply firstn_exact. exact Hp. }
    destruct l0.
    + (* a bit of `left` *)
      assert (HM' : length M = S (countb ls)) by (rewrite HM; reflexivity).
      destruct M as [|m0 M']; [discriminate|]. cbn [length] in HM'.
      assert (E : A ++ (m0 :: M') ++ x :: Z = (A ++ [m0]) ++ M' ++ x :: Z) by (rewrite <- app_assoc; reflexivity).
      rewrite E. change ([WBit] ++ post) with (WBit :: post).
      rewrite (IH (pre ++ [WBit]) post (A ++ [m0]) M' x Z nev cs (S d)).
      * cbn [dsem_layers]. unfold dsem_step. cbn [d_bits d_nev d_constr].
        change (WBit :: post) with ([WBit] ++ post) in Hpre. rewrite Hpre, <- HA.
        rewrite <- app_assoc. rewrite (skipn_exact0 A) by reflexivity. cbn [app].
        rewrite firstn_len_app. reflexivity.
      * rewrite app_length. cbn [length]. lia.
      * rewrite app_length, countb_app, HA. reflexivity.
      * lia.
    + (* a qubit of `left` *)
      change ([WBit] ++ post) with (WBit :: post).
      rewrite (IH (pre ++ [WQubit]) post A M x Z nev cs (S d)).
      * reflexivity.
      * rewrite app_length. cbn [length]. lia.
      * rewrite countb_app, HA. cbn. lia.
      * rewrite HM. reflexivity.
Qed.

Lemma dagger_swaps_app : forall a b, dagger_swaps (a ++ b) = dagger_swaps b ++ dagger_swaps a.
Proof. intros. unfold dagger_swaps. rewrite rev_app_distr, map_app. reflexivity. Qed.

(* ... and back *)
Lemma dsem_swaps_bwd : forall left pre post A M x Z nev cs d,
  length pre = d -> length A = countb pre -> length M = countb left ->
  dsem_layers (pre ++ WBit :: left ++ post) (DS (A ++ x :: M ++ Z) nev cs)
              (swaps_layers (dagger_swaps (shift_swaps d (swap_boxes left [WBit])))) =
  DS (A ++ M ++ x :: Z) nev cs.
Proof.
  induction left as [|l0 ls IH]; intros pre post A M x Z nev cs d Hp HA HM.
  - destruct M; [reflexivity|discriminate].
  - cbn [swap_boxes swap1]. rewrite shift_swaps_app, shift_swaps_S, dagger_swaps_app, swaps_layers_app.
    change (swaps_layers (dagger_swaps (shift_swaps d [(l0, WBit, 0)]))) with [(BSwap WBit l0, d + 0)].
    rewrite Nat.add_0_r. cbn [app dsem_layers].
    assert (Hpre : firstn d (pre ++ WBit :: l0 :: ls ++ post) = pre) by (apply firstn_exact; exact Hp).
    assert (Hstep : step_ty (pre ++ WBit :: l0 :: ls ++ post) (BSwap WBit l0, d) =
                    (pre ++ [l0]) ++ WBit :: ls ++ post).
    { rewrite <- Hp. destruct (swap_layer_ok pre WBit l0 (ls ++ post)) as [_ E].
      rewrite E. rewrite <- app_assoc. reflexivity. }
    rewrite Hstep.
    destruct l0.
    + assert (HM' : length M = S (countb ls)) by (rewrite HM; reflexivity).
      destruct M as [|m0 M']; [discriminate|]. cbn [length] in HM'.
      assert (Es : dsem_step (pre ++ WBit :: WBit :: ls ++ post) (DS (A ++ x :: (m0 :: M') ++ Z) nev cs)
                             (BSwap WBit WBit, d) = DS ((A ++ [m0]) ++ x :: M' ++ Z) nev cs).
      { unfold dsem_step. cbn [d_bits d_nev d_constr]. rewrite Hpre, <- HA.
        rewrite (skipn_exact0 A) by reflexivity. cbn [app]. rewrite firstn_len_app.
        rewrite <- app_assoc. reflexivity. }
      rewrite Es.
      rewrite (IH (pre ++ [WBit]) post (A ++ [m0]) M' x Z nev cs (S d)).
      * rewrite <- app_assoc. reflexivity.
      * rewrite app_length. cbn [length]. lia.
      * rewrite app_length, countb_app, HA. reflexivity.
      * lia.
    + assert (Es : dsem_step (pre ++ WBit :: WQubit :: ls ++ post) (DS (A ++ x :: M ++ Z) nev cs)
                             (BSwap WBit WQubit, d) = DS (A ++ x :: M ++ Z) nev cs) by reflexivity.
      rewrite Es.
      rewrite (IH (pre ++ [WQubit]) post A M x Z nev cs (S d)).
      * reflexivity.
      * rewrite app_length. cbn [length]. lia.
      * rewrite countb_app, HA. cbn. lia.
      * rewrite HM. reflexivity.
Qed.

(* ================================================================== the tket side, numbered by events *)
(* The imported circuit skips post-selected measurements and appends them as Bras at the end,
   in qubit order.  Event numbers of the imported circuit: the commands that are not
   post-selected measurements, in order (0 .. N-1), then the post-selected measurements by
   increasing qubit (N + rank of the qubit).  tsem_ev is tsem with the commands numbered so. *)
Definition is_meas (c : cmd) : bool := (c_op c =? op_Measure)%Z.
Definition bof (c : cmd) : nat := hd 0 (c_bs c).
Definition qof (c : cmd) : nat := hd 0 (c_qs c).
Definition is_psm (psel : list (nat * bool)) (c : cmd) : bool :=
  is_meas c && match c_bs c with b :: _ => has_key psel b | [] => false end.

Definition ev_state := (nat * (nat -> prov))%type.
Definition ev_step (psel : list (nat * bool)) (N : nat) (rank : nat -> nat) (st : ev_state) (c : cmd) : ev_state :=
  if is_psm psel c
  then (fst st, fun i => if writes c i then PMeas (N + rank (qof c)) else snd st i)
  else (S (fst st), fun i => if writes c i then PMeas (fst st) else snd st i).
Definition rankq (bras : list (nat * bool)) (q : nat) : nat := length (filter (has_key bras) (seq 0 q)).
Definition n_live (psel : list (nat * bool)) (cs : list cmd) : nat :=
  length (filter (fun c => negb (is_psm psel c)) cs).
Definition ev_run (t : tkc) : ev_state :=
  fold_left (ev_step (t_psel t) (n_live (t_psel t) (t_cmds t)) (rankq (bras_of (t_psel t) (t_cmds t) [])))
            (t_cmds t) (0, fun _ => PZero).
Definition tsem_ev (t : tkc) : list prov * list constr :=
  let R := snd (ev_run t) in
  let kept := keptF (t_nb t) R (selS t) in
  let sel := selF (t_nb t) R (selS t) in
  if negb (Nat.eqb (length kept) (pp_dom (t_pp t))) then ([PBad], sel)
  else fold_left pp_step (pp_boxes (t_pp t)) (kept, sel).

(* well-formedness and the two trigger predicates, as booleans *)
Definition psel_ok (nb : nat) (psel : list (nat * bool)) : bool :=
  nodupb (map fst psel) && forallb (fun kv => fst kv <? nb) psel.
Fixpoint f41_trig (psel : list (nat * bool)) (cs : list cmd) : bool :=
  match cs with
  | [] => false
  | c :: cs' => (is_psm psel c && existsb (fun c' => existsb (Nat.eqb (qof c)) (c_qs c')) cs') || f41_trig psel cs'
  end.
Fixpoint f42_trig (psel : list (nat * bool)) (cs : list cmd) : bool :=
  match cs with
  | [] => false
  | c :: cs' => (is_psm psel c && existsb (fun c' => is_meas c' && Nat.eqb (bof c') (bof c)) cs') || f42_trig psel cs'
  end.
(* every post-selected bit is written by some Measure *)
Definition no_dangling (psel : list (nat * bool)) (cs : list cmd) : bool :=
  forallb (fun kv => existsb (fun c => is_meas c && Nat.eqb (bof c) (fst kv)) cs) psel.

Lemma nodupb_NoDup : forall l, nodupb l = true -> NoDup l.
Proof.
  induction l as [|x l IH]; intros H; [constructor|].
  cbn [nodupb] in H. apply andb_prop in H. destruct H as [H1 H2]. constructor; auto.
  intros Hin. apply negb_true_iff in H1.
  assert (existsb (Nat.eqb x) l = true); [|congruence].
  apply existsb_exists. exists x. split; auto. apply Nat.eqb_refl.
Qed.

Lemma has_key_cons : forall k v ps i, has_key ((k, v) :: ps) i = Nat.eqb i k || has_key ps i.
Proof. intros. unfold has_key. cbn [ps_lookup]. destruct (Nat.eqb i k); reflexivity. Qed.
Lemma has_key_in : forall ps i, has_key ps i = true <-> In i (map fst ps).
Proof.
  induction ps as [|[k v] ps IH]; intros i.
  - cbn. split; [discriminate|contradiction].
  - rewrite has_key_cons. cbn [map fst In]. rewrite orb_true_iff, IH, Nat.eqb_eq. split; intros [H|H]; auto.
Qed.

Lemma count_add_key : forall (g : nat -> bool) k b, g k = false ->
  length (filter (fun i => Nat.eqb i k || g i) (seq 0 b)) =
  length (filter g (seq 0 b)) + (if k <? b then 1 else 0).
Proof.
  intros g k. induction b; intros Hk; [reflexivity|].
  rewrite seq_snoc, !filter_app, !app_length, IHb by auto. cbn [filter].
  destruct (Nat.eqb_spec b k) as [->|Hne].
  - rewrite Hk. cbn [orb length]. destruct (Nat.ltb_spec k k); [lia|]. destruct (Nat.ltb_spec k (S k)); lia.
  - cbn [orb]. destruct (g b); cbn [length]; destruct (Nat.ltb_spec k b); destruct (Nat.ltb_spec k (S b)); lia.
Qed.
Lemma count_selected_below : forall psel b, NoDup (map fst psel) ->
  length (filter (fun kv : nat * bool => fst kv <? b) psel) = length (filter (has_key psel) (seq 0 b)).
Proof.
  induction psel as [|[k v] ps IH]; intros b Hnd.
  - cbn. symmetry. rewrite (filter_ext_in' _ (fun _ => false)) by reflexivity.
    induction (seq 0 b); auto.
  - cbn [map fst] in Hnd. inversion Hnd as [|? ? Hnotin Hnd']; subst.
    rewrite (filter_ext_in' (has_key ((k, v) :: ps)) (fun i => Nat.eqb i k || has_key ps i))
      by (intros; apply has_key_cons).
    rewrite count_add_key.
    + cbn [filter fst]. rewrite <- IH by auto. destruct (k <? b); cbn [length]; lia.
    + destruct (has_key ps k) eqn:E; auto. apply has_key_in in E. contradiction.
Qed.
Lemma filter_partition_length : forall {A} (p : A -> bool) l,
  length (filter p l) + length (filter (fun x => negb (p x)) l) = length l.
Proof. intros A p l. induction l as [|a l IH]; [reflexivity|]. cbn [filter]. destruct (p a); cbn [negb length]; lia. Qed.
Lemma is_none_has_key : forall psel i, is_none (ps_lookup psel i) = negb (has_key psel i).
Proof. intros. unfold has_key. destruct (ps_lookup psel i); reflexivity. Qed.

(* the raw index of a kept bit, minus the post-selected bits below it, is its place among the kept bits *)
Lemma idx_rank : forall nb psel b, NoDup (map fst psel) -> b < nb -> has_key psel b = false ->
  nth_error (idxF nb (ps_lookup psel)) (b - length (filter (fun kv : nat * bool => fst kv <? b) psel)) = Some b.
Proof.
  intros nb psel b Hnd Hb Hk.
  rewrite (count_selected_below psel b Hnd).
  pose proof (filter_partition_length (has_key psel) (seq 0 b)) as Hp. rewrite seq_length in Hp.
  replace (b - length (filter (has_key psel) (seq 0 b)))
    with (length (filter (fun i => is_none (ps_lookup psel i)) (seq 0 b))).
  2:{ rewrite (filter_ext_in' (fun i => is_none (ps_lookup psel i)) (fun x => negb (has_key psel x)))
        by (intros; apply is_none_has_key). lia. }
  unfold idxF. rewrite (seq_split nb b) by lia. rewrite filter_app.
  rewrite nth_error_app2 by lia. rewrite Nat.sub_diag.
  destruct (nb - b) as [|m] eqn:E; [lia|]. cbn [seq filter]. rewrite is_none_has_key, Hk. reflexivity.
Qed.
Lemma idx_length : forall nb psel, NoDup (map fst psel) -> (forall k, In k (map fst psel) -> k < nb) ->
  length (idxF nb (ps_lookup psel)) = nb - length psel.
Proof.
  intros nb psel Hnd Hlt.
  pose proof (count_selected_below psel nb Hnd) as Hc.
  rewrite (filter_all_true (fun kv : nat * bool => fst kv <? nb)) in Hc.
  2:{ intros [k v] Hin. apply Nat.ltb_lt. apply Hlt. apply in_map_iff. exists (k, v). auto. }
  pose proof (filter_partition_length (has_key psel) (seq 0 nb)) as Hp. rewrite seq_length in Hp.
  unfold idxF. rewrite (filter_ext_in' (fun i => is_none (ps_lookup psel i)) (fun x => negb (has_key psel x)))
    by (intros; apply is_none_has_key). lia.
Qed.

(* ================================================================== the command loop of from_tk *)
Definition imp_inv (cod : list wty) (idx : list nat) (f : ftk) (st : ev_state) : Prop :=
  layers_ok [] (f_layers f) = true /\ cod_of [] (f_layers f) = cod /\
  dsem_layers [] (DS [] 0 []) (f_layers f) = DS (map (snd st) idx) (fst st) [].

Lemma mua_two_qq : forall fx nq nb q0 q1 offset scod sw,
  fx33 fx = true -> q0 < nq -> q1 < nq -> q0 <> q1 ->
  mua_loop fx (rep nq WQubit ++ rep nb WBit) q0 [] [q1] 0 = (offset, scod, sw) -> qq_swaps nq sw.
Proof.
  intros fx nq nb q0 q1 offset scod sw Hfx H0 H1 Hne Em.
  set (cod := rep nq WQubit ++ rep nb WBit) in *.
  assert (Hcl : length cod = nq + nb) by apply cod_length.
  cbn [mua_loop] in Em. replace (q0 + 0 + 1) with (S q0) in Em by lia.
  destruct (Nat.ltb_spec q1 (S q0)) as [Hlt|Hge].
  - cbn [app mua_loop] in Em. inversion Em; subst offset scod sw; clear Em.
    rewrite firstn_length_le by lia. unfold cod. rewrite !slice_rep_app by lia.
    apply qq_swaps_boxes. lia.
  - destruct (Nat.ltb_spec (S q0) q1) as [Hlt|Hge2].
    + rewrite Hfx in Em. cbn [app mua_loop] in Em. inversion Em; subst offset scod sw; clear Em.
      change (match cod with [] => [] | a :: l => a :: firstn q0 l end) with (firstn (S q0) cod).
      rewrite firstn_length_le by lia. unfold cod. rewrite !slice_rep_app by lia.
      apply qq_swaps_boxes. lia.
    + cbn [mua_loop] in Em. inversion Em; subst. constructor.
Qed.

Lemma cmd_bits_ok_shape : forall nb c, cmd_bits_ok nb c = true -> is_meas c = true ->
  exists b, c_bs c = [b] /\ b < nb.
Proof.
  intros nb c H Hm. unfold cmd_bits_ok in H. unfold is_meas in Hm. rewrite Hm in H.
  destruct (c_bs c) as [|b [|]]; try discriminate. exists b. split; auto. apply Nat.ltb_lt. exact H.
Qed.

Lemma from_tk_cmd_dsem : forall fx nq nb psel N rank f c f' st,
  fx18 fx = true -> fx33 fx = true ->
  cmd_wf nq c = true -> cmd_bits_ok nb c = true ->
  NoDup (map fst psel) -> (forall k, In k (map fst psel) -> k < nb) ->
  imp_inv (rep nq WQubit ++ rep (nb - length psel) WBit) (idxF nb (ps_lookup psel)) f st ->
  from_tk_cmd fx nq (nb - length psel) psel (rep nq WQubit ++ rep (nb - length psel) WBit) f c = Ok f' ->
  imp_inv (rep nq WQubit ++ rep (nb - length psel) WBit) (idxF nb (ps_lookup psel)) f' (ev_step psel N rank st c).
Proof.
  intros fx nq nb psel N rank f c f' [k R] Hf18 Hf33 Hwf Hbok Hnd Hkeys [I1 [I2 I3]] H.
  set (nb' := nb - length psel) in *. set (cod := rep nq WQubit ++ rep nb' WBit) in *.
  set (idx := idxF nb (ps_lookup psel)) in *. cbn [fst snd] in I3.
  destruct (from_tk_cmd_ok _ _ _ _ _ _ _ _ I1 I2 H) as [O1 O2].
  unfold imp_inv. rewrite O1, O2. split; [reflexivity|]. split; [reflexivity|].
  assert (Hidxlen : length idx = nb') by (apply idx_length; auto).
  unfold cmd_wf in Hwf. apply andb_prop in Hwf. destruct Hwf as [Hwf Hlen].
  apply andb_prop in Hwf. destruct Hwf as [Hrange Hndq].
  unfold from_tk_cmd in H. unfold ev_step, is_psm, is_meas.
  destruct (c_op c =? op_Measure)%Z eqn:Eop.
  - (* Measure *)
    destruct (cmd_bits_ok_shape nb c Hbok Eop) as [b0 [Ebs Hb0]].
    apply Nat.eqb_eq in Hlen.
    destruct (c_qs c) as [|r [|r' qs']] eqn:Eqs; try discriminate. clear Hlen.
    cbn [forallb] in Hrange. rewrite andb_true_r in Hrange. apply Nat.ltb_lt in Hrange.
    rewrite Ebs in *. unfold nth_res in H. cbn [nth_error bind] in H. cbn [andb].
    assert (Hw : forall i, writes c i = Nat.eqb b0 i).
    { intros i. unfold writes. rewrite Eop, Ebs. reflexivity. }
    unfold has_key. destruct (ps_lookup psel b0) as [v|] eqn:Eps.
    + (* post-selected: no layer; the register is not a kept one *)
      inversion H; subst f'. cbn [f_layers fst snd]. rewrite I3. f_equal.
      apply map_ext_in. intros i Hi. rewrite Hw.
      destruct (Nat.eqb_spec b0 i) as [<-|]; [|reflexivity].
      apply idxF_In in Hi. destruct Hi as [_ Hi]. congruence.
    + (* measured into a kept bit *)
      cbv zeta in H. rewrite Hf18 in H.
      set (bi := b0 - length (filter (fun kv : nat * bool => fst kv <? b0) psel)) in *.
      assert (Hbi : nth_error idx bi = Some b0).
      { apply idx_rank; auto. unfold has_key. rewrite Eps. reflexivity. }
      assert (Hbilt : bi < nb') by (rewrite <- Hidxlen; apply nth_error_Some; congruence).
      match type of H with context [ty_eqb cod ?sd] => destruct (ty_eqb cod sd) eqn:E1 end;
        cbn [negb] in H; [|discriminate].
      match type of H with context [layer_ok ?sc ?l] => destruct (layer_ok sc l) eqn:E2 end;
        cbn [negb] in H; [|discriminate].
      inversion H; subst f'; clear H. cbn [f_layers fst snd].
      change (match cod with [] => [] | a :: l => a :: firstn r l end) with (firstn (S r) cod).
      set (mid := rep (nq - S r) WQubit ++ rep bi WBit).
      set (post := rep (nb' - S bi) WBit).
      assert (Hcod : cod = rep (S r) WQubit ++ mid ++ WBit :: post).
      { unfold cod, mid, post. replace nq with (S r + (nq - S r)) at 1 by lia.
        replace nb' with (bi + S (nb' - S bi)) at 1 by lia.
        rewrite !rep_app, rep_S, <- !app_assoc. reflexivity. }
      assert (Lmid : length mid = nq + bi - S r) by (unfold mid; rewrite app_length, !rep_length; lia).
      assert (F1 : firstn (S r) cod = rep (S r) WQubit) by (unfold cod; apply firstn_rep_app; lia).
      assert (F2 : slice cod (S r) (nq + bi) = mid).
      { unfold slice. rewrite Hcod. rewrite (skipn_exact0 (rep (S r) WQubit)) by apply rep_length.
        apply firstn_exact. exact Lmid. }
      assert (F3 : slice (skipn nq cod) bi (S bi) = [WBit]).
      { unfold cod. rewrite (skipn_exact0 (rep nq WQubit)) by apply rep_length.
        unfold slice. replace nb' with (bi + S (nb' - S bi)) by lia. rewrite rep_app, rep_S.
        rewrite (skipn_exact0 (rep bi WBit)) by apply rep_length.
        replace (S bi - bi) with 1 by lia. reflexivity. }
      rewrite F1, F2, F3, rep_length.
      rewrite dsem_layers_app, I3, I2, dsem_layers_app.
      (* the bit wires before the command *)
      set (L := map R idx).
      assert (LL : length L = nb') by (unfold L; rewrite map_length; exact Hidxlen).
      assert (HLx : nth_error L bi = Some (R b0)) by (unfold L; rewrite my_nth_error_map, Hbi; reflexivity).
      assert (HL : L = [] ++ firstn bi L ++ R b0 :: skipn (S bi) L).
      { cbn [app]. rewrite <- (firstn_skipn bi L) at 1. f_equal. apply skipn_cons_nth. exact HLx. }
      rewrite HL at 1. rewrite Hcod.
      assert (LM : length (firstn bi L) = countb mid).
      { rewrite firstn_length_le by lia. unfold mid. rewrite countb_app, countb_rep_q, countb_rep_b. reflexivity. }
      assert (LA : length (@nil prov) = countb (rep (S r) WQubit)) by (rewrite countb_rep_q; reflexivity).
      rewrite (dsem_swaps_fwd mid (rep (S r) WQubit) post [] (firstn bi L) (R b0) (skipn (S bi) L) k [] (S r)
                 (rep_length _ _) LA LM).
      destruct (swap_boxes_ok mid [WBit] (rep (S r) WQubit) post (S r) (rep_length _ _)) as [_ C].
      change (rep (S r) WQubit ++ mid ++ [WBit] ++ post) with (rep (S r) WQubit ++ mid ++ WBit :: post) in C.
      rewrite C.
      (* the overriding measurement on qubit r and the bit next to it *)
      set (scan' := rep (S r) WQubit ++ [WBit] ++ mid ++ post).
      assert (Hscan' : scan' = rep r WQubit ++ WQubit :: WBit :: mid ++ post).
      { unfold scan'. replace (S r) with (r + 1) by lia. rewrite rep_app, <- app_assoc. reflexivity. }
      cbn [app dsem_layers].
      assert (Hstep : step_ty scan' (BMeasure 1 false true, r) = scan').
      { rewrite Hscan'. unfold step_ty. cbn [bcod bdom rep repeat app length].
        rewrite (firstn_exact (rep r WQubit)) by apply rep_length.
        rewrite (skipn_exact (rep r WQubit) _ r 2) by apply rep_length. reflexivity. }
      assert (Hms : dsem_step scan' (DS (R b0 :: firstn bi L ++ skipn (S bi) L) k []) (BMeasure 1 false true, r) =
                    DS (PMeas k :: firstn bi L ++ skipn (S bi) L) (S k) []).
      { unfold dsem_step. cbn [d_bits d_nev d_constr].
        assert (Hb0' : countb (firstn r scan') = 0).
        { rewrite Hscan'. rewrite (firstn_exact (rep r WQubit)) by apply rep_length. apply countb_rep_q. }
        rewrite Hb0'. cbn [seq map app]. unfold replace_range. cbn [firstn plus skipn app].
        rewrite Nat.add_0_r, Nat.add_1_r. reflexivity. }
      rewrite Hstep, Hms.
      assert (Hs2 : scan' = rep (S r) WQubit ++ WBit :: mid ++ post) by reflexivity.
      rewrite Hs2.
      pose proof (dsem_swaps_bwd mid (rep (S r) WQubit) post [] (firstn bi L) (PMeas k) (skipn (S bi) L) (S k) [] (S r)
                    (rep_length _ _) LA LM) as Bw.
      cbn [app] in Bw. rewrite Bw. f_equal.
      assert (Er : firstn bi L ++ PMeas k :: skipn (S bi) L = replace_range L bi 1 [PMeas k]).
      { unfold replace_range. rewrite Nat.add_1_r. reflexivity. }
      rewrite Er. symmetry. unfold L.
      apply (map_update_nodup R _ (PMeas k) b0 idx bi); auto.
      * apply idxF_NoDup.
      * intros i. rewrite Hw. reflexivity.
  - (* gate *)
    cbn [andb].
    assert (Hw : forall i, writes c i = false) by (intros i; unfold writes; rewrite Eop; reflexivity).
    destruct (from_tk_box c) as [b|] eqn:Eb; cbn [bind] in H; [|discriminate].
    apply from_tk_box_shape in Eb. apply Nat.eqb_eq in Hlen.
    assert (Hgoal : forall sw offset,
              Forall not_bb sw ->
              dsem_layers [] (DS [] 0 [])
                (f_layers f ++ swaps_layers sw ++ [(b, offset)] ++ swaps_layers (dagger_swaps sw)) =
              DS (map (fun i => if writes c i then PMeas k else R i) idx) (S k) []).
    { intros sw offset Hsw. rewrite dsem_layers_app, I3, I2, dsem_layers_app.
      rewrite (dsem_nonbb_swaps sw _ _ Hsw). subst b. cbn [app dsem_layers].
      rewrite dsem_nonbb_swaps.
      - unfold dsem_step. cbn [d_bits d_nev d_constr]. f_equal.
        apply map_ext. intros i. rewrite Hw. reflexivity.
      - unfold dagger_swaps. apply Forall_forall. intros x Hx. apply in_map_iff in Hx.
        destruct Hx as [[[a b'] o] [<- Hin]]. apply in_rev in Hin. rewrite Forall_forall in Hsw.
        specialize (Hsw _ Hin). unfold not_bb in *. cbn [fst snd] in *. tauto. }
    destruct (gate_arity_cases (c_op c)) as [Har|Har]; rewrite Har in *.
    + destruct (c_qs c) as [|q0 [|q1 qs']] eqn:Eqs; try discriminate.
      unfold nth_res in H. cbn [nth_error bind tl mua_loop] in H.
      match type of H with context [layer_ok ?sc ?l] => destruct (layer_ok sc l) end;
        cbn [negb] in H; [|discriminate].
      inversion H; subst f'; clear H. cbn [f_layers fst snd].
      apply (Hgoal [] q0). constructor.
    + destruct (c_qs c) as [|q0 [|q1 [|q2 qs']]] eqn:Eqs; try discriminate.
      cbn [forallb] in Hrange. rewrite andb_true_r in Hrange. apply andb_prop in Hrange.
      destruct Hrange as [Hq0 Hq1]. apply Nat.ltb_lt in Hq0. apply Nat.ltb_lt in Hq1.
      assert (Hne : q0 <> q1).
      { intros ->. simpl in Hndq. rewrite Nat.eqb_refl in Hndq. discriminate. }
      unfold nth_res in H. cbn [nth_error bind tl] in H.
      destruct (mua_loop fx cod q0 [] [q1] 0) as [[offset scod] sw] eqn:Em.
      match type of H with context [layer_ok ?sc ?l] => destruct (layer_ok sc l) end;
        cbn [negb] in H; [|discriminate].
      inversion H; subst f'; clear H. cbn [f_layers fst snd].
      apply Hgoal. apply (qq_not_bb nq).
      apply (mua_two_qq fx nq nb' q0 q1 offset scod sw Hf33 Hq0 Hq1 Hne Em).
Qed.

Lemma from_tk_cmds_dsem : forall fx nq nb psel N rank cs f f' st,
  fx18 fx = true -> fx33 fx = true ->
  cmds_wf nq cs = true -> cmds_bits_ok nb cs = true ->
  NoDup (map fst psel) -> (forall k, In k (map fst psel) -> k < nb) ->
  imp_inv (rep nq WQubit ++ rep (nb - length psel) WBit) (idxF nb (ps_lookup psel)) f st ->
  from_tk_cmds fx nq (nb - length psel) psel (rep nq WQubit ++ rep (nb - length psel) WBit) f cs = Ok f' ->
  imp_inv (rep nq WQubit ++ rep (nb - length psel) WBit) (idxF nb (ps_lookup psel)) f'
          (fold_left (ev_step psel N rank) cs st).
Proof.
  intros fx nq nb psel N rank. induction cs as [|c cs IH]; intros f f' st H18 H33 Hwf Hb Hnd Hk I H.
  - cbn [from_tk_cmds] in H. inversion H; subst. exact I.
  - cbn [cmds_wf forallb] in Hwf. apply andb_prop in Hwf. destruct Hwf as [Hc Hcs].
    cbn [cmds_bits_ok forallb] in Hb. apply andb_prop in Hb. destruct Hb as [Hbc Hbcs].
    cbn [from_tk_cmds] in H.
    destruct (from_tk_cmd fx nq (nb - length psel) psel (rep nq WQubit ++ rep (nb - length psel) WBit) f c)
      as [f1|] eqn:E; cbn [bind] in H; [|discriminate].
    cbn [fold_left]. eapply IH; eauto. eapply from_tk_cmd_dsem; eauto.
Qed.

(* the preparation layers *)
Lemma ket_layers_dsem : forall n k scan, dsem_layers scan (DS [] 0 []) (ket_layers n k) = DS [] 0 [].
Proof. induction n; intros k scan; [reflexivity|]. cbn [ket_layers dsem_layers]. apply IHn. Qed.
Lemma bits_layers_dsem : forall n nq j,
  dsem_layers (rep nq WQubit ++ rep j WBit) (DS (rep j PZero) 0 []) (bits_layers n (nq + j)) =
  DS (rep (j + n) PZero) 0 [].
Proof.
  induction n; intros nq j.
  - rewrite Nat.add_0_r. reflexivity.
  - cbn [bits_layers dsem_layers].
    assert (Ls : length (rep nq WQubit ++ rep j WBit) = nq + j) by (rewrite app_length, !rep_length; reflexivity).
    assert (Es : step_ty (rep nq WQubit ++ rep j WBit) (BBits [false] false, nq + j) = rep nq WQubit ++ rep (S j) WBit).
    { unfold step_ty. cbn [bcod bdom length]. rewrite firstn_all2, skipn_all2 by lia.
      rewrite app_nil_r, <- app_assoc, <- rep_app. f_equal. f_equal. lia. }
    assert (Ed : dsem_step (rep nq WQubit ++ rep j WBit) (DS (rep j PZero) 0 []) (BBits [false] false, nq + j) =
                 DS (rep (S j) PZero) 0 []).
    { unfold dsem_step. cbn [d_bits d_nev d_constr length]. rewrite firstn_all2 by lia.
      rewrite countb_app, countb_rep_q, countb_rep_b. cbn [plus]. unfold replace_range.
      rewrite firstn_all2, skipn_all2 by (rewrite rep_length; lia).
      rewrite app_nil_r, <- rep_app. f_equal. f_equal. lia. }
    rewrite Es, Ed. replace (nq + S j) with (nq + S j) by lia.
    replace (S (nq + j)) with (nq + S j) by lia. rewrite IHn. f_equal. f_equal. lia.
Qed.

(* the final tensor: Bra for the post-selected qubits, in qubit order *)
Lemma rankq_S : forall bras i, rankq bras (S i) = rankq bras i + (if has_key bras i then 1 else 0).
Proof.
  intros. unfold rankq. rewrite seq_snoc, filter_app, app_length. cbn [filter].
  destruct (has_key bras i); reflexivity.
Qed.
Definition bra_constr (bras : list (nat * bool)) (N : nat) (q : nat) : list constr :=
  match ps_lookup bras q with Some v => [(PMeas (N + rankq bras q), v)] | None => [] end.
Lemma final_qubits_dsem : forall a bras i rest L N cs,
  final_layers rest bras (i + a) 0 = [] ->
  dsem_layers (rep a WQubit ++ rest) (DS L (N + rankq bras i) cs) (final_layers (rep a WQubit ++ rest) bras i 0) =
  DS L (N + rankq bras (i + a)) (cs ++ flat_map (bra_constr bras N) (seq i a)).
Proof.
  induction a; intros bras i rest L N cs Hrest.
  - cbn [rep repeat app seq flat_map]. rewrite Nat.add_0_r in *. rewrite Hrest, app_nil_r. reflexivity.
  - rewrite rep_S. cbn [app final_layers seq flat_map].
    replace (i + S a) with (S i + a) in * by lia.
    unfold bra_constr at 1. pose proof (rankq_S bras i) as HS. unfold has_key in HS.
    destruct (ps_lookup bras i) as [v|].
    + cbn [dsem_layers].
      assert (Ed : dsem_step (WQubit :: rep a WQubit ++ rest) (DS L (N + rankq bras i) cs) (BBra [v], 0) =
                   DS L (N + rankq bras (S i)) (cs ++ [(PMeas (N + rankq bras i), v)])).
      { unfold dsem_step. cbn [d_bits d_nev d_constr length seq map combine]. rewrite HS, Nat.add_0_r.
        f_equal. lia. }
      assert (Es : step_ty (WQubit :: rep a WQubit ++ rest) (BBra [v], 0) = rep a WQubit ++ rest) by reflexivity.
      rewrite Ed, Es, (IHa bras (S i) rest L N _ Hrest). rewrite <- app_assoc. reflexivity.
    + cbn [dsem_layers].
      assert (Ed : dsem_step (WQubit :: rep a WQubit ++ rest) (DS L (N + rankq bras i) cs) (BDiscard [WQubit], 0) =
                   DS L (N + rankq bras (S i)) cs).
      { unfold dsem_step. cbn [d_bits d_nev d_constr]. change (countb [WQubit]) with 0.
        rewrite remove_range_0, HS, Nat.add_0_r. reflexivity. }
      assert (Es : step_ty (WQubit :: rep a WQubit ++ rest) (BDiscard [WQubit], 0) = rep a WQubit ++ rest) by reflexivity.
      rewrite Ed, Es. apply (IHa bras (S i) rest L N cs Hrest).
Qed.

(* the post-processing boxes act on the circuit's bits as pp_step does *)
Definition all_bits (scan : list wty) : Prop := Forall (fun w => w = WBit) scan.
Lemma all_bits_countb : forall scan, all_bits scan -> countb scan = length scan.
Proof.
  induction scan as [|w scan IH]; intros H; [reflexivity|]. inversion H; subst.
  unfold countb in *. cbn [filter is_b length]. f_equal. apply IH. assumption.
Qed.
Lemma all_bits_rep : forall n, all_bits (rep n WBit).
Proof. induction n; constructor; auto. Qed.
Lemma boff_facts : forall {A} scan (L : list A) off, all_bits scan -> length scan = length L ->
  firstn (countb (firstn off scan)) L = firstn off L /\
  forall n, skipn (countb (firstn off scan) + n) L = skipn (off + n) L.
Proof.
  intros A scan L off Hb Hl.
  rewrite all_bits_countb by (apply my_Forall_firstn; exact Hb). rewrite firstn_length.
  destruct (Nat.le_gt_cases off (length scan)) as [H|H].
  - rewrite Nat.min_l by lia. auto.
  - rewrite Nat.min_r by lia. split.
    + rewrite !firstn_all2 by lia. reflexivity.
    + intros n. rewrite !skipn_all2 by lia. reflexivity.
Qed.

Lemma dsem_pbox : forall scan L nev cs p off,
  all_bits scan -> length scan = length L -> layer_ok scan (pbox_to_box p, off) = true ->
  dsem_step scan (DS L nev cs) (pbox_to_box p, off) =
    DS (fst (pp_step (L, cs) (p, off))) nev (snd (pp_step (L, cs) (p, off))) /\
  all_bits (step_ty scan (pbox_to_box p, off)) /\
  length (step_ty scan (pbox_to_box p, off)) = length (fst (pp_step (L, cs) (p, off))).
Proof.
  intros scan L nev cs p off Hb Hl Hok.
  destruct (boff_facts scan L off Hb Hl) as [B1 B2].
  pose proof (B2 0) as B0. rewrite !Nat.add_0_r in B0.
  assert (Hab : forall n c, all_bits c -> all_bits (firstn off scan ++ c ++ skipn (off + n) scan)).
  { intros n c Hc. apply Forall_app. split; [apply my_Forall_firstn; exact Hb|].
    apply Forall_app. split; [exact Hc | apply my_Forall_skipn; exact Hb]. }
  assert (Hlen : forall (c : list wty) (c' : list prov) n, length c = length c' ->
            length (firstn off scan ++ c ++ skipn (off + n) scan) = length (firstn off L ++ c' ++ skipn (off + n) L)).
  { intros c c' n Hc. rewrite !app_length, !firstn_length, !skipn_length. lia. }
  destruct p as [|id n m|bs]; cbn [pbox_to_box].
  - (* Swap(bit, bit) *)
    unfold layer_ok in Hok. cbn [bdom length] in Hok. apply ty_eqb_eq in Hok. apply slice_two in Hok.
    destruct Hok as [Hs Hk].
    assert (Hoff : off + 2 <= length L).
    { rewrite <- Hl. rewrite Hs at 1. rewrite app_length, Hk. cbn [length]. lia. }
    destruct (skipn_two L off Hoff) as [a [b' [rest E]]].
    unfold dsem_step, step_ty. cbn [d_bits d_nev d_constr pp_step bcod bdom length].
    rewrite B0, B1, E. cbn [fst snd]. split; [reflexivity|]. split.
    + apply (Hab 2 [WBit; WBit]). repeat constructor.
    + assert (Hr : length (skipn off L) = S (S (length rest))) by (rewrite E; reflexivity).
      rewrite skipn_length in Hr.
      rewrite !app_length, !firstn_length, skipn_length. cbn [length]. lia.
  - (* classical gate *)
    unfold dsem_step, step_ty. cbn [d_bits d_nev d_constr pp_step bcod bdom fst snd].
    unfold replace_range. rewrite B0, B1, B2, rep_length. split; [reflexivity|]. split.
    + apply Hab. apply all_bits_rep.
    + apply Hlen. rewrite rep_length, app_outputs_length. reflexivity.
  - (* Bits effect *)
    unfold dsem_step, step_ty. cbn [d_bits d_nev d_constr pp_step bcod bdom fst snd].
    unfold remove_range. rewrite B0, B1, B2, rep_length. split; [reflexivity|]. split.
    + apply (Hab (length bs) []). constructor.
    + apply (Hlen [] [] (length bs)). reflexivity.
Qed.

Lemma dsem_pp_layers : forall boxes scan L nev cs,
  all_bits scan -> length scan = length L ->
  layers_ok scan (map (fun '(p, o) => (pbox_to_box p, o)) boxes) = true ->
  dsem_layers scan (DS L nev cs) (map (fun '(p, o) => (pbox_to_box p, o)) boxes) =
  DS (fst (fold_left pp_step boxes (L, cs))) nev (snd (fold_left pp_step boxes (L, cs))).
Proof.
  induction boxes as [|[p off] boxes IH]; intros scan L nev cs Hb Hl Hok; [reflexivity|].
  cbn [map layers_ok] in Hok. apply andb_prop in Hok. destruct Hok as [H1 H2].
  destruct (dsem_pbox scan L nev cs p off Hb Hl H1) as [D1 [D2 D3]].
  cbn [map dsem_layers fold_left]. rewrite D1.
  destruct (pp_step (L, cs) (p, off)) as [L' cs'] eqn:E. cbn [fst snd] in *.
  apply IH; auto.
Qed.

(* ================================================================== assembling from_tk *)
Lemma ev_count : forall psel N rank cs st,
  fst (fold_left (ev_step psel N rank) cs st) = fst st + n_live psel cs.
Proof.
  intros psel N rank. induction cs as [|c cs IH]; intros st.
  - unfold n_live. cbn. lia.
  - cbn [fold_left]. rewrite IH. unfold n_live, ev_step. cbn [filter].
    destruct (is_psm psel c); cbn [fst negb length]; lia.
Qed.

Lemma from_tk_cmd_bras_step : forall fx nq nb psel cod f c f',
  from_tk_cmd fx nq nb psel cod f c = Ok f' -> f_bras f' = bras_step psel (f_bras f) c.
Proof.
  intros fx nq nb psel cod f c f' H. unfold from_tk_cmd in H. unfold bras_step, cmd_bra.
  destruct (c_op c =? op_Measure)%Z.
  - unfold nth_res in H. destruct (c_qs c) as [|r qs]; cbn [nth_error bind] in H; [discriminate|].
    destruct (c_bs c) as [|b bs]; cbn [nth_error bind] in H; [discriminate|].
    destruct (ps_lookup psel b).
    + inversion H; subst. reflexivity.
    + match type of H with context [ty_eqb cod ?sd] => destruct (ty_eqb cod sd) end; cbn [negb] in H; [|discriminate].
      match type of H with context [layer_ok ?sc ?l] => destruct (layer_ok sc l) end; cbn [negb] in H; [|discriminate].
      inversion H; subst. reflexivity.
  - destruct (from_tk_box c); cbn [bind] in H; [|discriminate].
    destruct (nth_res (c_qs c) 0) as [q0|]; cbn [bind] in H; [|discriminate].
    destruct (mua_loop fx cod q0 [] (tl (c_qs c)) 0) as [[offset scod] sw].
    match type of H with context [layer_ok ?sc ?l] => destruct (layer_ok sc l) end; cbn [negb] in H; [|discriminate].
    inversion H; subst. reflexivity.
Qed.
Lemma from_tk_cmds_bras_of : forall fx nq nb psel cod cs f f',
  from_tk_cmds fx nq nb psel cod f cs = Ok f' -> f_bras f' = bras_of psel cs (f_bras f).
Proof.
  intros fx nq nb psel cod. induction cs as [|c cs IH]; intros f f' H; cbn [from_tk_cmds] in H.
  - inversion H; subst. reflexivity.
  - destruct (from_tk_cmd fx nq nb psel cod f c) as [f1|] eqn:E; cbn [bind] in H; [|discriminate].
    rewrite (IH _ _ H). rewrite (from_tk_cmd_bras_step _ _ _ _ _ _ _ _ E). reflexivity.
Qed.

Lemma map_const_rep : forall {A B} (z : B) (l : list A), map (fun _ => z) l = rep (length l) z.
Proof. intros A B z l. induction l; [reflexivity|]. cbn [map length]. rewrite rep_S. f_equal. exact IHl. Qed.

Definition tk_import_ok (t : tkc) : bool :=
  cmds_wf (t_nq t) (t_cmds t) && cmds_bits_ok (t_nb t) (t_cmds t) && psel_ok (t_nb t) (t_psel t) &&
  pp_ok (t_pp t).

Lemma psel_ok_spec : forall nb psel, psel_ok nb psel = true ->
  NoDup (map fst psel) /\ (forall k, In k (map fst psel) -> k < nb).
Proof.
  intros nb psel H. unfold psel_ok in H. apply andb_prop in H. destruct H as [H1 H2]. split.
  - apply nodupb_NoDup. exact H1.
  - intros k Hk. apply in_map_iff in Hk. destruct Hk as [[k' v] [<- Hin]]. rewrite forallb_forall in H2.
    apply Nat.ltb_lt. apply (H2 _ Hin).
Qed.

(* the circuit's bit wires and constraints, exactly *)
Theorem from_tk_dsem : forall fx t sid c,
  fx18 fx = true -> fx33 fx = true -> tk_import_ok t = true ->
  from_tk fx t sid = Ok c ->
  let r := fold_left pp_step (pp_boxes (t_pp t))
             (map (snd (ev_run t)) (idxF (t_nb t) (ps_lookup (t_psel t))),
              flat_map (bra_constr (bras_of (t_psel t) (t_cmds t) []) (n_live (t_psel t) (t_cmds t)))
                       (seq 0 (t_nq t))) in
  dsem c = (fst r, snd r) /\ t_nb t - length (t_psel t) = pp_dom (t_pp t).
Proof.
  intros fx t sid c H18 H33 Hok H.
  unfold tk_import_ok in Hok. apply andb_prop in Hok. destruct Hok as [Hok Hpp].
  apply andb_prop in Hok. destruct Hok as [Hok Hps]. apply andb_prop in Hok. destruct Hok as [Hwf Hbits].
  destruct (psel_ok_spec _ _ Hps) as [Hnd Hkeys].
  unfold from_tk in H.
  set (psel := t_psel t) in *. set (nq := t_nq t) in *. set (nb := t_nb t) in *.
  set (nb' := nb - length psel) in *. set (cod := rep nq WQubit ++ rep nb' WBit) in *.
  set (idx := idxF nb (ps_lookup psel)) in *.
  set (N := n_live psel (t_cmds t)) in *. set (bras := bras_of psel (t_cmds t) []) in *.
  assert (Hidxlen : length idx = nb') by (apply idx_length; auto).
  destruct (from_tk_cmds fx nq nb' psel cod (FTK (ket_layers nq 0 ++ bits_layers nb' nq) []) (t_cmds t))
    as [f|] eqn:E; cbn [bind] in H; [|discriminate].
  assert (I0 : imp_inv cod idx (FTK (ket_layers nq 0 ++ bits_layers nb' nq) []) (0, fun _ => PZero)).
  { destruct (from_tk_loop_well_typed fx nq nb' psel [] _ eq_refl) as [L1 L2].
    split; [exact L1|]. split; [exact L2|]. cbn [f_layers fst snd].
    rewrite dsem_layers_app, ket_layers_dsem.
    destruct (ket_layers_ok nq []) as [_ K2]. cbn [length app] in K2. rewrite K2.
    pose proof (bits_layers_dsem nb' nq 0) as B. cbn [rep repeat plus] in B.
    rewrite app_nil_r, Nat.add_0_r in B. rewrite B.
    rewrite map_const_rep, Hidxlen. reflexivity. }
  pose proof (from_tk_cmds_dsem fx nq nb psel N (rankq bras) (t_cmds t) _ f _ H18 H33 Hwf Hbits Hnd Hkeys I0 E)
    as HI.
  change (imp_inv cod idx f (ev_run t)) in HI. destruct HI as [L1 [L2 L3]].
  assert (Hbras : f_bras f = bras) by (rewrite (from_tk_cmds_bras_of _ _ _ _ _ _ _ _ E); reflexivity).
  assert (HBr : Forall (fun kv => fst kv < nq) (f_bras f)).
  { eapply from_tk_cmds_bras; [| |exact E]; [constructor | apply cmds_wf_in_range; exact Hwf]. }
  assert (Hfin : final_layers (rep nb' WBit) (f_bras f) (0 + nq) 0 = []).
  { apply final_bits_nil. intros k Hk. eapply ps_lookup_out; [exact HBr | simpl in Hk; lia]. }
  destruct (final_qubits_ok nq (f_bras f) 0 [] (rep nb' WBit) Hfin) as [_ F2].
  cbn [app length] in F2. fold cod in F2. rewrite F2, rep_length in H.
  destruct (Nat.eqb_spec nb' (pp_dom (t_pp t))) as [Enb|]; cbn [negb] in H; [|discriminate].
  inversion H; subst c; clear H. split; [|exact Enb].
  unfold dsem. cbn [c_dom c_layers].
  rewrite dsem_layers_app, L3, L2.
  rewrite dsem_layers_app.
  assert (Hk : fst (ev_run t) = N).
  { unfold ev_run. rewrite ev_count. reflexivity. }
  pose proof (final_qubits_dsem nq (f_bras f) 0 (rep nb' WBit) (map (snd (ev_run t)) idx) N [] Hfin) as Fd.
  assert (Hr0 : rankq (f_bras f) 0 = 0) by reflexivity.
  rewrite Hr0, Nat.add_0_r in Fd. fold cod in Fd. rewrite Hk, Fd, F2. cbn [app plus].
  rewrite Hbras.
  set (L := map (snd (ev_run t)) idx).
  set (CS := flat_map (bra_constr bras N) (seq 0 nq)).
  assert (Hsc : forall ls, dsem_layers (rep nb' WBit) (DS L (N + rankq bras nq) CS)
                    (match sid with Some id => [(BScalar id true, nb')] | None => [] end ++ ls) =
                  dsem_layers (rep nb' WBit) (DS L (N + rankq bras nq) CS) ls).
  { intros ls. destruct sid as [id|]; [|reflexivity]. cbn [app dsem_layers].
    destruct (scalar_layer_ok (rep nb' WBit) id true nb' (eq_sym (rep_length _ _))) as [_ S2].
    rewrite S2. reflexivity. }
  rewrite Hsc.
  rewrite dsem_pp_layers.
  - reflexivity.
  - apply all_bits_rep.
  - unfold L. rewrite rep_length, map_length. symmetry. exact Hidxlen.
  - unfold pp_ok, pp_layers in Hpp. rewrite Enb. exact Hpp.
Qed.

(* ================================================================== multisets of constraints *)
Fixpoint prov_eqb_eq (a b : prov) {struct a} : prov_eqb a b = true -> a = b.
Proof.
  destruct a as [|k|id args k|], b as [|k'|id' args' k'|]; cbn [prov_eqb]; intros H;
    try discriminate; try reflexivity.
  - apply Nat.eqb_eq in H. subst. reflexivity.
  - apply andb_prop in H. destruct H as [H H3]. apply andb_prop in H. destruct H as [H1 H2].
    apply Z.eqb_eq in H1. apply Nat.eqb_eq in H2. subst. f_equal.
    revert args' H3. induction args as [|x xs IHx]; intros [|y ys] H3; try discriminate; auto.
    apply andb_prop in H3. destruct H3 as [Hx Hxs]. f_equal; [apply prov_eqb_eq; exact Hx | apply IHx; exact Hxs].
Qed.
Lemma constr_eqb_eq : forall x y, constr_eqb x y = true -> x = y.
Proof.
  intros [p v] [q w] H. unfold constr_eqb in H. cbn [fst snd] in H. apply andb_prop in H. destruct H as [H1 H2].
  apply prov_eqb_eq in H1. apply eqb_prop in H2. subst. reflexivity.
Qed.
Lemma remove_first_in : forall x b, In x b -> exists b', remove_first x b = Some b' /\ Permutation b (x :: b').
Proof.
  intros x. induction b as [|y l IH]; intros Hin; [contradiction|].
  cbn [remove_first]. destruct (constr_eqb x y) eqn:E.
  - apply constr_eqb_eq in E. subst y. exists l. split; auto.
  - assert (Hin' : In x l).
    { destruct Hin as [->|]; auto. rewrite constr_eqb_refl in E. discriminate. }
    destruct (IH Hin') as [l' [R P]]. rewrite R. exists (y :: l'). split; auto.
    eapply perm_trans; [apply perm_skip; exact P | apply perm_swap].
Qed.
Lemma multiset_eqb_perm : forall a b, Permutation a b -> multiset_eqb a b = true.
Proof.
  induction a as [|x a IH]; intros b P.
  - apply Permutation_nil in P. subst. reflexivity.
  - assert (Hin : In x b) by (eapply Permutation_in; [exact P | left; reflexivity]).
    destruct (remove_first_in x b Hin) as [b' [R Pb]]. cbn [multiset_eqb]. rewrite R.
    apply IH. eapply Permutation_cons_inv. eapply perm_trans; [exact P | exact Pb].
Qed.

Lemma pp_step_constr : forall L cs pb,
  pp_step (L, cs) pb = (fst (pp_step (L, []) pb), cs ++ snd (pp_step (L, []) pb)).
Proof.
  intros L cs [p off]. destruct p; cbn [pp_step].
  - destruct (skipn off L) as [|a [|b rest]]; cbn [fst snd]; rewrite app_nil_r; reflexivity.
  - cbn [fst snd]. rewrite app_nil_r. reflexivity.
  - reflexivity.
Qed.
Lemma pp_fold_constr : forall boxes L cs,
  fold_left pp_step boxes (L, cs) =
  (fst (fold_left pp_step boxes (L, [])), cs ++ snd (fold_left pp_step boxes (L, []))).
Proof.
  induction boxes as [|pb boxes IH]; intros L cs.
  - cbn. rewrite app_nil_r. reflexivity.
  - cbn [fold_left]. rewrite (pp_step_constr L cs pb).
    destruct (pp_step (L, []) pb) as [L1 e]. cbn [fst snd].
    rewrite (IH L1 (cs ++ e)), (IH L1 e). cbn [fst snd]. rewrite app_assoc. reflexivity.
Qed.

(* enumerating a list by a key *)
Lemma flat_map_app_perm : forall {A B} (h1 h2 : A -> list B) l,
  Permutation (flat_map (fun i => h1 i ++ h2 i) l) (flat_map h1 l ++ flat_map h2 l).
Proof.
  intros A B h1 h2. induction l as [|a l IH]; [constructor|].
  cbn [flat_map]. rewrite <- !app_assoc. apply Permutation_app_head.
  eapply perm_trans; [apply Permutation_app_head; exact IH|].
  rewrite !app_assoc. apply Permutation_app_tail. apply Permutation_app_comm.
Qed.
Lemma flat_map_single_key : forall {B} (k n : nat) (y : list B), k < n ->
  flat_map (fun i => if Nat.eqb k i then y else []) (seq 0 n) = y.
Proof.
  intros B k n y H. rewrite (seq_split n k) by lia. rewrite flat_map_app.
  rewrite (flat_map_nil_all _ (seq 0 k)).
  2:{ intros a Ha. apply in_seq in Ha. destruct (Nat.eqb_spec k a); [lia|reflexivity]. }
  destruct (n - k) as [|m] eqn:E; [lia|]. cbn [seq flat_map app]. rewrite Nat.eqb_refl.
  rewrite (flat_map_nil_all _ (seq (S k) m)).
  - apply app_nil_r.
  - intros a Ha. apply in_seq in Ha. destruct (Nat.eqb_spec k a); [lia|reflexivity].
Qed.
Lemma perm_by_key : forall {A B} (g : A -> B) (key : A -> nat) n W,
  (forall w, In w W -> key w < n) ->
  Permutation (flat_map (fun i => map g (filter (fun w => Nat.eqb (key w) i) W)) (seq 0 n)) (map g W).
Proof.
  intros A B g key n. induction W as [|w W IH]; intros Hk.
  - rewrite flat_map_nil_all by reflexivity. constructor.
  - assert (E : flat_map (fun i => map g (filter (fun w0 => Nat.eqb (key w0) i) (w :: W))) (seq 0 n) =
                flat_map (fun i => (if Nat.eqb (key w) i then [g w] else []) ++
                                   map g (filter (fun w0 => Nat.eqb (key w0) i) W)) (seq 0 n)).
    { apply flat_map_ext. intros i. cbn [filter]. destruct (Nat.eqb (key w) i); reflexivity. }
    rewrite E. eapply perm_trans; [apply flat_map_app_perm|].
    rewrite flat_map_single_key by (apply Hk; left; reflexivity).
    cbn [map app]. apply perm_skip. apply IH. intros w' Hw'. apply Hk. right. exact Hw'.
Qed.
Lemma filter_key_unique : forall {A} (key : A -> nat) W w,
  NoDup (map key W) -> In w W -> filter (fun w' => Nat.eqb (key w') (key w)) W = [w].
Proof.
  intros A key. induction W as [|x W IH]; intros w Hnd Hin; [contradiction|].
  cbn [map] in Hnd. inversion Hnd as [|? ? Hnotin Hnd']; subst. cbn [filter].
  destruct Hin as [->|Hin].
  - rewrite Nat.eqb_refl. f_equal.
    rewrite (filter_ext_in' _ (fun _ => false)).
    + clear. induction W; auto.
    + intros a Ha. destruct (Nat.eqb_spec (key a) (key w)) as [E|]; auto.
      exfalso. apply Hnotin. rewrite <- E. apply in_map. exact Ha.
  - destruct (Nat.eqb_spec (key x) (key w)) as [E|].
    + exfalso. apply Hnotin. rewrite E. apply in_map. exact Hin.
    + apply IH; auto.
Qed.
Lemma filter_key_none : forall {A} (key : A -> nat) W k,
  (forall w, In w W -> key w <> k) -> filter (fun w' => Nat.eqb (key w') k) W = [].
Proof.
  intros A key W k H. rewrite (filter_ext_in' _ (fun _ => false)).
  - clear. induction W; auto.
  - intros a Ha. destruct (Nat.eqb_spec (key a) k); auto. exfalso. eapply H; eauto.
Qed.

(* ================================================================== post-selected measurements: Bras vs post-selected registers *)
Definition psval (psel : list (nat * bool)) (b : nat) : bool :=
  match ps_lookup psel b with Some v => v | None => false end.

Lemma psm_shape : forall psel nq nb c, cmd_wf nq c = true -> cmd_bits_ok nb c = true -> is_psm psel c = true ->
  exists r b, c_qs c = [r] /\ c_bs c = [b] /\ r < nq /\ b < nb /\ has_key psel b = true /\
              qof c = r /\ bof c = b /\ is_meas c = true.
Proof.
  intros psel nq nb c Hwf Hb Hp. unfold is_psm in Hp. apply andb_prop in Hp. destruct Hp as [Hm Hk].
  destruct (cmd_bits_ok_shape nb c Hb Hm) as [b [Eb Hlt]]. rewrite Eb in Hk.
  unfold cmd_wf in Hwf. apply andb_prop in Hwf. destruct Hwf as [Hwf Hlen].
  apply andb_prop in Hwf. destruct Hwf as [Hrange _]. unfold is_meas in Hm. rewrite Hm in Hlen.
  apply Nat.eqb_eq in Hlen. destruct (c_qs c) as [|r [|]] eqn:Eq; try discriminate.
  cbn [forallb] in Hrange. rewrite andb_true_r in Hrange. apply Nat.ltb_lt in Hrange.
  exists r, b. unfold qof, bof. rewrite Eq, Eb. repeat split; auto.
Qed.

Lemma f41_nodup : forall psel nq nb cs, cmds_wf nq cs = true -> cmds_bits_ok nb cs = true ->
  f41_trig psel cs = false -> NoDup (map qof (filter (is_psm psel) cs)).
Proof.
  intros psel nq nb. induction cs as [|c cs IH]; intros Hwf Hb H; [constructor|].
  cbn [cmds_wf forallb] in Hwf. apply andb_prop in Hwf. destruct Hwf as [Hc Hcs].
  cbn [cmds_bits_ok forallb] in Hb. apply andb_prop in Hb. destruct Hb as [Hbc Hbcs].
  cbn [f41_trig] in H. apply orb_false_elim in H. destruct H as [H1 H2].
  cbn [filter]. destruct (is_psm psel c) eqn:Ep; [|apply IH; auto].
  cbn [map andb] in *. constructor; [|apply IH; auto].
  intros Hin. apply in_map_iff in Hin. destruct Hin as [c' [Eq Hin']]. apply filter_In in Hin'.
  destruct Hin' as [Hin' Hp'].
  assert (Hwf' : cmd_wf nq c' = true) by (unfold cmds_wf in Hcs; rewrite forallb_forall in Hcs; auto).
  assert (Hb' : cmd_bits_ok nb c' = true) by (unfold cmds_bits_ok in Hbcs; rewrite forallb_forall in Hbcs; auto).
  destruct (psm_shape _ _ _ _ Hwf' Hb' Hp') as [r [b [Eqs [_ [_ [_ [_ [Hq _]]]]]]]].
  assert (existsb (fun c'0 => existsb (Nat.eqb (qof c)) (c_qs c'0)) cs = true); [|congruence].
  apply existsb_exists. exists c'. split; auto. rewrite Eqs. cbn [existsb]. rewrite <- Eq, Hq, Nat.eqb_refl. reflexivity.
Qed.
Lemma f42_nodup : forall psel cs, f42_trig psel cs = false -> NoDup (map bof (filter (is_psm psel) cs)).
Proof.
  intros psel. induction cs as [|c cs IH]; intros H; [constructor|].
  cbn [f42_trig] in H. apply orb_false_elim in H. destruct H as [H1 H2].
  cbn [filter]. destruct (is_psm psel c) eqn:Ep; [|apply IH; auto].
  cbn [map andb] in *. constructor; [|apply IH; auto].
  intros Hin. apply in_map_iff in Hin. destruct Hin as [c' [Eq Hin']]. apply filter_In in Hin'.
  destruct Hin' as [Hin' Hp'].
  assert (existsb (fun c'0 => is_meas c'0 && Nat.eqb (bof c'0) (bof c)) cs = true); [|congruence].
  apply existsb_exists. exists c'. split; auto. unfold is_psm in Hp'. apply andb_prop in Hp'.
  destruct Hp' as [Hm _]. rewrite Hm, Eq, Nat.eqb_refl. reflexivity.
Qed.

(* the register of a post-selected bit holds the event of its (only) measurement *)
Lemma ev_no_writer : forall psel N rank cs st b,
  (forall c, In c cs -> writes c b = false) -> snd (fold_left (ev_step psel N rank) cs st) b = snd st b.
Proof.
  intros psel N rank. induction cs as [|c cs IH]; intros st b H; [reflexivity|].
  cbn [fold_left]. rewrite IH by (intros; apply H; right; auto).
  unfold ev_step. destruct (is_psm psel c); cbn [snd]; rewrite (H c) by (left; reflexivity); reflexivity.
Qed.
Lemma ev_ps_register : forall psel nq nb N rank cs st w,
  cmds_wf nq cs = true -> cmds_bits_ok nb cs = true ->
  NoDup (map bof (filter (is_psm psel) cs)) -> In w (filter (is_psm psel) cs) ->
  snd (fold_left (ev_step psel N rank) cs st) (bof w) = PMeas (N + rank (qof w)).
Proof.
  intros psel nq nb N rank. induction cs as [|c cs IH]; intros st w Hwf Hb Hnd Hin; [contradiction|].
  cbn [cmds_wf forallb] in Hwf. apply andb_prop in Hwf. destruct Hwf as [Hc Hcs].
  cbn [cmds_bits_ok forallb] in Hb. apply andb_prop in Hb. destruct Hb as [Hbc Hbcs].
  cbn [filter] in Hnd, Hin. cbn [fold_left].
  destruct (is_psm psel c) eqn:Ep.
  - cbn [map] in Hnd. inversion Hnd as [|? ? Hnotin Hnd']; subst.
    destruct Hin as [->|Hin]; [|apply IH; auto].
    destruct (psm_shape _ _ _ _ Hc Hbc Ep) as [r [b [Eqs [Ebs [_ [_ [Hk [Hq [Hbo Hm]]]]]]]]].
    rewrite ev_no_writer.
    + unfold ev_step. rewrite Ep. cbn [snd]. unfold writes. unfold is_meas in Hm. rewrite Hm, Ebs, <- Hbo.
      rewrite Hbo, Nat.eqb_refl. reflexivity.
    + intros c' Hc'. destruct (writes c' (bof w)) eqn:Ew; auto. exfalso. apply Hnotin.
      unfold writes in Ew. apply andb_prop in Ew. destruct Ew as [Hm' Hbs'].
      destruct (c_bs c') as [|b' [|]] eqn:Eb'; try discriminate. apply Nat.eqb_eq in Hbs'.
      apply in_map_iff. exists c'. split; [unfold bof; rewrite Eb'; exact Hbs'|].
      apply filter_In. split; auto. unfold is_psm, is_meas. rewrite Hm', Eb'. cbn [andb].
      rewrite Hbs', Hbo. exact Hk.
  - apply IH; auto.
Qed.

(* ... and the Bra recorded for its qubit carries the post-selected value *)
Lemma cmd_bra_psm : forall psel c r b, c_qs c = [r] -> c_bs c = [b] -> is_psm psel c = true ->
  cmd_bra psel c = Some (r, psval psel b).
Proof.
  intros psel c r b Eq Eb Hp. unfold is_psm, is_meas in Hp. apply andb_prop in Hp. destruct Hp as [Hm Hk].
  unfold cmd_bra, psval. rewrite Hm, Eq, Eb in *. unfold has_key in Hk.
  destruct (ps_lookup psel b); [reflexivity|discriminate].
Qed.
Lemma cmd_bra_not_psm : forall psel c, is_psm psel c = false -> cmd_bra psel c = None.
Proof.
  intros psel c Hp. unfold is_psm, is_meas, cmd_bra in *. destruct (c_op c =? op_Measure)%Z; auto.
  cbn [andb] in Hp. destruct (c_qs c); auto. destruct (c_bs c); auto. unfold has_key in Hp.
  destruct (ps_lookup psel n0); [discriminate|reflexivity].
Qed.
Lemma bras_no_psm : forall psel nq nb cs init q,
  cmds_wf nq cs = true -> cmds_bits_ok nb cs = true ->
  (forall c, In c (filter (is_psm psel) cs) -> qof c <> q) ->
  ps_lookup (bras_of psel cs init) q = ps_lookup init q.
Proof.
  intros psel nq nb. induction cs as [|c cs IH]; intros init q Hwf Hb H; [reflexivity|].
  cbn [cmds_wf forallb] in Hwf. apply andb_prop in Hwf. destruct Hwf as [Hc Hcs].
  cbn [cmds_bits_ok forallb] in Hb. apply andb_prop in Hb. destruct Hb as [Hbc Hbcs].
  unfold bras_of in *. cbn [fold_left]. cbn [filter] in H.
  destruct (is_psm psel c) eqn:Ep.
  - rewrite IH; auto; [|intros; apply H; right; auto].
    destruct (psm_shape _ _ _ _ Hc Hbc Ep) as [r [b [Eqs [Ebs [_ [_ [_ [Hq _]]]]]]]].
    unfold bras_step. rewrite (cmd_bra_psm psel c r b Eqs Ebs Ep). cbn [fst snd].
    rewrite ps_lookup_set. destruct (Nat.eqb_spec q r) as [->|]; [|reflexivity].
    exfalso. apply (H c); [left; reflexivity | exact Hq].
  - rewrite IH; auto. unfold bras_step. rewrite (cmd_bra_not_psm _ _ Ep). reflexivity.
Qed.
Lemma bras_psm : forall psel nq nb cs init w,
  cmds_wf nq cs = true -> cmds_bits_ok nb cs = true ->
  NoDup (map qof (filter (is_psm psel) cs)) -> In w (filter (is_psm psel) cs) ->
  ps_lookup (bras_of psel cs init) (qof w) = Some (psval psel (bof w)).
Proof.
  intros psel nq nb. induction cs as [|c cs IH]; intros init w Hwf Hb Hnd Hin; [contradiction|].
  cbn [cmds_wf forallb] in Hwf. apply andb_prop in Hwf. destruct Hwf as [Hc Hcs].
  cbn [cmds_bits_ok forallb] in Hb. apply andb_prop in Hb. destruct Hb as [Hbc Hbcs].
  unfold bras_of in *. cbn [fold_left]. cbn [filter] in Hnd, Hin.
  destruct (is_psm psel c) eqn:Ep.
  - cbn [map] in Hnd. inversion Hnd as [|? ? Hnotin Hnd']; subst.
    destruct Hin as [->|Hin]; [|apply IH; auto].
    destruct (psm_shape _ _ _ _ Hc Hbc Ep) as [r [b [Eqs [Ebs [_ [_ [_ [Hq [Hbo _]]]]]]]]].
    fold (bras_of psel cs (bras_step psel init w)).
    rewrite (bras_no_psm psel nq nb cs _ (qof w) Hcs Hbcs).
    + unfold bras_step. rewrite (cmd_bra_psm psel w r b Eqs Ebs Ep). cbn [fst snd].
      rewrite ps_lookup_set, Hq, Nat.eqb_refl, Hbo. reflexivity.
    + intros c' Hc' E. apply Hnotin. rewrite <- E. apply in_map. exact Hc'.
  - apply IH; auto.
Qed.

(* ================================================================== the routing theorem of the import *)
Theorem from_tk_routing_lemma : forall fx t sid c,
  fx18 fx = true -> fx33 fx = true -> tk_import_ok t = true ->
  f41_trig (t_psel t) (t_cmds t) = false -> f42_trig (t_psel t) (t_cmds t) = false ->
  no_dangling (t_psel t) (t_cmds t) = true ->
  from_tk fx t sid = Ok c -> sem_eqb (dsem c) (tsem_ev t) = true.
Proof.
  intros fx t sid c H18 H33 Hok H41 H42 Hdang H.
  destruct (from_tk_dsem fx t sid c H18 H33 Hok H) as [Hd Hdom]. cbv zeta in Hd. rewrite Hd.
  unfold tk_import_ok in Hok. apply andb_prop in Hok. destruct Hok as [Hok Hpp].
  apply andb_prop in Hok. destruct Hok as [Hok Hps]. apply andb_prop in Hok. destruct Hok as [Hwf Hbits].
  destruct (psel_ok_spec _ _ Hps) as [Hnd Hkeys].
  set (psel := t_psel t) in *. set (nq := t_nq t) in *. set (nb := t_nb t) in *.
  set (cs := t_cmds t) in *. set (N := n_live psel cs) in *. set (bras := bras_of psel cs []) in *.
  set (R := snd (ev_run t)) in *. set (idx := idxF nb (ps_lookup psel)) in *.
  set (W := filter (is_psm psel) cs).
  assert (NQ : NoDup (map qof W)) by (eapply f41_nodup; eauto).
  assert (NB : NoDup (map bof W)) by (apply f42_nodup; exact H42).
  assert (HW : forall w, In w W -> exists r b, c_qs w = [r] /\ c_bs w = [b] /\ r < nq /\ b < nb /\
                                   has_key psel b = true /\ qof w = r /\ bof w = b /\ is_meas w = true).
  { intros w Hw. apply filter_In in Hw. destruct Hw as [Hin Hp].
    eapply psm_shape; eauto.
    - unfold cmds_wf in Hwf. rewrite forallb_forall in Hwf. auto.
    - unfold cmds_bits_ok in Hbits. rewrite forallb_forall in Hbits. auto. }
  set (g := fun w : cmd => (PMeas (N + rankq bras (qof w)), psval psel (bof w))).
  (* the constraints of the Bras, enumerated by qubit *)
  assert (CA : flat_map (bra_constr bras N) (seq 0 nq) =
               flat_map (fun q => map g (filter (fun w => Nat.eqb (qof w) q) W)) (seq 0 nq)).
  { apply flat_map_ext_in. intros q _. unfold bra_constr.
    destruct (existsb (fun w => Nat.eqb (qof w) q) W) eqn:Ex.
    - apply existsb_exists in Ex. destruct Ex as [w [Hw Eq]]. apply Nat.eqb_eq in Eq. subst q.
      rewrite (filter_key_unique qof W w NQ Hw). cbn [map].
      unfold bras. rewrite (bras_psm psel nq nb cs [] w Hwf Hbits NQ Hw). reflexivity.
    - rewrite filter_key_none.
      + unfold bras. rewrite (bras_no_psm psel nq nb cs [] q Hwf Hbits); [reflexivity|].
        intros c' Hc' E. assert (existsb (fun w => Nat.eqb (qof w) q) W = true); [|congruence].
        apply existsb_exists. exists c'. split; auto. apply Nat.eqb_eq. exact E.
      + intros w Hw E. assert (existsb (fun w => Nat.eqb (qof w) q) W = true); [|congruence].
        apply existsb_exists. exists w. split; auto. apply Nat.eqb_eq. exact E. }
  (* the post-selected registers of the tket circuit, enumerated by bit *)
  assert (CB : selF nb R (selS t) =
               flat_map (fun b => map g (filter (fun w => Nat.eqb (bof w) b) W)) (seq 0 nb)).
  { unfold selF. apply flat_map_ext_in. intros b Hb. apply in_seq in Hb. unfold selS. fold psel.
    destruct (ps_lookup psel b) as [v|] eqn:El.
    - (* some Measure writes b (no dangling post-selection); it is the only one *)
      unfold no_dangling in Hdang. rewrite forallb_forall in Hdang.
      assert (Hkey : In b (map fst psel)) by (apply has_key_in; unfold has_key; rewrite El; reflexivity).
      apply in_map_iff in Hkey. destruct Hkey as [[k' v'] [Ek Hin]]. cbn [fst] in Ek. subst k'.
      specialize (Hdang _ Hin). cbn [fst] in Hdang. apply existsb_exists in Hdang.
      destruct Hdang as [w [Hwin Hw]]. apply andb_prop in Hw. destruct Hw as [Hm Hbo]. apply Nat.eqb_eq in Hbo.
      assert (Hbok : cmd_bits_ok nb w = true) by (unfold cmds_bits_ok in Hbits; rewrite forallb_forall in Hbits; auto).
      destruct (cmd_bits_ok_shape nb w Hbok Hm) as [b' [Eb' _]].
      assert (b' = b) by (unfold bof in Hbo; rewrite Eb' in Hbo; exact Hbo). subst b'.
      assert (HwW : In w W).
      { apply filter_In. split; auto. unfold is_psm. rewrite Hm, Eb'. unfold has_key. rewrite El. reflexivity. }
      rewrite <- Hbo. rewrite (filter_key_unique bof W w NB HwW). cbn [map]. unfold g, psval.
      rewrite Hbo, El. f_equal. f_equal. unfold R, ev_run.
      rewrite <- Hbo. apply (ev_ps_register psel nq nb); auto.
    - rewrite filter_key_none; [reflexivity|].
      intros w Hw E. destruct (HW w Hw) as [r [b' [_ [_ [_ [_ [Hk [_ [Hbo _]]]]]]]]].
      rewrite Hbo in E. subst b'. unfold has_key in Hk. rewrite El in Hk. discriminate. }
  assert (P : Permutation (flat_map (bra_constr bras N) (seq 0 nq)) (selF nb R (selS t))).
  { rewrite CA, CB. eapply perm_trans; [apply perm_by_key | apply Permutation_sym, perm_by_key].
    - intros w Hw. destruct (HW w Hw) as [r [b [_ [_ [Hr [_ [_ [Hq _]]]]]]]]. rewrite Hq. exact Hr.
    - intros w Hw. destruct (HW w Hw) as [r [b [_ [_ [_ [Hb [_ [_ [Hbo _]]]]]]]]]. rewrite Hbo. exact Hb. }
  (* tsem_ev *)
  unfold tsem_ev. fold R. fold nb.
  rewrite keptF_idx. change (idxF nb (selS t)) with idx.
  assert (Hl : length (map R idx) = pp_dom (t_pp t)).
  { rewrite map_length. unfold idx. rewrite idx_length by auto. exact Hdom. }
  rewrite Hl, Nat.eqb_refl. cbn [negb].
  rewrite (pp_fold_constr _ _ (flat_map (bra_constr bras N) (seq 0 nq))).
  rewrite (pp_fold_constr _ _ (selF nb R (selS t))).
  unfold sem_eqb. cbn [fst snd]. rewrite list_prov_eqb_refl. cbn [andb].
  apply multiset_eqb_perm. apply Permutation_app_tail. exact P.
Qed.

(* ---- without post-selection tsem_ev is tsem: the Definition from_tk_routing_ok of Tk.v ---- *)
Lemma is_psm_nil : forall c, is_psm [] c = false.
Proof. intros c. unfold is_psm. destruct (c_bs c); rewrite ?andb_false_r; reflexivity. Qed.
Lemma f41_trig_nil : forall cs, f41_trig [] cs = false.
Proof. induction cs as [|c cs IH]; [reflexivity|]. cbn [f41_trig]. rewrite is_psm_nil, IH. reflexivity. Qed.
Lemma f42_trig_nil : forall cs, f42_trig [] cs = false.
Proof. induction cs as [|c cs IH]; [reflexivity|]. cbn [f42_trig]. rewrite is_psm_nil, IH. reflexivity. Qed.
Lemma ev_run_regf : forall psel N rank cs k R0 i,
  (forall c, In c cs -> is_psm psel c = false) ->
  snd (fold_left (ev_step psel N rank) cs (k, R0)) i = regf cs k i (R0 i).
Proof.
  intros psel N rank. induction cs as [|c cs IH]; intros k R0 i H; [reflexivity|].
  cbn [fold_left regf]. unfold ev_step at 2. rewrite (H c) by (left; reflexivity). cbn [fst snd].
  rewrite IH by (intros; apply H; right; auto). reflexivity.
Qed.
Lemma tsem_ev_nopsel : forall t, t_psel t = [] -> cmds_bits_ok (t_nb t) (t_cmds t) = true -> tsem_ev t = tsem t.
Proof.
  intros t Hps Hb. rewrite (tsem_F t Hb). unfold tsem_ev, keptT, selT.
  destruct (FT_ext (t_nb t) (regR t) (snd (ev_run t)) (selS t) (selS t)) as [E1 [E2 _]]; auto.
  { intros i _. unfold ev_run, regR. rewrite Hps. apply ev_run_regf. intros c _. apply is_psm_nil. }
  rewrite E1, E2. reflexivity.
Qed.

Definition from_tk_routing_nopsel_stmt (fx : fixes) : Prop :=
  forall t sid c,
    cmds_wf (t_nq t) (t_cmds t) = true -> cmds_bits_ok (t_nb t) (t_cmds t) = true -> pp_ok (t_pp t) = true ->
    t_psel t = [] -> from_tk fx t sid = Ok c -> from_tk_routing_ok t c = true.
Theorem from_tk_routing_nopsel_lemma : forall fx, fx18 fx = true -> fx33 fx = true -> from_tk_routing_nopsel_stmt fx.
Proof.
  intros fx H18 H33 t sid c Hwf Hb Hpp Hps H. unfold from_tk_routing_ok.
  rewrite <- (tsem_ev_nopsel t Hps Hb).
  apply (from_tk_routing_lemma fx t sid c H18 H33); auto.
  - unfold tk_import_ok. rewrite Hwf, Hb, Hpp, Hps. reflexivity.
  - rewrite Hps. apply f41_trig_nil.
  - rewrite Hps. apply f42_trig_nil.
  - rewrite Hps. reflexivity.
Qed.

(* ---- non-vacuity, and why the event numbering is needed ---- *)
(* tk.Circuit(3, 4, post_selection={1: 1, 2: 1}).H(0).CX(0, 2).Measure(2, 1).X(1).Measure(0, 3)
   .Measure(1, 2).H(0).Measure(0, 0).post_process(Swap(bit, bit)) : post-selected bits between kept ones,
   post-selected measurements last on their qubits, the kept bit 3 written before the kept bit 0 *)
Definition import_example : tkc :=
  TK 3 4 [Cmd 1 None [0] []; Cmd 7 None [0; 2] []; Cmd 0 None [2] [1]; Cmd 4 None [1] [];
          Cmd 0 None [0] [3]; Cmd 0 None [1] [2]; Cmd 1 None [0] []; Cmd 0 None [0] [0]]
     [(1, true); (2, true)] [] (PP 2 2 [(PSwap, 0)]).
Example from_tk_routing_example :
  tk_import_ok import_example = true /\
  f41_trig (t_psel import_example) (t_cmds import_example) = false /\
  f42_trig (t_psel import_example) (t_cmds import_example) = false /\
  no_dangling (t_psel import_example) (t_cmds import_example) = true /\
  exists c, from_tk repaired import_example None = Ok c /\
            dsem c = ([PMeas 3; PMeas 5], [(PMeas 6, true); (PMeas 7, true)]) /\
            tsem_ev import_example = ([PMeas 3; PMeas 5], [(PMeas 7, true); (PMeas 6, true)]) /\
            (* numbered by commands (tsem) the same provenances read: *)
            tsem import_example = ([PMeas 4; PMeas 7], [(PMeas 2, true); (PMeas 5, true)]) /\
            from_tk_routing_ok import_example c = false /\
            (* with the pinned bit index (F18) the import fails *)
            from_tk pinned import_example None = Err AxiomError.
Proof.
  vm_compute. repeat (split; [reflexivity|]). eexists. repeat (split; [reflexivity|]). reflexivity.
Qed.

(* the Definition from_tk_routing_ok (event k = command k) fails on a correct post-selected import:
   with a post-selection it is not the right statement *)
Definition from_tk_routing_ok_stmt (fx : fixes) : Prop :=
  forall t sid c, tk_import_ok t = true ->
    f41_trig (t_psel t) (t_cmds t) = false -> f42_trig (t_psel t) (t_cmds t) = false ->
    no_dangling (t_psel t) (t_cmds t) = true ->
    from_tk fx t sid = Ok c -> from_tk_routing_ok t c = true.
Theorem from_tk_routing_ok_stmt_refuted : ~ from_tk_routing_ok_stmt repaired.
Proof.
  intros H.
  assert (E : exists c, from_tk repaired import_example None = Ok c /\ from_tk_routing_ok import_example c = false)
    by (vm_compute; eexists; split; reflexivity).
  destruct E as [c [E1 E2]].
  rewrite (H import_example None c eq_refl eq_refl eq_refl eq_refl E1) in E2. discriminate.
Qed.

(* the hypotheses are needed: the F41 and F42 witnesses violate the statement *)
Definition f42_witness : tkc :=
  TK 2 1 [Cmd 1 None [0] []; Cmd 0 None [0] [0]; Cmd 0 None [1] [0]] [(0, false)] [] (PP 0 0 []).
Example from_tk_routing_needs_f42 :
  tk_import_ok f42_witness = true /\ f41_trig (t_psel f42_witness) (t_cmds f42_witness) = false /\
  f42_trig (t_psel f42_witness) (t_cmds f42_witness) = true /\
  exists c, from_tk repaired f42_witness None = Ok c /\ sem_eqb (dsem c) (tsem_ev f42_witness) = false /\
            from_tk_trace_ok f42_witness c = true.
Proof. vm_compute. repeat (split; [reflexivity|]). eexists. repeat (split; [reflexivity|]). reflexivity. Qed.

(* ================================================================== tsem_ev is tsem up to the renumbering of commands into events *)
Fixpoint prov_map (f : nat -> nat) (p : prov) : prov :=
  match p with
  | PMeas k => PMeas (f k)
  | PApp id args k => PApp id (map (prov_map f) args) k
  | PZero => PZero
  | PBad => PBad
  end.
Definition constr_map (f : nat -> nat) (c : constr) : constr := (prov_map f (fst c), snd c).
Definition sem_map (f : nat -> nat) (s : list prov * list constr) : list prov * list constr :=
  (map (prov_map f) (fst s), map (constr_map f) (snd s)).

(* the event number of every command *)
Fixpoint ev_nums (psel : list (nat * bool)) (N : nat) (rank : nat -> nat) (cs : list cmd) (k : nat) : list nat :=
  match cs with
  | [] => []
  | c :: cs' => if is_psm psel c then (N + rank (qof c)) :: ev_nums psel N rank cs' k
                else k :: ev_nums psel N rank cs' (S k)
  end.
Definition sigma (t : tkc) (k : nat) : nat :=
  nth k (ev_nums (t_psel t) (n_live (t_psel t) (t_cmds t)) (rankq (bras_of (t_psel t) (t_cmds t) [])) (t_cmds t) 0) 0.

Fixpoint regf_nums (nums : list nat) (cs : list cmd) (i : nat) (init : prov) : prov :=
  match cs, nums with
  | c :: cs', n :: ns => regf_nums ns cs' i (if writes c i then PMeas n else init)
  | _, _ => init
  end.
Lemma ev_run_nums : forall psel N rank cs k R0 i,
  snd (fold_left (ev_step psel N rank) cs (k, R0)) i = regf_nums (ev_nums psel N rank cs k) cs i (R0 i).
Proof.
  intros psel N rank. induction cs as [|c cs IH]; intros k R0 i; [reflexivity|].
  cbn [fold_left ev_nums]. unfold ev_step at 2. destruct (is_psm psel c); cbn [fst snd regf_nums]; rewrite IH; reflexivity.
Qed.
Lemma regf_nums_map : forall (tau : nat -> nat) cs nums j i init,
  length nums = length cs -> (forall m, m < length cs -> tau (j + m) = nth m nums 0) ->
  regf_nums nums cs i (prov_map tau init) = prov_map tau (regf cs j i init).
Proof.
  intros tau. induction cs as [|c cs IH]; intros nums j i init Hl Ht.
  { destruct nums; [reflexivity|discriminate]. }
  destruct nums as [|n ns]; [discriminate|]. cbn [length] in Hl. cbn [regf_nums regf].
  assert (En : n = tau j).
  { specialize (Ht 0 ltac:(cbn; lia)). rewrite Nat.add_0_r in Ht. cbn [nth] in Ht. auto. }
  assert (E : (if writes c i then PMeas n else prov_map tau init) =
              prov_map tau (if writes c i then PMeas j else init)).
  { destruct (writes c i); [rewrite En; reflexivity | reflexivity]. }
  rewrite E. apply IH; [lia|]. intros m Hm. specialize (Ht (S m) ltac:(cbn; lia)).
  cbn [nth] in Ht. rewrite <- Ht. f_equal. lia.
Qed.
Lemma ev_nums_length : forall psel N rank cs k, length (ev_nums psel N rank cs k) = length cs.
Proof.
  intros psel N rank. induction cs as [|c cs IH]; intros k; [reflexivity|].
  cbn [ev_nums]. destruct (is_psm psel c); cbn [length]; rewrite IH; reflexivity.
Qed.
Lemma ev_run_sigma : forall t i, snd (ev_run t) i = prov_map (sigma t) (regR t i).
Proof.
  intros t i. unfold ev_run. rewrite ev_run_nums. unfold regR.
  change PZero with (prov_map (sigma t) PZero) at 1.
  apply regf_nums_map; [apply ev_nums_length|]. intros m _. reflexivity.
Qed.

Lemma app_outputs_map : forall f id args m,
  app_outputs id (map (prov_map f) args) m = map (prov_map f) (app_outputs id args m).
Proof. intros. unfold app_outputs. rewrite map_map. reflexivity. Qed.
Lemma combine_map_l : forall {A B C} (f : A -> B) (l : list A) (l' : list C),
  combine (map f l) l' = map (fun p => (f (fst p), snd p)) (combine l l').
Proof. intros A B C f. induction l as [|a l IH]; intros [|c l']; cbn; auto. rewrite IH. reflexivity. Qed.
Lemma pp_step_map : forall f s pb, pp_step (sem_map f s) pb = sem_map f (pp_step s pb).
Proof.
  intros f [L cs] [p off]. unfold sem_map. cbn [fst snd]. destruct p; cbn [pp_step].
  - rewrite my_skipn_map. destruct (skipn off L) as [|a [|b rest]]; cbn [map fst snd]; try reflexivity.
    rewrite map_app, my_firstn_map. reflexivity.
  - cbn [fst snd]. unfold replace_range. rewrite !map_app, my_firstn_map, !my_skipn_map, my_firstn_map.
    rewrite app_outputs_map. reflexivity.
  - cbn [fst snd]. unfold remove_range. rewrite !map_app, my_firstn_map, !my_skipn_map, my_firstn_map.
    rewrite combine_map_l. reflexivity.
Qed.
Lemma pp_fold_map : forall f boxes s, fold_left pp_step boxes (sem_map f s) = sem_map f (fold_left pp_step boxes s).
Proof.
  intros f. induction boxes as [|pb boxes IH]; intros s; [reflexivity|].
  cbn [fold_left]. rewrite pp_step_map. apply IH.
Qed.

Lemma map_flat_map : forall {A B C} (f : B -> C) (h : A -> list B) l,
  map f (flat_map h l) = flat_map (fun x => map f (h x)) l.
Proof. intros A B C f h l. induction l as [|a l IH]; [reflexivity|]. cbn [flat_map]. rewrite map_app, IH. reflexivity. Qed.

Theorem tsem_ev_renumbers : forall t, cmds_bits_ok (t_nb t) (t_cmds t) = true ->
  tsem_ev t = sem_map (sigma t) (tsem t).
Proof.
  intros t Hb. rewrite (tsem_F t Hb). unfold tsem_ev, keptT, selT.
  assert (K : keptF (t_nb t) (snd (ev_run t)) (selS t) = map (prov_map (sigma t)) (keptF (t_nb t) (regR t) (selS t))).
  { rewrite !keptF_idx, map_map. apply map_ext. intros i. apply ev_run_sigma. }
  assert (S : selF (t_nb t) (snd (ev_run t)) (selS t) = map (constr_map (sigma t)) (selF (t_nb t) (regR t) (selS t))).
  { unfold selF. rewrite map_flat_map.
    apply flat_map_ext. intros i. rewrite ev_run_sigma. destruct (selS t i); reflexivity. }
  rewrite K, S, map_length.
  destruct (Nat.eqb (length (keptF (t_nb t) (regR t) (selS t))) (pp_dom (t_pp t))); cbn [negb].
  - change (map (prov_map (sigma t)) (keptF (t_nb t) (regR t) (selS t)),
            map (constr_map (sigma t)) (selF (t_nb t) (regR t) (selS t)))
      with (sem_map (sigma t) (keptF (t_nb t) (regR t) (selS t), selF (t_nb t) (regR t) (selS t))).
    apply pp_fold_map.
  - reflexivity.
Qed.

(* the routing theorem against tsem itself, commands renumbered into events *)
Theorem from_tk_routing_renumbered : forall fx t sid c,
  fx18 fx = true -> fx33 fx = true -> tk_import_ok t = true ->
  f41_trig (t_psel t) (t_cmds t) = false -> f42_trig (t_psel t) (t_cmds t) = false ->
  no_dangling (t_psel t) (t_cmds t) = true ->
  from_tk fx t sid = Ok c -> sem_eqb (dsem c) (sem_map (sigma t) (tsem t)) = true.
Proof.
  intros fx t sid c H18 H33 Hok H41 H42 Hd H.
  rewrite <- tsem_ev_renumbers.
  - eapply from_tk_routing_lemma; eauto.
  - unfold tk_import_ok in Hok. apply andb_prop in Hok. destruct Hok as [Hok _].
    apply andb_prop in Hok. destruct Hok as [Hok _]. apply andb_prop in Hok. tauto.
Qed.

(* ================================================================== the round trip from_tk (to_tk c), conditionally *)
(* to_tk_routing_layers (export) composed with from_tk_routing_renumbered (import): the bits and
   the constraints of the re-imported circuit are those of the circuit itself, its events
   renumbered by sigma.  The hypotheses on the exported tket circuit t (well-formedness, no
   F41 / F42 trigger, no dangling post-selection) and the success of from_tk are ASSUMED here,
   not derived from to_tk; in Coq from_tk is fed the insertion-order command list of to_tk
   (the implementation sees get_commands() order). *)
Lemma to_tk_tsem_exact : forall fx c t,
  to_tk fx c = Ok t -> no_trigger (to_tk_flags fx c) = true -> tsem t = dsem (prep c).
Proof.
  intros fx c t H Hf. unfold to_tk in H.
  destruct (to_tk_state fx c) as [s|] eqn:E; cbn [bind] in H; [|discriminate].
  inversion H; subst t. unfold to_tk_state in E. unfold to_tk_flags in Hf. unfold dsem.
  apply (to_tk_routing_layers fx (c_dom (prep c)) (c_layers (prep c)) s); auto.
  unfold prep, remove_ket1. cbn [c_layers]. apply ket_free_remove_ket1.
Qed.
Lemma to_tk_cmds_bits_ok : forall fx c t,
  to_tk fx c = Ok t -> no_trigger (to_tk_flags fx c) = true -> cmds_bits_ok (t_nb t) (t_cmds t) = true.
Proof.
  intros fx c t H Hf. unfold to_tk in H.
  destruct (to_tk_state fx c) as [s|] eqn:E; cbn [bind] in H; [|discriminate].
  inversion H; subst t. unfold to_tk_state in E. unfold to_tk_flags in Hf.
  assert (Hk : ket_free (c_layers (prep c)) = true)
    by (unfold prep, remove_ket1; cbn [c_layers]; apply ket_free_remove_ket1).
  pose proof (layers_routing _ _ _ st0 (DS [] 0 []) fl0 s BInv_init Hk E Hf) as I.
  apply (bi_cmds _ _ _ I).
Qed.

Theorem roundtrip_routing_conditional : forall fx c t sid c2,
  fx18 fx = true -> fx33 fx = true ->
  to_tk fx c = Ok t -> no_trigger (to_tk_flags fx c) = true ->
  tk_import_ok t = true ->
  f41_trig (t_psel t) (t_cmds t) = false -> f42_trig (t_psel t) (t_cmds t) = false ->
  no_dangling (t_psel t) (t_cmds t) = true ->
  from_tk fx t sid = Ok c2 ->
  sem_eqb (dsem c2) (sem_map (sigma t) (dsem (prep c))) = true.
Proof.
  intros fx c t sid c2 H18 H33 Ht Hf Hok H41 H42 Hd H.
  rewrite <- (to_tk_tsem_exact fx c t Ht Hf).
  eapply from_tk_routing_renumbered; eauto.
Qed.

(* non-vacuity: on the example circuits of TkRouting and on the former F18 witness every
   hypothesis holds and the re-import succeeds and is well-typed *)
Example roundtrip_examples :
  (exists t c2, to_tk repaired routing_example = Ok t /\ tk_import_ok t = true /\
                f41_trig (t_psel t) (t_cmds t) = false /\ f42_trig (t_psel t) (t_cmds t) = false /\
                no_dangling (t_psel t) (t_cmds t) = true /\
                from_tk repaired t (scalar_flag t) = Ok c2 /\ circuit_ok c2 = true) /\
  (exists t c2, to_tk repaired routing_example_A = Ok t /\ tk_import_ok t = true /\
                f41_trig (t_psel t) (t_cmds t) = false /\ f42_trig (t_psel t) (t_cmds t) = false /\
                no_dangling (t_psel t) (t_cmds t) = true /\
                from_tk repaired t (scalar_flag t) = Ok c2 /\ circuit_ok c2 = true) /\
  (exists t c2, to_tk repaired f18_witness = Ok t /\ tk_import_ok t = true /\
                f41_trig (t_psel t) (t_cmds t) = false /\ f42_trig (t_psel t) (t_cmds t) = false /\
                no_dangling (t_psel t) (t_cmds t) = true /\
                from_tk repaired t (scalar_flag t) = Ok c2 /\ circuit_ok c2 = true).
Proof.
  vm_compute. split; [|split]; eexists; eexists; repeat (split; [reflexivity|]); reflexivity.
Qed.
