(* Proofs about the tket translation model (coq/Tk/Tk.v). *)
From Coq Require Import List ZArith Bool Lia Arith.
Import ListNotations.
Require Import DV.Common.Base DV.Tk.Tk.
Open Scope nat_scope.

(* ------------------------------------------------------------------ angles *)
Lemma dy_half_double : forall d, dy_normal d = true -> dy_half (dy_double d) = d.
Proof.
  intros [n e] H. unfold dy_normal in H. cbn [dexp dnum] in H.
  destruct e as [|e]; unfold dy_double, dy_half; cbn [dexp dnum].
  - rewrite Z.even_mul. cbn [Z.even orb]. f_equal. rewrite (Z.mul_comm 2 n). apply Z.div_mul. lia.
  - destruct e as [|e]; cbn [dexp dnum].
    + rewrite <- Z.negb_odd, H. reflexivity.
    + reflexivity.
Qed.

Lemma dy_double_half : forall d, dy_normal d = true -> dy_double (dy_half d) = d.
Proof.
  intros [n e] H. unfold dy_normal in H. cbn [dexp dnum] in H.
  destruct e as [|e]; unfold dy_double, dy_half; cbn [dexp dnum].
  - destruct (Z.even n) eqn:E; cbn [dexp dnum].
    + f_equal. apply Zeven_bool_iff in E. destruct (Zeven_ex n E) as [k ->].
      rewrite (Z.mul_comm 2 k), Z.div_mul by lia. lia.
    + reflexivity.
  - reflexivity.
Qed.

Lemma dy_double_normal : forall d, dy_normal d = true -> dy_normal (dy_double d) = true.
Proof.
  intros [n e] H. unfold dy_normal in *. cbn [dexp dnum] in *.
  destruct e as [|e]; unfold dy_double; cbn [dexp dnum]; auto.
  destruct e; auto.
Qed.

(* what pytket stores (2 * phase modulo 4) halves back to the phase modulo 2:
   the exported and re-imported rotation is the same matrix *)
Lemma dy_roundtrip_mod : forall d, dy_normal d = true ->
  dy_half (dy_mod4 (dy_double d)) = dy_mod2 d.
Proof.
  intros [n e] H. unfold dy_normal in H. cbn [dexp dnum] in H.
  unfold dy_mod4, dy_mod2, dy_modk.
  destruct e as [|e]; unfold dy_double; cbn [dexp dnum].
  - unfold dy_half; cbn [dexp dnum]. change (2 ^ Z.of_nat 0)%Z with 1%Z.
    rewrite !Z.mul_1_r. change 4%Z with (2 * 2)%Z.
    rewrite Z.mul_mod_distr_l by lia.
    rewrite Z.even_mul. cbn [Z.even orb]. f_equal.
    rewrite Z.mul_comm. apply Z.div_mul. lia.
  - destruct e as [|e]; unfold dy_half; cbn [dexp dnum].
    + change (2 ^ Z.of_nat 0)%Z with 1%Z. change (2 ^ Z.of_nat 1)%Z with 2%Z.
      rewrite Z.mul_1_r. change (2 * 2)%Z with 4%Z.
      assert (Hodd : Z.odd (n mod 4) = true).
      { rewrite Z.mod_eq by lia. rewrite Z.odd_sub, Z.odd_mul. cbn [Z.odd andb]. rewrite H. reflexivity. }
      rewrite <- Z.negb_odd, Hodd. reflexivity.
    + f_equal. f_equal.
      rewrite (Nat2Z.inj_succ (S e)). rewrite Z.pow_succ_r by lia. lia.
Qed.

Example dy_roundtrip_example :
  dy_normal (Dy (-37) 4) = true /\
  dy_half (dy_mod4 (dy_double (Dy (-37) 4))) = Dy 27 4 /\ dy_mod2 (Dy (-37) 4) = Dy 27 4.
Proof. vm_compute. auto. Qed.

(* ------------------------------------------------------------------ list helpers *)
Lemma my_Forall_firstn : forall {A} (P : A -> Prop) k l, Forall P l -> Forall P (firstn k l).
Proof. intros A P k; induction k; intros [|x l] H; simpl; auto. inversion H; subst. constructor; auto. Qed.
Lemma my_Forall_skipn : forall {A} (P : A -> Prop) k l, Forall P l -> Forall P (skipn k l).
Proof. intros A P k; induction k; intros [|x l] H; simpl; auto. inversion H; subst. auto. Qed.
Lemma Forall_remove_range : forall {A} (P : A -> Prop) l i n, Forall P l -> Forall P (remove_range l i n).
Proof. intros. unfold remove_range. apply Forall_app. split; [apply my_Forall_firstn | apply my_Forall_skipn]; auto. Qed.

Lemma my_firstn_map : forall {A B} (f : A -> B) k l, firstn k (map f l) = map f (firstn k l).
Proof. intros A B f k; induction k; intros [|x l]; simpl; auto. f_equal; auto. Qed.
Lemma my_skipn_map : forall {A B} (f : A -> B) k l, skipn k (map f l) = map f (skipn k l).
Proof. intros A B f k; induction k; intros [|x l]; simpl; auto. Qed.
Lemma remove_range_map : forall {A B} (f : A -> B) l i n,
  remove_range (map f l) i n = map f (remove_range l i n).
Proof. intros. unfold remove_range. rewrite map_app, my_firstn_map, my_skipn_map. reflexivity. Qed.
Lemma my_nth_error_map : forall {A B} (f : A -> B) l k,
  nth_error (map f l) k = option_map f (nth_error l k).
Proof. intros A B f l; induction l; intros [|k]; simpl; auto. Qed.
Lemma my_skipn_skipn : forall {A} a b (l : list A), skipn a (skipn b l) = skipn (b + a) l.
Proof. intros A a b; revert a; induction b; intros a l; simpl; auto. destruct l; simpl; auto. destruct a; auto. Qed.
Lemma skipn_cons_nth : forall {A} (l : list A) k a, nth_error l k = Some a -> skipn k l = a :: skipn (S k) l.
Proof. intros A l; induction l; intros [|k] x H; simpl in *; try discriminate. inversion H; auto. auto. Qed.
Lemma nth_error_skipn : forall {A} (l : list A) k j, nth_error (skipn k l) j = nth_error l (k + j).
Proof. intros A l; induction l; intros [|k] j; simpl; auto. destruct j; auto. Qed.

(* strictly increasing lists with all elements in [lo, hi) *)
Fixpoint incr (lo : nat) (l : list nat) (hi : nat) : Prop :=
  match l with
  | [] => lo <= hi
  | x :: r => lo <= x /\ incr (S x) r hi
  end.

Lemma incr_lo_hi : forall l lo hi, incr lo l hi -> lo <= hi.
Proof. induction l; simpl; intros lo hi H; auto. destruct H as [H1 H2]. apply IHl in H2. lia. Qed.
Lemma incr_weaken : forall l lo hi lo' hi', incr lo l hi -> lo' <= lo -> hi <= hi' -> incr lo' l hi'.
Proof.
  induction l; simpl; intros lo hi lo' hi' H H1 H2; [lia|].
  destruct H as [Ha Hr]. split; [lia|]. eapply IHl; eauto.
Qed.
Lemma incr_bounds : forall l lo hi, incr lo l hi -> Forall (fun x => lo <= x /\ x < hi) l.
Proof.
  induction l; simpl; intros lo hi H; constructor.
  - destruct H as [Ha Hr]. apply incr_lo_hi in Hr. lia.
  - destruct H as [Ha Hr]. apply IHl in Hr. eapply Forall_impl; [|exact Hr]. simpl. intros; lia.
Qed.
Lemma incr_app : forall a b lo hi, incr lo (a ++ b) hi <-> exists mid, incr lo a mid /\ incr mid b hi.
Proof.
  induction a; simpl; intros b lo hi.
  - split.
    + intros H. exists lo. split; [lia | exact H].
    + intros [mid [H1 H2]]. eapply incr_weaken; eauto.
  - split.
    + intros [Ha Hr]. apply IHa in Hr. destruct Hr as [mid [H1 H2]]. exists mid. auto.
    + intros [mid [[Ha H1] H2]]. split; auto. apply IHa. exists mid. auto.
Qed.
Lemma incr_shrink_hi : forall l lo hi m, incr lo l hi -> Forall (fun x => x < m) l -> lo <= m -> incr lo l m.
Proof.
  induction l; simpl; intros lo hi m H HF Hm; auto.
  destruct H as [Ha Hr]. inversion HF; subst. split; auto. eapply IHl; eauto.
Qed.
Lemma incr_raise_lo : forall l lo hi m, incr lo l hi -> Forall (fun x => m <= x) l -> m <= hi -> incr m l hi.
Proof.
  destruct l; simpl; intros lo hi m H HF Hm; auto.
  destruct H as [Ha Hr]. inversion HF; subst. split; auto.
Qed.
Lemma incr_seq : forall n start, incr start (seq start n) (start + n).
Proof. induction n; simpl; intros; [lia|]. split; auto. replace (start + S n) with (S start + n) by lia. apply IHn. Qed.
Lemma incr_map_add : forall l lo hi n, incr lo l hi -> incr (lo + n) (map (fun i => i + n) l) (hi + n).
Proof. induction l; simpl; intros lo hi n H; [lia|]. destruct H. split; [lia|]. apply (IHl (S a) hi n). auto. Qed.
Lemma incr_drop_middle : forall a b c lo hi, incr lo (a ++ b ++ c) hi -> incr lo (a ++ c) hi.
Proof.
  intros a b c lo hi H. apply incr_app in H. destruct H as [mid [H1 H2]].
  apply incr_app. exists mid. split; auto.
  apply incr_app in H2. destruct H2 as [mid2 [H3 H4]].
  eapply incr_weaken; eauto. eapply incr_lo_hi; eauto.
Qed.
Lemma incr_remove_range : forall l lo hi i n, incr lo l hi -> incr lo (remove_range l i n) hi.
Proof.
  intros l lo hi i n H. unfold remove_range.
  apply incr_drop_middle with (b := firstn n (skipn i l)).
  rewrite <- (my_skipn_skipn n i l). rewrite (firstn_skipn n (skipn i l)). rewrite firstn_skipn. exact H.
Qed.
Lemma incr_nth : forall l lo hi o r, incr lo l hi -> nth_error l o = Some r ->
  Forall (fun x => x < r) (firstn o l) /\ Forall (fun x => x <= r) (firstn (S o) l) /\
  Forall (fun x => r < x) (skipn (S o) l) /\ lo <= r /\ r < hi.
Proof.
  induction l; intros lo hi o r H Hn; [destruct o; discriminate|].
  destruct H as [Ha Hr]. destruct o as [|o]; simpl in Hn.
  - inversion Hn; subst. simpl.
    split; [constructor|]. split; [constructor; [lia|constructor]|]. split; [|split; [lia|]].
    + apply incr_bounds in Hr. eapply Forall_impl; [|exact Hr]. simpl; intros; lia.
    + apply incr_lo_hi in Hr. lia.
  - destruct (IHl _ _ _ _ Hr Hn) as [H1 [H2 [H3 [H4 H5]]]].
    split; [|split; [|split; [|split; [lia|lia]]]].
    + simpl. constructor; auto; lia.
    + change (firstn (S (S o)) (a :: l)) with (a :: firstn (S o) l). constructor; auto; lia.
    + exact H3.
Qed.

(* ------------------------------------------------------------------ the register invariant *)
Definition ev_labs (e : event) : list nat :=
  match e with EGate _ _ ls => ls | EMeas l => [l] end.

Record Inv (s : st) (q : qst) (rho : nat -> nat) : Prop := {
  inv_qubits : s_qubits s = map rho (q_labs q);
  inv_cmds : map qpart (t_cmds (s_tk s)) = map (relabel rho) (q_events q);
  inv_next : q_next q = t_nq (s_tk s);
  inv_bound : forall l, l < q_next q -> rho l < q_next q;
  inv_inj : forall a b, a < q_next q -> b < q_next q -> rho a = rho b -> a = b;
  inv_live : Forall (fun l => l < q_next q) (q_labs q);
  inv_evs : Forall (fun e => Forall (fun l => l < q_next q) (ev_labs e)) (q_events q);
  inv_sorted : incr 0 (s_qubits s) (t_nq (s_tk s)) }.

Definition mapq3 (f : nat -> nat) (x : Z * option dy * list nat) : Z * option dy * list nat :=
  let '(op, par, qs) := x in (op, par, map f qs).

Lemma qpart_map_q : forall f c, qpart (map_q f c) = mapq3 f (qpart c).
Proof. intros f [op par qs bs]. reflexivity. Qed.
Lemma qpart_map_b : forall f c, qpart (map_b f c) = qpart c.
Proof. intros f [op par qs bs]. reflexivity. Qed.
Lemma relabel_comp : forall f rho e, relabel (fun l => f (rho l)) e = mapq3 f (relabel rho e).
Proof. intros f rho [g ph ls|l]; simpl; [rewrite map_map|]; reflexivity. Qed.
Lemma relabel_ext : forall rho rho' e,
  Forall (fun l => rho l = rho' l) (ev_labs e) -> relabel rho e = relabel rho' e.
Proof.
  intros rho rho' [g ph ls|l] H; simpl in *.
  - f_equal. apply map_ext_in. intros a Ha. rewrite Forall_forall in H. auto.
  - inversion H; subst. congruence.
Qed.
Lemma map_relabel_ext : forall rho rho' evs n,
  Forall (fun e => Forall (fun l => l < n) (ev_labs e)) evs ->
  (forall l, l < n -> rho l = rho' l) ->
  map (relabel rho) evs = map (relabel rho') evs.
Proof.
  intros rho rho' evs n HF Hext. apply map_ext_in. intros e He.
  rewrite Forall_forall in HF. apply relabel_ext.
  eapply Forall_impl; [|apply HF; exact He]. simpl. auto.
Qed.

(* steps that touch neither the qubit registers nor the qubit part of the commands *)
Lemma Inv_same_view : forall s s' q rho,
  Inv s q rho ->
  s_qubits s' = s_qubits s -> t_nq (s_tk s') = t_nq (s_tk s) ->
  map qpart (t_cmds (s_tk s')) = map qpart (t_cmds (s_tk s)) ->
  Inv s' q rho.
Proof.
  intros s s' q rho [H1 H2 H3 H4 H5 H6 H7 H8] Hq Hn Hc.
  constructor; try assumption; try congruence.
Qed.

(* ---- prepare: shifting registers ---- *)
Lemma map_new_labels : forall n a b, map (fun l => b + (l - a)) (seq a n) = seq b n.
Proof.
  induction n; intros a b; simpl; auto. f_equal; [lia|].
  rewrite <- (IHn (S a) (S b)). apply map_ext_in. intros x Hx. apply in_seq in Hx. lia.
Qed.

Lemma prep_start_split : forall regs total off start,
  prep_start regs total off = Ok start -> incr 0 regs total ->
  Forall (fun x => x < start) (firstn off regs) /\ Forall (fun x => start <= x) (skipn off regs) /\
  start <= total.
Proof.
  intros regs total off start H Hs. unfold prep_start in H.
  destruct regs as [|r0 regs'] eqn:E.
  - inversion H; subst. destruct off; simpl; auto.
  - rewrite <- E in *. clear E. destruct off as [|o].
    + inversion H; subst. simpl. repeat split; auto; try lia.
      apply incr_bounds in Hs. eapply Forall_impl; [|exact Hs]. simpl; intros; lia.
    + unfold nth_res in H. destruct (nth_error regs o) eqn:En; simpl in H; [|discriminate].
      inversion H; subst. destruct (incr_nth _ _ _ _ _ Hs En) as [_ [H2 [H3 [_ H5]]]].
      repeat split; try lia.
      * eapply Forall_impl; [|exact H2]. simpl; intros; lia.
      * eapply Forall_impl; [|exact H3]. simpl; intros; lia.
Qed.

Lemma Forall_lt_weaken : forall l n m, Forall (fun x => x < n) l -> n <= m -> Forall (fun x => x < m) l.
Proof. intros. eapply Forall_impl; [|eassumption]. simpl; intros; lia. Qed.
Lemma evs_weaken : forall evs n m,
  Forall (fun e => Forall (fun l => l < n) (ev_labs e)) evs -> n <= m ->
  Forall (fun e => Forall (fun l => l < m) (ev_labs e)) evs.
Proof. intros. eapply Forall_impl; [|eassumption]. simpl; intros. eapply Forall_lt_weaken; eauto. Qed.

Lemma my_In_firstn : forall {A} k (l : list A) x, In x (firstn k l) -> In x l.
Proof. intros A k; induction k; intros [|y l] x H; simpl in *; auto; try contradiction. destruct H; auto. Qed.
Lemma my_In_skipn : forall {A} k (l : list A) x, In x (skipn k l) -> In x l.
Proof. intros A k; induction k; intros [|y l] x H; simpl in *; auto; try contradiction. Qed.

Lemma step_ket : forall s q rho n qoff s',
  Inv s q rho -> prepare_qubits s n qoff = Ok s' ->
  exists rho',
    Inv s' (QS (firstn qoff (q_labs q) ++ seq (q_next q) n ++ skipn qoff (q_labs q))
               (q_next q + n) (q_events q)) rho'.
Proof.
  intros s q rho n qoff s' I H. destruct I as [Iq Ic In Ib Ii Il Ie Is].
  unfold prepare_qubits in H.
  destruct (prep_start (s_qubits s) (t_nq (s_tk s)) qoff) as [start|] eqn:Es; simpl in H; [|discriminate].
  inversion H; subst s'; clear H.
  destruct (prep_start_split _ _ _ _ Es Is) as [Hlt [Hge Hle]].
  set (next := q_next q) in *.
  exists (fun l => if l <? next then shift_from start n (rho l) else start + (l - next)).
  assert (Hold : forall l, l < next ->
            (if l <? next then shift_from start n (rho l) else start + (l - next)) = shift_from start n (rho l)).
  { intros l Hl. destruct (Nat.ltb_spec l next); auto; lia. }
  constructor; cbn [s_qubits s_tk t_nq t_cmds q_labs q_next q_events].
  - (* qubits *)
    unfold prep_regs. rewrite !map_app. f_equal; [|f_equal].
    + rewrite Iq, my_firstn_map. apply map_ext_in. intros a Ha.
      assert (a < next). { rewrite Forall_forall in Il. apply Il. eapply my_In_firstn; eauto. }
      rewrite Hold by auto. unfold shift_from.
      assert (rho a < start).
      { rewrite Iq, my_firstn_map in Hlt. rewrite Forall_forall in Hlt. apply Hlt. apply in_map. auto. }
      destruct (Nat.leb_spec start (rho a)); auto; lia.
    + rewrite <- (map_new_labels n next start). apply map_ext_in. intros a Ha. apply in_seq in Ha.
      destruct (Nat.ltb_spec a next); auto; lia.
    + rewrite Iq, my_skipn_map, map_map. apply map_ext_in. intros a Ha.
      assert (a < next). { rewrite Forall_forall in Il. apply Il. eapply my_In_skipn; eauto. }
      rewrite Hold by auto. unfold shift_from.
      assert (start <= rho a).
      { rewrite Iq, my_skipn_map in Hge. rewrite Forall_forall in Hge. apply Hge. apply in_map. auto. }
      destruct (Nat.leb_spec start (rho a)); auto; lia.
  - (* commands *)
    rewrite map_map.
    erewrite (map_ext (fun x => qpart (map_q (shift_from start n) x))
                      (fun x => mapq3 (shift_from start n) (qpart x))) by (intros; apply qpart_map_q).
    rewrite <- (map_map qpart (mapq3 (shift_from start n))). rewrite Ic. rewrite map_map.
    erewrite (map_ext (fun x => mapq3 (shift_from start n) (relabel rho x))
                      (relabel (fun l => shift_from start n (rho l)))) by (intros; symmetry; apply relabel_comp).
    apply map_relabel_ext with (n := next); auto.
    intros l Hl. symmetry. apply Hold. auto.
  - lia.
  - intros l Hl. destruct (Nat.ltb_spec l next).
    + specialize (Ib l H). unfold shift_from. destruct (start <=? rho l); lia.
    + lia.
  - intros a b Ha Hb Hab.
    destruct (Nat.ltb_spec a next); destruct (Nat.ltb_spec b next).
    + apply Ii; auto. unfold shift_from in Hab.
      destruct (Nat.leb_spec start (rho a)); destruct (Nat.leb_spec start (rho b)); lia.
    + unfold shift_from in Hab. destruct (Nat.leb_spec start (rho a)); lia.
    + unfold shift_from in Hab. destruct (Nat.leb_spec start (rho b)); lia.
    + lia.
  - apply Forall_app. split; [|apply Forall_app; split].
    + apply my_Forall_firstn. eapply Forall_lt_weaken; eauto. lia.
    + apply Forall_forall. intros x Hx. apply in_seq in Hx. lia.
    + apply my_Forall_skipn. eapply Forall_lt_weaken; eauto. lia.
  - eapply evs_weaken; eauto. lia.
  - unfold prep_regs. apply incr_app. exists start. split.
    + assert (H0 : incr 0 (firstn qoff (s_qubits s) ++ skipn qoff (s_qubits s)) (t_nq (s_tk s)))
        by (rewrite firstn_skipn; auto).
      apply incr_app in H0. destruct H0 as [mid [H1 H2]].
      eapply incr_shrink_hi; eauto. lia.
    + apply incr_app. exists (start + n). split; [apply incr_seq|].
      assert (H0 : incr 0 (firstn qoff (s_qubits s) ++ skipn qoff (s_qubits s)) (t_nq (s_tk s)))
        by (rewrite firstn_skipn; auto).
      apply incr_app in H0. destruct H0 as [mid [H1 H2]].
      apply incr_map_add. eapply incr_raise_lo; eauto.
Qed.

(* ---- loops of to_tk: effect on n_qubits and on the qubit part of the commands ---- *)
Definition meas_cmds (rs : list nat) : list (Z * option dy * list nat) :=
  map (fun r => (op_Measure, None, [r])) rs.

Lemma tk_add_bit_view : forall t o t', tk_add_bit t o = Ok t' ->
  t_nq t' = t_nq t /\ t_cmds t' = t_cmds t.
Proof.
  intros t o t' H. unfold tk_add_bit in H.
  destruct (match o with None => Ok (t_pp t) | Some o0 => pp_add_bit (t_pp t) o0 end); simpl in H; [|discriminate].
  inversion H; subst. simpl. auto.
Qed.
Lemma add_bits_loop_view : forall n t o t', add_bits_loop t o n = Ok t' ->
  t_nq t' = t_nq t /\ t_cmds t' = t_cmds t.
Proof.
  induction n; simpl; intros t o t' H.
  - inversion H; subst; auto.
  - destruct (tk_add_bit t (Some o)) eqn:E; simpl in H; [|discriminate].
    apply tk_add_bit_view in E. apply IHn in H. destruct E, H. split; congruence.
Qed.

Lemma firstn_S_skipn : forall {A} (l : list A) k n a,
  nth_error l k = Some a -> firstn (S n) (skipn k l) = a :: firstn n (skipn (S k) l).
Proof. intros. rewrite (skipn_cons_nth l k a) by auto. reflexivity. Qed.

Lemma measure_loop_view : forall fx n t bits qubits bras boff qoff j t' bits',
  measure_loop fx t bits qubits bras boff qoff j n = Ok (t', bits') ->
  t_nq t' = t_nq t /\
  map qpart (t_cmds t') = map qpart (t_cmds t) ++ meas_cmds (firstn n (skipn (qoff + j) qubits)) /\
  length (firstn n (skipn (qoff + j) qubits)) = n.
Proof.
  intros fx. induction n; intros t bits qubits bras boff qoff j t' bits' H; simpl in H.
  - inversion H; subst. simpl. rewrite app_nil_r. auto.
  - unfold nth_res in H. destruct (nth_error qubits (qoff + j)) as [iq|] eqn:Eq; simpl in H; [|discriminate].
    match type of H with context [tk_add_bit t ?o] =>
      destruct (tk_add_bit t o) as [t1|] eqn:E1 end; simpl in H; [|discriminate].
    apply tk_add_bit_view in E1. destruct E1 as [E1n E1c].
    rewrite (firstn_S_skipn _ _ _ _ Eq).
    destruct bras as [bs|].
    + destruct (nth_error bs j); simpl in H; [|discriminate].
      apply IHn in H. cbn [t_nq t_cmds add_cmd set_cmds] in H. destruct H as [Hn [Hc Hl]].
      replace (qoff + S j) with (S (qoff + j)) in * by lia.
      split; [congruence|]. split.
      * rewrite Hc, E1c, map_app. simpl. rewrite <- app_assoc. reflexivity.
      * cbn [length]. rewrite Hl. reflexivity.
    + apply IHn in H. cbn [t_nq t_cmds add_cmd set_cmds] in H. destruct H as [Hn [Hc Hl]].
      replace (qoff + S j) with (S (qoff + j)) in * by lia.
      split; [congruence|]. split.
      * rewrite Hc, E1c, map_app. simpl. rewrite <- app_assoc. reflexivity.
      * cbn [length]. rewrite Hl. reflexivity.
Qed.

Lemma measure_override_view : forall n t bits qubits boff qoff j t',
  measure_override t bits qubits boff qoff j n = Ok t' ->
  t_nq t' = t_nq t /\
  map qpart (t_cmds t') = map qpart (t_cmds t) ++ meas_cmds (firstn n (skipn (qoff + j) qubits)) /\
  length (firstn n (skipn (qoff + j) qubits)) = n.
Proof.
  induction n; intros t bits qubits boff qoff j t' H; simpl in H.
  - inversion H; subst. simpl. rewrite app_nil_r. auto.
  - unfold nth_res in H. destruct (nth_error bits (boff + j)); simpl in H; [|discriminate].
    destruct (nth_error qubits (qoff + j)) as [iq|] eqn:Eq; simpl in H; [|discriminate].
    rewrite (firstn_S_skipn _ _ _ _ Eq).
    apply IHn in H. cbn [t_nq t_cmds add_cmd set_cmds] in H. destruct H as [Hn [Hc Hl]].
    replace (qoff + S j) with (S (qoff + j)) in * by lia.
    split; [congruence|]. split.
    + rewrite Hc, map_app. simpl. rewrite <- app_assoc. reflexivity.
    + cbn [length]. rewrite Hl. reflexivity.
Qed.

Lemma index_range_spec : forall n regs off rs,
  index_range regs off n = Ok rs -> rs = firstn n (skipn off regs) /\ length rs = n.
Proof.
  induction n; intros regs off rs H; simpl in H.
  - inversion H; subst. auto.
  - unfold nth_res in H. destruct (nth_error regs off) as [r|] eqn:E; simpl in H; [|discriminate].
    destruct (index_range regs (S off) n) as [rs'|] eqn:E2; simpl in H; [|discriminate].
    inversion H; subst. apply IHn in E2. destruct E2 as [E2 E3].
    rewrite (firstn_S_skipn _ _ _ _ E). split; [congruence | cbn [length]; congruence].
Qed.

(* ---- generic invariant-preservation lemmas ---- *)
Lemma Inv_remove : forall s q rho s' i n,
  Inv s q rho ->
  s_qubits s' = remove_range (s_qubits s) i n -> t_nq (s_tk s') = t_nq (s_tk s) ->
  map qpart (t_cmds (s_tk s')) = map qpart (t_cmds (s_tk s)) ->
  Inv s' (QS (remove_range (q_labs q) i n) (q_next q) (q_events q)) rho.
Proof.
  intros s q rho s' i n [Iq Ic In Ib Ii Il Ie Is] Hq Hn Hc.
  constructor; cbn [q_labs q_next q_events]; try assumption; try congruence.
  - rewrite Hq, Iq. apply remove_range_map.
  - apply Forall_remove_range. auto.
  - rewrite Hq, Hn. apply incr_remove_range. auto.
Qed.

Lemma Inv_events : forall s q rho s' evs,
  Inv s q rho ->
  s_qubits s' = s_qubits s -> t_nq (s_tk s') = t_nq (s_tk s) ->
  map qpart (t_cmds (s_tk s')) = map qpart (t_cmds (s_tk s)) ++ map (relabel rho) evs ->
  Forall (fun e => Forall (fun l => l < q_next q) (ev_labs e)) evs ->
  Inv s' (QS (q_labs q) (q_next q) (q_events q ++ evs)) rho.
Proof.
  intros s q rho s' evs [Iq Ic In Ib Ii Il Ie Is] Hq Hn Hc He.
  constructor; cbn [q_labs q_next q_events]; try assumption; try congruence.
  - rewrite Hc, Ic, map_app. reflexivity.
  - apply Forall_app. auto.
Qed.

Lemma meas_cmds_relabel : forall rho labs,
  meas_cmds (map rho labs) = map (relabel rho) (map EMeas labs).
Proof. intros. unfold meas_cmds. rewrite !map_map. reflexivity. Qed.

Lemma sub_labels : forall (labs : list nat) qoff n next,
  Forall (fun l => l < next) labs ->
  Forall (fun e => Forall (fun l => l < next) (ev_labs e)) (map EMeas (firstn n (skipn qoff labs))).
Proof.
  intros. apply Forall_forall. intros e He. apply in_map_iff in He. destruct He as [l [<- Hl]].
  simpl. constructor; [|constructor]. rewrite Forall_forall in H. apply H.
  eapply my_In_skipn. eapply my_In_firstn. eauto.
Qed.

(* measuring n qubits at qubit offset qoff, optionally removing them *)
Lemma step_measure : forall s q rho s' qoff n (rm : bool),
  Inv s q rho ->
  s_qubits s' = (if rm then remove_range (s_qubits s) qoff n else s_qubits s) ->
  t_nq (s_tk s') = t_nq (s_tk s) ->
  map qpart (t_cmds (s_tk s')) =
    map qpart (t_cmds (s_tk s)) ++ meas_cmds (firstn n (skipn qoff (s_qubits s))) ->
  length (firstn n (skipn qoff (s_qubits s))) = n ->
  length (firstn n (skipn qoff (q_labs q))) = n /\
  Inv s' (QS (if rm then remove_range (q_labs q) qoff n else q_labs q) (q_next q)
             (q_events q ++ map EMeas (firstn n (skipn qoff (q_labs q))))) rho.
Proof.
  intros s q rho s' qoff n rm I Hq Hn Hc Hl.
  assert (Iq := inv_qubits _ _ _ I).
  split.
  - rewrite Iq, my_skipn_map, my_firstn_map, map_length in Hl. exact Hl.
  - set (s1 := ST (s_tk s') (s_bits s') (s_qubits s)).
    assert (I1 : Inv s1 (QS (q_labs q) (q_next q)
                            (q_events q ++ map EMeas (firstn n (skipn qoff (q_labs q))))) rho).
    { apply (Inv_events s q rho s1); auto.
      - simpl. rewrite Hc. f_equal. rewrite Iq, my_skipn_map, my_firstn_map. apply meas_cmds_relabel.
      - apply sub_labels. apply (inv_live _ _ _ I). }
    destruct rm.
    + apply (Inv_remove s1 _ rho s' qoff n) in I1; auto.
    + eapply Inv_same_view; eauto.
Qed.

(* ---- swap of two adjacent qubits ---- *)
Lemma transpose_inj : forall i j a b, transpose i j a = transpose i j b -> a = b.
Proof.
  intros i j a b. unfold transpose.
  destruct (Nat.eqb_spec a i); destruct (Nat.eqb_spec a j);
  destruct (Nat.eqb_spec b i); destruct (Nat.eqb_spec b j); lia.
Qed.

Lemma step_swap : forall s q rho qoff i j,
  Inv s q rho ->
  nth_error (s_qubits s) qoff = Some i -> nth_error (s_qubits s) (S qoff) = Some j ->
  exists a b rest,
    skipn qoff (q_labs q) = a :: b :: rest /\
    Inv (ST (swap_qubits (s_tk s) i j) (s_bits s) (s_qubits s))
        (QS (firstn qoff (q_labs q) ++ b :: a :: rest) (q_next q) (q_events q))
        (fun l => transpose i j (rho l)).
Proof.
  intros s q rho qoff i j I Hi Hj. destruct I as [Iq Ic In Ib Ii Il Ie Is].
  assert (Hi' := Hi). assert (Hj' := Hj).
  rewrite Iq, my_nth_error_map in Hi', Hj'.
  destruct (nth_error (q_labs q) qoff) as [a|] eqn:Ea; simpl in Hi'; [|discriminate].
  destruct (nth_error (q_labs q) (S qoff)) as [b|] eqn:Eb; simpl in Hj'; [|discriminate].
  inversion Hi'; inversion Hj'; subst i j. clear Hi' Hj'.
  exists a, b, (skipn (S (S qoff)) (q_labs q)).
  assert (Hsk : skipn qoff (q_labs q) = a :: b :: skipn (S (S qoff)) (q_labs q)).
  { rewrite (skipn_cons_nth _ _ _ Ea). f_equal. apply skipn_cons_nth. auto. }
  split; [exact Hsk|].
  assert (Hlabs : q_labs q = firstn qoff (q_labs q) ++ a :: b :: skipn (S (S qoff)) (q_labs q)).
  { rewrite <- Hsk. symmetry. apply firstn_skipn. }
  destruct (incr_nth _ _ _ _ _ Is Hi) as [Hlt [_ [Hgt [_ Hai]]]].
  destruct (incr_nth _ _ _ _ _ Is Hj) as [_ [Hle [Hgt2 [_ Hbj]]]].
  assert (Hab : rho a < rho b).
  { rewrite Forall_forall in Hgt. apply Hgt. rewrite (skipn_cons_nth _ _ _ Hj). left. auto. }
  constructor; cbn [s_qubits s_tk t_nq t_cmds q_labs q_next q_events swap_qubits set_cmds].
  - rewrite Iq at 1. rewrite Hlabs at 1. rewrite !map_app. cbn [map].
    f_equal; [|f_equal; [|f_equal]].
    + apply map_ext_in. intros x Hx.
      assert (rho x < rho a).
      { rewrite Iq, my_firstn_map in Hlt. rewrite Forall_forall in Hlt. apply Hlt. apply in_map. auto. }
      unfold transpose. destruct (Nat.eqb_spec (rho x) (rho a)); destruct (Nat.eqb_spec (rho x) (rho b)); lia.
    + unfold transpose. destruct (Nat.eqb_spec (rho b) (rho a)); auto.
      destruct (Nat.eqb_spec (rho b) (rho b)); auto; lia.
    + unfold transpose. destruct (Nat.eqb_spec (rho a) (rho a)); auto; lia.
    + apply map_ext_in. intros x Hx.
      assert (rho b < rho x).
      { rewrite Iq, my_skipn_map in Hgt2. rewrite Forall_forall in Hgt2. apply Hgt2. apply in_map. auto. }
      unfold transpose. destruct (Nat.eqb_spec (rho x) (rho a)); destruct (Nat.eqb_spec (rho x) (rho b)); lia.
  - rewrite map_map.
    erewrite (map_ext (fun x => qpart (map_q (transpose (rho a) (rho b)) x))
                      (fun x => mapq3 (transpose (rho a) (rho b)) (qpart x))) by (intros; apply qpart_map_q).
    rewrite <- (map_map qpart (mapq3 (transpose (rho a) (rho b)))). rewrite Ic. rewrite map_map.
    apply map_ext. intros e. symmetry. apply relabel_comp.
  - exact In.
  - intros l Hl. specialize (Ib l Hl). unfold transpose.
    destruct (Nat.eqb_spec (rho l) (rho a)); [lia|]. destruct (Nat.eqb_spec (rho l) (rho b)); lia.
  - intros x y Hx Hy Hxy. apply transpose_inj in Hxy. auto.
  - rewrite Hlabs in Il. apply Forall_app in Il. destruct Il as [Il1 Il2].
    inversion Il2 as [|? ? Ha Il3]; subst. inversion Il3 as [|? ? Hb Il4]; subst.
    apply Forall_app. split; auto.
  - exact Ie.
  - exact Is.
Qed.

(* ------------------------------------------------------------------ one layer *)
(* the pinned code mishandles destructive overriding measurements (F34) *)
Definition box_allowed (fx : fixes) (b : box) : bool :=
  match b with BMeasure _ true true => fx34 fx | _ => true end.
Definition layers_allowed (fx : fixes) (ls : list layer) : bool :=
  forallb (fun l => box_allowed fx (fst l)) ls.

Lemma step_sim : forall fx scan s q rho l s',
  Inv s q rho -> to_tk_step fx scan s l = Ok s' -> box_allowed fx (fst l) = true ->
  exists q' rho', qtrace_step scan q l = Some q' /\ Inv s' q' rho'.
Proof.
  intros fx scan s q rho [b off] s' I H Hal. unfold to_tk_step in H. unfold qtrace_step.
  set (qoff := countq (firstn off scan)) in *. set (boff := countb (firstn off scan)) in *.
  destruct b as [bs|bs|bs dag|g n ph|wl wr|n destr over|d|id mixed|id n m|id d c]; simpl in Hal.
  - (* Ket *)
    destruct (step_ket _ _ _ _ _ _ I H) as [rho' I']. eauto.
  - (* Bra *)
    destruct (measure_loop fx (s_tk s) (s_bits s) (s_qubits s) (Some bs) boff qoff 0 (length bs))
      as [[t' bits']|] eqn:E; simpl in H; [|discriminate].
    inversion H; subst s'; clear H.
    apply measure_loop_view in E. rewrite Nat.add_0_r in E. destruct E as [En [Ec El]].
    destruct (step_measure s q rho
                (ST t' bits' (remove_range (s_qubits s) qoff (length bs))) qoff (length bs) true I)
      as [Hlen I']; auto.
    rewrite Hlen, Nat.eqb_refl. eauto.
  - (* Bits *)
    destruct dag.
    + destruct (pp_post_process (t_pp (s_tk s)) boff (PBitsDag bs)); simpl in H; [|discriminate].
      inversion H; subst s'. exists q, rho. split; auto. eapply Inv_same_view; eauto.
    + destruct (existsb (fun x => x) bs); [discriminate|].
      unfold prepare_bits in H.
      destruct (prep_start (s_bits s) (t_nb (s_tk s)) boff); simpl in H; [|discriminate].
      match type of H with context [add_bits_loop ?t1 ?o ?n] =>
        destruct (add_bits_loop t1 o n) as [t2|] eqn:E; simpl in H; [|discriminate] end.
      inversion H; subst s'. apply add_bits_loop_view in E. cbn [t_nq t_cmds] in E. destruct E as [En Ec].
      exists q, rho. split; auto. eapply Inv_same_view; eauto; cbn [s_tk s_qubits]; auto.
      rewrite Ec, map_map. apply map_ext. intros. apply qpart_map_b.
  - (* Gate *)
    destruct (index_range (s_qubits s) qoff n) as [iqs|] eqn:E; simpl in H; [|discriminate].
    destruct (gate_param g ph) as [par|] eqn:Ep; simpl in H; [|discriminate].
    inversion H; subst s'; clear H.
    apply index_range_spec in E. destruct E as [E El].
    assert (Iq := inv_qubits _ _ _ I).
    assert (Hlen : length (firstn n (skipn qoff (q_labs q))) = n).
    { rewrite E in El. rewrite Iq, my_skipn_map, my_firstn_map, map_length in El. exact El. }
    rewrite Hlen, Nat.eqb_refl. exists (QS (q_labs q) (q_next q) (q_events q ++ [EGate g ph (firstn n (skipn qoff (q_labs q)))])), rho.
    split; auto.
    apply (Inv_events s q rho); auto.
    + cbn [s_tk t_cmds add_cmd set_cmds]. rewrite map_app. f_equal. cbn [map relabel qpart c_op c_par c_qs].
      unfold gate_param in Ep. rewrite E, Iq, my_skipn_map, my_firstn_map.
      destruct (is_rot g); [inversion Ep; reflexivity|].
      destruct (tk_has_attr g); [inversion Ep; reflexivity | discriminate].
    + constructor; [|constructor]. simpl. apply my_Forall_firstn, my_Forall_skipn. apply (inv_live _ _ _ I).
  - (* Swap *)
    destruct wl, wr.
    + (* bit bit *)
      destruct (pp_boxes (t_pp (s_tk s))).
      * unfold nth_res in H. destruct (nth_error (s_bits s) boff); cbn [bind] in H; [|discriminate].
        destruct (nth_error (s_bits s) (S boff)); cbn [bind] in H; [|discriminate].
        inversion H; subst s'. exists q, rho. split; auto.
        eapply Inv_same_view; eauto. cbn [s_tk swap_bits t_cmds].
        rewrite map_map. apply map_ext. intros. apply qpart_map_b.
      * destruct (pp_post_process (t_pp (s_tk s)) boff PSwap); cbn [bind] in H; [|discriminate].
        inversion H; subst s'. exists q, rho. split; auto. eapply Inv_same_view; eauto.
    + inversion H; subst s'. eauto.
    + inversion H; subst s'. eauto.
    + unfold nth_res in H.
      destruct (nth_error (s_qubits s) qoff) as [i|] eqn:Ei; cbn [bind] in H; [|discriminate].
      destruct (nth_error (s_qubits s) (S qoff)) as [j|] eqn:Ej; cbn [bind] in H; [|discriminate].
      inversion H; subst s'.
      destruct (step_swap _ _ _ _ _ _ I Ei Ej) as [a [b' [rest [Hsk I']]]].
      rewrite Hsk. eauto.
  - (* Measure *)
    destruct over.
    + destruct (measure_override (s_tk s) (s_bits s) (s_qubits s) boff qoff 0 n) as [t'|] eqn:E;
        simpl in H; [|discriminate].
      inversion H; subst s'; clear H.
      apply measure_override_view in E. rewrite Nat.add_0_r in E. destruct E as [En [Ec El]].
      assert (Hrm : (fx34 fx && destr) = destr).
      { destruct destr; [simpl in Hal; rewrite Hal|]; auto. apply andb_false_r. }
      rewrite Hrm.
      destruct (step_measure s q rho
                  (ST t' (s_bits s) (if destr then remove_range (s_qubits s) qoff n else s_qubits s))
                  qoff n destr I) as [Hlen I']; auto.
      rewrite Hlen, Nat.eqb_refl. eauto.
    + destruct (measure_loop fx (s_tk s) (s_bits s) (s_qubits s) None boff qoff 0 n)
        as [[t' bits']|] eqn:E; simpl in H; [|discriminate].
      inversion H; subst s'; clear H.
      apply measure_loop_view in E. rewrite Nat.add_0_r in E. destruct E as [En [Ec El]].
      destruct (step_measure s q rho
                  (ST t' bits' (if destr then remove_range (s_qubits s) qoff n else s_qubits s))
                  qoff n destr I) as [Hlen I']; auto.
      rewrite Hlen, Nat.eqb_refl. eauto.
  - (* Discard *)
    match type of H with context [bind ?x _] => destruct x as [p|]; cbn [bind] in H; [|discriminate] end.
    inversion H; subst s'. eexists _, rho. split; [reflexivity|].
    eapply Inv_remove; eauto.
  - (* Scalar *)
    inversion H; subst s'. exists q, rho. split; auto. eapply Inv_same_view; eauto.
  - (* Classical *)
    destruct (pp_post_process (t_pp (s_tk s)) boff (PClass id n m)); simpl in H; [|discriminate].
    inversion H; subst s'. exists q, rho. split; auto. eapply Inv_same_view; eauto.
  - discriminate.
Qed.

(* ------------------------------------------------------------------ all layers *)
Lemma layers_sim : forall fx ls scan s q rho s',
  Inv s q rho -> to_tk_layers fx scan s ls = Ok s' -> layers_allowed fx ls = true ->
  exists q' rho', qtrace_layers scan q ls = Some q' /\ Inv s' q' rho'.
Proof.
  intros fx. induction ls as [|l ls IH]; intros scan s q rho s' I H Hal; simpl in *.
  - inversion H; subst. eauto.
  - apply andb_prop in Hal. destruct Hal as [Hl Hls].
    destruct (to_tk_step fx scan s l) as [s1|] eqn:E; simpl in H; [|discriminate].
    destruct (step_sim _ _ _ _ _ _ _ I E Hl) as [q1 [rho1 [Hq1 I1]]].
    rewrite Hq1. eapply IH; eauto.
Qed.

Lemma Inv_init : Inv st0 (QS [] 0 []) (fun l => l).
Proof. constructor; simpl; auto; intros; lia. Qed.

(* a run on ls1 ++ ls2 passes through a successful run on the prefix ls1 *)
Lemma to_tk_layers_app : forall fx ls1 ls2 scan s s',
  to_tk_layers fx scan s (ls1 ++ ls2) = Ok s' ->
  exists s1, to_tk_layers fx scan s ls1 = Ok s1 /\
             to_tk_layers fx (fold_left step_ty ls1 scan) s1 ls2 = Ok s'.
Proof.
  intros fx. induction ls1 as [|l ls1 IH]; intros ls2 scan s s' H; simpl in *.
  - eauto.
  - destruct (to_tk_step fx scan s l) as [s1|]; simpl in *; [|discriminate]. apply IH. exact H.
Qed.

(* the register invariant in plain terms *)
Definition registers_ok (s : st) (q : qst) (rho : nat -> nat) : Prop :=
  s_qubits s = map rho (q_labs q) /\                         (* wire k is carried by register rho(label k) *)
  incr 0 (s_qubits s) (t_nq (s_tk s)) /\                     (* strictly increasing, below n_qubits *)
  length (s_qubits s) = length (q_labs q) /\
  (forall a b, a < q_next q -> b < q_next q -> rho a = rho b -> a = b) /\
  q_next q = t_nq (s_tk s).

Theorem to_tk_registers_inv_lemma : forall fx dom ls1 ls2 s',
  to_tk_layers fx dom st0 (ls1 ++ ls2) = Ok s' -> layers_allowed fx (ls1 ++ ls2) = true ->
  exists s1 q1 rho1,
    to_tk_layers fx dom st0 ls1 = Ok s1 /\
    qtrace_layers dom (QS [] 0 []) ls1 = Some q1 /\
    registers_ok s1 q1 rho1.
Proof.
  intros fx dom ls1 ls2 s' H Hal.
  destruct (to_tk_layers_app _ _ _ _ _ _ H) as [s1 [H1 _]].
  unfold layers_allowed in Hal. rewrite forallb_app in Hal. apply andb_prop in Hal. destruct Hal as [Hal1 _].
  destruct (layers_sim _ _ _ _ _ _ _ Inv_init H1 Hal1) as [q1 [rho1 [Hq I1]]].
  exists s1, q1, rho1. split; auto. split; auto.
  destruct I1 as [Iq Ic In Ib Ii Il Ie Is]. unfold registers_ok. repeat split; auto.
  rewrite Iq, map_length. reflexivity.
Qed.

Theorem to_tk_refines_trace_lemma : forall fx dom ls s',
  to_tk_layers fx dom st0 ls = Ok s' -> layers_allowed fx ls = true ->
  exists q rho,
    qtrace_layers dom (QS [] 0 []) ls = Some q /\
    (forall a b, a < q_next q -> b < q_next q -> rho a = rho b -> a = b) /\
    Forall (fun e => Forall (fun l => l < q_next q) (ev_labs e)) (q_events q) /\
    map qpart (t_cmds (s_tk s')) = map (relabel rho) (q_events q).
Proof.
  intros fx dom ls s' H Hal.
  destruct (layers_sim _ _ _ _ _ _ _ Inv_init H Hal) as [q [rho [Hq I]]].
  exists q, rho. destruct I. auto.
Qed.

(* prep adds no Measure box *)
Lemma allowed_x_layers : forall fx bs off, layers_allowed fx (x_layers bs off) = true.
Proof. intros fx. induction bs as [|b bs IH]; intros off; simpl; auto. destruct b; simpl; auto. Qed.
Lemma allowed_app : forall fx a b, layers_allowed fx (a ++ b) = layers_allowed fx a && layers_allowed fx b.
Proof. intros. apply forallb_app. Qed.
Lemma allowed_init : forall fx dom k, layers_allowed fx (init_layers dom k) = true.
Proof. intros fx. induction dom as [|w dom IH]; intros k; simpl; auto. destruct w; simpl; auto. Qed.
Lemma allowed_discard : forall fx cod k, layers_allowed fx (discard_layers cod k) = true.
Proof. intros fx. induction cod as [|w cod IH]; intros k; simpl; auto. destruct w; simpl; auto. Qed.
Lemma allowed_remove_ket1 : forall fx ls,
  layers_allowed fx (flat_map remove_ket1_layer ls) = layers_allowed fx ls.
Proof.
  intros fx. induction ls as [|[b off] ls IH]; simpl; auto.
  destruct b; simpl; rewrite ?IH; auto.
  fold (layers_allowed fx (x_layers bs off ++ flat_map remove_ket1_layer ls)).
  rewrite allowed_app, allowed_x_layers, IH. reflexivity.
Qed.
Lemma allowed_prep : forall fx c, layers_allowed fx (c_layers (prep c)) = layers_allowed fx (c_layers c).
Proof.
  intros fx c. unfold prep, remove_ket1, init_and_discard. cbn [c_layers].
  rewrite allowed_remove_ket1, !allowed_app, allowed_init. simpl.
  destruct (Nat.eqb _ 0); simpl; [|rewrite allowed_discard]; rewrite andb_true_r; reflexivity.
Qed.

(* the headline statement, for circuits *)
Theorem to_tk_refines_trace_circuit : forall fx c s,
  to_tk_state fx c = Ok s -> layers_allowed fx (c_layers c) = true ->
  exists q rho,
    qtrace (prep c) = Some q /\
    (forall a b, a < q_next q -> b < q_next q -> rho a = rho b -> a = b) /\
    map qpart (t_cmds (s_tk s)) = map (relabel rho) (q_events q).
Proof.
  intros fx c s H Hal. unfold to_tk_state in H. rewrite <- allowed_prep in Hal.
  destruct (to_tk_refines_trace_lemma _ _ _ _ H Hal) as [q [rho [H1 [H2 [_ H3]]]]].
  exists q, rho. auto.
Qed.

(* non-vacuity: a circuit with a mid-circuit preparation between two swapped qubits,
   a post-selection and measurements satisfies the hypotheses, and its trace is the expected one *)
Definition example_circuit : circuit :=
  Circ [] [(BKet [true; false], 0); (BSwap WQubit WQubit, 0); (BKet [false], 1);
           (BGate 7 2 (Dy 0 0), 1); (BGate g_Rx 1 (Dy 5 4), 0); (BBra [false], 1);
           (BMeasure 2 true false, 0)].
Example example_runs :
  layers_allowed pinned (c_layers example_circuit) = true /\
  (exists s, to_tk_state pinned example_circuit = Ok s /\
             map qpart (t_cmds (s_tk s)) =
               [(4%Z, None, [2]); (7%Z, None, [1; 2]); (g_Rx, Some (Dy 5 3), [0]);
                (0%Z, None, [1]); (0%Z, None, [0]); (0%Z, None, [2])] /\
             s_qubits s = [] /\ s_bits s = [1; 2] /\ t_psel (s_tk s) = [(0, false)]) /\
  option_map q_events (qtrace (prep example_circuit)) =
    Some [EGate 4 (Dy 0 0) [0]; EGate 7 (Dy 0 0) [2; 0]; EGate g_Rx (Dy 5 4) [1];
          EMeas 2; EMeas 1; EMeas 0].
Proof. vm_compute. split; auto. split; eauto 10. Qed.

(* well-formedness of a tket circuit handed to from_tk *)
Definition cmds_in_range (nq : nat) (cs : list cmd) : bool :=
  forallb (fun c => forallb (fun q => q <? nq) (c_qs c)) cs.
Definition pp_layers (p : ppd) : list layer := map (fun '(b, o) => (pbox_to_box b, o)) (pp_boxes p).
Definition pp_ok (p : ppd) : bool := layers_ok (rep (pp_dom p) WBit) (pp_layers p).

(* ------------------------------------------------------------------ full statements and refutations *)
(* (1) every output bit of the exported circuit comes from where the circuit says
   (symbolic provenance through measurements, post-selection and post-processing) *)
Definition to_tk_routing_stmt (fx : fixes) : Prop :=
  forall c t, circuit_ok (prep c) = true -> layers_allowed fx (c_layers c) = true ->
              to_tk fx c = Ok t -> routing_ok c t = true.

(* F10: Ket(0,0) >> X @ Id(1) >> Measure() @ Id(1) >> Swap(bit, qubit) >> Measure() @ Id(bit) *)
Definition f10_witness : circuit :=
  Circ [] [(BKet [false; false], 0); (BGate g_X 1 (Dy 0 0), 0); (BMeasure 1 true false, 0);
           (BSwap WBit WQubit, 0); (BMeasure 1 true false, 0)].
(* F30: Ket(1) >> Measure() >> Bits(0) @ Id(bit) *)
Definition f30_witness : circuit :=
  Circ [] [(BKet [true], 0); (BMeasure 1 true false, 0); (BBits [false] false, 0)].
(* F31: Ket(1) >> Measure() >> Discard(bit) *)
Definition f31_witness : circuit :=
  Circ [] [(BKet [true], 0); (BMeasure 1 true false, 0); (BDiscard [WBit], 0)].
(* F32: Ket(0,1,0) >> Bra(0) @ Measure(2) >> Swap(bit, bit) *)
Definition f32_witness : circuit :=
  Circ [] [(BKet [false; true; false], 0); (BBra [false], 0); (BMeasure 2 true false, 0);
           (BSwap WBit WBit, 0)].
(* F34: Ket(0,0) @ Bits(0) @ Ket(1) >> Id(1) @ Measure(1, override_bits=True) @ Id(1) >> Id(qubit @ bit) @ Measure() *)
Definition f34_witness : circuit :=
  Circ [] [(BKet [false; false], 0); (BBits [false] false, 2); (BKet [true], 3);
           (BMeasure 1 true true, 1); (BMeasure 1 true false, 2)].
(* F18: Ket(0,0) >> H @ Id(1) >> CX >> Id(1) @ Bra(0) >> Measure() *)
Definition f18_witness : circuit :=
  Circ [] [(BKet [false; false], 0); (BGate 1 1 (Dy 0 0), 0); (BGate 7 2 (Dy 0 0), 0);
           (BBra [false], 1); (BMeasure 1 true false, 0)].
(* F33: tk.Circuit(4).X(0).CX(0, 3) *)
Definition f33_witness : tkc :=
  TK 4 0 [Cmd 4 None [0] []; Cmd 7 None [0; 3] []] [] [] (PP 0 0 []).

Ltac refute_routing w :=
  intros H;
  assert (E : exists t, to_tk pinned w = Ok t /\ routing_ok w t = false)
    by (vm_compute; eexists; split; reflexivity);
  destruct E as [t [E1 E2]];
  rewrite (H w t) in E2; [discriminate | reflexivity | reflexivity | exact E1].

Theorem to_tk_routing_refuted_F10 : ~ to_tk_routing_stmt pinned.
Proof. refute_routing f10_witness. Qed.
Theorem to_tk_routing_refuted_F30 : ~ to_tk_routing_stmt pinned.
Proof. refute_routing f30_witness. Qed.
Theorem to_tk_routing_refuted_F31 : ~ to_tk_routing_stmt pinned.
Proof. refute_routing f31_witness. Qed.
Theorem to_tk_routing_refuted_F32 : ~ to_tk_routing_stmt pinned.
Proof. refute_routing f32_witness. Qed.

(* the trigger predicates computed by the model hold on the witnesses, and only theirs *)
Example witnesses_trigger :
  fl_f10 (to_tk_flags pinned f10_witness) = true /\ fl_f30 (to_tk_flags pinned f10_witness) = false /\
  fl_f30 (to_tk_flags pinned f30_witness) = true /\ fl_f10 (to_tk_flags pinned f30_witness) = false /\
  fl_f31 (to_tk_flags pinned f31_witness) = true /\ fl_f32 (to_tk_flags pinned f32_witness) = true /\
  fl_f34 (to_tk_flags pinned f34_witness) = true /\ to_tk_flags pinned example_circuit = fl0 /\
  (* with the repairs the triggers are off (F30 has no repair) *)
  to_tk_flags repaired f10_witness = fl0 /\ to_tk_flags repaired f31_witness = fl0 /\
  to_tk_flags repaired f32_witness = fl0 /\ fl_f34 (to_tk_flags repaired f34_witness) = false /\
  fl_f30 (to_tk_flags repaired f30_witness) = true.
Proof. vm_compute. repeat split. Qed.

(* (2) trace refinement without the restriction on destructive overriding measurements *)
Definition to_tk_refines_trace_unrestricted_stmt (fx : fixes) : Prop :=
  forall c s, to_tk_state fx c = Ok s ->
    exists q rho, qtrace (prep c) = Some q /\
      (forall a b, a < q_next q -> b < q_next q -> rho a = rho b -> a = b) /\
      map qpart (t_cmds (s_tk s)) = map (relabel rho) (q_events q).

Theorem to_tk_refines_trace_refuted_F34 : ~ to_tk_refines_trace_unrestricted_stmt pinned.
Proof.
  intros H.
  assert (E : exists s, to_tk_state pinned f34_witness = Ok s /\
                        map qpart (t_cmds (s_tk s)) = [(4%Z, None, [2]); (0%Z, None, [1]); (0%Z, None, [1])])
    by (vm_compute; eexists; split; reflexivity).
  destruct E as [s [E1 E2]].
  destruct (H _ _ E1) as [q [rho [Hq [Hinj Hc]]]].
  assert (Eq : qtrace (prep f34_witness) = Some (QS [] 3 [EGate 4 (Dy 0 0) [2]; EMeas 1; EMeas 2]))
    by (vm_compute; reflexivity).
  rewrite Eq in Hq. inversion Hq; subst q. rewrite E2 in Hc. cbn in Hc.
  inversion Hc as [[H0 H1 H2]].
  assert (1 = 2) by (apply Hinj; cbn; lia). lia.
Qed.

(* the same defect seen by the register invariant: a stale register stays in `qubits` *)
Theorem to_tk_registers_refuted_F34 :
  exists s, to_tk_state pinned f34_witness = Ok s /\
            countq (cod_of [] (c_layers (prep f34_witness))) = 0 /\ s_qubits s = [2].
Proof. vm_compute. eexists. split; [reflexivity|]. split; reflexivity. Qed.

(* (3) importing an exported circuit *)
Definition scalar_flag (t : tkc) : option Z := match t_scal t with [] => None | _ => Some 0%Z end.
Definition from_to_roundtrip_stmt (fx : fixes) : Prop :=
  forall c t, circuit_ok (prep c) = true -> layers_allowed fx (c_layers c) = true ->
              to_tk fx c = Ok t -> exists c2, from_tk fx t (scalar_flag t) = Ok c2.
Theorem from_to_roundtrip_refuted_F18 : ~ from_to_roundtrip_stmt pinned.
Proof.
  intros H.
  assert (E : exists t, to_tk pinned f18_witness = Ok t /\ from_tk pinned t (scalar_flag t) = Err AxiomError)
    by (vm_compute; eexists; split; reflexivity).
  destruct E as [t [E1 E2]].
  destruct (H f18_witness t) as [c2 Hc2]; [reflexivity | reflexivity | exact E1 |].
  rewrite E2 in Hc2. discriminate.
Qed.

(* (4) the imported circuit applies the tket circuit's gates to the right wires *)
Definition from_tk_refines_trace_stmt (fx : fixes) : Prop :=
  forall t c, cmds_in_range (t_nq t) (t_cmds t) = true ->
              from_tk fx t None = Ok c -> from_tk_trace_ok t c = true.
Theorem from_tk_refines_trace_refuted_F33 : ~ from_tk_refines_trace_stmt pinned.
Proof.
  intros H.
  assert (E : exists c, from_tk pinned f33_witness None = Ok c /\ from_tk_trace_ok f33_witness c = false)
    by (vm_compute; eexists; split; reflexivity).
  destruct E as [c [E1 E2]]. rewrite (H f33_witness c eq_refl E1) in E2. discriminate.
Qed.
(* ... while adjacent and leftward second qubits are handled correctly *)
Example from_tk_trace_ok_examples :
  (exists c, from_tk pinned (TK 3 0 [Cmd 1 None [1] []; Cmd 7 None [1; 2] []; Cmd 7 None [1; 0] []] [] [] (PP 0 0 []))
                     None = Ok c /\
             from_tk_trace_ok (TK 3 0 [Cmd 1 None [1] []; Cmd 7 None [1; 2] []; Cmd 7 None [1; 0] []]
                                  [] [] (PP 0 0 [])) c = true /\ circuit_ok c = true).
Proof. vm_compute. eexists. repeat split. Qed.

(* (5) post-selection keys under a swap of two other bit registers *)
Definition swap_keeps_post_selection_stmt (fx : fixes) : Prop :=
  forall t i j, has_key (t_psel t) i = false -> has_key (t_psel t) j = false ->
                t_psel (swap_bits fx t i j) = t_psel t.
Theorem swap_keeps_post_selection_refuted_F32 : ~ swap_keeps_post_selection_stmt pinned.
Proof.
  intros H.
  specialize (H (TK 0 3 [] [(0, false)] [] (PP 2 2 [])) 1 2 eq_refl eq_refl).
  vm_compute in H. discriminate.
Qed.

(* ------------------------------------------------------------------ post-selection under renaming *)
Lemma ps_lookup_remove : forall ps k x,
  ps_lookup (ps_remove ps k) x = if Nat.eqb x k then None else ps_lookup ps x.
Proof.
  induction ps as [|[k' v] ps IH]; intros k x; simpl.
  - destruct (Nat.eqb x k); reflexivity.
  - destruct (Nat.eqb_spec k' k); simpl.
    + subst k'. rewrite IH. destruct (Nat.eqb_spec x k); auto.
    + rewrite IH. destruct (Nat.eqb_spec x k'); destruct (Nat.eqb_spec x k); auto; lia.
Qed.

Lemma ps_lookup_replace : forall ps k v x,
  ps_lookup (map (fun kv : nat * bool => if Nat.eqb (fst kv) k then (k, v) else kv) ps) x =
  if Nat.eqb x k then option_map (fun _ => v) (ps_lookup ps k) else ps_lookup ps x.
Proof.
  induction ps as [|[k' v'] ps IH]; intros k v x; simpl.
  - destruct (Nat.eqb x k); reflexivity.
  - destruct (Nat.eqb_spec k' k); simpl.
    + subst k'. rewrite Nat.eqb_refl. rewrite IH. destruct (Nat.eqb_spec x k); auto.
    + rewrite IH. destruct (Nat.eqb_spec k k'); [lia|].
      destruct (Nat.eqb_spec x k'); destruct (Nat.eqb_spec x k); auto; lia.
Qed.
Lemma ps_lookup_snoc : forall ps k v x,
  ps_lookup (ps ++ [(k, v)]) x =
  match ps_lookup ps x with Some w => Some w | None => if Nat.eqb x k then Some v else None end.
Proof.
  induction ps as [|[k' v'] ps IH]; intros k v x; simpl; auto.
  destruct (Nat.eqb x k'); auto.
Qed.
Lemma ps_lookup_set : forall ps k v x,
  ps_lookup (ps_set ps k v) x = if Nat.eqb x k then Some v else ps_lookup ps x.
Proof.
  intros ps k v x. unfold ps_set. destruct (ps_lookup ps k) eqn:E.
  - rewrite ps_lookup_replace, E. reflexivity.
  - rewrite ps_lookup_snoc. destruct (Nat.eqb_spec x k).
    + subst. rewrite E. reflexivity.
    + destruct (ps_lookup ps x); reflexivity.
Qed.

Lemma lookup_fold_remove : forall (todo : list (nat * nat)) ps x,
  ps_lookup (fold_left (fun acc on => ps_remove acc (fst on)) todo ps) x =
  if existsb (fun on => Nat.eqb x (fst on)) todo then None else ps_lookup ps x.
Proof.
  induction todo as [|a todo IH]; intros ps x; simpl; auto.
  rewrite IH, ps_lookup_remove.
  destruct (existsb (fun on => Nat.eqb x (fst on)) todo); destruct (Nat.eqb x (fst a)); reflexivity.
Qed.
Lemma lookup_fold_set : forall (moved : list (nat * bool)) ps x,
  ps_lookup (fold_left (fun acc kv => ps_set acc (fst kv) (snd kv)) moved ps) x =
  fold_left (fun r kv => if Nat.eqb x (fst kv) then Some (snd kv) else r) moved (ps_lookup ps x).
Proof.
  induction moved as [|a moved IH]; intros ps x; simpl; auto.
  rewrite IH, ps_lookup_set. reflexivity.
Qed.

Definition ps_val (ps : list (nat * bool)) (i : nat) : bool :=
  match ps_lookup ps i with Some v => v | None => false end.

Lemma fold_moved : forall n ps (todo : list (nat * nat)) init y,
  NoDup (map fst todo) -> (forall on, In on todo -> snd on = fst on + n) ->
  fold_left (fun r kv => if Nat.eqb y (fst kv) then Some (snd kv) else r)
            (map (fun on => (snd on, ps_val ps (fst on))) todo) init =
  match find (fun on => Nat.eqb y (snd on)) todo with
  | Some on => Some (ps_val ps (fst on))
  | None => init
  end.
Proof.
  intros n ps. induction todo as [|a todo IH]; intros init y Hnd Hs; simpl; auto.
  inversion Hnd as [|? ? Hnotin Hnd']; subst.
  rewrite IH; auto; [|intros; apply Hs; right; auto].
  destruct (Nat.eqb_spec y (snd a)) as [Ey|Ey]; auto.
  destruct (find (fun on => Nat.eqb y (snd on)) todo) as [on|] eqn:F; auto.
  exfalso. apply find_some in F. destruct F as [Hin Heq]. apply Nat.eqb_eq in Heq.
  apply Hnotin. apply in_map_iff. exists on. split; auto.
  assert (snd on = fst on + n) by (apply Hs; right; auto).
  assert (snd a = fst a + n) by (apply Hs; left; auto). lia.
Qed.

Lemma NoDup_fst_filter : forall {B} (P : nat * B -> bool) l,
  NoDup (map fst l) -> NoDup (map fst (filter P l)).
Proof.
  intros B P. induction l as [|a l IH]; simpl; intros H; auto.
  inversion H; subst. destruct (P a); simpl; auto. constructor; auto.
  intros Hin. apply H2. apply in_map_iff in Hin. destruct Hin as [x [Hx Hin]].
  apply filter_In in Hin. apply in_map_iff. exists x. tauto.
Qed.

Definition shift_renaming (start n nb : nat) : list (nat * nat) :=
  map (fun i => (i, i + n)) (seq start (nb - start)).

Lemma in_todo : forall ps start n nb on,
  In on (filter (fun on => match ps_lookup ps (fst on) with Some _ => true | None => false end)
                (shift_renaming start n nb)) <->
  (snd on = fst on + n /\ start <= fst on /\ fst on < nb /\ has_key ps (fst on) = true).
Proof.
  intros ps start n nb [i j]. rewrite filter_In. unfold shift_renaming. rewrite in_map_iff.
  unfold has_key. simpl. split.
  - intros [[x [Hx Hin]] Hk]. inversion Hx; subst. apply in_seq in Hin.
    destruct (ps_lookup ps i); [|discriminate]. repeat split; auto; lia.
  - intros [Hj [Hs [Hn Hk]]]. subst j. split.
    + exists i. split; auto. apply in_seq. lia.
    + destruct (ps_lookup ps i); auto.
Qed.

(* prepare_bits renames every tket bit >= start upwards by n: a post-selection recorded
   for bit k is afterwards recorded for the renamed bit, and the fresh bits carry none *)
Theorem ps_rename_shift : forall ps start n nb,
  (forall k, has_key ps k = true -> k < nb) -> start <= nb ->
  (forall k, k < nb ->
     ps_lookup (ps_rename ps (shift_renaming start n nb)) (shift_from start n k) = ps_lookup ps k) /\
  (forall k, start <= k < start + n ->
     ps_lookup (ps_rename ps (shift_renaming start n nb)) k = None).
Proof.
  intros ps start n nb Hkeys Hstart.
  assert (Hgen : forall y,
    ps_lookup (ps_rename ps (shift_renaming start n nb)) y =
    match find (fun on => Nat.eqb y (snd on))
               (filter (fun on => match ps_lookup ps (fst on) with Some _ => true | None => false end)
                       (shift_renaming start n nb)) with
    | Some on => Some (ps_val ps (fst on))
    | None => if existsb (fun on => Nat.eqb y (fst on))
                   (filter (fun on => match ps_lookup ps (fst on) with Some _ => true | None => false end)
                           (shift_renaming start n nb))
              then None else ps_lookup ps y
    end).
  { intros y. unfold ps_rename. rewrite lookup_fold_set, lookup_fold_remove.
    apply (fold_moved n ps).
    - apply NoDup_fst_filter. unfold shift_renaming. rewrite map_map. simpl. rewrite map_id. apply seq_NoDup.
    - intros on Hin. apply in_todo in Hin. tauto. }
  assert (Hnokey : forall y, has_key ps y = false -> ps_lookup ps y = None).
  { intros y. unfold has_key. destruct (ps_lookup ps y); auto; discriminate. }
  assert (Hval : forall i, has_key ps i = true -> Some (ps_val ps i) = ps_lookup ps i).
  { intros i. unfold has_key, ps_val. destruct (ps_lookup ps i); auto; discriminate. }
  assert (Hrest : forall y, (forall i, start <= i -> i < nb -> has_key ps i = true -> y <> i + n) ->
                            (start <= y -> has_key ps y = false \/ nb <= y \/ True) ->
                            ps_lookup (ps_rename ps (shift_renaming start n nb)) y =
                            if (start <=? y) then None else ps_lookup ps y).
  { intros y Hno _. rewrite Hgen.
    match goal with |- context [find ?f ?l] => destruct (find f l) as [on|] eqn:F end.
    - apply find_some in F. destruct F as [Hin Heq]. apply Nat.eqb_eq in Heq.
      apply in_todo in Hin. destruct Hin as [H1 [H2 [H3 H4]]]. exfalso. apply (Hno (fst on)); auto. lia.
    - match goal with |- context [existsb ?f ?l] => destruct (existsb f l) eqn:Ex end.
      + apply existsb_exists in Ex. destruct Ex as [on [Hin Heq]]. apply Nat.eqb_eq in Heq.
        apply in_todo in Hin. destruct (Nat.leb_spec start y); auto; lia.
      + destruct (Nat.leb_spec start y); auto.
        destruct (has_key ps y) eqn:Hk; [|apply Hnokey; auto].
        exfalso. assert (existsb (fun on => Nat.eqb y (fst on))
                   (filter (fun on => match ps_lookup ps (fst on) with Some _ => true | None => false end)
                           (shift_renaming start n nb)) = true); [|congruence].
        apply existsb_exists. exists (y, y + n). split; [|simpl; apply Nat.eqb_refl].
        apply in_todo. simpl. repeat split; auto. }
  split.
  - intros k Hk. unfold shift_from. destruct (Nat.leb_spec start k).
    + destruct (has_key ps k) eqn:Hkey.
      * rewrite Hgen.
        match goal with |- context [find ?f ?l] => destruct (find f l) as [on|] eqn:F end.
        -- apply find_some in F. destruct F as [Hin Heq]. apply Nat.eqb_eq in Heq.
           apply in_todo in Hin. destruct Hin as [H1 [H2 [H3 H4]]].
           assert (fst on = k) by lia. subst k. apply Hval. auto.
        -- exfalso. eapply find_none with (x := (k, k + n)) in F.
           ++ simpl in F. rewrite Nat.eqb_refl in F. discriminate.
           ++ apply in_todo. simpl. repeat split; auto.
      * rewrite Hrest; auto.
        -- destruct (Nat.leb_spec start (k + n)); [|lia]. symmetry. apply Hnokey. auto.
        -- intros i Hi1 Hi2 Hi3 Heq. assert (i = k) by lia. subst. congruence.
    + rewrite Hrest; auto.
      * destruct (Nat.leb_spec start k); auto; lia.
      * intros i Hi1 Hi2 Hi3 Heq. lia.
  - intros k Hk. rewrite Hrest; auto.
    + destruct (Nat.leb_spec start k); auto; lia.
    + intros i Hi1 Hi2 Hi3 Heq. lia.
Qed.

Example ps_rename_shift_example :
  ps_rename [(0, true); (2, false); (3, true)] (shift_renaming 2 2 4) = [(0, true); (4, false); (5, true)].
Proof. reflexivity. Qed.

Lemma tk_add_bit_psel : forall t o t', tk_add_bit t o = Ok t' -> t_psel t' = t_psel t.
Proof.
  intros t o t' H. unfold tk_add_bit in H.
  destruct (match o with None => Ok (t_pp t) | Some o0 => pp_add_bit (t_pp t) o0 end); simpl in H; [|discriminate].
  inversion H; subst. reflexivity.
Qed.
Lemma add_bits_loop_psel : forall n t o t', add_bits_loop t o n = Ok t' -> t_psel t' = t_psel t.
Proof.
  induction n; simpl; intros t o t' H.
  - inversion H; subst; auto.
  - destruct (tk_add_bit t (Some o)) eqn:E; simpl in H; [|discriminate].
    apply tk_add_bit_psel in E. apply IHn in H. congruence.
Qed.

(* prepare_bits moves the post-selection exactly as it moves the bit indices of the commands *)
Theorem prepare_bits_tracks : forall s n off s',
  prepare_bits s n off = Ok s' ->
  (forall k, has_key (t_psel (s_tk s)) k = true -> k < t_nb (s_tk s)) ->
  incr 0 (s_bits s) (t_nb (s_tk s)) ->
  exists start,
    t_cmds (s_tk s') = map (map_b (shift_from start n)) (t_cmds (s_tk s)) /\
    (forall k, k < t_nb (s_tk s) ->
       ps_lookup (t_psel (s_tk s')) (shift_from start n k) = ps_lookup (t_psel (s_tk s)) k) /\
    (forall k, start <= k < start + n -> ps_lookup (t_psel (s_tk s')) k = None).
Proof.
  intros s n off s' H Hkeys Hs. unfold prepare_bits in H.
  destruct (prep_start (s_bits s) (t_nb (s_tk s)) off) as [start|] eqn:Es; simpl in H; [|discriminate].
  match type of H with context [add_bits_loop ?t1 ?o ?m] =>
    destruct (add_bits_loop t1 o m) as [t2|] eqn:E; simpl in H; [|discriminate] end.
  inversion H; subst s'. cbn [s_tk].
  pose proof (add_bits_loop_psel _ _ _ _ E) as Hp. cbn [t_psel] in Hp.
  apply add_bits_loop_view in E. cbn [t_cmds] in E. destruct E as [_ Ec].
  destruct (prep_start_split _ _ _ _ Es Hs) as [_ [_ Hle]].
  exists start. rewrite Hp, Ec. split; auto.
  apply ps_rename_shift; auto.
Qed.

(* ------------------------------------------------------------------ from_tk: typing of the command loop *)
Lemma wty_eqb_refl : forall w, wty_eqb w w = true.
Proof. destruct w; reflexivity. Qed.
Lemma wty_eqb_eq : forall a b, wty_eqb a b = true -> a = b.
Proof. destruct a, b; simpl; auto; discriminate. Qed.
Lemma ty_eqb_refl : forall t, list_eqb wty_eqb t t = true.
Proof. induction t; simpl; auto. rewrite wty_eqb_refl. auto. Qed.
Lemma ty_eqb_eq : forall a b, list_eqb wty_eqb a b = true -> a = b.
Proof.
  induction a; destruct b; simpl; intros H; auto; try discriminate.
  apply andb_prop in H. destruct H as [H1 H2]. apply wty_eqb_eq in H1. apply IHa in H2. congruence.
Qed.

Lemma layers_ok_app : forall a scan b,
  layers_ok scan (a ++ b) = layers_ok scan a && layers_ok (cod_of scan a) b.
Proof.
  induction a as [|l a IH]; intros scan b; simpl; auto.
  rewrite IH. unfold cod_of. simpl. rewrite andb_assoc. reflexivity.
Qed.
Lemma cod_of_app : forall a b scan, cod_of scan (a ++ b) = cod_of (cod_of scan a) b.
Proof. intros. unfold cod_of. apply fold_left_app. Qed.

Lemma firstn_len_app : forall {A} (pre l : list A), firstn (length pre) (pre ++ l) = pre.
Proof. intros. rewrite firstn_app, Nat.sub_diag, firstn_all. simpl. apply app_nil_r. Qed.
Lemma skipn_len_app : forall {A} (pre l : list A) k, skipn (length pre + k) (pre ++ l) = skipn k l.
Proof.
  intros A pre; induction pre; intros l k; simpl; auto.
Qed.

(* one Swap box on pre ++ [a; b] ++ post *)
Lemma swap_layer_ok : forall pre a b post,
  layer_ok (pre ++ a :: b :: post) (BSwap a b, length pre) = true /\
  step_ty (pre ++ a :: b :: post) (BSwap a b, length pre) = pre ++ b :: a :: post.
Proof.
  intros pre a b post. unfold layer_ok, step_ty, slice. cbn [bdom bcod length].
  replace (length pre + 2 - length pre) with 2 by lia.
  rewrite firstn_len_app. rewrite (skipn_len_app pre (a :: b :: post) 2).
  rewrite <- (Nat.add_0_r (length pre)) at 1. rewrite (skipn_len_app pre (a :: b :: post) 0).
  simpl. rewrite !wty_eqb_refl. auto.
Qed.

Lemma layers_ok_cons : forall scan l ls,
  layers_ok scan (l :: ls) = layer_ok scan l && layers_ok (step_ty scan l) ls.
Proof. reflexivity. Qed.
Lemma cod_of_cons : forall scan l ls, cod_of scan (l :: ls) = cod_of (step_ty scan l) ls.
Proof. reflexivity. Qed.

Lemma swap1_ok : forall right l0 pre post k d,
  length pre = d + k ->
  layers_ok (pre ++ l0 :: right ++ post) (swaps_layers (shift_swaps d (swap1 l0 right k))) = true /\
  cod_of (pre ++ l0 :: right ++ post) (swaps_layers (shift_swaps d (swap1 l0 right k))) =
    pre ++ right ++ l0 :: post.
Proof.
  induction right as [|r right IH]; intros l0 pre post k d Hlen.
  - simpl. auto.
  - change (swaps_layers (shift_swaps d (swap1 l0 (r :: right) k)))
      with ((BSwap l0 r, d + k) :: swaps_layers (shift_swaps d (swap1 l0 right (S k)))).
    rewrite layers_ok_cons, cod_of_cons. rewrite <- Hlen.
    change (pre ++ l0 :: (r :: right) ++ post) with (pre ++ l0 :: r :: (right ++ post)).
    destruct (swap_layer_ok pre l0 r (right ++ post)) as [H1 H2].
    rewrite H1, H2. cbn [andb].
    specialize (IH l0 (pre ++ [r]) post (S k) d).
    rewrite <- !app_assoc in IH. cbn [app] in IH.
    change ((r :: right) ++ l0 :: post) with (r :: right ++ l0 :: post).
    apply IH. rewrite app_length. simpl. lia.
Qed.

Lemma shift_swaps_app : forall d a b, shift_swaps d (a ++ b) = shift_swaps d a ++ shift_swaps d b.
Proof. intros. unfold shift_swaps. apply map_app. Qed.
Lemma swaps_layers_app : forall a b, swaps_layers (a ++ b) = swaps_layers a ++ swaps_layers b.
Proof. intros. unfold swaps_layers. apply map_app. Qed.
Lemma shift_swaps_S : forall d l,
  shift_swaps d (map (fun '(a, b, k) => (a, b, S k)) l) = shift_swaps (S d) l.
Proof.
  intros d l. unfold shift_swaps. rewrite map_map. apply map_ext. intros [[a b] k]. f_equal. lia.
Qed.

(* Diagram.swap(left, right) whiskered by pre, post *)
Lemma swap_boxes_ok : forall left right pre post d,
  length pre = d ->
  layers_ok (pre ++ left ++ right ++ post) (swaps_layers (shift_swaps d (swap_boxes left right))) = true /\
  cod_of (pre ++ left ++ right ++ post) (swaps_layers (shift_swaps d (swap_boxes left right))) =
    pre ++ right ++ left ++ post.
Proof.
  induction left as [|l0 ls IH]; intros right pre post d Hlen.
  - simpl. auto.
  - cbn [swap_boxes]. rewrite shift_swaps_app, swaps_layers_app, shift_swaps_S.
    rewrite layers_ok_app, cod_of_app.
    specialize (IH right (pre ++ [l0]) post (S d)).
    rewrite <- !app_assoc in IH. cbn [app] in IH.
    change (pre ++ (l0 :: ls) ++ right ++ post) with (pre ++ l0 :: ls ++ right ++ post).
    destruct IH as [IH1 IH2]; [rewrite app_length; simpl; lia|].
    rewrite IH1, IH2. cbn [andb].
    destruct (swap1_ok right l0 pre (ls ++ post) 0 d) as [H1 H2]; [lia|].
    rewrite H1, H2. split; auto.
Qed.

(* undoing a sequence of swaps *)
Lemma slice_two : forall (s : list wty) k a b,
  slice s k (k + 2) = [a; b] -> s = firstn k s ++ a :: b :: skipn (k + 2) s /\ length (firstn k s) = k.
Proof.
  intros s k a b H. unfold slice in H. replace (k + 2 - k) with 2 in H by lia.
  assert (Hk : k <= length s).
  { destruct (Nat.le_gt_cases k (length s)); auto.
    rewrite skipn_all2 in H by lia. discriminate. }
  split; [|apply firstn_length_le; auto].
  rewrite <- (firstn_skipn k s) at 1. f_equal.
  rewrite <- (firstn_skipn 2 (skipn k s)). rewrite H. rewrite my_skipn_skipn. reflexivity.
Qed.

Lemma swap_layer_inv : forall s a b k,
  layer_ok s (BSwap a b, k) = true ->
  layer_ok (step_ty s (BSwap a b, k)) (BSwap b a, k) = true /\
  step_ty (step_ty s (BSwap a b, k)) (BSwap b a, k) = s.
Proof.
  intros s a b k H. unfold layer_ok in H. cbn [bdom length] in H.
  apply ty_eqb_eq in H. apply slice_two in H. destruct H as [Hs Hk].
  remember (firstn k s) as pre. remember (skipn (k + 2) s) as post. clear Heqpre Heqpost.
  subst s. subst k.
  destruct (swap_layer_ok pre a b post) as [_ E1]. rewrite E1.
  destruct (swap_layer_ok pre b a post) as [H1 H2]. rewrite H1, H2. split; auto.
Qed.

Lemma dagger_swaps_cons : forall x l, dagger_swaps (x :: l) = dagger_swaps l ++ dagger_swaps [x].
Proof. intros. unfold dagger_swaps. simpl. rewrite map_app. reflexivity. Qed.

Lemma dagger_swaps_ok : forall l s,
  layers_ok s (swaps_layers l) = true ->
  layers_ok (cod_of s (swaps_layers l)) (swaps_layers (dagger_swaps l)) = true /\
  cod_of (cod_of s (swaps_layers l)) (swaps_layers (dagger_swaps l)) = s.
Proof.
  induction l as [|[[a b] k] l IH]; intros s H.
  - simpl. auto.
  - change (swaps_layers ((a, b, k) :: l)) with ((BSwap a b, k) :: swaps_layers l) in *.
    rewrite layers_ok_cons in H. apply andb_prop in H. destruct H as [H1 H2].
    rewrite cod_of_cons. rewrite dagger_swaps_cons, swaps_layers_app, layers_ok_app, cod_of_app.
    destruct (IH _ H2) as [I1 I2]. rewrite I1, I2. cbn [andb].
    change (swaps_layers (dagger_swaps [(a, b, k)])) with [(BSwap b a, k)].
    destruct (swap_layer_inv _ _ _ _ H1) as [J1 J2].
    rewrite layers_ok_cons, cod_of_cons, J1, J2. simpl. auto.
Qed.

Lemma slice_skipn : forall {A} (l : list A) a b, a <= b -> skipn a l = slice l a b ++ skipn b l.
Proof.
  intros A l a b H. unfold slice. rewrite <- (firstn_skipn (b - a) (skipn a l)) at 1.
  f_equal. rewrite my_skipn_skipn. f_equal. lia.
Qed.
Lemma decomp3 : forall {A} (l : list A) a b c, a <= b -> b <= c ->
  l = firstn a l ++ slice l a b ++ slice l b c ++ skipn c l.
Proof.
  intros A l a b c H1 H2. rewrite <- (slice_skipn l b c H2). rewrite <- (slice_skipn l a b H1).
  symmetry. apply firstn_skipn.
Qed.
Lemma slice_recompose : forall {A} (l : list A) a n, firstn a l ++ slice l a (a + n) ++ skipn (a + n) l = l.
Proof. intros. rewrite <- (slice_skipn l a (a + n)) by lia. apply firstn_skipn. Qed.

(* swaps >> Id(left) @ box @ Id(right) >> swaps[::-1] for a box with cod = dom *)
Lemma conj_ok : forall scan sw scod b off,
  layers_ok scan (swaps_layers sw) = true -> cod_of scan (swaps_layers sw) = scod ->
  layer_ok scod (b, off) = true -> bcod b = bdom b ->
  layers_ok scan (swaps_layers sw ++ [(b, off)] ++ swaps_layers (dagger_swaps sw)) = true /\
  cod_of scan (swaps_layers sw ++ [(b, off)] ++ swaps_layers (dagger_swaps sw)) = scan.
Proof.
  intros scan sw scod b off H1 H2 H3 H4.
  assert (Hstep : step_ty scod (b, off) = scod).
  { unfold step_ty. rewrite H4. unfold layer_ok in H3. apply ty_eqb_eq in H3.
    rewrite <- H3 at 1. apply slice_recompose. }
  destruct (dagger_swaps_ok sw scan H1) as [D1 D2]. rewrite H2 in D1, D2.
  rewrite !layers_ok_app, !cod_of_app, H1, H2.
  rewrite layers_ok_cons, cod_of_cons. cbn [layers_ok cod_of fold_left]. rewrite H3, Hstep, D1, D2. auto.
Qed.

Lemma mua_ok : forall fx qs cod offset acc i scan o' cod' acc',
  layers_ok scan (swaps_layers acc) = true -> cod_of scan (swaps_layers acc) = cod ->
  mua_loop fx cod offset acc qs i = (o', cod', acc') ->
  layers_ok scan (swaps_layers acc') = true /\ cod_of scan (swaps_layers acc') = cod'.
Proof.
  intros fx. induction qs as [|source qs IH]; intros cod offset acc i scan o' cod' acc' H1 H2 H; cbn [mua_loop] in H.
  - inversion H; subst. auto.
  - destruct (Nat.ltb_spec source (offset + i + 1)) as [Hlt|Hge].
    + eapply IH; [| |exact H].
      * rewrite swaps_layers_app, layers_ok_app, H1, H2. cbn [andb].
        pose proof (swap_boxes_ok (slice cod source (S source)) (slice cod (S source) (offset + i + 1))
                      (firstn source cod) (skipn (offset + i + 1) cod) _ eq_refl) as [S1 _].
        rewrite <- (decomp3 cod source (S source) (offset + i + 1)) in S1 by lia. exact S1.
      * rewrite swaps_layers_app, cod_of_app, H2.
        pose proof (swap_boxes_ok (slice cod source (S source)) (slice cod (S source) (offset + i + 1))
                      (firstn source cod) (skipn (offset + i + 1) cod) _ eq_refl) as [_ S2].
        rewrite <- (decomp3 cod source (S source) (offset + i + 1)) in S2 by lia. exact S2.
    + destruct (Nat.ltb_spec (offset + i + 1) source) as [Hlt|Hge2].
      * set (mid := if fx33 fx then source else S (offset + i + 1)) in *.
        assert (Hmid : offset + i + 1 <= mid /\ mid <= S source) by (unfold mid; destruct (fx33 fx); lia).
        eapply IH; [| |exact H].
        -- rewrite swaps_layers_app, layers_ok_app, H1, H2. cbn [andb].
           pose proof (swap_boxes_ok (slice cod (offset + i + 1) mid) (slice cod mid (S source))
                         (firstn (offset + i + 1) cod) (skipn (S source) cod) _ eq_refl) as [S1 _].
           rewrite <- (decomp3 cod (offset + i + 1) mid (S source)) in S1 by lia. exact S1.
        -- rewrite swaps_layers_app, cod_of_app, H2.
           pose proof (swap_boxes_ok (slice cod (offset + i + 1) mid) (slice cod mid (S source))
                         (firstn (offset + i + 1) cod) (skipn (S source) cod) _ eq_refl) as [_ S2].
           rewrite <- (decomp3 cod (offset + i + 1) mid (S source)) in S2 by lia. exact S2.
      * eapply IH; eauto.
Qed.

Lemma from_tk_box_cod : forall c b, from_tk_box c = Ok b -> bcod b = bdom b.
Proof.
  intros c b H. unfold from_tk_box in H.
  destruct (is_rot (c_op c)).
  - destruct (c_par c); inversion H; reflexivity.
  - destruct (from_tk_known (c_op c)); inversion H; reflexivity.
Qed.

Lemma from_tk_cmd_ok : forall fx nq nb psel cod f c f',
  layers_ok [] (f_layers f) = true -> cod_of [] (f_layers f) = cod ->
  from_tk_cmd fx nq nb psel cod f c = Ok f' ->
  layers_ok [] (f_layers f') = true /\ cod_of [] (f_layers f') = cod.
Proof.
  intros fx nq nb psel cod f c f' H1 H2 H. unfold from_tk_cmd in H.
  destruct (c_op c =? op_Measure)%Z.
  - destruct (nth_res (c_qs c) 0) as [offset|]; cbn [bind] in H; [|discriminate].
    destruct (nth_res (c_bs c) 0) as [bi0|]; cbn [bind] in H; [|discriminate].
    destruct (ps_lookup psel bi0).
    + inversion H; subst. auto.
    + cbv zeta in H.
      set (bi := if fx18 fx then bi0 - length (filter (fun kv => fst kv <? bi0) psel) else bi0) in *.
      match type of H with context [ty_eqb cod ?sd] => destruct (ty_eqb cod sd) eqn:E1 end;
        cbn [negb] in H; [|discriminate].
      match type of H with context [layer_ok ?sc ?l] => destruct (layer_ok sc l) eqn:E2 end;
        cbn [negb] in H; [|discriminate].
      inversion H; subst f'; clear H. cbn [f_layers].
      apply ty_eqb_eq in E1.
      pose proof (swap_boxes_ok (slice cod (S offset) (nq + bi)) (slice (skipn nq cod) bi (S bi))
                    (firstn (S offset) cod) (skipn (nq + bi + 1) cod) _ eq_refl) as [S1 S2].
      rewrite <- E1 in S1, S2.
      rewrite layers_ok_app, cod_of_app, H1, H2. cbn [andb].
      apply (conj_ok cod _ _ _ _ S1 S2 E2). reflexivity.
  - destruct (from_tk_box c) as [b|] eqn:Eb; cbn [bind] in H; [|discriminate].
    destruct (nth_res (c_qs c) 0) as [q0|]; cbn [bind] in H; [|discriminate].
    destruct (mua_loop fx cod q0 [] (tl (c_qs c)) 0) as [[offset scod] sw] eqn:Em.
    match type of H with context [layer_ok ?sc ?l] => destruct (layer_ok sc l) eqn:E2 end;
      cbn [negb] in H; [|discriminate].
    inversion H; subst f'; clear H. cbn [f_layers].
    destruct (mua_ok fx (tl (c_qs c)) cod q0 [] 0 cod offset scod sw eq_refl eq_refl Em) as [S1 S2].
    rewrite layers_ok_app, cod_of_app, H1, H2. cbn [andb].
    apply (conj_ok cod _ _ _ _ S1 S2 E2). eapply from_tk_box_cod; eauto.
Qed.

Lemma from_tk_cmds_ok : forall fx cs nq nb psel cod f f',
  layers_ok [] (f_layers f) = true -> cod_of [] (f_layers f) = cod ->
  from_tk_cmds fx nq nb psel cod f cs = Ok f' ->
  layers_ok [] (f_layers f') = true /\ cod_of [] (f_layers f') = cod.
Proof.
  intros fx. induction cs as [|c cs IH]; intros nq nb psel cod f f' H1 H2 H; simpl in H.
  - inversion H; subst. auto.
  - destruct (from_tk_cmd fx nq nb psel cod f c) as [f1|] eqn:E; cbn [bind] in H; [|discriminate].
    destruct (from_tk_cmd_ok _ _ _ _ _ _ _ _ H1 H2 E) as [G1 G2]. eapply IH; eauto.
Qed.

Lemma prep_layer_ok : forall pre b w,
  bdom b = [] -> bcod b = [w] ->
  layer_ok pre (b, length pre) = true /\ step_ty pre (b, length pre) = pre ++ [w].
Proof.
  intros pre b w Hd Hc. unfold layer_ok, step_ty, slice. rewrite Hd, Hc. cbn [length].
  rewrite Nat.add_0_r, Nat.sub_diag, firstn_all, skipn_all. simpl. auto.
Qed.
Lemma ket_layers_ok : forall n pre,
  layers_ok pre (ket_layers n (length pre)) = true /\
  cod_of pre (ket_layers n (length pre)) = pre ++ rep n WQubit.
Proof.
  induction n; intros pre; cbn [ket_layers].
  - simpl. rewrite app_nil_r. auto.
  - destruct (prep_layer_ok pre (BKet [false]) WQubit eq_refl eq_refl) as [H1 H2].
    rewrite layers_ok_cons, cod_of_cons, H1, H2. cbn [andb].
    specialize (IHn (pre ++ [WQubit])). rewrite app_length in IHn. cbn [length] in IHn.
    rewrite Nat.add_1_r in IHn. rewrite <- app_assoc in IHn. exact IHn.
Qed.
Lemma bits_layers_ok : forall n pre,
  layers_ok pre (bits_layers n (length pre)) = true /\
  cod_of pre (bits_layers n (length pre)) = pre ++ rep n WBit.
Proof.
  induction n; intros pre; cbn [bits_layers].
  - simpl. rewrite app_nil_r. auto.
  - destruct (prep_layer_ok pre (BBits [false] false) WBit eq_refl eq_refl) as [H1 H2].
    rewrite layers_ok_cons, cod_of_cons, H1, H2. cbn [andb].
    specialize (IHn (pre ++ [WBit])). rewrite app_length in IHn. cbn [length] in IHn.
    rewrite Nat.add_1_r in IHn. rewrite <- app_assoc in IHn. exact IHn.
Qed.

(* from_tk: the preparation layers and everything the command loop adds (swaps, gates,
   overriding measurements, undone swaps) form a well-typed circuit from the empty type
   to qubit ** n_qubits @ bit ** n_bits, for EVERY command list on which the loop succeeds *)
Theorem from_tk_loop_well_typed : forall fx nq nb psel cs f,
  from_tk_cmds fx nq nb psel (rep nq WQubit ++ rep nb WBit)
               (FTK (ket_layers nq 0 ++ bits_layers nb nq) []) cs = Ok f ->
  layers_ok [] (f_layers f) = true /\
  cod_of [] (f_layers f) = rep nq WQubit ++ rep nb WBit.
Proof.
  intros fx nq nb psel cs f H.
  eapply from_tk_cmds_ok; [| |exact H]; cbn [f_layers].
  - rewrite layers_ok_app. destruct (ket_layers_ok nq []) as [K1 K2]. cbn [length app] in K1, K2.
    rewrite K1, K2. cbn [andb].
    destruct (bits_layers_ok nb (rep nq WQubit)) as [B1 _].
    unfold rep in B1 at 2. rewrite repeat_length in B1. exact B1.
  - rewrite cod_of_app. destruct (ket_layers_ok nq []) as [_ K2]. cbn [length app] in K2. rewrite K2.
    destruct (bits_layers_ok nb (rep nq WQubit)) as [_ B2].
    unfold rep in B2 at 2. rewrite repeat_length in B2. exact B2.
Qed.

(* the full statement: the whole answer of from_tk is a well-typed circuit without inputs *)
Definition from_tk_well_typed_stmt (fx : fixes) : Prop :=
  forall t sid c, from_tk fx t sid = Ok c -> circuit_ok c = true /\ c_dom c = [].

(* ---- the rest of from_tk: post-selections / discards, scalar, post-processing ---- *)

Lemma ps_set_keys : forall ps k v n,
  Forall (fun kv : nat * bool => fst kv < n) ps -> k < n -> Forall (fun kv => fst kv < n) (ps_set ps k v).
Proof.
  intros ps k v n H Hk. unfold ps_set. destruct (ps_lookup ps k).
  - apply Forall_forall. intros x Hx. apply in_map_iff in Hx. destruct Hx as [y [Hy Hin]].
    rewrite Forall_forall in H. specialize (H y Hin). destruct (Nat.eqb (fst y) k); subst; simpl; auto.
  - apply Forall_app. split; auto.
Qed.
Lemma ps_lookup_out : forall ps n k,
  Forall (fun kv : nat * bool => fst kv < n) ps -> n <= k -> ps_lookup ps k = None.
Proof.
  induction ps as [|[k' v] ps IH]; intros n k H Hk; simpl; auto.
  inversion H; subst. simpl in H2. destruct (Nat.eqb_spec k k'); [lia|]. eapply IH; eauto.
Qed.

Lemma from_tk_cmd_bras : forall fx nq nb psel cod f c f',
  Forall (fun kv => fst kv < nq) (f_bras f) -> forallb (fun q => q <? nq) (c_qs c) = true ->
  from_tk_cmd fx nq nb psel cod f c = Ok f' -> Forall (fun kv => fst kv < nq) (f_bras f').
Proof.
  intros fx nq nb psel cod f c f' HB Hr H. unfold from_tk_cmd in H.
  destruct (c_op c =? op_Measure)%Z.
  - unfold nth_res in H. destruct (nth_error (c_qs c) 0) as [offset|] eqn:E0; cbn [bind] in H; [|discriminate].
    destruct (nth_error (c_bs c) 0) as [bi|]; cbn [bind] in H; [|discriminate].
    destruct (ps_lookup psel bi).
    + inversion H; subst. cbn [f_bras]. apply ps_set_keys; auto.
      rewrite forallb_forall in Hr. apply Nat.ltb_lt. apply Hr. eapply nth_error_In; eauto.
    + match type of H with context [ty_eqb cod ?sd] => destruct (ty_eqb cod sd) end; cbn [negb] in H; [|discriminate].
      match type of H with context [layer_ok ?sc ?l] => destruct (layer_ok sc l) end; cbn [negb] in H; [|discriminate].
      inversion H; subst. auto.
  - destruct (from_tk_box c); cbn [bind] in H; [|discriminate].
    destruct (nth_res (c_qs c) 0) as [q0|]; cbn [bind] in H; [|discriminate].
    destruct (mua_loop fx cod q0 [] (tl (c_qs c)) 0) as [[offset scod] sw].
    match type of H with context [layer_ok ?sc ?l] => destruct (layer_ok sc l) end; cbn [negb] in H; [|discriminate].
    inversion H; subst. auto.
Qed.
Lemma from_tk_cmds_bras : forall fx cs nq nb psel cod f f',
  Forall (fun kv => fst kv < nq) (f_bras f) -> cmds_in_range nq cs = true ->
  from_tk_cmds fx nq nb psel cod f cs = Ok f' -> Forall (fun kv => fst kv < nq) (f_bras f').
Proof.
  intros fx. induction cs as [|c cs IH]; intros nq nb psel cod f f' HB Hr H; simpl in *.
  - inversion H; subst; auto.
  - apply andb_prop in Hr. destruct Hr as [Hr1 Hr2].
    destruct (from_tk_cmd fx nq nb psel cod f c) as [f1|] eqn:E; cbn [bind] in H; [|discriminate].
    eapply IH; [| |exact H]; auto. eapply from_tk_cmd_bras; eauto.
Qed.

Lemma final_bits_nil : forall b bras i kept,
  (forall k, i <= k -> ps_lookup bras k = None) -> final_layers (rep b WBit) bras i kept = [].
Proof.
  induction b; intros bras i kept H; simpl; auto.
  rewrite H by lia. apply IHb. intros k Hk. apply H. lia.
Qed.

Lemma final_qubits_ok : forall a bras i pre rest,
  final_layers rest bras (i + a) (length pre) = [] ->
  layers_ok (pre ++ rep a WQubit ++ rest) (final_layers (rep a WQubit ++ rest) bras i (length pre)) = true /\
  cod_of (pre ++ rep a WQubit ++ rest) (final_layers (rep a WQubit ++ rest) bras i (length pre)) = pre ++ rest.
Proof.
  induction a; intros bras i pre rest Hrest.
  - cbn [rep repeat app]. rewrite Nat.add_0_r in Hrest. rewrite Hrest. simpl. auto.
  - cbn [rep repeat app final_layers]. fold (rep a WQubit).
    assert (Hstep : forall b, bdom b = [WQubit] -> bcod b = [] ->
              layer_ok (pre ++ WQubit :: rep a WQubit ++ rest) (b, length pre) = true /\
              step_ty (pre ++ WQubit :: rep a WQubit ++ rest) (b, length pre) = pre ++ rep a WQubit ++ rest).
    { intros b Hd Hc. unfold layer_ok, step_ty, slice. rewrite Hd, Hc. cbn [length].
      replace (length pre + 1 - length pre) with 1 by lia.
      rewrite firstn_len_app. rewrite (skipn_len_app pre _ 1).
      rewrite <- (Nat.add_0_r (length pre)) at 1. rewrite (skipn_len_app pre _ 0). simpl. auto. }
    replace (i + S a) with (S i + a) in Hrest by lia.
    destruct (IHa bras (S i) pre rest Hrest) as [I1 I2].
    destruct (ps_lookup bras i).
    + destruct (Hstep (BBra [b]) eq_refl eq_refl) as [H1 H2].
      rewrite layers_ok_cons, cod_of_cons, H1, H2. auto.
    + destruct (Hstep (BDiscard [WQubit]) eq_refl eq_refl) as [H1 H2].
      rewrite layers_ok_cons, cod_of_cons, H1, H2. auto.
Qed.

Lemma scalar_layer_ok : forall scan id m n, n = length scan ->
  layer_ok scan (BScalar id m, n) = true /\ step_ty scan (BScalar id m, n) = scan.
Proof.
  intros scan id m n ->. unfold layer_ok, step_ty, slice. cbn [bdom bcod length].
  rewrite Nat.add_0_r, Nat.sub_diag, firstn_all, skipn_all. simpl. rewrite app_nil_r. auto.
Qed.

(* from_tk returns a well-typed circuit without inputs, for every tket circuit whose
   commands address existing qubits and whose post-processing is itself well-typed *)
Theorem from_tk_well_typed_lemma : forall fx t sid c,
  cmds_in_range (t_nq t) (t_cmds t) = true -> pp_ok (t_pp t) = true ->
  from_tk fx t sid = Ok c ->
  circuit_ok c = true /\ c_dom c = [] /\
  cod_of [] (c_layers c) = cod_of (rep (pp_dom (t_pp t)) WBit) (pp_layers (t_pp t)).
Proof.
  intros fx t sid c Hr Hpp H. unfold from_tk in H.
  set (nb := t_nb t - length (t_psel t)) in *. set (nq := t_nq t) in *.
  destruct (from_tk_cmds fx nq nb (t_psel t) (rep nq WQubit ++ rep nb WBit)
              (FTK (ket_layers nq 0 ++ bits_layers nb nq) []) (t_cmds t)) as [f|] eqn:E; cbn [bind] in H; [|discriminate].
  destruct (from_tk_loop_well_typed _ _ _ _ _ _ E) as [L1 L2].
  assert (HB : Forall (fun kv => fst kv < nq) (f_bras f)).
  { eapply from_tk_cmds_bras; [| |exact E]; auto. constructor. }
  assert (Hfin : final_layers (rep nb WBit) (f_bras f) (0 + nq) (length (@nil wty)) = []).
  { apply final_bits_nil. intros k Hk. eapply ps_lookup_out; [exact HB | simpl in Hk; lia]. }
  destruct (final_qubits_ok nq (f_bras f) 0 [] (rep nb WBit) Hfin) as [F1 F2].
  cbn [app length] in F1, F2.
  assert (Hlen : length (rep nb WBit) = nb) by apply repeat_length.
  rewrite F2, Hlen in H.
  destruct (Nat.eqb_spec nb (pp_dom (t_pp t))) as [Enb|]; cbn [negb] in H; [|discriminate].
  inversion H; subst c; clear H. unfold circuit_ok. cbn [c_dom c_layers].
  unfold pp_ok in Hpp. fold (pp_layers (t_pp t)). rewrite <- Enb in *.
  rewrite !layers_ok_app, !cod_of_app, L1, L2, F1, F2. cbn [andb].
  destruct sid as [id|].
  - destruct (scalar_layer_ok (rep nb WBit) id true nb (eq_sym Hlen)) as [S1 S2].
    cbn [app]. rewrite layers_ok_cons, cod_of_cons. rewrite S1, S2. cbn [layers_ok cod_of fold_left andb].
    rewrite Hpp. auto.
  - cbn [app layers_ok cod_of fold_left andb]. rewrite Hpp. auto.
Qed.

Example from_tk_well_typed_example :
  let t := TK 4 3 [Cmd 4 None [0] []; Cmd 7 None [0; 3] []; Cmd 0 None [3] [1]; Cmd 0 None [1] [2];
                   Cmd 14 (Some (Dy 5 2)) [2; 0] []; Cmd 0 None [0] [0]]
              [(2, true)] [] (PP 2 2 [(PSwap, 0)]) in
  cmds_in_range (t_nq t) (t_cmds t) = true /\ pp_ok (t_pp t) = true /\
  exists c, from_tk pinned t (Some 0%Z) = Ok c /\ circuit_ok c = true /\ Nat.ltb 20 (length (c_layers c)) = true.
Proof. vm_compute. split; auto. split; auto. eexists. split; [reflexivity|]. split; reflexivity. Qed.

(* Conjecture kept as a statement (NOT asserted, not proved): outside the trigger
   predicates of the known defects the routing statement holds.  The check evaluates it
   on every generated circuit through the extracted model (counter `routing:trigger-free`). *)
Definition no_trigger (f : flags) : bool :=
  negb (fl_f10 f || fl_f30 f || fl_f31 f || fl_f32 f || fl_f34 f || fl_over f || fl_arity f).
Definition to_tk_routing_trigger_free_stmt (fx : fixes) : Prop :=
  forall c t, circuit_ok (prep c) = true -> to_tk fx c = Ok t ->
              no_trigger (to_tk_flags fx c) = true -> routing_ok c t = true.

(* the `bits` list is NOT kept increasing / in wire order by the code (F10): *)
Theorem to_tk_bits_order_refuted_F10 :
  exists s, to_tk_state pinned f10_witness = Ok s /\ s_bits s = [1; 0].
Proof. vm_compute. eexists. split; reflexivity. Qed.

(* non-vacuity of prepare_bits_tracks: a state with a post-selected bit 0 and a live bit 1 *)
Example prepare_bits_tracks_example :
  let s := ST (TK 2 2 [Cmd 0 None [0] [0]; Cmd 0 None [1] [1]] [(0, false)] [] (PP 1 1 [])) [1] [] in
  (forall k, has_key (t_psel (s_tk s)) k = true -> k < t_nb (s_tk s)) /\
  incr 0 (s_bits s) (t_nb (s_tk s)) /\
  exists s', prepare_bits s 1 0 = Ok s' /\ t_psel (s_tk s') = [(1, false)] /\ s_bits s' = [0; 2] /\
             map c_bs (t_cmds (s_tk s')) = [[1]; [2]].
Proof.
  cbn zeta. split; [|split].
  - intros k. unfold has_key. simpl. destruct k; simpl; [lia | discriminate].
  - simpl. lia.
  - vm_compute. eexists. repeat split.
Qed.

(* ------------------------------------------------------------------ the repaired behaviour *)
Lemma layers_allowed_fx34 : forall fx ls, fx34 fx = true -> layers_allowed fx ls = true.
Proof.
  intros fx ls H. unfold layers_allowed. apply forallb_forall. intros [b off] _. simpl.
  destruct b; auto. destruct destr, over; auto.
Qed.

(* with the F34 repair the register invariant and the trace refinement hold for EVERY
   circuit, overriding measurements (destructive or not) included *)
Theorem to_tk_registers_inv_repaired_lemma : forall fx dom ls1 ls2 s',
  fx34 fx = true -> to_tk_layers fx dom st0 (ls1 ++ ls2) = Ok s' ->
  exists s1 q1 rho1,
    to_tk_layers fx dom st0 ls1 = Ok s1 /\
    qtrace_layers dom (QS [] 0 []) ls1 = Some q1 /\
    registers_ok s1 q1 rho1.
Proof.
  intros fx dom ls1 ls2 s' Hfx H.
  eapply to_tk_registers_inv_lemma; eauto. apply layers_allowed_fx34; auto.
Qed.

Theorem to_tk_refines_trace_repaired_lemma : forall fx c s,
  fx34 fx = true -> to_tk_state fx c = Ok s ->
  exists q rho,
    qtrace (prep c) = Some q /\
    (forall a b, a < q_next q -> b < q_next q -> rho a = rho b -> a = b) /\
    map qpart (t_cmds (s_tk s)) = map (relabel rho) (q_events q).
Proof.
  intros fx c s Hfx H. eapply to_tk_refines_trace_circuit; eauto. apply layers_allowed_fx34; auto.
Qed.

(* with the F32 repair a swap of two bits that are not post-selected leaves post_selection alone *)
Lemma ps_rename_absent : forall ps i k, has_key ps i = false -> ps_rename ps [(i, k)] = ps.
Proof.
  intros ps i k H. unfold ps_rename, has_key in *. simpl.
  destruct (ps_lookup ps i); [discriminate|]. reflexivity.
Qed.
Theorem swap_keeps_post_selection_repaired : forall fx, fx32 fx = true -> swap_keeps_post_selection_stmt fx.
Proof.
  intros fx Hfx t i j Hi Hj. unfold swap_bits. cbn [t_psel]. rewrite Hfx.
  rewrite (ps_rename_absent _ i 0 Hi). apply ps_rename_absent. exact Hj.
Qed.

(* the former counter-examples under the repaired behaviour *)
Example repaired_witnesses :
  (exists t, to_tk repaired f10_witness = Ok t /\ routing_ok f10_witness t = true) /\
  (exists t, to_tk repaired f31_witness = Ok t /\ routing_ok f31_witness t = true) /\
  (exists t, to_tk repaired f32_witness = Ok t /\ routing_ok f32_witness t = true /\
             t_psel t = [(0, false)]) /\
  (exists s, to_tk_state repaired f34_witness = Ok s /\ s_qubits s = [] /\
             map qpart (t_cmds (s_tk s)) = [(4%Z, None, [2]); (0%Z, None, [1]); (0%Z, None, [2])] /\
             routing_ok f34_witness (s_tk s) = true) /\
  (exists t c2, to_tk repaired f18_witness = Ok t /\ from_tk repaired t (scalar_flag t) = Ok c2 /\
                circuit_ok c2 = true) /\
  (exists c, from_tk repaired f33_witness None = Ok c /\ from_tk_trace_ok f33_witness c = true) /\
  (* F30 has no repair: its witness still fails *)
  (exists t, to_tk repaired f30_witness = Ok t /\ routing_ok f30_witness t = false).
Proof.
  vm_compute.
  split; [eexists; split; reflexivity|].
  split; [eexists; split; reflexivity|].
  split; [eexists; split; [reflexivity|split; reflexivity]|].
  split; [eexists; split; [reflexivity|split; [reflexivity|split; reflexivity]]|].
  split; [eexists; eexists; split; [reflexivity|split; reflexivity]|].
  split; [eexists; split; reflexivity|].
  eexists; split; reflexivity.
Qed.
