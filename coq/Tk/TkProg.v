(* DSL + wire codec for the tket model.  Programs (nested integer lists):
     [1, fixes, circuit]          to_tk: (0 (tk-or-(1 err) flags routing_ok))
     [2, fixes, tk, scalar_flag]  from_tk: (0 (circuit-or-(1 err) trace_ok routing_ok (f18 f33)))
     [3, fixes, circuit]          from_tk (to_tk c) on the insertion-order command list
     [4, circuit]                 prep c = remove_ket1 (init_and_discard c)
   fixes = [fx10, fx18, fx31, fx32, fx33, fx34]  (0 = pinned behaviour, 1 = repaired)
   circuit = [dom, [[box, offset] ...]],  wire: 0 = bit, 1 = qubit
   box = [0, bs] Ket | [1, bs] Bra | [2, bs, dag] Bits | [3, g, n, num, exp] gate
       | [4, l, r] Swap | [5, n, destr, over] Measure | [6, dom] Discard
       | [7, id, mixed] scalar | [8, id, n, m] classical | [9, id, dom, cod] other
   tk = [nq, nb, [[op, par, qs, bs] ...], [[key, val] ...], [[id, mixed] ...], pp]
   par = [] | [num, exp];  pp = [dom, cod, [[pbox, off] ...]];
   pbox = [0] | [1, id, n, m] | [2, bs] *)
From Coq Require Import List ZArith Bool Lia.
Import ListNotations.
Require Import DV.Common.Base DV.Tk.Tk.
Open Scope Z_scope.

Definition sx_nat (s : sexp) : res nat :=
  match s with I z => if z <? 0 then Err BadProgram else Ok (Z.to_nat z) | _ => Err BadProgram end.
Definition sx_nats (s : sexp) : res (list nat) := do l <- sx_list s; mapM sx_nat l.
Definition sx_bools (s : sexp) : res (list bool) := do l <- sx_list s; mapM sx_bool l.
Definition dec_wty (s : sexp) : res wty :=
  match s with I 0 => Ok WBit | I 1 => Ok WQubit | _ => Err BadProgram end.
Definition dec_ty (s : sexp) : res (list wty) := do l <- sx_list s; mapM dec_wty l.

Definition dec_fixes (s : sexp) : res fixes :=
  match s with
  | L [a; b; c; d; e; f] =>
      do a' <- sx_bool a; do b' <- sx_bool b; do c' <- sx_bool c;
      do d' <- sx_bool d; do e' <- sx_bool e; do f' <- sx_bool f;
      Ok (FX a' b' c' d' e' f')
  | _ => Err BadProgram
  end.

Definition dec_box (s : sexp) : res box :=
  match s with
  | L [I 0; bs] => do b <- sx_bools bs; Ok (BKet b)
  | L [I 1; bs] => do b <- sx_bools bs; Ok (BBra b)
  | L [I 2; bs; dg] => do b <- sx_bools bs; do d <- sx_bool dg; Ok (BBits b d)
  | L [I 3; I g; n; I num; e] => do n' <- sx_nat n; do e' <- sx_nat e; Ok (BGate g n' (Dy num e'))
  | L [I 4; l; r] => do l' <- dec_wty l; do r' <- dec_wty r; Ok (BSwap l' r')
  | L [I 5; n; d; o] => do n' <- sx_nat n; do d' <- sx_bool d; do o' <- sx_bool o; Ok (BMeasure n' d' o')
  | L [I 6; d] => do d' <- dec_ty d; Ok (BDiscard d')
  | L [I 7; I id; m] => do m' <- sx_bool m; Ok (BScalar id m')
  | L [I 8; I id; n; m] => do n' <- sx_nat n; do m' <- sx_nat m; Ok (BClassical id n' m')
  | L [I 9; I id; d; c] => do d' <- dec_ty d; do c' <- dec_ty c; Ok (BOther id d' c')
  | _ => Err BadProgram
  end.
Definition dec_layer (s : sexp) : res layer :=
  match s with L [b; o] => do b' <- dec_box b; do o' <- sx_nat o; Ok (b', o') | _ => Err BadProgram end.
Definition dec_circuit (s : sexp) : res circuit :=
  match s with
  | L [d; ls] => do d' <- dec_ty d; do l <- sx_list ls; do ls' <- mapM dec_layer l; Ok (Circ d' ls')
  | _ => Err BadProgram
  end.

Definition dec_par (s : sexp) : res (option dy) :=
  match s with
  | L [] => Ok None
  | L [I num; e] => do e' <- sx_nat e; Ok (Some (Dy num e'))
  | _ => Err BadProgram
  end.
Definition dec_cmd (s : sexp) : res cmd :=
  match s with
  | L [I op; p; qs; bs] => do p' <- dec_par p; do q <- sx_nats qs; do b <- sx_nats bs; Ok (Cmd op p' q b)
  | _ => Err BadProgram
  end.
Definition dec_pbox (s : sexp) : res pbox :=
  match s with
  | L [I 0] => Ok PSwap
  | L [I 1; I id; n; m] => do n' <- sx_nat n; do m' <- sx_nat m; Ok (PClass id n' m')
  | L [I 2; bs] => do b <- sx_bools bs; Ok (PBitsDag b)
  | _ => Err BadProgram
  end.
Definition dec_pp (s : sexp) : res ppd :=
  match s with
  | L [d; c; bx] =>
      do d' <- sx_nat d; do c' <- sx_nat c; do l <- sx_list bx;
      do bs <- mapM (fun e => match e with
                              | L [p; o] => do p' <- dec_pbox p; do o' <- sx_nat o; Ok (p', o')
                              | _ => Err BadProgram end) l;
      Ok (PP d' c' bs)
  | _ => Err BadProgram
  end.
Definition dec_tk (s : sexp) : res tkc :=
  match s with
  | L [nq; nb; cs; ps; sc; pp] =>
      do nq' <- sx_nat nq; do nb' <- sx_nat nb;
      do cl <- sx_list cs; do cs' <- mapM dec_cmd cl;
      do pl <- sx_list ps;
      do ps' <- mapM (fun e => match e with
                               | L [k; v] => do k' <- sx_nat k; do v' <- sx_bool v; Ok (k', v')
                               | _ => Err BadProgram end) pl;
      do sl <- sx_list sc;
      do sc' <- mapM (fun e => match e with
                               | L [I id; m] => do m' <- sx_bool m; Ok (id, m')
                               | _ => Err BadProgram end) sl;
      do pp' <- dec_pp pp;
      Ok (TK nq' nb' cs' ps' sc' pp')
  | _ => Err BadProgram
  end.

(* ---- encoders ---- *)
Definition of_nat (n : nat) : sexp := I (Z.of_nat n).
Definition of_nats (l : list nat) : sexp := L (map of_nat l).
Definition of_bools (l : list bool) : sexp := L (map of_bool l).
Definition of_wty (w : wty) : sexp := match w with WBit => I 0 | WQubit => I 1 end.
Definition of_ty (t : list wty) : sexp := L (map of_wty t).
Definition enc_box (b : box) : sexp :=
  match b with
  | BKet bs => L [I 0; of_bools bs]
  | BBra bs => L [I 1; of_bools bs]
  | BBits bs d => L [I 2; of_bools bs; of_bool d]
  | BGate g n ph => L [I 3; I g; of_nat n; I (dnum ph); of_nat (dexp ph)]
  | BSwap l r => L [I 4; of_wty l; of_wty r]
  | BMeasure n d o => L [I 5; of_nat n; of_bool d; of_bool o]
  | BDiscard d => L [I 6; of_ty d]
  | BScalar id m => L [I 7; I id; of_bool m]
  | BClassical id n m => L [I 8; I id; of_nat n; of_nat m]
  | BOther id d c => L [I 9; I id; of_ty d; of_ty c]
  end.
Definition enc_circuit (c : circuit) : sexp :=
  L [of_ty (c_dom c); L (map (fun '(b, o) => L [enc_box b; of_nat o]) (c_layers c))].
Definition enc_par (p : option dy) : sexp :=
  match p with None => L [] | Some d => L [I (dnum d); of_nat (dexp d)] end.
Definition enc_cmd (c : cmd) : sexp :=
  L [I (c_op c); enc_par (c_par c); of_nats (c_qs c); of_nats (c_bs c)].
Definition enc_pbox (p : pbox) : sexp :=
  match p with
  | PSwap => L [I 0]
  | PClass id n m => L [I 1; I id; of_nat n; of_nat m]
  | PBitsDag bs => L [I 2; of_bools bs]
  end.
Definition enc_pp (p : ppd) : sexp :=
  L [of_nat (pp_dom p); of_nat (pp_cod p);
     L (map (fun '(b, o) => L [enc_pbox b; of_nat o]) (pp_boxes p))].
Definition enc_tk (t : tkc) : sexp :=
  L [of_nat (t_nq t); of_nat (t_nb t); L (map enc_cmd (t_cmds t));
     L (map (fun '(k, v) => L [of_nat k; of_bool v]) (t_psel t));
     L (map (fun '(id, m) => L [I id; of_bool m]) (t_scal t));
     enc_pp (t_pp t)].
Definition enc_flags (f : flags) : sexp :=
  L [of_bool (fl_f10 f); of_bool (fl_f30 f); of_bool (fl_f31 f); of_bool (fl_f32 f);
     of_bool (fl_f34 f); of_bool (fl_over f); of_bool (fl_arity f)].

Definition answer (r : res sexp) : sexp :=
  match r with Ok s => L [I 0; s] | Err e => L [I 1; I (err_code e)] end.

Definition scalar_id_of (t : tkc) (flag : bool) : option Z := if flag then Some 0 else None.

Definition run_sexp (s : sexp) : sexp :=
  match s with
  | L [I 1; fxs; c] =>
      answer (do fx <- dec_fixes fxs; do c' <- dec_circuit c;
              match to_tk fx c' with
              | Ok t => Ok (L [enc_tk t; enc_flags (to_tk_flags fx c'); of_bool (routing_ok c' t)])
              | Err e => Ok (L [L [I 1; I (err_code e)]; enc_flags (to_tk_flags fx c'); of_bool false])
              end)
  | L [I 2; fxs; t; fl] =>
      answer (do fx <- dec_fixes fxs; do t' <- dec_tk t; do f <- sx_bool fl;
              let tr := L [of_bool (f18_trigger fx t'); of_bool (f33_trigger fx t')] in
              match from_tk fx t' (scalar_id_of t' f) with
              | Ok c => Ok (L [enc_circuit c; of_bool (from_tk_trace_ok t' c);
                               of_bool (from_tk_routing_ok t' c); tr])
              | Err e => Ok (L [L [I 1; I (err_code e)]; of_bool false; of_bool false; tr])
              end)
  | L [I 3; fxs; c] =>
      answer (do fx <- dec_fixes fxs; do c' <- dec_circuit c; do t <- to_tk fx c';
              do c2 <- from_tk fx t (match t_scal t with [] => None | _ => Some 0 end);
              Ok (enc_circuit c2))
  | L [I 4; c] => answer (do c' <- dec_circuit c; Ok (enc_circuit (prep c')))
  | _ => L [I 1; I (err_code BadProgram)]
  end.
