(* Diagrammatic gradients exactly as the pinned DisCoPy code computes them
   (bug-compatible; findings F12, F12b, F12c of notes/C15.md).
   Definitions only; proofs are in Grad/GradLemmas.v.

   Python code mirrored:
     sympy  e.diff(x)  on the polynomial fragment          ~ poly_diff
     tensor.Diagram.grad   (product rule over the layers, with the shortcut
                            `if var not in self.free_symbols: return self.sum([], ...)`
                            and `t1 + t2`)                  ~ dgrad_go / dgrad
     tensor.Box.grad       (a bubble applying x -> x.diff(var))
     tensor.Bubble.grad    (chain rule between two spiders)
     tensor.Diagram.jacobian, quantum.circuit.Circuit.jacobian   ~ jacobian
     quantum.gates.Rotation.grad (pure:  scalar(pi p') @ R(p + 1/2),
                                  mixed: s @ (R(p + 1/4) + scalar(-1) @ R(p - 1/4)),
                                  NotImplementedError when len(dom) != 1)
     quantum.gates.CU1.grad / CRz.grad / CRx.grad (pure only)
     quantum.gates.Scalar.grad (also MixedScalar: the result is a *pure* Scalar)
     quantum.circuit.Box.grad (NotImplementedError when the box depends on var)
     quantum.zx.Spider.grad, zx.Scalar.grad, zx.Box (unbounded recursion when
                                  a generic box depends on var)
   Term order of the formal sum: `t1 + t2` is `Sum(t1.terms + t2.terms)` except
   when t1 is a plain circuit (not a Sum) and t2 a circuit.Sum: circuit.Sum is a
   subclass of Circuit with its own __radd__, so Python calls t2.__radd__(t1)
   first and t1 is appended ON THE RIGHT (DESIGN Appendix A).  For tensor / zx
   diagrams Sum.then goes through monoidal.Sum.upgrade, the result is a
   monoidal.Sum (not a subclass of tensor.Diagram) and the order is t1, t2. *)
From Coq Require Import List ZArith Bool Lia QArith Qcanon.
Import ListNotations.
Require Import DV.Common.Base DV.Param.Expr DV.Param.Param.
Open Scope Z_scope.

(* ------------------------------------------------------------------ d/dx on polynomials *)
Definition qnat (n : nat) : Qc := Q2Qc (inject_Z (Z.of_nat n)).

(* derivative of one monomial by the product rule over its factors: a list of
   (integer factor, monomial); at most one entry for a canonical monomial *)
Fixpoint mono_diff (x : var) (m : mono) : list (nat * mono) :=
  match m with
  | [] => []
  | (y, e) :: m' =>
      (if (y =? x)%Z
       then match e with O => [] | S k => [(e, mono_ins0 y k m')] end
       else [])
      ++ map (fun t => (fst t, mono_ins0 y e (snd t))) (mono_diff x m')
  end.

(* sympy: p.diff(x), term-wise, re-canonicalised *)
Definition poly_diff (x : var) (p : poly) : poly :=
  fold_right
    (fun t acc =>
       fold_right (fun km acc' => poly_add_term (snd km) (snd t * qnat (fst km))%Qc acc')
                  acc (mono_diff x (fst t)))
    [] p.

(* the reference: evaluation in the dual numbers Q[eps]/(eps^2), i.e. forward
   differentiation: a pair (value, derivative) *)
Definition dn := (Qc * Qc)%type.
Definition dn_const (c : Qc) : dn := (c, Q2Qc 0).
Definition dn_add (u v : dn) : dn := ((fst u + fst v)%Qc, (snd u + snd v)%Qc).
Definition dn_mul (u v : dn) : dn :=
  ((fst u * fst v)%Qc, (snd u * fst v + fst u * snd v)%Qc).      (* Leibniz *)
Fixpoint dn_pow (u : dn) (n : nat) : dn :=
  match n with O => dn_const (Q2Qc 1) | S k => dn_mul u (dn_pow u k) end.
(* the variable x has derivative 1, every other symbol 0 *)
Definition dn_var (x : var) (rho : env) (y : var) : dn :=
  (rho y, if (y =? x)%Z then Q2Qc 1 else Q2Qc 0).
Fixpoint deval_mono (x : var) (rho : env) (m : mono) : dn :=
  match m with
  | [] => dn_const (Q2Qc 1)
  | (y, e) :: m' => dn_mul (dn_pow (dn_var x rho y) e) (deval_mono x rho m')
  end.
Fixpoint deval_poly (x : var) (rho : env) (p : poly) : dn :=
  match p with
  | [] => dn_const (Q2Qc 0)
  | (m, c) :: p' => dn_add (dn_mul (dn_const c) (deval_mono x rho m)) (deval_poly x rho p')
  end.

(* ------------------------------------------------------------------ boxes of a gradient *)
(* a scalar coefficient  i^cf_i * pi^cf_pi * cf_poly * exp(2 i pi q)  (cf_exp = Some q);
   cf_py: the datum is a Python number (complex(gradient) * numpy.pi), not a sympy object *)
Record coef := CF { cf_py : bool; cf_i : bool; cf_pi : bool; cf_poly : poly;
                    cf_exp : option poly }.

(* Bubble.func: a polynomial in the reserved symbol tmp applied entrywise, or
   the entrywise derivative x -> x.diff(var) of tensor.Box.grad *)
Definition tmp_sym : var := 90.
Inductive bfun := FPoly (f : poly) | FDiff (x : var).

Inductive gbox :=
| GP (b : pbox)                                   (* any box of Param.v *)
| GC (zx mixed : bool) (c : coef)                 (* gates.Scalar / zx.Scalar holding a coefficient *)
| GSp (nin nout : nat) (dim : ty)                 (* tensor.Spider(nin, nout, dim), len(dim) <= 1 *)
| GBub (f : bfun) (dom cod : ty) (bs : list gbox) (offs : list Z).   (* tensor.Bubble *)

Definition rep_ty (dim : ty) (n : nat) : ty := concat (repeat dim n).
Definition gbdom (b : gbox) : ty :=
  match b with
  | GP p => pdom p | GC _ _ _ => [] | GSp n _ dim => rep_ty dim n | GBub _ d _ _ _ => d
  end.
Definition gbcod (b : gbox) : ty :=
  match b with
  | GP p => pcod p | GC _ _ _ => [] | GSp _ m dim => rep_ty dim m | GBub _ _ c _ _ => c
  end.

Definition opt_vars (o : option poly) : list var :=
  match o with Some q => poly_vars q | None => [] end.
(* ---- repair switches: one per finding whose upstream fix is a few lines (as
   `fixes` in Param/Param.v).  `gpinned` (all off) is the code as pinned; a
   switch on selects the behaviour of the proposed patch.  The harness sends
   the switches with every program (GradProg.run_sexp). ---- *)
Record gfixes := GFX {
  gx_b : bool;   (* notes/patches/F12b.diff applied: cat.Bubble.free_symbols = inside.free_symbols *)
  gx_c : bool }. (* notes/patches/F12c.diff applied: Scalar.grad of a mixed scalar returns
                    Scalar(s', is_mixed=True) *)
Definition gpinned : gfixes := GFX false false.
Definition grepaired : gfixes := GFX true true.

(* the free symbols of a box that is not a bubble (the pinned per-leaf free symbols) *)
Definition gbfree_leaf (b : gbox) : list var :=
  match b with
  | GP p => box_fs p
  | GC _ _ c => zset_of (poly_vars (cf_poly c) ++ opt_vars (cf_exp c))
  | GSp _ _ _ => []
  | GBub _ _ _ _ _ => []
  end.
(* symbols occurring anywhere, bubbles included (independent of the switches) *)
Fixpoint gbfree_deep (b : gbox) : list var :=
  match b with
  | GBub _ _ _ bs _ => flat_map gbfree_deep bs
  | _ => gbfree_leaf b
  end.
(* box.free_symbols.  monoidal.Bubble passes data=None to Box.__init__: on the pinned
   code a bubble has NO free symbols whatever its inside contains (finding F12b);
   with gx_b it has those of its inside *)
Definition gbfree (fx : gfixes) (b : gbox) : list var :=
  match b with
  | GBub _ _ _ _ _ => if gx_b fx then zset_of (gbfree_deep b) else []
  | _ => gbfree_leaf b
  end.
(* cat.Arrow.free_symbols *)
Definition gfree (fx : gfixes) (bs : list gbox) : list var := zset_of (flat_map (gbfree fx) bs).

Record gdiag := GD { gdom : ty; gcod : ty; gboxes : list gbox; goffs : list Z }.
Definition frag := (list gbox * list Z)%type.          (* a term: boxes and offsets *)
Record gsum := GS { gsdom : ty; gscod : ty; gsterms : list frag }.

(* the type scan of monoidal.Diagram.__init__ *)
Fixpoint gscan (t : ty) (bs : list gbox) (offs : list Z) : res ty :=
  match bs, offs with
  | b :: bs', off :: offs' =>
      if negb ((0 <=? off) && (off <=? len t - len (gbdom b))) then Err AxiomError
      else
        let left := firstn (Z.to_nat off) t in
        let right := skipn (Z.to_nat (off + len (gbdom b))) t in
        if ty_eqb t (left ++ gbdom b ++ right)
        then gscan (left ++ gbcod b ++ right) bs' offs'
        else Err AxiomError
  | _, _ => Ok t
  end.
Definition gmk (dom cod : ty) (bs : list gbox) (offs : list Z) : res gdiag :=
  if negb (len bs =? len offs) then Err ValueError else
  do t <- gscan dom bs offs;
  if ty_eqb t cod then Ok (GD dom cod bs offs) else Err AxiomError.
Definition gwf (d : gdiag) : bool :=
  (len (gboxes d) =? len (goffs d)) &&
  match gscan (gdom d) (gboxes d) (goffs d) with Ok t => ty_eqb t (gcod d) | Err _ => false end.

(* ------------------------------------------------------------------ box.grad *)
(* the result of box.grad(var): a Sum (true) or a plain diagram (false), as terms *)
Definition gout := (bool * list frag)%type.
Definition empty_sum : res gout := Ok (true, []).
Definition plain (bs : list gbox) (offs : list Z) : res gout := Ok (false, [(bs, offs)]).

Definition q_quarter : Qc := Q2Qc (1 # 4).
Definition q_half : Qc := Q2Qc (1 # 2).
Definition q_two : Qc := Q2Qc 2.
(* self.phase + c : always a sympy object *)
Definition shift_phase (e : pexpr) (c : Qc) : pexpr := PE true (poly_add (epoly e) (poly_const c)).
Definition rebox (b : pbox) (e : pexpr) : gbox :=
  GP (PB (pk b) (pname b) (pdom b) (pcod b) false false (DScalar e)).
(* scalar(numpy.pi * gradient [, is_mixed]) : complex(gradient) when it has no free symbol *)
Definition pi_coef (g : poly) : coef := CF (closed g) false true g None.
(* scalar(c * 1j * sympy.pi * gradient) : always a sympy object *)
Definition ipi_coef (c : Qc) (g : poly) : coef :=
  CF false true true (poly_scale_mono [] c g) None.
Definition qscalar (mixed : bool) (e : pexpr) : gbox :=
  GP (PB KQScalar 0 [] [] false mixed (DScalar e)).
(* library gates by the name codes of harness/param_impl.py (X = 2, Z = 3) and
   two more for _outer_prod_diag(1, 1) = Bra(1, 1) >> Ket(1, 1) *)
Definition lib1 (code : Z) : gbox := GP (PB KGen code [2] [2] false false DNone).
Definition bra11 : gbox := GP (PB KGen 30 [2; 2] [] false false DNone).
Definition ket11 : gbox := GP (PB KGen 31 [] [2; 2] false false DNone).

(* quantum.gates / quantum.circuit boxes *)
Definition circuit_leaf_grad (fx : gfixes) (x : var) (mixed : bool) (b : pbox) : res gout :=
  match pk b, pdat b with
  | KRot, DScalar e =>
      if negb (zmem x (box_fs b)) then empty_sum else
      let g := poly_diff x (epoly e) in
      let controlled := (4 <=? pname b) in
      if mixed then
        (* Rotation.grad, params.get('mixed', True); CU1 / CRz / CRx defer to it *)
        if negb (len (pdom b) =? 1) then Err NotImplementedError else
        let s := GC false true (pi_coef g) in
        Ok (true, [([s; rebox b (shift_phase e q_quarter)], [0; 0]);
                   ([s; qscalar true (PE false (poly_const (- (Q2Qc 1))%Qc));
                     rebox b (shift_phase e (- q_quarter)%Qc)], [0; 0; 0])])
      else if negb controlled then
        plain [GC false false (pi_coef g); rebox b (shift_phase e q_half)] [0; 0]
      else if pname b =? 4 then
        (* CU1: _outer_prod_diag(1, 1) @ scalar(2 i pi p' exp(2 i pi p)) *)
        plain [bra11; ket11;
               GC false false (CF false true true (poly_scale_mono [] q_two g) (Some (epoly e)))]
              [0; 0; 2]
      else if (pname b =? 5) || (pname b =? 6) then
        (* CRz / CRx: self >> (Z @ G @ scalar(i pi/2 p') + Id(qubit) @ G @ scalar(-i pi/2 p')) *)
        let gate := lib1 (if pname b =? 5 then 3 else 2) in
        Ok (true, [([GP b; lib1 3; gate; GC false false (ipi_coef q_half g)], [0; 0; 1; 2]);
                   ([GP b; gate; GC false false (ipi_coef (- q_half)%Qc g)], [0; 1; 2])])
      else Err BadProgram
  | KRot, _ => Err BadProgram
  | (KQScalar | KMixedScalar), DScalar e =>
      (* Scalar.grad: Scalar(self.array[0].diff(var)) -- a PURE scalar even when self is
         mixed (F12c; with gx_c: is_mixed=self.is_mixed); correct for pure evaluation
         only (F12) *)
      if negb (zmem x (box_fs b)) then empty_sum
      else plain [qscalar (gx_c fx && pmixed b) (PE true (poly_diff x (epoly e)))] [0]
  | (KQScalar | KMixedScalar), _ => Err BadProgram
  | KGen, _ =>
      (* circuit.Box.grad: gates, kets, bras, measurements ... have no free symbol *)
      if zmem x (box_fs b) then Err NotImplementedError else empty_sum
  | (KSqrt | KClassical), _ =>
      (* sqrt / ClassicalGate arrays: outside the polynomial fragment when they depend on var *)
      if zmem x (box_fs b) then Err BadProgram else empty_sum
  | _, _ => Err BadProgram
  end.

(* quantum.zx boxes *)
Definition zx_leaf_grad (x : var) (b : pbox) : res gout :=
  match pk b, pdat b with
  | KSpider, DScalar e =>
      if negb (zmem x (box_fs b)) then empty_sum else
      plain [GC true false (pi_coef (poly_diff x (epoly e))); rebox b (shift_phase e q_half)] [0; 0]
  | KZScalar, DScalar e =>
      if negb (zmem x (box_fs b)) then empty_sum else
      plain [GP (PB KZScalar 0 [] [] false false (DScalar (PE true (poly_diff x (epoly e)))))] [0]
  | KGen, _ =>
      (* zx.Box has no grad of its own: Diagram.grad calls box.grad, i.e. itself *)
      if zmem x (box_fs b) then Err OutOfFuel else empty_sum
  | _, _ => Err BadProgram
  end.

(* tensor boxes: tensor.Swap is a Diagram without free symbols, everything else a tensor.Box *)
Definition tensor_leaf_grad (x : var) (b : pbox) : res gout :=
  match pk b with
  | KGen => if pname b =? 1 then empty_sum
            else plain [GBub (FDiff x) (pdom b) (pcod b) [GP b] [0]] [0]
  | _ => Err BadProgram
  end.

Definition leaf_grad (fx : gfixes) (cls : dclass) (x : var) (mixed : bool) (b : pbox) : res gout :=
  match cls with
  | CCircuit => circuit_leaf_grad fx x mixed b
  | CZX => zx_leaf_grad x b
  | CTensor => tensor_leaf_grad x b
  | _ => Err AttributeError
  end.

(* lambda x: self.func(tmp).diff(tmp).subs(tmp, x) *)
Definition fderiv (f : bfun) : bfun :=
  match f with FPoly p => FPoly (poly_diff tmp_sym p) | FDiff _ => FPoly [] end.

Definition is_circuit (cls : dclass) : bool := match cls with CCircuit => true | _ => false end.

(* ------------------------------------------------------------------ Diagram.grad *)
Section DGrad.
  Variables (fx : gfixes) (cls : dclass) (x : var) (bg : gbox -> res gout).
  (* tensor.Diagram.grad on the layers from the current one on *)
  Fixpoint dgrad_go (bs : list gbox) (offs : list Z) : res (list frag) :=
    if negb (zmem x (gfree fx bs)) then Ok [] else
    match bs, offs with
    | b :: bs', o :: offs' =>
        do gb <- bg b;                       (* box.grad(var, **params), evaluated first *)
        do gt <- dgrad_go bs' offs';         (* tail.grad(var, **params) *)
        (* t1 = id(left) @ box.grad @ id(right) >> tail *)
        let t1 := map (fun f => (fst f ++ bs', map (Z.add o) (snd f) ++ offs')) (snd gb) in
        (* t2 = id(left) @ box @ id(right) >> tail.grad *)
        let t2 := map (fun f => (b :: fst f, o :: snd f)) gt in
        Ok (if is_circuit cls && negb (fst gb) then t2 ++ t1 else t1 ++ t2)
    | _, _ => Ok []
    end.
End DGrad.

Fixpoint bgrad (fx : gfixes) (cls : dclass) (x : var) (mixed : bool) (b : gbox) {struct b} : res gout :=
  match b with
  | GP p => leaf_grad fx cls x mixed p
  | GC _ _ _ => Err BadProgram
  | GSp _ _ _ =>
      match cls with
      | CTensor => plain [GBub (FDiff x) (gbdom b) (gbcod b) [b] [0]] [0]
      | _ => Err BadProgram
      end
  | GBub f dom cod bs offs =>
      (* Spider(1, 2, dim=self.dom) >> self.inside.bubble(func') @ self.inside.grad(var)
           >> Spider(2, 1, dim=self.cod) *)
      match cls with
      | CTensor =>
          if 1 <? len dom then Err ValueError else
          do gin <- dgrad_go fx cls x (bgrad fx cls x mixed) bs offs;
          if 1 <? len cod then Err ValueError else
          let inner := GBub (fderiv f) dom cod bs offs in
          Ok (true,
              map (fun fr => (GSp 1 2 dom :: inner :: fst fr ++ [GSp 2 1 cod],
                              0 :: 0 :: map (Z.add (len cod)) (snd fr) ++ [0])) gin)
      | _ => Err BadProgram
      end
  end.

(* d.grad(var) / d.grad(var, mixed=False) on a diagram built by the class constructor *)
Definition dgrad (fx : gfixes) (cls : dclass) (x : var) (mixed : bool) (d : gdiag) : res gsum :=
  match cls with
  | CTensor | CCircuit | CZX =>
      do ts <- dgrad_go fx cls x (bgrad fx cls x mixed) (gboxes d) (goffs d);
      Ok (GS (gdom d) (gcod d) ts)
  | _ => Err AttributeError            (* cat / monoidal / rigid diagrams have no grad *)
  end.

(* ------------------------------------------------------------------ jacobian *)
Definition py_const (c : Qc) : pexpr := PE false (poly_const c).
Definition onehot (n i : nat) : list pexpr :=
  map (fun k => py_const (if (k =? i)%nat then Q2Qc 1 else Q2Qc 0)) (seq 0 n).
(* Box(var, Dim(1), dim, onehot): the box is *named* by the symbol (code 1000 + var) *)
Definition onehot_box (x : var) (dim : ty) (n i : nat) : gbox :=
  GP (PB KGen (1000 + x) [] dim false false (DList (onehot (Nat.max n 1) i))).
(* Digits(i, dim=n): Bits(i) when n = 2 *)
Definition digit_wire (n : nat) : Z := if (n =? 2)%nat then 1 else 10 + Z.of_nat n.
Definition digit_box (n i : nat) : gbox :=
  GP (PB KClassical (if (n =? 2)%nat then 1 + Z.of_nat i else 2000 + 100 * Z.of_nat n + Z.of_nat i)
         [] [digit_wire n] false false DNone).

(* stack one gradient under the i-th basis state *)
Definition stack (hd : gbox) (shift : Z) (ts : list frag) : list frag :=
  map (fun f => (hd :: fst f, 0 :: map (Z.add shift) (snd f))) ts.

Section Jac.
  Variables (fx : gfixes) (cls : dclass) (mixed : bool) (d : gdiag) (n : nat) (dim : ty).
  Fixpoint jac_go (i : nat) (xs : list var) : res (list frag) :=
    match xs with
    | [] => Ok []
    | x :: xs' =>
        do g <- dgrad fx cls x mixed d;
        do rest <- jac_go (S i) xs';
        let hd := match cls with CTensor => onehot_box x dim n i | _ => digit_box n i end in
        Ok (stack hd (len dim) (gsterms g) ++ rest)
    end.
End Jac.

Definition jacobian (fx : gfixes) (cls : dclass) (mixed : bool) (xs : list var) (d : gdiag) : res gsum :=
  let n := length xs in
  match cls with
  | CTensor =>
      (* dim = Dim(len(variables) or 1); Dim drops 1 *)
      let dim := if (n <=? 1)%nat then [] else [Z.of_nat n] in
      do ts <- jac_go fx cls mixed d n dim 0 xs;
      Ok (GS (gdom d) (dim ++ gcod d) ts)
  | CCircuit =>
      match xs with
      | [] => Ok (GS (gdom d) (gcod d) [])
      | [x] => dgrad fx cls x mixed d
      | _ =>
          let dim := [digit_wire n] in
          do ts <- jac_go fx cls mixed d n dim 0 xs;
          Ok (GS (gdom d) (dim ++ gcod d) ts)
      end
  | CZX => Err BadProgram      (* tensor.Diagram.jacobian on PRO types: TypeError, not modelled *)
  | _ => Err AttributeError
  end.

(* ------------------------------------------------------------------ executable semantics
   of scalar-only circuits with real polynomial data (conjugation is the identity),
   used for the refutation witnesses of F12 / F12c *)
(* pure evaluation: the product of the scalars; mixed (CQMap) evaluation: a pure
   scalar s contributes |s|^2 = s * s, a mixed scalar contributes s *)
Definition scalar_value (mixed_eval : bool) (b : gbox) : option poly :=
  match b with
  | GP p =>
      match pk p, pdat p with
      | (KQScalar | KMixedScalar), DScalar e =>
          let s := epoly e in
          Some (if mixed_eval && negb (pmixed p) then poly_mul s s else s)
      | _, _ => None
      end
  | _ => None
  end.
Fixpoint scalars_eval (mixed_eval : bool) (bs : list gbox) : option poly :=
  match bs with
  | [] => Some poly_one
  | b :: bs' =>
      match scalar_value mixed_eval b, scalars_eval mixed_eval bs' with
      | Some v, Some r => Some (poly_mul v r)
      | _, _ => None
      end
  end.
Fixpoint sum_eval (mixed_eval : bool) (ts : list frag) : option poly :=
  match ts with
  | [] => Some []
  | t :: ts' =>
      match scalars_eval mixed_eval (fst t), sum_eval mixed_eval ts' with
      | Some v, Some r => Some (poly_add v r)
      | _, _ => None
      end
  end.
Definition poly_eqb (p q : poly) : bool :=
  list_eqb (fun a b => list_eqb (fun u v => (fst u =? fst v)%Z && (snd u =? snd v)%nat) (fst a) (fst b)
                       && qc_eqb (snd a) (snd b)) p q.

(* does the gradient of a scalar-only circuit evaluate to the derivative of its evaluation? *)
Definition scalar_grad_ok (fx : gfixes) (mixed_eval : bool) (x : var) (bs : list gbox) : option bool :=
  let offs := map (fun _ => 0) bs in
  match dgrad_go fx CCircuit x (bgrad fx CCircuit x mixed_eval) bs offs with
  | Ok ts =>
      match sum_eval mixed_eval ts, scalars_eval mixed_eval bs with
      | Some g, Some v => Some (poly_eqb g (poly_diff x v))
      | _, _ => None
      end
  | Err _ => None
  end.

(* ------------------------------------------------------------------ triggers *)
(* F12: a pure Scalar depending on var, differentiated with the default (mixed) gradient *)
Definition f12_box (x : var) (b : gbox) : bool :=
  match b with
  | GP p => match pk p with KQScalar => negb (pmixed p) && zmem x (box_fs p) | _ => false end
  | _ => false
  end.
(* F12c: a mixed scalar depending on var: its gradient is a pure Scalar *)
Definition f12c_box (x : var) (b : gbox) : bool :=
  match b with
  | GP p => match pk p with
            | KQScalar => pmixed p && zmem x (box_fs p)
            | KMixedScalar => zmem x (box_fs p)
            | _ => false end
  | _ => false
  end.
(* F12b: var occurs inside a bubble of the diagram *)
Definition f12b_box (x : var) (b : gbox) : bool :=
  match b with GBub _ _ _ _ _ => zmem x (gbfree_deep b) | _ => false end.
