(* Proofs about Grad/Grad.v (the model of DisCoPy's diagrammatic gradients):

   A  poly_diff is the forward-mode (dual number) derivative of a polynomial
      (dn_pow_spec, deval_mono_spec, poly_diff_correct, poly_diff_absent).
   B  the gradient of a diagram without the symbol is the empty sum
      (grad_of_constant_is_empty); jacobian stacks the gradients in the order of
      the symbols under the basis states (jac_go_spec, jacobian_stacks_in_order).
   C  the product rule in an abstract additive monoidal semantics
      (Section GradSem: ev_app, ev_shift, ev_constant, grad_product_rule;
      closed forms over a record grad_model: grad_product_rule_closed,
      grad_eval_is_derivative; instance on the dual numbers: dn_model,
      ex_product_rule).  ev_shift IS PROVED here (it is not assumed).
      dgrad_go_typed / grad_terms_well_typed: the terms of a gradient are
      well-typed diagrams dom -> cod (no semantics involved).
      grad_product_rule_on is the same theorem with the two box-level premises
      required only of the boxes of the diagram at hand.
   D  the box rules in a differential *-ring (Section DiffRing:
      rotation_grad_pure, rotation_grad_shift, controlled_grads; closed forms
      ..._closed over diff_hyps; diffring_nonvacuous).
   E  refutations by computation: F12 (scalar_grad_mixed_refuted, every switch
      setting), F12c (mixed_scalar_grad_refuted), F12b (bubble_grad_refuted) on
      the pinned switches; the same witnesses pass on the repaired switches
      (mixed_scalar_grad_repaired, bubble_grad_repaired).

   Every theorem about the gradient model is stated for every setting fx of
   the repair switches (Grad.gfixes) unless it names gpinned / grepaired.

   What is NOT proved: that a concrete semantics (matrices of Quantum/Gates.v
   over smooth functions, CQMap for mixed circuits) is a grad_model in which
   every rotation / controlled rotation / scalar box satisfies gm_grad_ok for
   bgrad; part D proves the ring identities that such a proof needs, entry by
   entry, for the parametrised entries of the gates. *)
From Coq Require Import List ZArith Bool Lia QArith Qcanon Ring.
Import ListNotations.
Require Import DV.Quantum.Ring DV.Quantum.Gates DV.Quantum.Cyc32.
Require Import DV.Common.Base DV.Common.ListLemmas DV.Param.Expr DV.Param.ExprLemmas DV.Param.Param DV.Param.ParamLemmas.
Require Import DV.Grad.Grad.
Open Scope Z_scope.

(* ================================================================== PART A *)
Section PolyDiff.
Local Open Scope Qc_scope.

Lemma qnat_0 : qnat 0 = 0.
Proof. apply Qc_is_canon. reflexivity. Qed.

Lemma qnat_S : forall n, qnat (S n) = 1 + qnat n.
Proof.
  intros. unfold qnat. apply Qc_is_canon. unfold Qcplus. cbn [this Q2Qc].
  rewrite !Qred_correct. rewrite Nat2Z.inj_succ. unfold Z.succ.
  rewrite inject_Z_plus. rewrite Qplus_comm. reflexivity.
Qed.

Lemma dn_pow_spec : forall a a' e,
  dn_pow (a, a') e = (qpow a e, qnat e * qpow a (pred e) * a').
Proof.
  intros a a' e. induction e as [|e IH].
  - simpl. unfold dn_const. f_equal. rewrite qnat_0. ring.
  - cbn [dn_pow]. rewrite IH. unfold dn_mul. cbn [fst snd pred qpow]. f_equal.
    rewrite qnat_S. destruct e as [|e]; cbn [pred qpow].
    + rewrite qnat_0. ring.
    + rewrite qnat_S. ring.
Qed.

Definition dsum (rho : env) (l : list (nat * mono)) : Qc :=
  fold_right (fun km acc => qnat (fst km) * eval_mono rho (snd km) + acc) (Q2Qc 0) l.

Lemma dsum_app : forall rho l1 l2, dsum rho (l1 ++ l2) = dsum rho l1 + dsum rho l2.
Proof. induction l1; intros; simpl; [ring | rewrite IHl1; ring]. Qed.

Lemma dsum_map_ins0 : forall rho y e l,
  dsum rho (map (fun t => (fst t, mono_ins0 y e (snd t))) l) = qpow (rho y) e * dsum rho l.
Proof.
  induction l as [|[k m] l IH]; simpl; [ring|].
  rewrite IH, eval_mono_ins0. ring.
Qed.

Lemma deval_mono_spec : forall x rho m,
  deval_mono x rho m =
  (eval_mono rho m,
   fold_right (fun km acc => qnat (fst km) * eval_mono rho (snd km) + acc) (Q2Qc 0) (mono_diff x m)).
Proof.
  intros x rho m. change (deval_mono x rho m = (eval_mono rho m, dsum rho (mono_diff x m))).
  induction m as [|[y e] m IH]; [reflexivity|].
  cbn [deval_mono mono_diff eval_mono]. rewrite IH. unfold dn_var. rewrite dn_pow_spec.
  unfold dn_mul. cbn [fst snd]. f_equal.
  rewrite dsum_app, dsum_map_ins0.
  destruct (y =? x)%Z.
  - destruct e as [|e].
    + simpl. rewrite qnat_0. ring.
    + cbn [pred dsum fold_right fst snd]. rewrite eval_mono_ins0. ring.
  - simpl. ring.
Qed.

Lemma eval_poly_diff_inner : forall rho c l acc,
  eval_poly rho (fold_right (fun km acc' => poly_add_term (snd km) (c * qnat (fst km)) acc') acc l)
  = c * dsum rho l + eval_poly rho acc.
Proof.
  induction l as [|[k m] l IH]; intros; simpl; [ring|].
  rewrite eval_poly_add_term, IH. simpl. ring.
Qed.

Theorem poly_diff_correct : forall x rho p,
  deval_poly x rho p = (eval_poly rho p, eval_poly rho (poly_diff x p)).
Proof.
  intros x rho p. induction p as [|[m c] p IH]; [reflexivity|].
  cbn [deval_poly]. rewrite IH, deval_mono_spec. fold (dsum rho (mono_diff x m)).
  unfold poly_diff. cbn [fold_right fst snd]. fold (poly_diff x p).
  rewrite eval_poly_diff_inner.
  unfold dn_add, dn_mul, dn_const. cbn [fst snd eval_poly]. f_equal. ring.
Qed.

Lemma dn_add_snd : forall u v, snd (dn_add u v) = snd u + snd v.
Proof. reflexivity. Qed.
Lemma dn_mul_leibniz : forall u v, snd (dn_mul u v) = snd u * fst v + fst u * snd v.
Proof. reflexivity. Qed.
Lemma dn_const_snd : forall c, snd (dn_const c) = Q2Qc 0.
Proof. reflexivity. Qed.
Lemma dn_var_snd : forall x rho y, snd (dn_var x rho y) = if (y =? x)%Z then Q2Qc 1 else Q2Qc 0.
Proof. reflexivity. Qed.

Lemma mono_diff_absent : forall x m, ~ In x (mono_vars m) -> mono_diff x m = [].
Proof.
  induction m as [|[y e] m IH]; intros H; [reflexivity|].
  cbn [mono_diff]. simpl in H.
  destruct (y =? x)%Z eqn:E.
  - apply Z.eqb_eq in E. exfalso. apply H. left. exact E.
  - rewrite IH; [reflexivity|]. intro. apply H. right. assumption.
Qed.

Theorem poly_diff_absent : forall x p, ~ In x (poly_vars p) -> poly_diff x p = [].
Proof.
  induction p as [|[m c] p IH]; intros H; [reflexivity|].
  unfold poly_diff. cbn [fold_right fst snd]. fold (poly_diff x p).
  simpl in H. rewrite mono_diff_absent.
  - simpl. apply IH. intro. apply H. apply in_or_app. right. assumption.
  - intro. apply H. apply in_or_app. left. assumption.
Qed.

(* d/ds1 (3 s1^2 s2 + s1) = 6 s1 s2 + 1 *)
Example ex_poly_diff :
  poly_eqb
    (poly_diff 1%Z
       (poly_add (poly_scale_mono [] (Q2Qc 3) (poly_mul (poly_pow (poly_var 1%Z) 2) (poly_var 2%Z)))
                 (poly_var 1%Z)))
    (poly_add (poly_scale_mono [] (Q2Qc 6) (poly_mul (poly_var 1%Z) (poly_var 2%Z))) poly_one)
  = true.
Proof. vm_compute. reflexivity. Qed.

Example ex_poly_diff_literal :
  poly_diff 1%Z [([(1%Z, 1%nat)], Q2Qc 1); ([(1%Z, 2%nat); (2%Z, 1%nat)], Q2Qc 3)]
  = [([], Q2Qc 1); ([(1%Z, 1%nat); (2%Z, 1%nat)], Q2Qc 6)].
Proof. vm_compute. reflexivity. Qed.
End PolyDiff.

(* ================================================================== PART B *)
Lemma dgrad_go_constant : forall fx cls x bg bs offs,
  zmem x (gfree fx bs) = false -> dgrad_go fx cls x bg bs offs = Ok [].
Proof.
  intros fx cls x bg bs offs H. destruct bs as [|b bs]; [reflexivity|].
  cbn [dgrad_go]. rewrite H. reflexivity.
Qed.

Theorem grad_of_constant_is_empty : forall fx cls x mixed d,
  (cls = CTensor \/ cls = CCircuit \/ cls = CZX) ->
  zmem x (gfree fx (gboxes d)) = false ->
  dgrad fx cls x mixed d = Ok (GS (gdom d) (gcod d) []).
Proof.
  intros fx cls x mixed d Hc H. unfold dgrad.
  rewrite dgrad_go_constant by exact H.
  destruct Hc as [E|[E|E]]; subst; reflexivity.
Qed.

Definition head_box (cls : dclass) (x : var) (dim : ty) (n i : nat) : gbox :=
  match cls with CTensor => onehot_box x dim n i | _ => digit_box n i end.

Fixpoint jac_spec (cls : dclass) (n : nat) (dim : ty) (i : nat) (xs : list var) (gs : list gsum)
  : list frag :=
  match xs, gs with
  | x :: xs', g :: gs' =>
      stack (head_box cls x dim n i) (len dim) (gsterms g) ++ jac_spec cls n dim (S i) xs' gs'
  | _, _ => []
  end.

Lemma jac_go_spec : forall fx cls mixed d n dim xs i ts,
  jac_go fx cls mixed d n dim i xs = Ok ts <->
  exists gs, Forall2 (fun x g => dgrad fx cls x mixed d = Ok g) xs gs /\
             ts = jac_spec cls n dim i xs gs.
Proof.
  intros fx cls mixed d n dim xs. induction xs as [|x xs IH]; intros i ts.
  - simpl. split.
    + intros H. inversion H. exists []. split; [constructor | reflexivity].
    + intros [gs [H1 H2]]. inversion H1; subst. reflexivity.
  - cbn [jac_go]. split.
    + intros H. destruct (dgrad fx cls x mixed d) as [g|] eqn:Eg; [|discriminate].
      cbn [bind] in H. destruct (jac_go fx cls mixed d n dim (S i) xs) as [rest|] eqn:Er; [|discriminate].
      cbn [bind] in H. inversion H; subst. apply IH in Er. destruct Er as [gs [F E]].
      exists (g :: gs). split; [constructor; assumption|].
      cbn [jac_spec]. rewrite E. reflexivity.
    + intros [gs [F E]]. inversion F as [|x0 g xs0 gs' Hg F']; subst.
      rewrite Hg. cbn [bind].
      assert (Er : jac_go fx cls mixed d n dim (S i) xs = Ok (jac_spec cls n dim (S i) xs gs')).
      { apply IH. exists gs'. split; [assumption | reflexivity]. }
      rewrite Er. reflexivity.
Qed.

Definition jac_dim (cls : dclass) (n : nat) : ty :=
  match cls with
  | CTensor => if (n <=? 1)%nat then [] else [Z.of_nat n]
  | _ => [digit_wire n]
  end.

Theorem jacobian_stacks_in_order : forall fx cls mixed xs d s,
  (cls = CTensor \/ (cls = CCircuit /\ (2 <= length xs)%nat)) ->
  let dim := jac_dim cls (length xs) in
  jacobian fx cls mixed xs d = Ok s <->
  exists gs, Forall2 (fun x g => dgrad fx cls x mixed d = Ok g) xs gs /\
             s = GS (gdom d) (dim ++ gcod d) (jac_spec cls (length xs) dim 0 xs gs).
Proof.
  intros fx cls mixed xs d s Hc dim.
  assert (E : jacobian fx cls mixed xs d =
              do ts <- jac_go fx cls mixed d (length xs) dim 0 xs; Ok (GS (gdom d) (dim ++ gcod d) ts)).
  { destruct Hc as [E|[E Hl]]; subst cls; [reflexivity|].
    destruct xs as [|x [|y xs]]; simpl in Hl; try lia. reflexivity. }
  rewrite E. split.
  - intros H. destruct (jac_go fx cls mixed d (length xs) dim 0 xs) as [ts|] eqn:Ej; [|discriminate].
    cbn [bind] in H. inversion H; subst. apply jac_go_spec in Ej.
    destruct Ej as [gs [F Et]]. exists gs. split; [exact F|]. rewrite Et. reflexivity.
  - intros [gs [F Es]].
    assert (Ej : jac_go fx cls mixed d (length xs) dim 0 xs = Ok (jac_spec cls (length xs) dim 0 xs gs)).
    { apply jac_go_spec. exists gs. split; [exact F | reflexivity]. }
    rewrite Ej. cbn [bind]. rewrite Es. reflexivity.
Qed.

Lemma jacobian_circuit_one : forall fx mixed x d,
  jacobian fx CCircuit mixed [x] d = dgrad fx CCircuit x mixed d.
Proof. reflexivity. Qed.

Lemma jacobian_circuit_nil : forall fx mixed d,
  jacobian fx CCircuit mixed [] d = Ok (GS (gdom d) (gcod d) []).
Proof. reflexivity. Qed.

(* a variable the diagram does not depend on contributes no term to the stack *)
Lemma jac_spec_constant_block : forall fx cls n dim i x xs d gs,
  zmem x (gfree fx (gboxes d)) = false ->
  jac_spec cls n dim i (x :: xs) (GS (gdom d) (gcod d) [] :: gs) = jac_spec cls n dim (S i) xs gs.
Proof. reflexivity. Qed.


(* ================================================================== PART C *)
Lemma gscan_cons : forall t b bs o offs t',
  gscan t (b :: bs) (o :: offs) = Ok t' ->
  0 <= o /\ o <= len t - len (gbdom b) /\
  t = firstn (Z.to_nat o) t ++ gbdom b ++ skipn (Z.to_nat (o + len (gbdom b))) t /\
  gscan (firstn (Z.to_nat o) t ++ gbcod b ++ skipn (Z.to_nat (o + len (gbdom b))) t) bs offs = Ok t'.
Proof.
  intros t b bs o offs t' H. cbn [gscan] in H.
  destruct ((0 <=? o) && (o <=? len t - len (gbdom b))) eqn:R; [|discriminate].
  cbn [negb] in H. apply andb_true_iff in R. destruct R as [R1 R2].
  apply Z.leb_le in R1. apply Z.leb_le in R2.
  destruct (ty_eqb t _) eqn:E; [|discriminate]. apply ty_eqb_eq in E.
  repeat split; assumption.
Qed.

Lemma gscan_nil_l : forall t offs, gscan t [] offs = Ok t.
Proof. reflexivity. Qed.

Lemma len_app : forall {A} (a b : list A), len (a ++ b) = len a + len b.
Proof. intros. unfold len. rewrite app_length. lia. Qed.

Lemma len_nonneg : forall {A} (a : list A), 0 <= len a.
Proof. intros. unfold len. lia. Qed.

Lemma split_shift : forall (l u r : ty) o n,
  0 <= o -> 0 <= n -> o + n <= len u ->
  firstn (Z.to_nat (len l + o)) (l ++ u ++ r) = l ++ firstn (Z.to_nat o) u /\
  skipn (Z.to_nat (len l + o + n)) (l ++ u ++ r) = skipn (Z.to_nat (o + n)) u ++ r.
Proof.
  intros l u r o n Ho Hn Hle. unfold len in *.
  replace (Z.to_nat (Z.of_nat (length l) + o)) with (length l + Z.to_nat o)%nat by lia.
  replace (Z.to_nat (Z.of_nat (length l) + o + n)) with (length l + Z.to_nat (o + n))%nat by lia.
  split.
  - rewrite firstn_app_2. f_equal. rewrite firstn_app.
    replace (Z.to_nat o - length u)%nat with 0%nat by lia. simpl. apply app_nil_r.
  - rewrite skipn_app. rewrite skipn_all2 by lia.
    replace (length l + Z.to_nat (o + n) - length l)%nat with (Z.to_nat (o + n)) by lia.
    simpl. rewrite skipn_app.
    replace (Z.to_nat (o + n) - length u)%nat with 0%nat by lia. reflexivity.
Qed.

Lemma firstn_len : forall (t : ty) o, 0 <= o -> o <= len t -> len (firstn (Z.to_nat o) t) = o.
Proof. intros t o H1 H2. unfold len in *. rewrite firstn_length. lia. Qed.

Lemma gfree_cons : forall fx x b bs,
  zmem x (gfree fx (b :: bs)) = false -> ~ In x (gbfree fx b) /\ zmem x (gfree fx bs) = false.
Proof.
  intros fx x b bs H.
  assert (N : ~ In x (gbfree fx b ++ flat_map (gbfree fx) bs)).
  { intro I. apply (proj2 (In_zset_of x _)) in I. apply (proj2 (zmem_In _ _)) in I.
    unfold gfree in H. cbn [flat_map] in H. congruence. }
  split.
  - intro I. apply N. apply in_or_app. left. exact I.
  - destruct (zmem x (gfree fx bs)) eqn:E; [|reflexivity]. exfalso. apply N.
    apply (proj1 (zmem_In _ _)) in E. apply (proj1 (In_zset_of _ _)) in E. apply in_or_app. right. exact E.
Qed.

Section GradSem.
  Variables (M : Type) (mzero : M) (madd comp : M -> M -> M) (idm : ty -> M)
            (whisk : ty -> ty -> M -> M) (D : M -> M) (evb : gbox -> M)
            (fx : gfixes) (cls : dclass) (x : var) (bg : gbox -> res gout).
  Hypothesis madd_assoc : forall a b c, madd a (madd b c) = madd (madd a b) c.
  Hypothesis madd_comm : forall a b, madd a b = madd b a.
  Hypothesis madd_0_l : forall a, madd mzero a = a.
  Hypothesis comp_assoc : forall a b c, comp a (comp b c) = comp (comp a b) c.
  Hypothesis comp_id_l : forall t a, comp (idm t) a = a.
  Hypothesis comp_add_l : forall a b c, comp (madd a b) c = madd (comp a c) (comp b c).
  Hypothesis comp_add_r : forall a b c, comp a (madd b c) = madd (comp a b) (comp a c).
  Hypothesis comp_0_l : forall a, comp mzero a = mzero.
  Hypothesis comp_0_r : forall a, comp a mzero = mzero.
  Hypothesis whisk_add : forall l r a b, whisk l r (madd a b) = madd (whisk l r a) (whisk l r b).
  Hypothesis whisk_0 : forall l r, whisk l r mzero = mzero.
  Hypothesis whisk_comp : forall l r a b, whisk l r (comp a b) = comp (whisk l r a) (whisk l r b).
  Hypothesis whisk_whisk : forall l r l' r' a,
    whisk l r (whisk l' r' a) = whisk (l ++ l') (r' ++ r) a.
  Hypothesis whisk_id : forall l r t, whisk l r (idm t) = idm (l ++ t ++ r).
  Hypothesis D_add : forall a b, D (madd a b) = madd (D a) (D b).
  Hypothesis D_0 : D mzero = mzero.
  Hypothesis D_comp : forall a b, D (comp a b) = madd (comp (D a) b) (comp a (D b)).
  Hypothesis D_whisk : forall l r a, D (whisk l r a) = whisk l r (D a).
  Hypothesis D_id : forall t, D (idm t) = mzero.

  Definition msum (l : list M) : M := fold_right madd mzero l.
  Definition layer (t : ty) (o : Z) (b : gbox) : M :=
    whisk (firstn (Z.to_nat o) t) (skipn (Z.to_nat (o + len (gbdom b))) t) (evb b).
  Fixpoint ev (t : ty) (bs : list gbox) (offs : list Z) : M :=
    match bs, offs with
    | b :: bs', o :: offs' =>
        comp (layer t o b)
             (ev (firstn (Z.to_nat o) t ++ gbcod b ++ skipn (Z.to_nat (o + len (gbdom b))) t) bs' offs')
    | _, _ => idm t
    end.
  Definition evf (t : ty) (fr : frag) : M := ev t (fst fr) (snd fr).

  (* the two box-level premises, relative to a list of boxes *)
  Definition box_const_ok (b : gbox) : Prop := ~ In x (gbfree fx b) -> D (evb b) = mzero.
  Definition box_grad_ok (b : gbox) : Prop :=
    forall s frs, bg b = Ok (s, frs) ->
      Forall (fun fr => gscan (gbdom b) (fst fr) (snd fr) = Ok (gbcod b) /\
                        length (fst fr) = length (snd fr)) frs /\
      msum (map (fun fr => ev (gbdom b) (fst fr) (snd fr)) frs) = D (evb b).

  Lemma madd_0_r : forall a, madd a mzero = a.
  Proof. intros. rewrite madd_comm. apply madd_0_l. Qed.

  Lemma msum_app : forall l1 l2, msum (l1 ++ l2) = madd (msum l1) (msum l2).
  Proof.
    induction l1 as [|a l1 IH]; intros; simpl.
    - symmetry. apply madd_0_l.
    - rewrite IH. apply madd_assoc.
  Qed.

  Lemma msum_comp_l : forall {A} (f : A -> M) c l,
    msum (map (fun a => comp (f a) c) l) = comp (msum (map f l)) c.
  Proof.
    induction l as [|a l IH]; simpl.
    - symmetry. apply comp_0_l.
    - rewrite IH. symmetry. apply comp_add_l.
  Qed.

  Lemma msum_comp_r : forall {A} (f : A -> M) c l,
    msum (map (fun a => comp c (f a)) l) = comp c (msum (map f l)).
  Proof.
    induction l as [|a l IH]; simpl.
    - symmetry. apply comp_0_r.
    - rewrite IH. symmetry. apply comp_add_r.
  Qed.

  Lemma msum_whisk : forall {A} (f : A -> M) l0 r0 l,
    msum (map (fun a => whisk l0 r0 (f a)) l) = whisk l0 r0 (msum (map f l)).
  Proof.
    induction l as [|a l IH]; simpl.
    - symmetry. apply whisk_0.
    - rewrite IH. symmetry. apply whisk_add.
  Qed.

  Lemma ev_app : forall tb to t t' bs' offs',
    gscan t tb to = Ok t' -> length tb = length to ->
    ev t (tb ++ bs') (to ++ offs') = comp (ev t tb to) (ev t' bs' offs').
  Proof.
    induction tb as [|b tb IH]; intros to t t' bs' offs' S L.
    - destruct to; [|discriminate]. simpl in S. inversion S; subst.
      simpl. symmetry. apply comp_id_l.
    - destruct to as [|o to]; [discriminate|]. simpl in L. inversion L as [L'].
      apply gscan_cons in S. destruct S as (_ & _ & _ & S).
      cbn [app ev]. rewrite (IH to _ t' bs' offs' S L'). apply comp_assoc.
  Qed.

  Lemma ev_shift : forall l r tb to u u',
    gscan u tb to = Ok u' -> length tb = length to ->
    ev (l ++ u ++ r) tb (map (Z.add (len l)) to) = whisk l r (ev u tb to) /\
    gscan (l ++ u ++ r) tb (map (Z.add (len l)) to) = Ok (l ++ u' ++ r).
  Proof.
    intros l r. induction tb as [|b tb IH]; intros to u u' S L.
    - destruct to; [|discriminate]. simpl in S. inversion S; subst. simpl.
      split; [symmetry; apply whisk_id | reflexivity].
    - destruct to as [|o to]; [discriminate|]. simpl in L. inversion L as [L'].
      apply gscan_cons in S. destruct S as (Ho & Hle & Hu & S).
      destruct (IH to _ u' S L') as [IH1 IH2].
      assert (Hn := len_nonneg (gbdom b)).
      destruct (split_shift l u r o (len (gbdom b)) Ho Hn ltac:(lia)) as [F K].
      cbn [map ev gscan]. unfold layer. rewrite F, K.
      set (ul := firstn (Z.to_nat o) u) in *.
      set (ur := skipn (Z.to_nat (o + len (gbdom b))) u) in *.
      replace ((l ++ ul) ++ gbcod b ++ ur ++ r) with (l ++ (ul ++ gbcod b ++ ur) ++ r)
        by (rewrite <- !app_assoc; reflexivity).
      split.
      + rewrite IH1. rewrite <- whisk_whisk. symmetry. apply whisk_comp.
      + assert (R : (0 <=? len l + o) && (len l + o <=? len (l ++ u ++ r) - len (gbdom b)) = true).
        { apply andb_true_iff. assert (Hl := len_nonneg l). assert (Hr := len_nonneg r).
          split; apply Z.leb_le; [lia|]. rewrite !len_app. lia. }
        rewrite R. cbn [negb].
        assert (E : ty_eqb (l ++ u ++ r) ((l ++ ul) ++ gbdom b ++ ur ++ r) = true).
        { apply ty_eqb_eq. rewrite Hu at 1. fold ul ur. rewrite <- !app_assoc. reflexivity. }
        rewrite E. exact IH2.
  Qed.

  Lemma ev_constant : forall bs offs t,
    Forall box_const_ok bs -> zmem x (gfree fx bs) = false -> D (ev t bs offs) = mzero.
  Proof.
    induction bs as [|b bs IH]; intros offs t HC Z; [apply D_id|].
    destruct offs as [|o offs]; [apply D_id|].
    inversion HC as [|b0 bs0 Hb HC']; subst.
    apply gfree_cons in Z. destruct Z as [N Z'].
    cbn [ev]. rewrite D_comp. unfold layer at 1. rewrite D_whisk, (Hb N), whisk_0, comp_0_l.
    rewrite (IH offs _ HC' Z'), comp_0_r. apply madd_0_l.
  Qed.

  (* the product rule, premises relative to the boxes of the diagram *)
  Theorem grad_product_rule_on : forall bs offs t cod ts,
    Forall box_const_ok bs -> Forall box_grad_ok bs ->
    gscan t bs offs = Ok cod -> length bs = length offs ->
    dgrad_go fx cls x bg bs offs = Ok ts ->
    msum (map (fun fr => ev t (fst fr) (snd fr)) ts) = D (ev t bs offs).
  Proof.
    induction bs as [|b bs IH]; intros offs t cod ts HC HG S L G.
    - simpl in G. inversion G; subst. simpl. symmetry. apply D_id.
    - destruct offs as [|o offs]; [discriminate|]. simpl in L. inversion L as [L'].
      cbn [dgrad_go] in G.
      destruct (zmem x (gfree fx (b :: bs))) eqn:Z.
      2:{ cbn [negb] in G. inversion G; subst. symmetry.
          apply ev_constant; assumption. }
      cbn [negb] in G.
      inversion HC as [|b0 bs0 HCb HC']; subst. inversion HG as [|b0 bs0 HGb HG']; subst.
      destruct (bg b) as [[s frs]|] eqn:Eb; [|discriminate]. cbn [bind] in G.
      destruct (dgrad_go fx cls x bg bs offs) as [gt|] eqn:Et; [|discriminate]. cbn [bind fst snd] in G.
      apply gscan_cons in S. destruct S as (Ho & Hle & Ht & S).
      remember (firstn (Z.to_nat o) t) as ul eqn:Eul.
      remember (skipn (Z.to_nat (o + len (gbdom b))) t) as ur eqn:Eur.
      destruct (HGb s frs Eb) as [HF HS].
      assert (Hlen : len ul = o).
      { rewrite Eul. apply firstn_len; [exact Ho|]. assert (Hn := len_nonneg (gbdom b)). lia. }
      (* the tail part *)
      assert (T2 : msum (map (fun fr => ev t (fst fr) (snd fr))
                             (map (fun f : frag => (b :: fst f, o :: snd f)) gt))
                   = comp (layer t o b) (D (ev (ul ++ gbcod b ++ ur) bs offs))).
      { rewrite map_map. cbn [fst snd ev]. rewrite <- Eul, <- Eur.
        rewrite (msum_comp_r (fun f : frag => ev (ul ++ gbcod b ++ ur) (fst f) (snd f))).
        f_equal. exact (IH offs _ cod gt HC' HG' S L' Et). }
      (* the head part *)
      assert (T1 : msum (map (fun fr => ev t (fst fr) (snd fr))
                             (map (fun f : frag => (fst f ++ bs, map (Z.add o) (snd f) ++ offs)) frs))
                   = comp (D (layer t o b)) (ev (ul ++ gbcod b ++ ur) bs offs)).
      { rewrite map_map. cbn [fst snd].
        transitivity (msum (map (fun fr : frag =>
                        comp (whisk ul ur (ev (gbdom b) (fst fr) (snd fr)))
                             (ev (ul ++ gbcod b ++ ur) bs offs)) frs)).
        - f_equal. apply map_ext_in. intros fr Hin.
          rewrite Forall_forall in HF. destruct (HF fr Hin) as [Sf Lf].
          destruct (ev_shift ul ur (fst fr) (snd fr) _ _ Sf Lf) as [E1 E2].
          rewrite Hlen in E1, E2. rewrite <- Ht in E1, E2.
          rewrite (ev_app _ _ t (ul ++ gbcod b ++ ur) bs offs E2).
          + rewrite E1. reflexivity.
          + rewrite map_length. exact Lf.
        - rewrite (msum_comp_l (fun fr : frag => whisk ul ur (ev (gbdom b) (fst fr) (snd fr)))).
          rewrite (msum_whisk (fun fr : frag => ev (gbdom b) (fst fr) (snd fr))).
          unfold layer. rewrite D_whisk, <- Eul, <- Eur, <- HS. reflexivity. }
      assert (R : D (ev t (b :: bs) (o :: offs))
                  = madd (comp (D (layer t o b)) (ev (ul ++ gbcod b ++ ur) bs offs))
                         (comp (layer t o b) (D (ev (ul ++ gbcod b ++ ur) bs offs)))).
      { cbn [ev]. rewrite <- Eul, <- Eur. apply D_comp. }
      rewrite R, <- T1, <- T2.
      destruct (is_circuit cls && negb s); inversion G; subst; rewrite map_app, msum_app;
        [apply madd_comm | reflexivity].
  Qed.

  Section WithBoxHyps.
    Hypothesis H_const : forall b, ~ In x (gbfree fx b) -> D (evb b) = mzero.
    Hypothesis H_box : forall b s frs, bg b = Ok (s, frs) ->
      Forall (fun fr => gscan (gbdom b) (fst fr) (snd fr) = Ok (gbcod b) /\
                        length (fst fr) = length (snd fr)) frs /\
      msum (map (fun fr => ev (gbdom b) (fst fr) (snd fr)) frs) = D (evb b).

    Theorem grad_product_rule : forall bs offs t cod ts,
      gscan t bs offs = Ok cod -> length bs = length offs ->
      dgrad_go fx cls x bg bs offs = Ok ts ->
      msum (map (fun fr => ev t (fst fr) (snd fr)) ts) = D (ev t bs offs).
    Proof.
      intros bs offs t cod ts. apply grad_product_rule_on.
      - apply Forall_forall. intros b _. exact (H_const b).
      - apply Forall_forall. intros b _. exact (H_box b).
    Qed.
  End WithBoxHyps.
End GradSem.

(* ------------------------------------------------------------------ closed forms *)
Record grad_model := GM {
  gm_car : Type;
  gm_zero : gm_car;
  gm_add : gm_car -> gm_car -> gm_car;
  gm_comp : gm_car -> gm_car -> gm_car;
  gm_id : ty -> gm_car;
  gm_whisk : ty -> ty -> gm_car -> gm_car;
  gm_D : gm_car -> gm_car;
  gm_add_assoc : forall a b c, gm_add a (gm_add b c) = gm_add (gm_add a b) c;
  gm_add_comm : forall a b, gm_add a b = gm_add b a;
  gm_add_0_l : forall a, gm_add gm_zero a = a;
  gm_comp_assoc : forall a b c, gm_comp a (gm_comp b c) = gm_comp (gm_comp a b) c;
  gm_comp_id_l : forall t a, gm_comp (gm_id t) a = a;
  gm_comp_add_l : forall a b c, gm_comp (gm_add a b) c = gm_add (gm_comp a c) (gm_comp b c);
  gm_comp_add_r : forall a b c, gm_comp a (gm_add b c) = gm_add (gm_comp a b) (gm_comp a c);
  gm_comp_0_l : forall a, gm_comp gm_zero a = gm_zero;
  gm_comp_0_r : forall a, gm_comp a gm_zero = gm_zero;
  gm_whisk_add : forall l r a b, gm_whisk l r (gm_add a b) = gm_add (gm_whisk l r a) (gm_whisk l r b);
  gm_whisk_0 : forall l r, gm_whisk l r gm_zero = gm_zero;
  gm_whisk_comp : forall l r a b, gm_whisk l r (gm_comp a b) = gm_comp (gm_whisk l r a) (gm_whisk l r b);
  gm_whisk_whisk : forall l r l' r' a, gm_whisk l r (gm_whisk l' r' a) = gm_whisk (l ++ l') (r' ++ r) a;
  gm_whisk_id : forall l r t, gm_whisk l r (gm_id t) = gm_id (l ++ t ++ r);
  gm_D_add : forall a b, gm_D (gm_add a b) = gm_add (gm_D a) (gm_D b);
  gm_D_0 : gm_D gm_zero = gm_zero;
  gm_D_comp : forall a b, gm_D (gm_comp a b) = gm_add (gm_comp (gm_D a) b) (gm_comp a (gm_D b));
  gm_D_whisk : forall l r a, gm_D (gm_whisk l r a) = gm_whisk l r (gm_D a);
  gm_D_id : forall t, gm_D (gm_id t) = gm_zero }.

Definition gm_sum (G : grad_model) (l : list (gm_car G)) : gm_car G :=
  msum (gm_car G) (gm_zero G) (gm_add G) l.
Definition gm_ev (G : grad_model) (evb : gbox -> gm_car G) (t : ty) (bs : list gbox) (offs : list Z)
  : gm_car G := ev (gm_car G) (gm_comp G) (gm_id G) (gm_whisk G) evb t bs offs.
Definition gm_sum_ev (G : grad_model) (evb : gbox -> gm_car G) (t : ty) (ts : list frag) : gm_car G :=
  gm_sum G (map (fun fr => gm_ev G evb t (fst fr) (snd fr)) ts).
(* a box without the variable has derivative 0 *)
Definition gm_const_ok (G : grad_model) (evb : gbox -> gm_car G) (fx : gfixes) (x : var) (b : gbox) : Prop :=
  ~ In x (gbfree fx b) -> gm_D G (evb b) = gm_zero G.
(* the terms of box.grad are well-typed diagrams dom b -> cod b whose values add up to
   the derivative of the value of the box *)
Definition gm_grad_ok (G : grad_model) (evb : gbox -> gm_car G) (bg : gbox -> res gout) (b : gbox)
  : Prop :=
  forall s frs, bg b = Ok (s, frs) ->
    Forall (fun fr => gscan (gbdom b) (fst fr) (snd fr) = Ok (gbcod b) /\
                      length (fst fr) = length (snd fr)) frs /\
    gm_sum_ev G evb (gbdom b) frs = gm_D G (evb b).

Theorem grad_product_rule_on_closed : forall (G : grad_model) (evb : gbox -> gm_car G) fx cls x bg
    bs offs t cod ts,
  Forall (gm_const_ok G evb fx x) bs -> Forall (gm_grad_ok G evb bg) bs ->
  gscan t bs offs = Ok cod -> length bs = length offs ->
  dgrad_go fx cls x bg bs offs = Ok ts ->
  gm_sum_ev G evb t ts = gm_D G (gm_ev G evb t bs offs).
Proof.
  intros G evb fx cls x bg bs offs t cod ts HC HG S L Gr.
  unfold gm_sum_ev, gm_sum, gm_ev.
  destruct G; cbn in *.
  eapply grad_product_rule_on; eassumption.
Qed.

Theorem grad_product_rule_closed : forall (G : grad_model) (evb : gbox -> gm_car G) fx cls x bg,
  (forall b, gm_const_ok G evb fx x b) -> (forall b, gm_grad_ok G evb bg b) ->
  forall bs offs t cod ts,
  gscan t bs offs = Ok cod -> length bs = length offs ->
  dgrad_go fx cls x bg bs offs = Ok ts ->
  gm_sum_ev G evb t ts = gm_D G (gm_ev G evb t bs offs).
Proof.
  intros G evb fx cls x bg HC HG bs offs t cod ts. apply grad_product_rule_on_closed.
  - apply Forall_forall. intros b _. apply HC.
  - apply Forall_forall. intros b _. apply HG.
Qed.

Lemma gwf_inv : forall d, gwf d = true ->
  length (gboxes d) = length (goffs d) /\ gscan (gdom d) (gboxes d) (goffs d) = Ok (gcod d).
Proof.
  intros d H. unfold gwf in H. apply andb_true_iff in H. destruct H as [H1 H2].
  apply Z.eqb_eq in H1. unfold len in H1. split; [lia|].
  destruct (gscan (gdom d) (gboxes d) (goffs d)) as [t|]; [|discriminate].
  apply ty_eqb_eq in H2. subst. reflexivity.
Qed.

Theorem grad_eval_is_derivative : forall (G : grad_model) (evb : gbox -> gm_car G) fx cls x mixed d s,
  gwf d = true ->
  Forall (gm_const_ok G evb fx x) (gboxes d) ->
  Forall (gm_grad_ok G evb (bgrad fx cls x mixed)) (gboxes d) ->
  dgrad fx cls x mixed d = Ok s ->
  gsdom s = gdom d /\ gscod s = gcod d /\
  gm_sum_ev G evb (gdom d) (gsterms s) = gm_D G (gm_ev G evb (gdom d) (gboxes d) (goffs d)).
Proof.
  intros G evb fx cls x mixed d s W HC HG Gr.
  apply gwf_inv in W. destruct W as [L S].
  assert (E : exists ts, dgrad_go fx cls x (bgrad fx cls x mixed) (gboxes d) (goffs d) = Ok ts /\
                         s = GS (gdom d) (gcod d) ts).
  { unfold dgrad in Gr.
    destruct (dgrad_go fx cls x (bgrad fx cls x mixed) (gboxes d) (goffs d)) as [ts|] eqn:E;
      destruct cls; try discriminate; cbn [bind] in Gr; inversion Gr; eexists; split; reflexivity. }
  destruct E as [ts [E Es]]. subst s. cbn [gsdom gscod gsterms].
  split; [reflexivity|]. split; [reflexivity|].
  eapply grad_product_rule_on_closed; eassumption.
Qed.

Theorem ev_shift_closed : forall (G : grad_model) (evb : gbox -> gm_car G) l r tb to u u',
  gscan u tb to = Ok u' -> length tb = length to ->
  gm_ev G evb (l ++ u ++ r) tb (map (Z.add (len l)) to) = gm_whisk G l r (gm_ev G evb u tb to) /\
  gscan (l ++ u ++ r) tb (map (Z.add (len l)) to) = Ok (l ++ u' ++ r).
Proof.
  intros G evb l r tb to u u' S L. unfold gm_ev. destruct G; cbn in *.
  eapply ev_shift; eassumption.
Qed.

(* ------------------------------------------------------------------ the terms of a gradient
   are well-typed diagrams (no semantics involved) *)
Lemma gscan_shift : forall l r tb to u u',
  gscan u tb to = Ok u' -> length tb = length to ->
  gscan (l ++ u ++ r) tb (map (Z.add (len l)) to) = Ok (l ++ u' ++ r).
Proof.
  intros l r tb to u u' S L. eapply proj2.
  eapply (ev_shift unit (fun _ _ => tt) (fun _ => tt) (fun _ _ _ => tt) (fun _ => tt));
    try eassumption; intros; reflexivity.
Qed.

Lemma gscan_app : forall tb to t t' bs' offs',
  gscan t tb to = Ok t' -> length tb = length to ->
  gscan t (tb ++ bs') (to ++ offs') = gscan t' bs' offs'.
Proof.
  induction tb as [|b tb IH]; intros to t t' bs' offs' S L.
  - destruct to; [|discriminate]. simpl in S. inversion S; subst. reflexivity.
  - destruct to as [|o to]; [discriminate|]. simpl in L. inversion L as [L'].
    cbn [app gscan] in *.
    destruct (negb _); [discriminate|]. destruct (ty_eqb _ _); [|discriminate].
    apply IH; assumption.
Qed.

Lemma gscan_cons_intro : forall t b bs o offs,
  0 <= o -> o <= len t - len (gbdom b) ->
  t = firstn (Z.to_nat o) t ++ gbdom b ++ skipn (Z.to_nat (o + len (gbdom b))) t ->
  gscan t (b :: bs) (o :: offs)
  = gscan (firstn (Z.to_nat o) t ++ gbcod b ++ skipn (Z.to_nat (o + len (gbdom b))) t) bs offs.
Proof.
  intros t b bs o offs H1 H2 H3. cbn [gscan].
  replace ((0 <=? o) && (o <=? len t - len (gbdom b))) with true
    by (symmetry; apply andb_true_iff; split; apply Z.leb_le; assumption).
  cbn [negb].
  replace (ty_eqb t _) with true by (symmetry; apply ty_eqb_eq; exact H3).
  reflexivity.
Qed.

Definition frag_typed (t cod : ty) (fr : frag) : Prop :=
  gscan t (fst fr) (snd fr) = Ok cod /\ length (fst fr) = length (snd fr).
Definition box_grad_typed (bg : gbox -> res gout) (b : gbox) : Prop :=
  forall s frs, bg b = Ok (s, frs) -> Forall (frag_typed (gbdom b) (gbcod b)) frs.

Theorem dgrad_go_typed : forall fx cls x bg bs offs t cod ts,
  Forall (box_grad_typed bg) bs ->
  gscan t bs offs = Ok cod -> length bs = length offs ->
  dgrad_go fx cls x bg bs offs = Ok ts ->
  Forall (frag_typed t cod) ts.
Proof.
  intros fx cls x bg. induction bs as [|b bs IH]; intros offs t cod ts HG S L G.
  - simpl in G. inversion G. constructor.
  - destruct offs as [|o offs]; [discriminate|]. simpl in L. inversion L as [L'].
    cbn [dgrad_go] in G.
    destruct (negb (zmem x (gfree fx (b :: bs)))); [inversion G; constructor|].
    inversion HG as [|b0 bs0 HGb HG']; subst.
    destruct (bg b) as [[s frs]|] eqn:Eb; [|discriminate]. cbn [bind] in G.
    destruct (dgrad_go fx cls x bg bs offs) as [gt|] eqn:Et; [|discriminate]. cbn [bind fst snd] in G.
    assert (S0 := S).
    apply gscan_cons in S. destruct S as (Ho & Hle & Ht & S).
    remember (firstn (Z.to_nat o) t) as ul eqn:Eul.
    remember (skipn (Z.to_nat (o + len (gbdom b))) t) as ur eqn:Eur.
    assert (Hlen : len ul = o).
    { rewrite Eul. apply firstn_len; [exact Ho|]. assert (Hn := len_nonneg (gbdom b)). lia. }
    assert (T1 : Forall (frag_typed t cod)
                   (map (fun f : frag => (fst f ++ bs, map (Z.add o) (snd f) ++ offs)) frs)).
    { apply Forall_forall. intros fr' Hin. apply in_map_iff in Hin.
      destruct Hin as [fr [Efr Hin]]. subst fr'.
      assert (HF := HGb s frs Eb). rewrite Forall_forall in HF.
      destruct (HF fr Hin) as [Sf Lf].
      assert (E2 := gscan_shift ul ur _ _ _ _ Sf Lf).
      rewrite Hlen, <- Ht in E2.
      split; cbn [fst snd].
      - rewrite (gscan_app _ _ t (ul ++ gbcod b ++ ur) bs offs E2).
        + exact S.
        + rewrite map_length. exact Lf.
      - rewrite !app_length, map_length. congruence. }
    assert (T2 : Forall (frag_typed t cod) (map (fun f : frag => (b :: fst f, o :: snd f)) gt)).
    { apply Forall_forall. intros fr' Hin. apply in_map_iff in Hin.
      destruct Hin as [fr [Efr Hin]]. subst fr'.
      assert (HI := IH offs _ cod gt HG' S L' Et). rewrite Forall_forall in HI.
      destruct (HI fr Hin) as [Sf Lf]. split; cbn [fst snd].
      - rewrite gscan_cons_intro by (try assumption; rewrite <- Eul, <- Eur; exact Ht).
        rewrite <- Eul, <- Eur. exact Sf.
      - simpl. congruence. }
    destruct (is_circuit cls && negb s); inversion G; subst; apply Forall_app; split; assumption.
Qed.

Lemma gm_grad_ok_typed : forall (G : grad_model) (evb : gbox -> gm_car G) bg b,
  gm_grad_ok G evb bg b -> box_grad_typed bg b.
Proof. intros G evb bg b H s frs E. exact (proj1 (H s frs E)). Qed.

(* d.grad(x) on a well-typed diagram whose boxes have well-typed gradients is a
   formal sum of well-typed diagrams dom d -> cod d *)
Theorem grad_terms_well_typed : forall fx cls x mixed d s,
  gwf d = true ->
  Forall (box_grad_typed (bgrad fx cls x mixed)) (gboxes d) ->
  dgrad fx cls x mixed d = Ok s ->
  gsdom s = gdom d /\ gscod s = gcod d /\ Forall (frag_typed (gdom d) (gcod d)) (gsterms s).
Proof.
  intros fx cls x mixed d s W HG Gr.
  apply gwf_inv in W. destruct W as [L S].
  assert (E : exists ts, dgrad_go fx cls x (bgrad fx cls x mixed) (gboxes d) (goffs d) = Ok ts /\
                         s = GS (gdom d) (gcod d) ts).
  { unfold dgrad in Gr.
    destruct (dgrad_go fx cls x (bgrad fx cls x mixed) (gboxes d) (goffs d)) as [ts|] eqn:E;
      destruct cls; try discriminate; cbn [bind] in Gr; inversion Gr; eexists; split; reflexivity. }
  destruct E as [ts [E Es]]. subst s. cbn [gsdom gscod gsterms].
  split; [reflexivity|]. split; [reflexivity|].
  eapply dgrad_go_typed; eassumption.
Qed.

(* non-vacuity on the model of the code: Rz(s1) >> Rz(s1 * s2), pure mode *)
Definition ex_rz (p : poly) : gbox := GP (PB KRot 3 [2] [2] false false (DScalar (PE true p))).
Definition ex_rz_diag : gdiag :=
  GD [2] [2] [ex_rz (poly_var 1); ex_rz (poly_mul (poly_var 1) (poly_var 2))] [0; 0].

Example ex_rz_grad_typed : forall fx,
  gwf ex_rz_diag = true /\
  Forall (box_grad_typed (bgrad fx CCircuit 1 false)) (gboxes ex_rz_diag) /\
  exists s, dgrad fx CCircuit 1 false ex_rz_diag = Ok s /\ length (gsterms s) = 2%nat /\
            Forall (frag_typed [2] [2]) (gsterms s).
Proof.
  intros fx.
  assert (W : gwf ex_rz_diag = true) by (vm_compute; reflexivity).
  assert (T : Forall (box_grad_typed (bgrad fx CCircuit 1 false)) (gboxes ex_rz_diag)).
  { repeat constructor; intros s frs H; vm_compute in H; inversion H; subst;
      repeat constructor. }
  split; [exact W|]. split; [exact T|].
  destruct (dgrad fx CCircuit 1 false ex_rz_diag) as [s|] eqn:E; [|vm_compute in E; discriminate].
  exists s. split; [reflexivity|]. split.
  - vm_compute in E. inversion E. reflexivity.
  - exact (proj2 (proj2 (grad_terms_well_typed _ _ _ _ _ _ W T E))).
Qed.

(* ------------------------------------------------------------------ non-vacuity:
   the dual numbers Q[eps]/(eps^2) with the Euler derivation eps * d/d eps *)
Section DnInstance.
Local Open Scope Qc_scope.
Definition dn_D (u : dn) : dn := (Q2Qc 0, snd u).

Lemma dn_eq : forall (a b c d : Qc), a = c -> b = d -> (a, b) = (c, d).
Proof. intros; subst; reflexivity. Qed.

Ltac dn_solve :=
  intros; repeat match goal with u : dn |- _ => destruct u end;
  unfold dn_D, dn_mul, dn_add, dn_const; cbn [fst snd]; apply dn_eq; ring.

Definition dn_model : grad_model.
Proof.
  refine (GM dn (Q2Qc 0, Q2Qc 0) dn_add dn_mul (fun _ => (Q2Qc 1, Q2Qc 0)) (fun _ _ m => m) dn_D
             _ _ _ _ _ _ _ _ _ _ _ _ _ _ _ _ _ _ _); try reflexivity; dn_solve.
Defined.

(* boxes: GC false _ c depending on s1 is 1 + eps, GC true _ c depending on s1 is eps,
   everything else is 1;  bg sends GC zx m c (depending on s1) to GC true m c *)
Definition ex_evb (b : gbox) : dn :=
  match b with
  | GC zx _ _ => if zmem 1%Z (gbfree_leaf b) then (if zx then (Q2Qc 0, Q2Qc 1) else (Q2Qc 1, Q2Qc 1))
                 else (Q2Qc 1, Q2Qc 0)
  | _ => (Q2Qc 1, Q2Qc 0)
  end.
Definition ex_bg (b : gbox) : res gout :=
  match b with
  | GC zx m c => if zmem 1%Z (gbfree_leaf b) then Ok (false, [([GC true m c], [0%Z])]) else Ok (true, [])
  | _ => Ok (true, [])
  end.

Lemma ex_const_ok : forall fx b, gm_const_ok dn_model ex_evb fx 1%Z b.
Proof.
  intros fx b N.
  assert (Z : zmem 1%Z (gbfree fx b) = false).
  { destruct (zmem 1%Z (gbfree fx b)) eqn:E; [|reflexivity]. exfalso. apply N. apply zmem_In. exact E. }
  destruct b; cbn [ex_evb]; try reflexivity.
  change (gbfree fx (GC zx mixed c)) with (gbfree_leaf (GC zx mixed c)) in Z. rewrite Z. reflexivity.
Qed.

Lemma ex_grad_ok : forall b, gm_grad_ok dn_model ex_evb ex_bg b.
Proof.
  intros b s frs H.
  destruct b as [p|zx m c| |]; cbn [ex_bg] in H;
    try (inversion H; subst; split; [constructor | reflexivity]).
  destruct (zmem 1%Z (gbfree_leaf (GC zx m c))) eqn:Z.
  - inversion H; subst. split.
    + constructor; [|constructor]. split; reflexivity.
    + unfold gm_sum_ev, gm_sum, gm_ev. cbn [map fst snd msum fold_right ev].
      unfold layer. cbn [dn_model gm_car gm_zero gm_add gm_comp gm_id gm_whisk gm_D].
      cbn [ex_evb]. change (gbfree_leaf (GC true m c)) with (gbfree_leaf (GC zx m c)). rewrite Z.
      destruct zx; unfold dn_D, dn_mul, dn_add; cbn [fst snd]; apply dn_eq; ring.
  - inversion H; subst. split; [constructor|].
    unfold gm_sum_ev, gm_sum, gm_ev. cbn [map msum fold_right ex_evb]. rewrite Z. reflexivity.
Qed.

Definition ex_b : gbox := GC false false (CF false false false (poly_var 1%Z) None).

Example ex_product_rule : forall fx,
  exists ts, dgrad_go fx CCircuit 1%Z ex_bg [ex_b; ex_b] [0%Z; 0%Z] = Ok ts /\
             length ts = 2%nat /\
             gm_sum_ev dn_model ex_evb [] ts = gm_D dn_model (gm_ev dn_model ex_evb [] [ex_b; ex_b] [0%Z; 0%Z]) /\
             gm_D dn_model (gm_ev dn_model ex_evb [] [ex_b; ex_b] [0%Z; 0%Z]) = (Q2Qc 0, Q2Qc 2).
Proof.
  intros fx. eexists. split; [vm_compute; reflexivity|]. split; [reflexivity|]. split.
  - eapply (grad_product_rule_closed dn_model ex_evb fx CCircuit 1%Z ex_bg (ex_const_ok fx) ex_grad_ok
              [ex_b; ex_b] [0%Z; 0%Z] [] []); reflexivity.
  - unfold gm_ev. cbn [ev]. unfold layer.
    cbn [dn_model gm_car gm_zero gm_add gm_comp gm_id gm_whisk gm_D].
    change (ex_evb ex_b) with (Q2Qc 1, Q2Qc 1).
    unfold dn_D, dn_mul; cbn [fst snd]. apply dn_eq; [reflexivity|].
    apply Qc_is_canon. reflexivity.
Qed.
End DnInstance.

(* ================================================================== PART D *)
Section DiffRing.
  Variable SR : StarRing.
  Add Ring SRr_grad : (SR_ring SR).
  Local Open Scope sr_scope.
  Variable D : SR -> SR.
  Hypothesis D_add : forall a b : SR, D (a + b) = D a + D b.
  Hypothesis D_mul : forall a b : SR, D (a * b) = D a * b + a * D b.
  Hypothesis D_conj : forall a : SR, D (rconj a) = rconj (D a).
  Hypothesis D_i : D ri = 0.
  Hypothesis D_half : D rhalf = 0.

  Lemma D_0 : D 0 = 0.
  Proof.
    assert (H : D 0 + D 0 = D 0) by (rewrite <- D_add; f_equal; ring).
    transitivity (D 0 + D 0 - D 0); [ring | rewrite H; ring].
  Qed.
  Lemma D_1 : D 1 = 0.
  Proof.
    assert (H : D 1 + D 1 = D 1).
    { transitivity (D (1 * 1)); [rewrite D_mul; ring | f_equal; ring]. }
    transitivity (D 1 + D 1 - D 1); [ring | rewrite H; ring].
  Qed.
  Lemma D_opp : forall a, D (- a) = - D a.
  Proof.
    intro a. assert (H : D (- a) + D a = 0) by (rewrite <- D_add, <- D_0; f_equal; ring).
    transitivity (D (- a) + D a - D a); [ring | rewrite H; ring].
  Qed.
  Lemma D_sub : forall a b, D (a - b) = D a - D b.
  Proof.
    intros. replace (a - b) with (a + - b) by ring. rewrite D_add, D_opp. ring.
  Qed.

  Variables k e : SR.
  Hypothesis Hk : rconj k = k.
  Hypothesis He : is_phase e.
  Hypothesis HDe : D e = ri * k * e.

  Lemma D_conj_e : D (rconj e) = - (ri * k * rconj e).
  Proof.
    rewrite D_conj, HDe, !conj_mul, conj_i, Hk. ring.
  Qed.

  Ltac Dsimp :=
    repeat first [ rewrite D_add | rewrite D_mul | rewrite D_sub | rewrite D_opp
                 | rewrite D_conj_e | rewrite HDe | rewrite D_i | rewrite D_half
                 | rewrite D_0 | rewrite D_1 ].
  Ltac Csimp :=
    repeat first [ rewrite conj_add | rewrite conj_mul | rewrite (conj_sub SR) | rewrite (conj_opp SR)
                 | rewrite conj_invol | rewrite conj_i | rewrite conj_half
                 | rewrite (conj_0 SR) | rewrite (conj_1 SR) ].

  Lemma D_pcos : D (pcos e) = - (k * psin e).
  Proof. unfold pcos, psin. Dsimp. ring. Qed.

  Lemma D_psin : D (psin e) = k * pcos e.
  Proof.
    unfold pcos, psin. Dsimp.
    transitivity (- (ri * ri) * (k * (rhalf * (e + rconj e)))); [ring|].
    rewrite i_sq. ring.
  Qed.

  (* Rotation.grad, pure: scalar(pi p') @ R(p + 1/2) *)
  Theorem rotation_grad_pure : forall r : rot1,
    map D (rot1_flat r e) = map (rmul k) (rot1_flat r (e * ri)).
  Proof.
    assert (C : pcos (e * ri) = - psin e).
    { unfold pcos, psin. Csimp.
      transitivity (rhalf * ri * (e - rconj e)); ring. }
    assert (S : psin (e * ri) = pcos e).
    { unfold pcos, psin. Csimp.
      transitivity (- (ri * ri) * (rhalf * (e + rconj e))); [ring|]. rewrite i_sq. ring. }
    intros r. destruct r; cbn [rot1_flat map]; rewrite ?C, ?S;
      repeat (f_equal; try (Dsimp; rewrite ?D_pcos, ?D_psin; Csimp; ring)).
  Qed.

  (* the parameter-shift rule on entries that are linear in e and conj e *)
  Lemma cw8 : rconj (rw8 : SR) * rconj rw8 = - ri.
  Proof. rewrite <- conj_mul, (w8_sq SR), conj_i. reflexivity. Qed.

  Lemma shift_general : forall A B A2 B2 : SR,
    D A = 0 -> D B = 0 -> D A2 = 0 -> D B2 = 0 ->
    D ((A * e + B * rconj e) * (A2 * rconj e + B2 * e))
    = k * ((A * (e * rw8) + B * (rconj e * rconj rw8)) * (A2 * (rconj e * rconj rw8) + B2 * (e * rw8))
           - (A * (e * rconj rw8) + B * (rconj e * rw8)) * (A2 * (rconj e * rw8) + B2 * (e * rconj rw8))).
  Proof.
    intros A B A2 B2 HA HB HA2 HB2.
    transitivity (k * ((rw8 * rw8 - rconj rw8 * rconj rw8)
                       * (A * B2 * (e * e) - B * A2 * (rconj e * rconj e)))); [|ring].
    rewrite (w8_sq SR), cw8. Dsimp. rewrite HA, HB, HA2, HB2. ring.
  Qed.

  (* entry j of a one-qubit rotation as  A * f + B * conj f  with constant A, B *)
  Definition rot1_coef (r : rot1) (j : nat) : SR * SR :=
    match r, j with
    | RRx, 0%nat | RRx, 3%nat => (rhalf, rhalf)
    | RRx, 1%nat | RRx, 2%nat => (- ri * (- ri * rhalf), - ri * (ri * rhalf))
    | RRy, 0%nat | RRy, 3%nat => (rhalf, rhalf)
    | RRy, 1%nat => (- ri * rhalf, ri * rhalf)
    | RRy, 2%nat => (ri * rhalf, - ri * rhalf)
    | RRz, 0%nat => (0, 1)
    | RRz, 3%nat => (1, 0)
    | _, _ => (0, 0)
    end.

  Lemma rot1_coef_const : forall r j, D (fst (rot1_coef r j)) = 0 /\ D (snd (rot1_coef r j)) = 0.
  Proof.
    intros r j. destruct r; do 4 (try destruct j as [|j]); cbn [rot1_coef fst snd];
      split; Dsimp; ring.
  Qed.

  Lemma rot1_linear : forall r j (f : SR), (j < 4)%nat ->
    nth j (rot1_flat r f) 0 = fst (rot1_coef r j) * f + snd (rot1_coef r j) * rconj f.
  Proof.
    intros r j f Hj. destruct r; do 4 (try destruct j as [|j]); try lia;
      cbn [rot1_flat nth rot1_coef fst snd]; unfold pcos, psin; ring.
  Qed.

  (* Rotation.grad, mixed: the doubled map R (x) conj R has derivative
     pi p' * (R(p + 1/4) (x) conj - R(p - 1/4) (x) conj), entry by entry *)
  Theorem rotation_grad_shift : forall (r : rot1) j j', (j < 4)%nat -> (j' < 4)%nat ->
    let a := rot1_flat r e in
    let ap := rot1_flat r (e * rw8) in
    let am := rot1_flat r (e * rconj rw8) in
    D (nth j a 0 * rconj (nth j' a 0))
    = k * (nth j ap 0 * rconj (nth j' ap 0) - nth j am 0 * rconj (nth j' am 0)).
  Proof.
    intros r j j' Hj Hj' a ap am. subst a ap am.
    rewrite !rot1_linear by assumption.
    destruct (rot1_coef_const r j) as [HA HB]. destruct (rot1_coef_const r j') as [HA' HB'].
    set (A := fst (rot1_coef r j)) in *. set (B := snd (rot1_coef r j)) in *.
    set (A' := fst (rot1_coef r j')) in *. set (B' := snd (rot1_coef r j')) in *.
    assert (HcA : D (rconj A') = 0) by (rewrite D_conj, HA'; apply (conj_0 SR)).
    assert (HcB : D (rconj B') = 0) by (rewrite D_conj, HB'; apply (conj_0 SR)).
    rewrite !conj_add, !conj_mul, !conj_invol.
    rewrite (shift_general A B (rconj A') (rconj B') HA HB HcA HcB). reflexivity.
  Qed.

  (* CU1.grad / CRz.grad / CRx.grad: the parametrised entries *)
  Theorem controlled_grads :
    D (e * e) = ((1 + 1) * ri * k) * (e * e) /\
    D (rconj e) = rconj e * (ri * rhalf * k * (ropp 1 - 1)) /\
    D e = e * (ri * rhalf * k * (1 - ropp 1)) /\
    D (pcos e) = - (k * psin e) /\
    D (- ri * psin e) = - ri * k * pcos e.
  Proof.
    split; [Dsimp; ring|]. split.
    { rewrite D_conj_e.
      transitivity (((1 + 1) * rhalf) * (- (ri * k * rconj e))); [rewrite half_2; ring | ring]. }
    split.
    { rewrite HDe.
      transitivity (((1 + 1) * rhalf) * (ri * k * e)); [rewrite half_2; ring | ring]. }
    split; [apply D_pcos|].
    rewrite D_mul, D_opp, D_i, D_psin. ring.
  Qed.
End DiffRing.

(* Non-vacuity of the hypotheses of DiffRing.  The instance below is degenerate
   (the zero derivation, k = 0, e = 1): it shows that the hypotheses are
   consistent, nothing more.  An exponential-like element with a non-zero
   derivative does not exist in the executable instances: Cyc32 is a number
   field, every derivation of it vanishes.  The intended model is the ring of
   smooth complex-valued functions of the symbols with D = d/dx, k = pi * p',
   e = exp(i pi p); is_phase e is part of diff_hyps for that reading, none of
   the three theorems needs it. *)
(* the hypotheses of DiffRing, bundled *)
Definition diff_hyps (SR : StarRing) (D : SR -> SR) (k e : SR) : Prop :=
  (forall a b : SR, D (radd a b) = radd (D a) (D b)) /\
  (forall a b : SR, D (rmul a b) = radd (rmul (D a) b) (rmul a (D b))) /\
  (forall a : SR, D (rconj a) = rconj (D a)) /\
  D ri = r0 /\ D rhalf = r0 /\
  rconj k = k /\ is_phase e /\ D e = rmul (rmul ri k) e.

Section ZeroDerivation.
  Variable SR : StarRing.
  Add Ring SRr_grad0 : (SR_ring SR).
  Lemma zero_derivation_hyps : diff_hyps SR (fun _ => r0) r0 r1.
  Proof.
    unfold diff_hyps. repeat split; intros; try ring.
    - symmetry. apply (conj_0 SR).
    - apply (conj_0 SR).
    - apply (one_phase SR).
  Qed.
End ZeroDerivation.

Example diffring_nonvacuous : diff_hyps Cyc32 (fun _ => r0) r0 r1.
Proof. exact (zero_derivation_hyps Cyc32). Qed.

Theorem rotation_grad_pure_closed : forall (SR : StarRing) (D : SR -> SR) (k e : SR),
  diff_hyps SR D k e ->
  forall r : rot1, map D (rot1_flat r e) = map (rmul k) (rot1_flat r (rmul e ri)).
Proof.
  intros SR D k e (H1 & H2 & H3 & H4 & H5 & H6 & H7 & H8).
  apply (rotation_grad_pure SR D); assumption.
Qed.

Theorem rotation_grad_shift_closed : forall (SR : StarRing) (D : SR -> SR) (k e : SR),
  diff_hyps SR D k e ->
  forall (r : rot1) j j', (j < 4)%nat -> (j' < 4)%nat ->
    let a := rot1_flat r e in
    let ap := rot1_flat r (rmul e rw8) in
    let am := rot1_flat r (rmul e (rconj rw8)) in
    D (rmul (nth j a r0) (rconj (nth j' a r0)))
    = rmul k (rsub (rmul (nth j ap r0) (rconj (nth j' ap r0)))
                   (rmul (nth j am r0) (rconj (nth j' am r0)))).
Proof.
  intros SR D k e (H1 & H2 & H3 & H4 & H5 & H6 & H7 & H8).
  apply (rotation_grad_shift SR D); assumption.
Qed.

Theorem controlled_grads_closed : forall (SR : StarRing) (D : SR -> SR) (k e : SR),
  diff_hyps SR D k e ->
  D (rmul e e) = rmul (rmul (rmul (radd r1 r1) ri) k) (rmul e e) /\
  D (rconj e) = rmul (rconj e) (rmul (rmul (rmul ri rhalf) k) (rsub (ropp r1) r1)) /\
  D e = rmul e (rmul (rmul (rmul ri rhalf) k) (rsub r1 (ropp r1))) /\
  D (pcos e) = ropp (rmul k (psin e)) /\
  D (rmul (ropp ri) (psin e)) = rmul (rmul (ropp ri) k) (pcos e).
Proof.
  intros SR D k e (H1 & H2 & H3 & H4 & H5 & H6 & H7 & H8).
  apply (controlled_grads SR D); assumption.
Qed.

(* ================================================================== PART E *)
Definition e1_box : gbox := GP (PB KQScalar 0 [] [] false false (DScalar (PE true (poly_var 1)))).
Definition e1_box2 : gbox :=
  GP (PB KQScalar 0 [] [] false false
        (DScalar (PE true (poly_add (poly_mul (poly_var 1) (poly_var 2)) (poly_const (Q2Qc 2)))))).

(* F12 is not repaired by the two switches: it holds for every setting *)
Theorem scalar_grad_mixed_refuted : forall fx,
  exists x bs, existsb (f12_box x) bs = true /\ scalar_grad_ok fx true x bs = Some false.
Proof. intros [[|] [|]]; exists 1, [e1_box]; split; vm_compute; reflexivity. Qed.

Example scalar_grad_pure_example : forall fx,
  scalar_grad_ok fx false 1 [e1_box; e1_box2] = Some true.
Proof. intros [[|] [|]]; vm_compute; reflexivity. Qed.

Definition e2_box : gbox :=
  GP (PB KMixedScalar 0 [] [] false true (DScalar (PE true (poly_pow (poly_var 1) 2)))).

Definition e2_bs : list gbox := [e2_box].

Theorem mixed_scalar_grad_refuted :
  exists x bs, existsb (f12c_box x) bs = true /\ scalar_grad_ok gpinned true x bs = Some false.
Proof. exists 1, e2_bs. split; vm_compute; reflexivity. Qed.

(* with notes/patches/F12c.diff the same witness passes *)
Example mixed_scalar_grad_repaired : scalar_grad_ok grepaired true 1 e2_bs = Some true.
Proof. vm_compute. reflexivity. Qed.

Definition e3_state : gbox :=
  GP (PB KGen 100 [] [2] false false (DList [py_const (Q2Qc 1); py_const (Q2Qc 2)])).
Definition e3_inner : gbox :=
  GP (PB KGen 101 [2] [2] false false
        (DList [PE true (poly_var 1); py_const (Q2Qc 0); py_const (Q2Qc 0); py_const (Q2Qc 1)])).
Definition e3_diag : gdiag :=
  GD [] [2] [e3_state; GBub (FPoly (poly_var tmp_sym)) [2] [2] [e3_inner] [0]] [0; 0].

Theorem bubble_grad_refuted :
  exists x d, gwf d = true /\ existsb (f12b_box x) (gboxes d) = true /\
              dgrad gpinned CTensor x true d = Ok (GS [] [2] []).
Proof. exists 1, e3_diag. repeat split; vm_compute; reflexivity. Qed.

(* with notes/patches/F12b.diff the same diagram has a non-empty gradient *)
Example bubble_grad_repaired :
  exists s, dgrad grepaired CTensor 1 true e3_diag = Ok s /\ gsterms s <> [].
Proof. eexists. split; [vm_compute; reflexivity | discriminate]. Qed.

(* the same diagram without the bubble has a non-empty gradient *)
Example bubble_grad_contrast :
  exists ts, dgrad gpinned CTensor 1 true (GD [] [2] [e3_state; e3_inner] [0; 0]) = Ok (GS [] [2] ts)
             /\ ts <> [].
Proof. eexists. split; [vm_compute; reflexivity | discriminate]. Qed.
