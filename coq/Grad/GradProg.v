(* Program DSL of the C15 correspondence check, its interpreter over the model
   and the wire codec (nested integer lists; reuses Param's codecs).  Definitions only.

   request ::= (switches program)
   switches ::= (b c)     0/1 each: the repair switches gx_b, gx_c of Grad.gfixes
                          (notes/patches/F12b.diff, F12c.diff applied to /repo or not)
   program ::= (0 cls dom cod boxes offs var mixed)        cls-constructor(dom, cod, boxes, offs).grad(var [, mixed=False])
             | (1 cls dom cod boxes offs (var ...) mixed)  ....jacobian([var ...] [, mixed=False])
             | (2 expr var)                                sympy: expr.diff(var)
   box     ::= (0 pbox)                      a box of Param (coq/Param/ParamProg.v dec_box)
             | (1 zx mixed coef)             a scalar holding a coefficient (only in answers)
             | (2 nin nout dim)              tensor.Spider(nin, nout, Dim( *dim ))
             | (3 fun dom cod boxes offs)    tensor.Bubble(Diagram(dom, cod, boxes, offs), func=fun)
   fun     ::= (0 poly)  polynomial in the symbol 90 applied entrywise  |  (1 var)  x -> x.diff(var)
   coef    ::= (py i pi poly exp)   i^i * pi^pi * poly * exp(2 i pi q),  exp ::= () | (q)
   answer  ::= (0 (0 dom cod ((boxes offs) ...)))  a formal sum  |  (0 (1 expr))  |  (1 error-code)
   mixed   ::= 1 (default parameter-shift gradient) | 0 (mixed=False) *)
From Coq Require Import List ZArith Bool Lia QArith Qcanon.
Import ListNotations.
Require Import DV.Common.Base DV.Param.Expr DV.Param.Param DV.Param.ParamProg DV.Grad.Grad.
Open Scope Z_scope.

Inductive gprog :=
| PGrad (cls : dclass) (dom cod : ty) (bs : list gbox) (offs : list Z) (x : var) (mixed : bool)
| PJac (cls : dclass) (dom cod : ty) (bs : list gbox) (offs : list Z) (xs : list var) (mixed : bool)
| PDiff (e : pexpr) (x : var).

Inductive gvalue := VSum (s : gsum) | VExpr (e : pexpr).

Definition grun (fx : gfixes) (p : gprog) : res gvalue :=
  match p with
  | PGrad cls dom cod bs offs x mixed =>
      do d <- gmk dom cod bs offs; do s <- dgrad fx cls x mixed d; Ok (VSum s)
  | PJac cls dom cod bs offs xs mixed =>
      do d <- gmk dom cod bs offs; do s <- jacobian fx cls mixed xs d; Ok (VSum s)
  | PDiff e x =>
      (* a Python number has no .diff in the fragment: only sympy objects are differentiated *)
      if esym e then Ok (VExpr (PE true (poly_diff x (epoly e)))) else Err BadProgram
  end.

(* ------------------------------------------------------------------ decoding *)
Definition dec_gfixes (s : sexp) : res gfixes :=
  match s with
  | L [b; c] => do b' <- sx_bool b; do c' <- sx_bool c; Ok (GFX b' c')
  | _ => Err BadProgram
  end.
Definition dec_fun (s : sexp) : res bfun :=
  match s with
  | L [I 0; p] => do p' <- dec_poly p; Ok (FPoly p')
  | L [I 1; I x] => Ok (FDiff x)
  | _ => Err BadProgram
  end.
Definition to_nat_nonneg (z : Z) : res nat := if z <? 0 then Err BadProgram else Ok (Z.to_nat z).

Fixpoint dec_gbox (fuel : nat) (s : sexp) : res gbox :=
  match fuel with
  | O => Err BadProgram
  | S k =>
    match s with
    | L [I 0; b] => do b' <- dec_box b; Ok (GP b')
    | L [I 2; I nin; I nout; dim] =>
        do a <- to_nat_nonneg nin; do c <- to_nat_nonneg nout; do dm <- sx_ints dim;
        if 1 <? len dm then Err BadProgram else Ok (GSp a c dm)
    | L [I 3; f; dom; cod; L bs; offs] =>
        do f' <- dec_fun f; do d <- sx_ints dom; do c <- sx_ints cod;
        do bs' <- mapM (dec_gbox k) bs; do o <- sx_ints offs;
        (* the inside must be a well-typed diagram dom -> cod *)
        match gmk d c bs' o with
        | Ok _ => Ok (GBub f' d c bs' o)
        | Err _ => Err BadProgram
        end
    | _ => Err BadProgram
    end
  end.
Definition dec_gboxes (s : sexp) : res (list gbox) := do l <- sx_list s; mapM (dec_gbox 20) l.

Definition dec_gprog (s : sexp) : res gprog :=
  match s with
  | L [I 0; I c; d; cd; bs; offs; I x; mx] =>
      do c' <- dec_cls c; do d' <- sx_ints d; do cd' <- sx_ints cd;
      do bs' <- dec_gboxes bs; do o <- sx_ints offs; do m <- sx_bool mx;
      Ok (PGrad c' d' cd' bs' o x m)
  | L [I 1; I c; d; cd; bs; offs; xs; mx] =>
      do c' <- dec_cls c; do d' <- sx_ints d; do cd' <- sx_ints cd;
      do bs' <- dec_gboxes bs; do o <- sx_ints offs; do xs' <- sx_ints xs; do m <- sx_bool mx;
      Ok (PJac c' d' cd' bs' o xs' m)
  | L [I 2; e; I x] => do e' <- dec_expr e; Ok (PDiff e' x)
  | _ => Err BadProgram
  end.

(* ------------------------------------------------------------------ encoding *)
Definition enc_fun (f : bfun) : sexp :=
  match f with FPoly p => L [I 0; enc_poly p] | FDiff x => L [I 1; I x] end.
Definition enc_coef (c : coef) : sexp :=
  L [of_bool (cf_py c); of_bool (cf_i c); of_bool (cf_pi c); enc_poly (cf_poly c);
     match cf_exp c with None => L [] | Some q => L [enc_poly q] end].
Fixpoint enc_gbox (b : gbox) : sexp :=
  match b with
  | GP p => L [I 0; enc_box p]
  | GC zx mixed c => L [I 1; of_bool zx; of_bool mixed; enc_coef c]
  | GSp a c dim => L [I 2; I (Z.of_nat a); I (Z.of_nat c); of_ints dim]
  | GBub f d c bs offs => L [I 3; enc_fun f; of_ints d; of_ints c; L (map enc_gbox bs); of_ints offs]
  end.
Definition enc_frag (f : frag) : sexp := L [L (map enc_gbox (fst f)); of_ints (snd f)].
Definition enc_gvalue (v : gvalue) : sexp :=
  match v with
  | VSum s => L [I 0; of_ints (gsdom s); of_ints (gscod s); L (map enc_frag (gsterms s))]
  | VExpr e => L [I 1; enc_expr e]
  end.
Definition enc_goutcome (r : res gvalue) : sexp :=
  match r with
  | Ok v => L [I 0; enc_gvalue v]
  | Err e => L [I 1; I (err_code e)]
  end.

Definition run_sexp (s : sexp) : sexp :=
  match s with
  | L [sw; p] =>
      match dec_gfixes sw, dec_gprog p with
      | Ok fx, Ok p' => enc_goutcome (grun fx p')
      | _, _ => L [I 1; I 8]
      end
  | _ => L [I 1; I 8]
  end.
