(* C19 -- model of /repo/discopy/cartesian.py: diagrams of Python functions on
   tuples, evaluated through PythonFunctor exactly as the code does it.
   Definitions only (proofs are in CartesianLemmas.v).

   Values on wires are atoms (Z).  What a Python function hands back is a
   [pyval]: either a bare atom or a tuple of atoms (the "1-tuple convention":
   cartesian.tuplify / untuplify convert between the two).  Tuple-valued wire
   contents are outside the model (DESIGN.md, C19, gap). *)
From Coq Require Import List ZArith Bool Lia.
Import ListNotations.
Require Import DV.Common.Base.
Open Scope Z_scope.

(* ------------------------------------------------------------------ values *)
Inductive pyval := Atom (z : Z) | Tup (l : list Z).

(* cartesian.tuplify: stuff if isinstance(stuff, tuple) else (stuff, ) *)
Definition tuplify (v : pyval) : list Z :=
  match v with Atom z => [z] | Tup l => l end.

(* cartesian.untuplify( *stuff): stuff[0] if len(stuff) == 1 else stuff *)
Definition untuplify (l : list Z) : pyval :=
  match l with [x] => Atom x | _ => Tup l end.

(* ------------------------------------------------------------------ Function *)
(* cartesian.Function(dom, cod, function): a Python callable with declared arities *)
Record fn := Fn { fdom : nat; fcod : nat; fapp : list Z -> res pyval }.

(* Function.__call__( *values): TypeError unless len(values) == len(self.dom) *)
Definition fcall (f : fn) (vals : list Z) : res pyval :=
  if Nat.eqb (length vals) (fdom f) then fapp f vals else Err TypeError.

(* Function.id(dom) = Function(dom, dom, untuplify) *)
Definition fid (n : nat) : fn := Fn n n (fun vals => Ok (untuplify vals)).

(* Function.then(other): AxiomError unless len(self.cod) == len(other.dom);
   lambda *vals: other( *tuplify(self( *vals))) *)
Definition fthen (f g : fn) : res fn :=
  if Nat.eqb (fcod f) (fdom g)
  then Ok (Fn (fdom f) (fcod g)
              (fun vals => do r <- fcall f vals; fcall g (tuplify r)))
  else Err AxiomError.

(* Function.tensor(other): product( *vals) =
     vals0 = tuplify(self( *vals[:len(self.dom)]))
     vals1 = tuplify(other( *vals[len(self.dom):]))
     untuplify( *(vals0 + vals1))
   (len(self.dom) >= 0, so the Python slices are firstn / skipn) *)
Definition ftensor (f g : fn) : fn :=
  Fn (fdom f + fdom g) (fcod f + fcod g)
     (fun vals =>
        do r0 <- fcall f (firstn (fdom f) vals);
        do r1 <- fcall g (skipn (fdom f) vals);
        Ok (untuplify (tuplify r0 ++ tuplify r1))).

(* ------------------------------------------------------------------ boxes *)
(* cartesian.Box(name, dom, cod, function): [bfun = None] is a box built without
   a function (its .function raises AttributeError) *)
Record box := Box { bid : Z; bdom : nat; bcod : nat;
                    bfun : option (list Z -> res pyval) }.

(* helpers: Python lambdas with a fixed number of parameters raise TypeError
   when called with another number of arguments *)
Definition f0 (v : pyval) (a : list Z) : res pyval :=
  match a with [] => Ok v | _ => Err TypeError end.
Definition f1 (g : Z -> pyval) (a : list Z) : res pyval :=
  match a with [x] => Ok (g x) | _ => Err TypeError end.
Definition f2 (g : Z -> Z -> pyval) (a : list Z) : res pyval :=
  match a with [x; y] => Ok (g x y) | _ => Err TypeError end.
Definition f3 (g : Z -> Z -> Z -> pyval) (a : list Z) : res pyval :=
  match a with [x; y; z] => Ok (g x y z) | _ => Err TypeError end.

(* cartesian.COPY / SWAP / DISCARD / ADD (module constants) *)
Definition COPYb := Box 0 1 2 (Some (fun a => Ok (Tup (a ++ a)))).   (* lambda *x: x + x *)
Definition SWAPb := Box 1 2 2 (Some (f2 (fun x y => Tup [y; x]))).  (* lambda x, y: (y, x) *)
Definition DISCARDb := Box 2 1 0 (Some (fun _ => Ok (Tup []))).      (* lambda *x: () *)
Definition ADDb := Box 3 2 1 (Some (f2 (fun x y => Atom (x + y)))).  (* lambda x, y: x + y *)

(* The fixed library of boxes, defined identically in harness/cart_impl.py.
   Index in the list = identifier on the wire. *)
Definition lib_table : list box := [
  COPYb; SWAPb; DISCARDb; ADDb;
  Box 4 2 1 (Some (f2 (fun x y => Atom (x * y))));              (* mul *)
  Box 5 1 1 (Some (f1 (fun x => Atom (- x))));                  (* neg *)
  Box 6 0 1 (Some (f0 (Atom 7)));                               (* lambda: 7 *)
  Box 7 0 1 (Some (f0 (Tup [-3])));                             (* lambda: (-3,) *)
  Box 8 0 0 (Some (f0 (Tup [])));                               (* lambda: () *)
  Box 9 1 3 (Some (f1 (fun x => Tup [x; x; x])));               (* dup3 *)
  Box 10 3 1 (Some (f3 (fun x y z => Atom y)));                 (* proj *)
  Box 11 2 0 (Some (f2 (fun x y => Tup [])));                   (* sink2 *)
  Box 12 2 2 (Some (f2 (fun x y => Tup [x + y; x - y])));       (* addsub *)
  Box 13 3 3 (Some (f3 (fun x y z => Tup [y; z; x])));          (* rot3 *)
  Box 14 3 1 (Some (f3 (fun x y z => Atom (x + y + z))));       (* sum3 *)
  Box 15 0 2 (Some (f0 (Tup [1; 2])));                          (* lambda: (1, 2) *)
  Box 16 1 1 (Some (f1 (fun x => Tup [x + 1])));                (* lambda x: (x + 1,) *)
  Box 17 3 2 (Some (f3 (fun x y z => Tup [x * y + z; x])));     (* mac *)
  Box 18 0 3 (Some (f0 (Tup [4; 5; 6])));                       (* lambda: (4, 5, 6) *)
  Box 19 3 0 (Some (f3 (fun x y z => Tup [])));                 (* sink3 *)
  (* partial: raises ValueError on negative input *)
  Box 20 1 1 (Some (fun a => match a with
                             | [x] => if x <? 0 then Err ValueError else Ok (Atom x)
                             | _ => Err TypeError end));
  (* dishonest boxes (malformed stream): declared arities differ from the function *)
  Box 21 1 2 (Some (f1 (fun x => Atom x)));                     (* says 2 outputs, gives 1 *)
  Box 22 2 1 (Some (f2 (fun x y => Tup [x; y])));               (* says 1 output, gives 2 *)
  Box 23 3 1 (Some (f2 (fun x y => Atom (x + y))));             (* says 3 inputs, takes 2 *)
  Box 24 1 1 None;                                              (* no function *)
  Box 25 1 1 (Some (f1 (fun x => Tup [])))                      (* says 1 output, gives 0 *)
].

Definition lib_box (id : Z) : option box :=
  if id <? 0 then None else nth_error lib_table (Z.to_nat id).

(* ------------------------------------------------------------------ diagrams *)
(* cartesian.Diagram(dom, cod, boxes, offsets) over PRO: dom, cod are widths *)
Record diagram := D { ddom : nat; dcod : nat; dboxes : list box; doffs : list Z }.

Definition dlayers (d : diagram) : list (box * Z) := combine (dboxes d) (doffs d).

(* monoidal.Diagram.__init__ scan: 0 <= off <= len(scan) - len(box.dom) else
   AxiomError; the new scan is scan[:off] @ box.cod @ scan[off + len(box.dom):] *)
Fixpoint scan_layers (w : nat) (ls : list (box * Z)) : option nat :=
  match ls with
  | [] => Some w
  | (b, off) :: rest =>
      if (0 <=? off) && (off + Z.of_nat (bdom b) <=? Z.of_nat w)
      then scan_layers (w - bdom b + bcod b) rest
      else None
  end.

(* cartesian.Diagram.__init__ -> monoidal.Diagram.__init__ (layers=None):
   ValueError when len(boxes) != len(offsets); AxiomError when an offset is out
   of range or the final scan is not cod *)
Definition mk (dom cod : nat) (bs : list box) (offs : list Z) : res diagram :=
  if negb (Nat.eqb (length bs) (length offs)) then Err ValueError
  else match scan_layers dom (combine bs offs) with
       | Some c => if Nat.eqb c cod then Ok (D dom cod bs offs) else Err AxiomError
       | None => Err AxiomError
       end.

(* well-typedness, as established by the constructor *)
Definition wf_diagram (d : diagram) : bool :=
  Nat.eqb (length (dboxes d)) (length (doffs d)) &&
  match scan_layers (ddom d) (dlayers d) with
  | Some c => Nat.eqb c (dcod d)
  | None => false
  end.

(* Id(dom) *)
Definition did (n : nat) : diagram := D n n [] [].
(* a Box seen as a diagram: Diagram.__init__(self, dom, cod, [self], [0]) *)
Definition dbox (b : box) : diagram := D (bdom b) (bcod b) [b] [0].

(* monoidal.Diagram.then: AxiomError (cat.Arrow.then on layers) unless cod == dom *)
Definition dthen (a b : diagram) : res diagram :=
  if Nat.eqb (dcod a) (ddom b)
  then Ok (D (ddom a) (dcod b) (dboxes a ++ dboxes b) (doffs a ++ doffs b))
  else Err AxiomError.

(* monoidal.Diagram.tensor: offsets + [n + len(self.cod) for n in other.offsets] *)
Definition dtensor (a b : diagram) : diagram :=
  D (ddom a + ddom b) (dcod a + dcod b) (dboxes a ++ dboxes b)
    (doffs a ++ map (fun n => n + Z.of_nat (dcod a)) (doffs b)).

(* Id(0).tensor( *others) = ((Id(0) @ o1) @ o2) @ ... *)
Definition tensor_all (l : list diagram) : diagram := fold_left dtensor l (did 0).

(* cartesian.Swap(left, right):
     boxes = [SWAP for i in range(left) for j in range(right)]
     offsets = [left + i - 1 - j for j in range(left) for i in range(right)] *)
Definition swap_offsets (l r : nat) : list Z :=
  flat_map (fun j => map (fun i => Z.of_nat l + Z.of_nat i - 1 - Z.of_nat j) (seq 0 r))
           (seq 0 l).
Definition dswap (l r : nat) : res diagram :=
  mk (l + r) (r + l) (repeat SWAPb (l * r)) (swap_offsets l r).

(* cartesian.Copy(dom):
     result = Id(0); for i in range(dom): result = result @ COPY
     for i in range(1, dom):
         swaps = Id(0).tensor( *((dom - i) * [SWAP]))
         result = result >> Id(i) @ swaps @ Id(i)
     Diagram(dom, 2 * dom, result.boxes, result.offsets, layers=result.layers) *)
Definition copy_layer (n i : nat) : diagram :=
  dtensor (dtensor (did i) (tensor_all (repeat (dbox SWAPb) (n - i)))) (did i).
Fixpoint copy_loop (n : nat) (result : diagram) (is : list nat) : res diagram :=
  match is with
  | [] => Ok result
  | i :: is' => do r <- dthen result (copy_layer n i); copy_loop n r is'
  end.
Definition dcopy (n : nat) : res diagram :=
  do r <- copy_loop n (tensor_all (repeat (dbox COPYb) n)) (seq 1 (n - 1));
  Ok (D n (2 * n) (dboxes r) (doffs r)).

(* cartesian.Discard(dom): Id(0).tensor( *(dom * [DISCARD])) *)
Definition ddiscard (n : nat) : diagram := tensor_all (repeat (dbox DISCARDb) n).

(* ------------------------------------------------------------------ the functor *)
(* PythonFunctor.ar: lambda f: Function(len(f.dom), len(f.cod), f.function) *)
Definition ar_box (b : box) : res fn :=
  match bfun b with
  | Some f => Ok (Fn (bdom b) (bcod b) f)
  | None => Err AttributeError
  end.

(* len(scan[:off]) and len(scan[off + k:]) for a PRO type scan of width w *)
Definition left_w (w : nat) (off : Z) : nat :=
  length (py_slice (repeat tt w) None (Some off)).
Definition right_w (w : nat) (off : Z) (k : nat) : nat :=
  length (py_slice (repeat tt w) (Some (off + Z.of_nat k)) None).

(* monoidal.Functor.__call__ on a Diagram, with ar_factory = Function:
     scan, result = diagram.dom, Function.id(F(diagram.dom))
     for box, off in zip(diagram.boxes, diagram.offsets):
         id_l = Function.id(F(scan[:off]))
         id_r = Function.id(F(scan[off + len(box.dom):]))
         result = result >> id_l @ F(box) @ id_r
         scan = scan[:off] @ box.cod @ scan[off + len(box.dom):] *)
Fixpoint functor_loop (scan : nat) (result : fn) (ls : list (box * Z)) : res fn :=
  match ls with
  | [] => Ok result
  | (b, off) :: rest =>
      let l := left_w scan off in
      let r := right_w scan off (bdom b) in
      do fb <- ar_box b;
      do result' <- fthen result (ftensor (ftensor (fid l) fb) (fid r));
      functor_loop (l + bcod b + r) result' rest
  end.

Definition apply_functor (d : diagram) : res fn :=
  functor_loop (ddom d) (fid (ddom d)) (dlayers d).

(* cartesian.Diagram.__call__( *values) = PythonFunctor(...)(self)( *values) *)
Definition dcall (d : diagram) (vals : list Z) : res pyval :=
  do f <- apply_functor d; fcall f vals.

(* A Python object that is a cartesian.Box instance takes another path through
   the functor (monoidal.Functor.__call__: isinstance(diagram, Box) ->
   cat.Functor.__call__ -> self.ar[box]): the raw function under its declared
   arities, with no identity wrapping (hence no untuplify of the result) *)
Inductive dval := VBox (b : box) | VDiag (d : diagram).
Definition as_diagram (v : dval) : diagram :=
  match v with VBox b => dbox b | VDiag d => d end.
Definition vcall (v : dval) (vals : list Z) : res pyval :=
  match v with
  | VBox b => do f <- ar_box b; fcall f vals
  | VDiag d => dcall d vals
  end.

(* ------------------------------------------------------------------ the specification side *)
(* Sequential splice evaluator: feed the state through the boxes in order, each
   applied to state[off : off + |dom|], outputs spliced back in place. *)
Definition bapp (b : box) (args : list Z) : res pyval :=
  match bfun b with Some f => f args | None => Err AttributeError end.

Definition splice (st : list Z) (off k : nat) (out : list Z) : list Z :=
  firstn off st ++ out ++ skipn (off + k) st.

Fixpoint splice_run (ls : list (box * Z)) (st : list Z) : res (list Z) :=
  match ls with
  | [] => Ok st
  | (b, off) :: rest =>
      let o := Z.to_nat off in
      do r <- bapp b (firstn (bdom b) (skipn o st));
      splice_run rest (splice st o (bdom b) (tuplify r))
  end.

(* the same with the width bookkeeping of Function.__call__ at every layer
   (only matters for boxes whose function disagrees with their declared arity) *)
Fixpoint seq_eval (w : nat) (ls : list (box * Z)) (st : list Z) : res (list Z) :=
  match ls with
  | [] => Ok st
  | (b, off) :: rest =>
      let o := Z.to_nat off in
      if Nat.eqb (length st) w then
        do r <- bapp b (firstn (bdom b) (skipn o st));
        seq_eval (w - bdom b + bcod b) rest (splice st o (bdom b) (tuplify r))
      else Err TypeError
  end.

Definition dsem (d : diagram) (st : list Z) : res (list Z) := splice_run (dlayers d) st.

Definition res_map {A B} (f : A -> B) (x : res A) : res B :=
  match x with Ok a => Ok (f a) | Err e => Err e end.

(* ------------------------------------------------------------------ programs *)
Inductive dprog :=
| DId (n : Z)
| DBox (id : Z)
| DMk (dom cod : Z) (ids : list Z) (offs : list Z)
| DThen (p q : dprog)
| DTensor (p q : dprog)
| DSwap (l r : Z)
| DCopy (n : Z)
| DDiscard (n : Z).

Inductive fprog :=
| FLib (id : Z)
| FId (n : Z)
| FThen (p q : fprog)
| FTensor (p q : fprog).

Inductive prog :=
| PCall (p : dprog) (vals : list Z)
| PDescribe (p : dprog)
| PFCall (f : fprog) (vals : list Z).

Definition get_box (id : Z) : res box :=
  match lib_box id with Some b => Ok b | None => Err BadProgram end.

Fixpoint run_dprog (p : dprog) : res dval :=
  let rd := fun q => do v <- run_dprog q; Ok (as_diagram v) in
  match p with
  | DId n => Ok (VDiag (did (Z.to_nat n)))
  | DBox id => do b <- get_box id; Ok (VBox b)
  | DMk dom cod ids offs =>
      do bs <- mapM get_box ids;
      do d <- mk (Z.to_nat dom) (Z.to_nat cod) bs offs; Ok (VDiag d)
  | DThen p q => do a <- rd p; do b <- rd q; do d <- dthen a b; Ok (VDiag d)
  | DTensor p q => do a <- rd p; do b <- rd q; Ok (VDiag (dtensor a b))
  | DSwap l r => do d <- dswap (Z.to_nat l) (Z.to_nat r); Ok (VDiag d)
  | DCopy n => do d <- dcopy (Z.to_nat n); Ok (VDiag d)
  | DDiscard n => Ok (VDiag (ddiscard (Z.to_nat n)))
  end.

Fixpoint run_fprog (p : fprog) : res fn :=
  match p with
  | FLib id => do b <- get_box id;
               match bfun b with
               | Some f => Ok (Fn (bdom b) (bcod b) f)
               | None => Err BadProgram
               end
  | FId n => Ok (fid (Z.to_nat n))
  | FThen p q => do a <- run_fprog p; do b <- run_fprog q; fthen a b
  | FTensor p q => do a <- run_fprog p; do b <- run_fprog q; Ok (ftensor a b)
  end.

Inductive outcome :=
| OVal (v : pyval)
| ODiag (d : diagram).

Definition run (p : prog) : res outcome :=
  match p with
  | PCall q vals => do v <- run_dprog q; do r <- vcall v vals; Ok (OVal r)
  | PDescribe q => do v <- run_dprog q; Ok (ODiag (as_diagram v))
  | PFCall f vals => do g <- run_fprog f; do r <- fcall g vals; Ok (OVal r)
  end.

(* ------------------------------------------------------------------ codec *)
Fixpoint dec_dprog (fuel : nat) (s : sexp) : res dprog :=
  match fuel with
  | O => Err BadProgram
  | S f =>
    match s with
    | L [I 0; I n] => Ok (DId n)
    | L [I 1; I id] => Ok (DBox id)
    | L [I 2; I dom; I cod; ids; offs] =>
        do i' <- sx_ints ids; do o' <- sx_ints offs; Ok (DMk dom cod i' o')
    | L [I 3; p; q] => do p' <- dec_dprog f p; do q' <- dec_dprog f q; Ok (DThen p' q')
    | L [I 4; p; q] => do p' <- dec_dprog f p; do q' <- dec_dprog f q; Ok (DTensor p' q')
    | L [I 5; I l; I r] => Ok (DSwap l r)
    | L [I 6; I n] => Ok (DCopy n)
    | L [I 7; I n] => Ok (DDiscard n)
    | _ => Err BadProgram
    end
  end.

Fixpoint dec_fprog (fuel : nat) (s : sexp) : res fprog :=
  match fuel with
  | O => Err BadProgram
  | S f =>
    match s with
    | L [I 0; I id] => Ok (FLib id)
    | L [I 1; I n] => Ok (FId n)
    | L [I 2; p; q] => do p' <- dec_fprog f p; do q' <- dec_fprog f q; Ok (FThen p' q')
    | L [I 3; p; q] => do p' <- dec_fprog f p; do q' <- dec_fprog f q; Ok (FTensor p' q')
    | _ => Err BadProgram
    end
  end.

Definition dec_prog (s : sexp) : res prog :=
  match s with
  | L [I 0; p; vals] => do p' <- dec_dprog 1000 p; do v <- sx_ints vals; Ok (PCall p' v)
  | L [I 1; p] => do p' <- dec_dprog 1000 p; Ok (PDescribe p')
  | L [I 2; f; vals] => do f' <- dec_fprog 1000 f; do v <- sx_ints vals; Ok (PFCall f' v)
  | _ => Err BadProgram
  end.

Definition enc_pyval (v : pyval) : sexp :=
  match v with
  | Atom z => L [I 0; I z]
  | Tup l => L [I 1; of_ints l]
  end.

Definition enc_outcome (o : outcome) : sexp :=
  match o with
  | OVal v => enc_pyval v
  | ODiag d => L [I 2; I (Z.of_nat (ddom d)); I (Z.of_nat (dcod d));
                  of_ints (map bid (dboxes d)); of_ints (doffs d)]
  end.

Definition enc_res (r : res outcome) : sexp :=
  match r with
  | Ok o => L [I 0; enc_outcome o]
  | Err e => L [I 1; I (err_code e)]
  end.

(* the single entry point of the extracted runner *)
Definition run_sexp (s : sexp) : sexp :=
  match dec_prog s with
  | Ok p => enc_res (run p)
  | Err e => L [I 1; I (err_code e)]
  end.
