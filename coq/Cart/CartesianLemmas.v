(* C19 -- proofs about the cartesian model (Cartesian.v). *)
From Coq Require Import List ZArith Bool Lia Arith.
Import ListNotations.
Require Import DV.Common.Base DV.Cart.Cartesian.
Open Scope Z_scope.

(* ------------------------------------------------------------------ lists *)
Lemma firstn_len_app : forall {A} (pre l : list A) p,
  length pre = p -> firstn p (pre ++ l) = pre.
Proof.
  intros A pre l p H. subst p. rewrite firstn_app, Nat.sub_diag, firstn_all. cbn.
  apply app_nil_r.
Qed.

Lemma skipn_len_app : forall {A} (pre l : list A) p,
  length pre = p -> skipn p (pre ++ l) = l.
Proof.
  intros A pre l p H. subst p. rewrite skipn_app, Nat.sub_diag, skipn_all. reflexivity.
Qed.

Lemma slice_mid : forall {A} (pre mid post : list A) p k,
  length pre = p -> length mid = k ->
  firstn k (skipn p (pre ++ mid ++ post)) = mid.
Proof.
  intros A pre mid post p k Hp Hk.
  rewrite (skipn_len_app pre _ p Hp). apply firstn_len_app; exact Hk.
Qed.

Lemma skipn_mid : forall {A} (pre mid post : list A) p k,
  length pre = p -> length mid = k ->
  skipn (p + k) (pre ++ mid ++ post) = post.
Proof.
  intros A pre mid post p k Hp Hk.
  rewrite app_assoc. apply skipn_len_app. rewrite app_length. lia.
Qed.

Lemma splice_mid : forall (pre mid post out : list Z) p k,
  length pre = p -> length mid = k ->
  splice (pre ++ mid ++ post) p k out = pre ++ out ++ post.
Proof.
  intros pre mid post out p k Hp Hk. unfold splice.
  rewrite (firstn_len_app pre _ p Hp), (skipn_mid pre mid post p k Hp Hk). reflexivity.
Qed.

Lemma skipn_add : forall {A} (l : list A) p k,
  skipn (p + k) l = skipn k (skipn p l).
Proof.
  intros A l p. revert l. induction p as [|p IH]; intros l k; [reflexivity|].
  destruct l as [|x l]; cbn [Nat.add skipn]; [now rewrite skipn_nil|apply IH].
Qed.

Lemma split_at : forall {A} (l : list A) p k,
  (p + k <= length l)%nat ->
  l = firstn p l ++ firstn k (skipn p l) ++ skipn (p + k) l /\
  length (firstn p l) = p /\ length (firstn k (skipn p l)) = k.
Proof.
  intros A l p k H. repeat split.
  - rewrite <- (firstn_skipn p l) at 1. f_equal.
    rewrite <- (firstn_skipn k (skipn p l)) at 1. f_equal.
    rewrite skipn_add. reflexivity.
  - rewrite firstn_length. lia.
  - rewrite firstn_length, skipn_length. lia.
Qed.

Lemma tuplify_untuplify : forall l, tuplify (untuplify l) = l.
Proof. intros [|x [|y l]]; reflexivity. Qed.

Lemma snoc_cases : forall {A} (l : list A) n,
  length l = S n -> exists l' x, l = l' ++ [x] /\ length l' = n.
Proof.
  intros A l n H. destruct (exists_last (l := l)) as [l' [x E]].
  - intro E; subst; discriminate.
  - exists l', x. split; [exact E|]. subst l. rewrite app_length in H. cbn in H. lia.
Qed.

(* ------------------------------------------------------------------ slices of PRO types *)
Lemma left_w_in_range : forall w off,
  0 <= off <= Z.of_nat w -> left_w w off = Z.to_nat off.
Proof.
  intros w off H. unfold left_w, py_slice, clip, len. rewrite repeat_length.
  destruct (off <? 0) eqn:E; [apply Z.ltb_lt in E; lia|].
  rewrite firstn_length, skipn_length, repeat_length.
  rewrite Z.min_l by lia. cbn [Z.to_nat]. lia.
Qed.

Lemma right_w_in_range : forall w off k,
  0 <= off -> off + Z.of_nat k <= Z.of_nat w ->
  right_w w off k = (w - Z.to_nat off - k)%nat.
Proof.
  intros w off k H0 H. unfold right_w, py_slice, clip, len. rewrite repeat_length.
  destruct (off + Z.of_nat k <? 0) eqn:E; [apply Z.ltb_lt in E; lia|].
  rewrite firstn_length, skipn_length, repeat_length.
  rewrite Z.min_l by lia. lia.
Qed.

(* ------------------------------------------------------------------ one layer of the functor *)
Lemma fcall_fid : forall n vals,
  length vals = n -> fcall (fid n) vals = Ok (untuplify vals).
Proof.
  intros n vals H. unfold fcall, fid. cbn. rewrite H, Nat.eqb_refl. reflexivity.
Qed.

(* id_l @ F(box) @ id_r, called on a state: length check, then the box on its
   slice, outputs spliced in place *)
Lemma layer_call : forall l r k c f st,
  fcall (ftensor (ftensor (fid l) (Fn k c f)) (fid r)) st =
  if Nat.eqb (length st) (l + k + r)
  then do rv <- f (firstn k (skipn l st));
       Ok (untuplify (splice st l k (tuplify rv)))
  else Err TypeError.
Proof.
  intros l r k c f st. unfold fcall at 1. cbn [fdom ftensor fid].
  destruct (Nat.eqb (length st) (l + k + r)) eqn:E; [|reflexivity].
  apply Nat.eqb_eq in E. cbn [fapp ftensor fdom fid].
  unfold fcall at 1. cbn [fdom ftensor fid].
  assert (H1 : length (firstn (l + k) st) = (l + k)%nat) by (rewrite firstn_length; lia).
  rewrite H1, Nat.eqb_refl. cbn [fapp ftensor fdom fid].
  rewrite firstn_firstn, Nat.min_l by lia.
  rewrite fcall_fid by (rewrite firstn_length; lia).
  cbn [bind]. unfold fcall at 1. cbn [fdom fapp].
  rewrite skipn_firstn_comm. replace (l + k - l)%nat with k by lia.
  assert (H2 : length (firstn k (skipn l st)) = k)
    by (rewrite firstn_length, skipn_length; lia).
  rewrite H2, Nat.eqb_refl.
  destruct (f (firstn k (skipn l st))) as [rv|e]; [|reflexivity].
  cbn [bind]. rewrite !tuplify_untuplify.
  rewrite fcall_fid by (rewrite skipn_length; lia).
  cbn [bind]. rewrite tuplify_untuplify. unfold splice. rewrite <- app_assoc. reflexivity.
Qed.

(* ------------------------------------------------------------------ the functor loop *)
Definition has_funs (ls : list (box * Z)) : bool :=
  forallb (fun bo => match bfun (fst bo) with Some _ => true | None => false end) ls.

Lemma functor_loop_spec : forall ls scan c result g,
  scan_layers scan ls = Some c ->
  has_funs ls = true ->
  fcod result = scan ->
  (forall vals, fcall result vals = do st <- g vals; Ok (untuplify st)) ->
  exists f, functor_loop scan result ls = Ok f /\ fcod f = c /\
    forall vals, fcall f vals =
      do st <- g vals; do out <- seq_eval scan ls st; Ok (untuplify out).
Proof.
  induction ls as [|[b off] ls IH]; intros scan c result g Hscan Hfun Hcod Hres.
  - cbn in Hscan. inversion Hscan; subst c. exists result. cbn [functor_loop].
    repeat split; [exact Hcod|]. intro vals. rewrite Hres. destruct (g vals); reflexivity.
  - cbn [scan_layers] in Hscan.
    destruct ((0 <=? off) && (off + Z.of_nat (bdom b) <=? Z.of_nat scan)) eqn:E; [|discriminate].
    apply andb_true_iff in E. destruct E as [E0 E1].
    apply Z.leb_le in E0. apply Z.leb_le in E1.
    cbn [has_funs forallb fst] in Hfun. apply andb_true_iff in Hfun. destruct Hfun as [Hf Hfun].
    destruct (bfun b) as [f|] eqn:Ef; [|discriminate].
    cbn [functor_loop].
    rewrite (left_w_in_range scan off) by lia.
    rewrite (right_w_in_range scan off (bdom b)) by lia.
    unfold ar_box. rewrite Ef. cbn [bind]. unfold fthen.
    set (l := Z.to_nat off). set (k := bdom b).
    set (r := (scan - l - k)%nat).
    assert (Hsum : (l + k + r = scan)%nat) by (unfold l, k, r; lia).
    cbn [fdom ftensor fid]. rewrite Hcod, Hsum, Nat.eqb_refl. cbn [bind].
    replace (l + bcod b + r)%nat with (scan - k + bcod b)%nat by (unfold l, k, r; lia).
    set (step := fun st : list Z =>
      if Nat.eqb (length st) scan
      then do rv <- f (firstn k (skipn l st)); Ok (splice st l k (tuplify rv))
      else Err TypeError).
    destruct (IH (scan - k + bcod b)%nat c
      (Fn (fdom result) (fcod (ftensor (ftensor (fid l) (Fn k (bcod b) f)) (fid r)))
         (fun vals => do r0 <- fcall result vals;
                      fcall (ftensor (ftensor (fid l) (Fn k (bcod b) f)) (fid r)) (tuplify r0)))
      (fun vals => do st <- g vals; step st)) as [f' [Hloop [Hc Hcall]]].
    + exact Hscan.
    + exact Hfun.
    + cbn [fcod ftensor fid]. unfold l, k, r. lia.
    + intro vals. unfold fcall at 1. cbn [fdom fapp].
      destruct (Nat.eqb (length vals) (fdom result)) eqn:El.
      * rewrite Hres. destruct (g vals) as [st|e]; [|reflexivity]. cbn [bind].
        rewrite tuplify_untuplify, layer_call, Hsum. unfold step.
        destruct (Nat.eqb (length st) scan); [|reflexivity].
        destruct (f (firstn k (skipn l st))); reflexivity.
      * specialize (Hres vals). unfold fcall in Hres. rewrite El in Hres.
        destruct (g vals) as [st|e]; cbn [bind] in Hres; [discriminate|].
        inversion Hres; subst e. reflexivity.
    + exists f'. split; [exact Hloop|]. split; [exact Hc|].
      intro vals. rewrite Hcall. destruct (g vals) as [st|e]; [|reflexivity].
      cbn [bind seq_eval]. fold l. fold k. unfold step, bapp. rewrite Ef.
      destruct (Nat.eqb (length st) scan); [|reflexivity].
      destruct (f (firstn k (skipn l st))); reflexivity.
Qed.

Lemma wf_diagram_inv : forall d, wf_diagram d = true ->
  length (dboxes d) = length (doffs d) /\ scan_layers (ddom d) (dlayers d) = Some (dcod d).
Proof.
  intros d H. unfold wf_diagram in H. apply andb_true_iff in H. destruct H as [H1 H2].
  apply Nat.eqb_eq in H1. split; [exact H1|].
  destruct (scan_layers (ddom d) (dlayers d)) as [c|]; [|discriminate].
  apply Nat.eqb_eq in H2. congruence.
Qed.

(* Calling a well-typed diagram through PythonFunctor = the sequential splice
   evaluator with Function.__call__'s width bookkeeping, for ANY box functions
   (honest or not). *)
Theorem call_checked : forall d vals,
  wf_diagram d = true -> has_funs (dlayers d) = true ->
  dcall d vals =
    if Nat.eqb (length vals) (ddom d)
    then do out <- seq_eval (ddom d) (dlayers d) vals; Ok (untuplify out)
    else Err TypeError.
Proof.
  intros d vals Hwf Hfun. destruct (wf_diagram_inv d Hwf) as [_ Hscan].
  destruct (functor_loop_spec (dlayers d) (ddom d) (dcod d) (fid (ddom d))
    (fun vals => if Nat.eqb (length vals) (ddom d) then Ok vals else Err TypeError)
    Hscan Hfun eq_refl) as [f [Hloop [_ Hcall]]].
  - intro v. unfold fcall, fid. cbn [fdom fapp].
    destruct (Nat.eqb (length v) (ddom d)); reflexivity.
  - unfold dcall, apply_functor. rewrite Hloop. cbn [bind]. rewrite Hcall.
    destruct (Nat.eqb (length vals) (ddom d)); reflexivity.
Qed.

(* a box without a function makes the functor raise AttributeError before any
   value is looked at *)
Lemma functor_loop_nofun : forall ls scan c result,
  scan_layers scan ls = Some c -> fcod result = scan ->
  has_funs ls = false -> functor_loop scan result ls = Err AttributeError.
Proof.
  induction ls as [|[b off] ls IH]; intros scan c result Hscan Hcod Hfun; [discriminate|].
  cbn [scan_layers] in Hscan.
  destruct ((0 <=? off) && (off + Z.of_nat (bdom b) <=? Z.of_nat scan)) eqn:E; [|discriminate].
  apply andb_true_iff in E. destruct E as [E0 E1].
  apply Z.leb_le in E0. apply Z.leb_le in E1.
  cbn [functor_loop]. unfold ar_box.
  cbn [has_funs forallb fst] in Hfun.
  destruct (bfun b) as [f|] eqn:Ef; [|reflexivity]. cbn [bind andb] in *.
  rewrite (left_w_in_range scan off) by lia.
  rewrite (right_w_in_range scan off (bdom b)) by lia.
  unfold fthen. cbn [fdom ftensor fid]. rewrite Hcod.
  replace (Z.to_nat off + bdom b + (scan - Z.to_nat off - bdom b))%nat with scan by lia.
  rewrite Nat.eqb_refl. cbn [bind].
  apply (IH _ c); [|cbn [fcod ftensor fid]; lia|exact Hfun].
  replace (Z.to_nat off + bcod b + (scan - Z.to_nat off - bdom b))%nat
    with (scan - bdom b + bcod b)%nat by lia. exact Hscan.
Qed.

Theorem call_nofun : forall d vals,
  wf_diagram d = true -> has_funs (dlayers d) = false ->
  dcall d vals = Err AttributeError.
Proof.
  intros d vals Hwf Hfun. destruct (wf_diagram_inv d Hwf) as [_ Hscan].
  unfold dcall, apply_functor.
  rewrite (functor_loop_nofun _ _ _ (fid (ddom d)) Hscan eq_refl Hfun). reflexivity.
Qed.

(* ------------------------------------------------------------------ honest boxes *)
(* a box is honest when it has a function whose results (when it returns) have
   the declared number of outputs on inputs of the declared length *)
Definition honest_box (b : box) : Prop :=
  exists f, bfun b = Some f /\
    forall args r, length args = bdom b -> f args = Ok r -> length (tuplify r) = bcod b.
(* total: it returns on every input of the declared length *)
Definition total_box (b : box) : Prop :=
  forall args, length args = bdom b -> exists r, bapp b args = Ok r.

Definition honest_layers (ls : list (box * Z)) : Prop := Forall (fun bo => honest_box (fst bo)) ls.
Definition total_layers (ls : list (box * Z)) : Prop := Forall (fun bo => total_box (fst bo)) ls.
Definition honest (d : diagram) : Prop := Forall honest_box (dboxes d).
Definition total (d : diagram) : Prop := Forall total_box (dboxes d).

Lemma Forall_combine_fst : forall {A B} (P : A -> Prop) (l : list A) (l' : list B),
  Forall P l -> Forall (fun ab => P (fst ab)) (combine l l').
Proof.
  intros A B P l. induction l as [|x l IH]; intros l' H; [constructor|].
  destruct l' as [|y l']; [constructor|]. inversion H; subst.
  cbn. constructor; [assumption|apply IH; assumption].
Qed.

Lemma honest_dlayers : forall d, honest d -> honest_layers (dlayers d).
Proof. intros d H. apply Forall_combine_fst. exact H. Qed.
Lemma total_dlayers : forall d, total d -> total_layers (dlayers d).
Proof. intros d H. apply Forall_combine_fst. exact H. Qed.

Lemma honest_has_funs : forall ls, honest_layers ls -> has_funs ls = true.
Proof.
  induction ls as [|[b off] ls IH]; intro H; [reflexivity|].
  inversion H as [|? ? [f [Ef _]] H']; subst. cbn [has_funs forallb fst] in *.
  rewrite Ef. cbn. apply IH. exact H'.
Qed.

Lemma honest_bapp : forall b args r,
  honest_box b -> length args = bdom b -> bapp b args = Ok r -> length (tuplify r) = bcod b.
Proof.
  intros b args r [f [Ef Hf]] Hl Hr. unfold bapp in Hr. rewrite Ef in Hr.
  apply (Hf args); assumption.
Qed.

Lemma splice_length : forall st o k out,
  (o + k <= length st)%nat -> length (splice st o k out) = (length st - k + length out)%nat.
Proof.
  intros st o k out H. unfold splice. rewrite !app_length, firstn_length, skipn_length. lia.
Qed.

Lemma scan_step : forall w b off rest c,
  scan_layers w ((b, off) :: rest) = Some c ->
  0 <= off /\ (Z.to_nat off + bdom b <= w)%nat /\ scan_layers (w - bdom b + bcod b) rest = Some c.
Proof.
  intros w b off rest c H. cbn [scan_layers] in H.
  destruct ((0 <=? off) && (off + Z.of_nat (bdom b) <=? Z.of_nat w)) eqn:E; [|discriminate].
  apply andb_true_iff in E. destruct E as [E0 E1].
  apply Z.leb_le in E0. apply Z.leb_le in E1. repeat split; [lia|lia|exact H].
Qed.

Lemma scan_step_intro : forall w b off rest,
  0 <= off -> (Z.to_nat off + bdom b <= w)%nat ->
  scan_layers w ((b, off) :: rest) = scan_layers (w - bdom b + bcod b) rest.
Proof.
  intros w b off rest H0 H1. cbn [scan_layers].
  replace ((0 <=? off) && (off + Z.of_nat (bdom b) <=? Z.of_nat w)) with true; [reflexivity|].
  symmetry. apply andb_true_iff. split; apply Z.leb_le; lia.
Qed.

(* the state, cut around the slice a box acts on *)
Lemma splice_run_step : forall b off rest pre mid post,
  length pre = Z.to_nat off -> length mid = bdom b ->
  splice_run ((b, off) :: rest) (pre ++ mid ++ post) =
  do r <- bapp b mid; splice_run rest (pre ++ tuplify r ++ post).
Proof.
  intros b off rest pre mid post Hp Hm. cbn [splice_run].
  rewrite (slice_mid pre mid post _ _ Hp Hm).
  destruct (bapp b mid) as [r|e]; [|reflexivity]. cbn [bind].
  rewrite (splice_mid pre mid post _ _ _ Hp Hm). reflexivity.
Qed.

Lemma seq_eval_step : forall w b off rest pre mid post,
  length pre = Z.to_nat off -> length mid = bdom b ->
  length (pre ++ mid ++ post) = w ->
  seq_eval w ((b, off) :: rest) (pre ++ mid ++ post) =
  do r <- bapp b mid; seq_eval (w - bdom b + bcod b) rest (pre ++ tuplify r ++ post).
Proof.
  intros w b off rest pre mid post Hp Hm Hw. cbn [seq_eval].
  rewrite Hw, Nat.eqb_refl.
  rewrite (slice_mid pre mid post _ _ Hp Hm).
  destruct (bapp b mid) as [r|e]; [|reflexivity]. cbn [bind].
  rewrite (splice_mid pre mid post _ _ _ Hp Hm). reflexivity.
Qed.

Ltac cut_state st o k H :=
  let E := fresh "E" in let La := fresh "La" in let Lm := fresh "Lm" in
  let a := fresh "a" in let m := fresh "m" in let z := fresh "z" in
  destruct (split_at st o k H) as (E & La & Lm);
  remember (firstn o st) as a eqn:Heqa;
  remember (firstn k (skipn o st)) as m eqn:Heqm;
  remember (skipn (o + k) st) as z eqn:Heqz;
  clear Heqa Heqm Heqz; subst st.

(* for honest boxes the width bookkeeping never fires: plain splicing *)
Lemma seq_eval_splice_run : forall ls w c st,
  scan_layers w ls = Some c -> honest_layers ls -> length st = w ->
  seq_eval w ls st = splice_run ls st.
Proof.
  induction ls as [|[b off] ls IH]; intros w c st Hscan Hh Hw; [reflexivity|].
  destruct (scan_step _ _ _ _ _ Hscan) as (H0 & Hle & Hrest).
  inversion Hh as [|? ? Hb Hh']; subst. cbn [fst] in Hb.
  assert (Hle' : (Z.to_nat off + bdom b <= length st)%nat) by lia.
  cut_state st (Z.to_nat off) (bdom b) Hle'.
  rewrite seq_eval_step, splice_run_step by (auto; lia).
  destruct (bapp b m) as [r|e] eqn:Er; [|reflexivity]. cbn [bind].
  apply (IH _ c); [exact Hrest|exact Hh'|].
  pose proof (honest_bapp b m r Hb Lm Er) as Hr.
  rewrite !app_length in *. lia.
Qed.

Lemma splice_run_length : forall ls w c st out,
  scan_layers w ls = Some c -> honest_layers ls -> length st = w ->
  splice_run ls st = Ok out -> length out = c.
Proof.
  induction ls as [|[b off] ls IH]; intros w c st out Hscan Hh Hw Hrun.
  - cbn in *. inversion Hscan; inversion Hrun; subst. reflexivity.
  - destruct (scan_step _ _ _ _ _ Hscan) as (H0 & Hle & Hrest).
    inversion Hh as [|? ? Hb Hh']; subst. cbn [fst] in Hb.
    assert (Hle' : (Z.to_nat off + bdom b <= length st)%nat) by lia.
    cut_state st (Z.to_nat off) (bdom b) Hle'.
    rewrite splice_run_step in Hrun by auto.
    destruct (bapp b m) as [r|e] eqn:Er; [|discriminate]. cbn [bind] in Hrun.
    refine (IH _ c (a ++ tuplify r ++ z) out Hrest Hh' _ Hrun).
    pose proof (honest_bapp b m r Hb Lm Er) as Hr.
    rewrite !app_length in *. lia.
Qed.

Lemma splice_run_total : forall ls w c st,
  scan_layers w ls = Some c -> honest_layers ls -> total_layers ls -> length st = w ->
  exists out, splice_run ls st = Ok out.
Proof.
  induction ls as [|[b off] ls IH]; intros w c st Hscan Hh Ht Hw.
  - exists st. reflexivity.
  - destruct (scan_step _ _ _ _ _ Hscan) as (H0 & Hle & Hrest).
    inversion Hh as [|? ? Hb Hh']; subst. cbn [fst] in Hb.
    inversion Ht as [|? ? Htb Ht']; subst. cbn [fst] in Htb.
    assert (Hle' : (Z.to_nat off + bdom b <= length st)%nat) by lia.
    cut_state st (Z.to_nat off) (bdom b) Hle'.
    rewrite splice_run_step by auto.
    destruct (Htb m Lm) as [r Er]. rewrite Er. cbn [bind].
    eapply (IH _ c); [exact Hrest|exact Hh'|exact Ht'|].
    pose proof (honest_bapp b m r Hb Lm Er) as Hr.
    rewrite !app_length in *. lia.
Qed.

(* ------------------------------------------------------------------ composition of runs *)
Lemma splice_run_app : forall l1 l2 st,
  splice_run (l1 ++ l2) st = do s <- splice_run l1 st; splice_run l2 s.
Proof.
  induction l1 as [|[b off] l1 IH]; intros l2 st; [reflexivity|].
  cbn [app splice_run]. destruct (bapp b _); [|reflexivity]. cbn [bind]. apply IH.
Qed.

Definition shift (n : nat) (ls : list (box * Z)) : list (box * Z) :=
  map (fun bo => (fst bo, snd bo + Z.of_nat n)) ls.

(* boxes whiskered on the left by n wires only see the wires to the right *)
Lemma splice_run_shift : forall ls w c n pre st,
  scan_layers w ls = Some c -> honest_layers ls -> length st = w -> length pre = n ->
  splice_run (shift n ls) (pre ++ st) = do s <- splice_run ls st; Ok (pre ++ s).
Proof.
  induction ls as [|[b off] ls IH]; intros w c n pre st Hscan Hh Hw Hn; [reflexivity|].
  destruct (scan_step _ _ _ _ _ Hscan) as (H0 & Hle & Hrest).
  inversion Hh as [|? ? Hb Hh']; subst. cbn [fst] in Hb.
  assert (Hle' : (Z.to_nat off + bdom b <= length st)%nat) by lia.
  cut_state st (Z.to_nat off) (bdom b) Hle'.
  cbn [shift map fst snd]. fold (shift (length pre) ls).
  rewrite (app_assoc pre a).
  rewrite splice_run_step by (auto; rewrite app_length; lia).
  rewrite splice_run_step by auto.
  destruct (bapp b m) as [r|e] eqn:Er; [|reflexivity]. cbn [bind].
  rewrite <- app_assoc.
  eapply (IH _ c); [exact Hrest|exact Hh'| |reflexivity].
  pose proof (honest_bapp b m r Hb Lm Er) as Hr.
  rewrite !app_length in *. lia.
Qed.

(* boxes of a well-typed diagram do not see wires added on the right *)
Lemma splice_run_frame : forall ls w c st post,
  scan_layers w ls = Some c -> honest_layers ls -> length st = w ->
  splice_run ls (st ++ post) = do s <- splice_run ls st; Ok (s ++ post).
Proof.
  induction ls as [|[b off] ls IH]; intros w c st post Hscan Hh Hw; [reflexivity|].
  destruct (scan_step _ _ _ _ _ Hscan) as (H0 & Hle & Hrest).
  inversion Hh as [|? ? Hb Hh']; subst. cbn [fst] in Hb.
  assert (Hle' : (Z.to_nat off + bdom b <= length st)%nat) by lia.
  cut_state st (Z.to_nat off) (bdom b) Hle'.
  rewrite <- !app_assoc.
  rewrite !splice_run_step by auto.
  destruct (bapp b m) as [r|e] eqn:Er; [|reflexivity]. cbn [bind].
  rewrite (app_assoc (tuplify r)), (app_assoc a).
  rewrite (IH _ c _ post Hrest Hh').
  - reflexivity.
  - pose proof (honest_bapp b m r Hb Lm Er) as Hr.
    rewrite !app_length in *. lia.
Qed.

(* ------------------------------------------------------------------ the headline *)
Lemma res_map_bind : forall {A B} (f : A -> B) (x : res A),
  (do a <- x; Ok (f a)) = res_map f x.
Proof. intros A B f [a|e]; reflexivity. Qed.

(* Calling a well-typed diagram of honest boxes = sequential splicing *)
Theorem call_is_sequential_splice_lemma : forall d vals,
  wf_diagram d = true -> honest d ->
  dcall d vals =
    if Nat.eqb (length vals) (ddom d)
    then res_map untuplify (dsem d vals)
    else Err TypeError.
Proof.
  intros d vals Hwf Hh. pose proof (honest_dlayers d Hh) as Hl.
  rewrite (call_checked d vals Hwf (honest_has_funs _ Hl)).
  destruct (Nat.eqb (length vals) (ddom d)) eqn:E; [|reflexivity].
  apply Nat.eqb_eq in E. destruct (wf_diagram_inv d Hwf) as [_ Hscan].
  rewrite (seq_eval_splice_run _ _ _ _ Hscan Hl E). apply res_map_bind.
Qed.

(* a bare Box object: the raw function under the declared input arity; equal to
   the splice semantics up to the 1-tuple convention *)
Lemma box_call_lemma : forall b vals,
  honest_box b ->
  vcall (VBox b) vals = (if Nat.eqb (length vals) (bdom b) then bapp b vals else Err TypeError)
  /\ (length vals = bdom b -> res_map tuplify (vcall (VBox b) vals) = dsem (dbox b) vals).
Proof.
  intros b vals [f [Ef Hf]]. cbn [vcall]. unfold ar_box, bapp. rewrite Ef. cbn [bind].
  unfold fcall. cbn [fdom fapp]. split; [reflexivity|].
  intro Hl. rewrite Hl, Nat.eqb_refl. unfold dsem, dlayers, dbox. cbn [dboxes doffs combine splice_run].
  cbn [Z.to_nat skipn]. rewrite <- Hl, firstn_all. unfold bapp. rewrite Ef.
  destruct (f vals) as [r|e]; [|reflexivity]. cbn [bind res_map]. unfold splice.
  cbn [firstn Nat.add app]. rewrite skipn_all, app_nil_r. reflexivity.
Qed.

(* ------------------------------------------------------------------ building good diagrams *)
Definition good (d : diagram) : Prop := wf_diagram d = true /\ honest d.

Lemma wf_intro : forall d,
  length (dboxes d) = length (doffs d) ->
  scan_layers (ddom d) (dlayers d) = Some (dcod d) -> wf_diagram d = true.
Proof.
  intros d H1 H2. unfold wf_diagram. rewrite H1, Nat.eqb_refl, H2, Nat.eqb_refl. reflexivity.
Qed.

Lemma scan_layers_app : forall l1 l2 w,
  scan_layers w (l1 ++ l2) =
  match scan_layers w l1 with Some m => scan_layers m l2 | None => None end.
Proof.
  induction l1 as [|[b off] l1 IH]; intros l2 w; [reflexivity|].
  cbn [app scan_layers]. destruct (_ && _); [apply IH|reflexivity].
Qed.

Lemma scan_frame : forall ls w c x,
  scan_layers w ls = Some c -> scan_layers (w + x) ls = Some (c + x)%nat.
Proof.
  induction ls as [|[b off] ls IH]; intros w c x H.
  - cbn in *. inversion H. reflexivity.
  - destruct (scan_step _ _ _ _ _ H) as (H0 & Hle & Hrest).
    rewrite scan_step_intro by lia.
    replace (w + x - bdom b + bcod b)%nat with (w - bdom b + bcod b + x)%nat by lia.
    apply IH. exact Hrest.
Qed.

Lemma scan_shift : forall ls w c n,
  scan_layers w ls = Some c -> scan_layers (n + w) (shift n ls) = Some (n + c)%nat.
Proof.
  induction ls as [|[b off] ls IH]; intros w c n H.
  - cbn in *. inversion H. reflexivity.
  - destruct (scan_step _ _ _ _ _ H) as (H0 & Hle & Hrest).
    cbn [shift map fst snd]. fold (shift n ls).
    rewrite scan_step_intro by lia.
    replace (n + w - bdom b + bcod b)%nat with (n + (w - bdom b + bcod b))%nat by lia.
    apply IH. exact Hrest.
Qed.

Lemma combine_app' : forall {A B} (l1 l2 : list A) (m1 m2 : list B),
  length l1 = length m1 -> combine (l1 ++ l2) (m1 ++ m2) = combine l1 m1 ++ combine l2 m2.
Proof.
  intros A B l1. induction l1 as [|x l1 IH]; intros l2 m1 m2 H; destruct m1 as [|y m1];
    try discriminate; [reflexivity|].
  cbn. f_equal. apply IH. cbn in H. lia.
Qed.

Lemma combine_map_snd : forall {A B C} (g : B -> C) (l : list A) (m : list B),
  combine l (map g m) = map (fun ab => (fst ab, g (snd ab))) (combine l m).
Proof.
  intros A B C g l. induction l as [|x l IH]; intros [|y m]; try reflexivity.
  cbn. f_equal. apply IH.
Qed.

Lemma dlayers_tensor : forall a b,
  length (dboxes a) = length (doffs a) ->
  dlayers (dtensor a b) = dlayers a ++ shift (dcod a) (dlayers b).
Proof.
  intros a b H. unfold dlayers, dtensor. cbn [dboxes doffs].
  rewrite combine_app' by exact H. f_equal. unfold shift.
  apply (combine_map_snd (fun n => n + Z.of_nat (dcod a))).
Qed.

Lemma good_id : forall n, good (did n).
Proof. intro n. split; [|constructor]. unfold wf_diagram, did, dlayers. cbn. now rewrite Nat.eqb_refl. Qed.

Lemma sem_id : forall n st, dsem (did n) st = Ok st.
Proof. reflexivity. Qed.

Lemma good_box : forall b, honest_box b -> good (dbox b).
Proof.
  intros b H. split; [|constructor; [exact H|constructor]].
  apply wf_intro; [reflexivity|]. unfold dbox, dlayers. cbn [ddom dcod dboxes doffs combine].
  rewrite scan_step_intro by (cbn; lia). cbn [scan_layers]. f_equal. lia.
Qed.

Lemma sem_box : forall b st, length st = bdom b ->
  dsem (dbox b) st = do r <- bapp b st; Ok (tuplify r).
Proof.
  intros b st Hl. unfold dsem, dlayers, dbox. cbn [dboxes doffs combine splice_run Z.to_nat skipn].
  rewrite <- Hl, firstn_all. destruct (bapp b st) as [r|e]; [|reflexivity]. cbn [bind].
  unfold splice. cbn [firstn Nat.add app]. rewrite skipn_all, app_nil_r. reflexivity.
Qed.

Lemma good_tensor : forall a b, good a -> good b -> good (dtensor a b).
Proof.
  intros a b [Wa Ha] [Wb Hb].
  destruct (wf_diagram_inv a Wa) as [La Sa]. destruct (wf_diagram_inv b Wb) as [Lb Sb].
  split.
  - apply wf_intro.
    + unfold dtensor. cbn [dboxes doffs]. rewrite !app_length, map_length. lia.
    + rewrite dlayers_tensor by exact La. unfold dtensor. cbn [ddom dcod].
      rewrite scan_layers_app, (scan_frame _ _ _ (ddom b) Sa).
      rewrite (Nat.add_comm (dcod a) (ddom b)), (Nat.add_comm (ddom b) (dcod a)).
      apply scan_shift. exact Sb.
  - unfold honest, dtensor. cbn [dboxes]. apply Forall_app. split; assumption.
Qed.

Lemma sem_tensor : forall a b x y,
  good a -> good b -> length x = ddom a -> length y = ddom b ->
  dsem (dtensor a b) (x ++ y) = do s <- dsem a x; do t <- dsem b y; Ok (s ++ t).
Proof.
  intros a b x y [Wa Ha] [Wb Hb] Hx Hy.
  destruct (wf_diagram_inv a Wa) as [La Sa]. destruct (wf_diagram_inv b Wb) as [Lb Sb].
  unfold dsem. rewrite dlayers_tensor by exact La. rewrite splice_run_app.
  rewrite (splice_run_frame _ _ _ x y Sa (honest_dlayers a Ha) Hx).
  destruct (splice_run (dlayers a) x) as [s|e] eqn:Es; [|reflexivity]. cbn [bind].
  pose proof (splice_run_length _ _ _ _ _ Sa (honest_dlayers a Ha) Hx Es) as Ls.
  apply (splice_run_shift _ _ _ _ _ _ Sb (honest_dlayers b Hb) Hy Ls).
Qed.

Lemma good_then : forall a b, good a -> good b -> dcod a = ddom b ->
  exists c, dthen a b = Ok c /\ good c /\ ddom c = ddom a /\ dcod c = dcod b /\
    forall st, dsem c st = do s <- dsem a st; dsem b s.
Proof.
  intros a b [Wa Ha] [Wb Hb] E.
  destruct (wf_diagram_inv a Wa) as [La Sa]. destruct (wf_diagram_inv b Wb) as [Lb Sb].
  unfold dthen. rewrite E, Nat.eqb_refl. eexists. split; [reflexivity|].
  assert (Hl : dlayers (D (ddom a) (dcod b) (dboxes a ++ dboxes b) (doffs a ++ doffs b))
               = dlayers a ++ dlayers b).
  { unfold dlayers. cbn [dboxes doffs]. apply combine_app'. exact La. }
  repeat split.
  - apply wf_intro.
    + cbn [dboxes doffs]. rewrite !app_length. lia.
    + rewrite Hl. cbn [ddom dcod]. rewrite scan_layers_app, Sa, E. exact Sb.
  - unfold honest. cbn [dboxes]. apply Forall_app. split; assumption.
  - intro st. unfold dsem. rewrite Hl. apply splice_run_app.
Qed.

Lemma sem_length : forall d st out, good d -> length st = ddom d ->
  dsem d st = Ok out -> length out = dcod d.
Proof.
  intros d st out [W H] Hl Hr. destruct (wf_diagram_inv d W) as [_ S].
  exact (splice_run_length _ _ _ _ _ S (honest_dlayers d H) Hl Hr).
Qed.

Lemma sem_total : forall d st, good d -> total d -> length st = ddom d ->
  exists out, dsem d st = Ok out /\ length out = dcod d.
Proof.
  intros d st [W H] T Hl. destruct (wf_diagram_inv d W) as [_ S].
  destruct (splice_run_total _ _ _ _ S (honest_dlayers d H) (total_dlayers d T) Hl) as [out Ho].
  exists out. split; [exact Ho|].
  exact (splice_run_length _ _ _ _ _ S (honest_dlayers d H) Hl Ho).
Qed.

Lemma total_tensor : forall a b, total a -> total b -> total (dtensor a b).
Proof. intros a b Ha Hb. unfold total, dtensor. cbn [dboxes]. apply Forall_app. split; assumption. Qed.

(* Id(0).tensor( *l) *)
Lemma tensor_all_snoc : forall l d, tensor_all (l ++ [d]) = dtensor (tensor_all l) d.
Proof. intros l d. unfold tensor_all. rewrite fold_left_app. reflexivity. Qed.

Lemma repeat_snoc : forall {A} (x : A) n, repeat x (S n) = repeat x n ++ [x].
Proof. intros A x n. cbn [repeat]. apply repeat_cons. Qed.

Lemma good_tensor_repeat : forall b n, honest_box b ->
  good (tensor_all (repeat (dbox b) n)) /\
  ddom (tensor_all (repeat (dbox b) n)) = (n * bdom b)%nat /\
  dcod (tensor_all (repeat (dbox b) n)) = (n * bcod b)%nat.
Proof.
  intros b n Hb. induction n as [|n (G & Hd & Hc)].
  - cbn. split; [apply good_id|split; reflexivity].
  - rewrite repeat_snoc, tensor_all_snoc. split; [apply good_tensor; [exact G|apply good_box; exact Hb]|].
    cbn [dtensor ddom dcod dbox]. rewrite Hd, Hc. split; lia.
Qed.

(* ------------------------------------------------------------------ COPY, SWAP, DISCARD *)
Lemma honest_COPY : honest_box COPYb.
Proof.
  eexists. split; [reflexivity|]. intros args r Hl Hr. inversion Hr; subst.
  cbn [tuplify bcod COPYb]. rewrite app_length. cbn in Hl. lia.
Qed.
Lemma honest_SWAP : honest_box SWAPb.
Proof.
  eexists. split; [reflexivity|]. intros args r Hl Hr.
  destruct args as [|x [|y [|? ?]]]; try discriminate. inversion Hr; subst. reflexivity.
Qed.
Lemma honest_DISCARD : honest_box DISCARDb.
Proof. eexists. split; [reflexivity|]. intros args r Hl Hr. inversion Hr; subst. reflexivity. Qed.
Lemma total_COPY : total_box COPYb.
Proof. intros args Hl. eexists. reflexivity. Qed.
Lemma total_SWAP : total_box SWAPb.
Proof.
  intros args Hl. destruct args as [|x [|y [|? ?]]]; try discriminate. eexists. reflexivity.
Qed.
Lemma total_DISCARD : total_box DISCARDb.
Proof. intros args Hl. eexists. reflexivity. Qed.

Lemma total_tensor_repeat : forall b n, total_box b -> total (tensor_all (repeat (dbox b) n)).
Proof.
  intros b n Hb. induction n as [|n IH]; [constructor|].
  rewrite repeat_snoc, tensor_all_snoc. apply total_tensor; [exact IH|].
  constructor; [exact Hb|constructor].
Qed.

(* ---- Discard(n) *)
Lemma discard_good : forall n,
  good (ddiscard n) /\ ddom (ddiscard n) = n /\ dcod (ddiscard n) = 0%nat /\ total (ddiscard n).
Proof.
  intro n. unfold ddiscard.
  destruct (good_tensor_repeat DISCARDb n honest_DISCARD) as (G & Hd & Hc).
  repeat split; try apply G; [cbn in Hd; lia|cbn in Hc; lia|].
  apply total_tensor_repeat. apply total_DISCARD.
Qed.

Lemma discard_sem : forall n xs, length xs = n -> dsem (ddiscard n) xs = Ok [].
Proof.
  induction n as [|n IH]; intros xs Hl.
  - destruct xs; [reflexivity|discriminate].
  - destruct (snoc_cases xs n Hl) as (xs' & x & E & Hl'). subst xs.
    unfold ddiscard. rewrite repeat_snoc, tensor_all_snoc. fold (ddiscard n).
    destruct (discard_good n) as (G & Hd & _).
    rewrite sem_tensor; [|exact G|apply good_box; apply honest_DISCARD|lia|reflexivity].
    rewrite (IH xs' Hl'). cbn [bind]. rewrite sem_box by reflexivity. reflexivity.
Qed.

(* ---- Swap(l, r) *)
Definition swaps (offs : list Z) : list (box * Z) := map (pair SWAPb) offs.

Lemma combine_repeat : forall {A B} (x : A) (l : list B),
  combine (repeat x (length l)) l = map (pair x) l.
Proof. intros A B x l. induction l as [|y l IH]; [reflexivity|]. cbn. f_equal. exact IH. Qed.

Lemma flat_map_length_const : forall {A B} (f : A -> list B) r (l : list A),
  (forall x, length (f x) = r) -> length (flat_map f l) = (length l * r)%nat.
Proof.
  intros A B f r l H. induction l as [|x l IH]; [reflexivity|].
  cbn [flat_map length]. rewrite app_length, H, IH. lia.
Qed.

Lemma swap_offsets_length : forall l r, length (swap_offsets l r) = (l * r)%nat.
Proof.
  intros l r. unfold swap_offsets.
  rewrite (flat_map_length_const _ r) by (intro; now rewrite map_length, seq_length).
  now rewrite seq_length.
Qed.

Lemma scan_swaps : forall offs w,
  Forall (fun o => 0 <= o /\ o + 2 <= Z.of_nat w) offs ->
  scan_layers w (swaps offs) = Some w.
Proof.
  induction offs as [|o offs IH]; intros w H; [reflexivity|].
  inversion H as [|? ? [H0 H1] H']; subst. cbn [swaps map]. fold (swaps offs).
  rewrite scan_step_intro by (cbn; lia). cbn [bdom bcod SWAPb].
  replace (w - 2 + 2)%nat with w by lia. apply IH. exact H'.
Qed.

Lemma swap_offsets_range : forall l r,
  Forall (fun o => 0 <= o /\ o + 2 <= Z.of_nat (l + r)) (swap_offsets l r).
Proof.
  intros l r. apply Forall_forall. intros o Hin. unfold swap_offsets in Hin.
  apply in_flat_map in Hin. destruct Hin as (j & Hj & Hin).
  apply in_map_iff in Hin. destruct Hin as (i & E & Hi).
  apply in_seq in Hj. apply in_seq in Hi. lia.
Qed.

Lemma dswap_ok : forall l r,
  dswap l r = Ok (D (l + r) (r + l) (repeat SWAPb (l * r)) (swap_offsets l r)).
Proof.
  intros l r. unfold dswap, mk.
  rewrite repeat_length, swap_offsets_length, Nat.eqb_refl. cbn [negb].
  rewrite <- (swap_offsets_length l r), combine_repeat.
  fold (swaps (swap_offsets l r)).
  rewrite (scan_swaps _ _ (swap_offsets_range l r)).
  rewrite (Nat.add_comm r l), Nat.eqb_refl, swap_offsets_length. reflexivity.
Qed.

Lemma swap_good : forall l r d, dswap l r = Ok d ->
  good d /\ total d /\ ddom d = (l + r)%nat /\ dcod d = (r + l)%nat /\
  dlayers d = swaps (swap_offsets l r).
Proof.
  intros l r d H. rewrite dswap_ok in H. inversion H; subst d. clear H.
  assert (Hl : dlayers (D (l + r) (r + l) (repeat SWAPb (l * r)) (swap_offsets l r))
               = swaps (swap_offsets l r)).
  { unfold dlayers. cbn [dboxes doffs]. rewrite <- (swap_offsets_length l r). apply combine_repeat. }
  repeat split.
  - apply wf_intro.
    + cbn [dboxes doffs]. now rewrite repeat_length, swap_offsets_length.
    + rewrite Hl. cbn [ddom dcod]. rewrite (scan_swaps _ _ (swap_offsets_range l r)).
      f_equal. lia.
  - unfold honest. cbn [dboxes]. apply Forall_forall. intros b Hb.
    apply repeat_spec in Hb. subst b. apply honest_SWAP.
  - unfold total. cbn [dboxes]. apply Forall_forall. intros b Hb.
    apply repeat_spec in Hb. subst b. apply total_SWAP.
  - exact Hl.
Qed.

(* one wire bubbles to the right through the wires ys *)
Lemma bubble : forall ys pre x post p,
  length pre = p ->
  splice_run (swaps (map (fun i => Z.of_nat p + Z.of_nat i) (seq 0 (length ys))))
             (pre ++ [x] ++ ys ++ post) = Ok (pre ++ ys ++ [x] ++ post).
Proof.
  induction ys as [|y ys IH]; intros pre x post p Hp; [reflexivity|].
  cbn [length seq map swaps]. fold (swaps (map (fun i => Z.of_nat p + Z.of_nat i) (seq 1 (length ys)))).
  change (pre ++ [x] ++ (y :: ys) ++ post) with (pre ++ [x; y] ++ (ys ++ post)).
  rewrite splice_run_step by (try reflexivity; lia).
  cbn [bapp SWAPb bfun f2 bind tuplify].
  rewrite <- seq_shift, map_map.
  rewrite (map_ext _ (fun i => Z.of_nat (S p) + Z.of_nat i)) by (intro; lia).
  change (pre ++ [y; x] ++ ys ++ post) with (pre ++ [y] ++ [x] ++ ys ++ post).
  rewrite (app_assoc pre [y]).
  rewrite (IH (pre ++ [y]) x post (S p)) by (rewrite app_length; cbn; lia).
  rewrite <- app_assoc. reflexivity.
Qed.

Lemma flat_map_map : forall {A B C} (f : B -> list C) (g : A -> B) (l : list A),
  flat_map f (map g l) = flat_map (fun x => f (g x)) l.
Proof. intros A B C f g l. induction l as [|x l IH]; [reflexivity|]. cbn. now rewrite IH. Qed.

Lemma swap_offsets_succ : forall l r,
  swap_offsets (S l) r =
  map (fun i => Z.of_nat l + Z.of_nat i) (seq 0 r) ++ swap_offsets l r.
Proof.
  intros l r. unfold swap_offsets. cbn [seq flat_map]. f_equal.
  - apply map_ext. intro. lia.
  - rewrite <- seq_shift, flat_map_map. apply flat_map_ext. intro j.
    apply map_ext. intro i. lia.
Qed.

Lemma swaps_app : forall a b, swaps (a ++ b) = swaps a ++ swaps b.
Proof. intros a b. apply map_app. Qed.

Lemma swap_run : forall l r xs ys post,
  length xs = l -> length ys = r ->
  splice_run (swaps (swap_offsets l r)) (xs ++ ys ++ post) = Ok (ys ++ xs ++ post).
Proof.
  induction l as [|l IH]; intros r xs ys post Hx Hy.
  - destruct xs; [reflexivity|discriminate].
  - destruct (snoc_cases xs l Hx) as (xs' & x & E & Hx'). subst xs.
    rewrite swap_offsets_succ, swaps_app, splice_run_app. subst r.
    rewrite <- (app_assoc xs' [x]).
    rewrite (bubble ys xs' x post l Hx'). cbn [bind].
    rewrite (IH (length ys) xs' ys ([x] ++ post) Hx' eq_refl).
    rewrite <- app_assoc. reflexivity.
Qed.

Lemma swap_sem : forall l r d xs ys,
  dswap l r = Ok d -> length xs = l -> length ys = r -> dsem d (xs ++ ys) = Ok (ys ++ xs).
Proof.
  intros l r d xs ys H Hx Hy. destruct (swap_good l r d H) as (_ & _ & _ & _ & Hl).
  unfold dsem. rewrite Hl.
  pose proof (swap_run l r xs ys [] Hx Hy) as R. rewrite !app_nil_r in R. exact R.
Qed.

(* ------------------------------------------------------------------ calls of good diagrams *)
Lemma dcall_good : forall d vals, good d -> length vals = ddom d ->
  dcall d vals = res_map untuplify (dsem d vals).
Proof.
  intros d vals [W H] Hl. rewrite (call_is_sequential_splice_lemma d vals W H).
  rewrite Hl, Nat.eqb_refl. reflexivity.
Qed.

Lemma dcall_badlen : forall d vals, good d -> length vals <> ddom d ->
  dcall d vals = Err TypeError.
Proof.
  intros d vals [W H] Hl. rewrite (call_is_sequential_splice_lemma d vals W H).
  apply Nat.eqb_neq in Hl. rewrite Hl. reflexivity.
Qed.

Lemma dcall_same : forall d1 d2 vals, good d1 -> good d2 -> ddom d1 = ddom d2 ->
  (length vals = ddom d1 -> dsem d1 vals = dsem d2 vals) -> dcall d1 vals = dcall d2 vals.
Proof.
  intros d1 d2 vals G1 G2 E H. destruct (Nat.eq_dec (length vals) (ddom d1)) as [Hl|Hl].
  - rewrite (dcall_good d1 vals G1 Hl), (dcall_good d2 vals G2) by congruence.
    rewrite (H Hl). reflexivity.
  - rewrite (dcall_badlen d1 vals G1 Hl), (dcall_badlen d2 vals G2) by congruence. reflexivity.
Qed.

Lemma swap_call_lemma : forall l r xs ys, length xs = l -> length ys = r ->
  exists d, dswap l r = Ok d /\ dcall d (xs ++ ys) = Ok (untuplify (ys ++ xs)).
Proof.
  intros l r xs ys Hx Hy. eexists. split; [apply dswap_ok|].
  destruct (swap_good l r _ (dswap_ok l r)) as (G & _ & Hd & _).
  rewrite dcall_good; [|exact G|rewrite Hd, app_length; lia].
  rewrite (swap_sem l r _ xs ys (dswap_ok l r) Hx Hy). reflexivity.
Qed.

Lemma discard_call_lemma : forall n xs, length xs = n -> dcall (ddiscard n) xs = Ok (Tup []).
Proof.
  intros n xs Hl. destruct (discard_good n) as (G & Hd & _).
  rewrite dcall_good; [|exact G|lia]. rewrite (discard_sem n xs Hl). reflexivity.
Qed.

(* ------------------------------------------------------------------ naturality *)
Lemma swap_natural_lemma : forall f g vals,
  good f -> good g -> total f -> total g ->
  exists sw1 sw2 lhs rhs,
    dswap (dcod f) (dcod g) = Ok sw1 /\ dswap (ddom f) (ddom g) = Ok sw2 /\
    dthen (dtensor f g) sw1 = Ok lhs /\ dthen sw2 (dtensor g f) = Ok rhs /\
    dcall lhs vals = dcall rhs vals /\
    (length vals = (ddom f + ddom g)%nat -> exists r, dcall lhs vals = Ok r).
Proof.
  intros f g vals Gf Gg Tf Tg.
  destruct (swap_good _ _ _ (dswap_ok (dcod f) (dcod g))) as (G1 & _ & D1 & C1 & _).
  destruct (swap_good _ _ _ (dswap_ok (ddom f) (ddom g))) as (G2 & _ & D2 & C2 & _).
  set (sw1 := D (dcod f + dcod g) (dcod g + dcod f) _ _) in *.
  set (sw2 := D (ddom f + ddom g) (ddom g + ddom f) _ _) in *.
  destruct (good_then (dtensor f g) sw1 (good_tensor f g Gf Gg) G1)
    as (lhs & El & Gl & Dl & Cl & Sl); [rewrite D1; reflexivity|].
  destruct (good_then sw2 (dtensor g f) G2 (good_tensor g f Gg Gf))
    as (rhs & Er & Gr & Dr & Cr & Sr); [rewrite C2; reflexivity|].
  exists sw1, sw2, lhs, rhs.
  split; [apply dswap_ok|]. split; [apply dswap_ok|]. split; [exact El|]. split; [exact Er|].
  assert (Hsem : length vals = ddom lhs ->
          dsem lhs vals = dsem rhs vals /\ exists out, dsem lhs vals = Ok out).
  { intro Hl. rewrite Dl in Hl. cbn [dtensor ddom] in Hl.
    pose proof (firstn_skipn (ddom f) vals) as E.
    remember (firstn (ddom f) vals) as x eqn:Hx. remember (skipn (ddom f) vals) as y eqn:Hy.
    assert (Lx : length x = ddom f) by (subst x; rewrite firstn_length; lia).
    assert (Ly : length y = ddom g) by (subst y; rewrite skipn_length; lia).
    clear Hx Hy. subst vals.
    destruct (sem_total f x Gf Tf Lx) as (fx & Efx & Lfx).
    destruct (sem_total g y Gg Tg Ly) as (gy & Egy & Lgy).
    rewrite Sl, Sr.
    rewrite (sem_tensor f g x y Gf Gg Lx Ly), Efx, Egy. cbn [bind].
    rewrite (swap_sem _ _ sw1 fx gy (dswap_ok _ _) Lfx Lgy).
    rewrite (swap_sem _ _ sw2 x y (dswap_ok _ _) Lx Ly). cbn [bind].
    rewrite (sem_tensor g f y x Gg Gf Ly Lx), Efx, Egy. cbn [bind].
    split; [reflexivity|eexists; reflexivity]. }
  split.
  - apply dcall_same; [exact Gl|exact Gr| |intro Hl; apply Hsem; exact Hl].
    rewrite Dl, Dr, D2. reflexivity.
  - intro Hl. assert (Hl' : length vals = ddom lhs) by (rewrite Dl; exact Hl).
    destruct (Hsem Hl') as (_ & out & Eo).
    rewrite (dcall_good lhs vals Gl Hl'), Eo. eexists. reflexivity.
Qed.

Lemma discard_natural_lemma : forall f vals,
  good f -> total f ->
  exists lhs, dthen f (ddiscard (dcod f)) = Ok lhs /\
    dcall lhs vals = dcall (ddiscard (ddom f)) vals /\
    (length vals = ddom f -> dcall lhs vals = Ok (Tup [])).
Proof.
  intros f vals Gf Tf.
  destruct (discard_good (dcod f)) as (G1 & D1 & C1 & _).
  destruct (discard_good (ddom f)) as (G2 & D2 & C2 & _).
  destruct (good_then f (ddiscard (dcod f)) Gf G1) as (lhs & El & Gl & Dl & Cl & Sl);
    [rewrite D1; reflexivity|].
  exists lhs. split; [exact El|].
  assert (Hsem : length vals = ddom f -> dsem lhs vals = Ok []).
  { intro Hl. destruct (sem_total f vals Gf Tf Hl) as (out & Eo & Lo).
    rewrite Sl, Eo. cbn [bind]. apply discard_sem. exact Lo. }
  split.
  - apply dcall_same; [exact Gl|exact G2|rewrite Dl, D2; reflexivity|].
    intro Hl. rewrite Dl in Hl. rewrite (Hsem Hl), (discard_sem _ vals Hl). reflexivity.
  - intro Hl. rewrite (dcall_good lhs vals Gl) by (rewrite Dl; exact Hl).
    rewrite (Hsem Hl). reflexivity.
Qed.

(* ------------------------------------------------------------------ Copy(n) *)
(* interleaving of two lists of equal length: a0 b0 a1 b1 ... *)
Fixpoint il (A B : list Z) : list Z :=
  match A, B with
  | a :: A', b :: B' => a :: b :: il A' B'
  | _, _ => []
  end.

Lemma il_app : forall A B A' B', length A = length B ->
  il (A ++ A') (B ++ B') = il A B ++ il A' B'.
Proof.
  induction A as [|a A IH]; intros [|b B] A' B' H; try discriminate; [reflexivity|].
  cbn. f_equal. f_equal. apply IH. cbn in H. lia.
Qed.

Lemma il_length : forall A B, length A = length B -> length (il A B) = (2 * length A)%nat.
Proof.
  induction A as [|a A IH]; intros [|b B] H; try discriminate; [reflexivity|].
  cbn [il length]. rewrite IH by (cbn in H; lia). lia.
Qed.

Lemma il_shift : forall A a B bl, length A = length B ->
  il (a :: A) (B ++ [bl]) = a :: il B A ++ [bl].
Proof.
  induction A as [|a' A IH]; intros a [|b B] bl H; try discriminate; [reflexivity|].
  cbn [app il]. f_equal. f_equal. rewrite <- (IH a' B bl) by (cbn in H; lia). reflexivity.
Qed.

(* COPY @ ... @ COPY duplicates every wire in place *)
Lemma copies_sem : forall n xs, length xs = n ->
  dsem (tensor_all (repeat (dbox COPYb) n)) xs = Ok (il xs xs).
Proof.
  induction n as [|n IH]; intros xs Hl.
  - destruct xs; [reflexivity|discriminate].
  - destruct (snoc_cases xs n Hl) as (xs' & x & E & Hl'). subst xs.
    rewrite repeat_snoc, tensor_all_snoc.
    destruct (good_tensor_repeat COPYb n honest_COPY) as (G & Hd & _).
    rewrite sem_tensor; [|exact G|apply good_box; apply honest_COPY|cbn in Hd; lia|reflexivity].
    rewrite (IH xs' Hl'). cbn [bind]. rewrite sem_box by reflexivity.
    cbn [bapp COPYb bfun bind tuplify app]. rewrite il_app by reflexivity. reflexivity.
Qed.

(* SWAP @ ... @ SWAP exchanges the two interleaved lists *)
Lemma swaps_sem : forall m A B, length A = m -> length B = m ->
  dsem (tensor_all (repeat (dbox SWAPb) m)) (il A B) = Ok (il B A).
Proof.
  induction m as [|m IH]; intros A B HA HB.
  - destruct A; [|discriminate]. destruct B; [reflexivity|discriminate].
  - destruct (snoc_cases A m HA) as (A' & a & EA & HA'). subst A.
    destruct (snoc_cases B m HB) as (B' & b & EB & HB'). subst B.
    rewrite repeat_snoc, tensor_all_snoc.
    destruct (good_tensor_repeat SWAPb m honest_SWAP) as (G & Hd & _).
    rewrite !il_app by lia.
    rewrite sem_tensor; [|exact G|apply good_box; apply honest_SWAP
                         |rewrite il_length by lia; cbn in Hd; lia|reflexivity].
    rewrite (IH A' B' HA' HB'). cbn [bind]. rewrite sem_box by reflexivity. reflexivity.
Qed.

Lemma copy_layer_good : forall n i, (i <= n)%nat ->
  good (copy_layer n i) /\ ddom (copy_layer n i) = (2 * n)%nat /\ dcod (copy_layer n i) = (2 * n)%nat.
Proof.
  intros n i Hi. unfold copy_layer.
  destruct (good_tensor_repeat SWAPb (n - i) honest_SWAP) as (G & Hd & Hc).
  split; [apply good_tensor; [apply good_tensor; [apply good_id|exact G]|apply good_id]|].
  cbn [dtensor ddom dcod did]. rewrite Hd, Hc. cbn [bdom bcod SWAPb]. lia.
Qed.

Lemma copy_layer_sem : forall n i pre A B post, (i <= n)%nat ->
  length pre = i -> length post = i -> length A = (n - i)%nat -> length B = (n - i)%nat ->
  dsem (copy_layer n i) (pre ++ il A B ++ post) = Ok (pre ++ il B A ++ post).
Proof.
  intros n i pre A B post Hi Hp Hq HA HB. unfold copy_layer.
  destruct (good_tensor_repeat SWAPb (n - i) honest_SWAP) as (G & Hd & Hc).
  rewrite (app_assoc pre).
  rewrite sem_tensor; [|apply good_tensor; [apply good_id|exact G]|apply good_id
                       |cbn [dtensor ddom did]; rewrite Hd, app_length, il_length by lia;
                        cbn [bdom SWAPb]; lia
                       |exact Hq].
  rewrite sem_tensor; [|apply good_id|exact G|exact Hp
                       |rewrite Hd, il_length by lia; cbn [bdom SWAPb]; lia].
  rewrite sem_id. cbn [bind]. rewrite (swaps_sem (n - i) A B HA HB). cbn [bind].
  rewrite sem_id. cbn [bind]. rewrite <- app_assoc. reflexivity.
Qed.

Lemma copy_loop_spec : forall m c n result,
  (c + m = n)%nat -> good result -> dcod result = (2 * n)%nat ->
  exists r, copy_loop n result (seq (S c) (m - 1)) = Ok r /\ good r /\
    ddom r = ddom result /\ dcod r = (2 * n)%nat /\
    forall st pre A B post,
      length pre = c -> length post = c -> length A = m -> length B = m ->
      dsem result st = Ok (pre ++ il A B ++ post) ->
      dsem r st = Ok (pre ++ A ++ B ++ post).
Proof.
  induction m as [|m IH]; intros c n result Hn G Hc.
  - exists result. cbn [Nat.sub seq copy_loop].
      split; [reflexivity|]. split; [exact G|]. split; [reflexivity|]. split; [exact Hc|].
    intros st pre A B post _ _ HA HB Hs.
    destruct A; [|discriminate]. destruct B; [|discriminate]. exact Hs.
  - destruct m as [|m].
    + exists result. cbn [Nat.sub seq copy_loop].
      split; [reflexivity|]. split; [exact G|]. split; [reflexivity|]. split; [exact Hc|].
      intros st pre A B post _ _ HA HB Hs.
      destruct A as [|a [|? ?]]; try discriminate. destruct B as [|b [|? ?]]; try discriminate.
      exact Hs.
    + replace (S (S m) - 1)%nat with (S m) by lia. cbn [seq copy_loop].
      destruct (copy_layer_good n (S c)) as (Gl & Dl & Cl); [lia|].
      destruct (good_then result (copy_layer n (S c)) G Gl) as (r1 & E1 & G1 & D1 & C1 & S1);
        [rewrite Hc, Dl; reflexivity|].
      rewrite E1. cbn [bind].
      destruct (IH (S c) n r1) as (r & Er & Gr & Dr & Cr & Sr);
        [lia|exact G1|rewrite C1, Cl; reflexivity|].
      replace (S m - 0)%nat with (S m) in Er by lia.
      replace (S m - 1)%nat with m in Er by lia.
      exists r. split; [exact Er|]. split; [exact Gr|]. split; [congruence|]. split; [exact Cr|].
      intros st pre A B post Hp Hq HA HB Hs.
      destruct A as [|a A]; [discriminate|].
      destruct (snoc_cases B (S m) HB) as (B' & bl & EB & HB'). subst B.
      cbn in HA. assert (HA' : length A = S m) by lia.
      replace (pre ++ (a :: A) ++ (B' ++ [bl]) ++ post)
        with ((pre ++ [a]) ++ A ++ B' ++ [bl] ++ post)
        by (rewrite <- !app_assoc; reflexivity).
      apply (Sr st (pre ++ [a]) A B' ([bl] ++ post)).
      * rewrite app_length. cbn. lia.
      * cbn. lia.
      * exact HA'.
      * exact HB'.
      * rewrite S1, Hs. cbn [bind]. rewrite il_shift by lia.
        change (pre ++ (a :: il B' A ++ [bl]) ++ post)
          with (pre ++ ([a] ++ il B' A ++ [bl]) ++ post).
        rewrite <- !app_assoc. rewrite (app_assoc pre [a]).
        rewrite copy_layer_sem; try lia; [|rewrite app_length; cbn; lia|cbn; lia].
        rewrite <- !app_assoc. reflexivity.
Qed.

Lemma il_self_nil : forall A B, il A B ++ [] = il A B.
Proof. intros. apply app_nil_r. Qed.

Lemma copy_good : forall n,
  exists d, dcopy n = Ok d /\ good d /\ ddom d = n /\ dcod d = (2 * n)%nat /\
    forall xs, length xs = n -> dsem d xs = Ok (xs ++ xs).
Proof.
  intro n. unfold dcopy.
  destruct (good_tensor_repeat COPYb n honest_COPY) as (G & Hd & Hc).
  cbn [bdom bcod COPYb] in Hd, Hc.
  destruct (copy_loop_spec n 0 n (tensor_all (repeat (dbox COPYb) n))) as (r & Er & Gr & Dr & Cr & Sr);
    [reflexivity|exact G|lia|].
  rewrite Er. cbn [bind]. eexists. split; [reflexivity|].
  assert (E : D n (2 * n) (dboxes r) (doffs r) = r).
  { destruct r as [rd rc rb ro]. cbn [ddom dcod dboxes doffs] in *. f_equal; lia. }
  rewrite E. split; [exact Gr|]. split; [lia|]. split; [exact Cr|].
  intros xs Hl. pose proof (Sr xs [] xs xs [] eq_refl eq_refl Hl Hl) as H.
  cbn [app] in H. rewrite !app_nil_r in H. apply H. apply copies_sem. exact Hl.
Qed.

Lemma copy_call_lemma : forall n xs, length xs = n ->
  exists d, dcopy n = Ok d /\ dcall d xs = Ok (untuplify (xs ++ xs)).
Proof.
  intros n xs Hl. destruct (copy_good n) as (d & E & G & Dd & _ & S).
  exists d. split; [exact E|]. rewrite dcall_good; [|exact G|lia]. rewrite (S xs Hl). reflexivity.
Qed.

(* naturality of copy holds for partial boxes too: both sides fail alike *)
Lemma copy_natural_lemma : forall f vals,
  good f ->
  exists cp1 cp2 lhs rhs,
    dcopy (dcod f) = Ok cp1 /\ dcopy (ddom f) = Ok cp2 /\
    dthen f cp1 = Ok lhs /\ dthen cp2 (dtensor f f) = Ok rhs /\
    dcall lhs vals = dcall rhs vals /\
    (length vals = ddom f -> forall out, dsem f vals = Ok out ->
       dcall lhs vals = Ok (untuplify (out ++ out))).
Proof.
  intros f vals Gf.
  destruct (copy_good (dcod f)) as (cp1 & E1 & G1 & D1 & C1 & S1).
  destruct (copy_good (ddom f)) as (cp2 & E2 & G2 & D2 & C2 & S2).
  destruct (good_then f cp1 Gf G1) as (lhs & El & Gl & Dl & Cl & Sl); [congruence|].
  destruct (good_then cp2 (dtensor f f) G2 (good_tensor f f Gf Gf)) as (rhs & Er & Gr & Dr & Cr & Sr);
    [rewrite C2; cbn [dtensor ddom]; lia|].
  exists cp1, cp2, lhs, rhs. repeat (split; [assumption|]).
  assert (Hsem : length vals = ddom f ->
    dsem lhs vals = (do s <- dsem f vals; Ok (s ++ s)) /\ dsem rhs vals = (do s <- dsem f vals; Ok (s ++ s))).
  { intro Hl. rewrite Sl, Sr. rewrite (S2 vals Hl). cbn [bind].
    rewrite (sem_tensor f f vals vals Gf Gf Hl Hl).
    destruct (dsem f vals) as [s|e] eqn:Es; cbn [bind]; [|split; reflexivity].
    rewrite (S1 s (sem_length f vals s Gf Hl Es)). split; reflexivity. }
  split.
  - apply dcall_same; [exact Gl|exact Gr|congruence|].
    intro Hl. rewrite Dl in Hl. destruct (Hsem Hl) as [A B]. congruence.
  - intros Hl out Eo. rewrite (dcall_good lhs vals Gl) by congruence.
    destruct (Hsem Hl) as [A _]. rewrite A, Eo. reflexivity.
Qed.

(* ------------------------------------------------------------------ the library and programs *)
Definition honest_ids : list Z := [0;1;2;3;4;5;6;7;8;9;10;11;12;13;14;15;16;17;18;19;20].
Definition honest_id (id : Z) : bool := existsb (Z.eqb id) honest_ids.
Definition total_id (id : Z) : bool := honest_id id && negb (id =? 20).

Ltac honest_tac :=
  eexists; split; [reflexivity|]; intros args r Hl Hr;
  repeat (destruct args as [|? args]; try discriminate);
  cbv in Hr; try discriminate; inversion Hr; subst; reflexivity.

Lemma lib_honest : forall id b, honest_id id = true -> lib_box id = Some b -> honest_box b.
Proof.
  intros id b Hid Hb. unfold honest_id, honest_ids in Hid. cbn [existsb] in Hid.
  repeat (apply orb_true_iff in Hid; destruct Hid as [Hid|Hid];
          [apply Z.eqb_eq in Hid; subst id; cbv in Hb; inversion Hb; subst b; clear Hb|]);
    try discriminate.
  - apply honest_COPY.
  - apply honest_SWAP.
  - apply honest_DISCARD.
  - honest_tac.
  - honest_tac.
  - honest_tac.
  - honest_tac.
  - honest_tac.
  - honest_tac.
  - honest_tac.
  - honest_tac.
  - honest_tac.
  - honest_tac.
  - honest_tac.
  - honest_tac.
  - honest_tac.
  - honest_tac.
  - honest_tac.
  - honest_tac.
  - honest_tac.
  - eexists; split; [reflexivity|]. intros args r Hl Hr.
    destruct args as [|x [|? ?]]; try discriminate.
    destruct x; cbv in Hr; try discriminate; inversion Hr; subst; reflexivity.
Qed.

Fixpoint prog_honest (p : dprog) : bool :=
  match p with
  | DBox id => honest_id id
  | DMk _ _ ids _ => forallb honest_id ids
  | DThen p q | DTensor p q => prog_honest p && prog_honest q
  | _ => true
  end.

Lemma mapM_get_box_honest : forall ids bs,
  forallb honest_id ids = true -> mapM get_box ids = Ok bs -> Forall honest_box bs.
Proof.
  induction ids as [|id ids IH]; intros bs Hh Hm.
  - cbn in Hm. inversion Hm. constructor.
  - cbn [forallb] in Hh. apply andb_true_iff in Hh. destruct Hh as [H1 H2].
    cbn [mapM] in Hm. unfold get_box at 1 in Hm.
    destruct (lib_box id) as [b|] eqn:Eb; [|discriminate]. cbn [bind] in Hm.
    destruct (mapM get_box ids) as [bs'|] eqn:Em; [|discriminate]. cbn [bind] in Hm.
    inversion Hm; subst bs. constructor; [exact (lib_honest id b H1 Eb)|apply IH; auto].
Qed.

Lemma mk_good : forall dom cod bs offs d,
  Forall honest_box bs -> mk dom cod bs offs = Ok d -> good d.
Proof.
  intros dom cod bs offs d Hb Hm. unfold mk in Hm.
  destruct (Nat.eqb (length bs) (length offs)) eqn:El; [|discriminate]. cbn [negb] in Hm.
  destruct (scan_layers dom (combine bs offs)) as [c|] eqn:Es; [|discriminate].
  destruct (Nat.eqb c cod) eqn:Ec; [|discriminate]. inversion Hm; subst d.
  apply Nat.eqb_eq in El. apply Nat.eqb_eq in Ec. subst c.
  split; [apply wf_intro; [exact El|exact Es]|exact Hb].
Qed.

(* every diagram the public API builds from honest library boxes is well-typed
   and honest: the hypotheses of the theorems are what real values satisfy *)
Lemma run_dprog_good : forall p v,
  prog_honest p = true -> run_dprog p = Ok v -> good (as_diagram v).
Proof.
  induction p as [n|id|dom cod ids offs|p IHp q IHq|p IHp q IHq|l r|n|n]; intros v Hh Hr;
    cbn [run_dprog] in Hr.
  - inversion Hr; subst. apply good_id.
  - unfold get_box in Hr. destruct (lib_box id) as [b|] eqn:Eb; [|discriminate].
    cbn [bind] in Hr. inversion Hr; subst. cbn [as_diagram]. apply good_box.
    exact (lib_honest id b Hh Eb).
  - destruct (mapM get_box ids) as [bs|] eqn:Em; [|discriminate]. cbn [bind] in Hr.
    destruct (mk (Z.to_nat dom) (Z.to_nat cod) bs offs) as [d|] eqn:Ed; [|discriminate].
    cbn [bind] in Hr. inversion Hr; subst. cbn [as_diagram].
    exact (mk_good _ _ _ _ _ (mapM_get_box_honest ids bs Hh Em) Ed).
  - cbn [prog_honest] in Hh. apply andb_true_iff in Hh. destruct Hh as [H1 H2].
    destruct (run_dprog p) as [a|] eqn:Ea; [|discriminate]. cbn [bind] in Hr.
    destruct (run_dprog q) as [b|] eqn:Eb; [|discriminate]. cbn [bind] in Hr.
    destruct (dthen (as_diagram a) (as_diagram b)) as [d|] eqn:Ed; [|discriminate].
    cbn [bind] in Hr. inversion Hr; subst. cbn [as_diagram].
    pose proof (IHp a H1 eq_refl) as Ga. pose proof (IHq b H2 eq_refl) as Gb.
    unfold dthen in Ed. destruct (Nat.eqb (dcod (as_diagram a)) (ddom (as_diagram b))) eqn:E; [|discriminate].
    apply Nat.eqb_eq in E.
    destruct (good_then _ _ Ga Gb E) as (c & Ec & Gc & _). unfold dthen in Ec.
    rewrite E, Nat.eqb_refl in Ec. congruence.
  - cbn [prog_honest] in Hh. apply andb_true_iff in Hh. destruct Hh as [H1 H2].
    destruct (run_dprog p) as [a|] eqn:Ea; [|discriminate]. cbn [bind] in Hr.
    destruct (run_dprog q) as [b|] eqn:Eb; [|discriminate]. cbn [bind] in Hr.
    inversion Hr; subst. cbn [as_diagram]. apply good_tensor; [apply IHp|apply IHq]; auto.
  - destruct (dswap (Z.to_nat l) (Z.to_nat r)) as [d|] eqn:Ed; [|discriminate].
    cbn [bind] in Hr. inversion Hr; subst. cbn [as_diagram].
    apply (swap_good _ _ _ Ed).
  - destruct (dcopy (Z.to_nat n)) as [d|] eqn:Ed; [|discriminate].
    cbn [bind] in Hr. inversion Hr; subst. cbn [as_diagram].
    destruct (copy_good (Z.to_nat n)) as (d' & E' & G' & _). congruence.
  - inversion Hr; subst. cbn [as_diagram]. apply (discard_good (Z.to_nat n)).
Qed.

(* ------------------------------------------------------------------ non-vacuity *)
(* COPY @ c7 >> Id(1) @ ADD, with a zero-input box at offset 1: well-typed,
   honest, and it computes *)
Definition ex_prog : dprog :=
  DThen (DTensor (DBox 0) (DBox 6)) (DMk 3 2 [3] [1]).

Example ex_good : exists v, run_dprog ex_prog = Ok v /\ prog_honest ex_prog = true /\
  good (as_diagram v) /\ vcall v [5] = Ok (Tup [5; 12]) /\ dsem (as_diagram v) [5] = Ok [5; 12].
Proof.
  eexists. split; [vm_compute; reflexivity|]. split; [reflexivity|].
  split; [apply (run_dprog_good ex_prog); reflexivity|]. split; vm_compute; reflexivity.
Qed.

Example ex_arity0 : (* zero-input and zero-output boxes, one-tuple returns *)
  exists v, run_dprog (DTensor (DBox 7) (DThen (DBox 15) (DBox 11))) = Ok v /\
    good (as_diagram v) /\ vcall v [] = Ok (Atom (-3)).
Proof.
  eexists. split; [vm_compute; reflexivity|].
  split; [apply (run_dprog_good (DTensor (DBox 7) (DThen (DBox 15) (DBox 11)))); reflexivity|].
  vm_compute. reflexivity.
Qed.

Example ex_whole : exists s c, dswap 2 3 = Ok s /\ dcopy 3 = Ok c /\
  dcall s [0;1;2;3;4] = Ok (Tup [2;3;4;0;1]) /\ dcall c [0;1;2] = Ok (Tup [0;1;2;0;1;2]) /\
  dcall (ddiscard 1) [4] = Ok (Tup []) /\ doffs c = [0;2;4;1;3;2].
Proof. do 2 eexists. repeat split; vm_compute; reflexivity. Qed.

Example ex_total : total (as_diagram (VBox ADDb)) /\ good (dbox ADDb).
Proof.
  split.
  - constructor; [|constructor]. intros args Hl.
    destruct args as [|x [|y [|? ?]]]; try discriminate. eexists. reflexivity.
  - apply good_box. apply (lib_honest 3 ADDb); reflexivity.
Qed.

Example ex_dishonest : (* the checked theorem also covers boxes that lie about their arity *)
  exists d, mk 1 1 [Box 21 1 2 (Some (f1 (fun x => Atom x))); ADDb] [0; 0] = Ok d /\
    wf_diagram d = true /\ dcall d [3] = Err TypeError.
Proof. eexists. repeat split; vm_compute; reflexivity. Qed.
