(* Multi-wire cups / caps of the Tensor model (Tensor/Tensor.v) and the snake
   equations for every type.

   - `tcups_spec` / `tcaps_spec`: closed form of the entries of
     `tcups x (rev x)` and `tcaps x (rev x)` for EVERY list of dimensions x
     (empty, repeated, unequal, any length; also dimensions 0 and 1, which
     `Dim` never produces but the model does not exclude): the entry at
     (a ++ b) is 1 when a = rev b and 0 otherwise.  Proved by an induction over
     the loop of rigid.cups (`cups_loop`) with the invariant `cups_inv`.
   - `snake_left_full` / `snake_right_full`: the statements `snake_left_stmt` /
     `snake_right_stmt` of Tensor/TensorLemmas.v, with no extra hypothesis. *)
From Coq Require Import List ZArith Bool Arith Lia Ring.
Import ListNotations.
Require Import DV.Common.Base DV.Tensor.NumpyModel DV.Tensor.NumpyLemmas DV.Tensor.Tensor
  DV.Tensor.TensorLemmas.
Open Scope nat_scope.

(* ------------------------------------------------------------------ index lists *)
Lemma in_shape_rev : forall i s, in_shape i s -> in_shape (rev i) (rev s).
Proof.
  intros i s H. unfold in_shape in *. induction H as [|a d i' s' Hlt Hrest IH]; cbn [rev].
  - constructor.
  - apply Forall2_app; [exact IH|]. constructor; [exact Hlt | constructor].
Qed.

Lemma in_shape_cons_inv : forall a d s, in_shape a (d :: s) ->
  exists a0 a', a = a0 :: a' /\ a0 < d /\ in_shape a' s.
Proof.
  intros a d s H. unfold in_shape in H.
  inversion H as [|a0 d' a' s' Hlt Hrest]; subst. exists a0, a'. auto.
Qed.

Lemma in_shape_single_inv : forall v d, in_shape v [d] -> exists v0, v = [v0] /\ v0 < d.
Proof.
  intros v d H. destruct (in_shape_cons_inv _ _ _ H) as (v0 & v' & -> & Hlt & Hn).
  apply in_shape_nil in Hn. subst v'. exists v0. auto.
Qed.

Lemma nat_list_eqb_cons : forall a l b m,
  nat_list_eqb (a :: l) (b :: m) = (a =? b) && nat_list_eqb l m.
Proof. reflexivity. Qed.

Lemma nat_list_eqb_of_iff : forall a b c d, (a = b <-> c = d) ->
  nat_list_eqb a b = nat_list_eqb c d.
Proof.
  intros a b c d H.
  destruct (nat_list_eqb a b) eqn:E1, (nat_list_eqb c d) eqn:E2; try reflexivity.
  - apply list_eqb_nat_eq in E1. apply H in E1. apply list_eqb_nat_eq in E1. congruence.
  - apply list_eqb_nat_eq in E2. apply H in E2. apply list_eqb_nat_eq in E2. congruence.
Qed.

Lemma nat_list_eqb_rev_r : forall a b, nat_list_eqb a (rev b) = nat_list_eqb (rev a) b.
Proof.
  intros. apply nat_list_eqb_of_iff. split; intro H.
  - subst a. apply rev_involutive.
  - subst b. symmetry. apply rev_involutive.
Qed.

Lemma nat_list_eqb_rev_rev : forall a b, nat_list_eqb (rev a) (rev b) = nat_list_eqb a b.
Proof. intros. rewrite <- nat_list_eqb_rev_r, rev_involutive. reflexivity. Qed.

Lemma cconj_delta : forall b, cconj (delta b) = delta b.
Proof. intros []; reflexivity. Qed.

(* ------------------------------------------------------------------ one layer of rigid.cups *)
(* id(A) @ cup(d, d) @ id(B), built exactly as cups_step builds it *)
Lemma cup_layer_spec : forall A d B,
  exists idl cup idL x idR layer,
    tid [d] = Ok idl /\ mk_tensor ([d] ++ [d]) [] (tarr idl) = Ok cup /\
    tid A = Ok idL /\ ttensor idL cup = Ok x /\ tid B = Ok idR /\ ttensor x idR = Ok layer /\
    tok layer /\ tdom layer = (A ++ [d] ++ [d]) ++ B /\ tcod layer = A ++ B /\
    forall c1 u v c2 c1' c2',
      in_shape c1 A -> in_shape u [d] -> in_shape v [d] -> in_shape c2 B ->
      in_shape c1' A -> in_shape c2' B ->
      entry layer ((c1 ++ u ++ v) ++ c2) (c1' ++ c2') =
        cmul (cmul (delta (nat_list_eqb c1 c1')) (delta (nat_list_eqb u v)))
             (delta (nat_list_eqb c2 c2')).
Proof.
  intros A d B.
  destruct (tid_spec [d]) as (idl & Eidl & Tidl & Didl & Cidl & Hidl).
  assert (Lcup : length (data (tarr idl)) = size (([d] ++ [d]) ++ [])).
  { destruct Tidl as [_ L]. rewrite L, Didl, Cidl, app_nil_r. reflexivity. }
  pose (cup := mkT ([d] ++ [d]) [] (mkArr (shape_of ([d] ++ [d]) []) (data (tarr idl)))).
  assert (Ecup : mk_tensor ([d] ++ [d]) [] (tarr idl) = Ok cup)
    by (unfold cup; apply mk_tensor_ok; exact Lcup).
  assert (Tcup : tok cup) by (unfold cup; apply tok_mk; exact Lcup).
  assert (Hcup : forall u v, in_shape u [d] -> in_shape v [d] ->
            entry cup (u ++ v) [] = delta (nat_list_eqb u v)).
  { intros u v Hu Hv. replace (entry cup (u ++ v) []) with (entry idl u v).
    - rewrite Hidl by assumption. rewrite list_eqb_ravel by assumption. reflexivity.
    - unfold entry. cbn [tdom tcod tarr cup data]. rewrite Didl, Cidl, !app_nil_r. reflexivity. }
  destruct (tid_spec A) as (idL & EidL & TidL & DidL & CidL & HidL).
  destruct (tid_spec B) as (idR & EidR & TidR & DidR & CidR & HidR).
  destruct (ttensor_spec idL cup TidL Tcup) as (x & Ex & Tx & Dx & Cx & Hx).
  destruct (ttensor_spec x idR Tx TidR) as (layer & El & Tl & Dl & Cl & Hl).
  exists idl, cup, idL, x, idR, layer.
  split; [exact Eidl|]. split; [exact Ecup|]. split; [exact EidL|]. split; [exact Ex|].
  split; [exact EidR|]. split; [exact El|]. split; [exact Tl|].
  split; [rewrite Dl, Dx, DidL, DidR; reflexivity|].
  split; [rewrite Cl, Cx, CidL, CidR; cbn [tcod cup]; rewrite app_nil_r; reflexivity|].
  intros c1 u v c2 c1' c2' Hc1 Hu Hv Hc2 Hc1' Hc2'.
  assert (Huv : in_shape (u ++ v) (tdom cup))
    by (apply (in_shape_app u [d] v [d]); assumption).
  replace (c1' ++ c2') with ((c1' ++ []) ++ c2') by (rewrite app_nil_r; reflexivity).
  rewrite Hl.
  2:{ rewrite Dx, DidL. apply in_shape_app; assumption. }
  2:{ rewrite DidR. exact Hc2. }
  2:{ rewrite Cx, CidL. apply in_shape_app; [exact Hc1' | constructor]. }
  2:{ rewrite CidR. exact Hc2'. }
  rewrite Hx.
  2:{ rewrite DidL. exact Hc1. } 2:{ exact Huv. }
  2:{ rewrite CidL. exact Hc1'. } 2:{ constructor. }
  rewrite HidL, Hcup, HidR by assumption.
  rewrite !list_eqb_ravel by assumption. reflexivity.
Qed.

(* ------------------------------------------------------------------ the loop invariant of rigid.cups *)
(* left = L ++ M, right = rev M ++ rev L: the wires of M (innermost) have been
   connected to those of rev M, the wires of L and rev L are still open *)
Definition cups_inv (left right L M : list nat) (r : tensor) : Prop :=
  tok r /\ tdom r = left ++ right /\ tcod r = L ++ rev L /\
  forall aL aM bM bL cL cR,
    in_shape aL L -> in_shape aM M -> in_shape bM (rev M) -> in_shape bL (rev L) ->
    in_shape cL L -> in_shape cR (rev L) ->
    entry r ((aL ++ aM) ++ (bM ++ bL)) (cL ++ cR) =
      cmul (delta (nat_list_eqb aM (rev bM))) (delta (nat_list_eqb (aL ++ bL) (cL ++ cR))).

Lemma cups_step_inv : forall left right L d M r,
  left = L ++ d :: M -> right = rev M ++ d :: rev L ->
  cups_inv left right (L ++ [d]) M r ->
  exists r', cups_step left right r (length M) = Ok r' /\ cups_inv left right L (d :: M) r'.
Proof.
  intros left right L d M r El Er (Tr & Dr & Cr & Hr).
  destruct (cup_layer_spec L d (rev L))
    as (idl & cup & idL & x & idR & layer & Eidl & Ecup & EidL & Ex & EidR & Elayer &
        Tl & Dl & Cl & Hl).
  assert (ErevLd : rev (L ++ [d]) = d :: rev L) by (rewrite rev_app_distr; reflexivity).
  assert (Ecomp : tcod r = tdom layer).
  { rewrite Cr, Dl, ErevLd. rewrite <- !app_assoc. reflexivity. }
  destruct (tthen_spec r layer Tr Tl Ecomp) as (r' & Er' & Tr' & Dr' & Cr' & Hr').
  exists r'. split.
  - unfold cups_step. rewrite El, Er.
    replace (length (L ++ d :: M) - length M - 1) with (length L)
      by (rewrite app_length; cbn [length]; lia).
    rewrite (skipn_app_exact L (d :: M)) by reflexivity.
    rewrite (firstn_app_exact L (d :: M)) by reflexivity.
    rewrite (skipn_app_exact (rev M) (d :: rev L)) by apply rev_length.
    cbn [firstn].
    replace (rev M ++ d :: rev L) with ((rev M ++ [d]) ++ rev L)
      by (rewrite <- app_assoc; reflexivity).
    rewrite (skipn_app_exact (rev M ++ [d]) (rev L))
      by (rewrite app_length, rev_length; reflexivity).
    rewrite Eidl. cbn [bind]. rewrite Ecup. cbn [bind]. rewrite EidL. cbn [bind].
    rewrite Ex. cbn [bind]. rewrite EidR. cbn [bind]. rewrite Elayer. cbn [bind].
    exact Er'.
  - split; [exact Tr'|]. split; [rewrite Dr'; exact Dr|]. split; [rewrite Cr'; exact Cl|].
    intros aL aM bM bL cL cR HaL HaM HbM HbL HcL HcR.
    assert (Hi : in_shape ((aL ++ aM) ++ (bM ++ bL)) (tdom r)).
    { rewrite Dr, El, Er.
      replace (rev M ++ d :: rev L) with (rev (d :: M) ++ rev L)
        by (cbn [rev]; rewrite <- app_assoc; reflexivity).
      apply in_shape_app; apply in_shape_app; assumption. }
    assert (Hj : in_shape (cL ++ cR) (tcod layer))
      by (rewrite Cl; apply in_shape_app; assumption).
    rewrite Hr' by assumption. rewrite Cr.
    destruct (in_shape_cons_inv _ _ _ HaM) as (u0 & aM' & -> & Hu0 & HaM').
    cbn [rev] in HbM. apply in_shape_app_inv in HbM.
    destruct HbM as (bM' & v & -> & HbM' & Hv).
    destruct (in_shape_single_inv _ _ Hv) as (v0 & -> & Hv0).
    assert (HaLu : in_shape (aL ++ [u0]) (L ++ [d]))
      by (apply in_shape_app; [exact HaL | constructor; [exact Hu0 | constructor]]).
    assert (Hvb : in_shape ([v0] ++ bL) (rev (L ++ [d])))
      by (rewrite ErevLd; constructor; [exact Hv0 | exact HbL]).
    rewrite (csum_ext _ (fun k =>
               cmul (delta (nat_list_eqb ((aL ++ [u0]) ++ ([v0] ++ bL)) k))
                    (cmul (delta (nat_list_eqb aM' (rev bM'))) (entry layer k (cL ++ cR))))).
    2:{ intros k Hk. apply indices_in_shape in Hk. apply in_shape_app_inv in Hk.
        destruct Hk as (kL & kR & -> & HkL & HkR).
        replace ((aL ++ u0 :: aM') ++ (bM' ++ [v0]) ++ bL)
          with (((aL ++ [u0]) ++ aM') ++ (bM' ++ ([v0] ++ bL)))
          by (rewrite <- !app_assoc; reflexivity).
        rewrite Hr by assumption. ring. }
    rewrite (sum_delta ((L ++ [d]) ++ rev (L ++ [d])) ((aL ++ [u0]) ++ ([v0] ++ bL))
               (fun k => cmul (delta (nat_list_eqb aM' (rev bM'))) (entry layer k (cL ++ cR))))
      by (apply in_shape_app; assumption).
    replace ((aL ++ [u0]) ++ [v0] ++ bL) with ((aL ++ [u0] ++ [v0]) ++ bL)
      by (rewrite <- !app_assoc; reflexivity).
    rewrite Hl; try assumption; try (constructor; [assumption | constructor]).
    rewrite rev_app_distr. cbn [rev app].
    rewrite !nat_list_eqb_cons.
    rewrite (nat_list_eqb_app aL cL bL cR)
      by (rewrite (in_shape_length _ _ HaL); symmetry; apply in_shape_length; exact HcL).
    change (nat_list_eqb [] []) with true. rewrite andb_true_r.
    rewrite !delta_and. ring.
Qed.

Lemma cups_loop_inv : forall left right L M r,
  left = L ++ M -> right = rev M ++ rev L ->
  cups_inv left right L M r ->
  exists r', cups_loop left right r (seq (length M) (length L)) = Ok r' /\
             cups_inv left right [] left r'.
Proof.
  intros left right L. induction L as [|d L IH] using rev_ind; intros M r El Er Hinv.
  - cbn [length seq cups_loop]. exists r. split; [reflexivity|].
    cbn [app] in El. rewrite El. rewrite <- El at 1. exact Hinv.
  - assert (El' : left = L ++ d :: M) by (rewrite El, <- app_assoc; reflexivity).
    assert (Er' : right = rev M ++ d :: rev L) by (rewrite Er, rev_app_distr; reflexivity).
    destruct (cups_step_inv left right L d M r El' Er' Hinv) as (r1 & E1 & Hinv1).
    rewrite app_length. cbn [length]. rewrite Nat.add_1_r. cbn [seq cups_loop].
    rewrite E1. cbn [bind].
    apply (IH (d :: M) r1).
    + exact El'.
    + cbn [rev]. rewrite <- app_assoc. exact Er'.
    + exact Hinv1.
Qed.

(* ------------------------------------------------------------------ closed form of multi-wire cups and caps *)
Lemma tcups_spec : forall x,
  exists c, tcups x (rev x) = Ok c /\ tok c /\ tdom c = x ++ rev x /\ tcod c = [] /\
    forall a b, in_shape a x -> in_shape b (rev x) ->
      entry c (a ++ b) [] = delta (nat_list_eqb a (rev b)).
Proof.
  intros x. unfold tcups. rewrite list_eqb_nat_refl. cbn [negb andb].
  destruct (tid_spec (x ++ rev x)) as (r0 & Er0 & Tr0 & Dr0 & Cr0 & Hr0).
  rewrite Er0. cbn [bind].
  assert (Hinv0 : cups_inv x (rev x) x [] r0).
  { split; [exact Tr0|]. split; [exact Dr0|]. split; [exact Cr0|].
    intros aL aM bM bL cL cR HaL HaM HbM HbL HcL HcR.
    apply in_shape_nil in HaM. cbn [rev] in HbM. apply in_shape_nil in HbM. subst aM bM.
    rewrite app_nil_r. cbn [app rev].
    rewrite Hr0 by (apply in_shape_app; assumption).
    rewrite list_eqb_ravel by (apply in_shape_app; assumption).
    change (nat_list_eqb [] []) with true. cbn [delta]. ring. }
  destruct (cups_loop_inv x (rev x) x [] r0) as (c & Ec & Tc & Dc & Cc & Hc).
  - rewrite app_nil_r. reflexivity.
  - reflexivity.
  - exact Hinv0.
  - exists c. split; [exact Ec|]. split; [exact Tc|]. split; [exact Dc|]. split; [exact Cc|].
    intros a b Ha Hb.
    pose proof (Hc [] a b [] [] []) as H. cbn [app rev] in H. rewrite app_nil_r in H.
    rewrite H by (assumption || constructor).
    change (nat_list_eqb [] []) with true. cbn [delta]. ring.
Qed.

(* the same with the roles of the two arguments exchanged: cups(x.r, x) *)
Lemma tcups_spec_rev : forall x,
  exists c, tcups (rev x) x = Ok c /\ tok c /\ tdom c = rev x ++ x /\ tcod c = [] /\
    forall a b, in_shape a (rev x) -> in_shape b x ->
      entry c (a ++ b) [] = delta (nat_list_eqb a (rev b)).
Proof.
  intros x. pose proof (tcups_spec (rev x)) as H. rewrite rev_involutive in H. exact H.
Qed.

Lemma tcaps_of_cups : forall l r cu, tcups l r = Ok cu -> tok cu ->
  tdom cu = l ++ r -> tcod cu = [] ->
  (forall a b, in_shape a l -> in_shape b r ->
     entry cu (a ++ b) [] = delta (nat_list_eqb a (rev b))) ->
  exists c, tcaps l r = Ok c /\ tok c /\ tdom c = [] /\ tcod c = l ++ r /\
    forall a b, in_shape a l -> in_shape b r ->
      entry c [] (a ++ b) = delta (nat_list_eqb a (rev b)).
Proof.
  intros l r cu Ecu Tcu Dcu Ccu Hcu. unfold tcaps. rewrite Ecu. cbn [bind].
  destruct (tdagger_spec cu Tcu) as (c & Ec & Tc & Dc & Cc & Hc).
  exists c. split; [exact Ec|]. split; [exact Tc|].
  split; [congruence|]. split; [congruence|].
  intros a b Ha Hb.
  rewrite Hc; [| rewrite Dcu; apply in_shape_app; assumption | rewrite Ccu; constructor].
  rewrite Hcu by assumption. apply cconj_delta.
Qed.

Lemma tcaps_spec : forall x,
  exists c, tcaps x (rev x) = Ok c /\ tok c /\ tdom c = [] /\ tcod c = x ++ rev x /\
    forall a b, in_shape a x -> in_shape b (rev x) ->
      entry c [] (a ++ b) = delta (nat_list_eqb a (rev b)).
Proof.
  intros x. destruct (tcups_spec x) as (cu & Ecu & Tcu & Dcu & Ccu & Hcu).
  exact (tcaps_of_cups x (rev x) cu Ecu Tcu Dcu Ccu Hcu).
Qed.

Lemma tcaps_spec_rev : forall x,
  exists c, tcaps (rev x) x = Ok c /\ tok c /\ tdom c = [] /\ tcod c = rev x ++ x /\
    forall a b, in_shape a (rev x) -> in_shape b x ->
      entry c [] (a ++ b) = delta (nat_list_eqb a (rev b)).
Proof.
  intros x. destruct (tcups_spec_rev x) as (cu & Ecu & Tcu & Dcu & Ccu & Hcu).
  exact (tcaps_of_cups (rev x) x cu Ecu Tcu Dcu Ccu Hcu).
Qed.

(* ------------------------------------------------------------------ sums of Kronecker deltas over three blocks of wires *)
Definition sum3 (s1 s2 s3 : list nat) (T : list nat -> list nat -> list nat -> C) : C :=
  csum (map (fun k1 => csum (map (fun k2 => csum (map (fun k3 => T k1 k2 k3)
     (indices s3))) (indices s2))) (indices s1)).

Lemma csum_indices_3 : forall s1 s2 s3 (F : list nat -> C),
  csum (map F (indices (s1 ++ s2 ++ s3))) = sum3 s1 s2 s3 (fun k1 k2 k3 => F (k1 ++ k2 ++ k3)).
Proof.
  intros. unfold sum3. rewrite csum_indices_app.
  apply csum_ext. intros k1 _. rewrite csum_indices_app. reflexivity.
Qed.

Lemma sum3_ext : forall s1 s2 s3 T T',
  (forall k1 k2 k3, in_shape k1 s1 -> in_shape k2 s2 -> in_shape k3 s3 ->
     T k1 k2 k3 = T' k1 k2 k3) ->
  sum3 s1 s2 s3 T = sum3 s1 s2 s3 T'.
Proof.
  intros s1 s2 s3 T T' H. unfold sum3.
  apply csum_ext. intros k1 H1. apply csum_ext. intros k2 H2. apply csum_ext. intros k3 H3.
  apply H; apply indices_in_shape; assumption.
Qed.

(* id(x) (x) cap(x.r, x)  >>  cup(x, x.r) (x) id(x) *)
Lemma snake_sum_left : forall x i j, in_shape i x ->
  sum3 x (rev x) x (fun k1 k2 k3 =>
     cmul (cmul (delta (nat_list_eqb i k1)) (delta (nat_list_eqb k2 (rev k3))))
          (cmul (delta (nat_list_eqb k1 (rev k2))) (delta (nat_list_eqb k3 j))))
  = delta (nat_list_eqb i j).
Proof.
  intros x i j Hi. unfold sum3.
  rewrite (csum_ext _ (fun k1 => cmul (delta (nat_list_eqb i k1)) (delta (nat_list_eqb k1 j)))).
  - apply (sum_delta x i (fun k1 => delta (nat_list_eqb k1 j)) Hi).
  - intros k1 Hk1. apply indices_in_shape in Hk1.
    assert (Hrk1 : in_shape (rev k1) (rev x)) by (apply in_shape_rev; exact Hk1).
    rewrite (csum_ext _ (fun k2 => cmul (delta (nat_list_eqb (rev k1) k2))
                (cmul (delta (nat_list_eqb i k1)) (delta (nat_list_eqb (rev k2) j))))).
    + rewrite (sum_delta (rev x) (rev k1)
                 (fun k2 => cmul (delta (nat_list_eqb i k1)) (delta (nat_list_eqb (rev k2) j)))
                 Hrk1).
      rewrite rev_involutive. reflexivity.
    + intros k2 Hk2. apply indices_in_shape in Hk2.
      assert (Hrk2 : in_shape (rev k2) x).
      { apply in_shape_rev in Hk2. rewrite rev_involutive in Hk2. exact Hk2. }
      rewrite (csum_ext _ (fun k3 => cmul (delta (nat_list_eqb (rev k2) k3))
                 (cmul (cmul (delta (nat_list_eqb i k1)) (delta (nat_list_eqb k1 (rev k2))))
                       (delta (nat_list_eqb k3 j))))).
      * rewrite (sum_delta x (rev k2)
                   (fun k3 => cmul (cmul (delta (nat_list_eqb i k1))
                                         (delta (nat_list_eqb k1 (rev k2))))
                                   (delta (nat_list_eqb k3 j))) Hrk2).
        rewrite (nat_list_eqb_rev_r k1 k2). ring.
      * intros k3 _. rewrite (nat_list_eqb_rev_r k2 k3). ring.
Qed.

(* cap(x, x.r) (x) id(x)  >>  id(x) (x) cup(x.r, x) *)
Lemma snake_sum_right : forall x i j, in_shape i x ->
  sum3 x (rev x) x (fun k1 k2 k3 =>
     cmul (cmul (delta (nat_list_eqb k1 (rev k2))) (delta (nat_list_eqb i k3)))
          (cmul (delta (nat_list_eqb k1 j)) (delta (nat_list_eqb k2 (rev k3)))))
  = delta (nat_list_eqb i j).
Proof.
  intros x i j Hi. unfold sum3.
  assert (Hri : in_shape (rev i) (rev x)) by (apply in_shape_rev; exact Hi).
  rewrite (csum_ext _ (fun k1 => cmul (delta (nat_list_eqb i k1)) (delta (nat_list_eqb k1 j)))).
  - apply (sum_delta x i (fun k1 => delta (nat_list_eqb k1 j)) Hi).
  - intros k1 Hk1. apply indices_in_shape in Hk1.
    rewrite (csum_ext _ (fun k2 => cmul (delta (nat_list_eqb (rev i) k2))
                (cmul (delta (nat_list_eqb k1 (rev k2))) (delta (nat_list_eqb k1 j))))).
    + rewrite (sum_delta (rev x) (rev i)
                 (fun k2 => cmul (delta (nat_list_eqb k1 (rev k2))) (delta (nat_list_eqb k1 j)))
                 Hri).
      rewrite rev_involutive. rewrite (nat_list_eqb_sym k1 i). reflexivity.
    + intros k2 Hk2. apply indices_in_shape in Hk2.
      rewrite (csum_ext _ (fun k3 => cmul (delta (nat_list_eqb i k3))
                 (cmul (delta (nat_list_eqb k1 (rev k2)))
                       (cmul (delta (nat_list_eqb k1 j)) (delta (nat_list_eqb k2 (rev k3))))))).
      * rewrite (sum_delta x i
                   (fun k3 => cmul (delta (nat_list_eqb k1 (rev k2)))
                                (cmul (delta (nat_list_eqb k1 j))
                                      (delta (nat_list_eqb k2 (rev k3))))) Hi).
        rewrite (nat_list_eqb_sym k2 (rev i)). ring.
      * intros k3 _. ring.
Qed.

(* ------------------------------------------------------------------ both snake equations, every type *)
Theorem snake_left_full : snake_left_stmt.
Proof.
  intros x. unfold snake_left_prog.
  destruct (tid_spec x) as (idd & Eid & Tid & Did & Cid & Hid).
  destruct (tcaps_spec_rev x) as (cap & Ecap & Tcap & Dcap & Ccap & Hcap).
  destruct (tcups_spec x) as (cup & Ecup & Tcup & Dcup & Ccup & Hcup).
  destruct (ttensor_spec idd cap Tid Tcap) as (a & Ea & Ta & Da & Ca & Ha).
  destruct (ttensor_spec cup idd Tcup Tid) as (b & Eb & Tb & Db & Cb & Hb).
  assert (Ecomp : tcod a = tdom b)
    by (rewrite Ca, Db, Cid, Ccap, Dcup, Did; apply app_assoc).
  destruct (tthen_spec a b Ta Tb Ecomp) as (t & Et & Tt & Dt & Ct & Ht).
  exists t. rewrite Eid, Ecap, Ecup. cbn [bind]. rewrite Ea, Eb. cbn [bind].
  split; [exact Et|]. f_equal. symmetry.
  apply tensor_ext; try assumption.
  - rewrite Dt, Da, Did, Dcap. apply app_nil_r.
  - rewrite Ct, Cb, Cid, Ccup. reflexivity.
  - intros i j Hi Hj. rewrite Dt, Da, Did, Dcap, app_nil_r in Hi.
    rewrite Ct, Cb, Cid, Ccup in Hj. cbn [app] in Hj.
    rewrite Ht; [| rewrite Da, Did, Dcap, app_nil_r; exact Hi | rewrite Cb, Cid, Ccup; exact Hj].
    rewrite Ca, Cid, Ccap. rewrite csum_indices_3.
    rewrite (sum3_ext x (rev x) x _ (fun k1 k2 k3 =>
       cmul (cmul (delta (nat_list_eqb i k1)) (delta (nat_list_eqb k2 (rev k3))))
            (cmul (delta (nat_list_eqb k1 (rev k2))) (delta (nat_list_eqb k3 j))))).
    + rewrite (snake_sum_left x i j Hi).
      rewrite Hid by assumption. rewrite list_eqb_ravel by assumption. reflexivity.
    + intros k1 k2 k3 Hk1 Hk2 Hk3.
      assert (H23 : in_shape (k2 ++ k3) (rev x ++ x)) by (apply in_shape_app; assumption).
      assert (H12 : in_shape (k1 ++ k2) (x ++ rev x)) by (apply in_shape_app; assumption).
      replace (entry a i (k1 ++ k2 ++ k3)) with (entry a (i ++ []) (k1 ++ k2 ++ k3))
        by (rewrite app_nil_r; reflexivity).
      rewrite Ha.
      2:{ rewrite Did; exact Hi. } 2:{ rewrite Dcap; constructor. }
      2:{ rewrite Cid; exact Hk1. } 2:{ rewrite Ccap; exact H23. }
      rewrite app_assoc.
      replace (entry b ((k1 ++ k2) ++ k3) j) with (entry b ((k1 ++ k2) ++ k3) ([] ++ j))
        by reflexivity.
      rewrite Hb.
      2:{ rewrite Dcup; exact H12. } 2:{ rewrite Did; exact Hk3. }
      2:{ rewrite Ccup; constructor. } 2:{ rewrite Cid; exact Hj. }
      rewrite (Hid i k1), (Hid k3 j), Hcap, Hcup by assumption.
      rewrite !list_eqb_ravel by assumption. reflexivity.
Qed.

Theorem snake_right_full : snake_right_stmt.
Proof.
  intros x. unfold snake_right_prog.
  destruct (tid_spec x) as (idd & Eid & Tid & Did & Cid & Hid).
  destruct (tcaps_spec x) as (cap & Ecap & Tcap & Dcap & Ccap & Hcap).
  destruct (tcups_spec_rev x) as (cup & Ecup & Tcup & Dcup & Ccup & Hcup).
  destruct (ttensor_spec cap idd Tcap Tid) as (a & Ea & Ta & Da & Ca & Ha).
  destruct (ttensor_spec idd cup Tid Tcup) as (b & Eb & Tb & Db & Cb & Hb).
  assert (Ecomp : tcod a = tdom b)
    by (rewrite Ca, Db, Cid, Ccap, Dcup, Did; symmetry; apply app_assoc).
  destruct (tthen_spec a b Ta Tb Ecomp) as (t & Et & Tt & Dt & Ct & Ht).
  exists t. rewrite Eid, Ecap, Ecup. cbn [bind]. rewrite Ea, Eb. cbn [bind].
  split; [exact Et|]. f_equal. symmetry.
  apply tensor_ext; try assumption.
  - rewrite Dt, Da, Did, Dcap. reflexivity.
  - rewrite Ct, Cb, Cid, Ccup. apply app_nil_r.
  - intros i j Hi Hj. rewrite Dt, Da, Did, Dcap in Hi. cbn [app] in Hi.
    rewrite Ct, Cb, Cid, Ccup, app_nil_r in Hj.
    rewrite Ht; [| rewrite Da, Did, Dcap; exact Hi | rewrite Cb, Cid, Ccup, app_nil_r; exact Hj].
    rewrite Ca, Cid, Ccap. rewrite <- app_assoc. rewrite csum_indices_3.
    rewrite (sum3_ext x (rev x) x _ (fun k1 k2 k3 =>
       cmul (cmul (delta (nat_list_eqb k1 (rev k2))) (delta (nat_list_eqb i k3)))
            (cmul (delta (nat_list_eqb k1 j)) (delta (nat_list_eqb k2 (rev k3)))))).
    + rewrite (snake_sum_right x i j Hi).
      rewrite Hid by assumption. rewrite list_eqb_ravel by assumption. reflexivity.
    + intros k1 k2 k3 Hk1 Hk2 Hk3.
      assert (H23 : in_shape (k2 ++ k3) (rev x ++ x)) by (apply in_shape_app; assumption).
      assert (H12 : in_shape (k1 ++ k2) (x ++ rev x)) by (apply in_shape_app; assumption).
      replace (entry b (k1 ++ k2 ++ k3) j) with (entry b (k1 ++ k2 ++ k3) (j ++ []))
        by (rewrite app_nil_r; reflexivity).
      rewrite Hb.
      2:{ rewrite Did; exact Hk1. } 2:{ rewrite Dcup; exact H23. }
      2:{ rewrite Cid; exact Hj. } 2:{ rewrite Ccup; constructor. }
      rewrite app_assoc.
      replace (entry a i ((k1 ++ k2) ++ k3)) with (entry a ([] ++ i) ((k1 ++ k2) ++ k3))
        by reflexivity.
      rewrite Ha.
      2:{ rewrite Dcap; constructor. } 2:{ rewrite Did; exact Hi. }
      2:{ rewrite Ccap; exact H12. } 2:{ rewrite Cid; exact Hk3. }
      rewrite (Hid i k3), (Hid k1 j), Hcap, Hcup by assumption.
      rewrite !list_eqb_ravel by assumption. reflexivity.
Qed.

(* ------------------------------------------------------------------ statements in boolean-hypothesis form (used by Props/C08.v; C09 wants the entries of multi-wire cups too) *)
(* cups(l, r) for EVERY adjoint pair r = l.r (together with cups_refuses_b this
   characterises tcups completely): it succeeds, and the entry at (a ++ b) is
   1 exactly when a is the reversal of b -- wire k of l is connected to wire
   len(l) - 1 - k of r (nested cups) *)
Lemma tcups_entry : forall l r, rev l = r ->
  exists c, tcups l r = Ok c /\ tensor_ok c = true /\ tdom c = l ++ r /\ tcod c = [] /\
    forall a b, in_shapeb a l = true -> in_shapeb b r = true ->
      entry c (a ++ b) [] = delta (nat_list_eqb a (rev b)).
Proof.
  intros l r E. subst r. destruct (tcups_spec l) as (c & Ec & Tc & Dc & Cc & Hc).
  exists c. split; [exact Ec|]. split; [apply tensor_ok_iff; exact Tc|].
  split; [exact Dc|]. split; [exact Cc|].
  intros a b Ha Hb. apply in_shapeb_iff in Ha, Hb. apply Hc; assumption.
Qed.

Lemma tcaps_entry : forall l r, rev l = r ->
  exists c, tcaps l r = Ok c /\ tensor_ok c = true /\ tdom c = [] /\ tcod c = l ++ r /\
    forall a b, in_shapeb a l = true -> in_shapeb b r = true ->
      entry c [] (a ++ b) = delta (nat_list_eqb a (rev b)).
Proof.
  intros l r E. subst r. destruct (tcaps_spec l) as (c & Ec & Tc & Dc & Cc & Hc).
  exists c. split; [exact Ec|]. split; [apply tensor_ok_iff; exact Tc|].
  split; [exact Dc|]. split; [exact Cc|].
  intros a b Ha Hb. apply in_shapeb_iff in Ha, Hb. apply Hc; assumption.
Qed.

Definition cups_caps_multi_wire_stmt : Prop := forall l r, rev l = r ->
  (exists c, tcups l r = Ok c /\ tensor_ok c = true /\ tdom c = l ++ r /\ tcod c = [] /\
     forall a b, in_shapeb a l = true -> in_shapeb b r = true ->
       entry c (a ++ b) [] = delta (nat_list_eqb a (rev b))) /\
  (exists c, tcaps l r = Ok c /\ tensor_ok c = true /\ tdom c = [] /\ tcod c = l ++ r /\
     forall a b, in_shapeb a l = true -> in_shapeb b r = true ->
       entry c [] (a ++ b) = delta (nat_list_eqb a (rev b))).

Lemma cups_caps_multi_wire_b : cups_caps_multi_wire_stmt.
Proof. intros l r E. split; [apply tcups_entry | apply tcaps_entry]; exact E. Qed.

(* ------------------------------------------------------------------ non-vacuity / sanity *)
(* a two-wire adjoint pair of unequal dimensions: the hypotheses are
   satisfiable and the closed form gives the nested (not the crossed) pairing *)
Example tcups_entry_example :
  rev [3; 2] = [2; 3] /\
  in_shapeb [2; 1] [3; 2] = true /\ in_shapeb [1; 2] [2; 3] = true /\
  exists c, tcups [3; 2] [2; 3] = Ok c /\
    entry c ([2; 1] ++ [1; 2]) [] = cone /\      (* a = rev b *)
    entry c ([2; 1] ++ [0; 2]) [] = czero /\
    entry c ([1; 1] ++ [1; 1]) [] = cone /\
    entry c ([2; 0] ++ [0; 2]) [] = cone.
Proof.
  split; [reflexivity|]. split; [reflexivity|]. split; [reflexivity|].
  eexists. split; [vm_compute; reflexivity|]. repeat split; vm_compute; reflexivity.
Qed.

(* degenerate types are covered by the general theorems: the empty type, wires
   of dimension 1 (which Dim would drop) and of dimension 0 (which Dim refuses) *)
Example snake_degenerate_examples :
  snake_left_prog [] = tid [] /\ snake_right_prog [] = tid [] /\
  snake_left_prog [1; 2; 1] = tid [1; 2; 1] /\ snake_right_prog [2; 1] = tid [2; 1] /\
  snake_left_prog [0; 2] = tid [0; 2] /\ snake_right_prog [2; 0] = tid [2; 0].
Proof. repeat split; vm_compute; reflexivity. Qed.
