(* Lemmas about the Tensor model (Tensor/Tensor.v): every operation of
   discopy.tensor.Tensor, seen through `entry` (multi-index matrix entries) and
   `mat` (flattened matrix), is the corresponding operation on matrices. *)
From Coq Require Import List ZArith Bool Arith Lia Ring.
Import ListNotations.
Require Import DV.Common.Base DV.Tensor.NumpyModel DV.Tensor.NumpyLemmas DV.Tensor.Tensor.
Open Scope nat_scope.

(* ------------------------------------------------------------------ well-formedness *)
Definition tok (t : tensor) : Prop :=
  shape (tarr t) = shape_of (tdom t) (tcod t) /\
  length (data (tarr t)) = size (tdom t ++ tcod t).

Lemma tensor_ok_iff : forall t, tensor_ok t = true <-> tok t.
Proof.
  intros. unfold tensor_ok, tok. rewrite andb_true_iff, list_eqb_nat_eq, Nat.eqb_eq. tauto.
Qed.

Lemma in_shapeb_iff : forall idx sh, in_shapeb idx sh = true <-> in_shape idx sh.
Proof.
  induction idx; destruct sh; cbn; split; intros H; try discriminate; try constructor;
    try (inversion H; fail).
  - apply andb_prop in H. destruct H. apply Nat.ltb_lt. assumption.
  - apply andb_prop in H. destruct H. apply IHidx. assumption.
  - inversion H; subst. apply andb_true_intro. split; [apply Nat.ltb_lt; assumption|].
    apply IHidx. assumption.
Qed.

Lemma size_shape_of : forall d c, size (shape_of d c) = size (d ++ c).
Proof. intros. unfold shape_of. destruct (d ++ c); reflexivity. Qed.

Lemma shape_of_nonnil : forall d c, d ++ c <> [] -> shape_of d c = d ++ c.
Proof. intros. unfold shape_of. destruct (d ++ c); congruence. Qed.

Lemma length_shape_of_ge : forall d c, length d + length c <= length (shape_of d c).
Proof.
  intros. unfold shape_of. destruct (d ++ c) eqn:E.
  - apply app_eq_nil in E. destruct E; subst. cbn. lia.
  - rewrite <- E, app_length. lia.
Qed.

Lemma tok_arr_ok : forall t, tok t -> length (data (tarr t)) = size (shape (tarr t)).
Proof. intros t [S L]. rewrite S, size_shape_of. assumption. Qed.

Lemma mk_tensor_ok : forall dom cod a, length (data a) = size (dom ++ cod) ->
  mk_tensor dom cod a = Ok (mkT dom cod (mkArr (shape_of dom cod) (data a))).
Proof.
  intros. unfold mk_tensor, reshape. rewrite size_shape_of, <- H, Nat.eqb_refl. reflexivity.
Qed.

Lemma tok_mk : forall dom cod d, length d = size (dom ++ cod) ->
  tok (mkT dom cod (mkArr (shape_of dom cod) d)).
Proof. intros. split; [reflexivity | exact H]. Qed.

(* entries of a tensor whose array is a tabulation over dom ++ cod *)
Lemma entry_tabulate : forall dom cod sh f i j,
  in_shape i dom -> in_shape j cod ->
  entry (mkT dom cod (mkArr sh (map f (indices (dom ++ cod))))) i j = f (i ++ j).
Proof.
  intros. unfold entry. cbn [tdom tcod tarr data].
  apply nth_tabulate. apply in_shape_app; assumption.
Qed.

(* bridge between the multi-index view and the flattened matrix *)
Lemma mat_entry : forall t i j, in_shape i (tdom t) ->
  mat t (ravel (tdom t) i) (ravel (tcod t) j) = entry t i j.
Proof.
  intros. unfold mat, entry. rewrite ravel_app by (apply in_shape_length; assumption).
  reflexivity.
Qed.

(* every (row, column) of the flattened matrix comes from a pair of multi-indices *)
Lemma unravel_exists : forall sh r, r < size sh ->
  exists idx, in_shape idx sh /\ ravel sh idx = r.
Proof.
  intros. exists (nth r (indices sh) []). split.
  - apply indices_in_shape, nth_In. rewrite length_indices. assumption.
  - apply ravel_nth_indices. assumption.
Qed.

Lemma map_ravel_indices : forall sh, map (ravel sh) (indices sh) = seq 0 (size sh).
Proof.
  intros. apply nth_ext with (d := 0) (d' := 0).
  - rewrite map_length, length_indices, seq_length. reflexivity.
  - intros n Hn. rewrite map_length, length_indices in Hn.
    rewrite nth_map_default with (d' := []) by (rewrite length_indices; assumption).
    rewrite ravel_nth_indices by assumption. rewrite seq_nth by assumption. reflexivity.
Qed.

Lemma csum_indices_flat : forall sh (g : nat -> C),
  csum (map (fun k => g (ravel sh k)) (indices sh)) = csum (map g (seq 0 (size sh))).
Proof. intros. rewrite <- map_ravel_indices, map_map. reflexivity. Qed.

(* two well-formed tensors with the same type and the same entries are equal *)
Lemma tensor_ext : forall a b, tok a -> tok b ->
  tdom a = tdom b -> tcod a = tcod b ->
  (forall i j, in_shape i (tdom a) -> in_shape j (tcod a) -> entry a i j = entry b i j) ->
  a = b.
Proof.
  intros [da ca [sa xa]] [db cb [sb xb]] [Sa La] [Sb Lb] Ed Ec H. cbn in *. subst db cb.
  f_equal. f_equal; [congruence|].
  apply data_ext with (sh := da ++ ca); [assumption | assumption|].
  intros idx Hidx. apply in_shape_app_inv in Hidx. destruct Hidx as (i & j & -> & Hi & Hj).
  apply (H i j Hi Hj).
Qed.

(* ------------------------------------------------------------------ then *)
Lemma tthen_spec : forall a b, tok a -> tok b -> tcod a = tdom b ->
  exists c, tthen a b = Ok c /\ tok c /\ tdom c = tdom a /\ tcod c = tcod b /\
    forall i j, in_shape i (tdom a) -> in_shape j (tcod b) ->
      entry c i j = csum (map (fun k => cmul (entry a i k) (entry b k j)) (indices (tcod a))).
Proof.
  intros a b Ha Hb E. pose proof (tok_arr_ok a Ha) as Oa. pose proof (tok_arr_ok b Hb) as Ob.
  destruct Ha as [Sa La], Hb as [Sb Lb].
  unfold tthen. rewrite E, list_eqb_nat_refl. cbn [negb]. rewrite <- E.
  destruct (tcod a) as [|k0 K] eqn:EK.
  - (* nothing to contract: flat outer product *)
    cbn [length]. rewrite tensordot_0 by assumption. cbn [bind].
    rewrite <- E, app_nil_r in *. cbn [app] in Lb.
    rewrite mk_tensor_ok
      by (cbn [data]; rewrite outer_length, size_app, La, Lb; reflexivity).
    eexists. split; [reflexivity|]. split; [|split; [reflexivity|split; [reflexivity|]]].
    + apply tok_mk. cbn [data]. rewrite outer_length, size_app, La, Lb; reflexivity.
    + intros i j Hi Hj. unfold entry at 1. cbn [tdom tcod tarr data indices map].
      rewrite ravel_app by (apply in_shape_length; assumption).
      rewrite <- Lb. rewrite outer_nth
        by (try rewrite La; try rewrite Lb; apply ravel_lt; assumption).
      rewrite csum_cons, csum_nil. unfold entry. rewrite EK, <- E. cbn [app].
      rewrite !app_nil_r. ring.
  - (* genuine contraction: both arrays have their literal shapes *)
    assert (Sa' : shape (tarr a) = tdom a ++ (k0 :: K))
      by (rewrite Sa; apply shape_of_nonnil; destruct (tdom a); discriminate).
    assert (Sb' : shape (tarr b) = (k0 :: K) ++ tcod b)
      by (rewrite Sb, <- E; apply shape_of_nonnil; discriminate).
    rewrite (tensordot_k _ _ _ _ _ Sa' Sb'). cbn [bind].
    rewrite mk_tensor_ok by apply data_tabulate_length.
    eexists. split; [reflexivity|]. split; [|split; [reflexivity|split; [reflexivity|]]].
    + apply tok_mk. apply data_tabulate_length.
    + intros i j Hi Hj. unfold tabulate. cbn [data].
      rewrite entry_tabulate by assumption.
      apply csum_ext. intros kk Hkk.
      rewrite <- (in_shape_length _ _ Hi).
      rewrite firstn_app_exact, skipn_app_exact by reflexivity.
      unfold get, entry. rewrite Sa', Sb', EK, <- E. reflexivity.
Qed.

(* ------------------------------------------------------------------ tensor *)
Lemma tensor_target_eq : forall p q r s,
  tensor_target p q r s = seq 0 p ++ seq (p + r) q ++ seq p r ++ seq (p + q + r) s.
Proof.
  intros. unfold tensor_target.
  replace (p + r + (q + s)) with (p + (q + (r + s))) by lia.
  rewrite seq_app, (seq_app q), (seq_app r). cbn [Nat.add]. rewrite !map_app.
  f_equal; [|f_equal; [|f_equal]]; apply map_seq_shift; intros i Hi.
  - replace (i <? p) with true by (symmetry; apply Nat.ltb_lt; lia). cbn [orb]. lia.
  - replace (i <? p) with false by (symmetry; apply Nat.ltb_ge; lia).
    replace (p + q + r <=? i) with false by (symmetry; apply Nat.leb_gt; lia).
    replace (p + q <=? i) with false by (symmetry; apply Nat.leb_gt; lia). cbn [orb]. lia.
  - replace (i <? p) with false by (symmetry; apply Nat.ltb_ge; lia).
    replace (p + q + r <=? i) with false by (symmetry; apply Nat.leb_gt; lia).
    replace (p + q <=? i) with true by (symmetry; apply Nat.leb_le; lia). cbn [orb]. lia.
  - replace (p + q + r <=? i) with true by (symmetry; apply Nat.leb_le; lia).
    rewrite orb_true_r. lia.
Qed.

Lemma seq_glue : forall a n b m, b = a + n -> seq a n ++ seq b m = seq a (n + m).
Proof. intros; subst. symmetry. apply seq_app. Qed.

Lemma block_perm_intro : forall dst a0 m, length dst = m ->
  (forall i, a0 <= i < a0 + m -> In i dst) -> block_perm dst a0 m.
Proof. intros. split; assumption. Qed.

Lemma ttensor_spec : forall a b, tok a -> tok b ->
  exists c, ttensor a b = Ok c /\ tok c /\
    tdom c = tdom a ++ tdom b /\ tcod c = tcod a ++ tcod b /\
    forall ia ib ja jb,
      in_shape ia (tdom a) -> in_shape ib (tdom b) ->
      in_shape ja (tcod a) -> in_shape jb (tcod b) ->
      entry c (ia ++ ib) (ja ++ jb) = cmul (entry a ia ja) (entry b ib jb).
Proof.
  intros a b Ha Hb. pose proof (tok_arr_ok a Ha) as Oa. pose proof (tok_arr_ok b Hb) as Ob.
  destruct Ha as [Sa La], Hb as [Sb Lb].
  unfold ttensor. rewrite tensordot_0 by assumption. cbn [bind].
  set (da := tdom a) in *. set (ca := tcod a) in *.
  set (db := tdom b) in *. set (cb := tcod b) in *.
  assert (Lout : length (outer (data (tarr a)) (data (tarr b))) = size ((da ++ db) ++ ca ++ cb)).
  { rewrite outer_length, La, Lb, !size_app. ring. }
  assert (Hcase : (ca = [] \/ db = []) \/ (ca <> [] /\ db <> [])).
  { destruct ca; [left; left; reflexivity|]. destruct db; [left; right; reflexivity|].
    right; split; discriminate. }
  destruct Hcase as [Hid | [Hca Hdb]].
  - (* the moveaxis is the identity on a prefix of the axes *)
    assert (Htarget : tensor_target (length da) (length ca) (length db) (length cb)
                      = seq 0 (length ((da ++ db) ++ ca ++ cb))).
    { rewrite tensor_target_eq. rewrite !app_length.
      destruct Hid as [E | E]; rewrite E; cbn [length seq app].
      - rewrite Nat.add_0_r. rewrite (seq_glue (length da) (length db)) by lia.
        rewrite seq_glue by lia. f_equal. lia.
      - rewrite !Nat.add_0_r. rewrite (seq_glue (length da) (length ca)) by lia.
        rewrite seq_glue by lia. reflexivity. }
    rewrite Htarget.
    rewrite moveaxis_prefix_id.
    2:{ cbn [shape data]. rewrite outer_length, size_app, Oa, Ob. reflexivity. }
    2:{ unfold ndim. cbn [shape]. rewrite Sa, Sb. fold da ca db cb.
        rewrite !app_length.
        pose proof (length_shape_of_ge da ca). pose proof (length_shape_of_ge db cb). lia. }
    cbn [bind]. rewrite mk_tensor_ok by assumption.
    eexists. split; [reflexivity|]. split; [|split; [reflexivity|split; [reflexivity|]]].
    + apply tok_mk. assumption.
    + intros ia ib ja jb Hia Hib Hja Hjb. unfold entry at 1.
      cbn [tdom tcod tarr data].
      destruct Hid as [E | E].
      * (* cod a empty *)
        assert (ja = []) by (apply in_shape_nil; rewrite <- E; assumption). subst ja.
        rewrite E. cbn [app].
        rewrite <- !app_assoc.
        rewrite ravel_app by (apply in_shape_length; assumption).
        replace (size (db ++ cb)) with (length (data (tarr b))) by (symmetry; exact Lb).
        rewrite outer_nth.
        -- unfold entry. fold da ca db cb. rewrite E, !app_nil_r. reflexivity.
        -- rewrite La. fold ca. rewrite E, app_nil_r. apply ravel_lt; assumption.
        -- rewrite Lb. apply ravel_lt. apply in_shape_app; assumption.
      * (* dom b empty *)
        assert (ib = []) by (apply in_shape_nil; rewrite <- E; assumption). subst ib.
        rewrite E. rewrite !app_nil_r.
        rewrite !app_assoc.
        rewrite ravel_app
          by (rewrite !app_length; f_equal; apply in_shape_length; assumption).
        replace (size cb) with (length (data (tarr b)))
          by (rewrite Lb; fold db; rewrite E; reflexivity).
        rewrite outer_nth.
        -- unfold entry. fold da ca db cb. rewrite E. reflexivity.
        -- rewrite La. apply ravel_lt. apply in_shape_app; assumption.
        -- rewrite Lb. fold db. rewrite E. apply ravel_lt; assumption.
  - (* a genuine permutation of the axes of the outer product *)
    assert (Sa' : shape (tarr a) = da ++ ca)
      by (rewrite Sa; apply shape_of_nonnil; destruct da, ca; try discriminate; congruence).
    assert (Sb' : shape (tarr b) = db ++ cb)
      by (rewrite Sb; apply shape_of_nonnil; destruct db; try discriminate; congruence).
    set (p := length da). set (q := length ca). set (r := length db). set (s := length cb).
    assert (Hb' : block_perm (tensor_target p q r s) 0 (p + r + (q + s))).
    { apply block_perm_intro.
      - unfold tensor_target. rewrite map_length, seq_length. reflexivity.
      - intros i Hi. rewrite tensor_target_eq, !in_app_iff, !in_seq. lia. }
    assert (Hext : extend (tensor_target p q r s) 0 (p + r + (q + s)) 0
                   = seq 0 p ++ seq (p + r) q ++ seq p r ++ seq (p + q + r) s).
    { unfold extend. cbn [seq app]. rewrite app_nil_r. apply tensor_target_eq. }
    assert (Hgather : forall {A} (d : A) (xa xb ya yb : list A),
              length xa = p -> length xb = r -> length ya = q -> length yb = s ->
              gather d ((xa ++ xb) ++ ya ++ yb)
                (seq 0 p ++ seq (p + r) q ++ seq p r ++ seq (p + q + r) s)
              = (xa ++ ya) ++ xb ++ yb).
    { intros A d xa xb ya yb H1 H2 H3 H4. rewrite !gather_app. rewrite <- !app_assoc.
      f_equal; [|f_equal; [|f_equal]].
      - apply gather_block' with (A0 := []) (T := xb ++ ya ++ yb); [reflexivity|reflexivity|lia].
      - apply gather_block' with (A0 := xa ++ xb) (T := yb);
          [rewrite <- !app_assoc; reflexivity | rewrite app_length; lia | lia].
      - apply gather_block' with (A0 := xa) (T := ya ++ yb); [reflexivity | lia | lia].
      - apply gather_block' with (A0 := xa ++ xb ++ ya) (T := []);
          [rewrite app_nil_r, <- !app_assoc; reflexivity | rewrite !app_length; lia | lia]. }
    rewrite !app_length. fold p q r s.
    rewrite moveaxis_spec with (e := 0) (X := (da ++ db) ++ ca ++ cb).
    2:{ unfold ndim. cbn [shape]. rewrite Sa', Sb', !app_length. fold p q r s. lia. }
    2:{ exact Hb'. }
    2:{ rewrite !app_length. fold p q r s. lia. }
    2:{ rewrite Hext. cbn [shape]. rewrite Sa', Sb'. apply Hgather; reflexivity. }
    cbn [bind]. rewrite mk_tensor_ok by apply data_tabulate_length.
    eexists. split; [reflexivity|]. split; [|split; [reflexivity|split; [reflexivity|]]].
    + apply tok_mk. apply data_tabulate_length.
    + intros ia ib ja jb Hia Hib Hja Hjb. unfold tabulate. cbn [data].
      rewrite entry_tabulate by (apply in_shape_app; assumption).
      rewrite Hext.
      rewrite Hgather by (apply in_shape_length; assumption).
      unfold get. cbn [shape data]. rewrite Sa', Sb'.
      rewrite ravel_app
        by (rewrite !app_length; f_equal; apply in_shape_length; assumption).
      replace (size (db ++ cb)) with (length (data (tarr b))) by (symmetry; exact Lb).
      rewrite outer_nth.
      * reflexivity.
      * rewrite La. apply ravel_lt. apply in_shape_app; assumption.
      * rewrite Lb. apply ravel_lt. apply in_shape_app; assumption.
Qed.

(* ------------------------------------------------------------------ dagger *)
Lemma dagger_target_eq : forall p q, dagger_target p q = seq q p ++ seq 0 q.
Proof.
  intros. unfold dagger_target. rewrite seq_app, map_app. cbn [Nat.add].
  f_equal; apply map_seq_shift; intros i Hi.
  - replace (i <? p) with true by (symmetry; apply Nat.ltb_lt; lia). lia.
  - replace (i <? p) with false by (symmetry; apply Nat.ltb_ge; lia). lia.
Qed.

Lemma nth_map_cconj : forall n l, nth n (map cconj l) czero = cconj (nth n l czero).
Proof. intros. change czero with (cconj czero) at 1. apply map_nth. Qed.

Lemma gather_two_blocks : forall {A} (d : A) (xa ya : list A) p q,
  length xa = p -> length ya = q ->
  gather d (ya ++ xa) (seq q p ++ seq 0 q) = xa ++ ya.
Proof.
  intros. rewrite gather_app. f_equal.
  - apply gather_block' with (A0 := ya) (T := []); [rewrite app_nil_r; reflexivity | lia | lia].
  - apply gather_block' with (A0 := []) (T := xa); [reflexivity | reflexivity | lia].
Qed.

Lemma tdagger_spec : forall a, tok a ->
  exists c, tdagger a = Ok c /\ tok c /\ tdom c = tcod a /\ tcod c = tdom a /\
    forall i j, in_shape i (tdom a) -> in_shape j (tcod a) ->
      entry c j i = cconj (entry a i j).
Proof.
  intros a Ha. pose proof (tok_arr_ok a Ha) as Oa. destruct Ha as [Sa La].
  unfold tdagger.
  set (da := tdom a) in *. set (ca := tcod a) in *.
  assert (Lc : forall x, length x = length (data (tarr a)) ->
                         length (map cconj x) = size (ca ++ da)).
  { intros x Hx. rewrite map_length, Hx, La, !size_app. ring. }
  destruct (list_eq_dec Nat.eq_dec (da ++ ca) []) as [Edc|Edc].
  - (* scalar: shape (1,), nothing moves *)
    apply app_eq_nil in Edc. destruct Edc as [Ed Ec]. rewrite Ed, Ec in *.
    cbn [length Nat.add app]. unfold dagger_target. cbn [seq map Nat.add].
    pose proof (moveaxis_prefix_id (tarr a) 0 Oa ltac:(lia)) as Hm. cbn [seq] in Hm.
    rewrite Hm. cbn [bind].
    rewrite mk_tensor_ok by (cbn [conjugate data]; apply Lc; reflexivity).
    eexists. split; [reflexivity|]. split; [|split; [reflexivity|split; [reflexivity|]]].
    + apply tok_mk. cbn [conjugate data]; apply Lc; reflexivity.
    + intros i j Hi Hj. apply in_shape_nil in Hi. apply in_shape_nil in Hj. subst i j.
      unfold entry. cbn [tdom tcod tarr conjugate data app ravel].
      fold da ca. rewrite Ed, Ec. cbn [app ravel]. apply nth_map_cconj.
  - (* the two blocks of axes are exchanged *)
    assert (Sa' : shape (tarr a) = da ++ ca)
      by (rewrite Sa; apply shape_of_nonnil; exact Edc).
    set (p := length da). set (q := length ca).
    assert (Hb' : block_perm (dagger_target p q) 0 (p + q)).
    { apply block_perm_intro.
      - unfold dagger_target. rewrite map_length, seq_length. reflexivity.
      - intros i Hi. rewrite dagger_target_eq, !in_app_iff, !in_seq. lia. }
    assert (Hext : extend (dagger_target p q) 0 (p + q) 0 = seq q p ++ seq 0 q).
    { unfold extend. cbn [seq app]. rewrite app_nil_r. apply dagger_target_eq. }
    rewrite app_length. fold p q.
    rewrite moveaxis_spec with (e := 0) (X := ca ++ da).
    2:{ unfold ndim. rewrite Sa', app_length. fold p q. lia. }
    2:{ exact Hb'. }
    2:{ rewrite app_length. fold p q. lia. }
    2:{ rewrite Hext, Sa'. apply gather_two_blocks; reflexivity. }
    cbn [bind].
    rewrite mk_tensor_ok
      by (cbn [conjugate data tabulate]; rewrite map_length, map_length, length_indices; reflexivity).
    eexists. split; [reflexivity|]. split; [|split; [reflexivity|split; [reflexivity|]]].
    + apply tok_mk. cbn [conjugate data tabulate].
      rewrite map_length, map_length, length_indices; reflexivity.
    + intros i j Hi Hj. unfold entry at 1. cbn [tdom tcod tarr conjugate data tabulate].
      rewrite nth_map_cconj. f_equal.
      rewrite nth_tabulate by (apply in_shape_app; assumption).
      rewrite Hext. rewrite gather_two_blocks by (apply in_shape_length; assumption).
      unfold get, entry. rewrite Sa'. reflexivity.
Qed.

(* ------------------------------------------------------------------ id *)
Lemma identity_length : forall n, length (data (identity n)) = n * n.
Proof. intros. unfold identity. rewrite data_tabulate_length. cbn. lia. Qed.

Lemma identity_nth : forall n r c, r < n -> c < n ->
  nth (r * n + c) (data (identity n)) czero = delta (r =? c).
Proof.
  intros. replace (r * n + c) with (ravel [n; n] [r; c]) by (cbn; lia).
  unfold identity. cbn [tabulate data].
  rewrite nth_tabulate by (repeat constructor; assumption).
  reflexivity.
Qed.

Lemma tid_spec : forall d,
  exists c, tid d = Ok c /\ tok c /\ tdom c = d /\ tcod c = d /\
    forall i j, in_shape i d -> in_shape j d ->
      entry c i j = delta (ravel d i =? ravel d j).
Proof.
  intros. unfold tid.
  assert (L : length (data (identity (size d))) = size (d ++ d))
    by (rewrite identity_length, size_app; reflexivity).
  rewrite mk_tensor_ok by assumption.
  eexists. split; [reflexivity|]. split; [|split; [reflexivity|split; [reflexivity|]]].
  - apply tok_mk. assumption.
  - intros i j Hi Hj. unfold entry. cbn [tdom tcod tarr data].
    rewrite ravel_app by (apply in_shape_length; assumption).
    apply identity_nth; apply ravel_lt; assumption.
Qed.

Lemma list_eqb_ravel : forall d i j, in_shape i d -> in_shape j d ->
  (ravel d i =? ravel d j) = nat_list_eqb i j.
Proof.
  intros. destruct (nat_list_eqb i j) eqn:E.
  - apply list_eqb_nat_eq in E. subst. apply Nat.eqb_refl.
  - apply Nat.eqb_neq. intro R. apply (ravel_inj _ _ _ H H0) in R.
    apply list_eqb_nat_eq in R. congruence.
Qed.

(* ------------------------------------------------------------------ swap *)
Lemma swap_target_eq : forall l r,
  swap_target l r = seq (l + r + r) l ++ seq (l + r) r.
Proof.
  intros. unfold swap_target. rewrite seq_app, map_app.
  f_equal; apply map_seq_shift; intros i Hi.
  - replace (i <? l + r + l) with true by (symmetry; apply Nat.ltb_lt; lia). lia.
  - replace (i <? l + r + l) with false by (symmetry; apply Nat.ltb_ge; lia). lia.
Qed.

Lemma tswap_spec : forall l r,
  exists c, tswap l r = Ok c /\ tok c /\ tdom c = l ++ r /\ tcod c = r ++ l /\
    forall il ir jl jr, in_shape il l -> in_shape ir r -> in_shape jl l -> in_shape jr r ->
      entry c (il ++ ir) (jr ++ jl) = delta (nat_list_eqb (il ++ ir) (jl ++ jr)).
Proof.
  intros l r. unfold tswap.
  destruct (tid_spec (l ++ r)) as (c0 & E0 & Hc0 & D0 & C0 & Hent0).
  rewrite E0. cbn [bind].
  pose proof (tok_arr_ok c0 Hc0) as O0. destruct Hc0 as [S0 L0]. rewrite D0, C0 in *.
  assert (Lsz : size ((l ++ r) ++ r ++ l) = size ((l ++ r) ++ l ++ r))
    by (rewrite !size_app; ring).
  destruct (list_eq_dec Nat.eq_dec (l ++ r) []) as [Elr|Elr].
  - (* no wires at all *)
    apply app_eq_nil in Elr. destruct Elr; subst l r.
    cbn [length Nat.add app]. unfold swap_target. cbn [seq map Nat.add].
    pose proof (moveaxis_prefix_id (tarr c0) 0 O0 ltac:(lia)) as Hm. cbn [seq] in Hm.
    rewrite Hm. cbn [bind].
    rewrite mk_tensor_ok by exact L0.
    eexists. split; [reflexivity|]. split; [|split; [reflexivity|split; [reflexivity|]]].
    + apply tok_mk. exact L0.
    + intros il ir jl jr H1 H2 H3 H4.
      apply in_shape_nil in H1, H2, H3, H4. subst. cbn [app].
      cbn [app] in *. pose proof (Hent0 [] [] ltac:(constructor) ltac:(constructor)) as He.
      change (delta (nat_list_eqb [] [])) with (delta (ravel [] [] =? ravel [] [])).
      rewrite <- He.
      unfold entry. rewrite D0, C0. reflexivity.
  - assert (S0' : shape (tarr c0) = (l ++ r) ++ l ++ r)
      by (rewrite S0; apply shape_of_nonnil; intro E; apply app_eq_nil in E; tauto).
    set (p := length l). set (q := length r).
    rewrite app_length. fold p q.
    assert (Hb' : block_perm (swap_target p q) (p + q) (p + q)).
    { apply block_perm_intro.
      - unfold swap_target. rewrite map_length, seq_length. reflexivity.
      - intros i Hi. rewrite swap_target_eq, !in_app_iff, !in_seq. lia. }
    assert (Hext : extend (swap_target p q) (p + q) (p + q) 0
                   = seq 0 (p + q) ++ seq (p + q + q) p ++ seq (p + q) q).
    { unfold extend. cbn [seq]. rewrite app_nil_r, swap_target_eq. reflexivity. }
    assert (Hgather : forall {A} (d : A) (xl xr yl yr : list A),
              length xl = p -> length xr = q -> length yl = p -> length yr = q ->
              gather d ((xl ++ xr) ++ yr ++ yl)
                (seq 0 (p + q) ++ seq (p + q + q) p ++ seq (p + q) q)
              = (xl ++ xr) ++ yl ++ yr).
    { intros A d xl xr yl yr H1 H2 H3 H4. rewrite !gather_app. f_equal; [|f_equal].
      - apply gather_block' with (A0 := []) (T := yr ++ yl);
          [reflexivity | reflexivity | rewrite app_length; lia].
      - apply gather_block' with (A0 := (xl ++ xr) ++ yr) (T := []);
          [rewrite app_nil_r, <- !app_assoc; reflexivity | rewrite !app_length; lia | lia].
      - apply gather_block' with (A0 := xl ++ xr) (T := yl);
          [reflexivity | rewrite app_length; lia | lia]. }
    rewrite moveaxis_spec with (e := 0) (X := (l ++ r) ++ r ++ l).
    2:{ unfold ndim. rewrite S0', !app_length. fold p q. lia. }
    2:{ exact Hb'. }
    2:{ rewrite !app_length. fold p q. lia. }
    2:{ rewrite Hext, S0'. apply Hgather; reflexivity. }
    cbn [bind]. rewrite mk_tensor_ok by apply data_tabulate_length.
    eexists. split; [reflexivity|]. split; [|split; [reflexivity|split; [reflexivity|]]].
    + apply tok_mk. apply data_tabulate_length.
    + intros il ir jl jr H1 H2 H3 H4. unfold tabulate. cbn [data].
      rewrite entry_tabulate by (apply in_shape_app; assumption).
      rewrite Hext, Hgather by (apply in_shape_length; assumption).
      rewrite <- list_eqb_ravel with (d := l ++ r) by (apply in_shape_app; assumption).
      rewrite <- Hent0 by (apply in_shape_app; assumption).
      unfold get, entry. rewrite S0', D0, C0. reflexivity.
Qed.

(* ------------------------------------------------------------------ sums over indices *)
Lemma csum_indices_app : forall s1 s2 (F : list nat -> C),
  csum (map F (indices (s1 ++ s2))) =
  csum (map (fun k1 => csum (map (fun k2 => F (k1 ++ k2)) (indices s2))) (indices s1)).
Proof.
  intros. rewrite indices_app, map_flat_map, csum_flat_map.
  apply csum_ext. intros k1 _. rewrite map_map. reflexivity.
Qed.

Lemma cmul_assoc : forall x y z, cmul (cmul x y) z = cmul x (cmul y z).
Proof. intros. ring. Qed.

Lemma cmul_comm : forall x y, cmul x y = cmul y x.
Proof. intros. ring. Qed.

Lemma csum_mul_l_map : forall {A} c (G : A -> C) l,
  csum (map (fun x => cmul c (G x)) l) = cmul c (csum (map G l)).
Proof. intros. rewrite csum_mul_l, map_map. reflexivity. Qed.

Lemma csum_mul_r_map : forall {A} c (G : A -> C) l,
  csum (map (fun x => cmul (G x) c) l) = cmul (csum (map G l)) c.
Proof. intros. rewrite csum_mul_r, map_map. reflexivity. Qed.

Lemma delta_and : forall b1 b2, delta (b1 && b2) = cmul (delta b1) (delta b2).
Proof. intros [] []; cbn [andb delta]; ring. Qed.

Lemma sum_delta_seq_out : forall (g : nat -> C) d a i0, i0 < a ->
  csum (map (fun i => cmul (delta (i0 =? i)) (g i)) (seq a d)) = czero.
Proof.
  induction d; intros; [reflexivity|]. cbn [seq map]. rewrite csum_cons.
  replace (i0 =? a) with false by (symmetry; apply Nat.eqb_neq; lia).
  rewrite IHd by lia. cbn [delta]. ring.
Qed.

Lemma sum_delta_seq : forall (g : nat -> C) d a i0, a <= i0 < a + d ->
  csum (map (fun i => cmul (delta (i0 =? i)) (g i)) (seq a d)) = g i0.
Proof.
  induction d; intros a i0 H; [lia|]. cbn [seq map]. rewrite csum_cons.
  destruct (i0 =? a) eqn:E.
  - apply Nat.eqb_eq in E. subst. rewrite sum_delta_seq_out by lia. cbn [delta]. ring.
  - apply Nat.eqb_neq in E. rewrite IHd by lia. cbn [delta]. ring.
Qed.

Lemma sum_delta : forall sh k0 (f : list nat -> C), in_shape k0 sh ->
  csum (map (fun k => cmul (delta (nat_list_eqb k0 k)) (f k)) (indices sh)) = f k0.
Proof.
  induction sh; intros k0 f H.
  - apply in_shape_nil in H. subst. cbn [indices map]. rewrite csum_cons, csum_nil.
    cbn [nat_list_eqb list_eqb delta]. ring.
  - inversion H as [|i0 a' k0' sh' Hi Hk]; subst.
    cbn [indices]. rewrite map_flat_map, csum_flat_map.
    erewrite csum_ext.
    2:{ intros i _. rewrite map_map. cbn [nat_list_eqb list_eqb].
        erewrite csum_ext.
        2:{ intros k' _. fold (nat_list_eqb k0' k'). rewrite delta_and, cmul_assoc.
            reflexivity. }
        rewrite csum_mul_l_map.
        rewrite (IHsh k0' (fun k' => f (i :: k')) Hk). reflexivity. }
    apply (sum_delta_seq (fun i => f (i :: k0'))). lia.
Qed.

(* ------------------------------------------------------------------ derived equalities of tensors *)
Lemma interchange_law_tok : forall a b c d, tok a -> tok b -> tok c -> tok d ->
  tcod a = tdom c -> tcod b = tdom d ->
  exists t, (do x <- ttensor a b; do y <- ttensor c d; tthen x y) = Ok t /\
            (do x <- tthen a c; do y <- tthen b d; ttensor x y) = Ok t.
Proof.
  intros a b c d Ha Hb Hc Hd Eac Ebd.
  destruct (ttensor_spec a b Ha Hb) as (ab & Eab & Tab & Dab & Cab & Hab).
  destruct (ttensor_spec c d Hc Hd) as (cd & Ecd & Tcd & Dcd & Ccd & Hcd).
  assert (Ecomp : tcod ab = tdom cd) by congruence.
  destruct (tthen_spec ab cd Tab Tcd Ecomp) as (lhs & El & Tl & Dl & Cl & Hl).
  destruct (tthen_spec a c Ha Hc Eac) as (ac & Eac' & Tac & Dac & Cac & Hac).
  destruct (tthen_spec b d Hb Hd Ebd) as (bd & Ebd' & Tbd & Dbd & Cbd & Hbd).
  destruct (ttensor_spec ac bd Tac Tbd) as (rhs & Er & Tr & Dr & Cr & Hr).
  exists lhs. rewrite Eab, Ecd, Eac', Ebd'. cbn [bind]. split; [assumption|].
  rewrite Er. f_equal. symmetry.
  apply tensor_ext; try assumption; try congruence.
  intros i j Hi Hj. rewrite Dl, Dab in Hi. rewrite Cl, Ccd in Hj.
  apply in_shape_app_inv in Hi. destruct Hi as (ia & ib & -> & Hia & Hib).
  apply in_shape_app_inv in Hj. destruct Hj as (jc & jd & -> & Hjc & Hjd).
  rewrite Hl by (rewrite ?Dab, ?Ccd; apply in_shape_app; assumption).
  rewrite Hr by congruence.
  rewrite Hac, Hbd by assumption.
  rewrite Cab, csum_indices_app.
  rewrite csum_mul_r. rewrite map_map.
  apply csum_ext. intros ka Hka. apply indices_in_shape in Hka.
  rewrite csum_mul_l, map_map.
  apply csum_ext. intros kb Hkb. apply indices_in_shape in Hkb.
  rewrite Hab by assumption.
  rewrite Hcd by congruence. ring.
Qed.

Lemma nat_list_eqb_sym : forall a b, nat_list_eqb a b = nat_list_eqb b a.
Proof.
  intros. destruct (nat_list_eqb a b) eqn:E1, (nat_list_eqb b a) eqn:E2; try reflexivity.
  - apply list_eqb_nat_eq in E1. subst. rewrite list_eqb_nat_refl in E2. discriminate.
  - apply list_eqb_nat_eq in E2. subst. rewrite list_eqb_nat_refl in E1. discriminate.
Qed.

Lemma app_inj_length : forall {A} (a c b d : list A),
  length a = length c -> a ++ b = c ++ d -> a = c /\ b = d.
Proof.
  induction a; destruct c; cbn; intros; try discriminate; [auto|].
  inversion H0; subst. destruct (IHa c b d) as [-> ->]; [lia | assumption | auto].
Qed.

Lemma nat_list_eqb_app_swap : forall a b c d, length a = length c -> length b = length d ->
  nat_list_eqb (a ++ b) (c ++ d) = nat_list_eqb (b ++ a) (d ++ c).
Proof.
  intros. destruct (nat_list_eqb (a ++ b) (c ++ d)) eqn:E1.
  - apply list_eqb_nat_eq in E1. apply app_inj_length in E1; [|assumption].
    destruct E1; subst. symmetry. apply list_eqb_nat_refl.
  - destruct (nat_list_eqb (b ++ a) (d ++ c)) eqn:E2; [|reflexivity].
    apply list_eqb_nat_eq in E2. apply app_inj_length in E2; [|assumption].
    destruct E2; subst. rewrite list_eqb_nat_refl in E1. discriminate.
Qed.

Lemma swap_natural_tok : forall a b, tok a -> tok b ->
  exists t, (do x <- ttensor a b; do s <- tswap (tcod a) (tcod b); tthen x s) = Ok t /\
            (do s <- tswap (tdom a) (tdom b); do y <- ttensor b a; tthen s y) = Ok t.
Proof.
  intros a b Ha Hb.
  destruct (ttensor_spec a b Ha Hb) as (ab & Eab & Tab & Dab & Cab & Hab).
  destruct (ttensor_spec b a Hb Ha) as (ba & Eba & Tba & Dba & Cba & Hba).
  destruct (tswap_spec (tcod a) (tcod b)) as (sc & Esc & Tsc & Dsc & Csc & Hsc).
  destruct (tswap_spec (tdom a) (tdom b)) as (sd & Esd & Tsd & Dsd & Csd & Hsd).
  assert (E1 : tcod ab = tdom sc) by congruence.
  assert (E2 : tcod sd = tdom ba) by congruence.
  destruct (tthen_spec ab sc Tab Tsc E1) as (lhs & El & Tl & Dl & Cl & Hl).
  destruct (tthen_spec sd ba Tsd Tba E2) as (rhs & Er & Tr & Dr & Cr & Hr).
  exists lhs. rewrite Eab, Esc, Esd, Eba. cbn [bind]. split; [assumption|].
  rewrite Er. f_equal. symmetry.
  apply tensor_ext; try assumption; try congruence.
  intros i j Hi Hj. rewrite Dl, Dab in Hi. rewrite Cl, Csc in Hj.
  apply in_shape_app_inv in Hi. destruct Hi as (ia & ib & -> & Hia & Hib).
  apply in_shape_app_inv in Hj. destruct Hj as (jb & ja & -> & Hjb & Hja).
  rewrite Hl by (rewrite ?Dab, ?Csc; apply in_shape_app; assumption).
  rewrite Hr by (rewrite ?Dsd, ?Cba; apply in_shape_app; assumption).
  (* left: the swap picks the column (ja, jb) of a (x) b *)
  rewrite Cab.
  rewrite (csum_ext _ (fun k => cmul (delta (nat_list_eqb (ja ++ jb) k))
                                     (entry ab (ia ++ ib) k))).
  2:{ intros k Hk. apply indices_in_shape, in_shape_app_inv in Hk.
      destruct Hk as (ka & kb & -> & Hka & Hkb).
      rewrite Hsc by assumption. rewrite nat_list_eqb_sym. apply cmul_comm. }
  rewrite (sum_delta (tcod a ++ tcod b) (ja ++ jb) (fun k => entry ab (ia ++ ib) k))
    by (apply in_shape_app; assumption).
  rewrite Hab by assumption.
  (* right: the swap picks the row (ib, ia) of b (x) a *)
  rewrite Csd.
  rewrite (csum_ext _ (fun k => cmul (delta (nat_list_eqb (ib ++ ia) k))
                                     (entry ba k (jb ++ ja)))).
  2:{ intros k Hk. apply indices_in_shape, in_shape_app_inv in Hk.
      destruct Hk as (kb & ka & -> & Hkb & Hka).
      rewrite Hsd by assumption.
      rewrite nat_list_eqb_app_swap; [reflexivity | |].
      - rewrite (in_shape_length _ _ Hia). symmetry. apply in_shape_length; assumption.
      - rewrite (in_shape_length _ _ Hib). symmetry. apply in_shape_length; assumption. }
  rewrite (sum_delta (tdom b ++ tdom a) (ib ++ ia) (fun k => entry ba k (jb ++ ja)))
    by (apply in_shape_app; assumption).
  rewrite Hba by assumption. ring.
Qed.

Lemma tdagger_involutive_tok : forall a, tok a ->
  (do b <- tdagger a; tdagger b) = Ok a.
Proof.
  intros a Ha.
  destruct (tdagger_spec a Ha) as (b & Eb & Tb & Db & Cb & Hb).
  destruct (tdagger_spec b Tb) as (c & Ec & Tc & Dc & Cc & Hc).
  rewrite Eb. cbn [bind]. rewrite Ec. f_equal.
  apply tensor_ext; try assumption; try congruence.
  intros i j Hi Hj. rewrite Dc, Cb in Hi. rewrite Cc, Db in Hj.
  rewrite Hc by congruence. rewrite Hb by assumption. apply cconj_invol.
Qed.

(* ------------------------------------------------------------------ flattened-matrix forms *)
Lemma tthen_flat : forall a b c, tok a -> tok b -> tcod a = tdom b -> tthen a b = Ok c ->
  forall r col, r < size (tdom a) -> col < size (tcod b) ->
    mat c r col = csum (map (fun m => cmul (mat a r m) (mat b m col)) (seq 0 (size (tcod a)))).
Proof.
  intros a b c Ha Hb E Ec r col Hr Hcol.
  destruct (tthen_spec a b Ha Hb E) as (c' & Ec' & _ & Dc & Cc & Hent).
  rewrite Ec in Ec'. inversion Ec'; subst c'. clear Ec'.
  destruct (unravel_exists _ _ Hr) as (i & Hi & <-).
  destruct (unravel_exists _ _ Hcol) as (j & Hj & <-).
  rewrite <- Dc at 1. rewrite <- Cc at 1.
  rewrite mat_entry by (rewrite Dc; assumption).
  rewrite Hent by assumption.
  rewrite <- (csum_indices_flat (tcod a)
               (fun m => cmul (mat a (ravel (tdom a) i) m) (mat b m (ravel (tcod b) j)))).
  apply csum_ext. intros k Hk. apply indices_in_shape in Hk.
  rewrite mat_entry by assumption. rewrite E at 1.
  rewrite mat_entry by (rewrite <- E; assumption). reflexivity.
Qed.

Lemma ttensor_flat : forall a b c, tok a -> tok b -> ttensor a b = Ok c ->
  forall ra rb ca cb, ra < size (tdom a) -> rb < size (tdom b) ->
    ca < size (tcod a) -> cb < size (tcod b) ->
    mat c (ra * size (tdom b) + rb) (ca * size (tcod b) + cb) = cmul (mat a ra ca) (mat b rb cb).
Proof.
  intros a b c Ha Hb Ec ra rb ca cb Hra Hrb Hca Hcb.
  destruct (ttensor_spec a b Ha Hb) as (c' & Ec' & _ & Dc & Cc & Hent).
  rewrite Ec in Ec'. inversion Ec'; subst c'. clear Ec'.
  destruct (unravel_exists _ _ Hra) as (ia & Hia & <-).
  destruct (unravel_exists _ _ Hrb) as (ib & Hib & <-).
  destruct (unravel_exists _ _ Hca) as (ja & Hja & <-).
  destruct (unravel_exists _ _ Hcb) as (jb & Hjb & <-).
  rewrite <- !ravel_app by (apply in_shape_length; assumption).
  rewrite <- Dc, <- Cc.
  rewrite mat_entry by (rewrite Dc; apply in_shape_app; assumption).
  rewrite Hent by assumption. rewrite !mat_entry by assumption. reflexivity.
Qed.

Lemma tdagger_flat : forall a c, tok a -> tdagger a = Ok c ->
  forall r col, r < size (tdom a) -> col < size (tcod a) ->
    mat c col r = cconj (mat a r col).
Proof.
  intros a c Ha Ec r col Hr Hcol.
  destruct (tdagger_spec a Ha) as (c' & Ec' & _ & Dc & Cc & Hent).
  rewrite Ec in Ec'. inversion Ec'; subst c'. clear Ec'.
  destruct (unravel_exists _ _ Hr) as (i & Hi & <-).
  destruct (unravel_exists _ _ Hcol) as (j & Hj & <-).
  rewrite <- Dc at 1. rewrite <- Cc at 1.
  rewrite mat_entry by (rewrite Dc; assumption).
  rewrite Hent by assumption. rewrite mat_entry by assumption. reflexivity.
Qed.

Lemma tid_flat : forall d c, tid d = Ok c ->
  forall r col, r < size d -> col < size d -> mat c r col = delta (r =? col).
Proof.
  intros d c Ec r col Hr Hcol.
  destruct (tid_spec d) as (c' & Ec' & _ & Dc & Cc & Hent).
  rewrite Ec in Ec'. inversion Ec'; subst c'. clear Ec'.
  destruct (unravel_exists _ _ Hr) as (i & Hi & <-).
  destruct (unravel_exists _ _ Hcol) as (j & Hj & <-).
  rewrite <- Dc at 1. rewrite <- Cc at 1.
  rewrite mat_entry by (rewrite Dc; assumption).
  apply Hent; assumption.
Qed.

Lemma nat_list_eqb_app : forall a c b d, length a = length c ->
  nat_list_eqb (a ++ b) (c ++ d) = nat_list_eqb a c && nat_list_eqb b d.
Proof.
  induction a; destruct c; cbn [length]; intros; try discriminate; [reflexivity|].
  cbn [app nat_list_eqb list_eqb]. fold (nat_list_eqb (a0 ++ b) (c ++ d)).
  fold (nat_list_eqb a0 c). rewrite IHa by lia. apply andb_assoc.
Qed.

Lemma tswap_flat : forall l r c, tswap l r = Ok c ->
  forall rl rr cl cr, rl < size l -> rr < size r -> cl < size l -> cr < size r ->
    mat c (rl * size r + rr) (cr * size l + cl) = delta ((rl =? cl) && (rr =? cr)).
Proof.
  intros l r c Ec rl rr cl cr Hrl Hrr Hcl Hcr.
  destruct (tswap_spec l r) as (c' & Ec' & _ & Dc & Cc & Hent).
  rewrite Ec in Ec'. inversion Ec'; subst c'. clear Ec'.
  destruct (unravel_exists _ _ Hrl) as (il & Hil & <-).
  destruct (unravel_exists _ _ Hrr) as (ir & Hir & <-).
  destruct (unravel_exists _ _ Hcl) as (jl & Hjl & <-).
  destruct (unravel_exists _ _ Hcr) as (jr & Hjr & <-).
  rewrite <- !ravel_app by (apply in_shape_length; assumption).
  rewrite <- Dc, <- Cc.
  rewrite mat_entry by (rewrite Dc; apply in_shape_app; assumption).
  rewrite Hent by assumption.
  rewrite nat_list_eqb_app
    by (rewrite (in_shape_length _ _ Hil); symmetry; apply in_shape_length; assumption).
  rewrite !list_eqb_ravel by assumption. reflexivity.
Qed.

(* ------------------------------------------------------------------ cups, caps (single wire of any dimension) *)
Lemma tid_nil_entry : forall c, tid [] = Ok c -> entry c [] [] = cone.
Proof.
  intros c Ec. destruct (tid_spec []) as (c' & Ec' & _ & _ & _ & Hent).
  rewrite Ec in Ec'. inversion Ec'; subst c'.
  rewrite Hent by constructor. reflexivity.
Qed.

Lemma tcups1_spec : forall d,
  exists c, tcups [d] [d] = Ok c /\ tok c /\ tdom c = [d; d] /\ tcod c = [] /\
    forall k1 k2, in_shape k1 [d] -> in_shape k2 [d] ->
      entry c (k1 ++ k2) [] = delta (nat_list_eqb k1 k2).
Proof.
  intros d. unfold tcups. cbn [rev app]. rewrite list_eqb_nat_refl. cbn [negb andb].
  destruct (tid_spec [d; d]) as (r0 & Er0 & Tr0 & Dr0 & Cr0 & Hr0).
  rewrite Er0. cbn [bind length seq cups_loop]. unfold cups_step.
  cbn [length Nat.sub skipn firstn Nat.add].
  destruct (tid_spec [d]) as (idl & Eidl & Tidl & Didl & Cidl & Hidl).
  rewrite Eidl. cbn [bind].
  assert (Lcup : length (data (tarr idl)) = size (([d] ++ [d]) ++ [])).
  { destruct Tidl as [_ L]. rewrite L, Didl, Cidl, app_nil_r. reflexivity. }
  rewrite mk_tensor_ok by exact Lcup. cbn [bind].
  set (cup := mkT ([d] ++ [d]) [] (mkArr (shape_of ([d] ++ [d]) []) (data (tarr idl)))).
  assert (Tcup : tok cup) by (apply tok_mk; exact Lcup).
  destruct (tid_spec []) as (id0 & Eid0 & Tid0 & Did0 & Cid0 & Hid0).
  rewrite Eid0. cbn [bind].
  destruct (ttensor_spec id0 cup Tid0 Tcup) as (x & Ex & Tx & Dx & Cx & Hx).
  rewrite Ex. cbn [bind].
  destruct (ttensor_spec x id0 Tx Tid0) as (layer & El & Tl & Dl & Cl & Hl).
  rewrite El. cbn [bind].
  assert (Ecomp : tcod r0 = tdom layer).
  { rewrite Cr0, Dl, Dx, Did0. cbn [tdom cup app]. reflexivity. }
  destruct (tthen_spec r0 layer Tr0 Tl Ecomp) as (c & Ec & Tc & Dc & Cc & Hc).
  exists c. split; [rewrite Ec; reflexivity|]. split; [exact Tc|].
  split; [rewrite Dc, Dr0; reflexivity|].
  split; [rewrite Cc, Cl, Cx, Cid0; reflexivity|].
  intros k1 k2 Hk1 Hk2.
  assert (Hk : in_shape (k1 ++ k2) [d; d])
    by (apply (in_shape_app k1 [d] k2 [d]); assumption).
  rewrite Hc; [| rewrite Dr0; exact Hk | rewrite Cl, Cx, Cid0; constructor].
  rewrite Cr0.
  rewrite (csum_ext _ (fun k => cmul (delta (nat_list_eqb (k1 ++ k2) k)) (entry layer k []))).
  2:{ intros k Hk'. apply indices_in_shape in Hk'.
      rewrite Hr0 by assumption. rewrite list_eqb_ravel by assumption. reflexivity. }
  rewrite (sum_delta [d; d] (k1 ++ k2) (fun k => entry layer k [])) by exact Hk.
  replace (entry layer (k1 ++ k2) []) with (entry layer ((k1 ++ k2) ++ []) ([] ++ []))
    by (rewrite app_nil_r; reflexivity).
  rewrite Hl; [| rewrite Dx, Did0; exact Hk | rewrite Did0; constructor
               | rewrite Cx, Cid0; constructor | rewrite Cid0; constructor].
  rewrite (tid_nil_entry id0 Eid0).
  replace (entry x (k1 ++ k2) []) with (entry x ([] ++ k1 ++ k2) ([] ++ [])) by reflexivity.
  rewrite Hx; [| rewrite Did0; constructor | exact Hk
               | rewrite Cid0; constructor | constructor].
  rewrite (tid_nil_entry id0 Eid0).
  replace (entry cup (k1 ++ k2) []) with (entry idl k1 k2).
  2:{ unfold entry. cbn [tdom tcod tarr cup data]. rewrite Didl, Cidl, !app_nil_r. reflexivity. }
  rewrite Hidl by assumption. rewrite list_eqb_ravel by assumption. ring.
Qed.

Lemma tcaps1_spec : forall d,
  exists c, tcaps [d] [d] = Ok c /\ tok c /\ tdom c = [] /\ tcod c = [d; d] /\
    forall k1 k2, in_shape k1 [d] -> in_shape k2 [d] ->
      entry c [] (k1 ++ k2) = delta (nat_list_eqb k1 k2).
Proof.
  intros d. unfold tcaps.
  destruct (tcups1_spec d) as (cu & Ecu & Tcu & Dcu & Ccu & Hcu).
  rewrite Ecu. cbn [bind].
  destruct (tdagger_spec cu Tcu) as (c & Ec & Tc & Dc & Cc & Hc).
  exists c. split; [exact Ec|]. split; [exact Tc|].
  split; [congruence|]. split; [congruence|].
  intros k1 k2 Hk1 Hk2.
  rewrite Hc; [| rewrite Dcu; apply (in_shape_app k1 [d] k2 [d]); assumption
               | rewrite Ccu; constructor].
  rewrite Hcu by assumption. destruct (nat_list_eqb k1 k2); reflexivity.
Qed.

(* ------------------------------------------------------------------ snake equations (single wire of any dimension) *)
Lemma csum_3 : forall d (F : list nat -> C),
  csum (map F (indices [d; d; d])) =
  csum (map (fun k1 => csum (map (fun k2 => csum (map (fun k3 => F (k1 ++ k2 ++ k3))
     (indices [d]))) (indices [d]))) (indices [d])).
Proof.
  intros. change [d; d; d] with ([d] ++ [d] ++ [d]). rewrite csum_indices_app.
  apply csum_ext. intros k1 _. rewrite csum_indices_app. reflexivity.
Qed.

Lemma three_deltas : forall d i j (T : list nat -> list nat -> list nat -> C),
  in_shape i [d] ->
  (forall k1 k2 k3, in_shape k1 [d] -> in_shape k2 [d] -> in_shape k3 [d] ->
     T k1 k2 k3 = cmul (delta (nat_list_eqb k2 k3))
                    (cmul (delta (nat_list_eqb k1 k2))
                       (cmul (delta (nat_list_eqb i k1)) (delta (nat_list_eqb k3 j)))) \/
     T k1 k2 k3 = cmul (delta (nat_list_eqb k2 k3))
                    (cmul (delta (nat_list_eqb k1 k2))
                       (cmul (delta (nat_list_eqb i k3)) (delta (nat_list_eqb k1 j))))) ->
  csum (map (fun k1 => csum (map (fun k2 => csum (map (fun k3 => T k1 k2 k3)
     (indices [d]))) (indices [d]))) (indices [d])) = delta (nat_list_eqb i j).
Proof.
  intros d i j T Hi HT.
  rewrite (csum_ext _ (fun k1 => cmul (delta (nat_list_eqb i k1)) (delta (nat_list_eqb k1 j)))).
  - rewrite (sum_delta [d] i (fun k1 => delta (nat_list_eqb k1 j))) by exact Hi. reflexivity.
  - intros k1 Hk1. apply indices_in_shape in Hk1.
    rewrite (csum_ext _ (fun k2 => cmul (delta (nat_list_eqb k1 k2))
                     (cmul (delta (nat_list_eqb i k2)) (delta (nat_list_eqb k1 j))))).
    + rewrite (sum_delta [d] k1 (fun k2 => cmul (delta (nat_list_eqb i k2))
                                            (delta (nat_list_eqb k1 j)))) by exact Hk1.
      reflexivity.
    + intros k2 Hk2. apply indices_in_shape in Hk2.
      rewrite (csum_ext _ (fun k3 => cmul (delta (nat_list_eqb k2 k3))
                       (cmul (delta (nat_list_eqb k1 k2))
                          (cmul (delta (nat_list_eqb i k3)) (delta (nat_list_eqb k1 j)))))).
      * rewrite (sum_delta [d] k2 (fun k3 => cmul (delta (nat_list_eqb k1 k2))
                   (cmul (delta (nat_list_eqb i k3)) (delta (nat_list_eqb k1 j))))) by exact Hk2.
        reflexivity.
      * intros k3 Hk3. apply indices_in_shape in Hk3.
        destruct (HT k1 k2 k3 Hk1 Hk2 Hk3) as [-> | ->]; [|reflexivity].
        (* when k1 = k2 = k3 both forms agree *)
        destruct (nat_list_eqb k2 k3) eqn:E23; cbn [delta]; [|ring].
        destruct (nat_list_eqb k1 k2) eqn:E12; cbn [delta]; [|ring].
        apply list_eqb_nat_eq in E23, E12. subst. reflexivity.
Qed.

Lemma snake_left_1 : forall d,
  exists t,
    (do i <- tid [d]; do cap <- tcaps [d] [d]; do cup <- tcups [d] [d];
     do x <- ttensor i cap; do y <- ttensor cup i; tthen x y) = Ok t /\
    tid [d] = Ok t.
Proof.
  intros d.
  destruct (tid_spec [d]) as (idd & Eid & Tid & Did & Cid & Hid).
  destruct (tcaps1_spec d) as (cap & Ecap & Tcap & Dcap & Ccap & Hcap).
  destruct (tcups1_spec d) as (cup & Ecup & Tcup & Dcup & Ccup & Hcup).
  destruct (ttensor_spec idd cap Tid Tcap) as (x & Ex & Tx & Dx & Cx & Hx).
  destruct (ttensor_spec cup idd Tcup Tid) as (y & Ey & Ty & Dy & Cy & Hy).
  assert (Ecomp : tcod x = tdom y) by (rewrite Cx, Dy, Cid, Ccap, Dcup, Did; reflexivity).
  destruct (tthen_spec x y Tx Ty Ecomp) as (t & Et & Tt & Dt & Ct & Ht).
  exists t. rewrite Eid, Ecap, Ecup. cbn [bind]. rewrite Ex, Ey. cbn [bind].
  split; [exact Et|]. f_equal. symmetry.
  apply tensor_ext; try assumption.
  - rewrite Dt, Dx, Did, Dcap. reflexivity.
  - rewrite Ct, Cy, Cid, Ccup. reflexivity.
  - intros i j Hi Hj. rewrite Dt, Dx, Did, Dcap in Hi. rewrite Ct, Cy, Cid, Ccup in Hj.
    cbn [app] in Hi, Hj.
    rewrite Ht; [| rewrite Dx, Did, Dcap; exact Hi | rewrite Cy, Cid, Ccup; exact Hj].
    rewrite Cx, Cid, Ccap. cbn [app]. rewrite csum_3.
    assert (HT : forall k1 k2 k3, in_shape k1 [d] -> in_shape k2 [d] -> in_shape k3 [d] ->
      cmul (entry x i (k1 ++ k2 ++ k3)) (entry y (k1 ++ k2 ++ k3) j) =
      cmul (delta (nat_list_eqb k2 k3)) (cmul (delta (nat_list_eqb k1 k2))
           (cmul (delta (nat_list_eqb i k1)) (delta (nat_list_eqb k3 j))))).
    { intros k1 k2 k3 Hk1 Hk2 Hk3.
      assert (H23 : in_shape (k2 ++ k3) [d; d]) by (apply (in_shape_app k2 [d] k3 [d]); assumption).
      assert (H12 : in_shape (k1 ++ k2) [d; d]) by (apply (in_shape_app k1 [d] k2 [d]); assumption).
      replace (entry x i (k1 ++ k2 ++ k3)) with (entry x (i ++ []) (k1 ++ k2 ++ k3))
        by (rewrite app_nil_r; reflexivity).
      rewrite Hx.
      2:{ rewrite Did; exact Hi. } 2:{ rewrite Dcap; constructor. }
      2:{ rewrite Cid; exact Hk1. } 2:{ rewrite Ccap; exact H23. }
      rewrite app_assoc.
      replace (entry y ((k1 ++ k2) ++ k3) j) with (entry y ((k1 ++ k2) ++ k3) ([] ++ j))
        by reflexivity.
      rewrite Hy.
      2:{ rewrite Dcup; exact H12. } 2:{ rewrite Did; exact Hk3. }
      2:{ rewrite Ccup; constructor. } 2:{ rewrite Cid; exact Hj. }
      rewrite (Hid i k1), (Hid k3 j), Hcap, Hcup by assumption.
      rewrite !list_eqb_ravel by assumption. ring. }
    rewrite (three_deltas d i j
              (fun k1 k2 k3 => cmul (entry x i (k1 ++ k2 ++ k3)) (entry y (k1 ++ k2 ++ k3) j)) Hi)
      by (intros; left; apply HT; assumption).
    rewrite Hid by assumption. rewrite list_eqb_ravel by assumption. reflexivity.
Qed.

Lemma snake_right_1 : forall d,
  exists t,
    (do i <- tid [d]; do cap <- tcaps [d] [d]; do cup <- tcups [d] [d];
     do x <- ttensor cap i; do y <- ttensor i cup; tthen x y) = Ok t /\
    tid [d] = Ok t.
Proof.
  intros d.
  destruct (tid_spec [d]) as (idd & Eid & Tid & Did & Cid & Hid).
  destruct (tcaps1_spec d) as (cap & Ecap & Tcap & Dcap & Ccap & Hcap).
  destruct (tcups1_spec d) as (cup & Ecup & Tcup & Dcup & Ccup & Hcup).
  destruct (ttensor_spec cap idd Tcap Tid) as (x & Ex & Tx & Dx & Cx & Hx).
  destruct (ttensor_spec idd cup Tid Tcup) as (y & Ey & Ty & Dy & Cy & Hy).
  assert (Ecomp : tcod x = tdom y) by (rewrite Cx, Dy, Cid, Ccap, Dcup, Did; reflexivity).
  destruct (tthen_spec x y Tx Ty Ecomp) as (t & Et & Tt & Dt & Ct & Ht).
  exists t. rewrite Eid, Ecap, Ecup. cbn [bind]. rewrite Ex, Ey. cbn [bind].
  split; [exact Et|]. f_equal. symmetry.
  apply tensor_ext; try assumption.
  - rewrite Dt, Dx, Did, Dcap. reflexivity.
  - rewrite Ct, Cy, Cid, Ccup. reflexivity.
  - intros i j Hi Hj. rewrite Dt, Dx, Did, Dcap in Hi. rewrite Ct, Cy, Cid, Ccup in Hj.
    cbn [app] in Hi, Hj.
    rewrite Ht; [| rewrite Dx, Did, Dcap; exact Hi | rewrite Cy, Cid, Ccup; exact Hj].
    rewrite Cx, Cid, Ccap. cbn [app]. rewrite csum_3.
    assert (HT : forall k1 k2 k3, in_shape k1 [d] -> in_shape k2 [d] -> in_shape k3 [d] ->
      cmul (entry x i (k1 ++ k2 ++ k3)) (entry y (k1 ++ k2 ++ k3) j) =
      cmul (delta (nat_list_eqb k2 k3)) (cmul (delta (nat_list_eqb k1 k2))
           (cmul (delta (nat_list_eqb i k3)) (delta (nat_list_eqb k1 j))))).
    { intros k1 k2 k3 Hk1 Hk2 Hk3.
      assert (H23 : in_shape (k2 ++ k3) [d; d]) by (apply (in_shape_app k2 [d] k3 [d]); assumption).
      assert (H12 : in_shape (k1 ++ k2) [d; d]) by (apply (in_shape_app k1 [d] k2 [d]); assumption).
      replace (entry y (k1 ++ k2 ++ k3) j) with (entry y (k1 ++ k2 ++ k3) (j ++ []))
        by (rewrite app_nil_r; reflexivity).
      rewrite Hy.
      2:{ rewrite Did; exact Hk1. } 2:{ rewrite Dcup; exact H23. }
      2:{ rewrite Cid; exact Hj. } 2:{ rewrite Ccup; constructor. }
      rewrite app_assoc.
      replace (entry x i ((k1 ++ k2) ++ k3)) with (entry x ([] ++ i) ((k1 ++ k2) ++ k3))
        by reflexivity.
      rewrite Hx.
      2:{ rewrite Dcap; constructor. } 2:{ rewrite Did; exact Hi. }
      2:{ rewrite Ccap; exact H12. } 2:{ rewrite Cid; exact Hk3. }
      rewrite (Hid i k3), (Hid k1 j), Hcap, Hcup by assumption.
      rewrite !list_eqb_ravel by assumption. ring. }
    rewrite (three_deltas d i j
              (fun k1 k2 k3 => cmul (entry x i (k1 ++ k2 ++ k3)) (entry y (k1 ++ k2 ++ k3) j)) Hi)
      by (intros; right; apply HT; assumption).
    rewrite Hid by assumption. rewrite list_eqb_ravel by assumption. reflexivity.
Qed.

(* ------------------------------------------------------------------ statements in boolean-hypothesis form (used by Props/C08.v) *)
Definition then_is_matmul_stmt : Prop := forall a b,
  tensor_ok a = true -> tensor_ok b = true -> tcod a = tdom b ->
  exists c, tthen a b = Ok c /\ tensor_ok c = true /\ tdom c = tdom a /\ tcod c = tcod b /\
    (forall i j, in_shapeb i (tdom a) = true -> in_shapeb j (tcod b) = true ->
       entry c i j = csum (map (fun k => cmul (entry a i k) (entry b k j)) (indices (tcod a)))) /\
    (forall r col, r < size (tdom a) -> col < size (tcod b) ->
       mat c r col = csum (map (fun m => cmul (mat a r m) (mat b m col)) (seq 0 (size (tcod a))))).

Lemma then_is_matmul_b : then_is_matmul_stmt.
Proof.
  intros a b Ha Hb E. apply tensor_ok_iff in Ha, Hb.
  destruct (tthen_spec a b Ha Hb E) as (c & Ec & Tc & Dc & Cc & Hent).
  exists c. repeat split; try assumption.
  - apply tensor_ok_iff; assumption.
  - intros i j Hi Hj. apply in_shapeb_iff in Hi, Hj. apply Hent; assumption.
  - apply (tthen_flat a b c Ha Hb E Ec).
Qed.

Lemma then_refuses_b : forall a b, tcod a <> tdom b -> tthen a b = Err AxiomError.
Proof.
  intros a b H. unfold tthen. destruct (nat_list_eqb (tcod a) (tdom b)) eqn:E; [|reflexivity].
  apply list_eqb_nat_eq in E. contradiction.
Qed.

Definition tensor_is_kron_stmt : Prop := forall a b,
  tensor_ok a = true -> tensor_ok b = true ->
  exists c, ttensor a b = Ok c /\ tensor_ok c = true /\
    tdom c = tdom a ++ tdom b /\ tcod c = tcod a ++ tcod b /\
    (forall ia ib ja jb,
       in_shapeb ia (tdom a) = true -> in_shapeb ib (tdom b) = true ->
       in_shapeb ja (tcod a) = true -> in_shapeb jb (tcod b) = true ->
       entry c (ia ++ ib) (ja ++ jb) = cmul (entry a ia ja) (entry b ib jb)) /\
    (forall ra rb ca cb, ra < size (tdom a) -> rb < size (tdom b) ->
       ca < size (tcod a) -> cb < size (tcod b) ->
       mat c (ra * size (tdom b) + rb) (ca * size (tcod b) + cb) = cmul (mat a ra ca) (mat b rb cb)).

Lemma tensor_is_kron_b : tensor_is_kron_stmt.
Proof.
  intros a b Ha Hb. apply tensor_ok_iff in Ha, Hb.
  destruct (ttensor_spec a b Ha Hb) as (c & Ec & Tc & Dc & Cc & Hent).
  exists c. repeat split; try assumption.
  - apply tensor_ok_iff; assumption.
  - intros ia ib ja jb H1 H2 H3 H4. apply in_shapeb_iff in H1, H2, H3, H4. apply Hent; assumption.
  - apply (ttensor_flat a b c Ha Hb Ec).
Qed.

Definition dagger_is_conj_transpose_stmt : Prop := forall a, tensor_ok a = true ->
  exists c, tdagger a = Ok c /\ tensor_ok c = true /\ tdom c = tcod a /\ tcod c = tdom a /\
    (forall i j, in_shapeb i (tdom a) = true -> in_shapeb j (tcod a) = true ->
       entry c j i = cconj (entry a i j)) /\
    (forall r col, r < size (tdom a) -> col < size (tcod a) -> mat c col r = cconj (mat a r col)).

Lemma dagger_is_conj_transpose_b : dagger_is_conj_transpose_stmt.
Proof.
  intros a Ha. apply tensor_ok_iff in Ha.
  destruct (tdagger_spec a Ha) as (c & Ec & Tc & Dc & Cc & Hent).
  exists c. repeat split; try assumption.
  - apply tensor_ok_iff; assumption.
  - intros i j Hi Hj. apply in_shapeb_iff in Hi, Hj. apply Hent; assumption.
  - apply (tdagger_flat a c Ha Ec).
Qed.

Lemma dagger_involutive_b : forall a, tensor_ok a = true ->
  (do b <- tdagger a; tdagger b) = Ok a.
Proof. intros a Ha. apply tensor_ok_iff in Ha. apply tdagger_involutive_tok. assumption. Qed.

Definition id_is_identity_matrix_stmt : Prop := forall d,
  exists c, tid d = Ok c /\ tensor_ok c = true /\ tdom c = d /\ tcod c = d /\
    (forall i j, in_shapeb i d = true -> in_shapeb j d = true ->
       entry c i j = delta (nat_list_eqb i j)) /\
    (forall r col, r < size d -> col < size d -> mat c r col = delta (r =? col)).

Lemma id_is_identity_matrix_b : id_is_identity_matrix_stmt.
Proof.
  intros d. destruct (tid_spec d) as (c & Ec & Tc & Dc & Cc & Hent).
  exists c. repeat split; try assumption.
  - apply tensor_ok_iff; assumption.
  - intros i j Hi Hj. apply in_shapeb_iff in Hi, Hj.
    rewrite Hent by assumption. rewrite list_eqb_ravel by assumption. reflexivity.
  - apply (tid_flat d c Ec).
Qed.

Definition swap_is_block_permutation_stmt : Prop := forall l r,
  exists c, tswap l r = Ok c /\ tensor_ok c = true /\ tdom c = l ++ r /\ tcod c = r ++ l /\
    (forall il ir jl jr,
       in_shapeb il l = true -> in_shapeb ir r = true ->
       in_shapeb jl l = true -> in_shapeb jr r = true ->
       entry c (il ++ ir) (jr ++ jl) = delta (nat_list_eqb il jl && nat_list_eqb ir jr)) /\
    (forall rl rr cl cr, rl < size l -> rr < size r -> cl < size l -> cr < size r ->
       mat c (rl * size r + rr) (cr * size l + cl) = delta ((rl =? cl) && (rr =? cr))).

Lemma swap_is_block_permutation_b : swap_is_block_permutation_stmt.
Proof.
  intros l r. destruct (tswap_spec l r) as (c & Ec & Tc & Dc & Cc & Hent).
  exists c. repeat split; try assumption.
  - apply tensor_ok_iff; assumption.
  - intros il ir jl jr H1 H2 H3 H4. apply in_shapeb_iff in H1, H2, H3, H4.
    rewrite Hent by assumption.
    rewrite nat_list_eqb_app
      by (rewrite (in_shape_length _ _ H1); symmetry; apply in_shape_length; assumption).
    reflexivity.
  - apply (tswap_flat l r c Ec).
Qed.

Lemma interchange_law_b : forall a b c d,
  tensor_ok a = true -> tensor_ok b = true -> tensor_ok c = true -> tensor_ok d = true ->
  tcod a = tdom c -> tcod b = tdom d ->
  exists t, (do x <- ttensor a b; do y <- ttensor c d; tthen x y) = Ok t /\
            (do x <- tthen a c; do y <- tthen b d; ttensor x y) = Ok t.
Proof.
  intros a b c d Ha Hb Hc Hd. apply tensor_ok_iff in Ha, Hb, Hc, Hd.
  apply interchange_law_tok; assumption.
Qed.

Lemma swap_natural_b : forall a b, tensor_ok a = true -> tensor_ok b = true ->
  exists t, (do x <- ttensor a b; do s <- tswap (tcod a) (tcod b); tthen x s) = Ok t /\
            (do s <- tswap (tdom a) (tdom b); do y <- ttensor b a; tthen s y) = Ok t.
Proof.
  intros a b Ha Hb. apply tensor_ok_iff in Ha, Hb. apply swap_natural_tok; assumption.
Qed.

(* cups / caps of a single wire of any dimension d *)
Lemma cups_caps_single_wire_b : forall d,
  (exists c, tcups [d] [d] = Ok c /\ tensor_ok c = true /\ tdom c = [d; d] /\ tcod c = [] /\
     forall a b, a < d -> b < d -> entry c [a; b] [] = delta (a =? b)) /\
  (exists c, tcaps [d] [d] = Ok c /\ tensor_ok c = true /\ tdom c = [] /\ tcod c = [d; d] /\
     forall a b, a < d -> b < d -> entry c [] [a; b] = delta (a =? b)).
Proof.
  intros d. split.
  - destruct (tcups1_spec d) as (c & Ec & Tc & Dc & Cc & Hent).
    exists c. repeat split; try assumption; [apply tensor_ok_iff; assumption|].
    intros a b Ha Hb. change [a; b] with ([a] ++ [b]).
    rewrite (Hent [a] [b]) by (repeat constructor; assumption).
    cbn [nat_list_eqb list_eqb]. rewrite andb_true_r. reflexivity.
  - destruct (tcaps1_spec d) as (c & Ec & Tc & Dc & Cc & Hent).
    exists c. repeat split; try assumption; [apply tensor_ok_iff; assumption|].
    intros a b Ha Hb. change [a; b] with ([a] ++ [b]).
    rewrite (Hent [a] [b]) by (repeat constructor; assumption).
    cbn [nat_list_eqb list_eqb]. rewrite andb_true_r. reflexivity.
Qed.

Lemma cups_refuses_b : forall l r, rev l <> r -> tcups l r = Err AxiomError.
Proof.
  intros l r H. unfold tcups.
  destruct (nat_list_eqb (rev l) r) eqn:E1; [apply list_eqb_nat_eq in E1; contradiction|].
  destruct (nat_list_eqb (rev r) l) eqn:E2; [|reflexivity].
  apply list_eqb_nat_eq in E2. exfalso. apply H. rewrite <- E2. apply rev_involutive.
Qed.

(* The snake equations for arbitrary (multi-wire) types: full statements, NOT
   asserted.  Proved below: the single-wire case for every dimension
   (snake_left_1, snake_right_1); checked by computation on Dim(3, 2)
   (the snake_..._example_32 Examples), and by the harness oracle on the
   implementation for every adjoint pair it generates. *)
Definition snake_left_prog (x : list nat) : res tensor :=
  do i <- tid x; do cap <- tcaps (rev x) x; do cup <- tcups x (rev x);
  do a <- ttensor i cap; do b <- ttensor cup i; tthen a b.
Definition snake_right_prog (x : list nat) : res tensor :=
  do i <- tid x; do cap <- tcaps x (rev x); do cup <- tcups (rev x) x;
  do a <- ttensor cap i; do b <- ttensor i cup; tthen a b.
Definition snake_left_stmt : Prop := forall x, exists t, snake_left_prog x = Ok t /\ tid x = Ok t.
Definition snake_right_stmt : Prop := forall x, exists t, snake_right_prog x = Ok t /\ tid x = Ok t.

Lemma snake_left_partial : forall d, exists t, snake_left_prog [d] = Ok t /\ tid [d] = Ok t.
Proof. intros d. exact (snake_left_1 d). Qed.
Lemma snake_right_partial : forall d, exists t, snake_right_prog [d] = Ok t /\ tid [d] = Ok t.
Proof. intros d. exact (snake_right_1 d). Qed.

Example snake_left_example_32 : snake_left_prog [3; 2] = tid [3; 2].
Proof. vm_compute. reflexivity. Qed.
Example snake_right_example_32 : snake_right_prog [3; 2] = tid [3; 2].
Proof. vm_compute. reflexivity. Qed.

(* ------------------------------------------------------------------ non-vacuity *)
Definition ex_a : tensor :=     (* 2 -> (2, 3), Gaussian-integer entries *)
  mkT [2] [2; 3] (mkArr [2; 2; 3]
    [(1, 0); (0, 2); (3, 0); (-1, 1); (0, 0); (2, -1);
     (0, 1); (1, 1); (2, 0); (0, 0); (-2, 0); (1, 0)]%Z).
Definition ex_b : tensor :=     (* (2, 3) -> 2 *)
  mkT [2; 3] [2] (mkArr [2; 3; 2]
    [(1, 0); (0, 0); (0, 1); (1, 0); (2, 0); (0, 0);
     (0, 0); (1, -1); (1, 0); (0, 0); (3, 0); (0, 2)]%Z).
Definition ex_s : tensor := mkT [] [] (mkArr [1] [(2, 1)%Z]).        (* a scalar *)
Definition ex_v : tensor := mkT [] [3] (mkArr [3] [(1, 0); (0, 1); (2, 0)]%Z).  (* a state *)

Example hypotheses_satisfiable :
  tensor_ok ex_a = true /\ tensor_ok ex_b = true /\ tensor_ok ex_s = true /\
  tensor_ok ex_v = true /\ tcod ex_a = tdom ex_b /\ tcod ex_s = tdom ex_v /\
  in_shapeb [1] (tdom ex_a) = true /\ in_shapeb [1; 2] (tcod ex_a) = true /\
  in_shapeb [] (tdom ex_s) = true /\ 1 < size (tdom ex_a) /\ 5 < size (tcod ex_a).
Proof. repeat split; vm_compute; try reflexivity; lia. Qed.

Example then_example : exists c, tthen ex_a ex_b = Ok c /\ entry c [1] [0] = (4, 2)%Z.
Proof. eexists. split; vm_compute; reflexivity. Qed.

Example kron_example : exists c, ttensor ex_a ex_v = Ok c /\
  entry c ([1] ++ []) ([0; 1] ++ [1]) = cmul (entry ex_a [1] [0; 1]) (entry ex_v [] [1]) /\
  entry c [1] [0; 1; 1] = (-1, 1)%Z.
Proof. eexists. repeat split; vm_compute; reflexivity. Qed.

Example scalar_examples :
  (exists c, tthen ex_s ex_v = Ok c /\ tdom c = [] /\ shape (tarr c) = [3]) /\
  (exists c, ttensor ex_s ex_s = Ok c /\ shape (tarr c) = [1] /\ data (tarr c) = [(3, 4)%Z]) /\
  (exists c, tdagger ex_s = Ok c /\ data (tarr c) = [(2, -1)%Z]).
Proof. repeat split; eexists; repeat split; vm_compute; reflexivity. Qed.

Example swap_example : exists c, tswap [2; 3] [4] = Ok c /\
  entry c ([1; 2] ++ [3]) ([3] ++ [1; 2]) = cone /\ entry c [1; 2; 3] [3; 2; 1] = czero.
Proof. eexists. repeat split; vm_compute; reflexivity. Qed.

Example refusal_examples :
  tthen ex_a ex_a = Err AxiomError /\ tcups [3; 2] [3; 2] = Err AxiomError /\
  (exists c, tcups [3; 2] [2; 3] = Ok c /\ tdom c = [3; 2; 2; 3]).
Proof. repeat split; try (vm_compute; reflexivity). eexists. split; vm_compute; reflexivity. Qed.
