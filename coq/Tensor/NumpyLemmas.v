(* Lemmas about the numpy model (Tensor/NumpyModel.v): the ring of Gaussian
   integers, row-major ravel / indices, tabulate / get, permutations and the
   order computed by numpy.moveaxis, tensordot. *)
From Coq Require Import List ZArith Bool Arith Lia Ring.
Import ListNotations.
Require Import DV.Common.Base DV.Tensor.NumpyModel.
Open Scope nat_scope.

(* ------------------------------------------------------------------ scalars *)
Lemma C_ring : ring_theory czero cone cadd cmul csub copp eq.
Proof.
  constructor; intros;
    repeat match goal with x : C |- _ => destruct x end;
    unfold csub, copp, cadd, cmul, czero, cone; cbn [fst snd]; f_equal; ring.
Qed.
Add Ring Cring : C_ring.

Lemma cconj_mul : forall x y, cconj (cmul x y) = cmul (cconj x) (cconj y).
Proof. intros [a b] [c d]; unfold cconj, cmul; cbn [fst snd]; f_equal; ring. Qed.
Lemma cconj_add : forall x y, cconj (cadd x y) = cadd (cconj x) (cconj y).
Proof. intros [a b] [c d]; unfold cconj, cadd; cbn [fst snd]; f_equal; ring. Qed.
Lemma cconj_invol : forall x, cconj (cconj x) = x.
Proof. intros [a b]; unfold cconj; cbn [fst snd]; f_equal; ring. Qed.
Lemma cconj_zero : cconj czero = czero. Proof. reflexivity. Qed.
Lemma cconj_one : cconj cone = cone. Proof. reflexivity. Qed.

Lemma csum_cons : forall x l, csum (x :: l) = cadd x (csum l).
Proof. reflexivity. Qed.
Lemma csum_nil : csum [] = czero.
Proof. reflexivity. Qed.
Ltac csimp := cbn [app map flat_map]; rewrite ?csum_cons, ?csum_nil.

Lemma csum_app : forall l1 l2, csum (l1 ++ l2) = cadd (csum l1) (csum l2).
Proof. induction l1; intros; csimp; [ring | rewrite IHl1; ring]. Qed.

Lemma csum_flat_map : forall {A} (f : A -> list C) l,
  csum (flat_map f l) = csum (map (fun x => csum (f x)) l).
Proof. induction l; csimp; [reflexivity | rewrite csum_app, IHl; reflexivity]. Qed.

Lemma csum_mul_l : forall c l, cmul c (csum l) = csum (map (cmul c) l).
Proof. induction l; csimp; [ring | rewrite <- IHl; ring]. Qed.

Lemma csum_mul_r : forall c l, cmul (csum l) c = csum (map (fun x => cmul x c) l).
Proof. induction l; csimp; [ring | rewrite <- IHl; ring]. Qed.

Lemma csum_add : forall {A} (f g : A -> C) l,
  csum (map (fun x => cadd (f x) (g x)) l) = cadd (csum (map f l)) (csum (map g l)).
Proof. induction l; csimp; [ring | rewrite IHl; ring]. Qed.

Lemma csum_zero : forall {A} (l : list A), csum (map (fun _ => czero) l) = czero.
Proof. induction l; csimp; [reflexivity | rewrite IHl; ring]. Qed.

Lemma csum_ext : forall {A} (f g : A -> C) l,
  (forall x, In x l -> f x = g x) -> csum (map f l) = csum (map g l).
Proof. intros. f_equal. apply map_ext_in; assumption. Qed.

Lemma csum_conj : forall l, cconj (csum l) = csum (map cconj l).
Proof. induction l; csimp; [reflexivity | rewrite cconj_add, IHl; reflexivity]. Qed.

(* exchange of two finite sums *)
Lemma csum_swap : forall {A B} (f : A -> B -> C) la lb,
  csum (map (fun a => csum (map (fun b => f a b) lb)) la) =
  csum (map (fun b => csum (map (fun a => f a b) la)) lb).
Proof.
  induction la; intros; csimp.
  - rewrite csum_zero. reflexivity.
  - rewrite IHla. rewrite <- csum_add. reflexivity.
Qed.

(* ------------------------------------------------------------------ generic lists *)
Lemma flat_map_ext_in : forall {A B} (f g : A -> list B) l,
  (forall x, In x l -> f x = g x) -> flat_map f l = flat_map g l.
Proof.
  induction l; intros; cbn; [reflexivity|].
  rewrite H by (left; reflexivity). rewrite IHl; [reflexivity|].
  intros; apply H; right; assumption.
Qed.

Lemma flat_map_flat_map : forall {A B D} (g : B -> list D) (h : A -> list B) l,
  flat_map g (flat_map h l) = flat_map (fun x => flat_map g (h x)) l.
Proof. induction l; cbn; [reflexivity | rewrite flat_map_app, IHl; reflexivity]. Qed.

Lemma flat_map_map : forall {A B D} (g : B -> list D) (h : A -> B) l,
  flat_map g (map h l) = flat_map (fun x => g (h x)) l.
Proof. induction l; cbn; [reflexivity | rewrite IHl; reflexivity]. Qed.

Lemma map_flat_map : forall {A B D} (g : B -> D) (h : A -> list B) l,
  map g (flat_map h l) = flat_map (fun x => map g (h x)) l.
Proof. induction l; cbn; [reflexivity | rewrite map_app, IHl; reflexivity]. Qed.

Lemma length_flat_map_const : forall {A B} (f : A -> list B) m l,
  (forall x, In x l -> length (f x) = m) -> length (flat_map f l) = length l * m.
Proof.
  induction l; intros; cbn; [reflexivity|].
  rewrite app_length, H by (left; reflexivity). rewrite IHl; [reflexivity|].
  intros; apply H; right; assumption.
Qed.

Lemma nth_flat_map_const : forall {A B} (f : A -> list B) m d d0 l i j,
  (forall x, length (f x) = m) -> j < m -> i < length l ->
  nth (i * m + j) (flat_map f l) d = nth j (f (nth i l d0)) d.
Proof.
  induction l; intros i j Hm Hj Hi; cbn in Hi; [lia|].
  cbn [flat_map]. destruct i.
  - cbn [nth Nat.mul Nat.add]. apply app_nth1. rewrite Hm; assumption.
  - rewrite app_nth2 by (rewrite Hm; cbn; lia).
    rewrite Hm. replace (S i * m + j - m) with (i * m + j) by (cbn; lia).
    cbn [nth]. apply IHl; [assumption | assumption | lia].
Qed.

Lemma nth_map_default : forall {A B} (f : A -> B) l n d d',
  n < length l -> nth n (map f l) d = f (nth n l d').
Proof.
  intros. rewrite nth_indep with (d' := f d') by (rewrite map_length; assumption).
  apply map_nth.
Qed.

Lemma filter_all : forall {A} (f : A -> bool) l,
  (forall x, In x l -> f x = true) -> filter f l = l.
Proof.
  induction l; intros; cbn; [reflexivity|].
  rewrite H by (left; reflexivity). f_equal. apply IHl. intros; apply H; right; assumption.
Qed.

Lemma filter_none : forall {A} (f : A -> bool) l,
  (forall x, In x l -> f x = false) -> filter f l = [].
Proof.
  induction l; intros; cbn; [reflexivity|].
  rewrite H by (left; reflexivity). apply IHl. intros; apply H; right; assumption.
Qed.

Lemma firstn_app_exact : forall {A} (X T : list A) n, length X = n -> firstn n (X ++ T) = X.
Proof.
  intros; subst. rewrite firstn_app, Nat.sub_diag, firstn_all. cbn [firstn]. apply app_nil_r.
Qed.

Lemma skipn_app_exact : forall {A} (X T : list A) n, length X = n -> skipn n (X ++ T) = T.
Proof.
  intros; subst. rewrite skipn_app, Nat.sub_diag, skipn_all. reflexivity.
Qed.

Lemma fold_left_flat_map : forall {A B D} (step : A -> B -> A) (g : D -> list B) l o,
  fold_left step (flat_map g l) o = fold_left (fun o d => fold_left step (g d) o) l o.
Proof. induction l; intros; cbn; [reflexivity | rewrite fold_left_app, IHl; reflexivity]. Qed.

Lemma map_seq_shift : forall (f : nat -> nat) k a g,
  (forall i, a <= i < a + k -> f i = g + (i - a)) -> map f (seq a k) = seq g k.
Proof.
  induction k; intros; cbn; [reflexivity|].
  f_equal.
  - rewrite H by lia. lia.
  - apply IHk. intros. rewrite H by lia. lia.
Qed.

Lemma list_eqb_nat_refl : forall l, nat_list_eqb l l = true.
Proof. induction l; cbn; [reflexivity | rewrite Nat.eqb_refl; assumption]. Qed.

Lemma list_eqb_nat_eq : forall a b, nat_list_eqb a b = true <-> a = b.
Proof.
  induction a; destruct b; cbn; split; intros; try congruence; try reflexivity.
  - apply andb_prop in H. destruct H as [H1 H2]. apply Nat.eqb_eq in H1.
    apply IHa in H2. congruence.
  - inversion H; subst. rewrite Nat.eqb_refl. apply IHa. reflexivity.
Qed.

(* ------------------------------------------------------------------ shapes, indices, ravel *)
Definition in_shape (idx sh : list nat) : Prop := Forall2 lt idx sh.

Lemma in_shape_length : forall idx sh, in_shape idx sh -> length idx = length sh.
Proof. induction 1; cbn; congruence. Qed.

Lemma in_shape_app : forall i1 s1 i2 s2,
  in_shape i1 s1 -> in_shape i2 s2 -> in_shape (i1 ++ i2) (s1 ++ s2).
Proof. intros. apply Forall2_app; assumption. Qed.

Lemma in_shape_app_inv : forall s1 s2 idx, in_shape idx (s1 ++ s2) ->
  exists i1 i2, idx = i1 ++ i2 /\ in_shape i1 s1 /\ in_shape i2 s2.
Proof.
  intros. apply Forall2_app_inv_r in H. destruct H as (i1 & i2 & H1 & H2 & E).
  exists i1, i2. auto.
Qed.

Lemma in_shape_nil : forall idx, in_shape idx [] -> idx = [].
Proof. intros. inversion H. reflexivity. Qed.

Lemma size_cons : forall d sh, size (d :: sh) = d * size sh.
Proof. reflexivity. Qed.

Lemma size_app : forall a b, size (a ++ b) = size a * size b.
Proof.
  induction a; intros; cbn [app]; [cbn; lia|].
  rewrite !size_cons, IHa. ring.
Qed.

Lemma length_indices : forall sh, length (indices sh) = size sh.
Proof.
  induction sh; cbn; [reflexivity|].
  rewrite length_flat_map_const with (m := size sh).
  - rewrite seq_length. reflexivity.
  - intros. rewrite map_length. assumption.
Qed.

Lemma ravel_lt : forall idx sh, in_shape idx sh -> ravel sh idx < size sh.
Proof.
  induction 1 as [|x y l l' Hxy H IH]; [cbn; lia|].
  cbn [ravel hd tl]. rewrite size_cons.
  assert (S x * size l' <= y * size l') by (apply Nat.mul_le_mono_r; lia).
  lia.
Qed.

Lemma nth_ravel_indices : forall idx sh d, in_shape idx sh ->
  nth (ravel sh idx) (indices sh) d = idx.
Proof.
  induction 1 as [|i n idx sh Hi H IH]; [reflexivity|].
  cbn [ravel indices hd tl].
  rewrite nth_flat_map_const with (m := size sh) (d0 := 0).
  - rewrite seq_nth by assumption. cbn [Nat.add].
    rewrite nth_map_default with (d' := d) by (rewrite length_indices; apply ravel_lt; assumption).
    rewrite IH. reflexivity.
  - intros. rewrite map_length. apply length_indices.
  - apply ravel_lt; assumption.
  - rewrite seq_length. assumption.
Qed.

Lemma indices_in_shape : forall sh idx, In idx (indices sh) -> in_shape idx sh.
Proof.
  induction sh; cbn; intros.
  - destruct H as [<-|[]]. constructor.
  - apply in_flat_map in H. destruct H as (i & Hi & H).
    apply in_map_iff in H. destruct H as (k & <- & Hk).
    apply in_seq in Hi. constructor; [lia | apply IHsh; assumption].
Qed.

Lemma in_shape_indices : forall idx sh, in_shape idx sh -> In idx (indices sh).
Proof.
  intros. rewrite <- (nth_ravel_indices idx sh [] H).
  apply nth_In. rewrite length_indices. apply ravel_lt. assumption.
Qed.

Lemma ravel_app : forall sh1 sh2 i j, length i = length sh1 ->
  ravel (sh1 ++ sh2) (i ++ j) = ravel sh1 i * size sh2 + ravel sh2 j.
Proof.
  induction sh1; intros sh2 i j Hl.
  - destruct i; [|discriminate]. reflexivity.
  - destruct i as [|x i]; [discriminate|]. cbn in Hl.
    cbn [app ravel hd tl]. rewrite IHsh1 by lia. rewrite size_app. ring.
Qed.

Lemma ravel_inj : forall i j sh, in_shape i sh -> in_shape j sh ->
  ravel sh i = ravel sh j -> i = j.
Proof.
  intros. rewrite <- (nth_ravel_indices i sh [] H), <- (nth_ravel_indices j sh [] H0).
  congruence.
Qed.

(* every offset below the size is the ravel of an in-shape index *)
Lemma ravel_nth_indices : forall sh r, r < size sh -> ravel sh (nth r (indices sh) []) = r.
Proof.
  induction sh; intros r Hr.
  - cbn in Hr. cbn. lia.
  - rewrite size_cons in Hr. cbn [indices ravel].
    assert (Hs : size sh <> 0) by (intro E; rewrite E in Hr; lia).
    pose proof (Nat.div_mod r (size sh) Hs) as E.
    pose proof (Nat.mod_upper_bound r (size sh) Hs) as Hm.
    assert (Hd : r / size sh < a) by (apply Nat.div_lt_upper_bound; [assumption | lia]).
    assert (Hnth : nth r (flat_map (fun i => map (cons i) (indices sh)) (seq 0 a)) []
                   = (r / size sh) :: nth (r mod size sh) (indices sh) []).
    { rewrite E at 1. rewrite (Nat.mul_comm (size sh)).
      rewrite nth_flat_map_const with (m := size sh) (d0 := 0).
      + rewrite seq_nth by assumption. cbn [Nat.add].
        apply nth_map_default. rewrite length_indices; assumption.
      + intros. rewrite map_length. apply length_indices.
      + assumption.
      + rewrite seq_length. assumption. }
    rewrite Hnth. cbn [hd tl]. rewrite IHsh by assumption. lia.
Qed.

Lemma indices_app : forall sh1 sh2,
  indices (sh1 ++ sh2) = flat_map (fun i => map (app i) (indices sh2)) (indices sh1).
Proof.
  induction sh1; intros; cbn [app indices].
  - cbn. rewrite app_nil_r. symmetry. apply map_id.
  - rewrite IHsh1. rewrite flat_map_flat_map.
    apply flat_map_ext_in. intros i _.
    rewrite flat_map_map, map_flat_map.
    apply flat_map_ext_in. intros k _.
    rewrite map_map. reflexivity.
Qed.

(* ------------------------------------------------------------------ tabulate / get *)
Lemma get_tabulate : forall sh f idx, in_shape idx sh -> get (tabulate sh f) idx = f idx.
Proof.
  intros. unfold get, tabulate. cbn [shape data].
  rewrite nth_map_default with (d' := []) by (rewrite length_indices; apply ravel_lt; assumption).
  rewrite nth_ravel_indices by assumption. reflexivity.
Qed.

Lemma nth_tabulate : forall sh f idx, in_shape idx sh ->
  nth (ravel sh idx) (map f (indices sh)) czero = f idx.
Proof. intros. apply (get_tabulate sh f idx H). Qed.

Lemma tabulate_ext : forall sh f g,
  (forall idx, in_shape idx sh -> f idx = g idx) -> tabulate sh f = tabulate sh g.
Proof.
  intros. unfold tabulate. f_equal. apply map_ext_in. intros.
  apply H. apply indices_in_shape. assumption.
Qed.

Lemma data_tabulate_length : forall sh f, length (data (tabulate sh f)) = size sh.
Proof. intros. cbn. rewrite map_length. apply length_indices. Qed.

(* two flat data lists of the right length with equal entries at every index are equal *)
Lemma data_ext : forall sh (da db : list C),
  length da = size sh -> length db = size sh ->
  (forall idx, in_shape idx sh -> nth (ravel sh idx) da czero = nth (ravel sh idx) db czero) ->
  da = db.
Proof.
  intros sh da db Ha Hb H. apply nth_ext with (d := czero) (d' := czero); [congruence|].
  intros n Hn. rewrite Ha in Hn.
  rewrite <- (ravel_nth_indices sh n Hn). apply H.
  apply indices_in_shape. apply nth_In. rewrite length_indices. assumption.
Qed.

Lemma data_as_map_get : forall a, length (data a) = size (shape a) ->
  data a = map (get a) (indices (shape a)).
Proof.
  intros. apply data_ext with (sh := shape a).
  - assumption.
  - rewrite map_length. apply length_indices.
  - intros. rewrite nth_tabulate by assumption. reflexivity.
Qed.

Lemma tabulate_get : forall a, length (data a) = size (shape a) ->
  tabulate (shape a) (get a) = a.
Proof.
  intros. unfold tabulate. rewrite <- data_as_map_get by assumption. destruct a; reflexivity.
Qed.

(* ------------------------------------------------------------------ permutations *)
Definition perm_of (l : list nat) (n : nat) : Prop :=
  length l = n /\ forall i, i < n -> In i l.

Lemma perm_of_NoDup : forall l n, perm_of l n -> NoDup l.
Proof.
  intros l n [Hl Hi]. apply NoDup_incl_NoDup with (l := seq 0 n).
  - apply seq_NoDup.
  - rewrite seq_length. lia.
  - intros x Hx. apply in_seq in Hx. apply Hi. lia.
Qed.

Lemma perm_of_lt : forall l n x, perm_of l n -> In x l -> x < n.
Proof.
  intros l n x [Hl Hi] Hx.
  assert (incl l (seq 0 n)).
  { apply NoDup_length_incl.
    - apply seq_NoDup.
    - rewrite seq_length. lia.
    - intros y Hy. apply in_seq in Hy. apply Hi. lia. }
  apply H in Hx. apply in_seq in Hx. lia.
Qed.

Lemma find_index_lt : forall x l, In x l -> find_index x l < length l.
Proof.
  induction l; cbn; intros; [contradiction|].
  destruct (x =? a) eqn:E; [lia|].
  destruct H as [->|H]; [rewrite Nat.eqb_refl in E; discriminate|].
  apply IHl in H. lia.
Qed.

Lemma nth_find_index : forall x l d, In x l -> nth (find_index x l) l d = x.
Proof.
  induction l; cbn; intros; [contradiction|].
  destruct (x =? a) eqn:E.
  - apply Nat.eqb_eq in E. congruence.
  - destruct H as [->|H]; [rewrite Nat.eqb_refl in E; discriminate|]. apply IHl. assumption.
Qed.

Lemma find_index_nth : forall l i d, NoDup l -> i < length l -> find_index (nth i l d) l = i.
Proof.
  induction l; cbn; intros i d Hn Hi; [lia|].
  inversion Hn; subst. destruct i.
  - rewrite Nat.eqb_refl. reflexivity.
  - destruct (nth i l d =? a) eqn:E.
    + apply Nat.eqb_eq in E. exfalso. apply H1. rewrite <- E. apply nth_In. lia.
    + f_equal. apply IHl; [assumption | lia].
Qed.

Lemma find_index_app_l : forall x l1 l2, In x l1 -> find_index x (l1 ++ l2) = find_index x l1.
Proof.
  induction l1; cbn; intros; [contradiction|].
  destruct (x =? a) eqn:E; [reflexivity|].
  destruct H as [->|H]; [rewrite Nat.eqb_refl in E; discriminate|].
  f_equal. apply IHl1. assumption.
Qed.

Lemma find_index_app_r : forall x l1 l2, ~ In x l1 ->
  find_index x (l1 ++ l2) = length l1 + find_index x l2.
Proof.
  induction l1; cbn; intros; [reflexivity|].
  destruct (x =? a) eqn:E.
  - apply Nat.eqb_eq in E. exfalso. apply H. left. congruence.
  - f_equal. apply IHl1. intro. apply H. right. assumption.
Qed.

Lemma find_index_seq : forall k s i, i < k -> find_index (s + i) (seq s k) = i.
Proof.
  intros. rewrite <- (seq_nth s 0 H) at 1.
  apply find_index_nth; [apply seq_NoDup | rewrite seq_length; assumption].
Qed.

Lemma gather_length : forall {A} (d : A) l perm, length (gather d l perm) = length perm.
Proof. intros. apply map_length. Qed.

Lemma gather_nth : forall {A} (d : A) l perm i, i < length perm ->
  nth i (gather d l perm) d = nth (nth i perm 0) l d.
Proof. intros. unfold gather. exact (nth_map_default (fun p => nth p l d) perm i d 0 H). Qed.

Lemma gather_app : forall {A} (d : A) l p1 p2,
  gather d l (p1 ++ p2) = gather d l p1 ++ gather d l p2.
Proof. intros. apply map_app. Qed.

(* gathering a contiguous range of positions returns that block *)
Lemma gather_block : forall {A} (d : A) (B A0 T : list A),
  gather d (A0 ++ B ++ T) (seq (length A0) (length B)) = B.
Proof.
  induction B; intros; [reflexivity|].
  cbn [length seq gather map]. f_equal.
  - cbn [app]. apply nth_middle.
  - change (map (fun p => nth p (A0 ++ (a :: B) ++ T) d) (seq (S (length A0)) (length B)))
      with (gather d (A0 ++ (a :: B) ++ T) (seq (S (length A0)) (length B))).
    replace (A0 ++ (a :: B) ++ T) with ((A0 ++ [a]) ++ B ++ T)
      by (rewrite <- app_assoc; reflexivity).
    replace (S (length A0)) with (length (A0 ++ [a])) by (rewrite app_length; cbn; lia).
    apply IHB.
Qed.

Lemma gather_block' : forall {A} (d : A) l (A0 B T : list A) s k,
  l = A0 ++ B ++ T -> s = length A0 -> k = length B -> gather d l (seq s k) = B.
Proof. intros; subst. apply gather_block. Qed.

Lemma gather_id : forall {A} (d : A) l, gather d l (seq 0 (length l)) = l.
Proof.
  intros. apply gather_block' with (A0 := []) (T := []); [rewrite app_nil_r|..]; reflexivity.
Qed.

Section Inverse.
  Variable dst : list nat.
  Variable n : nat.
  Hypothesis Hperm : perm_of dst n.
  Let order := map (fun d => find_index d dst) (seq 0 n).

  Lemma order_length : length order = n.
  Proof. unfold order. rewrite map_length, seq_length. reflexivity. Qed.

  Lemma order_nth : forall i, i < n -> nth i order 0 = find_index i dst.
  Proof.
    intros. unfold order.
    rewrite nth_map_default with (d' := 0) by (rewrite seq_length; assumption).
    rewrite seq_nth by assumption. reflexivity.
  Qed.

  Lemma order_perm : perm_of order n.
  Proof.
    split; [apply order_length|]. intros i Hi.
    destruct Hperm as [Hl Hin].
    assert (Hd : nth i dst 0 < n).
    { apply perm_of_lt with (l := dst); [exact Hperm | apply nth_In; lia]. }
    unfold order. apply in_map_iff. exists (nth i dst 0). split.
    - apply find_index_nth; [apply perm_of_NoDup with n; exact Hperm | lia].
    - apply in_seq. lia.
  Qed.

  Lemma gather_gather_order : forall {A} (d : A) (X : list A), length X = n ->
    gather d (gather d X dst) order = X.
  Proof.
    intros A d X HX. destruct Hperm as [Hl Hin].
    apply nth_ext with (d := d) (d' := d).
    - rewrite gather_length. rewrite order_length. lia.
    - intros i Hi. rewrite gather_length, order_length in Hi.
      rewrite gather_nth by (rewrite order_length; assumption).
      rewrite order_nth by assumption.
      rewrite gather_nth by (apply find_index_lt; apply Hin; assumption).
      rewrite nth_find_index by (apply Hin; assumption). reflexivity.
  Qed.

  Lemma scatter_order : forall Y, length Y = n -> scatter order Y = gather 0 Y dst.
  Proof.
    intros Y HY. destruct Hperm as [Hl Hin]. unfold scatter. rewrite order_length.
    apply nth_ext with (d := 0) (d' := 0).
    - rewrite map_length, seq_length, gather_length. lia.
    - intros j Hj. rewrite map_length, seq_length in Hj.
      rewrite nth_map_default with (d' := 0) by (rewrite seq_length; assumption).
      rewrite seq_nth by assumption. cbn [Nat.add].
      rewrite gather_nth by lia.
      f_equal.
      assert (Hd : nth j dst 0 < n).
      { apply perm_of_lt with (l := dst); [exact Hperm | apply nth_In; lia]. }
      rewrite <- (find_index_nth dst j 0) at 1
        by (try apply perm_of_NoDup with n; try exact Hperm; lia).
      rewrite <- order_nth by assumption.
      apply find_index_nth.
      + apply perm_of_NoDup with n. apply order_perm.
      + rewrite order_length. assumption.
  Qed.
End Inverse.

(* ------------------------------------------------------------------ moveaxis *)
Lemma mem_true_iff : forall x l, mem x l = true <-> In x l.
Proof.
  intros. unfold mem. rewrite existsb_exists. split.
  - intros (y & Hy & E). apply Nat.eqb_eq in E. congruence.
  - intros. exists x. split; [assumption | apply Nat.eqb_refl].
Qed.

Lemma mem_false_iff : forall x l, mem x l = false <-> ~ In x l.
Proof.
  intros. rewrite <- mem_true_iff. destruct (mem x l); split; intros; congruence.
Qed.

Lemma nodupb_true : forall l, NoDup l -> nodupb l = true.
Proof.
  induction 1; cbn; [reflexivity|].
  rewrite IHNoDup. apply mem_false_iff in H. rewrite H. reflexivity.
Qed.

Lemma is_perm_true : forall l n, perm_of l n -> is_perm n l = true.
Proof.
  intros l n [Hl Hi]. unfold is_perm. rewrite Hl, Nat.eqb_refl. cbn.
  apply forallb_forall. intros x Hx. apply in_seq in Hx. apply mem_true_iff. apply Hi. lia.
Qed.

(* dst is a rearrangement of the block a0 .. a0+m-1 *)
Definition block_perm (dst : list nat) (a0 m : nat) : Prop :=
  length dst = m /\ forall i, a0 <= i < a0 + m -> In i dst.

Lemma block_perm_NoDup : forall dst a0 m, block_perm dst a0 m -> NoDup dst.
Proof.
  intros dst a0 m [Hl Hi]. apply NoDup_incl_NoDup with (l := seq a0 m).
  - apply seq_NoDup.
  - rewrite seq_length. lia.
  - intros x Hx. apply in_seq in Hx. apply Hi. lia.
Qed.

Lemma block_perm_range : forall dst a0 m x, block_perm dst a0 m -> In x dst -> a0 <= x < a0 + m.
Proof.
  intros dst a0 m x [Hl Hi] Hx.
  assert (incl dst (seq a0 m)).
  { apply NoDup_length_incl.
    - apply seq_NoDup.
    - rewrite seq_length. lia.
    - intros y Hy. apply in_seq in Hy. apply Hi. lia. }
  apply H in Hx. apply in_seq in Hx. lia.
Qed.

Definition extend (dst : list nat) (a0 m e : nat) : list nat :=
  seq 0 a0 ++ dst ++ seq (a0 + m) e.

Lemma extend_perm : forall dst a0 m e, block_perm dst a0 m ->
  perm_of (extend dst a0 m e) (a0 + m + e).
Proof.
  intros dst a0 m e [Hl Hi]. unfold extend. split.
  - rewrite !app_length, !seq_length. lia.
  - intros i Hlt. rewrite !in_app_iff, !in_seq.
    destruct (Nat.lt_ge_cases i a0); [left; lia|].
    destruct (Nat.lt_ge_cases i (a0 + m)); [right; left; apply Hi; lia|].
    right; right; lia.
Qed.

Lemma filter_fst_none : forall (d : nat) dst src,
  ~ In d dst -> filter (fun ds : nat * nat => fst ds =? d) (combine dst src) = [].
Proof.
  intros. apply filter_none. intros [x y] Hx. apply in_combine_l in Hx. cbn.
  apply Nat.eqb_neq. intro; subst. contradiction.
Qed.

Lemma filter_fst_unique : forall dst (d a : nat),
  NoDup dst -> In d dst ->
  filter (fun ds : nat * nat => fst ds =? d) (combine dst (seq a (length dst))) =
  [(d, a + find_index d dst)].
Proof.
  induction dst; intros d a0 Hn Hin; [contradiction|].
  inversion Hn; subst. cbn [length seq combine filter fst find_index].
  destruct (d =? a) eqn:E.
  - apply Nat.eqb_eq in E. subst a. rewrite Nat.eqb_refl.
    rewrite filter_fst_none by assumption. f_equal. f_equal. lia.
  - rewrite Nat.eqb_sym, E.
    destruct Hin as [->|Hin]; [rewrite Nat.eqb_refl in E; discriminate|].
    rewrite IHdst by assumption. f_equal. f_equal. lia.
Qed.

Lemma moveaxis_order_block : forall dst a0 m e, block_perm dst a0 m ->
  moveaxis_order (a0 + m + e) (seq a0 m) dst =
  map (fun d => find_index d (extend dst a0 m e)) (seq 0 (a0 + m + e)).
Proof.
  intros dst a0 m e Hb. pose proof Hb as [Hl Hi].
  pose proof (block_perm_NoDup _ _ _ Hb) as Hnd.
  unfold moveaxis_order.
  (* order0 *)
  assert (E0 : filter (fun k => negb (mem k (seq a0 m))) (seq 0 (a0 + m + e))
               = seq 0 a0 ++ seq (a0 + m) e).
  { rewrite <- Nat.add_assoc. rewrite seq_app. rewrite (seq_app m e). cbn [Nat.add].
    rewrite !filter_app.
    rewrite filter_all, filter_none, filter_all; [reflexivity|..];
      intros x Hx; apply in_seq in Hx.
    - apply negb_true_iff, mem_false_iff. rewrite in_seq. lia.
    - apply negb_false_iff, mem_true_iff. rewrite in_seq. lia.
    - apply negb_true_iff, mem_false_iff. rewrite in_seq. lia. }
  rewrite E0. unfold sort_by_fst. rewrite fold_left_flat_map.
  set (step := fun (o : list nat) (d : nat) =>
    fold_left (fun o ds => insert_at (fst ds) (snd ds) o)
      (filter (fun ds : nat * nat => fst ds =? d) (combine dst (seq a0 m))) o).
  set (f := fun d => a0 + find_index d dst).
  assert (Hskip : forall l o, (forall d, In d l -> ~ In d dst) -> fold_left step l o = o).
  { induction l; intros o Hl'; cbn; [reflexivity|].
    rewrite IHl by (intros; apply Hl'; right; assumption).
    unfold step. rewrite filter_fst_none by (apply Hl'; left; reflexivity). reflexivity. }
  assert (Hmid : forall k, k <= m ->
            fold_left step (seq a0 k) (seq 0 a0 ++ seq (a0 + m) e) =
            seq 0 a0 ++ map f (seq a0 k) ++ seq (a0 + m) e).
  { induction k; intros Hk; [reflexivity|].
    rewrite seq_S, fold_left_app, IHk by lia. cbn [fold_left].
    unfold step at 1. rewrite <- Hl at 1.
    rewrite filter_fst_unique by (try assumption; apply Hi; lia).
    cbn [fold_left fst snd]. unfold insert_at.
    rewrite map_app. cbn [map]. fold (f (a0 + k)).
    rewrite app_assoc.
    assert (Hlen : length (seq 0 a0 ++ map f (seq a0 k)) = a0 + k)
      by (rewrite app_length, map_length, !seq_length; reflexivity).
    rewrite (firstn_app_exact _ _ _ Hlen), (skipn_app_exact _ _ _ Hlen).
    rewrite <- !app_assoc. reflexivity. }
  rewrite <- Nat.add_assoc. rewrite seq_app, (seq_app m e). cbn [Nat.add].
  rewrite !fold_left_app.
  rewrite (Hskip (seq 0 a0)) by (intros d Hd Hin; apply in_seq in Hd;
                    apply (block_perm_range _ _ _ _ Hb) in Hin; lia).
  rewrite Hmid by lia.
  rewrite (Hskip (seq (a0 + m) e)) by (intros d Hd Hin; apply in_seq in Hd;
                    apply (block_perm_range _ _ _ _ Hb) in Hin; lia).
  rewrite !map_app. unfold extend.
  f_equal; [|f_equal].
  - symmetry. rewrite <- (map_id (seq 0 a0)) at 2. apply map_ext_in.
    intros d Hd. apply in_seq in Hd.
    rewrite find_index_app_l by (apply in_seq; lia).
    replace d with (0 + d) at 1 by lia. apply find_index_seq. lia.
  - apply map_ext_in. intros d Hd. apply in_seq in Hd. unfold f.
    rewrite find_index_app_r by (rewrite in_seq; lia). rewrite seq_length.
    rewrite find_index_app_l by (apply Hi; lia). reflexivity.
  - symmetry. rewrite <- (map_id (seq (a0 + m) e)) at 2. apply map_ext_in.
    intros d Hd. apply in_seq in Hd.
    rewrite find_index_app_r by (rewrite in_seq; lia). rewrite seq_length.
    rewrite find_index_app_r
      by (intro Hin; apply (block_perm_range _ _ _ _ Hb) in Hin; lia).
    rewrite Hl. replace d with ((a0 + m) + (d - (a0 + m))) at 1 by lia.
    rewrite find_index_seq by lia. lia.
Qed.

(* What numpy.moveaxis does to a block of axes, in terms of entries:
   the entry of the result at idx is the entry of a at the index whose
   component number k is idx[dst'[k]], where dst' extends dst by the identity. *)
Lemma moveaxis_spec : forall a dst a0 m e X,
  ndim a = a0 + m + e -> block_perm dst a0 m ->
  length X = a0 + m + e -> gather 0 X (extend dst a0 m e) = shape a ->
  moveaxis a (seq a0 m) dst =
  Ok (tabulate X (fun idx => get a (gather 0 idx (extend dst a0 m e)))).
Proof.
  intros a dst a0 m e X Hn Hb HX Hsh.
  pose proof (extend_perm dst a0 m e Hb) as Hp.
  pose proof Hb as [Hl Hi].
  unfold moveaxis. rewrite Hn.
  assert (V1 : valid_axes (a0 + m + e) (seq a0 m) = true).
  { unfold valid_axes. apply andb_true_intro. split.
    - apply forallb_forall. intros x Hx. apply in_seq in Hx. apply Nat.ltb_lt. lia.
    - apply nodupb_true, seq_NoDup. }
  assert (V2 : valid_axes (a0 + m + e) dst = true).
  { unfold valid_axes. apply andb_true_intro. split.
    - apply forallb_forall. intros x Hx. apply (block_perm_range _ _ _ _ Hb) in Hx.
      apply Nat.ltb_lt. lia.
    - apply nodupb_true. apply block_perm_NoDup with a0 m. assumption. }
  rewrite V1, V2. cbn [negb]. rewrite seq_length, Hl, Nat.eqb_refl. cbn [negb].
  rewrite moveaxis_order_block by assumption.
  unfold transpose. rewrite Hn.
  rewrite is_perm_true by (apply order_perm; assumption).
  f_equal. unfold transpose_.
  rewrite <- Hsh. rewrite gather_gather_order by assumption.
  apply tabulate_ext. intros idx Hidx.
  rewrite scatter_order; [reflexivity | assumption |].
  apply in_shape_length in Hidx. lia.
Qed.

(* moving a prefix of the axes onto itself is the identity *)
Lemma moveaxis_prefix_id : forall a m, length (data a) = size (shape a) -> m <= ndim a ->
  moveaxis a (seq 0 m) (seq 0 m) = Ok a.
Proof.
  intros a m Hok Hm.
  assert (Hb : block_perm (seq 0 m) 0 m).
  { split; [apply seq_length|]. intros. apply in_seq. lia. }
  assert (Hext : extend (seq 0 m) 0 m (ndim a - m) = seq 0 (ndim a)).
  { unfold extend. cbn [seq app Nat.add]. rewrite <- seq_app. f_equal. lia. }
  rewrite moveaxis_spec with (e := ndim a - m) (X := shape a).
  - rewrite Hext. f_equal. etransitivity; [|apply (tabulate_get a Hok)].
    apply tabulate_ext. intros idx Hidx. f_equal.
    apply in_shape_length in Hidx. unfold ndim. rewrite <- Hidx. apply gather_id.
  - lia.
  - assumption.
  - unfold ndim in *. lia.
  - rewrite Hext. apply gather_id.
Qed.

(* ------------------------------------------------------------------ tensordot *)
Definition outer (da db : list C) : list C := flat_map (fun x => map (cmul x) db) da.

Lemma outer_length : forall da db, length (outer da db) = length da * length db.
Proof.
  intros. unfold outer. apply length_flat_map_const. intros. apply map_length.
Qed.

Lemma outer_nth : forall da db i j, i < length da -> j < length db ->
  nth (i * length db + j) (outer da db) czero = cmul (nth i da czero) (nth j db czero).
Proof.
  intros. unfold outer.
  rewrite nth_flat_map_const with (m := length db) (d0 := czero);
    [| intros; apply map_length | assumption | assumption].
  apply nth_map_default. assumption.
Qed.

(* tensordot(a, b, 0) is the flat outer product, whatever the shapes *)
Lemma tensordot_0 : forall a b,
  length (data a) = size (shape a) -> length (data b) = size (shape b) ->
  tensordot a b 0 = Ok (mkArr (shape a ++ shape b) (outer (data a) (data b))).
Proof.
  intros a b Ha Hb. unfold tensordot. cbn [Nat.ltb Nat.leb orb].
  rewrite Nat.sub_0_r. unfold ndim. rewrite firstn_all, skipn_all.
  cbn [firstn skipn nat_list_eqb list_eqb negb indices map].
  f_equal. unfold tabulate. f_equal.
  rewrite indices_app, map_flat_map.
  unfold outer. rewrite (data_as_map_get a Ha), (data_as_map_get b Hb).
  cbn [shape data]. rewrite flat_map_map.
  apply flat_map_ext_in. intros i Hi. rewrite !map_map.
  apply map_ext. intros j.
  apply indices_in_shape, in_shape_length in Hi. rewrite <- Hi.
  rewrite firstn_app, Nat.sub_diag, firstn_all. cbn [firstn]. rewrite !app_nil_r.
  rewrite skipn_app, Nat.sub_diag, skipn_all. cbn [skipn app csum fold_right]. ring.
Qed.

(* general contraction when the shapes are literally P ++ K and K ++ Q *)
Lemma tensordot_k : forall a b P K Q,
  shape a = P ++ K -> shape b = K ++ Q ->
  tensordot a b (length K) =
  Ok (tabulate (P ++ Q) (fun idx =>
        csum (map (fun kk => cmul (get a (firstn (length P) idx ++ kk))
                                  (get b (kk ++ skipn (length P) idx)))
                  (indices K)))).
Proof.
  intros a b P K Q Ha Hb. unfold tensordot, ndim. rewrite Ha, Hb.
  rewrite !app_length.
  replace (length P + length K <? length K) with false by (symmetry; apply Nat.ltb_ge; lia).
  replace (length K + length Q <? length K) with false by (symmetry; apply Nat.ltb_ge; lia).
  cbn [orb]. replace (length P + length K - length K) with (length P) by lia.
  rewrite firstn_app, Nat.sub_diag, firstn_all. cbn [firstn]. rewrite app_nil_r.
  rewrite skipn_app, Nat.sub_diag, skipn_all. cbn [skipn app].
  rewrite firstn_app, Nat.sub_diag, firstn_all. cbn [firstn]. rewrite app_nil_r.
  rewrite skipn_app, Nat.sub_diag, skipn_all. cbn [skipn app].
  rewrite list_eqb_nat_refl. reflexivity.
Qed.
