(* Model of discopy/tensor.py: Dim, Tensor (__init__, then, tensor, dagger, id,
   swap, cups, caps) and rigid.cups as instantiated by Tensor.cups, on top of
   the numpy model of Tensor/NumpyModel.v.  Also: the specification-level
   views of a tensor (`entry`: multi-index matrix entry; `mat`: entry of the
   flattened matrix), the program DSL of the correspondence check and its wire
   codec.  Definitions only; proofs are in Tensor/TensorLemmas.v. *)
From Coq Require Import List ZArith Bool Arith Lia.
Import ListNotations.
Require Import DV.Common.Base DV.Tensor.NumpyModel.
Open Scope nat_scope.

(* ------------------------------------------------------------------ Dim *)
(* tensor.Dim.__init__: drop the 1s, then ValueError on any dim < 1
   (TypeError on non-int names is not reachable from the DSL: all names are ints) *)
Definition mk_dim (l : list Z) : res (list nat) :=
  let l' := filter (fun z => negb (z =? 1)%Z) l in
  if existsb (fun z => (z <? 1)%Z) l' then Err ValueError else Ok (map Z.to_nat l').

(* ------------------------------------------------------------------ Tensor *)
Record tensor := mkT { tdom : list nat; tcod : list nat; tarr : arr }.

(* `dom @ cod or (1, )` *)
Definition shape_of (dom cod : list nat) : list nat :=
  match dom ++ cod with [] => [1] | s => s end.

(* Tensor.__init__(dom, cod, array): numpy.array(array).reshape(dom @ cod or (1, )) *)
Definition mk_tensor (dom cod : list nat) (a : arr) : res tensor :=
  do a' <- reshape a (shape_of dom cod); Ok (mkT dom cod a').

(* Tensor.then (single Tensor argument).  The test
   `self.array.shape and other.array.shape` is always truthy (shapes are never
   the empty tuple: scalars have shape (1,)), so the tensordot branch is the
   only live one. *)
Definition tthen (a b : tensor) : res tensor :=
  if negb (nat_list_eqb (tcod a) (tdom b)) then Err AxiomError else
  do x <- tensordot (tarr a) (tarr b) (length (tcod a));
  mk_tensor (tdom a) (tcod b) x.

(* the `target` comprehension of Tensor.tensor *)
Definition tensor_target (p q r s : nat) : list nat :=
  map (fun i => if (i <? p) || (p + q + r <=? i) then i
                else if p + q <=? i then i - q
                else i + r)
      (seq 0 (p + r + (q + s))).

(* Tensor.tensor (single Tensor argument) *)
Definition ttensor (a b : tensor) : res tensor :=
  let dom := tdom a ++ tdom b in
  let cod := tcod a ++ tcod b in
  do x <- tensordot (tarr a) (tarr b) 0;
  let source := seq 0 (length (dom ++ cod)) in
  let target := tensor_target (length (tdom a)) (length (tcod a))
                              (length (tdom b)) (length (tcod b)) in
  do y <- moveaxis x source target;
  mk_tensor dom cod y.

(* the destination comprehension of Tensor.dagger *)
Definition dagger_target (p q : nat) : list nat :=
  map (fun i => if i <? p then i + q else i - p) (seq 0 (p + q)).

(* Tensor.dagger *)
Definition tdagger (a : tensor) : res tensor :=
  let p := length (tdom a) in
  let q := length (tcod a) in
  do x <- moveaxis (tarr a) (seq 0 (length (tdom a ++ tcod a))) (dagger_target p q);
  mk_tensor (tcod a) (tdom a) (conjugate x).

(* Tensor.id: Tensor(dom, dom, numpy.identity(int(prod(dom)))) *)
Definition tid (dom : list nat) : res tensor :=
  mk_tensor dom dom (identity (size dom)).

(* the `target` comprehension of Tensor.swap, l = len(left), r = len(right) *)
Definition swap_target (l r : nat) : list nat :=
  map (fun i => if i <? l + r + l then i + r else i - l) (seq (l + r) (l + r)).

(* Tensor.swap *)
Definition tswap (left right : list nat) : res tensor :=
  do i <- tid (left ++ right);
  let n := length (left ++ right) in
  let source := seq n n in                               (* range(n, 2 * n) *)
  let target := swap_target (length left) (length right) in
  do x <- moveaxis (tarr i) source target;
  mk_tensor (left ++ right) (right ++ left) x.

(* one iteration of the loop of rigid.cups with ar_factory = Tensor,
   cup_factory = lambda l, r: Tensor(l @ r, Dim(1), Tensor.id(l).array) *)
Definition cups_step (left right : list nat) (result : tensor) (i : nat) : res tensor :=
  let j := length left - i - 1 in
  let lj := firstn 1 (skipn j left) in                   (* left[j:j + 1] *)
  let ri := firstn 1 (skipn i right) in                  (* right[i:i + 1] *)
  do idl <- tid lj;
  do cup <- mk_tensor (lj ++ ri) [] (tarr idl);
  do idL <- tid (firstn j left);                         (* left[:j] *)
  do x <- ttensor idL cup;
  do idR <- tid (skipn (i + 1) right);                   (* right[i + 1:] *)
  do layer <- ttensor x idR;
  tthen result layer.

Fixpoint cups_loop (left right : list nat) (result : tensor) (is : list nat) : res tensor :=
  match is with
  | [] => Ok result
  | i :: is' => do r <- cups_step left right result i; cups_loop left right r is'
  end.

(* Tensor.cups = rigid.cups(left, right, ar_factory=Tensor, cup_factory=...) *)
Definition tcups (left right : list nat) : res tensor :=
  if negb (nat_list_eqb (rev left) right) && negb (nat_list_eqb (rev right) left)
  then Err AxiomError else
  do result <- tid (left ++ right);
  cups_loop left right result (seq 0 (length left)).

(* Tensor.caps = Tensor.cups(left, right).dagger() *)
Definition tcaps (left right : list nat) : res tensor :=
  do c <- tcups left right; tdagger c.

(* ------------------------------------------------------------------ specification views *)
(* a tensor is well-formed when its array has the shape Tensor.__init__ gives it
   and as many entries as that shape says *)
Definition tensor_ok (t : tensor) : bool :=
  nat_list_eqb (shape (tarr t)) (shape_of (tdom t) (tcod t)) &&
  (length (data (tarr t)) =? size (tdom t ++ tcod t)).

Fixpoint in_shapeb (idx sh : list nat) : bool :=
  match idx, sh with
  | [], [] => true
  | i :: idx', d :: sh' => (i <? d) && in_shapeb idx' sh'
  | _, _ => false
  end.

(* the matrix entry at row multi-index i (in dom) and column multi-index j (in cod) *)
Definition entry (t : tensor) (i j : list nat) : C :=
  nth (ravel (tdom t ++ tcod t) (i ++ j)) (data (tarr t)) czero.

(* the entry (r, c) of t.array.reshape(prod(dom), prod(cod)) *)
Definition mat (t : tensor) (r c : nat) : C :=
  nth (r * size (tcod t) + c) (data (tarr t)) czero.

Definition delta (b : bool) : C := if b then cone else czero.

(* ------------------------------------------------------------------ program DSL *)
Inductive tprog :=
| TLit (dom cod : list Z) (d : list C)
| TThen (p q : tprog)
| TTensor (p q : tprog)
| TDagger (p : tprog)
| TId (dom : list Z)
| TSwap (l r : list Z)
| TCups (l r : list Z)
| TCaps (l r : list Z).

Fixpoint trun (p : tprog) : res tensor :=
  match p with
  | TLit dom cod d =>
      do dom' <- mk_dim dom; do cod' <- mk_dim cod;
      (* numpy.array(flat list) has shape (len(d),) *)
      mk_tensor dom' cod' (mkArr [length d] d)
  | TThen p q => do a <- trun p; do b <- trun q; tthen a b
  | TTensor p q => do a <- trun p; do b <- trun q; ttensor a b
  | TDagger p => do a <- trun p; tdagger a
  | TId dom => do d <- mk_dim dom; tid d
  | TSwap l r => do l' <- mk_dim l; do r' <- mk_dim r; tswap l' r'
  | TCups l r => do l' <- mk_dim l; do r' <- mk_dim r; tcups l' r'
  | TCaps l r => do l' <- mk_dim l; do r' <- mk_dim r; tcaps l' r'
  end.

(* ------------------------------------------------------------------ codec *)
Fixpoint dec_tprog (fuel : nat) (s : sexp) : res tprog :=
  match fuel with
  | O => Err OutOfFuel
  | S f =>
    match s with
    | L [I 0; dom; cod; L d] =>
        do dom' <- sx_ints dom; do cod' <- sx_ints cod; do d' <- mapM dec_c d;
        Ok (TLit dom' cod' d')
    | L [I 1; p; q] => do p' <- dec_tprog f p; do q' <- dec_tprog f q; Ok (TThen p' q')
    | L [I 2; p; q] => do p' <- dec_tprog f p; do q' <- dec_tprog f q; Ok (TTensor p' q')
    | L [I 3; p] => do p' <- dec_tprog f p; Ok (TDagger p')
    | L [I 4; dom] => do d <- sx_ints dom; Ok (TId d)
    | L [I 5; l; r] => do l' <- sx_ints l; do r' <- sx_ints r; Ok (TSwap l' r')
    | L [I 6; l; r] => do l' <- sx_ints l; do r' <- sx_ints r; Ok (TCups l' r')
    | L [I 7; l; r] => do l' <- sx_ints l; do r' <- sx_ints r; Ok (TCaps l' r')
    | _ => Err BadProgram
    end
  end.

Definition enc_tensor (t : tensor) : sexp :=
  L [enc_nats (tdom t); enc_nats (tcod t); enc_arr (tarr t)].

Definition enc_res {A} (enc : A -> sexp) (r : res A) : sexp :=
  match r with
  | Ok v => L [I 0; enc v]
  | Err e => L [I 1; I (err_code e)]
  end.

(* numpy-primitive requests of the `numpy_model` suite *)
Definition run_numpy (s : sexp) : res arr :=
  match s with
  | L [I 10; a; sh] => do a' <- dec_arr a; do sh' <- dec_nats sh; reshape a' sh'
  | L [I 11; a; b; k] => do a' <- dec_arr a; do b' <- dec_arr b; do k' <- dec_nat k; tensordot a' b' k'
  | L [I 12; a; src; dst] =>
      do a' <- dec_arr a; do s' <- dec_nats src; do d' <- dec_nats dst; moveaxis a' s' d'
  | L [I 13; a; perm] => do a' <- dec_arr a; do p' <- dec_nats perm; transpose a' p'
  | L [I 14; n] => do n' <- dec_nat n; Ok (identity n')
  | L [I 15; a] => do a' <- dec_arr a; Ok (conjugate a')
  | _ => Err BadProgram
  end.

(* the single entry point of the extracted runner: tags 0..7 are Tensor
   programs, tags 10..15 numpy-primitive requests *)
Definition run_sexp (s : sexp) : sexp :=
  match s with
  | L (I tag :: _) =>
      if (tag <? 10)%Z then
        match dec_tprog 1000 s with
        | Ok p => enc_res enc_tensor (trun p)
        | Err e => L [I 1; I (err_code e)]
        end
      else enc_res enc_arr (run_numpy s)
  | _ => L [I 1; I (err_code BadProgram)]
  end.
