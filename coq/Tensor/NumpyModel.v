(* A small executable model of the numpy primitives that discopy/tensor.py calls.

   TRUSTED MODEL OF AN EXTERNAL LIBRARY: these definitions are written from
   numpy's documented reference behaviour (row-major storage, `tensordot`,
   `moveaxis` with numpy's own order-building algorithm, `transpose`,
   `identity`, `conjugate`, `reshape`).  They are not verified against numpy's
   C code; they are compared with the installed numpy on every run of the C08
   check (suite `numpy_model` of harness/props/c08.py).

   Scalars are Gaussian integers Z[i] represented as pairs (re, im): exact,
   executable, closed under everything tensor.py does to its entries
   (+, *, conjugate).  Floating point data is out of scope (DESIGN 3.3).

   Definitions only; proofs are in Tensor/TensorLemmas.v. *)
From Coq Require Import List ZArith Bool Arith Lia.
Import ListNotations.
Require Import DV.Common.Base.
Open Scope nat_scope.

(* ------------------------------------------------------------------ scalars *)
Definition C := (Z * Z)%type.
Definition czero : C := (0%Z, 0%Z).
Definition cone : C := (1%Z, 0%Z).
Definition cadd (x y : C) : C := (fst x + fst y, snd x + snd y)%Z.
Definition cmul (x y : C) : C :=
  (fst x * fst y - snd x * snd y, fst x * snd y + snd x * fst y)%Z.
Definition copp (x : C) : C := (- fst x, - snd x)%Z.
Definition csub (x y : C) : C := cadd x (copp y).
Definition cconj (x : C) : C := (fst x, - snd x)%Z.
Definition ceqb (x y : C) : bool := (fst x =? fst y)%Z && (snd x =? snd y)%Z.
Definition csum (l : list C) : C := fold_right cadd czero l.

(* ------------------------------------------------------------------ arrays *)
(* numpy.ndarray, C-contiguous: a shape and the entries in row-major order *)
Record arr := mkArr { shape : list nat; data : list C }.

Definition ndim (a : arr) : nat := length (shape a).
Definition size (sh : list nat) : nat := fold_right Nat.mul 1 sh.

(* numpy.ravel_multi_index(idx, sh) for C order *)
Fixpoint ravel (sh idx : list nat) : nat :=
  match sh with
  | [] => 0
  | _ :: sh' => hd 0 idx * size sh' + ravel sh' (tl idx)
  end.

(* numpy.ndindex of the shape: every multi-index of the shape, in row-major order *)
Fixpoint indices (sh : list nat) : list (list nat) :=
  match sh with
  | [] => [[]]
  | d :: sh' => let r := indices sh' in flat_map (fun i => map (cons i) r) (seq 0 d)
  end.

(* a[idx] *)
Definition get (a : arr) (idx : list nat) : C := nth (ravel (shape a) idx) (data a) czero.

(* the array of shape sh whose entry at idx is f idx *)
Definition tabulate (sh : list nat) (f : list nat -> C) : arr :=
  mkArr sh (map f (indices sh)).

(* well-formed array: as many entries as the shape says *)
Definition arr_ok (a : arr) : bool := length (data a) =? size (shape a).

Definition nat_list_eqb (a b : list nat) : bool := list_eqb Nat.eqb a b.

(* ------------------------------------------------------------------ reshape *)
(* a.reshape(new): same data, new shape; ValueError when the sizes differ
   (-1 entries are not modelled: tensor.py never passes them) *)
Definition reshape (a : arr) (new : list nat) : res arr :=
  if size new =? length (data a) then Ok (mkArr new (data a)) else Err ValueError.

(* ------------------------------------------------------------------ transpose *)
Definition gather {A} (d : A) (l : list A) (perm : list nat) : list A :=
  map (fun p => nth p l d) perm.

Fixpoint find_index (x : nat) (l : list nat) : nat :=
  match l with
  | [] => 0
  | y :: t => if x =? y then 0 else S (find_index x t)
  end.

(* the index idx' of the source array with idx'[perm[i]] = idx[i] *)
Definition scatter (perm idx : list nat) : list nat :=
  map (fun j => nth (find_index j perm) idx 0) (seq 0 (length perm)).

Definition mem (x : nat) (l : list nat) : bool := existsb (Nat.eqb x) l.

Definition is_perm (n : nat) (perm : list nat) : bool :=
  (length perm =? n) && forallb (fun i => mem i perm) (seq 0 n).

(* numpy.transpose(a, axes): result.shape[i] = a.shape[axes[i]],
   result[idx] = a[idx'] with idx'[axes[i]] = idx[i] *)
Definition transpose_ (a : arr) (perm : list nat) : arr :=
  tabulate (gather 0 (shape a) perm) (fun idx => get a (scatter perm idx)).

Definition transpose (a : arr) (perm : list nat) : res arr :=
  if is_perm (ndim a) perm then Ok (transpose_ a perm) else Err ValueError.

(* ------------------------------------------------------------------ moveaxis *)
Fixpoint nodupb (l : list nat) : bool :=
  match l with
  | [] => true
  | x :: t => negb (mem x t) && nodupb t
  end.

(* numpy.core.numeric.normalize_axis_tuple for non-negative axes: every axis in
   range (else AxisError, a subclass of ValueError) and no repeats (ValueError) *)
Definition valid_axes (n : nat) (l : list nat) : bool :=
  forallb (fun x => x <? n) l && nodupb l.

Definition insert_at {A} (d : nat) (x : A) (l : list A) : list A :=
  firstn d l ++ x :: skipn d l.                     (* list.insert(d, x) *)

(* sorted(pairs) for pairs with pairwise distinct first components < n
   (a stable bucket sort on the first component) *)
Definition sort_by_fst (n : nat) (pairs : list (nat * nat)) : list (nat * nat) :=
  flat_map (fun d => filter (fun ds => fst ds =? d) pairs) (seq 0 n).

(* numpy.moveaxis(a, source, destination):
     source = normalize_axis_tuple(source, a.ndim); same for destination
     if len(source) != len(destination): raise ValueError
     order = [n for n in range(a.ndim) if n not in source]
     for dest, src in sorted(zip(destination, source)): order.insert(dest, src)
     return transpose(a, order) *)
Definition moveaxis_order (n : nat) (src dst : list nat) : list nat :=
  let order0 := filter (fun k => negb (mem k src)) (seq 0 n) in
  fold_left (fun o ds => insert_at (fst ds) (snd ds) o)
            (sort_by_fst n (combine dst src)) order0.

Definition moveaxis (a : arr) (src dst : list nat) : res arr :=
  if negb (valid_axes (ndim a) src) then Err ValueError
  else if negb (valid_axes (ndim a) dst) then Err ValueError
  else if negb (length src =? length dst) then Err ValueError
  else transpose a (moveaxis_order (ndim a) src dst).

(* ------------------------------------------------------------------ tensordot *)
(* numpy.tensordot(a, b, k) for an integer k: contract the last k axes of a with
   the first k axes of b.  k larger than a rank: IndexError (tuple index out of
   range); contracted shapes differ: ValueError (shape-mismatch for sum). *)
Definition tensordot (a b : arr) (k : nat) : res arr :=
  if (ndim a <? k) || (ndim b <? k) then Err IndexError else
  let p := ndim a - k in
  let pa := firstn p (shape a) in
  let ka := skipn p (shape a) in
  let kb := firstn k (shape b) in
  let pb := skipn k (shape b) in
  if negb (nat_list_eqb ka kb) then Err ValueError else
  let ks := indices ka in
  Ok (tabulate (pa ++ pb) (fun idx =>
        let ia := firstn p idx in
        let jb := skipn p idx in
        csum (map (fun kk => cmul (get a (ia ++ kk)) (get b (kk ++ jb))) ks))).

(* ------------------------------------------------------------------ misc *)
(* numpy.identity(n) *)
Definition identity (n : nat) : arr :=
  tabulate [n; n] (fun idx => if nth 0 idx 0 =? nth 1 idx 0 then cone else czero).

(* numpy.conjugate(a) *)
Definition conjugate (a : arr) : arr := mkArr (shape a) (map cconj (data a)).

(* ------------------------------------------------------------------ codec *)
Definition enc_c (x : C) : sexp := L [I (fst x); I (snd x)].
Definition enc_nats (l : list nat) : sexp := L (map (fun n => I (Z.of_nat n)) l).
Definition enc_arr (a : arr) : sexp := L [enc_nats (shape a); L (map enc_c (data a))].

Definition dec_c (s : sexp) : res C :=
  match s with L [I re; I im] => Ok (re, im) | _ => Err BadProgram end.
Definition dec_nat (s : sexp) : res nat :=
  match s with I z => if (z <? 0)%Z then Err BadProgram else Ok (Z.to_nat z) | _ => Err BadProgram end.
Definition dec_nats (s : sexp) : res (list nat) := do l <- sx_list s; mapM dec_nat l.
Definition dec_arr (s : sexp) : res arr :=
  match s with
  | L [sh; L d] => do sh' <- dec_nats sh; do d' <- mapM dec_c d; Ok (mkArr sh' d')
  | _ => Err BadProgram
  end.
