(* C07 -- snake removal is sound for rigid diagrams.
   Model: Snake/Snake.v (follow_wire, find_snake, unsnake, the outer loop, then
   Core's monoidal normalize; rigid normal_form with its cache), following
   /repo/discopy/rewriting.py after the repair of finding F2 (commit 0cc87cd:
   find_snake only selects a cap / cup pair whose types match).  `keeps d x` = x is
   well-typed (wf, the statement of C01) and has d's domain and codomain.

   Proved for all inputs: every yielded diagram / every prefix of the trace / the
   normal form is well-typed with the input's dom and cod; follow_wire's contract;
   find_snake returns None iff no cap leg runs straight into the opposite leg of a
   MATCHING cup (and otherwise the first one); only pairs satisfying a snake
   equation are ever handed to unsnake (full, any obstructions); each unsnake
   removes exactly two boxes and the outer loop terminates.
   Totality (end of this file, Snake/SnakeTotal.v): PROVED for arbitrary
   obstructions -- `snake_removal_total_stmt` (no InterchangerError / IndexError /
   AxiomError from unsnake on what find_snake selected) and `normal_form_total_stmt`
   (normal_form only fails with NotImplementedError or the model's fuel); the first
   partial result for unobstructed snakes is kept.
   Semantic soundness (second half of this file, Snake/SnakeWire.v + SnakeSem.v):
   PROVED for all inputs and any obstructions, over the typed strict monoidal
   model record of C05 / C06 (Sem/Monoidal.v) extended with the two snake
   equations -- every diagram yielded by unsnake / every diagram of every trace
   prefix / the normal form denotes the same morphism as the input; with two
   concrete models (counting proper boxes; qubit tensors over Z[i]).  The first,
   untyped formulation `snake_removal_sound_stmt` (SnakeLemmas.rigid_laws) is
   proved as stated too (`snake_removal_sound_untyped`, Snake/SnakeSemUntyped.v). *)
From Coq Require Import List ZArith Bool.
Import ListNotations.
Require Import DV.Common.Base DV.Core.Diagram DV.Core.WF DV.Core.Rewriting
  DV.Snake.Snake DV.Snake.SnakeLemmas.
Open Scope Z_scope.

(* every diagram yielded by one call of unsnake (interchange steps and the diagram
   with the pair deleted) is well-typed with the input's dom / cod, whether or not
   the generator then raises *)
Theorem unsnake_steps_wf : forall d cup cap lo ro ls d' ys e, wf d ->
  unsnake d cup cap lo ro ls = (d', ys, e) -> keeps d d' /\ Forall (keeps d) ys.
Proof. exact SnakeLemmas.unsnake_steps_wf. Qed.
Print Assumptions unsnake_steps_wf.

(* ... and so is every diagram of every prefix (any yield limit) of the trace of
   rigid.Diagram.normalize: snake removal followed by monoidal normalisation *)
Theorem snake_removal_steps_wf : forall limit d left tr st, wf d ->
  rigid_trace limit d left = (tr, st) -> Forall (keeps d) tr.
Proof. exact SnakeLemmas.snake_removal_steps_wf. Qed.
Print Assumptions snake_removal_steps_wf.

(* ... and the normal form *)
Theorem rigid_normal_form_wf : forall fuel d left d', wf d ->
  rigid_normal_form fuel d left = Ok d' -> keeps d d'.
Proof. exact SnakeLemmas.rigid_normal_form_wf. Qed.
Print Assumptions rigid_normal_form_wf.

(* whatever pair the final step of unsnake deletes, the type reached before it
   equals the type reached after it; otherwise the step is refused (AxiomError) *)
Theorem delete_pair_wf : forall d cap cup d', wf d -> delete_pair d cap cup = Ok d' ->
  wf d' /\ ddom d' = ddom d /\ dcod d' = dcod d.
Proof. exact SnakeLemmas.delete_pair_wf. Qed.
Print Assumptions delete_pair_wf.

(* follow_wire: the first box below that takes the wire as input (or the number
   of boxes), the wire's position there, and the boxes passed, split by side *)
Theorem follow_wire_spec : forall rest i j c w lo ro, fw rest i j = (c, w, lo, ro) ->
  exists k, c = (i + k)%nat /\ (k <= length rest)%nat /\ w = wire_at rest j k /\
    (forall m bo, (m < k)%nat -> nth_error rest m = Some bo -> ~ takes bo (wire_at rest j m)) /\
    (forall bo, nth_error rest k = Some bo -> takes bo w) /\
    lo = map (Nat.add i) (filter (on_left rest j) (seq 0 k)) /\
    ro = map (Nat.add i) (filter (fun m => negb (on_left rest j m)) (seq 0 k)).
Proof. exact fw_spec. Qed.
Print Assumptions follow_wire_spec.

(* the result clause: find_snake gives up exactly when no cap has a leg running
   straight into the opposite leg of a matching cup (runs_into_cup includes
   cup.dom = rev cap.cod) *)
Theorem find_snake_none_iff_no_yankable : forall d,
  find_snake d = None <-> forall cap ls, ~ runs_into_cup d cap ls.
Proof. exact find_snake_none_iff. Qed.
Print Assumptions find_snake_none_iff_no_yankable.

(* otherwise it returns the first such cap from the top (left leg first) with
   follow_wire's answer; the obstructions are exactly the boxes in between *)
Theorem find_snake_some_spec : forall d cup cap lo ro ls,
  find_snake d = Some (cup, cap, (lo, ro), ls) ->
  runs_into_cup d cap ls /\
  (forall c ls', (c < cap)%nat -> ~ runs_into_cup d c ls') /\
  (ls = false -> ~ runs_into_cup d cap true) /\
  (exists off w, nth_error (doffs d) cap = Some off /\
     follow_wire d cap (if ls then off else off + 1) = (cup, w, lo, ro)) /\
  (cup = S cap + length lo + length ro)%nat /\ (cup < length (dboxes d))%nat /\
  matched d cup cap = true.
Proof. exact find_snake_some. Qed.
Print Assumptions find_snake_some_spec.

(* each unsnake that completes removes exactly two boxes *)
Theorem snake_removal_box_count : forall d cup cap lo ro ls d' ys, wf d ->
  find_snake d = Some (cup, cap, (lo, ro), ls) ->
  unsnake d cup cap lo ro ls = (d', ys, None) ->
  (length (dboxes d') + 2 = length (dboxes d))%nat.
Proof. exact SnakeLemmas.snake_removal_box_count. Qed.
Print Assumptions snake_removal_box_count.

(* hence the outer `while True` loop stops within length / 2 iterations *)
Theorem snake_loop_terminates : forall fuel d acc d' ys e, wf d ->
  (length (dboxes d) < 2 * fuel)%nat ->
  snake_loop fuel d acc = (d', ys, e) -> e <> Some OutOfFuel.
Proof. exact snake_loop_fuel. Qed.
Print Assumptions snake_loop_terminates.

(* only cap / cup pairs that satisfy a snake equation (Cap(a, b) against
   Cup(b, a)) are ever removed: FULL, whatever the obstructions -- unsnake is only
   called on what find_snake selected *)
Theorem unsnake_removes_matching_pair_only : forall d cup cap lo ro ls,
  find_snake d = Some (cup, cap, (lo, ro), ls) -> matched d cup cap = true.
Proof. exact SnakeLemmas.unsnake_removes_matching_pair_only. Qed.
Print Assumptions unsnake_removes_matching_pair_only.

(* regression for the repaired F2: the twisted snake
   Id(x.l) @ Cap(x, x.r) >> Cup(x.l, x) @ Id(x.r) is left in place, nothing raised *)
Theorem twisted_snake_left_in_place :
  wf twisted_d /\ rigid_ok twisted_d /\
  find_snake twisted_d = None /\
  rigid_trace trace_limit twisted_d false = ([], Done) /\
  rigid_normal_form nf_fuel twisted_d false = Ok twisted_d.
Proof. exact twisted_left_in_place. Qed.
Print Assumptions twisted_snake_left_in_place.

(* FULL statements: on a well-typed rigid diagram every call of unsnake on what
   find_snake selected runs to completion (no InterchangerError / IndexError /
   AxiomError, whatever the obstructions); hence the only error of normal_form is
   NotImplementedError (or the model's fuel).  Both are PROVED at the end of this
   file (`snake_removal_total`, `normal_form_total`). *)
Definition snake_removal_total_stmt : Prop := SnakeLemmas.snake_removal_total_stmt.
Definition normal_form_total_stmt : Prop := SnakeLemmas.normal_form_total_stmt.

(* the first result, for snakes without obstructions (now a special case) *)
Theorem snake_removal_total_partial : forall d cup cap ls, wf d -> rigid_ok d ->
  find_snake d = Some (cup, cap, ([], []), ls) -> unsnake_completes d cup cap [] [] ls.
Proof. exact SnakeLemmas.snake_removal_total_partial. Qed.
Print Assumptions snake_removal_total_partial.

(* The first formulation of semantic soundness: in every strict rigid monoidal
   category given as an untyped carrier with a typing relation (SnakeLemmas.rigid_model,
   laws SnakeLemmas.rigid_laws: category and strict-monoidal laws for `rm_ok`-typed
   morphisms, interchange law, the two snake equations for type-matched pairs)
   every diagram of every trace prefix denotes the same morphism as the input.
   No longer only a statement: PROVED below as `snake_removal_sound_untyped`, next to
   the typed formulation `snake_removal_sound` over the record shared with C05 / C06. *)
Definition snake_removal_sound_stmt : Prop := SnakeLemmas.snake_removal_sound_stmt.

(* ================================================================ semantic soundness, PROVED *)
Require Import DV.Sem.Monoidal DV.Sem.Instances DV.Snake.SnakeWire DV.Snake.SnakeSem.
Require DV.Tensor.NumpyModel DV.Tensor.Tensor DV.TFun.TFunMonoidal.
Require Import DV.Snake.SnakeTensorSem DV.Snake.SnakeSemUntyped.

(* the index bookkeeping of unsnake, FULL, any obstructions: when the two loops
   complete on what find_snake selected, the indices handed to the deletion are
   adjacent and hold a Cap and a matching Cup of the current diagram, the cup one
   wire to the left (left snake) / right (right snake) of the cap -- what is
   deleted is a snake, not a circle and not two unrelated boxes *)
Theorem unsnake_pair_adjacent : forall d cup cap lo ro ls s2, wf d -> rigid_ok d ->
  find_snake d = Some (cup, cap, (lo, ro), ls) ->
  unsnake_loops d cup cap lo ro ls = (s2, None) ->
  exists c bcap oc bcup ou,
    us_cap s2 = Z.of_nat c /\ us_cup s2 = Z.of_nat c + 1 /\
    nth_error (dboxes (us_d s2)) c = Some bcap /\ nth_error (doffs (us_d s2)) c = Some oc /\
    nth_error (dboxes (us_d s2)) (S c) = Some bcup /\ nth_error (doffs (us_d s2)) (S c) = Some ou /\
    is_cap bcap = true /\ is_cup bcup = true /\ bdom bcup = rev (bcod bcap) /\
    ou = (if ls then oc - 1 else oc + 1).
Proof. exact SnakeWire.unsnake_pair_adjacent. Qed.
Print Assumptions unsnake_pair_adjacent.

(* any obstructions: once the two loops have completed, the deletion is never
   refused (no AxiomError from `layers[:cap] >> layers[cup+1:]`); that the loops do
   complete is `unsnake_loops_complete` below *)
Theorem unsnake_deletion_accepted : forall d cup cap lo ro ls s2, wf d -> rigid_ok d ->
  find_snake d = Some (cup, cap, (lo, ro), ls) ->
  unsnake_loops d cup cap lo ro ls = (s2, None) ->
  exists d', delete_pair (us_d s2) (us_cap s2) (us_cup s2) = Ok d'.
Proof. exact SnakeWire.unsnake_deletion_accepted. Qed.
Print Assumptions unsnake_deletion_accepted.

(* `snake_eqs Mod F Q`: for every Cap : [] -> [a; b] and Cup : [b; a] -> [] in Q,
     (id_b (x) F cap) ; (F cup (x) id_b) = id_b   and   (F cap (x) id_a) ; (id_a (x) F cup) = id_a.
   One call of unsnake on what find_snake selected, ANY obstructions, whether or
   not it then raises: the current diagram and every yielded diagram (interchange
   steps, the diagram with the pair deleted) denote what the input denotes, in
   every strict monoidal category with such an interpretation of the boxes *)
Theorem unsnake_sound : forall (Mod : monoidal_model) (F : box -> M Mod),
  respects_types Mod F -> snake_eqs Mod F (fun _ => True) ->
  forall d cup cap lo ro ls d' ys e, wf d -> rigid_ok d ->
  find_snake d = Some (cup, cap, (lo, ro), ls) ->
  unsnake d cup cap lo ro ls = (d', ys, e) ->
  Monoidal.interp Mod F d' = Monoidal.interp Mod F d /\
  Forall (fun x => Monoidal.interp Mod F x = Monoidal.interp Mod F d) ys.
Proof.
  intros Mod F HF HS d cup cap lo ro ls d' ys e.
  exact (SnakeSem.unsnake_step_sound (RS Mod F HF HS) d cup cap lo ro ls d' ys e).
Qed.
Print Assumptions unsnake_sound.

(* C07, the semantic clause: every diagram of every prefix (any yield limit) of
   the trace of rigid.Diagram.normalize -- interchange steps of unsnake, diagrams
   with a pair deleted, steps of the final monoidal normalisation -- denotes the
   same morphism as the input "under every rigid functor" *)
Theorem snake_removal_sound : forall (Mod : monoidal_model) (F : box -> M Mod),
  respects_types Mod F -> snake_eqs Mod F (fun _ => True) ->
  forall d limit left tr st, wf d -> rigid_ok d ->
  rigid_trace limit d left = (tr, st) ->
  Forall (fun x => Monoidal.interp Mod F x = Monoidal.interp Mod F d) tr.
Proof.
  intros Mod F HF HS d limit left tr st.
  exact (SnakeSem.snake_removal_sound (RS Mod F HF HS) d limit left tr st).
Qed.
Print Assumptions snake_removal_sound.

(* ... and so does the normal form, when there is one *)
Theorem rigid_normal_form_sound : forall (Mod : monoidal_model) (F : box -> M Mod),
  respects_types Mod F -> snake_eqs Mod F (fun _ => True) ->
  forall fuel d left d', wf d -> rigid_ok d ->
  rigid_normal_form fuel d left = Ok d' ->
  Monoidal.interp Mod F d' = Monoidal.interp Mod F d.
Proof.
  intros Mod F HF HS fuel d left d'.
  exact (SnakeSem.rigid_normal_form_sound_all (RS Mod F HF HS) fuel d left d').
Qed.
Print Assumptions rigid_normal_form_sound.

(* the same with the weaker demand on the functor: the snake equations only for
   the cups and caps that rigid.Cup / rigid.Cap accept (adjoint objects,
   Snake.check_box), for diagrams built from such boxes (what Snake.build returns) *)
Theorem snake_removal_sound_adjoint : forall (Mod : monoidal_model) (F : box -> M Mod) d limit left tr st,
  respects_types Mod F -> snake_eqs Mod F adjoint_checked ->
  wf d -> rigid_ok d -> (forall b, In b (dboxes d) -> adjoint_checked b) ->
  rigid_trace limit d left = (tr, st) ->
  Forall (fun x => Monoidal.interp Mod F x = Monoidal.interp Mod F d) tr.
Proof. exact SnakeSem.snake_removal_sound_adjoint. Qed.
Print Assumptions snake_removal_sound_adjoint.

(* non-vacuity 1: C05's counting model with cups and caps counted 0 satisfies the
   hypotheses; the denotation counts the proper boxes (4 for the obstructed snake,
   before and after snake removal; 0 for the plain snake) *)
Theorem rigid_functor_counting :
  respects_types counting_model rcount_F /\ snake_eqs counting_model rcount_F (fun _ => True) /\
  ccount (Monoidal.interp counting_model rcount_F obstructed_d) = 4%nat /\
  ccount (Monoidal.interp counting_model rcount_F plain_d) = 0%nat.
Proof.
  split; [exact rcount_respects|]. split; [exact rcount_snakes|].
  destruct rcount_obstructed as (A & B & _). split; [exact A|exact B].
Qed.
Print Assumptions rigid_functor_counting.

(* non-vacuity 2, a genuinely rigid model: tensors over Z[i] (C09's tensor_model),
   every wire a qubit, Cap / Cup = Tensor.caps / Tensor.cups(Dim(2), Dim(2)); the
   plain snake denotes the 2 x 2 identity matrix, the circle Cap >> Cup the scalar 2 *)
Theorem rigid_functor_qubit_tensors :
  respects_types QM qubit_F /\ snake_eqs QM qubit_F (fun _ => True) /\
  (Tensor.tcaps [2%nat] [2%nat] = Ok cap2 /\ Tensor.tcups [2%nat] [2%nat] = Ok cup2) /\
  TFunMonoidal.val (Monoidal.interp QM qubit_F plain_d) = TFunMonoidal.id_t [2%nat] /\
  NumpyModel.data (Tensor.tarr (TFunMonoidal.val (Monoidal.interp QM qubit_F circle_d))) = [(2, 0)].
Proof.
  split; [exact qubit_respects|]. split; [exact qubit_snakes|]. split; [exact caps_cups_2|].
  destruct qubit_denotations as (A & _ & B & _). split; [exact A|exact B].
Qed.
Print Assumptions rigid_functor_qubit_tensors.


(* the statement kept above since the first round, as stated (untyped carrier,
   typing relation, SnakeLemmas.rigid_laws), any obstructions, every yield limit *)
Theorem snake_removal_sound_untyped : snake_removal_sound_stmt.
Proof. exact SnakeSemUntyped.snake_removal_sound_untyped. Qed.
Print Assumptions snake_removal_sound_untyped.

(* non-vacuity of `rigid_laws` beyond the one-point model: morphisms = numbers of
   proper boxes (cups and caps count 0); 4 for the obstructed snake, 0 for the plain one *)
Theorem rigid_laws_counting :
  rigid_laws ucount_model /\
  SnakeLemmas.interp ucount_model obstructed_d = 4%nat /\ SnakeLemmas.interp ucount_model plain_d = 0%nat.
Proof. split; [exact ucount_laws|exact ucount_values]. Qed.
Print Assumptions rigid_laws_counting.


(* ================================================================ totality, PROVED *)
Require Import DV.Snake.SnakeTotal.

(* the planar argument: the followed wire separates the left obstructions from the
   right ones, from the cap and from the cup, so every interchange requested by the
   two loops of unsnake is legal and the loops complete, whatever the obstructions *)
Theorem unsnake_loops_complete : forall d cup cap lo ro ls, wf d -> rigid_ok d ->
  find_snake d = Some (cup, cap, (lo, ro), ls) ->
  exists s2, unsnake_loops d cup cap lo ro ls = (s2, None).
Proof. exact SnakeTotal.unsnake_loops_complete. Qed.
Print Assumptions unsnake_loops_complete.

(* C07, totality, FULL: every call of unsnake on what find_snake selected runs to
   completion -- no InterchangerError, IndexError or AxiomError *)
Theorem snake_removal_total : snake_removal_total_stmt.
Proof. exact SnakeTotal.snake_removal_total. Qed.
Print Assumptions snake_removal_total.

(* hence rigid.Diagram.normal_form only ever fails with NotImplementedError (its
   cache found a repeat: a disconnected diagram) or the model's fuel *)
Theorem normal_form_total : normal_form_total_stmt.
Proof. exact SnakeTotal.normal_form_total. Qed.
Print Assumptions normal_form_total.

(* ... and no prefix of the trace of rigid.Diagram.normalize ends with an exception *)
Theorem rigid_trace_never_raises : forall limit d left tr st e, wf d -> rigid_ok d ->
  rigid_trace limit d left = (tr, st) -> st <> Raised e.
Proof. exact SnakeTotal.rigid_trace_never_raises. Qed.
Print Assumptions rigid_trace_never_raises.
