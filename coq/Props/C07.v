(* C07 -- snake removal is sound for rigid diagrams.
   Model: Snake/Snake.v (follow_wire, find_snake, unsnake, the outer loop, then
   Core's monoidal normalize; rigid normal_form with its cache), following
   /repo/discopy/rewriting.py after the repair of finding F2 (commit 0cc87cd:
   find_snake only selects a cap / cup pair whose types match).  `keeps d x` = x is
   well-typed (wf, the statement of C01) and has d's domain and codomain.

   Proved for all inputs: every yielded diagram / every prefix of the trace / the
   normal form is well-typed with the input's dom and cod; follow_wire's contract;
   find_snake returns None iff no cap leg runs straight into the opposite leg of a
   MATCHING cup (and otherwise the first one); only pairs satisfying a snake
   equation are ever handed to unsnake (full, any obstructions); each unsnake
   removes exactly two boxes and the outer loop terminates.
   Partial: totality (no InterchangerError / IndexError / AxiomError from unsnake)
   for unobstructed snakes; the full statements are `snake_removal_total_stmt` and
   `normal_form_total_stmt`.  Not proved in Coq: equality of denotations under
   rigid functors (`snake_removal_sound_stmt`), checked by the oracle of
   harness/props/c07.py on every yielded step. *)
From Coq Require Import List ZArith Bool.
Import ListNotations.
Require Import DV.Common.Base DV.Core.Diagram DV.Core.WF DV.Core.Rewriting
  DV.Snake.Snake DV.Snake.SnakeLemmas.
Open Scope Z_scope.

(* every diagram yielded by one call of unsnake (interchange steps and the diagram
   with the pair deleted) is well-typed with the input's dom / cod, whether or not
   the generator then raises *)
Theorem unsnake_steps_wf : forall d cup cap lo ro ls d' ys e, wf d ->
  unsnake d cup cap lo ro ls = (d', ys, e) -> keeps d d' /\ Forall (keeps d) ys.
Proof. exact SnakeLemmas.unsnake_steps_wf. Qed.
Print Assumptions unsnake_steps_wf.

(* ... and so is every diagram of every prefix (any yield limit) of the trace of
   rigid.Diagram.normalize: snake removal followed by monoidal normalisation *)
Theorem snake_removal_steps_wf : forall limit d left tr st, wf d ->
  rigid_trace limit d left = (tr, st) -> Forall (keeps d) tr.
Proof. exact SnakeLemmas.snake_removal_steps_wf. Qed.
Print Assumptions snake_removal_steps_wf.

(* ... and the normal form *)
Theorem rigid_normal_form_wf : forall fuel d left d', wf d ->
  rigid_normal_form fuel d left = Ok d' -> keeps d d'.
Proof. exact SnakeLemmas.rigid_normal_form_wf. Qed.
Print Assumptions rigid_normal_form_wf.

(* whatever pair the final step of unsnake deletes, the type reached before it
   equals the type reached after it; otherwise the step is refused (AxiomError) *)
Theorem delete_pair_wf : forall d cap cup d', wf d -> delete_pair d cap cup = Ok d' ->
  wf d' /\ ddom d' = ddom d /\ dcod d' = dcod d.
Proof. exact SnakeLemmas.delete_pair_wf. Qed.
Print Assumptions delete_pair_wf.

(* follow_wire: the first box below that takes the wire as input (or the number
   of boxes), the wire's position there, and the boxes passed, split by side *)
Theorem follow_wire_spec : forall rest i j c w lo ro, fw rest i j = (c, w, lo, ro) ->
  exists k, c = (i + k)%nat /\ (k <= length rest)%nat /\ w = wire_at rest j k /\
    (forall m bo, (m < k)%nat -> nth_error rest m = Some bo -> ~ takes bo (wire_at rest j m)) /\
    (forall bo, nth_error rest k = Some bo -> takes bo w) /\
    lo = map (Nat.add i) (filter (on_left rest j) (seq 0 k)) /\
    ro = map (Nat.add i) (filter (fun m => negb (on_left rest j m)) (seq 0 k)).
Proof. exact fw_spec. Qed.
Print Assumptions follow_wire_spec.

(* the result clause: find_snake gives up exactly when no cap has a leg running
   straight into the opposite leg of a matching cup (runs_into_cup includes
   cup.dom = rev cap.cod) *)
Theorem find_snake_none_iff_no_yankable : forall d,
  find_snake d = None <-> forall cap ls, ~ runs_into_cup d cap ls.
Proof. exact find_snake_none_iff. Qed.
Print Assumptions find_snake_none_iff_no_yankable.

(* otherwise it returns the first such cap from the top (left leg first) with
   follow_wire's answer; the obstructions are exactly the boxes in between *)
Theorem find_snake_some_spec : forall d cup cap lo ro ls,
  find_snake d = Some (cup, cap, (lo, ro), ls) ->
  runs_into_cup d cap ls /\
  (forall c ls', (c < cap)%nat -> ~ runs_into_cup d c ls') /\
  (ls = false -> ~ runs_into_cup d cap true) /\
  (exists off w, nth_error (doffs d) cap = Some off /\
     follow_wire d cap (if ls then off else off + 1) = (cup, w, lo, ro)) /\
  (cup = S cap + length lo + length ro)%nat /\ (cup < length (dboxes d))%nat /\
  matched d cup cap = true.
Proof. exact find_snake_some. Qed.
Print Assumptions find_snake_some_spec.

(* each unsnake that completes removes exactly two boxes *)
Theorem snake_removal_box_count : forall d cup cap lo ro ls d' ys, wf d ->
  find_snake d = Some (cup, cap, (lo, ro), ls) ->
  unsnake d cup cap lo ro ls = (d', ys, None) ->
  (length (dboxes d') + 2 = length (dboxes d))%nat.
Proof. exact SnakeLemmas.snake_removal_box_count. Qed.
Print Assumptions snake_removal_box_count.

(* hence the outer `while True` loop stops within length / 2 iterations *)
Theorem snake_loop_terminates : forall fuel d acc d' ys e, wf d ->
  (length (dboxes d) < 2 * fuel)%nat ->
  snake_loop fuel d acc = (d', ys, e) -> e <> Some OutOfFuel.
Proof. exact snake_loop_fuel. Qed.
Print Assumptions snake_loop_terminates.

(* only cap / cup pairs that satisfy a snake equation (Cap(a, b) against
   Cup(b, a)) are ever removed: FULL, whatever the obstructions -- unsnake is only
   called on what find_snake selected *)
Theorem unsnake_removes_matching_pair_only : forall d cup cap lo ro ls,
  find_snake d = Some (cup, cap, (lo, ro), ls) -> matched d cup cap = true.
Proof. exact SnakeLemmas.unsnake_removes_matching_pair_only. Qed.
Print Assumptions unsnake_removes_matching_pair_only.

(* regression for the repaired F2: the twisted snake
   Id(x.l) @ Cap(x, x.r) >> Cup(x.l, x) @ Id(x.r) is left in place, nothing raised *)
Theorem twisted_snake_left_in_place :
  wf twisted_d /\ rigid_ok twisted_d /\
  find_snake twisted_d = None /\
  rigid_trace trace_limit twisted_d false = ([], Done) /\
  rigid_normal_form nf_fuel twisted_d false = Ok twisted_d.
Proof. exact twisted_left_in_place. Qed.
Print Assumptions twisted_snake_left_in_place.

(* FULL statements, kept visible, NOT asserted: on a well-typed rigid diagram every
   call of unsnake on what find_snake selected runs to completion (no
   InterchangerError / IndexError / AxiomError, whatever the obstructions); hence
   the only error of normal_form is NotImplementedError (or the model's fuel) *)
Definition snake_removal_total_stmt : Prop := SnakeLemmas.snake_removal_total_stmt.
Definition normal_form_total_stmt : Prop := SnakeLemmas.normal_form_total_stmt.

(* PARTIAL: the first of them for snakes without obstructions *)
Theorem snake_removal_total_partial : forall d cup cap ls, wf d -> rigid_ok d ->
  find_snake d = Some (cup, cap, ([], []), ls) -> unsnake_completes d cup cap [] [] ls.
Proof. exact SnakeLemmas.snake_removal_total_partial. Qed.
Print Assumptions snake_removal_total_partial.

(* FULL statement of semantic soundness, kept visible, NOT asserted and not proved
   in Coq: in every strict rigid monoidal category (SnakeLemmas.rigid_laws: category
   and strict-monoidal laws, interchange law, the two snake equations for
   type-matched pairs) every diagram of every trace prefix denotes the same
   morphism as the input.  It is checked by the oracle on every yielded step under
   two random rigid functors into integer tensors. *)
Definition snake_removal_sound_stmt : Prop := SnakeLemmas.snake_removal_sound_stmt.
