(* C15 -- diagrammatic gradients and jacobians.

   Property theorems only; the proofs are in Grad/GradLemmas.v, the model is
   Grad/Grad.v: tensor.Diagram.grad (the product rule over the layers, with
   its `var not in free_symbols` shortcut and its term order), tensor.Box.grad,
   tensor.Bubble.grad, quantum.gates Rotation / CU1 / CRz / CRx / Scalar .grad,
   quantum.circuit.Box.grad, quantum.zx Spider / Scalar .grad, and
   tensor.Diagram.jacobian / quantum.circuit.Circuit.jacobian of /repo/discopy,
   bug for bug (findings F12, F12b, F12c).  The model takes a record of repair
   switches `fx : gfixes` (as Param.v does): `gpinned` (all off) is the pinned
   code; gx_b / gx_c select the behaviour of notes/patches/F12b.diff /
   F12c.diff; `grepaired` has both on.  Every positive theorem about the model
   holds for every fx.  Expressions are the canonical
   polynomials over Q of Param/Expr.v; sympy's e.diff(x) is [poly_diff].

   What the statements say.

   1. [poly_diff] is the derivative: evaluating a polynomial in the dual numbers
      Q[eps]/(eps^2) with the symbol x sent to x + eps (forward differentiation,
      [deval_poly]) gives the pair (value of p, value of poly_diff x p); a
      polynomial without x has derivative [] (the zero polynomial).

   2. Box rules, in ANY commutative *-ring SR with i and 1/2 (Quantum/Ring.v)
      carrying a derivation D that commutes with conjugation and kills i, 1/2
      ([diff_hyps]): for a unit e = exp(i pi p) with D e = i k e, k = pi p' real,
        - the derivative of the matrix of Rx / Ry / Rz at phase p is k times the
          matrix at phase p + 1/2 (Rotation.grad, mixed=False);
        - every entry of R (x) conj(R) (the doubled, CQMap picture) has derivative
          k * (entry at p + 1/4  -  entry at p - 1/4) (Rotation.grad, mixed=True:
          the shift rule);
        - the parametrised entries of CU1, CRz, CRx have the derivatives that
          CU1.grad / CRz.grad / CRx.grad write down.
      [diffring_nonvacuous]: the hypotheses are consistent (zero derivation on
      Cyc32; a number field has no other derivation, the intended model is the
      smooth functions of the symbols).

   3. Product rule, in ANY additive monoidal semantics [grad_model]: a carrier
      with 0, +, sequential composition, identities, whiskering by types and a
      derivation D (additive, Leibniz for composition, commuting with
      whiskering, killing identities).  [gm_ev G evb t bs offs] is the value of
      the diagram with layers (bs, offs) on the type t given values [evb] of
      the boxes; [gm_sum_ev] is the sum of the values of the terms of a formal
      sum.  IF every box of the diagram without the symbol has derivative 0
      ([gm_const_ok]) and box.grad returns well-typed terms adding up to the
      derivative of the box ([gm_grad_ok]) THEN the terms of Diagram.grad add up
      to the derivative of the diagram ([grad_product_rule],
      [grad_eval_is_derivative]).  [dn_model] / [ex_product_rule]: an instance
      where all premises hold and the derivative is not zero.  Independently of
      any semantics the terms of the gradient are well-typed diagrams
      ([grad_terms_well_typed]).

   4. A diagram without the symbol has the empty sum as gradient; jacobian
      stacks the gradients, in the order of the symbols, the i-th under the i-th
      basis state ([head_box]: a one-hot tensor box / Digits(i)), offsets shifted
      by the new leading wire; Circuit.jacobian of no symbol is the empty sum,
      of one symbol is grad.

   5. Refutations (each is a finding, the model follows the code).  F12 holds
      for every setting of the switches (no patch of ours repairs it); F12c and
      F12b are stated on the pinned switches `gpinned`, and the same witnesses
      pass on `grepaired` ([mixed_scalar_grad_repaired]: the gradient of the
      mixed scalar now evaluates to the derivative; [bubble_grad_repaired]: the
      gradient of the bubble diagram is no longer the empty sum):
      F12   the default (mixed) gradient of a pure Scalar s(x) is Scalar(s'), its
            mixed evaluation is |s'|^2 instead of (|s|^2)';
      F12c  the gradient of a mixed scalar is a pure Scalar;
      F12b  a Bubble has no free symbols: the gradient of a well-typed tensor
            diagram depending on x only inside a bubble is the empty sum.
      These are exactly boxes violating the premises of 3: for them
      [gm_grad_ok] (F12, F12c) / [gm_const_ok] (F12b) fails in the intended
      semantics.

   What is partial.  The premises of 3 for the concrete semantics (matrices of
   Quantum/Gates.v over smooth functions, CQMap for mixed circuits) are not
   derived: 2 gives the ring identities they rest on, entry by entry, but no
   grad_model of matrices is constructed and the box-level premise is not
   proved for bgrad.  The missing statement is [grad_eval_concrete_stmt]
   below, a Definition that is NOT asserted. *)
From Coq Require Import List ZArith Bool Lia QArith Qcanon.
Import ListNotations.
Require Import DV.Quantum.Ring DV.Quantum.Gates DV.Quantum.Cyc32.
Require Import DV.Common.Base DV.Param.Expr DV.Param.ExprLemmas DV.Param.Param DV.Param.ParamLemmas.
Require Import DV.Grad.Grad DV.Grad.GradLemmas.
Open Scope Z_scope.

(* 1. poly_diff is the forward-mode derivative *)
Theorem poly_diff_correct : forall x rho p,
  deval_poly x rho p = (eval_poly rho p, eval_poly rho (poly_diff x p)).
Proof. exact poly_diff_correct. Qed.
Print Assumptions poly_diff_correct.

Theorem poly_diff_absent : forall x p, ~ In x (poly_vars p) -> poly_diff x p = [].
Proof. exact poly_diff_absent. Qed.
Print Assumptions poly_diff_absent.

(*    ... and the dual numbers are a derivation *)
Theorem dual_numbers_derivation : forall x rho (u v : dn) c y,
  snd (dn_add u v) = (snd u + snd v)%Qc /\
  snd (dn_mul u v) = (snd u * fst v + fst u * snd v)%Qc /\
  snd (dn_const c) = Q2Qc 0 /\
  snd (dn_var x rho y) = (if (y =? x)%Z then Q2Qc 1 else Q2Qc 0).
Proof.
  intros. exact (conj (dn_add_snd u v) (conj (dn_mul_leibniz u v)
                 (conj (dn_const_snd c) (dn_var_snd x rho y)))).
Qed.
Print Assumptions dual_numbers_derivation.

(* 2. box rules in a differential *-ring *)
Theorem rotation_grad_pure : forall (SR : StarRing) (D : SR -> SR) (k e : SR),
  diff_hyps SR D k e ->
  forall r : rot1, map D (rot1_flat r e) = map (rmul k) (rot1_flat r (rmul e ri)).
Proof. exact rotation_grad_pure_closed. Qed.
Print Assumptions rotation_grad_pure.

Theorem rotation_grad_shift : forall (SR : StarRing) (D : SR -> SR) (k e : SR),
  diff_hyps SR D k e ->
  forall (r : rot1) j j', (j < 4)%nat -> (j' < 4)%nat ->
    let a := rot1_flat r e in
    let ap := rot1_flat r (rmul e rw8) in
    let am := rot1_flat r (rmul e (rconj rw8)) in
    D (rmul (nth j a r0) (rconj (nth j' a r0)))
    = rmul k (rsub (rmul (nth j ap r0) (rconj (nth j' ap r0)))
                   (rmul (nth j am r0) (rconj (nth j' am r0)))).
Proof. exact rotation_grad_shift_closed. Qed.
Print Assumptions rotation_grad_shift.

Theorem controlled_grads : forall (SR : StarRing) (D : SR -> SR) (k e : SR),
  diff_hyps SR D k e ->
  (* CU1: the entry exp(2 i pi p) *)
  D (rmul e e) = rmul (rmul (rmul (radd r1 r1) ri) k) (rmul e e) /\
  (* CRz: the entries exp(-i pi p), exp(i pi p), as CRz >> (Z@Z - Id@Z) * (i pi p' / 2) has them *)
  D (rconj e) = rmul (rconj e) (rmul (rmul (rmul ri rhalf) k) (rsub (ropp r1) r1)) /\
  D e = rmul e (rmul (rmul (rmul ri rhalf) k) (rsub r1 (ropp r1))) /\
  (* CRx: the entries cos(pi p), -i sin(pi p) *)
  D (pcos e) = ropp (rmul k (psin e)) /\
  D (rmul (ropp ri) (psin e)) = rmul (rmul (ropp ri) k) (pcos e).
Proof. exact controlled_grads_closed. Qed.
Print Assumptions controlled_grads.

Theorem diff_hyps_consistent : diff_hyps Cyc32 (fun _ => r0) r0 r1.
Proof. exact diffring_nonvacuous. Qed.
Print Assumptions diff_hyps_consistent.

(* 3. the product rule *)
Theorem grad_product_rule : forall (G : grad_model) (evb : gbox -> gm_car G) fx cls x bg,
  (forall b, gm_const_ok G evb fx x b) -> (forall b, gm_grad_ok G evb bg b) ->
  forall bs offs t cod ts,
  gscan t bs offs = Ok cod -> length bs = length offs ->
  dgrad_go fx cls x bg bs offs = Ok ts ->
  gm_sum_ev G evb t ts = gm_D G (gm_ev G evb t bs offs).
Proof. exact grad_product_rule_closed. Qed.
Print Assumptions grad_product_rule.

(*    the premises are needed of the boxes of the diagram only *)
Theorem grad_eval_is_derivative : forall (G : grad_model) (evb : gbox -> gm_car G) fx cls x mixed d s,
  gwf d = true ->
  Forall (gm_const_ok G evb fx x) (gboxes d) ->
  Forall (gm_grad_ok G evb (bgrad fx cls x mixed)) (gboxes d) ->
  dgrad fx cls x mixed d = Ok s ->
  gsdom s = gdom d /\ gscod s = gcod d /\
  gm_sum_ev G evb (gdom d) (gsterms s) = gm_D G (gm_ev G evb (gdom d) (gboxes d) (goffs d)).
Proof. exact grad_eval_is_derivative. Qed.
Print Assumptions grad_eval_is_derivative.

(*    without any semantics: the terms of d.grad(x) are well-typed diagrams dom d -> cod d
      when the terms of every box.grad are (frag_typed: the type scan of
      monoidal.Diagram.__init__ succeeds with the stated codomain) *)
Theorem grad_terms_well_typed : forall fx cls x mixed d s,
  gwf d = true ->
  Forall (box_grad_typed (bgrad fx cls x mixed)) (gboxes d) ->
  dgrad fx cls x mixed d = Ok s ->
  gsdom s = gdom d /\ gscod s = gcod d /\ Forall (frag_typed (gdom d) (gcod d)) (gsterms s).
Proof. exact grad_terms_well_typed. Qed.
Print Assumptions grad_terms_well_typed.

(*    ... e.g. Rz(s1) >> Rz(s1 * s2), pure mode: two well-typed terms *)
Theorem rz_grad_instance : forall fx,
  gwf ex_rz_diag = true /\
  Forall (box_grad_typed (bgrad fx CCircuit 1 false)) (gboxes ex_rz_diag) /\
  exists s, dgrad fx CCircuit 1 false ex_rz_diag = Ok s /\ length (gsterms s) = 2%nat /\
            Forall (frag_typed [2] [2]) (gsterms s).
Proof. exact ex_rz_grad_typed. Qed.
Print Assumptions rz_grad_instance.

(*    shifting a fragment under identities is whiskering (the typing lemma behind t1) *)
Theorem fragment_shift : forall (G : grad_model) (evb : gbox -> gm_car G) l r tb to u u',
  gscan u tb to = Ok u' -> length tb = length to ->
  gm_ev G evb (l ++ u ++ r) tb (map (Z.add (len l)) to) = gm_whisk G l r (gm_ev G evb u tb to) /\
  gscan (l ++ u ++ r) tb (map (Z.add (len l)) to) = Ok (l ++ u' ++ r).
Proof. exact ev_shift_closed. Qed.
Print Assumptions fragment_shift.

(*    non-vacuity: dual numbers, Euler derivation, two boxes 1 + eps *)
Theorem product_rule_instance : forall fx,
  (forall b, gm_const_ok dn_model ex_evb fx 1 b) /\ (forall b, gm_grad_ok dn_model ex_evb ex_bg b) /\
  exists ts, dgrad_go fx CCircuit 1 ex_bg [ex_b; ex_b] [0; 0] = Ok ts /\
             length ts = 2%nat /\
             gm_sum_ev dn_model ex_evb [] ts
               = gm_D dn_model (gm_ev dn_model ex_evb [] [ex_b; ex_b] [0; 0]) /\
             gm_D dn_model (gm_ev dn_model ex_evb [] [ex_b; ex_b] [0; 0]) = (Q2Qc 0, Q2Qc 2).
Proof. intros fx. exact (conj (ex_const_ok fx) (conj ex_grad_ok (ex_product_rule fx))). Qed.
Print Assumptions product_rule_instance.

(* 4. constants and jacobians *)
Theorem grad_of_constant_is_empty : forall fx cls x mixed d,
  (cls = CTensor \/ cls = CCircuit \/ cls = CZX) ->
  zmem x (gfree fx (gboxes d)) = false ->
  dgrad fx cls x mixed d = Ok (GS (gdom d) (gcod d) []).
Proof. exact grad_of_constant_is_empty. Qed.
Print Assumptions grad_of_constant_is_empty.

Theorem jacobian_stacks_in_order : forall fx cls mixed xs d s,
  (cls = CTensor \/ (cls = CCircuit /\ (2 <= length xs)%nat)) ->
  let dim := jac_dim cls (length xs) in
  jacobian fx cls mixed xs d = Ok s <->
  exists gs, Forall2 (fun x g => dgrad fx cls x mixed d = Ok g) xs gs /\
             s = GS (gdom d) (dim ++ gcod d) (jac_spec cls (length xs) dim 0 xs gs).
Proof. exact jacobian_stacks_in_order. Qed.
Print Assumptions jacobian_stacks_in_order.

Theorem jacobian_circuit_small : forall fx mixed x d,
  jacobian fx CCircuit mixed [] d = Ok (GS (gdom d) (gcod d) []) /\
  jacobian fx CCircuit mixed [x] d = dgrad fx CCircuit x mixed d.
Proof. intros. exact (conj (jacobian_circuit_nil fx mixed d) (jacobian_circuit_one fx mixed x d)). Qed.
Print Assumptions jacobian_circuit_small.

(* 5. refutations.  F12: for every setting of the switches (neither patch repairs it) *)
Theorem scalar_grad_mixed_refuted : forall fx,
  exists x bs, existsb (f12_box x) bs = true /\ scalar_grad_ok fx true x bs = Some false.
Proof. exact scalar_grad_mixed_refuted. Qed.
Print Assumptions scalar_grad_mixed_refuted.

(*    the same scalar differentiated and evaluated purely is fine *)
Theorem scalar_grad_pure_example : forall fx,
  scalar_grad_ok fx false 1 [e1_box; e1_box2] = Some true.
Proof. exact scalar_grad_pure_example. Qed.
Print Assumptions scalar_grad_pure_example.

(*    F12c, F12b: on the pinned code ... *)
Theorem mixed_scalar_grad_refuted :
  exists x bs, existsb (f12c_box x) bs = true /\ scalar_grad_ok gpinned true x bs = Some false.
Proof. exact mixed_scalar_grad_refuted. Qed.
Print Assumptions mixed_scalar_grad_refuted.

Theorem bubble_grad_refuted :
  exists x d, gwf d = true /\ existsb (f12b_box x) (gboxes d) = true /\
              dgrad gpinned CTensor x true d = Ok (GS [] [2] []).
Proof. exact bubble_grad_refuted. Qed.
Print Assumptions bubble_grad_refuted.

(*    ... and the same witnesses on the code with notes/patches/F12c.diff, F12b.diff applied *)
Theorem mixed_scalar_grad_repaired :
  existsb (f12c_box 1) e2_bs = true /\ scalar_grad_ok grepaired true 1 e2_bs = Some true.
Proof. exact (conj eq_refl mixed_scalar_grad_repaired). Qed.
Print Assumptions mixed_scalar_grad_repaired.

Theorem bubble_grad_repaired :
  gwf e3_diag = true /\ existsb (f12b_box 1) (gboxes e3_diag) = true /\
  exists s, dgrad grepaired CTensor 1 true e3_diag = Ok s /\ gsterms s <> [].
Proof. exact (conj eq_refl (conj eq_refl bubble_grad_repaired)). Qed.
Print Assumptions bubble_grad_repaired.

(* NOT PROVED, NOT ASSERTED.  The concrete statement behind 3: there is a
   grad_model G with a non-trivial derivation and a valuation evb of the boxes
   such that, for every symbol x, every rotation, controlled rotation and pure
   scalar box of a circuit (i) has derivative 0 when it does not mention x and
   (ii) has a pure-mode gradient ([bgrad gpinned CCircuit x false]) whose terms are
   well typed and add up to its derivative, and the same in mixed mode for the
   one-qubit rotations.  Intended witness (informal but precise): the carrier
   is the set of matrices (functions bits -> bits -> F, Quantum/Matrix.v) over
   the *-ring F of smooth functions R^n -> C of the symbols, gm_comp is mmul,
   gm_whisk l r m is kron (id l) (kron m (id r)), gm_D is d/dx entrywise, evb
   of a rotation box with phase polynomial p is the matrix of Quantum/Gates.v
   at e = exp(i pi p) (doubled, m (x) conj m, in mixed mode), evb of
   GC _ _ (CF _ i pi g q) is the 1x1 matrix i^[i] pi^[pi] g exp(2 i pi q).  With
   k = pi * dp/dx the theorems of 2 are the entrywise content of (ii).  The
   formal statement below only says that SOME such model exists; it is
   false for the F12 / F12c boxes in mixed mode, which is why scalars are
   restricted to pure mode. *)
Definition is_param_gate (b : gbox) : Prop :=
  match b with
  | GP p => (pk p = KRot /\ exists e, pdat p = DScalar e /\ esym e = true) \/
            (pk p = KQScalar /\ pmixed p = false /\ exists e, pdat p = DScalar e /\ esym e = true)
  | _ => False
  end.
Definition grad_eval_concrete_stmt : Prop :=
  exists (G : grad_model) (evb : gbox -> gm_car G),
    (exists b, is_param_gate b /\ gm_D G (evb b) <> gm_zero G) /\
    (forall x b, is_param_gate b ->
       gm_const_ok G evb gpinned x b /\ gm_grad_ok G evb (bgrad gpinned CCircuit x false) b) /\
    (forall x p, pk p = KRot -> len (pdom p) = 1 ->
       gm_grad_ok G evb (bgrad gpinned CCircuit x true) (GP p)).
