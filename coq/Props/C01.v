(* C01 -- every diagram the library hands back is well-typed.
   `wf` (Core/WF.v) says: the layer view starts at dom, ends at cod, each layer
   finds its box's domain between its left and right wires, and boxes / offsets
   are exactly the boxes / numbers of left wires of the layers.  `reads` is an
   independent, range-checked reading of (dom, boxes, offsets).  `run`
   (Core/Prog.v) interprets arbitrary terms of public-API calls. *)
From Coq Require Import List ZArith Bool.
Import ListNotations.
Require Import DV.Common.Base DV.Core.Diagram DV.Core.WF DV.Core.DiagramLemmas
  DV.Core.Rewriting DV.Core.RewritingLemmas DV.Core.Foliate DV.Core.FoliateLemmas
  DV.Core.Prog DV.Core.ProgLemmas DV.Sem.Monoidal DV.Sem.FoliateSem.
Open Scope Z_scope.

(* every value returned by any sequence of API calls -- composition, tensor,
   dagger, slices (forward and reversed), indexing, interchange, every yielded
   normalisation step, normal forms, swaps, permutations, cups, caps, transposes,
   functor images -- is well-typed; by induction on the program *)
Theorem api_program_wf : forall (p : prog) (v : value), run p = Ok v -> wf_value v.
Proof. exact run_wf. Qed.
Print Assumptions api_program_wf.

(* well-typed means: reading boxes and offsets from dom reaches exactly cod, each
   box finding its own domain at its (in-range) offset *)
Theorem wf_means_reads : forall d, wf d -> reads (ddom d) (dboxes d) (doffs d) (dcod d).
Proof. exact wf_reads. Qed.
Print Assumptions wf_means_reads.

(* the constructor accepts exactly the well-typed requests: ill-typed ones
   (wrong types, out-of-range or negative offsets, length mismatch) are refused *)
Theorem constructor_accepts_iff_well_typed : forall dom cod bs offs,
  (exists d, mk dom cod bs offs = Ok d) <-> (length bs = length offs /\ reads dom bs offs cod).
Proof. exact mk_ok_iff. Qed.
Print Assumptions constructor_accepts_iff_well_typed.

(* composition is refused exactly when codomain and domain differ *)
Theorem composition_refused_iff_types_differ : forall a b, wf a -> wf b ->
  (dthen a b = Err AxiomError <-> dcod a <> ddom b).
Proof. exact dthen_err_iff. Qed.
Print Assumptions composition_refused_iff_types_differ.

(* an adjacent interchange either succeeds with a well-typed result of the same
   domain and codomain, or is refused with InterchangerError *)
Theorem interchange_result_well_typed : forall d i j left d', wf d ->
  interchange d i j left = Ok d' -> wf d' /\ ddom d' = ddom d /\ dcod d' = dcod d.
Proof. exact interchange_wf. Qed.
Print Assumptions interchange_result_well_typed.

(* ---- foliation (rewriting.foliate / foliation / flatten / depth) ---- *)

(* every diagram yielded by d.foliate() is well-typed with d's domain, codomain and number
   of boxes, and every slice is well-typed *)
Theorem foliate_steps_and_slices_well_typed : forall d steps slices, wf d ->
  foliate d = Ok (steps, slices) ->
  Forall (fun x => wf x /\ ddom x = ddom d /\ dcod x = dcod d /\
                   length (dboxes x) = length (dboxes d)) steps
  /\ Forall wf slices.
Proof. exact foliate_wf. Qed.
Print Assumptions foliate_steps_and_slices_well_typed.

(* d.foliation() = Diagram(dom, cod, slices, [0, ..., 0]) is itself well-typed: the slices
   compose from dom to cod *)
Theorem foliation_is_well_typed : forall d steps slices, wf d ->
  foliate d = Ok (steps, slices) -> slices_chain (ddom d) slices (dcod d).
Proof. exact foliation_well_typed. Qed.
Print Assumptions foliation_is_well_typed.

(* flattening the foliation gives the last yielded diagram back: layers, boxes and offsets *)
Theorem foliation_flatten_is_last_step : forall d steps slices, wf d ->
  foliate d = Ok (steps, slices) ->
  concat (map (fun s => la_ls (dlayers s)) slices) = la_ls (dlayers (last_step d steps)) /\
  concat (map dboxes slices) = dboxes (last_step d steps) /\
  concat (map doffs slices) = doffs (last_step d steps).
Proof. exact foliation_flatten. Qed.
Print Assumptions foliation_flatten_is_last_step.

(* every slice is one non-empty layer of boxes sitting side by side, left to right *)
Theorem foliation_slices_are_layers : forall d steps slices, wf d ->
  foliate d = Ok (steps, slices) ->
  Forall (fun s => dboxes s <> []) slices /\
  Forall (fun s => forall j b0 o0 o1, nth_error (dboxes s) j = Some b0 ->
                   nth_error (doffs s) j = Some o0 -> nth_error (doffs s) (S j) = Some o1 ->
                   o0 + len (bcod b0) <= o1) slices.
Proof.
  intros d steps slices W H. split;
    [exact (foliation_slices_nonempty d steps slices W H)
    |exact (foliation_slices_parallel d steps slices W H)].
Qed.
Print Assumptions foliation_slices_are_layers.

(* on a well-typed diagram foliate never fails: the recursion bound is never reached, no index
   is out of range and every InterchangerError is caught; depth is between 0 and the number of
   boxes and is 0 exactly for diagrams without boxes *)
Theorem foliate_never_fails : forall d, wf d -> exists r, foliate d = Ok r.
Proof. exact foliate_total. Qed.
Print Assumptions foliate_never_fails.

Theorem depth_is_bounded : forall d n, wf d -> depth d = Ok n ->
  0 <= n <= len (dboxes d) /\ (n = 0 <-> dboxes d = []).
Proof. exact depth_bounds. Qed.
Print Assumptions depth_is_bounded.

(* foliation does not change what the diagram denotes, in any strict monoidal category *)
Theorem foliate_preserves_denotation :
  forall (Mod : monoidal_model) (F : box -> M Mod) d steps slices,
  wf d -> respects_types Mod F -> foliate d = Ok (steps, slices) ->
  Forall (fun x => interp Mod F x = interp Mod F d) steps.
Proof. exact foliate_interp. Qed.
Print Assumptions foliate_preserves_denotation.
