(* C01 -- every diagram the library hands back is well-typed.
   `wf` (Core/WF.v) says: the layer view starts at dom, ends at cod, each layer
   finds its box's domain between its left and right wires, and boxes / offsets
   are exactly the boxes / numbers of left wires of the layers.  `reads` is an
   independent, range-checked reading of (dom, boxes, offsets).  `run`
   (Core/Prog.v) interprets arbitrary terms of public-API calls. *)
From Coq Require Import List ZArith Bool.
Import ListNotations.
Require Import DV.Common.Base DV.Core.Diagram DV.Core.WF DV.Core.DiagramLemmas
  DV.Core.Rewriting DV.Core.RewritingLemmas DV.Core.Prog DV.Core.ProgLemmas.
Open Scope Z_scope.

(* every value returned by any sequence of API calls -- composition, tensor,
   dagger, slices (forward and reversed), indexing, interchange, every yielded
   normalisation step, normal forms, swaps, permutations, cups, caps, transposes,
   functor images -- is well-typed; by induction on the program *)
Theorem api_program_wf : forall (p : prog) (v : value), run p = Ok v -> wf_value v.
Proof. exact run_wf. Qed.
Print Assumptions api_program_wf.

(* well-typed means: reading boxes and offsets from dom reaches exactly cod, each
   box finding its own domain at its (in-range) offset *)
Theorem wf_means_reads : forall d, wf d -> reads (ddom d) (dboxes d) (doffs d) (dcod d).
Proof. exact wf_reads. Qed.
Print Assumptions wf_means_reads.

(* the constructor accepts exactly the well-typed requests: ill-typed ones
   (wrong types, out-of-range or negative offsets, length mismatch) are refused *)
Theorem constructor_accepts_iff_well_typed : forall dom cod bs offs,
  (exists d, mk dom cod bs offs = Ok d) <-> (length bs = length offs /\ reads dom bs offs cod).
Proof. exact mk_ok_iff. Qed.
Print Assumptions constructor_accepts_iff_well_typed.

(* composition is refused exactly when codomain and domain differ *)
Theorem composition_refused_iff_types_differ : forall a b, wf a -> wf b ->
  (dthen a b = Err AxiomError <-> dcod a <> ddom b).
Proof. exact dthen_err_iff. Qed.
Print Assumptions composition_refused_iff_types_differ.

(* an adjacent interchange either succeeds with a well-typed result of the same
   domain and codomain, or is refused with InterchangerError *)
Theorem interchange_result_well_typed : forall d i j left d', wf d ->
  interchange d i j left = Ok d' -> wf d' /\ ddom d' = ddom d /\ dcod d' = dcod d.
Proof. exact interchange_wf. Qed.
Print Assumptions interchange_result_well_typed.
