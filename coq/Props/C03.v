(* C03 -- equality is structural, hash-consistent and printable.
   Model: Repr/Repr.v (repr / hash / parse, classes monoidal and rigid) on top of
   Core/Diagram.v (ty_eqb, box_eqb, deqb = the __eq__ methods).  `wf` is C01's
   well-typedness (every value the API returns satisfies it: C01.api_program_wf);
   `ty_ok / box_ok / diagram_ok / sum_ok` are boolean descriptions of the values
   of a class (no winding numbers in the monoidal class; Swap / Cup / Cap objects
   as the library builds them). *)
From Coq Require Import List ZArith Bool.
Import ListNotations.
Require Import DV.Common.Base DV.Core.Diagram DV.Core.WF DV.Core.DiagramLemmas DV.Core.WFExt
  DV.Repr.Repr DV.Repr.ReprLemmas.
Open Scope Z_scope.

(* == on types, boxes, diagrams and sums is reflexive, symmetric, transitive *)
Theorem eq_reflexive :
  (forall t, ty_eqb t t = true) /\ (forall b, box_eqb b b = true) /\
  (forall d, deqb d d = true) /\ (forall s, sum_eqb s s = true).
Proof. repeat split; [exact ty_eqb_refl|exact box_eqb_refl|exact deq_refl|exact sum_eq_refl]. Qed.
Print Assumptions eq_reflexive.

Theorem eq_symmetric :
  (forall a b, ty_eqb a b = ty_eqb b a) /\ (forall a b, box_eqb a b = box_eqb b a) /\
  (forall a b, deqb a b = deqb b a) /\ (forall a b, sum_eqb a b = sum_eqb b a).
Proof. repeat split; [exact ty_eq_sym|exact box_eq_sym|exact deq_sym|exact sum_eq_sym]. Qed.
Print Assumptions eq_symmetric.

Theorem eq_transitive :
  (forall a b c, ty_eqb a b = true -> ty_eqb b c = true -> ty_eqb a c = true) /\
  (forall a b c, box_eqb a b = true -> box_eqb b c = true -> box_eqb a c = true) /\
  (forall a b c, deqb a b = true -> deqb b c = true -> deqb a c = true) /\
  (forall a b c, sum_eqb a b = true -> sum_eqb b c = true -> sum_eqb a c = true).
Proof. repeat split; [exact ty_eq_trans|exact box_eq_trans|exact deq_trans|exact sum_eq_trans]. Qed.
Print Assumptions eq_transitive.

(* two diagrams are equal exactly when domain, codomain, boxes and offsets are
   the same -- whatever layer view (i.e. construction route) they carry *)
Theorem deq_iff_same_fields : forall a b, deqb a b = true <->
  ddom a = ddom b /\ dcod a = dcod b /\ dboxes a = dboxes b /\ doffs a = doffs b.
Proof. exact deqb_eq. Qed.
Print Assumptions deq_iff_same_fields.

(* ... and on well-typed values (every value the API returns, C01) that is equality of
   the whole value: the layer view and the codomain are determined by domain, boxes
   and offsets, so == is Leibniz equality of diagram values *)
Theorem wf_diagram_determined_by_dom_boxes_offsets : forall a b, wf a -> wf b ->
  ddom a = ddom b -> dboxes a = dboxes b -> doffs a = doffs b -> a = b.
Proof. exact wf_determined_by_dom_boxes_offsets. Qed.
Print Assumptions wf_diagram_determined_by_dom_boxes_offsets.

Theorem deq_iff_identical_on_wf : forall a b, wf a -> wf b -> (deqb a b = true <-> a = b).
Proof. exact deqb_leibniz_on_wf. Qed.
Print Assumptions deq_iff_identical_on_wf.

Theorem box_eq_iff_same_fields : forall a b, box_eqb a b = true <-> a = b.
Proof. exact box_eqb_eq. Qed.
Print Assumptions box_eq_iff_same_fields.

Theorem ty_eq_iff_same_objects : forall a b, ty_eqb a b = true <-> a = b.
Proof. exact ty_eqb_eq. Qed.
Print Assumptions ty_eq_iff_same_objects.

Theorem sum_eq_iff_same_fields : forall a b, sum_eqb a b = true <->
  sdom a = sdom b /\ scod a = scod b /\
  Forall2 (fun x y => ddom x = ddom y /\ dcod x = dcod y /\ dboxes x = dboxes y /\ doffs x = doffs y)
          (sterms a) (sterms b).
Proof. exact sum_eqb_iff. Qed.
Print Assumptions sum_eq_iff_same_fields.

(* a box equals the one-box diagram that wraps it, through Box.__eq__ (which
   Python dispatches to in both directions) and through Diagram.__eq__; the two
   methods agree on every well-typed diagram, although Box.__eq__ never looks at
   the offsets *)
Theorem box_equals_wrapping_diagram :
  (forall b, box_eq_diagram b (dbox b) = true /\ diagram_eq_box (dbox b) b = true) /\
  (forall b d, wf d -> box_eq_diagram b d = diagram_eq_box d b) /\
  (forall b d, box_eq_diagram b d = true <-> dboxes d = [b] /\ ddom d = bdom b /\ dcod d = bcod b).
Proof.
  split; [exact box_eq_wrap|]. split; [intros b d W; now apply box_eq_diagram_wf|exact box_eq_diagram_iff].
Qed.
Print Assumptions box_equals_wrapping_diagram.

(* equal values print identically *)
Theorem deq_implies_repr_eq : forall c,
  (forall a b, ty_eqb a b = true -> repr_ty c a = repr_ty c b) /\
  (forall a b, box_eqb a b = true -> repr_box c a = repr_box c b) /\
  (forall a b, deqb a b = true -> repr_diagram c a = repr_diagram c b) /\
  (forall a b, sum_eqb a b = true -> repr_sum c a = repr_sum c b) /\
  (forall b d, box_eq_diagram b d = true -> repr_diagram c d = repr_box c b).
Proof.
  intros c. repeat split;
    [apply ty_eq_repr|apply box_eq_repr|apply deq_repr|apply sum_eq_repr|apply box_eq_diagram_repr].
Qed.
Print Assumptions deq_implies_repr_eq.

(* ... hence hash identically, for every hash function of strings H and of
   (string, int) tuples H2: either value can be used as the key of a mapping *)
Theorem hash_consistent : forall (H : str -> Z) (H2 : str -> Z -> Z) c,
  (forall a b, ob_eqb a b = true -> hash_ob H H2 a = hash_ob H H2 b) /\
  (forall a b, ty_eqb a b = true -> hash_ty H c a = hash_ty H c b) /\
  (forall a b, box_eqb a b = true -> hash_box H c a = hash_box H c b) /\
  (forall a b, deqb a b = true -> hash_diagram H c a = hash_diagram H c b) /\
  (forall a b, sum_eqb a b = true -> hash_sum H c a = hash_sum H c b) /\
  (forall b d, box_eq_diagram b d = true -> hash_diagram H c d = hash_box H c b).
Proof.
  intros H H2 c. repeat split;
    [apply hash_ob_consistent|apply hash_ty_consistent|apply hash_box_consistent
    |apply hash_diagram_consistent|apply hash_sum_consistent|apply hash_box_diagram_consistent].
Qed.
Print Assumptions hash_consistent.

(* the codec theorem: the printed constructor syntax reads back -- through the
   checking constructor -- to the same type / box, to an equal diagram / sum *)
Theorem repr_roundtrip_ty : forall c t, ty_ok c t = true -> whole (parse_ty (repr_ty c t)) = Some t.
Proof. exact ReprLemmas.repr_roundtrip_ty. Qed.
Print Assumptions repr_roundtrip_ty.

Theorem repr_roundtrip_ob : forall c x, ob_ok c x = true -> whole (parse_ob (repr_ob c x)) = Some x.
Proof. exact ReprLemmas.repr_roundtrip_ob. Qed.
Print Assumptions repr_roundtrip_ob.

Theorem repr_roundtrip_box : forall c b, box_ok c b = true -> whole (parse_box (repr_box c b)) = Some b.
Proof. exact ReprLemmas.repr_roundtrip_box. Qed.
Print Assumptions repr_roundtrip_box.

Theorem repr_roundtrip : forall c d, diagram_ok c d = true -> wf d ->
  exists d', whole (parse_diagram (repr_diagram c d)) = Some d' /\ deqb d' d = true.
Proof. exact repr_roundtrip_diagram. Qed.
Print Assumptions repr_roundtrip.

Theorem repr_roundtrip_sum : forall c s, sum_ok c s = true -> Forall wf (sterms s) ->
  exists s', whole (parse_sum (repr_sum c s)) = Some s' /\ sum_eqb s' s = true.
Proof. exact ReprLemmas.repr_roundtrip_sum. Qed.
Print Assumptions repr_roundtrip_sum.

(* so values that print alike are equal: the hash separates unequal values as
   far as H separates strings *)
Theorem repr_injective : forall c,
  (forall a b, ty_ok c a = true -> ty_ok c b = true -> repr_ty c a = repr_ty c b -> a = b) /\
  (forall a b, box_ok c a = true -> box_ok c b = true -> repr_box c a = repr_box c b -> a = b) /\
  (forall a b, diagram_ok c a = true -> diagram_ok c b = true -> wf a -> wf b ->
     repr_diagram c a = repr_diagram c b -> deqb a b = true) /\
  (forall a b, sum_ok c a = true -> sum_ok c b = true -> Forall wf (sterms a) -> Forall wf (sterms b) ->
     repr_sum c a = repr_sum c b -> sum_eqb a b = true).
Proof.
  intros c. repeat split;
    [apply repr_injective_ty|apply repr_injective_box|apply repr_injective_diagram|apply repr_injective_sum].
Qed.
Print Assumptions repr_injective.

Theorem deq_iff_repr_eq : forall c a b, diagram_ok c a = true -> diagram_ok c b = true ->
  wf a -> wf b -> (deqb a b = true <-> repr_diagram c a = repr_diagram c b).
Proof. exact ReprLemmas.deq_iff_repr_eq. Qed.
Print Assumptions deq_iff_repr_eq.
