(* C13 -- translation to and from tket preserves the meaning of circuits.
   Theorems about the model coq/Tk/Tk.v of discopy/quantum/tk.py; proofs in Tk/TkLemmas.v.
   Full statements that the (bug-compatible) model violates are kept as
   `Definition ..._stmt : Prop` in TkLemmas.v and refuted here by closed witnesses. *)
From Coq Require Import List ZArith Bool Lia Arith.
Import ListNotations.
Require Import DV.Common.Base DV.Tk.Tk DV.Tk.TkLemmas.

(* At every layer (every prefix ls1 of a run that succeeds), `qubits` is a strictly
   increasing list of live register indices below n_qubits, in wire order: wire k is
   carried by register rho(label of wire k) for an assignment rho that is injective on
   all labels allocated so far (renamings preserve the association of every wire). *)
Theorem to_tk_registers_inv : forall dom ls1 ls2 s',
  to_tk_layers dom st0 (ls1 ++ ls2) = Ok s' -> layers_allowed (ls1 ++ ls2) = true ->
  exists s1 q1 rho1,
    to_tk_layers dom st0 ls1 = Ok s1 /\
    qtrace_layers dom (QS [] 0 []) ls1 = Some q1 /\
    registers_ok s1 q1 rho1.
Proof. exact to_tk_registers_inv_lemma. Qed.
Print Assumptions to_tk_registers_inv.

(* The command list is the circuit's wire-labelled trace (its gates and measurements,
   in order, on the labels of the wires they act on) under an injective assignment of
   registers to labels; rotation parameters are 2 * phase modulo 4. *)
Theorem to_tk_refines_trace : forall c s,
  to_tk_state c = Ok s -> layers_allowed (c_layers c) = true ->
  exists q rho,
    qtrace (prep c) = Some q /\
    (forall a b, a < q_next q -> b < q_next q -> rho a = rho b -> a = b) /\
    map qpart (t_cmds (s_tk s)) = map (relabel rho) (q_events q).
Proof. exact to_tk_refines_trace_circuit. Qed.
Print Assumptions to_tk_refines_trace.

Theorem to_tk_refines_trace_layers : forall dom ls s',
  to_tk_layers dom st0 ls = Ok s' -> layers_allowed ls = true ->
  exists q rho,
    qtrace_layers dom (QS [] 0 []) ls = Some q /\
    (forall a b, a < q_next q -> b < q_next q -> rho a = rho b -> a = b) /\
    Forall (fun e => Forall (fun l => l < q_next q) (ev_labs e)) (q_events q) /\
    map qpart (t_cmds (s_tk s')) = map (relabel rho) (q_events q).
Proof. exact to_tk_refines_trace_lemma. Qed.
Print Assumptions to_tk_refines_trace_layers.

(* x2 on export, /2 on import, and pytket's reduction modulo 4 in between *)
Theorem to_tk_angles : forall d, dy_normal d = true ->
  dy_half (dy_double d) = d /\ dy_double (dy_half d) = d /\
  dy_half (dy_mod4 (dy_double d)) = dy_mod2 d.
Proof. intros d H. repeat split; [apply dy_half_double | apply dy_double_half | apply dy_roundtrip_mod]; exact H. Qed.
Print Assumptions to_tk_angles.

(* prepare_bits: post-selected bits are renamed together with the commands *)
Theorem post_selection_tracks_renaming : forall s n off s',
  prepare_bits s n off = Ok s' ->
  (forall k, has_key (t_psel (s_tk s)) k = true -> k < t_nb (s_tk s)) ->
  incr 0 (s_bits s) (t_nb (s_tk s)) ->
  exists start,
    t_cmds (s_tk s') = map (map_b (shift_from start n)) (t_cmds (s_tk s)) /\
    (forall k, k < t_nb (s_tk s) ->
       ps_lookup (t_psel (s_tk s')) (shift_from start n k) = ps_lookup (t_psel (s_tk s)) k) /\
    (forall k, start <= k < start + n -> ps_lookup (t_psel (s_tk s')) k = None).
Proof. exact prepare_bits_tracks. Qed.
Print Assumptions post_selection_tracks_renaming.

(* ... but not under the swap of two other bits through Bit('tmp', 0)  (F32) *)
Theorem post_selection_swap_refuted : ~ swap_keeps_post_selection_stmt.
Proof. exact swap_keeps_post_selection_refuted_F32. Qed.
Print Assumptions post_selection_swap_refuted.

(* the routing of output bits through post-selection and post-processing: refuted *)
Theorem to_tk_routing_refuted_F10 : ~ to_tk_routing_stmt.
Proof. exact TkLemmas.to_tk_routing_refuted_F10. Qed.
Print Assumptions to_tk_routing_refuted_F10.
Theorem to_tk_routing_refuted_F30 : ~ to_tk_routing_stmt.
Proof. exact TkLemmas.to_tk_routing_refuted_F30. Qed.
Print Assumptions to_tk_routing_refuted_F30.
Theorem to_tk_routing_refuted_F31 : ~ to_tk_routing_stmt.
Proof. exact TkLemmas.to_tk_routing_refuted_F31. Qed.
Print Assumptions to_tk_routing_refuted_F31.
Theorem to_tk_routing_refuted_F32 : ~ to_tk_routing_stmt.
Proof. exact TkLemmas.to_tk_routing_refuted_F32. Qed.
Print Assumptions to_tk_routing_refuted_F32.

(* trace refinement needs the restriction on destructive overriding measurements (F34) *)
Theorem to_tk_refines_trace_refuted_F34 : ~ to_tk_refines_trace_unrestricted_stmt.
Proof. exact TkLemmas.to_tk_refines_trace_refuted_F34. Qed.
Print Assumptions to_tk_refines_trace_refuted_F34.

(* importing what was exported (F18), and importing gates on distant qubits (F33) *)
Theorem from_to_roundtrip_refuted_F18 : ~ from_to_roundtrip_stmt.
Proof. exact TkLemmas.from_to_roundtrip_refuted_F18. Qed.
Print Assumptions from_to_roundtrip_refuted_F18.
Theorem from_tk_refines_trace_refuted_F33 : ~ from_tk_refines_trace_stmt.
Proof. exact TkLemmas.from_tk_refines_trace_refuted_F33. Qed.
Print Assumptions from_tk_refines_trace_refuted_F33.

(* from_tk: arity and well-typedness.  For every tket circuit whose commands address
   existing qubits and whose post-processing is well-typed, whatever from_tk returns is a
   well-typed circuit without inputs, with the outputs of the post-processing (bits only). *)
Theorem from_tk_well_typed : forall t sid c,
  cmds_in_range (t_nq t) (t_cmds t) = true -> pp_ok (t_pp t) = true ->
  from_tk t sid = Ok c ->
  circuit_ok c = true /\ c_dom c = [] /\
  cod_of [] (c_layers c) = cod_of (rep (pp_dom (t_pp t)) WBit) (pp_layers (t_pp t)).
Proof. exact from_tk_well_typed_lemma. Qed.
Print Assumptions from_tk_well_typed.

(* the command loop alone (swaps, gate, swaps undone), for EVERY command list it accepts *)
Theorem from_tk_loop_well_typed : forall nq nb psel cs f,
  from_tk_cmds nq nb psel (rep nq WQubit ++ rep nb WBit)
               (FTK (ket_layers nq 0 ++ bits_layers nb nq) []) cs = Ok f ->
  layers_ok [] (f_layers f) = true /\
  cod_of [] (f_layers f) = rep nq WQubit ++ rep nb WBit.
Proof. exact TkLemmas.from_tk_loop_well_typed. Qed.
Print Assumptions from_tk_loop_well_typed.

(* the `bits` register list, unlike `qubits`, is not kept in wire order (F10) *)
Theorem to_tk_bits_order_refuted_F10 :
  exists s, to_tk_state f10_witness = Ok s /\ s_bits s = [1; 0].
Proof. exact TkLemmas.to_tk_bits_order_refuted_F10. Qed.
Print Assumptions to_tk_bits_order_refuted_F10.
