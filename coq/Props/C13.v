(* C13 -- translation to and from tket preserves the meaning of circuits.
   Theorems about the model coq/Tk/Tk.v of discopy/quantum/tk.py; proofs in Tk/TkLemmas.v.
   The model carries one repair switch per defect with a small upstream fix (`fixes`:
   F10, F18, F31, F32, F33, F34); `pinned` = all off, `repaired` = all on.  Full statements
   that the pinned model violates are kept as `Definition ..._stmt (fx) : Prop` in
   TkLemmas.v and refuted here, for `pinned`, by closed witnesses; the positive statements
   hold for every setting of the switches (under the stated hypothesis on the switch). *)
From Coq Require Import List ZArith Bool Lia Arith.
Import ListNotations.
Require Import DV.Common.Base DV.Tk.Tk DV.Tk.TkLemmas.

(* At every layer (every prefix ls1 of a run that succeeds), `qubits` is a strictly
   increasing list of live register indices below n_qubits, in wire order: wire k is
   carried by register rho(label of wire k) for an assignment rho that is injective on
   all labels allocated so far (renamings preserve the association of every wire). *)
Theorem to_tk_registers_inv : forall fx dom ls1 ls2 s',
  to_tk_layers fx dom st0 (ls1 ++ ls2) = Ok s' -> layers_allowed fx (ls1 ++ ls2) = true ->
  exists s1 q1 rho1,
    to_tk_layers fx dom st0 ls1 = Ok s1 /\
    qtrace_layers dom (QS [] 0 []) ls1 = Some q1 /\
    registers_ok s1 q1 rho1.
Proof. exact to_tk_registers_inv_lemma. Qed.
Print Assumptions to_tk_registers_inv.

(* The command list is the circuit's wire-labelled trace (its gates and measurements,
   in order, on the labels of the wires they act on) under an injective assignment of
   registers to labels; rotation parameters are 2 * phase modulo 4. *)
Theorem to_tk_refines_trace : forall fx c s,
  to_tk_state fx c = Ok s -> layers_allowed fx (c_layers c) = true ->
  exists q rho,
    qtrace (prep c) = Some q /\
    (forall a b, a < q_next q -> b < q_next q -> rho a = rho b -> a = b) /\
    map qpart (t_cmds (s_tk s)) = map (relabel rho) (q_events q).
Proof. exact to_tk_refines_trace_circuit. Qed.
Print Assumptions to_tk_refines_trace.

Theorem to_tk_refines_trace_layers : forall fx dom ls s',
  to_tk_layers fx dom st0 ls = Ok s' -> layers_allowed fx ls = true ->
  exists q rho,
    qtrace_layers dom (QS [] 0 []) ls = Some q /\
    (forall a b, a < q_next q -> b < q_next q -> rho a = rho b -> a = b) /\
    Forall (fun e => Forall (fun l => l < q_next q) (ev_labs e)) (q_events q) /\
    map qpart (t_cmds (s_tk s')) = map (relabel rho) (q_events q).
Proof. exact to_tk_refines_trace_lemma. Qed.
Print Assumptions to_tk_refines_trace_layers.

(* x2 on export, /2 on import, and pytket's reduction modulo 4 in between *)
Theorem to_tk_angles : forall d, dy_normal d = true ->
  dy_half (dy_double d) = d /\ dy_double (dy_half d) = d /\
  dy_half (dy_mod4 (dy_double d)) = dy_mod2 d.
Proof. intros d H. repeat split; [apply dy_half_double | apply dy_double_half | apply dy_roundtrip_mod]; exact H. Qed.
Print Assumptions to_tk_angles.

(* prepare_bits: post-selected bits are renamed together with the commands *)
Theorem post_selection_tracks_renaming : forall s n off s',
  prepare_bits s n off = Ok s' ->
  (forall k, has_key (t_psel (s_tk s)) k = true -> k < t_nb (s_tk s)) ->
  incr 0 (s_bits s) (t_nb (s_tk s)) ->
  exists start,
    t_cmds (s_tk s') = map (map_b (shift_from start n)) (t_cmds (s_tk s)) /\
    (forall k, k < t_nb (s_tk s) ->
       ps_lookup (t_psel (s_tk s')) (shift_from start n k) = ps_lookup (t_psel (s_tk s)) k) /\
    (forall k, start <= k < start + n -> ps_lookup (t_psel (s_tk s')) k = None).
Proof. exact prepare_bits_tracks. Qed.
Print Assumptions post_selection_tracks_renaming.

(* ... but not under the swap of two other bits through Bit('tmp', 0)  (F32) *)
Theorem post_selection_swap_refuted : ~ swap_keeps_post_selection_stmt pinned.
Proof. exact swap_keeps_post_selection_refuted_F32. Qed.
Print Assumptions post_selection_swap_refuted.

(* the routing of output bits through post-selection and post-processing: refuted *)
Theorem to_tk_routing_refuted_F10 : ~ to_tk_routing_stmt pinned.
Proof. exact TkLemmas.to_tk_routing_refuted_F10. Qed.
Print Assumptions to_tk_routing_refuted_F10.
Theorem to_tk_routing_refuted_F30 : ~ to_tk_routing_stmt pinned.
Proof. exact TkLemmas.to_tk_routing_refuted_F30. Qed.
Print Assumptions to_tk_routing_refuted_F30.
Theorem to_tk_routing_refuted_F31 : ~ to_tk_routing_stmt pinned.
Proof. exact TkLemmas.to_tk_routing_refuted_F31. Qed.
Print Assumptions to_tk_routing_refuted_F31.
Theorem to_tk_routing_refuted_F32 : ~ to_tk_routing_stmt pinned.
Proof. exact TkLemmas.to_tk_routing_refuted_F32. Qed.
Print Assumptions to_tk_routing_refuted_F32.

(* trace refinement needs the restriction on destructive overriding measurements (F34) *)
Theorem to_tk_refines_trace_refuted_F34 : ~ to_tk_refines_trace_unrestricted_stmt pinned.
Proof. exact TkLemmas.to_tk_refines_trace_refuted_F34. Qed.
Print Assumptions to_tk_refines_trace_refuted_F34.

(* importing what was exported (F18), and importing gates on distant qubits (F33) *)
Theorem from_to_roundtrip_refuted_F18 : ~ from_to_roundtrip_stmt pinned.
Proof. exact TkLemmas.from_to_roundtrip_refuted_F18. Qed.
Print Assumptions from_to_roundtrip_refuted_F18.
Theorem from_tk_refines_trace_refuted_F33 : ~ from_tk_refines_trace_stmt pinned.
Proof. exact TkLemmas.from_tk_refines_trace_refuted_F33. Qed.
Print Assumptions from_tk_refines_trace_refuted_F33.

(* from_tk: arity and well-typedness.  For every tket circuit whose commands address
   existing qubits and whose post-processing is well-typed, whatever from_tk returns is a
   well-typed circuit without inputs, with the outputs of the post-processing (bits only). *)
Theorem from_tk_well_typed : forall fx t sid c,
  cmds_in_range (t_nq t) (t_cmds t) = true -> pp_ok (t_pp t) = true ->
  from_tk fx t sid = Ok c ->
  circuit_ok c = true /\ c_dom c = [] /\
  cod_of [] (c_layers c) = cod_of (rep (pp_dom (t_pp t)) WBit) (pp_layers (t_pp t)).
Proof. exact from_tk_well_typed_lemma. Qed.
Print Assumptions from_tk_well_typed.

(* the command loop alone (swaps, gate, swaps undone), for EVERY command list it accepts *)
Theorem from_tk_loop_well_typed : forall fx nq nb psel cs f,
  from_tk_cmds fx nq nb psel (rep nq WQubit ++ rep nb WBit)
               (FTK (ket_layers nq 0 ++ bits_layers nb nq) []) cs = Ok f ->
  layers_ok [] (f_layers f) = true /\
  cod_of [] (f_layers f) = rep nq WQubit ++ rep nb WBit.
Proof. exact TkLemmas.from_tk_loop_well_typed. Qed.
Print Assumptions from_tk_loop_well_typed.

(* the `bits` register list, unlike `qubits`, is not kept in wire order (F10) *)
Theorem to_tk_bits_order_refuted_F10 :
  exists s, to_tk_state pinned f10_witness = Ok s /\ s_bits s = [1; 0].
Proof. exact TkLemmas.to_tk_bits_order_refuted_F10. Qed.
Print Assumptions to_tk_bits_order_refuted_F10.

(* ---- the repaired behaviour (switches on) ---- *)

(* with the F34 repair: no exclusion of destructive overriding measurements *)
Theorem to_tk_registers_inv_repaired : forall fx dom ls1 ls2 s',
  fx34 fx = true -> to_tk_layers fx dom st0 (ls1 ++ ls2) = Ok s' ->
  exists s1 q1 rho1,
    to_tk_layers fx dom st0 ls1 = Ok s1 /\
    qtrace_layers dom (QS [] 0 []) ls1 = Some q1 /\
    registers_ok s1 q1 rho1.
Proof. exact to_tk_registers_inv_repaired_lemma. Qed.
Print Assumptions to_tk_registers_inv_repaired.

Theorem to_tk_refines_trace_repaired : forall fx c s,
  fx34 fx = true -> to_tk_state fx c = Ok s ->
  exists q rho,
    qtrace (prep c) = Some q /\
    (forall a b, a < q_next q -> b < q_next q -> rho a = rho b -> a = b) /\
    map qpart (t_cmds (s_tk s)) = map (relabel rho) (q_events q).
Proof. exact to_tk_refines_trace_repaired_lemma. Qed.
Print Assumptions to_tk_refines_trace_repaired.

(* with the F32 repair: swapping two bits leaves the post-selection of the others alone *)
Theorem post_selection_swap_repaired : forall fx, fx32 fx = true -> swap_keeps_post_selection_stmt fx.
Proof. exact swap_keeps_post_selection_repaired. Qed.
Print Assumptions post_selection_swap_repaired.

(* the former counter-examples F10, F31, F32, F34, F18, F33 satisfy the statements they
   refuted once the switches are on; the F30 witness (no repair) still fails *)
Theorem repaired_witnesses_ok :
  (exists t, to_tk repaired f10_witness = Ok t /\ routing_ok f10_witness t = true) /\
  (exists t, to_tk repaired f31_witness = Ok t /\ routing_ok f31_witness t = true) /\
  (exists t, to_tk repaired f32_witness = Ok t /\ routing_ok f32_witness t = true /\
             t_psel t = [(0, false)]) /\
  (exists s, to_tk_state repaired f34_witness = Ok s /\ s_qubits s = [] /\
             map qpart (t_cmds (s_tk s)) = [(4%Z, None, [2]); (0%Z, None, [1]); (0%Z, None, [2])] /\
             routing_ok f34_witness (s_tk s) = true) /\
  (exists t c2, to_tk repaired f18_witness = Ok t /\ from_tk repaired t (scalar_flag t) = Ok c2 /\
                circuit_ok c2 = true) /\
  (exists c, from_tk repaired f33_witness None = Ok c /\ from_tk_trace_ok f33_witness c = true) /\
  (exists t, to_tk repaired f30_witness = Ok t /\ routing_ok f30_witness t = false).
Proof. exact repaired_witnesses. Qed.
Print Assumptions repaired_witnesses_ok.

(* ---- routing theorems (proofs in Tk/TkRouting.v) ---- *)
Require Import DV.Tk.TkRouting.

(* (1) to_tk: outside the trigger predicates computed by the model (F30; F36 = arity change;
   F37 = override after post-processing; F10, F31, F32, F34 when their switch is off) every
   output bit and every post-selection constraint of the exported circuit has the provenance
   the circuit gives it.  For EVERY setting of the switches. *)
Theorem to_tk_routing_trigger_free : forall fx, to_tk_routing_trigger_free_stmt fx.
Proof. exact TkRouting.to_tk_routing_trigger_free. Qed.
Print Assumptions to_tk_routing_trigger_free.

(* the same without the typing hypothesis, and for arbitrary layer lists without Ket(1) *)
Theorem to_tk_routing_trigger_free_any : forall fx c t,
  to_tk fx c = Ok t -> no_trigger (to_tk_flags fx c) = true -> routing_ok c t = true.
Proof. exact TkRouting.to_tk_routing_trigger_free_any. Qed.
Print Assumptions to_tk_routing_trigger_free_any.

Theorem to_tk_routing_layers : forall fx dom ls s',
  ket_free ls = true -> to_tk_layers fx dom st0 ls = Ok s' ->
  no_trigger (flags_layers fx dom st0 fl0 ls) = true ->
  tsem (s_tk s') = (d_bits (dsem_layers dom (DS [] 0 []) ls), d_constr (dsem_layers dom (DS [] 0 []) ls)).
Proof. exact TkRouting.to_tk_routing_layers. Qed.
Print Assumptions to_tk_routing_layers.

(* (2) from_tk with the repaired make_units_adjacent, well-formed commands (existing, pairwise
   distinct qubits; a Measure names one qubit, a gate as many as its arity), ANY post-selection:
   the trace of the imported circuit is, in command order, every gate on the wires carrying the
   qubits the command names and every measurement that is not post-selected on its qubit,
   followed by the post-selected measurements in qubit order ("post selection happens at the end"). *)
Theorem from_tk_refines_trace_general : forall fx t sid c,
  fx33 fx = true -> cmds_wf (t_nq t) (t_cmds t) = true ->
  from_tk fx t sid = Ok c ->
  qtrace c = Some (QS [] (t_nq t)
                      (flat_map (cmd_events (t_psel t)) (t_cmds t) ++
                       map EMeas (filter (has_key (bras_of (t_psel t) (t_cmds t) [])) (seq 0 (t_nq t))))).
Proof. exact from_tk_trace_general. Qed.
Print Assumptions from_tk_refines_trace_general.

(* without post-selection: the statement of TkLemmas (from_tk_trace_ok), import counterpart of
   to_tk_refines_trace *)
Theorem from_tk_refines_trace : forall fx, fx33 fx = true -> from_tk_refines_trace_wf_stmt fx.
Proof. exact from_tk_refines_trace_wf. Qed.
Print Assumptions from_tk_refines_trace.

(* from_tk_refines_trace_stmt as stated in TkLemmas (hypothesis cmds_in_range only) is false for
   every setting of the switches: (i) a well-formed circuit with a post-selected mid-circuit
   measurement followed by a gate on the same qubit -- the Bra is placed after the gate (finding);
   (ii) a malformed command CX(0, 0) *)
Theorem from_tk_refines_trace_refuted_postselection : forall fx, ~ from_tk_refines_trace_stmt fx.
Proof. exact TkRouting.from_tk_refines_trace_refuted_postselection. Qed.
Print Assumptions from_tk_refines_trace_refuted_postselection.
Theorem from_tk_postselection_order_witness :
  cmds_wf 1 (t_cmds psel_midcircuit_witness) = true /\
  exists c, from_tk repaired psel_midcircuit_witness None = Ok c /\
            option_map q_events (qtrace c) = Some [EGate g_X (Dy 0 0) [0]; EMeas 0] /\
            flat_map want_events (t_cmds psel_midcircuit_witness) = [EMeas 0; EGate g_X (Dy 0 0) [0]].
Proof. exact TkRouting.from_tk_postselection_order_witness. Qed.
Print Assumptions from_tk_postselection_order_witness.
Theorem from_tk_refines_trace_refuted_malformed : forall fx, ~ from_tk_refines_trace_stmt fx.
Proof. exact TkRouting.from_tk_refines_trace_refuted_malformed. Qed.
Print Assumptions from_tk_refines_trace_refuted_malformed.

(* ---- bit routing of the import (proofs in Tk/TkImport.v) ---- *)
Require Import DV.Tk.TkImport.

(* from_tk with the F18 and F33 repairs: every bit wire of the imported circuit and every Bra
   carries the outcome of the tket Measure that writes that bit.  Hypotheses (booleans):
   tk_import_ok (well-formed commands, each Measure writes one existing bit, post_selection
   has distinct existing keys, well-typed post-processing), no F41 trigger (no command after a
   post-selected Measure on its qubit), no F42 trigger (no post-selected bit written twice),
   every post-selected bit is written.  tsem_ev is tsem with the commands numbered as the
   events of the imported circuit (the commands that are not post-selected measurements in
   order, then the post-selected measurements by increasing qubit): with a post-selection the
   Definition from_tk_routing_ok of Tk.v (event k = command k) is not the right statement. *)
Theorem from_tk_routing : forall fx t sid c,
  fx18 fx = true -> fx33 fx = true -> tk_import_ok t = true ->
  f41_trig (t_psel t) (t_cmds t) = false -> f42_trig (t_psel t) (t_cmds t) = false ->
  no_dangling (t_psel t) (t_cmds t) = true ->
  from_tk fx t sid = Ok c -> sem_eqb (dsem c) (tsem_ev t) = true.
Proof. exact from_tk_routing_lemma. Qed.
Print Assumptions from_tk_routing.

(* the exact lists (no trigger hypothesis needed): the kept registers through the
   post-processing, and one constraint per Bra in qubit order *)
Theorem from_tk_bits_exact : forall fx t sid c,
  fx18 fx = true -> fx33 fx = true -> tk_import_ok t = true ->
  from_tk fx t sid = Ok c ->
  let r := fold_left pp_step (pp_boxes (t_pp t))
             (map (snd (ev_run t)) (idxF (t_nb t) (ps_lookup (t_psel t))),
              flat_map (bra_constr (bras_of (t_psel t) (t_cmds t) []) (n_live (t_psel t) (t_cmds t)))
                       (seq 0 (t_nq t))) in
  dsem c = (fst r, snd r) /\ t_nb t - length (t_psel t) = pp_dom (t_pp t).
Proof. exact from_tk_dsem. Qed.
Print Assumptions from_tk_bits_exact.

(* without post-selection: the Definition from_tk_routing_ok of Tk.v *)
Theorem from_tk_routing_no_postselection : forall fx,
  fx18 fx = true -> fx33 fx = true -> from_tk_routing_nopsel_stmt fx.
Proof. exact from_tk_routing_nopsel_lemma. Qed.
Print Assumptions from_tk_routing_no_postselection.

(* ... which is false on a correct post-selected import (witness import_example) *)
Theorem from_tk_routing_ok_refuted_postselection : ~ from_tk_routing_ok_stmt repaired.
Proof. exact from_tk_routing_ok_stmt_refuted. Qed.
Print Assumptions from_tk_routing_ok_refuted_postselection.

(* tsem_ev is tsem with every command k renumbered to sigma t k, its event in the imported circuit *)
Theorem tsem_ev_renumbers : forall t, cmds_bits_ok (t_nb t) (t_cmds t) = true ->
  tsem_ev t = sem_map (sigma t) (tsem t).
Proof. exact TkImport.tsem_ev_renumbers. Qed.
Print Assumptions tsem_ev_renumbers.

Theorem from_tk_routing_renumbered : forall fx t sid c,
  fx18 fx = true -> fx33 fx = true -> tk_import_ok t = true ->
  f41_trig (t_psel t) (t_cmds t) = false -> f42_trig (t_psel t) (t_cmds t) = false ->
  no_dangling (t_psel t) (t_cmds t) = true ->
  from_tk fx t sid = Ok c -> sem_eqb (dsem c) (sem_map (sigma t) (tsem t)) = true.
Proof. exact TkImport.from_tk_routing_renumbered. Qed.
Print Assumptions from_tk_routing_renumbered.

(* round trip, conditional on the exported circuit meeting the hypotheses of the import theorem
   and on from_tk succeeding (both hold on every generated case of the check, neither is
   derived from to_tk here); from_tk is fed to_tk's insertion-order command list *)
Theorem roundtrip_routing_conditional : forall fx c t sid c2,
  fx18 fx = true -> fx33 fx = true ->
  to_tk fx c = Ok t -> no_trigger (to_tk_flags fx c) = true ->
  tk_import_ok t = true ->
  f41_trig (t_psel t) (t_cmds t) = false -> f42_trig (t_psel t) (t_cmds t) = false ->
  no_dangling (t_psel t) (t_cmds t) = true ->
  from_tk fx t sid = Ok c2 ->
  sem_eqb (dsem c2) (sem_map (sigma t) (dsem (prep c))) = true.
Proof. exact TkImport.roundtrip_routing_conditional. Qed.
Print Assumptions roundtrip_routing_conditional.
