(* C14 -- substituting parameters commutes with evaluation.
   Property theorems only; proofs are in Param/ParamLemmas.v, the model of
   DisCoPy's subs / lambdify / free_symbols on parametrised boxes, diagrams,
   sums and tensors is Param/Param.v, expressions are the canonical
   polynomials over Q of Param/Expr.v.  The model takes a record of repair
   switches `fx : fixes`: `pinned` (all off) is the pinned code, bug for bug;
   `repaired` (all on) is the code with the proposed patches for F11b, c, d,
   h, i, j.  Positive theorems hold for every fx; `_refuted` theorems are the
   finding witnesses on `pinned` (or for every fx when no switch repairs the
   finding: F11a, e, f, g, k); `_repaired` theorems are what the switches buy,
   `_fixed` theorems replay the witnesses with the switches on.

   "Evaluation" is abstracted by grounding: `ground rho d` is the diagram with
   every parameter replaced by its value under the environment rho, which is
   all an evaluation (tensor contraction, circuit simulation) can see of the
   parameters; `ground_nf` also forgets is_dagger / is_mixed.  The main
   statement: for every well-formed diagram, d.subs(args) grounded under rho
   is d grounded under rho updated sequentially by args (sympy's semantics of
   subs with a list), provided no box triggers the flag findings F11b / F11c
   (never, once repaired); without that proviso it holds up to the flags, and
   is refuted with them on the pinned code.  Around it: subs and lambdify
   preserve dom / cod / offsets / box shapes, free_symbols is exact and sound,
   substituting closed values removes the symbols, lambdify agrees with subs
   when both succeed. *)
From Coq Require Import List ZArith Bool Lia QArith Qcanon.
Import ListNotations.
Require Import DV.Common.Base DV.Param.Expr DV.Param.ExprLemmas DV.Param.Param DV.Param.ParamLemmas.
Open Scope Z_scope.

(* 1. box.subs / box.lambdify keep kind, name, dom, cod of the box (every repair switch setting fx) *)
Theorem box_subs_shape : forall fx cls f b b', box_subs fx cls f b = XOk b' -> same_shape b b'.
Proof. exact box_subs_shape_l. Qed.
Print Assumptions box_subs_shape.

Theorem box_lambdify_shape : forall fx cls syms vals b b',
  box_lambdify fx cls syms vals b = XOk b' -> same_shape b b'.
Proof. exact box_lambdify_shape_l. Qed.
Print Assumptions box_lambdify_shape.

(* 2. outside the F11b / F11c triggers box.subs keeps is_dagger and is_mixed *)
Theorem box_subs_flags : forall fx cls f b b',
  box_wf b = true -> f11b_box fx cls (form_vars f) b = false -> f11c_box fx b = false ->
  box_subs fx cls f b = XOk b' -> same_flags b b'.
Proof. exact box_subs_flags_l. Qed.
Print Assumptions box_subs_flags.

(* 3. rebuilding a diagram box by box (any shape-preserving step): same dom, cod, offsets, well-typed *)
Theorem dmap_spec : forall step d d',
  wf d = true ->
  (forall b b', step b = XOk b' -> same_shape b b') ->
  dmap step d = XOk d' ->
  ddom d' = ddom d /\ dcod d' = dcod d /\ doffs d' = doffs d /\
  Forall2 (fun b b' => step b = XOk b') (dboxes d) (dboxes d') /\ wf d' = true.
Proof. exact dmap_spec_l. Qed.
Print Assumptions dmap_spec.

(*    ... and it is never refused when every box step succeeds *)
Theorem dmap_total : forall step d,
  wf d = true ->
  (forall b b', step b = XOk b' -> same_shape b b') ->
  (forall b, In b (dboxes d) -> exists b', step b = XOk b') ->
  exists d', dmap step d = XOk d'.
Proof. exact dmap_total_l. Qed.
Print Assumptions dmap_total.

(* 4. Diagram.subs / lambdify keep dom, cod, offsets and the shape of every box *)
Theorem subs_preserves_dom_cod_kinds : forall fx cls f d d',
  wf d = true -> dsubs fx cls f d = XOk d' ->
  ddom d' = ddom d /\ dcod d' = dcod d /\ doffs d' = doffs d /\
  Forall2 same_shape (dboxes d) (dboxes d') /\ wf d' = true.
Proof. exact subs_preserves_dom_cod_kinds_l. Qed.
Print Assumptions subs_preserves_dom_cod_kinds.

Theorem lambdify_preserves_dom_cod_kinds : forall fx cls syms vals d d',
  wf d = true -> dlambdify fx cls syms vals d = XOk d' ->
  ddom d' = ddom d /\ dcod d' = dcod d /\ doffs d' = doffs d /\
  Forall2 same_shape (dboxes d) (dboxes d') /\ wf d' = true.
Proof. exact lambdify_preserves_dom_cod_kinds_l. Qed.
Print Assumptions lambdify_preserves_dom_cod_kinds.

(*    flags are kept when no box triggers F11b / F11c *)
Theorem subs_preserves_flags : forall fx cls f d d',
  dwf d = true -> no_flag_trigger fx cls (form_vars f) d = true ->
  dsubs fx cls f d = XOk d' -> Forall2 same_flags (dboxes d) (dboxes d').
Proof. exact subs_preserves_flags_l. Qed.
Print Assumptions subs_preserves_flags.

(*    F11b (pinned): Scalar(expr, is_mixed=True).subs is pure *)
Theorem subs_flags_refuted_mixed : exists f b b',
  box_wf b = true /\ box_subs pinned CCircuit f b = XOk b' /\ pmixed b = true /\ pmixed b' = false.
Proof. exact subs_flags_refuted_mixed_l. Qed.
Print Assumptions subs_flags_refuted_mixed.

(*    F11b (pinned): a pure circuit.Box with data becomes mixed *)
Theorem subs_flags_refuted_pure : exists f b b',
  box_wf b = true /\ box_subs pinned CCircuit f b = XOk b' /\ pmixed b = false /\ pmixed b' = true.
Proof. exact subs_flags_refuted_pure_l. Qed.
Print Assumptions subs_flags_refuted_pure.

(*    F11c (pinned): ClassicalGate.subs drops the dagger flag *)
Theorem subs_flags_refuted_dagger : exists f b b',
  box_wf b = true /\ box_subs pinned CCircuit f b = XOk b' /\ pdag b = true /\ pdag b' = false.
Proof. exact subs_flags_refuted_dagger_l. Qed.
Print Assumptions subs_flags_refuted_dagger.

(* 5. subs is total except on classical gates without data (F11h) *)
Theorem subs_total : forall fx cls f d,
  wf d = true -> forallb (fun b => negb (f11h_box fx b)) (dboxes d) = true ->
  exists d', dsubs fx cls f d = XOk d'.
Proof. exact subs_total_l. Qed.
Print Assumptions subs_total.

(*    F11h (pinned): Bits(0).subs raises AttributeError whatever the arguments *)
Theorem subs_refuted_none_data : exists d,
  dwf d = true /\ forall f, dsubs pinned CCircuit f d = XErr XAttribute.
Proof. exact subs_refuted_none_data_l. Qed.
Print Assumptions subs_refuted_none_data.

(* 6. free_symbols of a diagram = the symbols of its boxes; the grounding depends on nothing else *)
Theorem free_symbols_exact : forall d x,
  In x (dfree d) <-> exists b, In b (dboxes d) /\ In x (data_vars (pdat b)).
Proof. exact free_symbols_exact_l. Qed.
Print Assumptions free_symbols_exact.

Theorem free_symbols_sound : forall d rho rho',
  dwf d = true -> (forall x, In x (dfree d) -> rho x = rho' x) -> ground rho d = ground rho' d.
Proof. exact free_symbols_sound_l. Qed.
Print Assumptions free_symbols_sound.

(*    F11i (pinned): a Sum has no free symbols whatever its terms *)
Theorem sum_free_refuted : exists s,
  sum_ok s = true /\ sum_free_expected s <> [] /\ sum_free pinned s = [].
Proof. exact sum_free_refuted_l. Qed.
Print Assumptions sum_free_refuted.

(* 7. substituting closed values removes the substituted symbols and adds none *)
Theorem subs_removes_symbols : forall fx cls f d d',
  wf d = true -> closing (form_sigma f) -> dsubs fx cls f d = XOk d' ->
  forall y, In y (dfree d') -> In y (dfree d) /\ ~ In y (form_vars f).
Proof. exact subs_removes_symbols_l. Qed.
Print Assumptions subs_removes_symbols.

Theorem subs_all_closed : forall fx cls f d d',
  wf d = true -> closing (form_sigma f) ->
  (forall y, In y (dfree d) -> In y (form_vars f)) ->
  dsubs fx cls f d = XOk d' -> dfree d' = [].
Proof. exact subs_all_closed_l. Qed.
Print Assumptions subs_all_closed.

(* 8. C14 proper: evaluating after subs = evaluating under the updated environment
   (sequential semantics of sympy subs: env_seq), up to the two flags ... *)
Theorem subs_eval_commute : forall fx cls f d d' rho,
  dwf d = true -> dsubs fx cls f d = XOk d' ->
  ground_nf rho d' = ground_nf (env_seq rho (polys_of (form_sigma f))) d.
Proof. exact subs_eval_commute_l. Qed.
Print Assumptions subs_eval_commute.

(*    ... flags included when no box triggers F11b / F11c ... *)
Theorem subs_eval_commute_flags : forall fx cls f d d' rho,
  dwf d = true -> no_flag_trigger fx cls (form_vars f) d = true -> dsubs fx cls f d = XOk d' ->
  ground rho d' = ground (env_seq rho (polys_of (form_sigma f))) d.
Proof. exact subs_eval_commute_flags_l. Qed.
Print Assumptions subs_eval_commute_flags.

(*    ... hence for ANY evaluation that sees parameters only through their values *)
Theorem subs_eval_commute_abstract : forall fx (M : Type) (ev : gdiagram -> M) cls f d d' rho,
  dwf d = true -> no_flag_trigger fx cls (form_vars f) d = true -> dsubs fx cls f d = XOk d' ->
  ev (ground rho d') = ev (ground (env_seq rho (polys_of (form_sigma f))) d).
Proof. exact subs_eval_commute_abstract_l. Qed.
Print Assumptions subs_eval_commute_abstract.

(*    F11b (pinned): an evaluation that looks at is_mixed tells subs-then-eval from eval *)
Theorem subs_eval_commute_refuted : exists (ev : gdiagram -> bool) f d d' rho,
  dwf d = true /\ dsubs pinned CCircuit f d = XOk d' /\
  ev (ground rho d') <> ev (ground (env_seq rho (polys_of (form_sigma f))) d).
Proof. exact subs_eval_commute_refuted_l. Qed.
Print Assumptions subs_eval_commute_refuted.

(* 9. lambdify of syms applied to vals, and subs of zip(syms, vals), ground to the same diagram when both succeed (closed values) *)
Theorem lambdify_eq_subs : forall fx cls syms vals d d1 d2 rho,
  dwf d = true -> length syms = length vals ->
  Forall (fun v => poly_vars (epoly v) = []) vals ->
  dlambdify fx cls syms vals d = XOk d1 ->
  dsubs fx cls (SList (combine syms vals)) d = XOk d2 ->
  ground rho d1 = ground rho d2.
Proof. exact lambdify_eq_subs_l. Qed.
Print Assumptions lambdify_eq_subs.

(*    F11f / F11g / F11k (no repair switch: for every fx): lambdify refused where subs succeeds *)
Theorem lambdify_refuted_zx : forall fx, exists d syms vals d2,
  dwf d = true /\ dlambdify fx CZX syms vals d = XErr XType /\
  dsubs fx CZX (SList (combine syms vals)) d = XOk d2.
Proof. exact lambdify_refuted_zx_l. Qed.
Print Assumptions lambdify_refuted_zx.

Theorem lambdify_refuted_classical : forall fx, exists d syms vals d2,
  dwf d = true /\ dlambdify fx CCircuit syms vals d = XErr XType /\
  dsubs fx CCircuit (SList (combine syms vals)) d = XOk d2.
Proof. exact lambdify_refuted_classical_l. Qed.
Print Assumptions lambdify_refuted_classical.

Theorem lambdify_refuted_partial_list : forall fx, exists d syms vals d2,
  dwf d = true /\ dlambdify fx CTensor syms vals d = XErr XName /\
  dsubs fx CTensor (SList (combine syms vals)) d = XOk d2.
Proof. exact lambdify_refuted_partial_list_l. Qed.
Print Assumptions lambdify_refuted_partial_list.

(*    F11j (pinned): Sum.lambdify returns self *)
Theorem sum_lambdify_refuted : exists s syms vals s',
  sum_ok s = true /\ sum_lambdify pinned CCircuit syms vals s = XOk s /\
  sum_subs pinned CCircuit (SList (combine syms vals)) s = XOk s' /\ s' <> s.
Proof. exact sum_lambdify_refuted_l. Qed.
Print Assumptions sum_lambdify_refuted.

(* 10. lambdify with Python numbers for all free symbols yields an evaluable closed diagram *)
Theorem lambdify_all_evaluable : forall fx cls syms vals d d',
  dwf d = true -> length syms = length vals ->
  Forall (fun v => esym v = false /\ poly_vars (epoly v) = []) vals ->
  (forall y, In y (dfree d) -> In y syms) ->
  dlambdify fx cls syms vals d = XOk d' ->
  dfree d' = [] /\ deval_status d' = XOk tt.
Proof. exact lambdify_all_evaluable_l. Qed.
Print Assumptions lambdify_all_evaluable.

(*    F11a (no repair switch: for every fx): subs with a sympy number closes Rx but numpy cannot evaluate it *)
Theorem subs_closed_not_evaluable_refuted : forall fx, exists f d d',
  dwf d = true /\ closing (form_sigma f) /\ dsubs fx CCircuit f d = XOk d' /\
  dfree d' = [] /\ deval_status d' = XErr XType.
Proof. exact subs_closed_not_evaluable_refuted_l. Qed.
Print Assumptions subs_closed_not_evaluable_refuted.

(* 11. Tensor.subs is entrywise substitution when every entry is a sympy object *)
Theorem tensor_subs_correct : forall fx f t,
  forallb esym (tents t) = true -> tensor_subs fx f t = XOk (tensor_subs_expected f t).
Proof. exact tensor_subs_correct_l. Qed.
Print Assumptions tensor_subs_correct.

(*    F11d (pinned): a numeric entry is replaced by the variable / numpy refuses the list form *)
Theorem tensor_subs_refuted_single : exists x v t t',
  tensor_subs pinned (SSingle x v) t = XOk t' /\ t' <> tensor_subs_expected (SSingle x v) t.
Proof. exact tensor_subs_refuted_single_l. Qed.
Print Assumptions tensor_subs_refuted_single.

Theorem tensor_subs_refuted_list : exists s t, tensor_subs pinned (SList s) t = XErr XValue.
Proof. exact tensor_subs_refuted_list_l. Qed.
Print Assumptions tensor_subs_refuted_list.

(*    F11e (not repaired, every fx): CQMap.subs raises on non-empty CQ types; F11g: Tensor.lambdify raises TypeError *)
Theorem cqmap_subs_refuted : forall fx f t, cq_nonempty t = true ->
  exists e, cqmap_subs fx f t = XErr e.
Proof. exact cqmap_subs_refuted_l. Qed.
Print Assumptions cqmap_subs_refuted.

Theorem tensor_lambdify_refuted : forall syms vals t, tensor_lambdify syms vals t = XErr XType.
Proof. exact tensor_lambdify_refuted_l. Qed.
Print Assumptions tensor_lambdify_refuted.

(* 13. the repaired code (switches on): flags kept, C14 with flags and without proviso,
   subs total, Sum.free_symbols exact, Sum.lambdify agrees with Sum.subs termwise, Tensor.subs entrywise *)
Theorem subs_preserves_flags_repaired : forall fx cls f d d',
  fx_b fx = true -> fx_c fx = true -> dwf d = true -> dsubs fx cls f d = XOk d' ->
  Forall2 same_flags (dboxes d) (dboxes d').
Proof. exact subs_preserves_flags_repaired_l. Qed.
Print Assumptions subs_preserves_flags_repaired.

Theorem subs_eval_commute_repaired : forall fx cls f d d' rho,
  fx_b fx = true -> fx_c fx = true -> dwf d = true -> dsubs fx cls f d = XOk d' ->
  ground rho d' = ground (env_seq rho (polys_of (form_sigma f))) d.
Proof. exact subs_eval_commute_repaired_l. Qed.
Print Assumptions subs_eval_commute_repaired.

Theorem subs_total_repaired : forall fx cls f d,
  fx_h fx = true -> wf d = true -> exists d', dsubs fx cls f d = XOk d'.
Proof. exact subs_total_repaired_l. Qed.
Print Assumptions subs_total_repaired.

Theorem sum_free_repaired : forall fx s, fx_i fx = true ->
  forall x, In x (sum_free fx s) <-> exists t, In t (sterms s) /\ In x (dfree t).
Proof. exact sum_free_repaired_l. Qed.
Print Assumptions sum_free_repaired.

Theorem sum_lambdify_repaired : forall fx cls syms vals s s1 s2 rho,
  fx_j fx = true -> forallb dwf (sterms s) = true -> length syms = length vals ->
  Forall (fun v => poly_vars (epoly v) = []) vals ->
  sum_lambdify fx cls syms vals s = XOk s1 ->
  sum_subs fx cls (SList (combine syms vals)) s = XOk s2 ->
  map (ground rho) (sterms s1) = map (ground rho) (sterms s2) /\ sdom s1 = sdom s2 /\ scod s1 = scod s2.
Proof. exact sum_lambdify_repaired_l. Qed.
Print Assumptions sum_lambdify_repaired.

Theorem tensor_subs_repaired : forall fx f t,
  fx_d fx = true -> tensor_subs fx f t = XOk (tensor_subs_expected f t).
Proof. exact tensor_subs_repaired_l. Qed.
Print Assumptions tensor_subs_repaired.

(*    the witnesses of F11b, F11c, F11h, F11i replayed with every switch on *)
Theorem subs_flags_fixed_mixed : exists f b b',
  box_wf b = true /\ box_subs repaired CCircuit f b = XOk b' /\ pmixed b = true /\ pmixed b' = true.
Proof. exact subs_flags_fixed_mixed_l. Qed.
Print Assumptions subs_flags_fixed_mixed.

Theorem subs_flags_fixed_pure : exists f b b',
  box_wf b = true /\ box_subs repaired CCircuit f b = XOk b' /\ pmixed b = false /\ pmixed b' = false.
Proof. exact subs_flags_fixed_pure_l. Qed.
Print Assumptions subs_flags_fixed_pure.

Theorem subs_flags_fixed_dagger : exists f b b',
  box_wf b = true /\ box_subs repaired CCircuit f b = XOk b' /\ pdag b = true /\ pdag b' = true.
Proof. exact subs_flags_fixed_dagger_l. Qed.
Print Assumptions subs_flags_fixed_dagger.

Theorem subs_fixed_none_data :
  dwf wit_f11h_bits = true /\ forall f, dsubs repaired CCircuit f wit_f11h_bits = XOk wit_f11h_bits.
Proof. exact subs_fixed_none_data_l. Qed.
Print Assumptions subs_fixed_none_data.

Theorem sum_free_fixed :
  sum_free repaired wit_f11i_sum = sum_free_expected wit_f11i_sum /\
  sum_free repaired wit_f11i_sum <> [].
Proof. exact sum_free_fixed_l. Qed.
Print Assumptions sum_free_fixed.

(* 16. canonical forms of the parameters (Param/ExprCanon.v, Param/ParamCanon.v).
   poly_canon: monomials with strictly increasing symbols and exponents >= 1, non-zero
   coefficients, terms strictly sorted -- the form sympy.Poly(...).terms() is compared with *)
Require Import DV.Param.ExprCanon DV.Param.ParamCanon DV.Param.ParamProg.

(*     every operation of the expression model returns a canonical polynomial *)
Theorem poly_operations_canonical :
  (forall c, poly_canon (poly_const c) = true) /\
  (forall x, poly_canon (poly_var x) = true) /\
  (forall m c p, mono_canon m = true -> poly_canon p = true -> poly_canon (poly_add_term m c p) = true) /\
  (forall p q, poly_canon p = true -> poly_canon q = true -> poly_canon (poly_add p q) = true) /\
  (forall p q, poly_canon q = true -> poly_canon (poly_mul p q) = true) /\
  (forall c q, poly_canon q = true -> poly_canon (poly_scale_mono [] c q) = true) /\
  (forall p n, poly_canon (poly_pow p n) = true) /\
  (forall p, poly_canon (poly_norm p) = true) /\
  (forall s p, poly_canon (subs_sim s p) = true) /\
  (forall x v p, poly_canon (subs_one x v p) = true) /\
  (forall s p, poly_canon p = true -> poly_canon (subs_seq s p) = true).
Proof. exact poly_ops_canon. Qed.
Print Assumptions poly_operations_canonical.

(*     the identity theorem over Q: a canonical polynomial other than 0 has a point where it does not vanish *)
Theorem canonical_nonzero_point : forall p, poly_canon p = true -> p <> [] ->
  exists rho, eval_poly rho p <> Q2Qc 0.
Proof. exact poly_canon_nonzero_point. Qed.
Print Assumptions canonical_nonzero_point.

(*     canonical forms are unique: equal values under every environment, equal lists of terms *)
Theorem canonical_form_unique : forall p q, poly_canon p = true -> poly_canon q = true ->
  (forall rho, eval_poly rho p = eval_poly rho q) -> p = q.
Proof. exact poly_canon_unique. Qed.
Print Assumptions canonical_form_unique.

(*     free_symbols of one expression is exact: a symbol is reported iff two environments that
       differ only at that symbol give two values *)
Theorem free_symbols_expr_exact : forall x p, poly_canon p = true ->
  (In x (fs p) <-> exists rho a, eval_poly (upd rho x a) p <> eval_poly rho p).
Proof. exact fs_exact_point. Qed.
Print Assumptions free_symbols_expr_exact.

(*     what arrives over the wire is canonical; subs and lambdify keep it so *)
Theorem decoded_boxes_canonical : forall s bs, dec_boxes s = Ok bs -> forallb box_canon bs = true.
Proof. exact dec_boxes_canon. Qed.
Print Assumptions decoded_boxes_canonical.

Theorem subs_preserves_canonical : forall fx cls f d d', wf d = true -> dcanon d = true ->
  dsubs fx cls f d = XOk d' -> dcanon d' = true.
Proof. exact dsubs_canon. Qed.
Print Assumptions subs_preserves_canonical.

Theorem lambdify_preserves_canonical : forall fx cls syms vals d d', wf d = true -> dcanon d = true ->
  dlambdify fx cls syms vals d = XOk d' -> dcanon d' = true.
Proof. exact dlambdify_canon. Qed.
Print Assumptions lambdify_preserves_canonical.

(* 17. lambdify of syms applied to vals and subs of zip(syms, vals) are the SAME diagram (Leibniz
   equality of the canonical parameters; `erase` forgets that lambdify returns Python numbers)
   when both succeed, the values are closed and the parameters of d are canonical *)
Theorem lambdify_eq_subs_syntactic : forall fx cls syms vals d d1 d2,
  dwf d = true -> dcanon d = true -> length syms = length vals ->
  Forall (fun v => poly_vars (epoly v) = []) vals ->
  dlambdify fx cls syms vals d = XOk d1 ->
  dsubs fx cls (SList (combine syms vals)) d = XOk d2 ->
  erase d1 = erase d2.
Proof. exact lambdify_eq_subs_syntactic_l. Qed.
Print Assumptions lambdify_eq_subs_syntactic.

(*     the hypothesis `dcanon d` is needed: without it (ParamLemmas.lambdify_eq_subs_syntactic_stmt)
       the statement is false of the model -- lambdify()() re-normalises a parameter 0*1 that subs([]) returns as it is *)
Theorem lambdify_eq_subs_syntactic_needs_canonical : ~ lambdify_eq_subs_syntactic_stmt.
Proof. exact lambdify_eq_subs_syntactic_stmt_false. Qed.
Print Assumptions lambdify_eq_subs_syntactic_needs_canonical.
