(* C17 -- export to and import from pyzx graphs preserve the ZX diagram.
   Property theorems only; proofs in PyZX/PyZXLemmas.v and PyZX/ZXSemLemmas.v. *)
From Coq Require Import List ZArith QArith Bool.
Import ListNotations.
Require Import DV.Common.Base DV.Core.Diagram DV.Core.WF DV.PyZX.PyZX DV.PyZX.PyZXLemmas.
Open Scope Z_scope.

(* export: one vertex per input wire, spider and output wire, numbered in that
   order; colours and phases (doubled, mod 2) of the spiders in box order; inputs
   and outputs in wire order; one edge per spider leg and per output wire, from an
   older to a younger vertex, SIMPLE or HADAMARD *)
Theorem to_pyzx_shape : forall dom cod bs g,
  to_pyzx dom cod bs = Ok g ->
  map vid (gverts g) = seq 0 (length (gverts g)) /\
  map vdata (gverts g) = repeat (0, 0%Q) dom ++ spider_data bs ++ repeat (0, 0%Q) cod /\
  gins g = seq 0 dom /\
  gouts g = seq (dom + length (spider_data bs)) cod /\
  length (gedges g) = (spider_legs bs + cod)%nat /\
  edges_ok (length (gverts g)) (gedges g).
Proof. exact PyZXLemmas.to_pyzx_shape. Qed.
Print Assumptions to_pyzx_shape.

(* import: whatever from_pyzx returns is a well-typed diagram (C01's wf) ... *)
Theorem from_pyzx_wf : forall fix_a fix_b g d, from_pyzx fix_a fix_b g = Ok d -> wf d.
Proof. exact PyZXLemmas.from_pyzx_wf. Qed.
Print Assumptions from_pyzx_wf.

(* ... with as many inputs as the graph and, when the graph satisfies the
   handshake identity of closed graphs, as many outputs *)
Theorem from_pyzx_arity : forall fix_a fix_b g d,
  from_pyzx fix_a fix_b g = Ok d ->
  ddom d = pro (length (gins g)) /\
  (graph_balanced g = true -> dcod d = pro (length (gouts g))).
Proof. exact PyZXLemmas.from_pyzx_arity. Qed.
Print Assumptions from_pyzx_arity.

Theorem from_pyzx_cod_count : forall fix_a fix_b g d,
  from_pyzx fix_a fix_b g = Ok d ->
  exists k, dcod d = pro k /\ (k + total_in g = length (gins g) + total_out g)%nat.
Proof. exact PyZXLemmas.from_pyzx_cod_count. Qed.
Print Assumptions from_pyzx_cod_count.

(* refusal: a boundary vertex missing from inputs + outputs, or a vertex that is
   both an input and an output *)
Theorem from_pyzx_refuses_bad_boundaries : forall fix_a fix_b g,
  (exists v, In v (gverts g) /\ vty v = 0 /\ ~ In (vid v) (gins g ++ gouts g)) \/
  (exists v, In v (gins g) /\ In v (gouts g)) ->
  from_pyzx fix_a fix_b g = Err ValueError.
Proof.
  intros fa fb g [H|H]; apply PyZXLemmas.from_pyzx_refuses_bad_boundaries;
    [left; now apply missing_boundary_spec|right; now apply duplicate_boundary_spec].
Qed.
Print Assumptions from_pyzx_refuses_bad_boundaries.
