(* C17 -- export to and import from pyzx graphs preserve the ZX diagram.
   Property theorems only; proofs in PyZX/PyZXLemmas.v and PyZX/ZXSemLemmas.v. *)
From Coq Require Import List ZArith QArith Bool.
Import ListNotations.
Require Import DV.Common.Base DV.Core.Diagram DV.Core.WF DV.PyZX.PyZX DV.PyZX.PyZXLemmas
  DV.PyZX.ZXSem DV.PyZX.ZXSemLemmas.
Open Scope Z_scope.

(* export: one vertex per input wire, spider and output wire, numbered in that
   order; colours and phases (doubled, mod 2) of the spiders in box order; inputs
   and outputs in wire order; one edge per spider leg and per output wire, from an
   older to a younger vertex, SIMPLE or HADAMARD *)
Theorem to_pyzx_shape : forall dom cod bs g,
  to_pyzx dom cod bs = Ok g ->
  map vid (gverts g) = seq 0 (length (gverts g)) /\
  map vdata (gverts g) = repeat (0, 0%Q) dom ++ spider_data bs ++ repeat (0, 0%Q) cod /\
  gins g = seq 0 dom /\
  gouts g = seq (dom + length (spider_data bs)) cod /\
  length (gedges g) = (spider_legs bs + cod)%nat /\
  edges_ok (length (gverts g)) (gedges g).
Proof. exact PyZXLemmas.to_pyzx_shape. Qed.
Print Assumptions to_pyzx_shape.

(* the edges of the exported graph are exactly the wires of the diagram (wire_trace:
   an independent specification that follows each wire and COUNTS the H boxes on it),
   in the order in which they end; an edge is HADAMARD iff that count is odd *)
Theorem to_pyzx_hadamard_parity : forall dom cod bs g,
  to_pyzx dom cod bs = Ok g ->
  exists ws, wire_trace dom cod bs = Some ws /\ gedges g = map edge_of ws.
Proof. exact PyZXLemmas.to_pyzx_hadamard_parity. Qed.
Print Assumptions to_pyzx_hadamard_parity.

(* import: whatever from_pyzx returns is a well-typed diagram (C01's wf) ... *)
Theorem from_pyzx_wf : forall fix_a fix_b g d, from_pyzx fix_a fix_b g = Ok d -> wf d.
Proof. exact PyZXLemmas.from_pyzx_wf. Qed.
Print Assumptions from_pyzx_wf.

(* ... with as many inputs as the graph and, when the graph satisfies the
   handshake identity of closed graphs, as many outputs *)
Theorem from_pyzx_arity : forall fix_a fix_b g d,
  from_pyzx fix_a fix_b g = Ok d ->
  ddom d = pro (length (gins g)) /\
  (graph_balanced g = true -> dcod d = pro (length (gouts g))).
Proof. exact PyZXLemmas.from_pyzx_arity. Qed.
Print Assumptions from_pyzx_arity.

Theorem from_pyzx_cod_count : forall fix_a fix_b g d,
  from_pyzx fix_a fix_b g = Ok d ->
  exists k, dcod d = pro k /\ (k + total_in g = length (gins g) + total_out g)%nat.
Proof. exact PyZXLemmas.from_pyzx_cod_count. Qed.
Print Assumptions from_pyzx_cod_count.

(* refusal: a boundary vertex missing from inputs + outputs, or a vertex that is
   both an input and an output *)
Theorem from_pyzx_refuses_bad_boundaries : forall fix_a fix_b g,
  (exists v, In v (gverts g) /\ vty v = 0 /\ ~ In (vid v) (gins g ++ gouts g)) \/
  (exists v, In v (gins g) /\ In v (gouts g)) ->
  from_pyzx fix_a fix_b g = Err ValueError.
Proof.
  intros fa fb g [H|H]; apply PyZXLemmas.from_pyzx_refuses_bad_boundaries;
    [left; now apply missing_boundary_spec|right; now apply duplicate_boundary_spec].
Qed.
Print Assumptions from_pyzx_refuses_bad_boundaries.

(* ------------------------------------------------------------------ semantics
   The full statements are ZXSem.to_pyzx_sound_stmt, ZXSem.from_pyzx_sound_stmt and
   ZXSem.from_pyzx_total_stmt (Definitions, never asserted).  What is proved: *)

(* graph_sem (to_pyzx d) = zx_sem d on the listed instances, computed in Cyc8 *)
Theorem to_pyzx_sound_partial : forallb export_ok sem_examples = true.
Proof. exact ZXSemLemmas.to_pyzx_sound_partial. Qed.
Print Assumptions to_pyzx_sound_partial.

(* the code as it is violates from_pyzx_sound_stmt (Cyc8 instance): finding F15 *)
Theorem from_pyzx_sound_refuted_cyc8_F15a : unsound_on false false ex_f15a.
Proof. exact ZXSemLemmas.from_pyzx_sound_refuted_cyc8_F15a. Qed.
Print Assumptions from_pyzx_sound_refuted_cyc8_F15a.

Theorem from_pyzx_sound_refuted_cyc8_F15b : unsound_on false false ex_f15b.
Proof. exact ZXSemLemmas.from_pyzx_sound_refuted_cyc8_F15b. Qed.
Print Assumptions from_pyzx_sound_refuted_cyc8_F15b.

Theorem from_pyzx_sound_refuted_cyc8_F15b_plain : unsound_on false false ex_f15b_plain.
Proof. exact ZXSemLemmas.from_pyzx_sound_refuted_cyc8_F15b_plain. Qed.
Print Assumptions from_pyzx_sound_refuted_cyc8_F15b_plain.

(* with both proposed fixes the three reproducers are imported correctly, and each
   switch repairs exactly its own sub-case *)
Theorem from_pyzx_fixed_on_witnesses :
  forallb (roundtrip_ok true true) [ex_f15b; ex_f15b_plain; ex_f15a] = true.
Proof. exact ZXSemLemmas.from_pyzx_fixed_on_witnesses. Qed.
Print Assumptions from_pyzx_fixed_on_witnesses.

Theorem switches_are_independent :
  roundtrip_ok true false ex_f15a = true /\ roundtrip_ok false true ex_f15a = false /\
  roundtrip_ok false true ex_f15b = true /\ roundtrip_ok true false ex_f15b = false /\
  roundtrip_ok false true ex_f15b_plain = true.
Proof. exact ZXSemLemmas.switches_are_independent. Qed.
Print Assumptions switches_are_independent.

(* the import statement holds, in Cyc8, on five round trips that meet neither trigger *)
Theorem from_pyzx_sound_partial :
  forallb (roundtrip_ok false false)
    [ (n0, n0, []); (n2, n2, [(BHad, n0); (BSwap, n0)]);
      (n2, n2, [(BSpider SZ 1 2 0, n0); (BSpider SX 2 1 0, n1)]);
      (n2, n2, [(BSpider SZ 1 2 0, n0); (BHad, n1); (BSpider SZ 2 1 (1 # 2), n1)]);
      (n1, n1, [(BSpider SZ 1 1 (9 # 8), n0); (BSpider SX 1 1 (-3 # 8), n0)]) ] = true.
Proof. exact ZXSemLemmas.from_pyzx_sound_partial. Qed.
Print Assumptions from_pyzx_sound_partial.

(* ------------------------------------------------------------------ export soundness, in general
   (PyZX/KSum.v, PyZX/PyZXSound.v, PyZX/Cyc8Laws.v).  graph_sem / zx_sem are the
   definitions of ZXSem.v, unchanged.  The scalar is carried exactly (graph.scalar =
   product of the scalar boxes), Hadamard edges as in the code. *)
Require Import DV.PyZX.KSum DV.PyZX.PyZXSound DV.PyZX.Cyc8Laws.

(* ZXSem.to_pyzx_sound_stmt (without its hypothesis graph_simple g = true, which is
   not needed), under ring_laws plus the law ring_laws lacks: rcplx respects Qeq
   (the model's scalar product normalises fractions with Qred) *)
Theorem to_pyzx_sound : forall K, ring_laws K -> cplx_proper K -> forall dom cod bs g,
  zx_typed dom bs cod -> to_pyzx dom cod bs = Ok g ->
  forall i o, length i = dom -> length o = cod ->
    req K (graph_sem K g i o) (zx_sem K dom bs i o).
Proof. exact PyZXSound.to_pyzx_sound. Qed.
Print Assumptions to_pyzx_sound.

(* the same under the laws the proof really uses (commutative semiring with -1 and
   1/sqrt 2; rexp invariant under the export's phase normalisation; rcplx 1 0 = 1;
   rcplx multiplicative on cmul) *)
Theorem to_pyzx_sound_export : forall K, export_laws K -> forall dom cod bs g,
  zx_typed dom bs cod -> to_pyzx dom cod bs = Ok g ->
  forall i o, length i = dom -> length o = cod ->
    req K (graph_sem K g i o) (zx_sem K dom bs i o).
Proof. exact PyZXSound.to_pyzx_sound_export. Qed.
Print Assumptions to_pyzx_sound_export.

(* diagrams without scalar boxes: ring_laws alone, i.e. to_pyzx_sound_stmt as it is *)
Theorem to_pyzx_sound_scalar_free : forall K, ring_laws K -> forall dom cod bs g,
  zx_typed dom bs cod -> scalar_free bs -> to_pyzx dom cod bs = Ok g ->
  forall i o, length i = dom -> length o = cod ->
    req K (graph_sem K g i o) (zx_sem K dom bs i o).
Proof. exact PyZXSound.to_pyzx_sound_scalar_free. Qed.
Print Assumptions to_pyzx_sound_scalar_free.

(* the executable ring Cyc8 is a non-trivial model of export_laws (non-vacuity), so
   the executable semantics agree on EVERY diagram in scope, any phases
   (to_pyzx_sound_partial above: 14 instances by computation) *)
Theorem cyc8_export_laws : export_laws Cyc8 /\ ~ req Cyc8 (r1 Cyc8) (r0 Cyc8).
Proof. exact (conj Cyc8Laws.cyc8_export_laws Cyc8Laws.cyc8_nontrivial). Qed.
Print Assumptions cyc8_export_laws.

Theorem to_pyzx_sound_cyc8 : forall dom cod bs g,
  zx_typed dom bs cod -> to_pyzx dom cod bs = Ok g ->
  forall i o, length i = dom -> length o = cod ->
    c8_eqb (graph_sem Cyc8 g i o) (zx_sem Cyc8 dom bs i o) = true.
Proof. exact Cyc8Laws.to_pyzx_sound_cyc8. Qed.
Print Assumptions to_pyzx_sound_cyc8.

(* the same over the abstract commutative *-ring of Quantum/Ring.v (Leibniz equality),
   for any phase map e and complex embedding c with the three remaining laws *)
Require DV.Quantum.Ring DV.PyZX.SoundStarRing.
Theorem to_pyzx_sound_starring :
  forall (SR : DV.Quantum.Ring.StarRing)
         (e : Q -> DV.Quantum.Ring.SR_car SR) (c : Q -> Q -> DV.Quantum.Ring.SR_car SR),
  (forall p, e (export_phase p * (1 # 2))%Q = e p) ->
  c 1%Q 0%Q = DV.Quantum.Ring.r1 ->
  (forall a b, c (fst (cmul a b)) (snd (cmul a b))
               = DV.Quantum.Ring.rmul (c (fst a) (snd a)) (c (fst b) (snd b))) ->
  forall dom cod bs g,
  zx_typed dom bs cod -> to_pyzx dom cod bs = Ok g ->
  forall i o, length i = dom -> length o = cod ->
    graph_sem (SoundStarRing.ringops_of SR e c) g i o
    = zx_sem (SoundStarRing.ringops_of SR e c) dom bs i o.
Proof. exact SoundStarRing.to_pyzx_sound_starring. Qed.
Print Assumptions to_pyzx_sound_starring.

(* ------------------------------------------------------------------ import soundness, in general
   (PyZX/GraphIso.v, ImportSim.v, ImportEdges.v, PyZXImport.v, ImportCyc8.v), for the code as
   it is now: from_pyzx true true (both repairs of F15 in place).  graph_wf = the decidable
   well-formedness that ZXSem.graph_in_scope forgot (distinct vertex ids, distinct inputs,
   distinct outputs, boundaries and edge end points are vertices); import_laws = export_laws
   plus "rexp respects Qeq". *)
Require Import DV.PyZX.GraphIso DV.PyZX.ImportSim DV.PyZX.ImportEdges DV.PyZX.PyZXImport DV.PyZX.ImportCyc8.

(* ZXSem.from_pyzx_sound_stmt true true, for well-formed graphs *)
Theorem from_pyzx_sound : forall K, import_laws K -> forall g d,
  graph_wf g -> graph_in_scope g = true -> from_pyzx true true g = Ok d ->
  forall i o, length i = length (gins g) -> length o = length (gouts g) ->
    req K (rmul K (rcplx K (fst (gscal g)) (snd (gscal g))) (core_sem K d i o)) (graph_sem K g i o).
Proof. exact PyZXImport.from_pyzx_sound. Qed.
Print Assumptions from_pyzx_sound.

Theorem from_pyzx_sound_ring_laws : forall K, ring_laws K -> cplx_proper K -> forall g d,
  graph_wf g -> graph_in_scope g = true -> from_pyzx true true g = Ok d ->
  forall i o, length i = length (gins g) -> length o = length (gouts g) ->
    req K (rmul K (rcplx K (fst (gscal g)) (snd (gscal g))) (core_sem K d i o)) (graph_sem K g i o).
Proof. exact PyZXImport.from_pyzx_sound_ring_laws. Qed.
Print Assumptions from_pyzx_sound_ring_laws.

(* how it is proved: to_pyzx accepts the imported diagram (and rebuilds the graph up to
   the order / orientation of the edges and the order / names of the vertices) *)
Theorem import_then_export_accepts : forall g d,
  graph_wf g -> graph_in_scope g = true -> from_pyzx true true g = Ok d ->
  zx_typed (length (gins g)) (bl d) (length (gouts g)) /\
  exists g', to_pyzx (length (gins g)) (length (gouts g)) (bl d) = Ok g'.
Proof.
  intros g d Hwf Hsc H. destruct (PyZXImport.import_export g d Hwf Hsc H) as (g' & H1 & H2 & _).
  split; [exact H2|exists g'; exact H1].
Qed.
Print Assumptions import_then_export_accepts.

(* the handshake identity of ZXSem.from_pyzx_total_stmt (double counting), hence the arity *)
Theorem graph_balanced_in_scope : forall g,
  graph_wf g -> graph_in_scope g = true -> graph_balanced g = true.
Proof. exact PyZXImport.graph_balanced_in_scope. Qed.
Print Assumptions graph_balanced_in_scope.

Theorem from_pyzx_arity_in_scope : forall fa fb g d,
  graph_wf g -> graph_in_scope g = true -> from_pyzx fa fb g = Ok d ->
  ddom d = pro (length (gins g)) /\ dcod d = pro (length (gouts g)).
Proof. exact PyZXImport.from_pyzx_arity_in_scope. Qed.
Print Assumptions from_pyzx_arity_in_scope.

(* round trip: export then import gives a diagram with the same matrix *)
Theorem round_trip_sound : forall K, import_laws K -> forall dom cod bs g d,
  zx_typed dom bs cod -> to_pyzx dom cod bs = Ok g ->
  graph_wf g -> graph_in_scope g = true -> from_pyzx true true g = Ok d ->
  forall i o, length i = dom -> length o = cod ->
    req K (rmul K (rcplx K (fst (gscal g)) (snd (gscal g))) (core_sem K d i o)) (zx_sem K dom bs i o).
Proof. exact PyZXImport.round_trip_sound. Qed.
Print Assumptions round_trip_sound.

(* Cyc8 is a model of import_laws: the executable semantics agree on every such graph *)
Theorem from_pyzx_sound_cyc8 : forall g d,
  graph_wf g -> graph_in_scope g = true -> from_pyzx true true g = Ok d ->
  forall i o, length i = length (gins g) -> length o = length (gouts g) ->
    c8_eqb (c8_mul (rcplx Cyc8 (fst (gscal g)) (snd (gscal g))) (core_sem Cyc8 d i o))
           (graph_sem Cyc8 g i o) = true.
Proof. exact ImportCyc8.from_pyzx_sound_cyc8. Qed.
Print Assumptions from_pyzx_sound_cyc8.

(* graph_wf is needed: a graph in scope whose boundaries are not vertices *)
Theorem from_pyzx_sound_needs_wf :
  graph_in_scope g_nowf = true /\
  exists d, from_pyzx true true g_nowf = Ok d /\
    ~ req Cyc8 (rmul Cyc8 (rcplx Cyc8 (fst (gscal g_nowf)) (snd (gscal g_nowf)))
                  (core_sem Cyc8 d [false] [true]))
               (graph_sem Cyc8 g_nowf [false] [true]).
Proof. exact ImportCyc8.from_pyzx_sound_needs_wf. Qed.
Print Assumptions from_pyzx_sound_needs_wf.

(* ZXSem.from_pyzx_total_stmt as stated is false (vertex list not in increasing order) *)
Theorem from_pyzx_total_stmt_refuted : forall fa fb, ~ from_pyzx_total_stmt fa fb.
Proof. exact ImportCyc8.from_pyzx_total_stmt_refuted. Qed.
Print Assumptions from_pyzx_total_stmt_refuted.

(* TOTALITY, corrected form of ZXSem.from_pyzx_total_stmt (PyZX/ImportTotal.v): a well-formed
   graph in scope whose vertex list is sorted by id is never refused, and is balanced *)
Require Import Coq.Sorting.Sorted DV.PyZX.ImportTotal.
Theorem from_pyzx_total : forall g,
  graph_wf g -> graph_in_scope g = true -> StronglySorted lt (map vid (gverts g)) ->
  graph_balanced g = true /\ exists d, from_pyzx true true g = Ok d.
Proof. exact ImportTotal.from_pyzx_total. Qed.
Print Assumptions from_pyzx_total.

(* the same with the decidable hypotheses that the runner / harness can evaluate *)
Theorem from_pyzx_total_dec : forall g,
  graph_wfb g = true -> sortedb (map vid (gverts g)) = true -> graph_in_scope g = true ->
  graph_balanced g = true /\ exists d, from_pyzx true true g = Ok d.
Proof. exact ImportCyc8.from_pyzx_total_dec. Qed.
Print Assumptions from_pyzx_total_dec.
