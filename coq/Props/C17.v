(* C17 -- export to and import from pyzx graphs preserve the ZX diagram.
   Property theorems only; proofs in PyZX/PyZXLemmas.v and PyZX/ZXSemLemmas.v. *)
From Coq Require Import List ZArith QArith Bool.
Import ListNotations.
Require Import DV.Common.Base DV.Core.Diagram DV.Core.WF DV.PyZX.PyZX DV.PyZX.PyZXLemmas
  DV.PyZX.ZXSem DV.PyZX.ZXSemLemmas.
Open Scope Z_scope.

(* export: one vertex per input wire, spider and output wire, numbered in that
   order; colours and phases (doubled, mod 2) of the spiders in box order; inputs
   and outputs in wire order; one edge per spider leg and per output wire, from an
   older to a younger vertex, SIMPLE or HADAMARD *)
Theorem to_pyzx_shape : forall dom cod bs g,
  to_pyzx dom cod bs = Ok g ->
  map vid (gverts g) = seq 0 (length (gverts g)) /\
  map vdata (gverts g) = repeat (0, 0%Q) dom ++ spider_data bs ++ repeat (0, 0%Q) cod /\
  gins g = seq 0 dom /\
  gouts g = seq (dom + length (spider_data bs)) cod /\
  length (gedges g) = (spider_legs bs + cod)%nat /\
  edges_ok (length (gverts g)) (gedges g).
Proof. exact PyZXLemmas.to_pyzx_shape. Qed.
Print Assumptions to_pyzx_shape.

(* the edges of the exported graph are exactly the wires of the diagram (wire_trace:
   an independent specification that follows each wire and COUNTS the H boxes on it),
   in the order in which they end; an edge is HADAMARD iff that count is odd *)
Theorem to_pyzx_hadamard_parity : forall dom cod bs g,
  to_pyzx dom cod bs = Ok g ->
  exists ws, wire_trace dom cod bs = Some ws /\ gedges g = map edge_of ws.
Proof. exact PyZXLemmas.to_pyzx_hadamard_parity. Qed.
Print Assumptions to_pyzx_hadamard_parity.

(* import: whatever from_pyzx returns is a well-typed diagram (C01's wf) ... *)
Theorem from_pyzx_wf : forall fix_a fix_b g d, from_pyzx fix_a fix_b g = Ok d -> wf d.
Proof. exact PyZXLemmas.from_pyzx_wf. Qed.
Print Assumptions from_pyzx_wf.

(* ... with as many inputs as the graph and, when the graph satisfies the
   handshake identity of closed graphs, as many outputs *)
Theorem from_pyzx_arity : forall fix_a fix_b g d,
  from_pyzx fix_a fix_b g = Ok d ->
  ddom d = pro (length (gins g)) /\
  (graph_balanced g = true -> dcod d = pro (length (gouts g))).
Proof. exact PyZXLemmas.from_pyzx_arity. Qed.
Print Assumptions from_pyzx_arity.

Theorem from_pyzx_cod_count : forall fix_a fix_b g d,
  from_pyzx fix_a fix_b g = Ok d ->
  exists k, dcod d = pro k /\ (k + total_in g = length (gins g) + total_out g)%nat.
Proof. exact PyZXLemmas.from_pyzx_cod_count. Qed.
Print Assumptions from_pyzx_cod_count.

(* refusal: a boundary vertex missing from inputs + outputs, or a vertex that is
   both an input and an output *)
Theorem from_pyzx_refuses_bad_boundaries : forall fix_a fix_b g,
  (exists v, In v (gverts g) /\ vty v = 0 /\ ~ In (vid v) (gins g ++ gouts g)) \/
  (exists v, In v (gins g) /\ In v (gouts g)) ->
  from_pyzx fix_a fix_b g = Err ValueError.
Proof.
  intros fa fb g [H|H]; apply PyZXLemmas.from_pyzx_refuses_bad_boundaries;
    [left; now apply missing_boundary_spec|right; now apply duplicate_boundary_spec].
Qed.
Print Assumptions from_pyzx_refuses_bad_boundaries.

(* ------------------------------------------------------------------ semantics
   The full statements are ZXSem.to_pyzx_sound_stmt, ZXSem.from_pyzx_sound_stmt and
   ZXSem.from_pyzx_total_stmt (Definitions, never asserted).  What is proved: *)

(* graph_sem (to_pyzx d) = zx_sem d on the listed instances, computed in Cyc8 *)
Theorem to_pyzx_sound_partial : forallb export_ok sem_examples = true.
Proof. exact ZXSemLemmas.to_pyzx_sound_partial. Qed.
Print Assumptions to_pyzx_sound_partial.

(* the code as it is violates from_pyzx_sound_stmt (Cyc8 instance): finding F15 *)
Theorem from_pyzx_sound_refuted_cyc8_F15a : unsound_on false false ex_f15a.
Proof. exact ZXSemLemmas.from_pyzx_sound_refuted_cyc8_F15a. Qed.
Print Assumptions from_pyzx_sound_refuted_cyc8_F15a.

Theorem from_pyzx_sound_refuted_cyc8_F15b : unsound_on false false ex_f15b.
Proof. exact ZXSemLemmas.from_pyzx_sound_refuted_cyc8_F15b. Qed.
Print Assumptions from_pyzx_sound_refuted_cyc8_F15b.

Theorem from_pyzx_sound_refuted_cyc8_F15b_plain : unsound_on false false ex_f15b_plain.
Proof. exact ZXSemLemmas.from_pyzx_sound_refuted_cyc8_F15b_plain. Qed.
Print Assumptions from_pyzx_sound_refuted_cyc8_F15b_plain.

(* with both proposed fixes the three reproducers are imported correctly, and each
   switch repairs exactly its own sub-case *)
Theorem from_pyzx_fixed_on_witnesses :
  forallb (roundtrip_ok true true) [ex_f15b; ex_f15b_plain; ex_f15a] = true.
Proof. exact ZXSemLemmas.from_pyzx_fixed_on_witnesses. Qed.
Print Assumptions from_pyzx_fixed_on_witnesses.

Theorem switches_are_independent :
  roundtrip_ok true false ex_f15a = true /\ roundtrip_ok false true ex_f15a = false /\
  roundtrip_ok false true ex_f15b = true /\ roundtrip_ok true false ex_f15b = false /\
  roundtrip_ok false true ex_f15b_plain = true.
Proof. exact ZXSemLemmas.switches_are_independent. Qed.
Print Assumptions switches_are_independent.

(* the import statement holds, in Cyc8, on five round trips that meet neither trigger *)
Theorem from_pyzx_sound_partial :
  forallb (roundtrip_ok false false)
    [ (n0, n0, []); (n2, n2, [(BHad, n0); (BSwap, n0)]);
      (n2, n2, [(BSpider SZ 1 2 0, n0); (BSpider SX 2 1 0, n1)]);
      (n2, n2, [(BSpider SZ 1 2 0, n0); (BHad, n1); (BSpider SZ 2 1 (1 # 2), n1)]);
      (n1, n1, [(BSpider SZ 1 1 (9 # 8), n0); (BSpider SX 1 1 (-3 # 8), n0)]) ] = true.
Proof. exact ZXSemLemmas.from_pyzx_sound_partial. Qed.
Print Assumptions from_pyzx_sound_partial.
