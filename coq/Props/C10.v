(* C10 -- swaps and permutations realise exactly the requested wire permutation.
   Property theorems only; proofs are in Core/PermLemmas.v.  `route offs ws`
   carries arbitrary labels ws on the wires through the boxes at offsets offs
   (Core/Route.v), so "wire i goes to position p" is stated for every labelling. *)
From Coq Require Import List ZArith Bool.
Import ListNotations.
Require Import DV.Common.Base DV.Core.Diagram DV.Core.WF DV.Core.Perm DV.Core.Route DV.Core.PermLemmas DV.Core.PermWire.
Open Scope Z_scope.

(* Diagram.swap(l, r): well-typed, l @ r -> r @ l, adjacent swaps only, and every
   wire of l, in order, ends to the right of every wire of r -- for all types of
   all lengths (including empty) and every labelling of the wires *)
Theorem swap_moves_left_block_past_right_block : forall l r d,
  dswap l r = Ok d ->
  wf d /\ ddom d = l ++ r /\ dcod d = r ++ l /\ only_swaps d /\
  offsets_in_range (length (l ++ r)) (doffs d) /\
  forall (A : Type) (wl wr : list A), length wl = length l -> length wr = length r ->
    route (doffs d) (wl ++ wr) = wr ++ wl.
Proof. exact dswap_spec. Qed.
Print Assumptions swap_moves_left_block_past_right_block.

(* swapping two types is never refused *)
Theorem swap_never_refused : forall l r, exists d, dswap l r = Ok d.
Proof. exact dswap_total. Qed.
Print Assumptions swap_never_refused.

(* Diagram.permutation(perm, dom): well-typed, from dom, same width, adjacent
   swaps only, and only returned for genuine permutations of matching length *)
Theorem permutation_is_swap_network : forall perm dom d,
  dpermutation perm dom = Ok d ->
  wf d /\ ddom d = dom /\ length (dcod d) = length dom /\ only_swaps d /\
  is_perm perm = true /\ len dom = len perm.
Proof. exact dpermutation_spec. Qed.
Print Assumptions permutation_is_swap_network.

(* non-permutations and length mismatches are refused with ValueError *)
Theorem permutation_refuses : forall perm dom,
  is_perm perm = false \/ len dom <> len perm ->
  dpermutation perm dom = Err ValueError.
Proof.
  intros perm dom [H | H]; unfold dpermutation.
  - rewrite H; reflexivity.
  - destruct (is_perm perm); [|reflexivity]. cbn [negb].
    destruct (len dom =? len perm) eqn:E; [|reflexivity].
    apply Z.eqb_eq in E. contradiction.
Qed.
Print Assumptions permutation_refuses.

(* the wire map of permutations: carrying the label perm[i] on input wire i, the
   labels arrive sorted, i.e. input wire i ends at output position perm[i] *)
Theorem permutation_sends_wire_i_to_perm_i : forall perm dom d,
  dpermutation perm dom = Ok d -> route (doffs d) perm = zrange 0 (length perm).
Proof. exact permutation_wire_map. Qed.
Print Assumptions permutation_sends_wire_i_to_perm_i.

(* the codomain is the correspondingly permuted domain: cod[perm[i]] = dom[i] *)
Theorem permutation_codomain_is_permuted_domain : forall perm dom d i p x,
  dpermutation perm dom = Ok d -> nth_error perm i = Some p -> nth_error dom i = Some x ->
  nth_error (dcod d) (Z.to_nat p) = Some x.
Proof. exact permutation_cod. Qed.
Print Assumptions permutation_codomain_is_permuted_domain.
