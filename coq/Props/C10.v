(* C10 -- swaps and permutations realise exactly the requested wire permutation.
   Property theorems only; proofs are in Core/PermLemmas.v. *)
From Coq Require Import List ZArith Bool.
Import ListNotations.
Require Import DV.Common.Base DV.Core.Diagram DV.Core.Perm.
Open Scope Z_scope.

Theorem permutation_refuses : forall perm dom,
  is_perm perm = false \/ len dom <> len perm ->
  dpermutation perm dom = Err ValueError.
Proof.
  intros perm dom [H | H]; unfold dpermutation.
  - rewrite H; reflexivity.
  - destruct (is_perm perm); [|reflexivity]. cbn [negb].
    destruct (len dom =? len perm) eqn:E; [|reflexivity].
    apply Z.eqb_eq in E. contradiction.
Qed.
Print Assumptions permutation_refuses.
