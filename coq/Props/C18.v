(* C18 -- grammar front-ends only produce well-typed, grammatical derivations.
   Models: Grammar/Pregroup.v (Word, eager_parse, brute_force), Grammar/CFG.v
   (CFG.generate with random.shuffle as an explicit oracle), Grammar/CCG.v
   (cat2ty, tree2diagram), Grammar/Biclosed.v (slash types, FA BA FC BC FX BX
   Curry, biclosed.Functor.__call__ for biclosed2rigid, rigid.Diagram.fa / ba /
   fc / bc / fx / bx / curry).  `wf` is the well-typedness predicate of C01. *)
From Coq Require Import List ZArith Bool.
Import ListNotations.
Require Import DV.Common.Base DV.Core.Diagram DV.Core.WF DV.Core.Rigid
  DV.Grammar.Pregroup DV.Grammar.PregroupLemmas
  DV.Grammar.Biclosed DV.Grammar.BiclosedLemmas DV.Grammar.BiclosedTotalLemmas
  DV.Grammar.CFG DV.Grammar.CFGLemmas
  DV.Grammar.CCG DV.Grammar.CCGLemmas.
Open Scope Z_scope.

(* ------------------------------------------------------------------ pregroup parser *)
(* every diagram returned by eager_parse is well-typed, has an empty domain, the
   requested target as codomain, and its boxes are the given words in order (at
   the offsets of a left-to-right tensor) followed only by cups, each of kind Cup
   with domain (t, t.r) -- which, by well-typedness, sit on two adjacent wires *)
Theorem eager_parse_spec : forall ws target d, eager_parse ws target = Ok d ->
  wf d /\ ddom d = [] /\ dcod d = target /\
  exists cups offs, dboxes d = map word_box ws ++ cups /\ Forall is_adj_cup cups /\
    doffs d = word_offs 0 ws ++ offs.
Proof. exact eager_parse_spec_lemma. Qed.
Print Assumptions eager_parse_spec.

(* the target is reached from the concatenated word types by contracting
   adjacent (t, t.r) pairs only *)
Theorem eager_parse_grammatical : forall ws target d, eager_parse ws target = Ok d ->
  contracts (flat_map snd ws) target.
Proof. exact eager_parse_contracts. Qed.
Print Assumptions eager_parse_grammatical.

(* the pair contracted in each round is the leftmost adjacent (t, t.r) pair *)
Theorem eager_parse_contracts_leftmost : forall scan k,
  find_pair scan 0 (length scan - 1) = Some k ->
  adjacent_pair_at scan k /\ (0 <= k)%nat /\
  forall j, (0 <= j < k)%nat -> ~ adjacent_pair_at scan j.
Proof. exact find_pair_top. Qed.
Print Assumptions eager_parse_contracts_leftmost.

(* when it fails it raises NotImplementedError and nothing else (no composition
   inside the parser is ever refused, the loop terminates) *)
Theorem eager_parse_only_raises_not_implemented : forall ws target e,
  eager_parse ws target = Err e -> e = NotImplementedError.
Proof. exact eager_parse_err_lemma. Qed.
Print Assumptions eager_parse_only_raises_not_implemented.

(* brute-force search: at most n results, each one a parse (in the sense above)
   of a non-empty sentence over the vocabulary; the search itself never raises *)
Theorem brute_force_sound : forall vocab target n m ds, brute_force vocab target n m = Ok ds ->
  (length ds <= n)%nat /\
  Forall (fun d => exists ws, ws <> [] /\ over_vocab vocab ws /\ parse_of ws target d) ds.
Proof. exact brute_force_sound_lemma. Qed.
Print Assumptions brute_force_sound.

Theorem brute_force_never_raises : forall vocab target n m, exists ds, brute_force vocab target n m = Ok ds.
Proof. exact brute_force_total. Qed.
Print Assumptions brute_force_never_raises.

(* ------------------------------------------------------------------ context-free grammars *)
(* for every shuffle oracle: every generated sentence is a well-typed diagram
   from the empty type to the start symbol all of whose boxes are productions of
   the grammar, i.e. a derivation of the start symbol *)
Theorem cfg_generate_is_derivation :
  forall productions start max_sentences max_depth max_iter remove_duplicates not_twice oracle out rest,
  cfg_generate productions start max_sentences max_depth max_iter remove_duplicates not_twice oracle
    = Ok (out, rest) ->
  Forall (fun d => wf d /\ ddom d = [] /\ dcod d = start /\
                   Forall (fun b => In b productions) (dboxes d) /\
                   (length (dboxes d) < max_depth)%nat) out
  /\ (length out <= max_iter)%nat.
Proof. exact cfg_generate_derivations. Qed.
Print Assumptions cfg_generate_is_derivation.

Theorem cfg_generate_never_raises :
  forall productions start max_sentences max_depth max_iter remove_duplicates not_twice oracle,
  exists r, cfg_generate productions start max_sentences max_depth max_iter remove_duplicates
              not_twice oracle = Ok r.
Proof. exact cfg_generate_total. Qed.
Print Assumptions cfg_generate_never_raises.

(* ------------------------------------------------------------------ biclosed -> rigid *)
(* side conditions: `box_good` = the box was built by the public constructors
   without error (FA, BA with any -- composite, empty, slash -- left argument, FC,
   BC, FX, BX, plain boxes, Curry -- either side, any n_wires: 0, over-long and
   negative included, curried types translating to Ty() included -- of a
   well-typed diagram of such boxes); `diagram_good` = a well-typed diagram of
   such boxes.  Slash types are arbitrarily nested with composite sides. *)

(* the image of every such box is well-typed and goes from the image of its
   domain to the image of its codomain *)
Theorem biclosed2rigid_box_type_preserving : forall b d, box_good b = true -> f_box b = Ok d ->
  wf d /\ ddom d = F_ty (xdom b) /\ dcod d = F_ty (xcod b).
Proof. exact f_box_types. Qed.
Print Assumptions biclosed2rigid_box_type_preserving.

(* and it exists: no application, composition, crossed composition or currying
   is ever refused *)
Theorem biclosed2rigid_box_never_refused : forall b, box_good b = true -> exists d, f_box b = Ok d.
Proof. exact f_box_total. Qed.
Print Assumptions biclosed2rigid_box_never_refused.

(* the same for whole diagrams *)
Theorem biclosed2rigid_type_preserving : forall D d, diagram_good D = true -> b2r D = Ok d ->
  wf d /\ ddom d = F_ty (xd_dom D) /\ dcod d = F_ty (xd_cod D).
Proof. exact b2r_type_preserving_lemma. Qed.
Print Assumptions biclosed2rigid_type_preserving.

Theorem biclosed2rigid_never_refused : forall D, diagram_good D = true -> exists d, b2r D = Ok d.
Proof. exact b2r_total. Qed.
Print Assumptions biclosed2rigid_never_refused.

(* whatever the public constructors accept satisfies the side conditions: the
   four theorems above apply to every biclosed diagram that can be built *)
Theorem constructors_build_good_diagrams : forall dom cod bs offs D,
  build dom cod bs offs = Ok D -> diagram_good D = true.
Proof. exact build_built. Qed.
Print Assumptions constructors_build_good_diagrams.

Theorem built_diagrams_translate_type_preserving : forall dom cod bs offs D,
  build dom cod bs offs = Ok D ->
  exists d, b2r D = Ok d /\ wf d /\ ddom d = F_ty dom /\ dcod d = F_ty cod.
Proof. exact build_b2r_typed. Qed.
Print Assumptions built_diagrams_translate_type_preserving.

(* the object map is a monoid homomorphism sending slashes to adjoints *)
Theorem object_map_tensor : forall a b, F_ty (a ++ b) = F_ty a ++ F_ty b.
Proof. exact F_ty_app. Qed.
Print Assumptions object_map_tensor.
Theorem object_map_over : forall l r, F_ty [BOver l r] = F_ty l ++ ty_l (F_ty r).
Proof. intros. rewrite F_ty_one. apply F_ob_over. Qed.
Print Assumptions object_map_over.
Theorem object_map_under : forall l r, F_ty [BUnder l r] = ty_r (F_ty l) ++ F_ty r.
Proof. intros. rewrite F_ty_one. apply F_ob_under. Qed.
Print Assumptions object_map_under.

(* ------------------------------------------------------------------ CCG trees *)
(* every diagram built from a derivation tree is a well-typed biclosed diagram
   from the empty type, so its translation exists and is type-preserving *)
Theorem tree2diagram_typed : forall t D, tree2diagram t = Ok D ->
  diagram_good D = true /\ xd_dom D = [].
Proof. exact tree2diagram_good. Qed.
Print Assumptions tree2diagram_typed.

Theorem tree2diagram_image_typed : forall t D, tree2diagram t = Ok D ->
  exists d, b2r D = Ok d /\ wf d /\ ddom d = [] /\ dcod d = F_ty (xd_cod D).
Proof. exact tree2diagram_image. Qed.
Print Assumptions tree2diagram_image_typed.

(* cat2ty only produces a single slash type with single objects on both sides
   of every slash *)
Theorem cat2ty_simple : forall s t, cat2ty s = Ok t -> simple_ty t = true /\ length t = 1%nat.
Proof. exact cat2ty_simple_lemma. Qed.
Print Assumptions cat2ty_simple.
