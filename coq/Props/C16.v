(* C16 -- circuits translate to ZX diagrams denoting the same linear map.

   Model: coq/ZX/ZX.v (zx.py: boxes, diagrams, dagger, gate2zx, circuit2zx, and
   the standard interpretation zx_sem); proofs: coq/ZX/{LayersLemmas, ZXGates,
   ZXLemmas, ZXWitness}.v.  Every statement is closed: quantified over every
   StarRing SR (the complex numbers are one), every phase algebra PA over it
   (phases in full turns with their interpretation exp(i pi p); the reals are
   one, the phase units of SR another, the grid k/16 in Cyc32 the executable
   one), every gate / bitstring / circuit / ZX diagram.

   The faithful model VIOLATES the property at CRz / CRx / CU1 (finding F13):
   see [crz_refuted] ... below; the positive theorems carry the hypothesis
   [f13_free] (with the switch ZX.defect_F13 on, as now: CRz(p), CRx(p):
   exp(i pi p) = 1; CU1(p): exp(2 pi i p) = 1), and
   [controlled_rotations_denote_the_double_phase] says exactly what the coded
   diagrams denote instead.  [circuit2zx_sound_repaired] is the same theorem for
   the proposed repair (switch off), for every circuit. *)
From Coq Require Import List.
Require Import DV.Quantum.Ring DV.Quantum.Cyc32 DV.Quantum.Matrix DV.Quantum.Gates.
Require Import DV.ZX.Layers DV.ZX.LayersLemmas DV.ZX.ZX DV.ZX.ZXGates DV.ZX.ZXLemmas
               DV.ZX.ZXGrid DV.ZX.ZXWitness DV.ZX.ZXSpiders.

(* for every box g the functor accepts -- Ket / Bra of every bitstring, H X Y Y.dagger()
   Z CX CZ SWAP, Rx Rz CU1 CRz CRx of every phase, scalars -- outside F13: the image is
   well-typed, has g's arity, and its standard interpretation is gate_lam g * eval(g)
   with gate_lam g an explicit unit (1, 1/sqrt2, exp(i pi p), sqrt2^k) *)
Theorem gate2zx_sound : forall (SR : StarRing) (PA : PhaseAlg SR) (g : qgate PA) (d : zxd PA),
  c2z_box g = ZOk d -> f13_free g ->
  zwf d = true /\ gd_dom d = qdom g /\ gd_cod0 zbox_dom zbox_cod d = qcod g
  /\ is_unit (gate_lam g)
  /\ meq (qdom g) (qcod g) (zx_sem d) (mscale (gate_lam g) (box_eval (qgate_box g))).
Proof. exact gate2zx_sound_l. Qed.
Print Assumptions gate2zx_sound.

(* the arity clause needs no exclusion *)
Theorem gate2zx_arity : forall (SR : StarRing) (PA : PhaseAlg SR) (g : qgate PA) (d : zxd PA),
  c2z_box g = ZOk d ->
  zwf d = true /\ gd_dom d = qdom g /\ gd_cod0 zbox_dom zbox_cod d = qcod g.
Proof. exact gate2zx_arity_l. Qed.
Print Assumptions gate2zx_arity.

(* circuit2zx(c) denotes eval(c) up to ONE unit, the product of the layers' factors,
   for every circuit whose controlled rotations are free of F13; eval is the model of
   Circuit.eval() of Quantum/Gates.v (C11) *)
Theorem circuit2zx_sound : forall (SR : StarRing) (PA : PhaseAlg SR) (c : qcirc PA) (d : zxd PA),
  circuit2zx c = ZOk d ->
  (forall l, In l (gd_layers c) -> f13_free (snd l)) ->
  wf_circuit (qcirc_circuit c) = true
  /\ is_unit (circ_lam (gd_layers c))
  /\ meq (gd_dom c) (qcod0 c) (zx_sem d)
         (mscale (circ_lam (gd_layers c)) (eval (qcirc_circuit c))).
Proof. exact circuit2zx_sound_l. Qed.
Print Assumptions circuit2zx_sound.

(* same number of input and output wires, for every circuit the functor accepts *)
Theorem circuit2zx_arity : forall (SR : StarRing) (PA : PhaseAlg SR) (c : qcirc PA) (d : zxd PA),
  circuit2zx c = ZOk d ->
  qwf c = true /\ zwf d = true /\ gd_dom d = gd_dom c /\ zcod d = Some (qcod0 c).
Proof. exact circuit2zx_arity_l. Qed.
Print Assumptions circuit2zx_arity.

(* the dagger of a ZX diagram denotes the conjugate transpose: every well-typed diagram
   of Z / X / Y spiders of any arities and phases, H, SWAP, scalars *)
Theorem zx_dagger_is_conj_transpose : forall (SR : StarRing) (PA : PhaseAlg SR) (d : zxd PA),
  zwf d = true ->
  zwf (zdagger d) = true /\ gd_dom (zdagger d) = gd_cod0 zbox_dom zbox_cod d
  /\ gd_cod0 zbox_dom zbox_cod (zdagger d) = gd_dom d
  /\ meq (gd_cod0 zbox_dom zbox_cod d) (gd_dom d) (zx_sem (zdagger d)) (madj (zx_sem d)).
Proof. exact zx_dagger_l. Qed.
Print Assumptions zx_dagger_is_conj_transpose.

(* "for every phase unit e of every StarRing": the instance at the phase units *)
Theorem circuit2zx_sound_every_phase_unit : forall (SR : StarRing)
    (c : qcirc (unit_phases SR)) (d : zxd (unit_phases SR)),
  circuit2zx c = ZOk d ->
  (forall l, In l (gd_layers c) -> f13_free (snd l)) ->
  wf_circuit (qcirc_circuit c) = true
  /\ is_unit (circ_lam (gd_layers c))
  /\ meq (gd_dom c) (qcod0 c) (zx_sem d)
         (mscale (circ_lam (gd_layers c)) (eval (qcirc_circuit c))).
Proof. intro SR. exact (circuit2zx_sound_l SR (unit_phases SR)). Qed.
Print Assumptions circuit2zx_sound_every_phase_unit.

(* F13, positively: the diagrams coded for CRz / CU1 with spider phase q denote the gate
   whose exp(i pi p) is exp(2 pi i q): with q = p (the code) that is CRz(2p) / CU1(2p) *)
Theorem controlled_rotations_denote_the_double_phase :
  forall (SR : StarRing) (PA : PhaseAlg SR) (q : PA),
    meq 2 2 (esem (crz_exp q)) (mscale risq2 (box_eval (BG2 (G2Rot RCRz (rmul (pE q) (pE q))))))
    /\ meq 2 2 (esem (cu1_exp q)) (mscale risq2 (box_eval (BG2 (G2Rot RCU1 (rmul (pE q) (pE q)))))).
Proof. intros SR PA q. split; [apply crz_exp_sem | apply cu1_exp_sem]. Qed.
Print Assumptions controlled_rotations_denote_the_double_phase.

(* F13, negatively: computed in Cyc32 at the generic grid phase 3/8 *)
Theorem crz_refuted : not_sound (one_box (QCRz g38)).
Proof. exact ZXWitness.crz_refuted. Qed.
Print Assumptions crz_refuted.

Theorem cu1_refuted : not_sound (one_box (QCU1 g38)).
Proof. exact ZXWitness.cu1_refuted. Qed.
Print Assumptions cu1_refuted.

Theorem crx_refuted : not_sound (one_box (QCRx g38)).
Proof. exact ZXWitness.crx_refuted. Qed.
Print Assumptions crx_refuted.

(* the property as stated, without the exclusion, fails in the faithful model *)
Theorem circuit2zx_sound_refuted :
  exists (SR : StarRing) (PA : PhaseAlg SR) (c : qcirc PA) (d : zxd PA),
    circuit2zx_at true c = ZOk d
    /\ ~ exists lam, meq (gd_dom c) (qcod0 c) (zx_sem d) (mscale lam (eval (qcirc_circuit c))).
Proof. exact ZXWitness.circuit2zx_sound_refuted. Qed.
Print Assumptions circuit2zx_sound_refuted.

(* the proposed repair is right for every phase: with q = p / 2 (exp(2 pi i q) =
   exp(i pi p)) the CRz and CU1 decompositions, and the corrected CRx one, denote the gate *)
Theorem proposed_fix_sound : forall (SR : StarRing) (PA : PhaseAlg SR) (p q : PA),
  rmul (pE q) (pE q) = pE p ->
  meq 2 2 (esem (crz_exp q)) (mscale risq2 (box_eval (qgate_box (QCRz p))))
  /\ meq 2 2 (esem (cu1_exp q)) (mscale risq2 (box_eval (qgate_box (QCU1 p))))
  /\ meq 2 2 (esem (crx_fixed_exp q)) (mscale risq2 (box_eval (qgate_box (QCRx p)))).
Proof.
  intros SR PA p q H. split; [apply fixed_crz_sound, H|].
  split; [apply fixed_cu1_sound, H | apply fixed_crx_sound, H].
Qed.
Print Assumptions proposed_fix_sound.

(* the whole translation with the proposed repair (F13 switch off): sound for every circuit
   whose controlled-rotation phases are really halved by [phalve] (always so over the reals;
   on the grid k/16: even k) *)
Theorem circuit2zx_sound_repaired : forall (SR : StarRing) (PA : PhaseAlg SR) (c : qcirc PA) (d : zxd PA),
  circuit2zx_at false c = ZOk d ->
  (forall l, In l (gd_layers c) -> f13_free_at false (snd l)) ->
  wf_circuit (qcirc_circuit c) = true
  /\ gd_dom d = gd_dom c /\ zcod d = Some (qcod0 c)
  /\ is_unit (circ_lam (gd_layers c))
  /\ meq (gd_dom c) (qcod0 c) (zx_sem d)
         (mscale (circ_lam (gd_layers c)) (eval (qcirc_circuit c))).
Proof. intros SR PA. exact (circuit2zx_sound_at_l SR PA false). Qed.
Print Assumptions circuit2zx_sound_repaired.

(* the standard interpretation used above is the textbook one: the closed forms of the X and
   Y spiders are the Z spider conjugated by Hadamards / by the change to the Y eigenbasis on
   every leg, for all arities and phases *)
Theorem x_spider_is_hadamard_conjugate : forall (SR : StarRing) n m (a : SR),
  meq n m (x_sp n m a) (mmul n (hadn n) (mmul m (z_sp n m a) (hadn m))).
Proof. exact x_sp_is_hadamard_conjugate. Qed.
Print Assumptions x_spider_is_hadamard_conjugate.

Theorem y_spider_is_basis_change : forall (SR : StarRing) n m (a : SR),
  meq n m (y_sp n m a) (mmul n (madj (ybasisn n)) (mmul m (z_sp n m a) (ybasisn m))).
Proof. exact y_sp_is_basis_change. Qed.
Print Assumptions y_spider_is_basis_change.
