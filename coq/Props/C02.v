(* C02 -- diagrams obey the strict dagger-monoidal and sum laws as equalities.
   All equalities below are Leibniz equalities of the returned values (whole
   record, layer view included), which implies the implementation's `==`
   (dom, cod, boxes, offsets; for sums: dom, cod and the ordered list of terms). *)
From Coq Require Import List ZArith Bool Permutation.
Import ListNotations.
Require Import DV.Common.Base DV.Core.Diagram DV.Core.WF DV.Core.DiagramLemmas DV.Core.Laws
  DV.Core.Sum DV.Core.SumLemmas.
Open Scope Z_scope.

Theorem then_associative : forall a b c,
  (do x <- dthen a b; dthen x c) = (do y <- dthen b c; dthen a y).
Proof. exact dthen_assoc. Qed.
Print Assumptions then_associative.

Theorem then_unit_left : forall a, wf a -> dthen (did (ddom a)) a = Ok a.
Proof. exact dthen_id_l. Qed.
Print Assumptions then_unit_left.

Theorem then_unit_right : forall a, wf a -> dthen a (did (dcod a)) = Ok a.
Proof. exact dthen_id_r. Qed.
Print Assumptions then_unit_right.

Theorem tensor_associative : forall a b c, wf a -> wf b -> wf c ->
  (do x <- dtensor a b; dtensor x c) = (do y <- dtensor b c; dtensor a y).
Proof. exact dtensor_assoc. Qed.
Print Assumptions tensor_associative.

Theorem tensor_unit_left : forall a, wf a -> dtensor (did []) a = Ok a.
Proof. exact dtensor_unit_l. Qed.
Print Assumptions tensor_unit_left.

Theorem tensor_unit_right : forall a, wf a -> dtensor a (did []) = Ok a.
Proof. exact dtensor_unit_r. Qed.
Print Assumptions tensor_unit_right.

(* a @ b == a @ Id(b.dom) >> Id(a.cod) @ b *)
Theorem tensor_is_whiskered_composite : forall a b, wf a -> wf b ->
  dtensor a b = (do x <- dtensor a (did (ddom b)); do y <- dtensor (did (dcod a)) b; dthen x y).
Proof. exact dtensor_whiskered. Qed.
Print Assumptions tensor_is_whiskered_composite.

Theorem dagger_involutive : forall d, wf d -> boxes_ok d -> ddagger (ddagger d) = d.
Proof. exact ddagger_invol. Qed.
Print Assumptions dagger_involutive.

Theorem dagger_identity_on_objects : forall d, wf d ->
  ddom (ddagger d) = dcod d /\ dcod (ddagger d) = ddom d.
Proof. exact ddagger_dom_cod. Qed.
Print Assumptions dagger_identity_on_objects.

Theorem dagger_of_identity : forall t, ddagger (did t) = did t.
Proof. exact ddagger_id. Qed.
Print Assumptions dagger_of_identity.

Theorem dagger_reverses_composition : forall a b d, dthen a b = Ok d ->
  dthen (ddagger b) (ddagger a) = Ok (ddagger d).
Proof. exact ddagger_then. Qed.
Print Assumptions dagger_reverses_composition.

(* d[:i] >> d[i:] == d at every depth *)
Theorem slicing_then_composing_gives_back : forall d i, wf d -> (i <= length (dboxes d))%nat ->
  dthen (dslice d None (Some (Z.of_nat i))) (dslice d (Some (Z.of_nat i)) None) = Ok d.
Proof. exact slice_compose. Qed.
Print Assumptions slicing_then_composing_gives_back.

Theorem box_equals_its_one_box_diagram : forall b d,
  mk (bdom b) (bcod b) [b] [0] = Ok d -> deqb d (dbox b) = true.
Proof. exact box_is_one_box_diagram. Qed.
Print Assumptions box_equals_its_one_box_diagram.

(* ---- sums ---- *)
Theorem sum_then_distributes_left : forall s t u,
  sum_wf s -> sum_wf t -> sum_wf u -> same_sig s t -> scod s = sdom u ->
  (do st <- sum_add s t; sum_then st u) =
  (do a <- sum_then s u; do b <- sum_then t u; sum_add a b).
Proof. exact sum_then_distr_l. Qed.
Print Assumptions sum_then_distributes_left.

Theorem sum_tensor_distributes_left : forall s t u,
  sum_wf s -> sum_wf t -> sum_wf u -> same_sig s t ->
  (do st <- sum_add s t; sum_tensor st u) =
  (do a <- sum_tensor s u; do b <- sum_tensor t u; sum_add a b).
Proof. exact sum_tensor_distr_l. Qed.
Print Assumptions sum_tensor_distributes_left.

(* distributivity over the RIGHT argument: exact for a diagram on the left ... *)
Theorem sum_then_distributes_right_single : forall f s t,
  wf f -> sum_wf s -> sum_wf t -> same_sig s t -> dcod f = sdom s ->
  (do st <- sum_add s t; sum_then (sum_of f) st) =
  (do a <- sum_then (sum_of f) s; do b <- sum_then (sum_of f) t; sum_add a b).
Proof. exact sum_then_distr_r_single. Qed.
Print Assumptions sum_then_distributes_right_single.

(* ... and only up to the order of terms when the left factor is itself a sum of
   two or more terms (finding F20: as `==` this instance of bilinearity fails) *)
Theorem sum_then_distributes_right_up_to_order : forall u s t,
  sum_wf u -> sum_wf s -> sum_wf t -> same_sig s t -> scod u = sdom s ->
  exists l r, (do st <- sum_add s t; sum_then u st) = Ok l /\
              (do a <- sum_then u s; do b <- sum_then u t; sum_add a b) = Ok r /\
              sdom l = sdom r /\ scod l = scod r /\ Permutation (sterms l) (sterms r).
Proof. exact sum_then_distr_r_perm. Qed.
Print Assumptions sum_then_distributes_right_up_to_order.

Theorem sum_then_distributes_right_refuted :
  exists l r, (do st <- sum_add w_s w_t; sum_then w_u st) = Ok l /\
              (do a <- sum_then w_u w_s; do b <- sum_then w_u w_t; sum_add a b) = Ok r /\
              sum_eqb l r = false.
Proof. exact sum_then_distr_r_refuted. Qed.
Print Assumptions sum_then_distributes_right_refuted.

Theorem sum_dagger_distributes : forall s t, sum_wf s -> sum_wf t -> same_sig s t ->
  (do st <- sum_add s t; sum_dagger st) =
  (do a <- sum_dagger s; do b <- sum_dagger t; sum_add a b).
Proof. exact sum_dagger_distr. Qed.
Print Assumptions sum_dagger_distributes.

Theorem empty_sum_unit_right : forall s, sum_wf s -> sum_add s (MkSum [] (sdom s) (scod s)) = Ok s.
Proof. exact sum_unit_r. Qed.
Print Assumptions empty_sum_unit_right.

Theorem empty_sum_unit_left : forall s, sum_wf s -> sum_add (MkSum [] (sdom s) (scod s)) s = Ok s.
Proof. exact sum_unit_l. Qed.
Print Assumptions empty_sum_unit_left.
