(* C20 -- the drawing layout is a faithful planar embedding of the diagram.
   Property theorems only; the model is Draw/Layout.v (drawing.diagram2nx), the
   proofs are in Draw/LayoutLemmas.v.  Every theorem holds for ALL well-formed
   diagrams (any width, any depth, boxes of any arity including scalars, states
   and effects); `wf d = true` is the arity / offset condition that
   monoidal.Diagram.__init__ enforces (non-vacuity: LayoutLemmas.ex_wf).

   Vocabulary.
     layout d              the final state of diagram2nx (positions, edges)
     layout_prefix d k     its state after the first k boxes
     open_wires d k        the scan (open wires, left to right) at height k,
                           i.e. just above box k (k = number of boxes: the bottom)
     xpos d n / ypos d n   final coordinates of node n
   Back-end rendering (matplotlib / TikZ) is runtime behaviour checked by the
   harness (smoke test), not a theorem; of diagramize only the offset recovery
   of nx2diagram is modelled (diagramize_offsets), the rest is checked by the
   harness round-trip oracle. *)
From Coq Require Import List ZArith QArith Bool Lia.
Import ListNotations.
Require Import DV.Common.Base DV.Draw.Layout DV.Draw.LayoutLemmas.
Open Scope Q_scope.

Definition xpos (d : ldiag) (n : node) : Q := getx (st_pos (layout d)) n.
Definition ypos (d : ldiag) (n : node) : Q := gety (st_pos (layout d)) n.
Definition open_wires (d : ldiag) (k : nat) : list node := st_scan (layout_prefix d k).
Definition n_boxes (d : ldiag) : nat := length (l_layers d).

(* exactly one node per input, box, box port and output -- in creation order,
   without repetition; their number *)
Theorem layout_node_counts : forall d,
  nodes_of (layout d) = expected_nodes d
  /\ NoDup (nodes_of (layout d))
  /\ length (nodes_of (layout d)) = (l_dom d + ports_count (l_layers d) + l_cod d)%nat.
Proof.
  intros d. rewrite nodes_layout.
  split; [reflexivity|split; [apply expected_nodes_NoDup|apply expected_nodes_length]].
Qed.
Print Assumptions layout_node_counts.

(* the edges are exactly the planar wiring of the diagram (LayoutLemmas.wiring:
   wire off+i above box k -> dom port i -> box k -> cod ports; open wires at the
   bottom -> outputs), and the open wires at height k are those of that wiring *)
Theorem layout_edges : forall d,
  st_edges (layout d) = expected_edges d
  /\ forall k, open_wires d k
               = snd (wiring (map NInput (seq 0 (l_dom d))) 0 (firstn k (l_layers d))).
Proof. intros d. split; [apply edges_layout|intros k; apply prefix_scan]. Qed.
Print Assumptions layout_edges.

(* while the boxes are being placed: after any number k of boxes the open wires
   are strictly increasing from left to right, with gap >= 1 *)
Theorem scan_strictly_increasing_prefix : forall d k i j, wf d = true ->
  (i < j)%nat -> (j < length (open_wires d k))%nat ->
  getx (st_pos (layout_prefix d k)) (scan_at (open_wires d k) i) + 1
  <= getx (st_pos (layout_prefix d k)) (scan_at (open_wires d k) j).
Proof. intros d k i j H Hij Hj. apply (scan_gap_prefix d k H); assumption. Qed.
Print Assumptions scan_strictly_increasing_prefix.

(* in the final layout: at EVERY height k the open wires are strictly increasing
   from left to right, with gap >= 1 (later shifts never shrink a distance) *)
Theorem scan_strictly_increasing : forall d k i j, wf d = true ->
  (i < j)%nat -> (j < length (open_wires d k))%nat ->
  xpos d (scan_at (open_wires d k) i) + 1 <= xpos d (scan_at (open_wires d k) j).
Proof. intros d k i j H Hij Hj. apply (scan_gap_final d k H); assumption. Qed.
Print Assumptions scan_strictly_increasing.

(* wires between boxes are vertical: the dom port i of box k is exactly below the
   open wire off+i it continues, and every output is exactly below the open
   wire it continues *)
Theorem wires_vertical : forall d, wf d = true ->
  (forall k nd nc off i, (k < n_boxes d)%nat -> layer_at d k = ((nd, nc), off) -> (i < nd)%nat ->
     xpos d (NDom k i) == xpos d (scan_at (open_wires d k) (off + i)))
  /\ (forall i, (i < l_cod d)%nat ->
     xpos d (NOutput i) == xpos d (scan_at (open_wires d (n_boxes d)) i)).
Proof.
  intros d H. split.
  - intros k nd nc off i Hk Hl Hi.
    destruct (box_ok_final d k nd nc off H Hk Hl) as [_ BO]. apply (bo_dom _ _ _ _ _ _ BO), Hi.
  - intros i Hi. apply (outputs_final d i H Hi).
Qed.
Print Assumptions wires_vertical.

(* every edge joins two nodes of the graph and points downwards *)
Theorem edges_downward : forall d a b, wf d = true ->
  In (a, b) (st_edges (layout d)) ->
  In a (nodes_of (layout d)) /\ In b (nodes_of (layout d)) /\ ypos d b < ypos d a.
Proof. intros d a b H Hab. apply edges_downward_final; assumption. Qed.
Print Assumptions edges_downward.

(* every box, and every one of its cod ports, is at distance >= 1 from the wires
   that are open at its height on its left (positions < off) and on its right
   (positions >= off + len(dom)): no box overlaps a wire *)
Theorem box_between_neighbours : forall d k nd nc off, wf d = true ->
  (k < n_boxes d)%nat -> layer_at d k = ((nd, nc), off) ->
  (forall i, (i < off)%nat ->
     xpos d (scan_at (open_wires d k) i) + 1 <= xpos d (NBox k))
  /\ (forall j, (off + nd <= j)%nat -> (j < length (open_wires d k))%nat ->
     xpos d (NBox k) + 1 <= xpos d (scan_at (open_wires d k) j))
  /\ (forall i c, (i < off)%nat -> (c < nc)%nat ->
     xpos d (scan_at (open_wires d k) i) + 1 <= xpos d (NCod k c))
  /\ (forall j c, (off + nd <= j)%nat -> (j < length (open_wires d k))%nat -> (c < nc)%nat ->
     xpos d (NCod k c) + 1 <= xpos d (scan_at (open_wires d k) j)).
Proof.
  intros d k nd nc off H Hk Hl.
  destruct (box_ok_final d k nd nc off H Hk Hl) as [_ [BL BR _ BCL BCR _]].
  split; [exact BL|split; [exact BR|split; [exact BCL|exact BCR]]].
Qed.
Print Assumptions box_between_neighbours.

(* diagram2nx cannot fail on a well-formed diagram: every scan[off + i] is in
   range, every open wire has a position, and len(scan) = len(cod) at the end *)
Theorem layout_total : forall d, wf d = true ->
  run_layout d = Ok (layout d)
  /\ length (open_wires d (n_boxes d)) = l_cod d
  /\ forall k nd nc off, (k < n_boxes d)%nat -> layer_at d k = ((nd, nc), off) ->
       (off + nd <= length (open_wires d k))%nat
       /\ forall i, (i < length (open_wires d k))%nat ->
            In (scan_at (open_wires d k) i) (map fst (st_pos (layout_prefix d k))).
Proof.
  intros d H. split; [apply run_layout_ok, H|split; [apply final_scan_length, H|]].
  intros k nd nc off Hk Hl. apply (indices_in_range d k nd nc off H Hk Hl).
Qed.
Print Assumptions layout_total.

(* diagramize / nx2diagram: from the graph of a well-formed diagram (the graph
   diagramize builds when the function body uses its wires in planar order),
   nx2diagram reads back exactly the offsets of that diagram: the diagram
   returned has the wiring the body describes *)
Theorem diagramize_offsets : forall d, wf d = true -> nx2offsets d = l_offs d.
Proof. exact nx2offsets_correct. Qed.
Print Assumptions diagramize_offsets.
