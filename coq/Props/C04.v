(* C04 -- functors are functorial.  Model: Core/Functor.v (monoidal.Functor and
   rigid.Functor application into the free category, object and box maps as finite
   tables).  `defined_on Fn d` : the object map covers dom d and every box of d has
   a well-typed image between the images of its types.  Proofs: Core/FunctorLemmas.v. *)
From Coq Require Import List ZArith Bool.
Import ListNotations.
Require Import DV.Common.Base DV.Core.Diagram DV.Core.WF DV.Core.Rigid DV.Core.Functor
  DV.Core.FunctorLemmas DV.Core.FunctorDagger DV.Core.ProgLemmas.
Open Scope Z_scope.

(* images are well-typed, from F(dom) to F(cod) *)
Theorem functor_image_typed : forall Fn d, wf d -> defined_on Fn d ->
  exists d' fd fc, f_apply Fn d = Ok d' /\ wf d' /\ f_ty Fn (ddom d) = Ok fd /\ f_ty Fn (dcod d) = Ok fc /\
    ddom d' = fd /\ dcod d' = fc.
Proof. exact functor_dom_cod. Qed.
Print Assumptions functor_image_typed.

Theorem functor_image_well_typed : forall Fn d d', ar_wf (far Fn) -> f_apply Fn d = Ok d' -> wf d'.
Proof. exact f_apply_wf. Qed.
Print Assumptions functor_image_well_typed.

Theorem functor_preserves_identities : forall Fn t ft, f_ty Fn t = Ok ft ->
  f_apply Fn (did t) = Ok (did ft).
Proof. exact functor_id. Qed.
Print Assumptions functor_preserves_identities.

(* F(a >> b) == F(a) >> F(b), as values *)
Theorem functor_preserves_composition : forall Fn a b ab,
  wf a -> wf b -> defined_on Fn a -> defined_on Fn b -> dthen a b = Ok ab ->
  f_apply Fn ab = (do fa <- f_apply Fn a; do fb <- f_apply Fn b; dthen fa fb).
Proof. exact functor_then. Qed.
Print Assumptions functor_preserves_composition.

(* F(a @ b) == F(a) @ F(b), as values *)
Theorem functor_preserves_tensor : forall Fn a b,
  wf a -> wf b -> defined_on Fn a -> defined_on Fn b ->
  (do ab <- dtensor a b; f_apply Fn ab) =
  (do fa <- f_apply Fn a; do fb <- f_apply Fn b; dtensor fa fb).
Proof. exact functor_tensor. Qed.
Print Assumptions functor_preserves_tensor.

(* object map: monoid homomorphism, and adjoints go to adjoints (rigid functors) *)
Theorem functor_on_types_is_monoid_hom : forall Fn a b ta tb,
  f_ty Fn a = Ok ta -> f_ty Fn b = Ok tb -> f_ty Fn (a ++ b) = Ok (ta ++ tb).
Proof. exact f_ty_app. Qed.
Print Assumptions functor_on_types_is_monoid_hom.

Theorem functor_preserves_left_adjoints : forall Fn t ft, f_ty Fn t = Ok ft ->
  f_ty Fn (ty_l t) = Ok (ty_l ft).
Proof. exact f_ty_l. Qed.
Print Assumptions functor_preserves_left_adjoints.

Theorem functor_preserves_right_adjoints : forall Fn t ft, f_ty Fn t = Ok ft ->
  f_ty Fn (ty_r t) = Ok (ty_r ft).
Proof. exact f_ty_r. Qed.
Print Assumptions functor_preserves_right_adjoints.

(* the dagger law F(d[::-1]) == F(d)[::-1], as an equality of values, for diagrams whose
   boxes are plain (possibly daggered) boxes with well-typed images made of library-shaped
   boxes.  For diagrams containing composite swaps the law is false as == (finding F19;
   harness witness), so the unrestricted statement is kept as a Definition, not asserted. *)
Theorem functor_preserves_dagger_of_plain_boxes : forall Fn d,
  wf d -> defined_on Fn d -> Forall (plain_ok Fn) (dboxes d) ->
  f_apply Fn (ddagger d) = (do fd <- f_apply Fn d; Ok (ddagger fd)).
Proof. exact functor_dagger_plain. Qed.
Print Assumptions functor_preserves_dagger_of_plain_boxes.

Definition functor_dagger_stmt : Prop := forall Fn d, wf d -> defined_on Fn d ->
  f_apply Fn (ddagger d) = (do fd <- f_apply Fn d; Ok (ddagger fd)).
