(* C05 -- interchange moves exactly one box past a disconnected neighbour.
   Property theorems only; proofs in Core/RewritingLemmas.v and Sem/MonoidalLemmas.v. *)
From Coq Require Import List ZArith Bool.
Import ListNotations.
Require Import DV.Common.Base DV.Core.Diagram DV.Core.WF DV.Core.Rewriting DV.Core.RewritingLemmas
  DV.Sem.Monoidal DV.Sem.MonoidalLemmas DV.Sem.Instances.
Open Scope Z_scope.

(* interchange(i, j): well-typed result with the same domain and codomain *)
Theorem interchange_keeps_boundary : forall d i j left d', wf d ->
  interchange d i j left = Ok d' -> wf d' /\ ddom d' = ddom d /\ dcod d' = dcod d.
Proof. exact interchange_wf. Qed.
Print Assumptions interchange_keeps_boundary.

(* one adjacent exchange: the two boxes trade places, every other box and offset is
   untouched, and exactly one of the two offsets changes -- by the arity
   difference of the other box (horizontal attachment is preserved) *)
Theorem adjacent_exchange_spec : forall d i left d', wf d -> interchange_adj d i left = Ok d' ->
  wf d' /\ ddom d' = ddom d /\ dcod d' = dcod d /\
  exists b0 b1 o0 o1 o0' o1',
    nth_error (dboxes d) i = Some b0 /\ nth_error (dboxes d) (S i) = Some b1 /\
    nth_error (doffs d) i = Some o0 /\ nth_error (doffs d) (S i) = Some o1 /\
    dboxes d' = firstn i (dboxes d) ++ [b1; b0] ++ skipn (2 + i) (dboxes d) /\
    doffs d' = firstn i (doffs d) ++ [o1'; o0'] ++ skipn (2 + i) (doffs d) /\
    ((o0 + len (bcod b0) <= o1 /\ o0' = o0 /\ o1' = o1 - len (bcod b0) + len (bdom b0)) \/
     (o1 + len (bdom b1) <= o0 /\ o1' = o1 /\ o0' = o0 - len (bdom b1) + len (bcod b1))).
Proof. exact interchange_adj_spec. Qed.
Print Assumptions adjacent_exchange_spec.

(* moving box i up past n boxes: it ends n places later, the boxes it passed keep
   their relative order, all others stay *)
Theorem interchange_moves_exactly_one_box : forall d i n left d' x, wf d ->
  interchange_up d i n left = Ok d' ->
  nth_error (dboxes d) i = Some x -> (i + n < length (dboxes d))%nat ->
  dboxes d' = firstn i (dboxes d) ++ firstn n (skipn (S i) (dboxes d)) ++ [x] ++ skipn (S i + n) (dboxes d).
Proof. exact interchange_up_moves_box. Qed.
Print Assumptions interchange_moves_exactly_one_box.

(* the result denotes the same morphism under every monoidal functor: in every
   strict monoidal category and for every type-respecting interpretation of boxes *)
Theorem interchange_preserves_denotation :
  forall (Mod : monoidal_model) (F : box -> M Mod) d i j left d',
  respects_types Mod F -> wf d -> interchange d i j left = Ok d' ->
  interp Mod F d' = interp Mod F d.
Proof. exact interchange_interp. Qed.
Print Assumptions interchange_preserves_denotation.

(* refusal, adjacent case: InterchangerError exactly when the two boxes share a wire
   (neither is entirely to one side of the other where they meet); never any other error *)
Theorem adjacent_exchange_refused_iff_wired : forall d i left, wf d -> (S i < length (dboxes d))%nat ->
  match interchange_adj d i left with
  | Ok _ => disjoint_at d i
  | Err e => e = InterchangerError /\ ~ disjoint_at d i
  end.
Proof. exact interchange_adj_total. Qed.
Print Assumptions adjacent_exchange_refused_iff_wired.

(* refusal, general case: a move is refused iff at some step the moving box meets a
   box it shares a wire with; a successful move only passed disjoint boxes *)
Theorem move_refused_only_when_wired_on_the_way : forall n d i left e, wf d ->
  (i + n < length (dboxes d))%nat -> interchange_up d i n left = Err e ->
  e = InterchangerError /\
  exists k dk, (k < n)%nat /\ interchange_up d i k left = Ok dk /\ ~ disjoint_at dk (i + k).
Proof. exact interchange_up_error. Qed.
Print Assumptions move_refused_only_when_wired_on_the_way.

Theorem move_succeeds_only_past_disjoint_boxes : forall n d i left d', wf d ->
  interchange_up d i n left = Ok d' ->
  forall k, (k < n)%nat -> exists dk, interchange_up d i k left = Ok dk /\ disjoint_at dk (i + k).
Proof. exact interchange_up_ok_disjoint. Qed.
Print Assumptions move_succeeds_only_past_disjoint_boxes.

Theorem out_of_range_indices_refused : forall d i j left,
  ~ (0 <= i < len (dboxes d) /\ 0 <= j < len (dboxes d)) -> interchange d i j left = Err IndexError.
Proof. exact interchange_out_of_range. Qed.
Print Assumptions out_of_range_indices_refused.

(* the model axioms are satisfiable *)
Theorem monoidal_models_exist : respects_types counting_model counting_F.
Proof. exact counting_respects. Qed.
Print Assumptions monoidal_models_exist.

(* Reading of "wired": the two theorems above characterise refusal through `disjoint_at`
   at the step where the moving box meets the next box (its output wires and the other box's
   input wires overlap, or a box without wires on that side sits strictly inside the other
   one's span - a planar obstruction).  For boxes that both have wires at that level this
   is exactly "the next box consumes a wire produced by the moving box"; the harness oracle
   (struct_oracles.adjacent_conflict) decides it from wire identities independently of the
   offsets arithmetic.  A characterisation purely in terms of the wire graph of the ORIGINAL
   diagram (Core/Normal.v: linked) is not stated as a theorem: it is false for zero-width
   boxes (an effect between two wires blocks a box that needs those wires adjacent although
   they share no wire). *)
