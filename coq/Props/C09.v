(* C09 -- evaluating a diagram computes its compositional meaning.
   Property theorems only; the proofs are in TFun/TFunLemmas.v.

   functor_call_compositional is the full statement (functor_call_compositional_stmt):
   boxes anywhere, daggered boxes, Swaps, Cups, Caps, scalars, object images of
   any length including the empty one. *)
From Coq Require Import List ZArith Bool Arith.
Import ListNotations.
Require Import DV.Common.Base DV.Core.Diagram DV.Core.WF DV.Core.Prog
  DV.Tensor.NumpyModel DV.Tensor.Tensor DV.Tensor.TensorLemmas DV.Core.Rewriting DV.Core.Rigid DV.Sem.Monoidal DV.TFun.TFun DV.TFun.TFunLemmas DV.TFun.TFunGeneral DV.TFun.TFunMonoidal.
Open Scope nat_scope.

(* the single-pass loop of tensor.Functor.__call__ computes
   id(F dom) >> [id(F left) (x) F(box) (x) id(F right)]_layers *)
Theorem functor_call_compositional : forall F d, wf d -> interp_ok F d = true ->
  exists T, functor_call F d = FOk T /\ meaning F d = FOk T /\ tensor_ok T = true.
Proof. exact functor_call_compositional_full. Qed.
Print Assumptions functor_call_compositional.

(* well-formed tensors are a strict monoidal category (instance tensor_model of
   Sem.monoidal_model), the evaluation is the abstract denotation in it ... *)
Theorem functor_call_is_interp : forall F d, wf d -> interp_ok F d = true ->
  functor_call F d = FOk (val (interp (tensor_model (om_of F)) (Fb F) d)).
Proof. exact functor_call_interp. Qed.
Print Assumptions functor_call_is_interp.

(* ... hence invariant under interchange and normalisation (C05 / C06 theorems
   interchange_interp, normal_form_interp instantiated at tensor_model) *)
Theorem eval_interchange_invariant : forall F d i j left d',
  wf d -> interp_ok F d = true -> interchange d i j left = Ok d' ->
  functor_call F d' = functor_call F d.
Proof. exact eval_interchange_invariant_closed. Qed.
Print Assumptions eval_interchange_invariant.

Theorem eval_normal_form_invariant : forall F d fuel left d',
  wf d -> interp_ok F d = true -> normal_form fuel d left = Ok d' ->
  functor_call F d' = functor_call F d.
Proof. exact eval_normal_form_invariant_closed. Qed.

(* rewriting stays inside the interpretation (why the two theorems above need
   their hypothesis on d only) *)
Theorem interchange_keeps_interp_ok : forall F d i left d',
  wf d -> interp_ok F d = true -> interchange_adj d i left = Ok d' -> interp_ok F d' = true.
Proof. exact interchange_adj_interp_ok. Qed.
Print Assumptions interchange_keeps_interp_ok.
Print Assumptions eval_normal_form_invariant.

(* the first version of the theorem (boxes on the rightmost wires), kept as a regression *)
Theorem functor_call_compositional_partial : forall F d, wf d -> ra_ok F d = true ->
  exists T, functor_call F d = FOk T /\ meaning F d = FOk T /\ tensor_ok T = true.
Proof. exact functor_call_compositional_ra. Qed.
Print Assumptions functor_call_compositional_partial.

(* the contraction identity behind the loop:
   sum_k A(i, jl ++ k) * B(k, m) = (A ; (1 (x) B))(i, jl ++ m) *)
Theorem contraction_step : forall T TB A D Sl K Q, D <> [] -> K ++ Q <> [] ->
  tok T -> tdom T = D -> tcod T = Sl ++ K -> shape A = D ++ Sl ++ K -> data A = data (tarr T) ->
  tok TB -> tdom TB = K -> tcod TB = Q ->
  exists x T',
    tensordot_axes A (tarr TB) (seq (length D + length Sl) (length K)) (seq 0 (length K)) = Ok x /\
    moveaxis x (seq (ndim x - length Q) (length Q)) (seq (length D + length Sl) (length Q)) = Ok x /\
    (do w <- whisker_of Sl [] TB; tthen T w) = Ok T' /\
    tok T' /\ tdom T' = D /\ tcod T' = Sl ++ Q /\ shape x = D ++ Sl ++ Q /\ data x = data (tarr T').
Proof. exact ra_step. Qed.
Print Assumptions contraction_step.

Theorem eval_eq_identity_functor : forall f P dom cod bs offs d,
  p_eval P = true ->
  nth_error (p_terms P) (p_main P) = Some (TmDiag dom cod bs offs) ->
  mk dom cod bs offs = Ok d ->
  eval_term (S f) P (p_main P) = functor_call (prog_interp f P) d /\
  forall n, fob (prog_interp f P) n = FOk [n].
Proof. exact eval_is_identity_functor. Qed.
Print Assumptions eval_eq_identity_functor.

Theorem functor_dagger : forall F b t,
  bk b = KBox -> bdag b = true ->
  plain_image F (box_dagger b) = FOk t -> tensor_ok t = true ->
  exists c, box_image F b = FOk c /\ tensor_ok c = true /\ tdom c = tcod t /\ tcod c = tdom t /\
    forall i j, in_shapeb i (tdom t) = true -> in_shapeb j (tcod t) = true ->
      entry c j i = cconj (entry t i j).
Proof. exact functor_dagger_box. Qed.
Print Assumptions functor_dagger.

Theorem functor_sum : forall a b, tensor_ok a = true -> tensor_ok b = true ->
  tdom a = tdom b -> tcod a = tcod b ->
  exists c, tadd a b = Ok c /\ tensor_ok c = true /\ tdom c = tdom a /\ tcod c = tcod a /\
    forall i j, entry c i j = cadd (entry a i j) (entry b i j).
Proof. exact tadd_spec. Qed.
Print Assumptions functor_sum.

(* the Sum branch: sum(map(self, terms), Tensor.zeros(dom, cod)) *)
Theorem functor_sum_branch : forall ts z, tensor_ok z = true ->
  Forall (fun t => tensor_ok t = true /\ tdom t = tdom z /\ tcod t = tcod z) ts ->
  exists c, tsum z (map FOk ts) = FOk c /\ tensor_ok c = true /\ tdom c = tdom z /\ tcod c = tcod z /\
    forall i j, entry c i j = cadd (entry z i j) (csum (map (fun t => entry t i j) ts)).
Proof. exact tsum_spec. Qed.
Print Assumptions functor_sum_branch.

(* the Bubble branch: Tensor.map applies func to every entry *)
Theorem functor_bubble : forall g t, tensor_ok t = true ->
  exists c, tmap g t = Ok c /\ tensor_ok c = true /\ tdom c = tdom t /\ tcod c = tcod t /\
    forall i j, in_shapeb i (tdom t) = true -> in_shapeb j (tcod t) = true ->
      entry c i j = g (entry t i j).
Proof. exact functor_bubble_b. Qed.
Print Assumptions functor_bubble.

(* F5 repaired (commit 413701f): the object map is rigid, F(x.r) = F(x).r and
   F(x.l) = F(x).l on types (the adjoint of a Dim is its reversal) *)
Theorem functor_adjoint_r : forall F t s, F_ty F t = FOk s -> F_ty F (ty_r t) = FOk (rev s).
Proof. exact TFunLemmas.functor_adjoint_r. Qed.
Print Assumptions functor_adjoint_r.

Theorem functor_adjoint_l : forall F t s, F_ty F t = FOk s -> F_ty F (ty_l t) = FOk (rev s).
Proof. exact TFunLemmas.functor_adjoint_l. Qed.
Print Assumptions functor_adjoint_l.

(* Tensor.cups / caps of any Dim with its adjoint exist and have the right type *)
Theorem cups_caps_of_adjoints : forall l,
  (exists c, tcups l (rev l) = Ok c /\ tok c /\ tdom c = l ++ rev l /\ tcod c = []) /\
  (exists c, tcaps l (rev l) = Ok c /\ tok c /\ tdom c = [] /\ tcod c = l ++ rev l).
Proof. intros l. split; [apply tcups_adjoint_shape|apply tcaps_adjoint_shape]. Qed.
Print Assumptions cups_caps_of_adjoints.

(* hence Cup(x, y) / Cap(x, y) with F y = (F x).r meet interp_ok's condition on a
   box, for every image of x: empty, single, composite, palindromic or not *)
Theorem cup_cap_interp_ok : forall F x y d, obj_to_dim F x = FOk d -> obj_to_dim F y = FOk (rev d) ->
  box_ok F (Box KCup (-2) [x; y] [] false None) = true /\
  box_ok F (Box KCap (-3) [] [x; y] false None) = true.
Proof. exact cup_cap_box_ok. Qed.
Print Assumptions cup_cap_interp_ok.
