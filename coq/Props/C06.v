(* C06 -- monoidal normal form: sound, idempotent; canonicity is PARTIAL.
   Proofs in Core/RewritingLemmas.v, Core/NormalLemmas.v, Sem/MonoidalLemmas.v. *)
From Coq Require Import List ZArith Bool.
Import ListNotations.
Require Import DV.Common.Base DV.Core.Diagram DV.Core.WF DV.Core.Rewriting DV.Core.RewritingLemmas
  DV.Core.Normal DV.Core.NormalLemmas DV.Sem.Monoidal DV.Sem.MonoidalLemmas.
Open Scope Z_scope.

(* every diagram yielded by normalize is well-typed with the input's boundary *)
Theorem normalize_steps_well_typed : forall fuel d left tr, wf d -> normalize fuel d left = Ok tr ->
  Forall (fun x => wf x /\ ddom x = ddom d /\ dcod x = dcod d) tr.
Proof. exact normalize_wf. Qed.
Print Assumptions normalize_steps_well_typed.

(* every yielded step is a legal single interchange of the previous diagram: the
   trace is a path of successful adjacent exchanges starting at the input *)
Theorem normalize_steps_are_legal_interchanges : forall fuel d left tr, wf d ->
  normalize fuel d left = Ok tr -> legal_path d tr left.
Proof. exact normalize_legal. Qed.
Print Assumptions normalize_steps_are_legal_interchanges.

(* ... hence has the same boxes up to order *)
Theorem normalize_steps_permute_boxes : forall fuel d left tr, wf d ->
  normalize fuel d left = Ok tr -> Forall (fun x => Permutation.Permutation (dboxes d) (dboxes x)) tr.
Proof. exact normalize_perm. Qed.
Print Assumptions normalize_steps_permute_boxes.

(* same denotation under every monoidal functor, for every step and for the result *)
Theorem normalize_preserves_denotation :
  forall (Mod : monoidal_model) (F : box -> M Mod) fuel d left tr,
  respects_types Mod F -> wf d -> normalize fuel d left = Ok tr ->
  Forall (fun x => interp Mod F x = interp Mod F d) tr.
Proof. exact normalize_interp. Qed.
Print Assumptions normalize_preserves_denotation.

Theorem normal_form_preserves_denotation :
  forall (Mod : monoidal_model) (F : box -> M Mod) fuel d left d',
  respects_types Mod F -> wf d -> normal_form fuel d left = Ok d' ->
  interp Mod F d' = interp Mod F d.
Proof. exact normal_form_interp. Qed.
Print Assumptions normal_form_preserves_denotation.

Theorem normal_form_well_typed : forall fuel d left d', wf d -> normal_form fuel d left = Ok d' ->
  wf d' /\ ddom d' = ddom d /\ dcod d' = dcod d.
Proof. exact normal_form_wf. Qed.
Print Assumptions normal_form_well_typed.

(* the result admits no further move, and is a fixed point of normal_form *)
Theorem normal_form_is_normal : forall fuel d left d', normal_form fuel d left = Ok d' ->
  is_normal d' left.
Proof. exact normal_form_normal. Qed.
Print Assumptions normal_form_is_normal.

Theorem normal_form_fixed_point : forall fuel fuel' d left d', normal_form fuel d left = Ok d' ->
  (0 < fuel')%nat -> normal_form fuel' d' left = Ok d'.
Proof. exact normal_form_idem. Qed.
Print Assumptions normal_form_fixed_point.

(* NotImplementedError is raised only when a yielded diagram repeats *)
Theorem not_implemented_only_on_repeat : forall fuel d left, 
  normal_form fuel d left = Err NotImplementedError -> exists tr, repeats_within d left tr.
Proof. exact nf_not_implemented_repeat. Qed.
Print Assumptions not_implemented_only_on_repeat.

(* the result, and every yielded step, lies in the input's interchanger-equivalence
   class ("reachable from the input by interchanges alone") *)
Theorem normal_form_in_input_class : forall fuel d left d', normal_form fuel d left = Ok d' ->
  interchanger_equiv d d'.
Proof. exact normal_form_equiv. Qed.
Print Assumptions normal_form_in_input_class.

Theorem normalize_steps_in_input_class : forall fuel d left tr, wf d ->
  normalize fuel d left = Ok tr -> Forall (interchanger_equiv d) tr.
Proof. exact normalize_equiv. Qed.
Print Assumptions normalize_steps_in_input_class.

(* reduction of canonicity: it follows from uniqueness of normal diagrams inside the
   input's class (the confluence statement that is NOT proved here) *)
Theorem canonicity_reduces_to_unique_normal_in_class : forall d d' left fuel fuel' n n',
  (forall a b, interchanger_equiv d a -> interchanger_equiv d b ->
     is_normal a left -> is_normal b left -> a = b) ->
  interchanger_equiv d d' ->
  normal_form fuel d left = Ok n -> normal_form fuel' d' left = Ok n' -> n = n'.
Proof. exact normal_form_canonical_if_unique_normal. Qed.
Print Assumptions canonicity_reduces_to_unique_normal_in_class.

(* ---- PARTIAL: the statements below are NOT asserted (no confluence / termination
   proof of the interchanger rewriting system, arXiv:1804.07832, in this development).
   The check stands in for them with an exhaustive search of interchanger classes. *)
Definition normal_form_canonical_stmt : Prop := forall d d' left fuel fuel' n n',
  wf d -> connected d -> interchanger_equiv d d' ->
  normal_form fuel d left = Ok n -> normal_form fuel' d' left = Ok n' -> n = n'.
Definition normalize_terminates_on_connected_stmt : Prop := forall d left,
  wf d -> connected d -> exists fuel tr, normalize fuel d left = Ok tr.
