(* C19 -- cartesian diagrams compute the function they draw.
   Property theorems only; proofs are in Cart/CartesianLemmas.v.

   Vocabulary (Cart/Cartesian.v, Cart/CartesianLemmas.v):
     dcall d vals     Diagram.__call__ through PythonFunctor, as cartesian.py does it
     vcall v vals     the same for a Python object that may be a bare Box instance
     dsem d vals      sequential splice: fold over (box, offset), box applied to
                      state[off : off + |dom|], its outputs spliced back in place
     seq_eval         dsem with Function.__call__'s per-layer length check
     wf_diagram d     what monoidal.Diagram.__init__ establishes (offsets in range)
     honest_box b     b has a function whose results have the declared length
     total_box b      b's function returns on every input of the declared length
     good d           wf_diagram d = true /\ every box of d is honest
   Box functions are arbitrary Gallina functions list Z -> res pyval. *)
From Coq Require Import List ZArith Bool.
Import ListNotations.
Require Import DV.Common.Base DV.Cart.Cartesian DV.Cart.CartesianLemmas.
Open Scope Z_scope.

(* the result of calling a diagram = folding over (box, offset): apply the box
   to wires[off : off + |dom|], splice the outputs back; wrong input count is
   refused with TypeError; boxes of any arity including 0 inputs / 0 outputs *)
Theorem call_is_sequential_splice : forall d vals,
  wf_diagram d = true -> honest d ->
  dcall d vals =
    if Nat.eqb (length vals) (ddom d)
    then res_map untuplify (dsem d vals)
    else Err TypeError.
Proof. exact call_is_sequential_splice_lemma. Qed.
Print Assumptions call_is_sequential_splice.

(* the same for arbitrary (also dishonest) box functions, with the per-layer
   length check of Function.__call__ *)
Theorem call_is_sequential_splice_checked : forall d vals,
  wf_diagram d = true -> has_funs (dlayers d) = true ->
  dcall d vals =
    if Nat.eqb (length vals) (ddom d)
    then do out <- seq_eval (ddom d) (dlayers d) vals; Ok (untuplify out)
    else Err TypeError.
Proof. exact call_checked. Qed.
Print Assumptions call_is_sequential_splice_checked.

(* a box without a function: AttributeError whatever the inputs *)
Theorem call_without_function : forall d vals,
  wf_diagram d = true -> has_funs (dlayers d) = false ->
  dcall d vals = Err AttributeError.
Proof. exact call_nofun. Qed.
Print Assumptions call_without_function.

(* a bare Box object called directly: its raw function; equal to the splice
   semantics up to the 1-tuple convention *)
Theorem box_call : forall b vals,
  honest_box b ->
  vcall (VBox b) vals = (if Nat.eqb (length vals) (bdom b) then bapp b vals else Err TypeError)
  /\ (length vals = bdom b -> res_map tuplify (vcall (VBox b) vals) = dsem (dbox b) vals).
Proof. exact box_call_lemma. Qed.
Print Assumptions box_call.

(* Swap(l, r), Copy(n), Discard(n) act on their inputs as a whole, every width *)
Theorem swap_call : forall l r xs ys, length xs = l -> length ys = r ->
  exists d, dswap l r = Ok d /\ dcall d (xs ++ ys) = Ok (untuplify (ys ++ xs)).
Proof. exact swap_call_lemma. Qed.
Print Assumptions swap_call.

Theorem copy_call : forall n xs, length xs = n ->
  exists d, dcopy n = Ok d /\ dcall d xs = Ok (untuplify (xs ++ xs)).
Proof. exact copy_call_lemma. Qed.
Print Assumptions copy_call.

Theorem discard_call : forall n xs, length xs = n -> dcall (ddiscard n) xs = Ok (Tup []).
Proof. exact discard_call_lemma. Qed.
Print Assumptions discard_call.

(* the cartesian axioms, on all inputs (also of the wrong length: both sides refuse) *)
Theorem swap_natural : forall f g vals,
  good f -> good g -> total f -> total g ->
  exists sw1 sw2 lhs rhs,
    dswap (dcod f) (dcod g) = Ok sw1 /\ dswap (ddom f) (ddom g) = Ok sw2 /\
    dthen (dtensor f g) sw1 = Ok lhs /\ dthen sw2 (dtensor g f) = Ok rhs /\
    dcall lhs vals = dcall rhs vals /\
    (length vals = (ddom f + ddom g)%nat -> exists r, dcall lhs vals = Ok r).
Proof. exact swap_natural_lemma. Qed.
Print Assumptions swap_natural.

Theorem copy_natural : forall f vals,
  good f ->
  exists cp1 cp2 lhs rhs,
    dcopy (dcod f) = Ok cp1 /\ dcopy (ddom f) = Ok cp2 /\
    dthen f cp1 = Ok lhs /\ dthen cp2 (dtensor f f) = Ok rhs /\
    dcall lhs vals = dcall rhs vals /\
    (length vals = ddom f -> forall out, dsem f vals = Ok out ->
       dcall lhs vals = Ok (untuplify (out ++ out))).
Proof. exact copy_natural_lemma. Qed.
Print Assumptions copy_natural.

Theorem discard_natural : forall f vals,
  good f -> total f ->
  exists lhs, dthen f (ddiscard (dcod f)) = Ok lhs /\
    dcall lhs vals = dcall (ddiscard (ddom f)) vals /\
    (length vals = ddom f -> dcall lhs vals = Ok (Tup [])).
Proof. exact discard_natural_lemma. Qed.
Print Assumptions discard_natural.

(* the hypotheses are what real values satisfy: every diagram the public API
   builds from the honest library boxes is well-typed and honest *)
Theorem api_diagrams_are_good : forall p v,
  prog_honest p = true -> run_dprog p = Ok v -> good (as_diagram v).
Proof. exact run_dprog_good. Qed.
Print Assumptions api_diagrams_are_good.
