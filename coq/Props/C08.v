(* C08 -- tensors form a dagger compact-closed category of matrices.
   Property theorems only; proofs are in Tensor/NumpyLemmas.v,
   Tensor/TensorLemmas.v and Tensor/TensorSnakes.v.  `entry t i j` is the matrix entry at multi-indices
   (i in dom, j in cod); `mat t r c` is the entry of the flattened matrix
   t.array.reshape(prod(dom), prod(cod)).  All statements hold for every
   dimension list (empty, Dim(1)-normalised, repeated, unequal) and every array
   of Gaussian integers of matching size. *)
From Coq Require Import List ZArith Bool Arith.
Import ListNotations.
Require Import DV.Common.Base DV.Tensor.NumpyModel DV.Tensor.Tensor DV.Tensor.TensorLemmas
  DV.Tensor.TensorSnakes.
Open Scope nat_scope.

(* composition is the matrix product (multi-index and flattened form) *)
Theorem then_is_matmul : then_is_matmul_stmt.
Proof. exact then_is_matmul_b. Qed.
Print Assumptions then_is_matmul.

Theorem then_refuses : forall a b, tcod a <> tdom b -> tthen a b = Err AxiomError.
Proof. exact then_refuses_b. Qed.
Print Assumptions then_refuses.

(* tensor is the Kronecker product *)
Theorem tensor_is_kron : tensor_is_kron_stmt.
Proof. exact tensor_is_kron_b. Qed.
Print Assumptions tensor_is_kron.

(* dagger is the conjugate transpose, and an involution *)
Theorem dagger_is_conj_transpose : dagger_is_conj_transpose_stmt.
Proof. exact dagger_is_conj_transpose_b. Qed.
Print Assumptions dagger_is_conj_transpose.

Theorem dagger_involutive : forall a, tensor_ok a = true ->
  (do b <- tdagger a; tdagger b) = Ok a.
Proof. exact dagger_involutive_b. Qed.
Print Assumptions dagger_involutive.

(* identities are identity matrices *)
Theorem id_is_identity_matrix : id_is_identity_matrix_stmt.
Proof. exact id_is_identity_matrix_b. Qed.
Print Assumptions id_is_identity_matrix.

(* swaps are the permutation matrices exchanging the two blocks of wires *)
Theorem swap_is_block_permutation : swap_is_block_permutation_stmt.
Proof. exact swap_is_block_permutation_b. Qed.
Print Assumptions swap_is_block_permutation.

(* interchange law, as an equality of tensors *)
Theorem interchange_law : forall a b c d,
  tensor_ok a = true -> tensor_ok b = true -> tensor_ok c = true -> tensor_ok d = true ->
  tcod a = tdom c -> tcod b = tdom d ->
  exists t, (do x <- ttensor a b; do y <- ttensor c d; tthen x y) = Ok t /\
            (do x <- tthen a c; do y <- tthen b d; ttensor x y) = Ok t.
Proof. exact interchange_law_b. Qed.
Print Assumptions interchange_law.

(* naturality of swaps, as an equality of tensors *)
Theorem swap_natural : forall a b, tensor_ok a = true -> tensor_ok b = true ->
  exists t, (do x <- ttensor a b; do s <- tswap (tcod a) (tcod b); tthen x s) = Ok t /\
            (do s <- tswap (tdom a) (tdom b); do y <- ttensor b a; tthen s y) = Ok t.
Proof. exact swap_natural_b. Qed.
Print Assumptions swap_natural.

(* cups and caps of a single wire of any dimension are the Kronecker deltas *)
Theorem cups_caps_single_wire : forall d,
  (exists c, tcups [d] [d] = Ok c /\ tensor_ok c = true /\ tdom c = [d; d] /\ tcod c = [] /\
     forall a b, a < d -> b < d -> entry c [a; b] [] = delta (a =? b)) /\
  (exists c, tcaps [d] [d] = Ok c /\ tensor_ok c = true /\ tdom c = [] /\ tcod c = [d; d] /\
     forall a b, a < d -> b < d -> entry c [] [a; b] = delta (a =? b)).
Proof. exact cups_caps_single_wire_b. Qed.
Print Assumptions cups_caps_single_wire.

Theorem cups_refuses : forall l r, rev l <> r -> tcups l r = Err AxiomError.
Proof. exact cups_refuses_b. Qed.
Print Assumptions cups_refuses.

(* Both snake equations for a single wire of every dimension (instances of
   snake_left / snake_right below, kept because they were the first proved). *)
Theorem snake_left_partial : forall d,
  exists t, snake_left_prog [d] = Ok t /\ tid [d] = Ok t.
Proof. exact TensorLemmas.snake_left_partial. Qed.
Print Assumptions snake_left_partial.

Theorem snake_right_partial : forall d,
  exists t, snake_right_prog [d] = Ok t /\ tid [d] = Ok t.
Proof. exact TensorLemmas.snake_right_partial. Qed.
Print Assumptions snake_right_partial.

(* cups and caps of every adjoint pair of types (multi-wire, any dimensions,
   the empty type included): nested Kronecker deltas, entry (a ++ b) = [a = rev b] *)
Theorem cups_caps_multi_wire : cups_caps_multi_wire_stmt.
Proof. exact cups_caps_multi_wire_b. Qed.
Print Assumptions cups_caps_multi_wire.

(* Both snake equations for EVERY type x (any number of wires, any dimensions,
   the empty type included; no hypothesis on x):
     (id(x) (x) caps(x.r, x)) >> (cups(x, x.r) (x) id(x)) = id(x)
     (caps(x, x.r) (x) id(x)) >> (id(x) (x) cups(x.r, x)) = id(x)
   as equal `tensor` values, every intermediate operation succeeding. *)
Theorem snake_left : snake_left_stmt.
Proof. exact snake_left_full. Qed.
Print Assumptions snake_left.

Theorem snake_right : snake_right_stmt.
Proof. exact snake_right_full. Qed.
Print Assumptions snake_right.
