(* C12 -- mixed evaluation agrees with pure evaluation and the Born rule.
   Property theorems only; the proofs are in CQ/CQLemmas.v.  Every statement is
   closed: quantified over every StarRing (the complex numbers are one; Cyc32 is
   the executable one), every circuit, width, offset, bitstring. *)
From Coq Require Import List Bool Arith.
Import ListNotations.
Require Import DV.Common.Base.
Require Import DV.Quantum.Ring DV.Quantum.Matrix DV.Quantum.Gates.
Require Import DV.CQ.CQMap DV.CQ.CQLemmas.

(* Circuit.eval(mixed=True) of a well-typed PURE circuit (any boxes of C11: gates,
   daggered gates, Controlled, rotations, SWAP, Ket, Bra, scalars, sqrt) succeeds and
   is conj(U) (x) U of its pure evaluation U = Circuit.eval() *)
Theorem mixed_of_pure_is_double : forall (SR : StarRing) (c : circuit SR), wf_circuit c = true ->
  exists f, cq_eval (embed c) = Ok f
            /\ cq_dom f = (0, c_dom c) /\ cq_cod f = (0, cod_or0 c)
            /\ meq (c_dom c + c_dom c) (cod_or0 c + cod_or0 c)
                   (cq_mat f) (double (c_dom c) (cod_or0 c) (eval c)).
Proof. exact CQLemmas.mixed_of_pure_is_double. Qed.
Print Assumptions mixed_of_pure_is_double.

(* the same for the specification of the functor loop (no materialisation) *)
Theorem mixed_of_pure_is_double_spec : forall (SR : StarRing) (c : circuit SR), wf_circuit c = true ->
  exists f, cq_eval_spec (embed c) = Ok f
            /\ cq_dom f = (0, c_dom c) /\ cq_cod f = (0, cod_or0 c)
            /\ meq (c_dom c + c_dom c) (cod_or0 c + cod_or0 c)
                   (cq_mat f) (double (c_dom c) (cod_or0 c) (eval c)).
Proof. exact CQLemmas.mixed_of_pure_is_double_spec. Qed.
Print Assumptions mixed_of_pure_is_double_spec.

(* every pure box: its CQMap is the double of its pure array (pure scalars contribute |s|^2) *)
Theorem pure_box_is_double : forall (SR : StarRing) (b : box SR),
  is_double (cq_box (MPure b)) (box_dom b) (box_cod b) (box_eval b).
Proof. exact cq_box_pure. Qed.
Print Assumptions pure_box_is_double.

(* CQMap.tensor on quantum sectors is the Kronecker product of the doubled maps *)
Theorem cq_tensor_of_doubles : forall (SR : StarRing) (f g : cqmap SR) m1 n1 m2 n2 A B,
  is_double f m1 n1 A -> is_double g m2 n2 B ->
  is_double (cq_tensor f g) (m1 + m2) (n1 + n2) (kron m1 n1 A B).
Proof. exact cq_tensor_double. Qed.
Print Assumptions cq_tensor_of_doubles.

(* CQMap.measure(n qubits)[q q' ; c] = [q = c][q' = c], for every n *)
Theorem measure_closed_form : forall (SR : StarRing) n,
  cq_dom (cq_measure n true : cqmap SR) = (0, n) /\ cq_cod (cq_measure n true : cqmap SR) = (n, 0)
  /\ forall i o, length i = n + n -> length o = n ->
       cq_mat (cq_measure n true : cqmap SR) i o
       = rmul (delta (firstn n i) o) (delta (skipn n i) o).
Proof. exact CQLemmas.measure_closed_form. Qed.
Print Assumptions measure_closed_form.

(* BORN RULE: state A (0 -> n qubits), doubled, then Measure(n): outcome o has weight
   conj(A[o]) * A[o] *)
Theorem measure_is_born : forall (SR : StarRing) n (A : mat SR) o, length o = n ->
  mmul (n + n) (double 0 n A) (cq_mat (cq_measure n true)) [] o = rmul (rconj (A [] o)) (A [] o).
Proof. exact CQLemmas.measure_is_born. Qed.
Print Assumptions measure_is_born.

(* composing any map F with Discard(a): sum over the bits, trace over the qubits *)
Theorem discard_is_trace : forall (SR : StarRing) (a : cq) (F : mat SR) i,
  mmul (uw a) F (cq_mat (cq_discard a)) i [] = tr_out (fst a) (snd a) (F i).
Proof. exact CQLemmas.discard_is_trace. Qed.
Print Assumptions discard_is_trace.

Theorem discard_is_marginal : forall (SR : StarRing) c (F : mat SR) i,
  mmul (uw (c, 0)) F (cq_mat (cq_discard (c, 0))) i [] = bsum c (fun x => F i x).
Proof. exact CQLemmas.discard_is_marginal. Qed.
Print Assumptions discard_is_marginal.

Theorem discard_pure_is_norm : forall (SR : StarRing) n (A : mat SR),
  mmul (uw (0, n)) (double 0 n A) (cq_mat (cq_discard (0, n))) [] []
  = bsum n (fun y => rmul (rconj (A [] y)) (A [] y)).
Proof. exact CQLemmas.discard_pure_is_norm. Qed.
Print Assumptions discard_pure_is_norm.

(* Encode = Measure^dagger, MixedState = Discard^dagger for ALL flag combinations and
   all types, with the transposed box types (regression statement of the former F9b) *)
Theorem encode_mixedstate_are_adjoints : forall (SR : StarRing),
  (forall n c r, cq_box (MEncode n c r : mbox SR) = cq_dagger (cq_box (MMeasure n c r))
                 /\ mbox_dom (MEncode n c r : mbox SR) = mbox_cod (MMeasure n c r : mbox SR)
                 /\ mbox_cod (MEncode n c r : mbox SR) = mbox_dom (MMeasure n c r : mbox SR))
  /\ (forall t, cq_box (MMixedState t : mbox SR) = cq_dagger (cq_box (MDiscard t))
                /\ mbox_dom (MMixedState t : mbox SR) = mbox_cod (MDiscard t : mbox SR)
                /\ mbox_cod (MMixedState t : mbox SR) = mbox_dom (MDiscard t : mbox SR)).
Proof. exact CQLemmas.encode_mixedstate_are_adjoints. Qed.
Print Assumptions encode_mixedstate_are_adjoints.

Theorem encode_closed_form : forall (SR : StarRing) n i o, length i = n -> length o = n + n ->
  cq_mat (cq_box (MEncode n true false : mbox SR)) i o
  = rmul (delta (firstn n o) i) (delta (skipn n o) i).
Proof. exact CQLemmas.encode_closed_form. Qed.
Print Assumptions encode_closed_form.

Theorem mixedstate_closed_form : forall (SR : StarRing) t i o,
  cq_mat (cq_box (MMixedState t : mbox SR)) i o
  = delta (firstn (nq t) (skipn (nb t) o)) (skipn (nq t) (skipn (nb t) o)).
Proof. exact CQLemmas.mixedstate_closed_form. Qed.
Print Assumptions mixedstate_closed_form.

(* the image of EVERY box (every variant of Measure / Encode / Discard / MixedState,
   classical gates, scalars, swaps, pure boxes) has the image of its declared types
   (regression statement of the former F9 and F9b: every variant can be evaluated,
   the model's cq_box is total) *)
Theorem box_image_types : forall (SR : StarRing) (b : mbox SR),
  cq_dom (cq_box b) = F_ob (mbox_dom b) /\ cq_cod (cq_box b) = F_ob (mbox_cod b).
Proof. exact cq_box_types. Qed.
Print Assumptions box_image_types.

(* CQMap.measure(n qubits, destructive=False)[q q' ; c r r'] = [q = c][q' = c][r = c][r' = c] *)
Theorem measure_nd_closed_form : forall (SR : StarRing) n q p c r s,
  length q = n -> length p = n -> length c = n -> length r = n -> length s = n ->
  cq_mat (cq_measure n false : cqmap SR) (q ++ p) (c ++ r ++ s)
  = rmul (rmul (delta q c) (delta p c)) (rmul (delta r c) (delta s c)).
Proof. exact CQLemmas.measure_nd_closed_form. Qed.
Print Assumptions measure_nd_closed_form.

(* ---------------------------------------------------------------- trace preservation *)
Require Import DV.Quantum.GatesLemmas.

(* f >> discard = discard, entry by entry, is what [tp] says *)
Theorem tp_is_discard_law : forall (SR : StarRing) (f : cqmap SR), tp f ->
  forall i, length i = uw (cq_dom f) ->
    mmul (uw (cq_cod f)) (cq_mat f) (cq_mat (cq_discard (cq_cod f))) i []
    = cq_mat (cq_discard (cq_dom f)) i [].
Proof. exact CQLemmas.tp_is_discard_law. Qed.
Print Assumptions tp_is_discard_law.

(* every box of the class is trace-preserving: unitaries (C11's gate_unitary), Ket,
   Bits, stochastic ClassicalGates, Copy, Measure (destructive or not, overriding bits or
   not), Discard, constructive Encode, all four Swaps *)
Theorem tp_box_preserves_trace : forall (SR : StarRing) (b : mbox SR), tp_box b -> tp (cq_box b).
Proof. exact tp_cq_box. Qed.
Print Assumptions tp_box_preserves_trace.

(* CQMap.tensor and CQMap.then preserve trace preservation *)
Theorem tp_closed_under_tensor : forall (SR : StarRing) (f g : cqmap SR), tp f -> tp g -> tp (cq_tensor f g).
Proof. exact tp_tensor. Qed.
Print Assumptions tp_closed_under_tensor.

Theorem tp_closed_under_then : forall (SR : StarRing) (f g : cqmap SR),
  cq_cod f = cq_dom g -> tp f -> tp g ->
  exists h, cq_then f g = Ok h /\ cq_dom h = cq_dom f /\ cq_cod h = cq_cod g /\ tp h.
Proof. exact tp_then. Qed.
Print Assumptions tp_closed_under_then.

(* TRACE PRESERVATION: every well-typed circuit (any interleaving of bits and qubits, any
   offsets, any depth) of boxes of the class evaluates, with the image types of its domain
   and codomain, to a trace-preserving CQMap -- by induction on the layers *)
Theorem trace_preserving : forall (SR : StarRing) (c : mcircuit SR),
  wf_mcircuit c = true -> tp_circuit c ->
  exists f, cq_eval c = Ok f /\ cq_dom f = F_ob (m_dom c) /\ cq_cod f = F_ob (cod_or_nil c) /\ tp f.
Proof. exact CQLemmas.trace_preserving. Qed.
Print Assumptions trace_preserving.

(* hence: from the empty domain to bits only, the entries that get_counts() and
   measure(mixed=True) read off the evaluation sum to 1 *)
Theorem get_counts_is_distribution : forall (SR : StarRing) (c : mcircuit SR),
  wf_mcircuit c = true -> tp_circuit c -> m_dom c = [] -> nq (cod_or_nil c) = 0 ->
  exists f, cq_eval c = Ok f /\ bsum (nb (cod_or_nil c)) (fun o => cq_mat f [] o) = r1.
Proof. exact CQLemmas.get_counts_is_distribution. Qed.
Print Assumptions get_counts_is_distribution.

(* CQMap.tensor AS CODED (the swap network  above >> f @ g >> below  of cqmap.py:
   two layers of block swaps, the plain Kronecker product, two layers of block swaps:
   cq_tensor_net) equals the closed form cq_tensor used by the executable model and by
   every theorem above, on every index of the (co)domain -- for all maps f, g and all
   type shapes; proved in CQ/CQTensorNet.v (every swap layer relabels the index) *)
Require DV.CQ.CQTensorNet.
Theorem cq_tensor_is_kron_on_each_sector : forall (SR : StarRing) (f g : cqmap SR),
  meq (uw (cq_add (cq_dom f) (cq_dom g))) (uw (cq_add (cq_cod f) (cq_cod g)))
      (cq_mat (cq_tensor_net f g)) (cq_mat (cq_tensor f g)).
Proof. exact CQTensorNet.cq_tensor_is_kron_on_each_sector. Qed.
Print Assumptions cq_tensor_is_kron_on_each_sector.

(* the network and the closed form have the same CQ types *)
Theorem cq_tensor_net_types : forall (SR : StarRing) (f g : cqmap SR),
  cq_dom (cq_tensor_net f g) = cq_dom (cq_tensor f g)
  /\ cq_cod (cq_tensor_net f g) = cq_cod (cq_tensor f g).
Proof. exact CQTensorNet.cq_tensor_net_types. Qed.
Print Assumptions cq_tensor_net_types.

(* ------------------------------------------------------------------ CQ/CQMore.v *)
Require DV.CQ.CQMore.
Import DV.CQ.CQMore.

(* the NON-DESTRUCTIVE measurement Measure(n, destructive=False [, override_bits])
   : qubit^n [@ bit^n] -> qubit^n @ bit^n (qubits kept, bits produced) is trace preserving,
   also in the composite form of the discard law  f >> discard = discard *)
Theorem measure_nondestructive_preserves_trace : forall (SR : StarRing) (n : nat) (o : bool),
  let f := cq_box (MMeasure n false o : mbox SR) in
  tp f /\
  forall i, length i = uw (cq_dom f) ->
    mmul (uw (cq_cod f)) (cq_mat f) (cq_mat (cq_discard (cq_cod f))) i []
    = cq_mat (cq_discard (cq_dom f)) i [].
Proof. exact measure_nondestructive_tp. Qed.
Print Assumptions measure_nondestructive_preserves_trace.

(* TRACE PRESERVATION for the semantic closure of the class: every well-typed circuit all
   of whose boxes satisfy the discard law -- whatever they are; this contains the class
   tp_box of `trace_preserving` (tp_circuit_sem_of_class), in particular every variant of
   Measure -- evaluates, with the image types, to a trace-preserving CQMap *)
Theorem trace_preserving_sem : forall (SR : StarRing) (c : mcircuit SR),
  wf_mcircuit c = true -> tp_circuit_sem c ->
  exists f, cq_eval c = Ok f /\ cq_dom f = F_ob (m_dom c) /\ cq_cod f = F_ob (cod_or_nil c) /\ tp f.
Proof. exact CQMore.trace_preserving_sem. Qed.
Print Assumptions trace_preserving_sem.

Theorem tp_class_is_semantic : forall (SR : StarRing) (c : mcircuit SR),
  tp_circuit c -> tp_circuit_sem c.
Proof. exact tp_circuit_sem_of_class. Qed.
Print Assumptions tp_class_is_semantic.

(* hence for EVERY well-typed circuit of such boxes (any domain, any codomain, bits and
   qubits): what get_counts() / measure(mixed=True) read -- the evaluation of
   init_and_discard() -- exists and sums to 1 *)
Theorem get_counts_sums_to_one : forall (SR : StarRing) (c : mcircuit SR),
  wf_mcircuit c = true -> tp_circuit_sem c ->
  exists f, cq_eval (init_and_discard c) = Ok f
            /\ bsum (nb (cod_or_nil c)) (fun o => cq_mat f [] o) = r1.
Proof. exact CQMore.get_counts_sums_to_one. Qed.
Print Assumptions get_counts_sums_to_one.

(* the remaining Encode variants and MixedState are NOT trace preserving unless 1 = 0 in
   the ring (they are adjoints of channels: a post-selection, unnormalised states) ... *)
Theorem encode_variants_not_trace_preserving : forall SR : StarRing,
  (tp (cq_box (MEncode 1 false false : mbox SR)) -> (r1 : SR) = r0)
  /\ (tp (cq_box (MEncode 1 true true : mbox SR)) -> (r1 : SR) = r0)
  /\ (tp (cq_box (MMixedState [WQ] : mbox SR)) -> (r1 : SR) = r0).
Proof.
  intro SR. split; [exact (encode_nonconstructive_not_tp SR)|].
  split; [exact (encode_reset_not_tp SR) | exact (mixedstate_not_tp SR)].
Qed.
Print Assumptions encode_variants_not_trace_preserving.

(* ... and over the executable ring they are not *)
Theorem encode_variants_not_trace_preserving_cyc32 :
  ~ tp (cq_box (MEncode 1 false false : mbox Cyc32.Cyc32))
  /\ ~ tp (cq_box (MEncode 1 true true : mbox Cyc32.Cyc32))
  /\ ~ tp (cq_box (MMixedState [WQ] : mbox Cyc32.Cyc32)).
Proof. exact encode_variants_not_tp_cyc32. Qed.
Print Assumptions encode_variants_not_trace_preserving_cyc32.

(* WELL-TYPEDNESS is preserved by Circuit.dagger() (from the codomain to the domain) ... *)
Theorem mdagger_well_typed : forall (SR : StarRing) (c : mcircuit SR), wf_mcircuit c = true ->
  wf_mcircuit (mdagger c) = true
  /\ m_dom (mdagger c) = cod_or_nil c /\ cod_or_nil (mdagger c) = m_dom c.
Proof. exact mdagger_wf. Qed.
Print Assumptions mdagger_well_typed.

(* ... and by Circuit.init_and_discard(): empty domain, the bits of the codomain *)
Theorem init_and_discard_well_typed : forall (SR : StarRing) (c : mcircuit SR), wf_mcircuit c = true ->
  wf_mcircuit (init_and_discard c) = true
  /\ m_dom (init_and_discard c) = []
  /\ cod_or_nil (init_and_discard c) = filter is_b (cod_or_nil c).
Proof. exact init_and_discard_wf. Qed.
Print Assumptions init_and_discard_well_typed.

(* Circuit.measure() of a well-typed PURE circuit c (non-mixed path: Ket(0..0) >> c, then
   |amplitude|^2 per Bra): the Born probabilities of C11's pure evaluation,
   amp c o = eval c (0..0) o, over all bitstrings o in row-major order *)
Theorem measure_pure_is_born : forall (SR : StarRing) (c : circuit SR), wf_circuit c = true ->
  measure (embed c) false
  = Ok (map (fun o => rmul (amp c o) (rconj (amp c o))) (all_bits (cod_or0 c))).
Proof. exact CQMore.measure_pure_is_born. Qed.
Print Assumptions measure_pure_is_born.

(* Circuit.measure(mixed) of  c >> Measure(n)  (mixed path: init_and_discard puts one Ket(0)
   per input qubit in front, cqmap.Functor evaluates, .real is taken): the same numbers *)
Theorem measure_mixed_is_born : forall (SR : StarRing) (c : circuit SR) (mixed : bool),
  wf_circuit c = true ->
  mthen (embed c) (MC (qubits_ty (cod_or0 c)) [meas_layer (cod_or0 c)]) = Ok (then_measure c)
  /\ measure (then_measure c) mixed
     = Ok (map (fun o => rmul (rconj (amp c o)) (amp c o)) (all_bits (cod_or0 c))).
Proof.
  intros SR c mixed H. split; [exact (mthen_measure SR c H) | exact (CQMore.measure_mixed_is_born SR c mixed H)].
Qed.
Print Assumptions measure_mixed_is_born.

(* MEASURE = EVAL at circuit level: the two paths agree *)
Theorem measure_eq_eval : forall (SR : StarRing) (c : circuit SR) (mixed : bool),
  wf_circuit c = true -> measure (then_measure c) mixed = measure (embed c) false.
Proof. exact CQMore.measure_eq_eval. Qed.
Print Assumptions measure_eq_eval.
