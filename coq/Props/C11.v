(* C11 -- pure circuits evaluate to the unitary they describe.

   Property theorems only; every statement is closed (quantified over every
   StarRing SR, i.e. every commutative *-ring with i, 1/2, 1/sqrt 2 -- the
   complex numbers are one -- and over every phase unit e with e * conj e = 1,
   e = exp(i*pi*phase)).  Cyc32 (Quantum/Cyc32.v) is a concrete StarRing, so no
   statement is vacuous; concrete circuits satisfying the hypotheses are
   [ex_circuit_hyps], [ex_state_value] in Quantum/GatesWitness.v.

   Conventions: [box_eval b i o], [eval c i o] are the entries of
   Circuit.eval().array at input bits i and output bits o (DisCoPy's [in, out]
   order, leftmost qubit first / most significant); [mtrans] turns them into
   the textbook [out, in] order of the reference table Std.v (validated against
   pytket on every run of the check); [meq m n] is equality of matrices on
   indices of lengths m and n.

   History: the model first reproduced three defects of the code (F6: Y
   evaluated to -Y; F7: Ry(p) to Ry(-p); F8: Controlled(g).dagger() ignored g's
   dagger flag) with [..._refuted] theorems; they were repaired upstream (fix
   commits 283c08a, 648c8a7, a3ece78), the model follows the repaired code and
   every theorem below now holds WITHOUT exclusions.  The former witnesses are
   the regression theorems of section 7. *)
From Coq Require Import List Bool Arith.
Import ListNotations.
Require Import DV.Common.Base.
Require Import DV.Quantum.Ring DV.Quantum.Cyc32 DV.Quantum.Matrix DV.Quantum.MatrixLemmas
               DV.Quantum.Gates DV.Quantum.Std DV.Quantum.GatesLemmas DV.Quantum.CircuitLemmas
               DV.Quantum.TensorLemmas DV.Quantum.GatesWitness.

(* 1. A named gate or rotation evaluates to the standard matrix of the
      identically named tket operation; a controlled gate to the controlled
      version of its target; kets and bras to basis vectors (std_box). *)
Theorem gate_matches_std : forall (SR : StarRing) (b : box SR),
  meq (box_cod b) (box_dom b) (mtrans (box_eval b)) (std_box b).
Proof. exact box_matches_std. Qed.
Print Assumptions gate_matches_std.

Theorem controlled_is_controlled : forall (SR : StarRing) (g : gate1 SR),
  meq 2 2 (gate2_eval (G2Ctrl g)) (ctrl_of (gate1_eval g)).
Proof. exact controlled_is_controlled. Qed.
Print Assumptions controlled_is_controlled.

Theorem ket_bra_basis : forall (SR : StarRing) (b : bits),
  (forall o, box_eval (@BKet SR b) [] o = delta o b) /\
  (forall i, box_eval (@BBra SR b) i [] = delta i b).
Proof. intros. split; [apply ket_is_basis_vector | apply bra_is_basis_covector]. Qed.
Print Assumptions ket_bra_basis.

(* 2. Every rotation, and every gate box, is unitary for every phase. *)
Theorem rotation_unitary : forall (SR : StarRing) (e : SR), is_phase e ->
  (forall r, unitary 1 (gate1_eval (G1Rot r e))) /\
  (forall r, unitary 2 (gate2_eval (G2Rot r e))) /\
  (forall r, unitary 2 (gate2_eval (G2Ctrl (G1Rot r e)))).
Proof.
  intros SR e He. split; [|split]; intro r'.
  - apply (gate1_unitary SR (G1Rot r' e)), He.
  - apply (gate2_unitary SR (G2Rot r' e)), He.
  - apply (gate2_unitary SR (G2Ctrl (G1Rot r' e))), He.
Qed.
Print Assumptions rotation_unitary.

Theorem gate_unitary : forall (SR : StarRing) (b : box SR), is_gate b = true -> phases_ok b ->
  box_cod b = box_dom b /\ unitary (box_dom b) (box_eval b).
Proof. exact box_unitary. Qed.
Print Assumptions gate_unitary.

(* 3. A circuit evaluates to the ordered product of its boxes acting on the
      stated qubits (lprod: (id (x) b1 (x) id) then (id (x) b2 (x) id) ...);
      composition is the matrix product; read as [out, in] the evaluation is
      the right-to-left product of the reference matrices. *)
Theorem circuit_eval_is_ordered_product : forall (SR : StarRing) (c : circuit SR),
  wf_circuit c = true ->
  meq (c_dom c) (cod_or0 c) (eval c) (lprod (c_dom c) (c_layers c)).
Proof. exact eval_is_lprod. Qed.
Print Assumptions circuit_eval_is_ordered_product.

Theorem then_eval_is_product : forall (SR : StarRing) (a b c : circuit SR),
  wf_circuit a = true -> wf_circuit b = true -> cthen a b = Ok c ->
  meq (c_dom a) (cod_or0 b) (eval c) (mmul (cod_or0 a) (eval a) (eval b)).
Proof. exact cthen_eval. Qed.
Print Assumptions then_eval_is_product.

Theorem circuit_eval_matches_std : forall (SR : StarRing) (c : circuit SR),
  wf_circuit c = true ->
  meq (cod_or0 c) (c_dom c) (mtrans (eval c)) (std_prod (c_dom c) (c_layers c)).
Proof. exact eval_matches_std. Qed.
Print Assumptions circuit_eval_matches_std.

Theorem tensor_eval_is_kron : forall (SR : StarRing) (a b : circuit SR),
  wf_circuit a = true -> wf_circuit b = true ->
  meq (c_dom a + c_dom b) (cod_or0 a + cod_or0 b)
      (eval (ctensor a b)) (kron (c_dom a) (cod_or0 a) (eval a) (eval b)).
Proof. exact ctensor_eval. Qed.
Print Assumptions tensor_eval_is_kron.

(* 4. ... which is unitary when the circuit is made of gates. *)
Theorem circuit_unitary : forall (SR : StarRing) (c : circuit SR),
  wf_circuit c = true -> gates_only c ->
  cod_or0 c = c_dom c /\ unitary (c_dom c) (eval c).
Proof. exact circuit_unitary_l. Qed.
Print Assumptions circuit_unitary.

(* 5. The dagger of a pure circuit evaluates to the conjugate transpose. *)
Theorem dagger_eval_is_conj_transpose : forall (SR : StarRing) (c : circuit SR),
  wf_circuit c = true ->
  meq (cod_or0 c) (c_dom c) (eval (cdagger c)) (madj (eval c)).
Proof. exact cdagger_eval. Qed.
Print Assumptions dagger_eval_is_conj_transpose.

(* 6. rewire.  Full statement: [rewire_acts_on_a_b_stmt] (a Definition in
      GatesWitness.v), PROVED IN FULL in section 8 below (every width, every
      placement, every two-qubit circuit).  This section keeps the earlier
      results: the refusals, the contiguous cases, and the bounded exhaustive
      computation in Cyc32 (every placement on at most 4 wires for CX,
      Controlled(Rx(5/16)), CRz(5/16)) as an independent computed cross-check. *)
Theorem rewire_refuses : forall (SR : StarRing) (op : circuit SR) a b n,
  rewire op a a (Some n) = Err ValueError /\
  (a <> b -> n < 2 -> rewire op a b (Some n) = Err ValueError) /\
  (a <> b -> 2 <= n -> c_dom op <> 2 -> rewire op a b (Some n) = Err ValueError).
Proof.
  intros. split; [apply rewire_same_index|].
  split; [apply rewire_narrow_dom | apply rewire_wrong_width].
Qed.
Print Assumptions rewire_refuses.

(* contiguous placements, every width n, every two-qubit circuit op: rewire(op, a, a+1)
   is op on wires a, a+1 (identity elsewhere); rewire(op, a+1, a) is SWAP; op; SWAP there *)
Theorem rewire_contiguous : forall (SR : StarRing) (op : circuit SR) a n,
  wf_circuit op = true -> c_dom op = 2 -> cod_or0 op = 2 -> S (S a) <= n ->
  (exists c, rewire op a (S a) (Some n) = Ok c /\ wf_circuit c = true /\ c_dom c = n /\
             cod_or0 c = n /\ meq n n (eval c) (whisker a 2 2 (eval op))) /\
  (exists c, rewire op (S a) a (Some n) = Ok c /\ wf_circuit c = true /\ c_dom c = n /\
             cod_or0 c = n /\
             meq n n (eval c) (whisker a 2 2 (mmul 2 (mmul 2 (box_eval (@BSwap SR)) (eval op))
                                                   (box_eval (@BSwap SR))))).
Proof.
  intros. split; [apply rewire_contiguous_eval | apply rewire_contiguous_reversed_eval]; assumption.
Qed.
Print Assumptions rewire_contiguous.

Theorem rewire_acts_on_a_b_partial : forall g n a b, In g rewire_gates ->
  2 <= n <= 4 -> a < n -> b < n -> a <> b ->
  exists c, rewire (cbox (BG2 g)) a b (Some n) = Ok c /\ wf_circuit c = true /\
            c_dom c = n /\ cod_or0 c = n /\
            meq n n (eval c) (on_wires a b (gate2_eval g)).
Proof. exact rewire_acts_on_a_b_bounded. Qed.
Print Assumptions rewire_acts_on_a_b_partial.

(* 7. Regression: the inputs of the former findings F6, F7, F8, now positive
      (each is an instance of the general theorems above, stated explicitly). *)
Theorem Y_matches_std : forall (SR : StarRing) d,
  meq 1 1 (mtrans (gate1_eval (@G1Named SR NY d))) (std_mat SY r1)
  /\ meq 2 2 (mtrans (gate2_eval (G2Ctrl (@G1Named SR NY d)))) (std_mat SCY r1).
Proof.
  intros. split.
  - apply (gate1_matches_std SR (G1Named NY d)).
  - apply (gate2_matches_std SR (G2Ctrl (G1Named NY d))).
Qed.
Print Assumptions Y_matches_std.

Theorem Ry_matches_std : forall (SR : StarRing) (e : SR),
  meq 1 1 (mtrans (gate1_eval (G1Rot RRy e))) (std_mat SRy e)
  /\ meq 2 2 (mtrans (gate2_eval (G2Ctrl (G1Rot RRy e)))) (std_mat SCRy e).
Proof.
  intros. split.
  - apply (gate1_matches_std SR (G1Rot RRy e)).
  - apply (gate2_matches_std SR (G2Ctrl (G1Rot RRy e))).
Qed.
Print Assumptions Ry_matches_std.

(* Controlled(g).dagger() = Controlled(g.dagger()) is the conjugate transpose, and
   Controlled(S.dagger()) is tket's CSdg *)
Theorem controlled_dagger_is_conj_transpose : forall (SR : StarRing) (g : gate1 SR),
  meq 2 2 (gate2_eval (G2Ctrl (gate1_dagger g))) (madj (gate2_eval (G2Ctrl g)))
  /\ meq 2 2 (mtrans (gate2_eval (G2Ctrl (@G1Named SR NS true)))) (std_mat SCSdg r1).
Proof.
  intros. split.
  - apply (gate2_dagger_eval SR (G2Ctrl g)).
  - apply (gate2_matches_std SR (G2Ctrl (G1Named NS true))).
Qed.
Print Assumptions controlled_dagger_is_conj_transpose.

(* 8. rewire, EVERY placement (proofs in Quantum/RewireGeneral.v).  This closes the
      statement that section 6 proved only for n <= 4 on three gates. *)
From Coq Require Import ZArith.
Require Import DV.Core.Perm DV.Quantum.RewireGeneral.
Local Open Scope nat_scope.

(* Box.permutation(l, qubit ** n), the network of adjacent swaps of
   monoidal.Diagram.permutation, for EVERY list l that Diagram.permutation accepts
   (is_perm is the model of its own check): it is built, well-typed, n -> n, and
   evaluates to the index permutation matrix "input wire j leaves at output
   position l[j]", i.e. entry [i, o] is 1 when i_j = o_(l[j]) for every j, else 0 *)
Theorem permutation_network_is_index_permutation : forall (SR : StarRing) (l : list nat),
  is_perm (map Z.of_nat l) = true ->
  exists offs, @perm_offsets l (length l) = Ok offs
    /\ wf_circuit (Circ (length l) (@swaps_at SR offs)) = true
    /\ cod_or0 (Circ (length l) (@swaps_at SR offs)) = length l
    /\ meq (length l) (length l) (eval (Circ (length l) (@swaps_at SR offs)))
           (fun i o => delta i (map (fun k => nth k o false) l)).
Proof. exact permutation_network_eval. Qed.
Print Assumptions permutation_network_is_index_permutation.

(* every width n, every a <> b < n (adjacent or not, in either order), every
   well-typed two-qubit circuit op : 2 -> 2 (any boxes): rewire(op, a, b, dom=qubit ** n)
   succeeds, is well-typed n -> n and evaluates to op acting on the wires a and b,
   every other wire untouched *)
Theorem rewire_acts_on_a_b : forall (SR : StarRing) (op : circuit SR) (n a b : nat),
  wf_circuit op = true -> c_dom op = 2 -> cod_or0 op = 2 ->
  a < n -> b < n -> a <> b ->
  exists c, rewire op a b (Some n) = Ok c /\ wf_circuit c = true /\
            c_dom c = n /\ cod_or0 c = n /\
            meq n n (eval c) (on_wires a b (eval op)).
Proof. exact rewire_acts_on_a_b_general. Qed.
Print Assumptions rewire_acts_on_a_b.

(* the statement of GatesWitness.v (single gates), word for word *)
Theorem rewire_acts_on_a_b_every_gate : rewire_acts_on_a_b_stmt.
Proof. exact rewire_acts_on_a_b_holds. Qed.
Print Assumptions rewire_acts_on_a_b_every_gate.
