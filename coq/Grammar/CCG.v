(* discopy/grammar/ccg.py : cat2ty (a parser on character-code lists),
   tree2diagram; plus the few monoidal operations on biclosed diagrams it uses
   (Id, tensor, >>).  Definitions only; proofs live in Grammar/CCGLemmas.v. *)
From Coq Require Import List ZArith Bool Lia.
Import ListNotations.
Require Import DV.Common.Base DV.Core.Diagram DV.Grammar.Biclosed.
Open Scope Z_scope.

(* ------------------------------------------------------------------ strings *)
(* characters are their code points: ( ) / \ [ ] *)
Definition c_lpar := 40. Definition c_rpar := 41. Definition c_slash := 47.
Definition c_bslash := 92. Definition c_lbr := 91. Definition c_rbr := 93.

(* atoms are named by strings; a string is interned injectively (for code
   points < 256) as the base-256 number of 1 :: chars *)
Definition str_code (s : list Z) : Z := fold_left (fun acc c => acc * 256 + c) s 1.

(* unbracket: string[1:-1] if string[0] == '(' else string; string[0] on the
   empty string raises IndexError *)
Definition unbracket (s : list Z) : res (list Z) :=
  match s with
  | [] => Err IndexError
  | c :: _ => if c =? c_lpar then Ok (py_slice s (Some 1) (Some (-1))) else Ok s
  end.

(* remove_modifier: re.sub(r'\[[^]]*\]', '', string): every '[' that has a ']'
   somewhere after it starts a match that runs to the first such ']' *)
Fixpoint rm_mod (skip : bool) (s : list Z) : list Z :=
  match s with
  | [] => []
  | c :: s' =>
      if skip then (if c =? c_rbr then rm_mod false s' else rm_mod true s')
      else if (c =? c_lbr) && existsb (Z.eqb c_rbr) s' then rm_mod true s'
      else c :: rm_mod false s'
  end.
Definition remove_modifier (s : list Z) : list Z := rm_mod false s.

(* split: position and character of the first slash at parenthesis depth 0 *)
Fixpoint find_slash (rest : list Z) (i : nat) (par : Z) : option (nat * Z) :=
  match rest with
  | [] => None
  | c :: r =>
      if c =? c_lpar then find_slash r (S i) (par + 1)
      else if c =? c_rpar then find_slash r (S i) (par - 1)
      else if ((c =? c_bslash) || (c =? c_slash)) && (par =? 0) then Some (i, c)
      else find_slash r (S i) par
  end.

(* cat2ty(string); fuel >= length of the string + 1 *)
Fixpoint cat2ty_fuel (fuel : nat) (s : list Z) : res bty :=
  match fuel with
  | O => Err OutOfFuel
  | S f =>
      match find_slash s 0 0 with
      | Some (i, c) =>
          let iz := Z.of_nat i in
          do lft <- unbracket (py_slice s None (Some iz));
          do rgt <- unbracket (py_slice s (Some (iz + 1)) None);
          if c =? c_bslash then
            (* cat2ty(right) >> cat2ty(left) *)
            do r <- cat2ty_fuel f rgt; do l <- cat2ty_fuel f lft; Ok [BUnder r l]
          else
            (* cat2ty(left) << cat2ty(right) *)
            do l <- cat2ty_fuel f lft; do r <- cat2ty_fuel f rgt; Ok [BOver l r]
      | None => Ok [BAtom (str_code (remove_modifier s))]
      end
  end.
Definition cat2ty (s : list Z) : res bty := cat2ty_fuel (S (length s)) s.

(* ------------------------------------------------------------------ biclosed diagrams *)
Definition bd_id (t : bty) : bdiagram := BD t t [] [].
Definition bd_box (b : bbox) : bdiagram := BD (xdom b) (xcod b) [b] [0].
Definition bd_tensor (a b : bdiagram) : bdiagram :=
  BD (xd_dom a ++ xd_dom b) (xd_cod a ++ xd_cod b) (xd_boxes a ++ xd_boxes b)
     (xd_offs a ++ map (fun n => n + len (xd_cod a)) (xd_offs b)).
Definition bd_then (a b : bdiagram) : res bdiagram :=
  if bty_eqb (xd_cod a) (xd_dom b)
  then Ok (BD (xd_dom a) (xd_cod b) (xd_boxes a ++ xd_boxes b) (xd_offs a ++ xd_offs b))
  else Err AxiomError.

(* ------------------------------------------------------------------ trees *)
(* a depccg tree in JSON form: {'word', 'cat'} or {'type', 'cat', 'children'};
   type 0 = 'ba', 1 = 'fa', 2 = 'fc', any other k = a rule named k *)
Inductive tree :=
| TWord (name : Z) (cat : list Z)
| TNode (typ : Z) (cat : list Z) (children : list tree).

Fixpoint tree2diagram (t : tree) : res bdiagram :=
  match t with
  | TWord name cat =>
      do c <- cat2ty cat; Ok (bd_box (XBox name [] c))
  | TNode typ cat children =>
      let fix go (ts : list tree) : res (list bdiagram) :=
        match ts with
        | [] => Ok []
        | x :: ts' => do d <- tree2diagram x; do ds <- go ts'; Ok (d :: ds)
        end in
      do ch <- go children;
      let dom := flat_map xd_cod ch in
      do cod <- cat2ty cat;
      let box :=
        if typ =? 0 then XBA (py_slice dom (Some 1) None)
        else if typ =? 1 then XFA (py_slice dom None (Some 1))
        else if typ =? 2 then XFC (py_slice dom None (Some 1)) (py_slice dom (Some 1) None)
        else XBox typ dom cod in
      do _ <- bbox_check box;
      bd_then (fold_left bd_tensor ch (bd_id [])) (bd_box box)
  end.
