(* Proofs about CFG.generate: for every shuffle oracle, every sentence is a
   derivation of the start symbol using only the given productions; the
   generator never raises. *)
From Coq Require Import List ZArith Bool Lia.
Import ListNotations.
Require Import DV.Common.Base DV.Common.ListLemmas DV.Core.Diagram DV.Core.WF
  DV.Core.DiagramLemmas DV.Grammar.CFG.
Open Scope Z_scope.

Section Generate.
  Variable productions : list box.
  Variable start : ty.
  Variable max_depth : nat.

  Definition from_grammar (bs : list box) : Prop := Forall (fun b => In b productions) bs.

  (* a partial derivation: a well-typed diagram into the start symbol made of productions *)
  Definition partial (s : diagram) : Prop :=
    wf s /\ dcod s = start /\ from_grammar (dboxes s).

  Lemma apply_shuffle_from prods perm : from_grammar prods -> from_grammar (apply_shuffle prods perm).
  Proof.
    intros H. induction perm as [|i perm IH]; cbn [apply_shuffle]; [constructor|].
    destruct (nth_error prods i) as [b|] eqn:E; [|exact IH].
    constructor; [|exact IH]. unfold from_grammar in H. rewrite Forall_forall in H.
    apply H. eapply nth_error_In; eauto.
  Qed.

  Lemma next_shuffle_from prods oracle : from_grammar prods ->
    from_grammar (fst (next_shuffle prods oracle)).
  Proof.
    intros H. destruct oracle as [|perm rest]; cbn; [exact H|apply apply_shuffle_from; exact H].
  Qed.

  Lemma pick_some prods nt used tag p : pick prods nt used tag = Some p ->
    In p prods /\ bcod p = [tag].
  Proof.
    induction prods as [|q rest IH]; cbn [pick]; [discriminate|].
    destruct (existsb (box_eqb q) nt && existsb (box_eqb q) used).
    - intros H. destruct (IH H). split; [right|]; auto.
    - destruct (ty_eqb [tag] (bcod q)) eqn:E.
      + intros H; inversion H; subst. apply ty_eqb_eq in E. split; [left; reflexivity|auto].
      + intros H. destruct (IH H). split; [right|]; auto.
  Qed.

  Lemma py_tail {A} (x : A) t : py_slice (x :: t) (Some 1) None = t.
  Proof.
    rewrite py_slice_suffix by lia. reflexivity.
  Qed.

  Lemma cfg_inner_spec nt rd cache : forall k s prods oracle,
    from_grammar prods -> partial s -> (length (dboxes s) + k = max_depth)%nat ->
    exists out prods' oracle',
      cfg_inner k s prods oracle nt rd cache = Ok (out, prods', oracle') /\
      from_grammar prods' /\
      match out with
      | Yield d => partial d /\ ddom d = [] /\ (length (dboxes d) < max_depth)%nat
      | NoYield => True
      end.
  Proof.
    induction k as [|k IH]; intros s prods oracle Hp Hs Hk; cbn [cfg_inner].
    - exists NoYield, prods, oracle. auto.
    - destruct (ddom s) as [|tag rest] eqn:Ed.
      + destruct (rd && existsb (deqb s) cache).
        * exists NoYield, prods, oracle. auto.
        * exists (Yield s), prods, oracle. split; [reflexivity|]. split; [exact Hp|].
          split; [exact Hs|]. split; [exact Ed|lia].
      + pose proof (next_shuffle_from prods oracle Hp) as Hp'.
        destruct (next_shuffle prods oracle) as [prods' oracle'] eqn:En. cbn [fst] in Hp'.
        destruct (pick prods' nt (dboxes s) tag) as [p|] eqn:Epk.
        * destruct (pick_some _ _ _ _ _ Epk) as (Hin & Hcod).
          rewrite py_tail.
          destruct (dtensor_ok (dbox p) (did rest) (dbox_wf _) (did_wf _)) as (t & Et & Wt & Dt & Ct & Bt & Ot).
          rewrite Et. cbn [bind].
          destruct Hs as (Ws & Cs & Bs).
          destruct (dthen_ok t s Wt Ws) as (s' & Es & Ws' & Ds' & Cs' & Bs' & Os').
          { rewrite Ct, Ed. cbn [dbox did dcod]. rewrite Hcod. reflexivity. }
          rewrite Es. cbn [bind]. apply IH; [exact Hp'| |].
          -- split; [exact Ws'|]. split; [congruence|].
             rewrite Bs', Bt. cbn [dbox did dboxes app]. constructor; [|exact Bs].
             unfold from_grammar in Hp'. rewrite Forall_forall in Hp'. apply Hp'. exact Hin.
          -- rewrite Bs', Bt. cbn [dbox did dboxes]. rewrite !app_length. cbn [length]. lia.
        * exists NoYield, prods', oracle'. auto.
  Qed.

  Definition derivation (d : diagram) : Prop :=
    wf d /\ ddom d = [] /\ dcod d = start /\ from_grammar (dboxes d) /\
    (length (dboxes d) < max_depth)%nat.

  Lemma cfg_outer_spec ms nt rd : forall fuel n prods oracle cache,
    from_grammar prods ->
    exists out rest,
      cfg_outer fuel start ms n max_depth prods oracle nt rd cache = Ok (out, rest) /\
      Forall derivation out /\ (length out <= fuel)%nat.
  Proof.
    induction fuel as [|fuel IH]; intros n prods oracle cache Hp; cbn [cfg_outer].
    - exists [], oracle. split; [reflexivity|]. split; [constructor|cbn; lia].
    - destruct (n <=? py_or_z ms n).
      + destruct (cfg_inner_spec nt rd cache max_depth (did start) prods oracle Hp) as
            (out & prods' & oracle' & E & Hp' & Ho).
        { split; [apply did_wf|]. split; [reflexivity|constructor]. }
        { cbn. lia. }
        rewrite E. cbn [bind]. destruct out as [d|].
        * destruct (IH (n + 1) prods' oracle' (if rd then d :: cache else cache) Hp') as (out' & rest & E' & F' & L').
          rewrite E'. cbn [bind fst snd]. exists (d :: out'), rest. split; [reflexivity|].
          split; [|cbn; lia]. constructor; [|exact F'].
          destruct Ho as ((W & C & B) & D0 & L). unfold derivation. auto.
        * destruct (IH n prods' oracle' cache Hp') as (out' & rest & E' & F' & L').
          exists out', rest. split; [exact E'|]. split; [exact F'|lia].
      + exists [], oracle. split; [reflexivity|]. split; [constructor|cbn; lia].
  Qed.
End Generate.

Theorem cfg_generate_spec productions start ms md mi rd nt oracle :
  exists out rest, cfg_generate productions start ms md mi rd nt oracle = Ok (out, rest) /\
    Forall (derivation productions start md) out /\ (length out <= mi)%nat.
Proof.
  unfold cfg_generate. apply cfg_outer_spec. unfold from_grammar.
  apply Forall_forall. auto.
Qed.

Theorem cfg_generate_derivations productions start ms md mi rd nt oracle out rest :
  cfg_generate productions start ms md mi rd nt oracle = Ok (out, rest) ->
  Forall (fun d => wf d /\ ddom d = [] /\ dcod d = start /\
                   Forall (fun b => In b productions) (dboxes d) /\
                   (length (dboxes d) < md)%nat) out
  /\ (length out <= mi)%nat.
Proof.
  destruct (cfg_generate_spec productions start ms md mi rd nt oracle) as (out' & rest' & E & F & L).
  rewrite E. intros H; inversion H; subst. split; [exact F|exact L].
Qed.

Theorem cfg_generate_total productions start ms md mi rd nt oracle :
  exists r, cfg_generate productions start ms md mi rd nt oracle = Ok r.
Proof.
  destruct (cfg_generate_spec productions start ms md mi rd nt oracle) as (out & rest & E & _).
  eauto.
Qed.

(* ------------------------------------------------------------ non-vacuity *)
(* S -> VP N, VP -> N V, Jane : N, loves : V; identity shuffles *)
Example cfg_generate_example :
  let S := Ob 1 0 in let N := Ob 2 0 in let V := Ob 3 0 in let VP := Ob 4 0 in
  let prods := [Box KBox 100 [VP; N] [S] false None; Box KBox 101 [N; V] [VP] false None;
                Box KBox 500 [] [N] false None; Box KBox 501 [] [V] false None] in
  exists out rest, cfg_generate prods [S] 2 6 10 false [] [] = Ok (out, rest) /\
    length out = 2%nat /\ map (fun d => length (dboxes d)) out = [5%nat; 5%nat].
Proof. cbn zeta. eexists. eexists. split; [vm_compute; reflexivity|]. split; reflexivity. Qed.
