(* discopy/grammar/cfg.py : CFG.generate, with random.shuffle turned into an
   explicit oracle argument (the list of permutations it performed, in order).
   Productions are monoidal boxes (a Word is a box with empty domain).
   Definitions only; proofs live in Grammar/CFGLemmas.v. *)
From Coq Require Import List ZArith Bool Lia.
Import ListNotations.
Require Import DV.Common.Base DV.Core.Diagram.
Open Scope Z_scope.

(* one recorded shuffle: position i of the new list holds element perm[i] of the
   old list; indices out of range are dropped, so that every oracle value yields
   a list of elements of the old list *)
Fixpoint apply_shuffle (prods : list box) (perm : list nat) : list box :=
  match perm with
  | [] => []
  | i :: perm' =>
      match nth_error prods i with
      | Some b => b :: apply_shuffle prods perm'
      | None => apply_shuffle prods perm'
      end
  end.

(* random.shuffle(prods): consumes one oracle entry (none left: no change) *)
Definition next_shuffle (prods : list box) (oracle : list (list nat)) : list box * list (list nat) :=
  match oracle with
  | [] => (prods, [])
  | perm :: rest => (apply_shuffle prods perm, rest)
  end.

(* the `for prod in prods` loop: first production that is not excluded by
   not_twice and whose codomain is Ty(tag) *)
Fixpoint pick (prods : list box) (not_twice : list box) (used : list box) (tag : ob) : option box :=
  match prods with
  | [] => None
  | p :: rest =>
      if existsb (box_eqb p) not_twice && existsb (box_eqb p) used then pick rest not_twice used tag
      else if ty_eqb [tag] (bcod p) then Some p
      else pick rest not_twice used tag
  end.

(* a or b on Python ints *)
Definition py_or_z (a b : Z) : Z := if a =? 0 then b else a.

Inductive inner_result :=
| Yield (d : diagram)       (* a sentence was yielded *)
| NoYield.                  (* duplicate, dead end, or depth limit *)

(* the `while depth < max_depth` loop; k = max_depth - depth *)
Fixpoint cfg_inner (k : nat) (sentence : diagram) (prods : list box) (oracle : list (list nat))
         (not_twice : list box) (remove_duplicates : bool) (cache : list diagram)
  : res (inner_result * list box * list (list nat)) :=
  match k with
  | O => Ok (NoYield, prods, oracle)
  | S k' =>
      match ddom sentence with
      | [] =>
          if remove_duplicates && existsb (deqb sentence) cache
          then Ok (NoYield, prods, oracle)
          else Ok (Yield sentence, prods, oracle)
      | tag :: rest =>
          let (prods', oracle') := next_shuffle prods oracle in
          match pick prods' not_twice (dboxes sentence) tag with
          | None => Ok (NoYield, prods', oracle')
          | Some p =>
              (* sentence << prod @ Id(sentence.dom[1:]) *)
              do t <- dtensor (dbox p) (did (py_slice (ddom sentence) (Some 1) None));
              do s' <- dthen t sentence;
              cfg_inner k' s' prods' oracle' not_twice remove_duplicates cache
          end
      end
  end.

(* the outer `while n_sentences <= (max_sentences or n_sentences) and i < max_iter`
   loop; fuel = max_iter - i; n_sentences starts at 1 *)
Fixpoint cfg_outer (fuel : nat) (start : ty) (max_sentences n_sentences : Z) (max_depth : nat)
         (prods : list box) (oracle : list (list nat)) (not_twice : list box)
         (remove_duplicates : bool) (cache : list diagram)
  : res (list diagram * list (list nat)) :=
  match fuel with
  | O => Ok ([], oracle)
  | S fuel' =>
      if n_sentences <=? py_or_z max_sentences n_sentences then
        do r <- cfg_inner max_depth (did start) prods oracle not_twice remove_duplicates cache;
        let '(out, prods', oracle') := r in
        match out with
        | Yield d =>
            do rest <- cfg_outer fuel' start max_sentences (n_sentences + 1) max_depth prods' oracle'
                         not_twice remove_duplicates (if remove_duplicates then d :: cache else cache);
            Ok (d :: fst rest, snd rest)
        | NoYield =>
            cfg_outer fuel' start max_sentences n_sentences max_depth prods' oracle'
              not_twice remove_duplicates cache
        end
      else Ok ([], oracle)
  end.

(* list(CFG( *productions).generate(start, max_sentences, max_depth, max_iter,
   remove_duplicates, not_twice)) under the shuffle oracle; also returns the
   number of oracle entries left unused *)
Definition cfg_generate (productions : list box) (start : ty) (max_sentences : Z)
           (max_depth max_iter : nat) (remove_duplicates : bool) (not_twice : list box)
           (oracle : list (list nat)) : res (list diagram * list (list nat)) :=
  cfg_outer max_iter start max_sentences 1 max_depth productions oracle not_twice
    remove_duplicates [].
