(* Proofs about cat2ty and tree2diagram: categories are slash types with single
   objects on both sides; every diagram built from a tree is a well-typed
   biclosed diagram from the empty type (no Curry boxes), hence its translation
   to a rigid diagram exists and is type-preserving. *)
From Coq Require Import List ZArith Bool Lia.
Import ListNotations.
Require Import DV.Common.Base DV.Common.ListLemmas DV.Core.Diagram DV.Core.WF
  DV.Core.DiagramLemmas DV.Grammar.Biclosed DV.Grammar.BiclosedLemmas
  DV.Grammar.BiclosedTotalLemmas DV.Grammar.CCG.
Open Scope Z_scope.

(* ------------------------------------------------------------ simple types *)
Fixpoint simple_ob (x : bob) : bool :=
  match x with
  | BAtom _ => true
  | BOver [l] [r] => simple_ob l && simple_ob r
  | BUnder [l] [r] => simple_ob l && simple_ob r
  | _ => false
  end.
Definition simple_ty (t : bty) : bool := forallb simple_ob t.

Lemma simple_over_inv l r : simple_ob (BOver l r) = true ->
  exists l0 r0, l = [l0] /\ r = [r0] /\ simple_ob l0 = true /\ simple_ob r0 = true.
Proof.
  destruct l as [|l0 [|]]; try discriminate; destruct r as [|r0 [|]]; try discriminate.
  cbn. rewrite andb_true_iff. intros []. eauto 6.
Qed.
Lemma simple_under_inv l r : simple_ob (BUnder l r) = true ->
  exists l0 r0, l = [l0] /\ r = [r0] /\ simple_ob l0 = true /\ simple_ob r0 = true.
Proof.
  destruct l as [|l0 [|]]; try discriminate; destruct r as [|r0 [|]]; try discriminate.
  cbn. rewrite andb_true_iff. intros []. eauto 6.
Qed.

Lemma cat2ty_fuel_simple fuel : forall s t, cat2ty_fuel fuel s = Ok t ->
  exists x, t = [x] /\ simple_ob x = true.
Proof.
  induction fuel as [|fuel IH]; intros s t H; cbn [cat2ty_fuel] in H; [discriminate|].
  destruct (find_slash s 0 0) as [[i c]|].
  - destruct (unbracket _) as [lft|]; [cbn [bind] in H|discriminate].
    destruct (unbracket _) as [rgt|]; [cbn [bind] in H|discriminate].
    destruct (c =? c_bslash).
    + destruct (cat2ty_fuel fuel rgt) as [r|] eqn:Er; [cbn [bind] in H|discriminate].
      destruct (cat2ty_fuel fuel lft) as [l|] eqn:El; [cbn [bind] in H|discriminate].
      destruct (IH _ _ Er) as (r0 & -> & Sr). destruct (IH _ _ El) as (l0 & -> & Sl).
      inversion H; subst. eexists. split; [reflexivity|]. cbn. rewrite Sr, Sl. reflexivity.
    + destruct (cat2ty_fuel fuel lft) as [l|] eqn:El; [cbn [bind] in H|discriminate].
      destruct (cat2ty_fuel fuel rgt) as [r|] eqn:Er; [cbn [bind] in H|discriminate].
      destruct (IH _ _ Er) as (r0 & -> & Sr). destruct (IH _ _ El) as (l0 & -> & Sl).
      inversion H; subst. eexists. split; [reflexivity|]. cbn. rewrite Sr, Sl. reflexivity.
  - inversion H; subst. eexists. split; reflexivity.
Qed.

Theorem cat2ty_simple_lemma s t : cat2ty s = Ok t -> simple_ty t = true /\ length t = 1%nat.
Proof.
  unfold cat2ty. intros H. destruct (cat2ty_fuel_simple _ _ _ H) as (x & -> & S).
  cbn. rewrite S. auto.
Qed.

(* ------------------------------------------------------------ well-typed biclosed diagrams *)
Definition bwf (D : bdiagram) : Prop :=
  length (xd_boxes D) = length (xd_offs D) /\
  bscan (xd_dom D) (xd_boxes D) (xd_offs D) = Ok (xd_cod D) /\
  forallb box_good (xd_boxes D) = true.

Lemma bwf_good D : bwf D -> diagram_good D = true.
Proof.
  intros (_ & S & G). unfold diagram_good. rewrite G, S. apply bty_eqb_refl.
Qed.

Lemma bscan_app bs1 : forall offs1 a t bs2 offs2, length bs1 = length offs1 ->
  bscan a bs1 offs1 = Ok t -> bscan a (bs1 ++ bs2) (offs1 ++ offs2) = bscan t bs2 offs2.
Proof.
  induction bs1 as [|b bs1 IH]; intros [|off offs1] a t bs2 offs2 L H; try discriminate.
  - cbn in H. inversion H; subst. reflexivity.
  - cbn [bscan app] in *. destruct (negb _); [discriminate|]. destruct (bty_eqb a _); [|discriminate].
    apply IH; [cbn in L; lia|exact H].
Qed.

Lemma py_prefix_shift {A} (x a : list A) off : 0 <= off ->
  py_slice (x ++ a) None (Some (off + len x)) = x ++ py_slice a None (Some off).
Proof.
  intros H. pose proof (len_nonneg x). rewrite !py_slice_prefix by lia.
  replace (Z.to_nat (off + len x)) with (length x + Z.to_nat off)%nat by (unfold len; lia).
  rewrite firstn_app_2. reflexivity.
Qed.

Lemma py_suffix_shift {A} (x a : list A) k : 0 <= k ->
  py_slice (x ++ a) (Some (k + len x)) None = py_slice a (Some k) None.
Proof.
  intros H. pose proof (len_nonneg x). rewrite !py_slice_suffix by lia.
  replace (Z.to_nat (k + len x)) with (length x + Z.to_nat k)%nat by (unfold len; lia).
  rewrite skipn_app. rewrite skipn_all2 by lia.
  replace (length x + Z.to_nat k - length x)%nat with (Z.to_nat k) by lia. reflexivity.
Qed.

Lemma bscan_whisker_l x bs : forall offs a t, bscan a bs offs = Ok t ->
  bscan (x ++ a) bs (map (fun n => n + len x) offs) = Ok (x ++ t).
Proof.
  induction bs as [|b bs IH]; intros [|off offs] a t H; cbn [bscan map] in *;
    try (inversion H; subst; reflexivity).
  destruct (negb _) eqn:R; [discriminate|]. apply negb_false_iff, andb_true_iff in R.
  destruct R as (R1 & R2). apply Z.leb_le in R1, R2.
  destruct (bty_eqb a _) eqn:E; [|discriminate]. apply bty_eqb_eq in E.
  pose proof (len_nonneg x). pose proof (len_nonneg (xdom b)).
  replace (negb ((0 <=? off + len x) && (off + len x <=? len (x ++ a) - len (xdom b)))) with false
    by (symmetry; apply negb_false_iff, andb_true_iff; rewrite len_app; split; apply Z.leb_le; lia).
  rewrite py_prefix_shift by lia.
  replace (off + len x + len (xdom b)) with (off + len (xdom b) + len x) by lia.
  rewrite py_suffix_shift by lia.
  rewrite <- app_assoc, <- E, bty_eqb_refl. rewrite <- app_assoc. apply IH. exact H.
Qed.

Lemma forallb_app_true {A} (f : A -> bool) a b :
  forallb f a = true -> forallb f b = true -> forallb f (a ++ b) = true.
Proof. intros. rewrite forallb_app. rewrite H, H0. reflexivity. Qed.

Lemma bd_tensor_bwf a b : bwf a -> bwf b -> xd_dom b = [] -> bwf (bd_tensor a b).
Proof.
  intros (La & Sa & Ga) (Lb & Sb & Gb) Db. unfold bwf, bd_tensor.
  cbn [xd_dom xd_cod xd_boxes xd_offs]. split; [rewrite !app_length, map_length; lia|].
  split; [|apply forallb_app_true; auto].
  rewrite Db, app_nil_r. rewrite (bscan_app _ _ _ _ _ _ La Sa).
  rewrite Db in Sb. pose proof (bscan_whisker_l (xd_cod a) _ _ _ _ Sb) as W.
  rewrite app_nil_r in W. exact W.
Qed.

Lemma fold_tensor_bwf ch : forall acc, bwf acc -> xd_dom acc = [] ->
  Forall (fun c => bwf c /\ xd_dom c = []) ch ->
  let r := fold_left bd_tensor ch acc in
  bwf r /\ xd_dom r = [] /\ xd_cod r = xd_cod acc ++ flat_map xd_cod ch.
Proof.
  induction ch as [|c ch IH]; intros acc Wa Da F; cbn [fold_left flat_map].
  - rewrite app_nil_r. auto.
  - inversion F as [|? ? (Wc & Dc) F']; subst.
    destruct (IH (bd_tensor acc c)) as (W & D0 & C0); auto using bd_tensor_bwf.
    { cbn. rewrite Da, Dc. reflexivity. }
    cbn zeta in *. split; [exact W|]. split; [exact D0|]. rewrite C0. cbn [bd_tensor xd_cod].
    rewrite app_assoc. reflexivity.
Qed.

Lemma bd_then_box_bwf a box D : bwf a -> box_good box = true ->
  bd_then a (bd_box box) = Ok D ->
  bwf D /\ xd_dom D = xd_dom a /\ xd_cod D = xcod box.
Proof.
  intros (La & Sa & Ga) Gb. unfold bd_then. cbn [bd_box xd_dom xd_cod xd_boxes xd_offs].
  destruct (bty_eqb _ _) eqn:E; [|discriminate]. apply bty_eqb_eq in E. intros H; inversion H; subst D.
  unfold bwf. cbn [xd_dom xd_cod xd_boxes xd_offs]. split; [|auto].
  split; [rewrite !app_length; cbn; lia|]. split.
  - rewrite (bscan_app _ _ _ _ _ _ La Sa), E. cbn [bscan].
    replace (negb ((0 <=? 0) && (0 <=? len (xdom box) - len (xdom box)))) with false
      by (symmetry; apply negb_false_iff, andb_true_iff; split; apply Z.leb_le; lia).
    rewrite py_prefix_0. replace (0 + len (xdom box)) with (len (xdom box)) by lia.
    rewrite py_suffix_len. cbn [app]. rewrite !app_nil_r, bty_eqb_refl. reflexivity.
  - apply forallb_app_true; [exact Ga|]. cbn. rewrite Gb. reflexivity.
Qed.

(* ------------------------------------------------------------ trees *)
Section TreeInd.
  Variable P : tree -> Prop.
  Hypothesis Hw : forall n c, P (TWord n c).
  Hypothesis Hn : forall typ c ch, Forall P ch -> P (TNode typ c ch).
  Fixpoint tree_ind' (t : tree) : P t :=
    match t with
    | TWord n c => Hw n c
    | TNode typ c ch =>
        Hn typ c ch ((fix go (l : list tree) : Forall P l :=
                        match l with
                        | [] => Forall_nil P
                        | y :: l' => Forall_cons y (tree_ind' y) (go l')
                        end) ch)
    end.
End TreeInd.

Definition tree_ok (D : bdiagram) : Prop :=
  bwf D /\ xd_dom D = [] /\ simple_ty (xd_cod D) = true.

Lemma simple_ty_app a b : simple_ty (a ++ b) = simple_ty a && simple_ty b.
Proof. apply forallb_app. Qed.

Lemma simple_firstn n t : simple_ty t = true -> simple_ty (firstn n t) = true.
Proof.
  intros H. rewrite <- (firstn_skipn n t), simple_ty_app in H. apply andb_true_iff in H. tauto.
Qed.
Lemma simple_skipn n t : simple_ty t = true -> simple_ty (skipn n t) = true.
Proof.
  intros H. rewrite <- (firstn_skipn n t), simple_ty_app in H. apply andb_true_iff in H. tauto.
Qed.
Lemma simple_prefix t z : simple_ty t = true -> simple_ty (py_slice t None (Some z)) = true.
Proof. intros. rewrite py_slice_prefix_clip. apply simple_firstn; auto. Qed.
Lemma simple_suffix t z : simple_ty t = true -> simple_ty (py_slice t (Some z) None) = true.
Proof. intros. rewrite py_slice_suffix_clip. apply simple_skipn; auto. Qed.

Lemma tree2diagram_node typ cat children :
  tree2diagram (TNode typ cat children) =
  (do ch <- mapM tree2diagram children;
   let dom := flat_map xd_cod ch in
   do cod <- cat2ty cat;
   let box :=
     if typ =? 0 then XBA (py_slice dom (Some 1) None)
     else if typ =? 1 then XFA (py_slice dom None (Some 1))
     else if typ =? 2 then XFC (py_slice dom None (Some 1)) (py_slice dom (Some 1) None)
     else XBox typ dom cod in
   do _ <- bbox_check box;
   bd_then (fold_left bd_tensor ch (bd_id [])) (bd_box box)).
Proof.
  cbn [tree2diagram]. f_equal.
  induction children as [|x ts IH]; cbn [mapM]; [reflexivity|]. rewrite IH. reflexivity.
Qed.

Lemma mapM_Forall {A B} (f : A -> res B) (P : B -> Prop) l :
  Forall (fun x => forall y, f x = Ok y -> P y) l -> forall l', mapM f l = Ok l' -> Forall P l'.
Proof.
  induction 1 as [|x l Hx Hl IH]; intros l' H; cbn [mapM] in H.
  - inversion H; constructor.
  - destruct (f x) as [y|] eqn:E; [cbn [bind] in H|discriminate].
    destruct (mapM f l) as [ys|]; [cbn [bind] in H|discriminate]. inversion H; subst.
    constructor; auto.
Qed.

Lemma simple_flat_map ch : Forall tree_ok ch -> simple_ty (flat_map xd_cod ch) = true.
Proof.
  induction 1 as [|c ch (_ & _ & S) _ IH]; cbn [flat_map]; [reflexivity|].
  rewrite simple_ty_app, S, IH. reflexivity.
Qed.

Lemma check_true b : bbox_check b = Ok tt -> match bbox_check b with Ok _ => true | Err _ => false end = true.
Proof. intros ->. reflexivity. Qed.

Theorem tree2diagram_ok : forall t D, tree2diagram t = Ok D -> tree_ok D.
Proof.
  induction t as [n c|typ c children IH] using tree_ind'; intros D H.
  - cbn [tree2diagram] in H. destruct (cat2ty c) as [ty|] eqn:Ec; [cbn [bind] in H|discriminate].
    inversion H; subst D. destruct (cat2ty_simple_lemma _ _ Ec) as (S & _).
    unfold tree_ok, bwf, bd_box. cbn [xd_dom xd_cod xd_boxes xd_offs xdom xcod].
    split; [|auto]. split; [reflexivity|]. split; [|reflexivity].
    cbn. rewrite app_nil_r. reflexivity.
  - rewrite tree2diagram_node in H.
    destruct (mapM tree2diagram children) as [ch|] eqn:Ech; [cbn [bind] in H|discriminate].
    pose proof (mapM_Forall _ _ _ IH _ Ech) as Hch. cbn zeta in H.
    destruct (cat2ty c) as [cod|] eqn:Ec; [cbn [bind] in H|discriminate].
    destruct (cat2ty_simple_lemma _ _ Ec) as (Scod & _).
    set (dom := flat_map xd_cod ch) in *.
    assert (Sdom : simple_ty dom = true) by (apply simple_flat_map; exact Hch).
    match type of H with (do _ <- bbox_check ?b; _) = _ => set (box := b) in * end.
    destruct (bbox_check box) as [[]|] eqn:Eb; [cbn [bind] in H|discriminate].
    destruct (fold_tensor_bwf ch (bd_id [])) as (Wr & Dr & Cr).
    { unfold bwf. cbn. auto. }
    { reflexivity. }
    { eapply Forall_impl; [|exact Hch]. cbn. intros a (? & ? & _). auto. }
    cbn zeta in *. cbn [bd_id xd_cod app] in Cr. fold dom in Cr.
    assert (Good : box_good box = true /\ simple_ty (xcod box) = true).
    { subst box. destruct (typ =? 0); [|destruct (typ =? 1); [|destruct (typ =? 2)]].
      - pose proof Eb as Eb'. cbn [bbox_check] in Eb. apply ok_true in Eb. destruct (is_under_inv _ Eb) as (l & m & Hu).
        pose proof (simple_suffix dom 1 Sdom) as Ss. rewrite Hu in *.
        cbn [simple_ty forallb] in Ss. rewrite andb_true_r in Ss.
        destruct (simple_under_inv _ _ Ss) as (l0 & m0 & -> & -> & Sl & Sm).
        split; [cbn [box_good]; apply check_true; exact Eb'|].
        cbn. rewrite Sm. reflexivity.
      - cbn [bbox_check] in Eb. pose proof Eb as Eb'. apply ok_true in Eb. destruct (is_over_inv _ Eb) as (l & m & Hu).
        pose proof (simple_prefix dom 1 Sdom) as Ss. rewrite Hu in *.
        cbn [simple_ty forallb] in Ss. rewrite andb_true_r in Ss.
        destruct (simple_over_inv _ _ Ss) as (l0 & m0 & -> & -> & Sl & Sm).
        split; [cbn [box_good]; apply check_true; exact Eb'|]. cbn. rewrite Sl. reflexivity.
      - pose proof Eb as Eb'. cbn [bbox_check] in Eb. apply ok_true in Eb.
        rewrite !andb_true_iff in Eb. destruct Eb as ((G1 & G2) & _).
        destruct (is_over_inv _ G1) as (a & m & Hl). destruct (is_over_inv _ G2) as (m' & c' & Hr).
        pose proof (simple_prefix dom 1 Sdom) as S1. pose proof (simple_suffix dom 1 Sdom) as S2.
        rewrite Hl in *. rewrite Hr in *.
        cbn [simple_ty forallb] in S1, S2. rewrite andb_true_r in S1, S2.
        destruct (simple_over_inv _ _ S1) as (a0 & m0 & -> & -> & Sa & Sm).
        destruct (simple_over_inv _ _ S2) as (m1 & c0 & -> & -> & Sm1 & Sc).
        split; [cbn [box_good]; apply check_true; exact Eb'|]. cbn. rewrite Sa, Sc. reflexivity.
      - split; [reflexivity|exact Scod]. }
    destruct Good as (Gb & Sc).
    destruct (bd_then_box_bwf _ _ _ Wr Gb H) as (W & D0 & C0).
    unfold tree_ok. rewrite D0, Dr, C0. auto.
Qed.

Theorem tree2diagram_good t D : tree2diagram t = Ok D -> diagram_good D = true /\ xd_dom D = [].
Proof.
  intros H. destruct (tree2diagram_ok _ _ H) as (W & D0 & _). split; [apply bwf_good; exact W|exact D0].
Qed.

Theorem tree2diagram_image t D : tree2diagram t = Ok D ->
  exists d, b2r D = Ok d /\ wf d /\ ddom d = [] /\ dcod d = F_ty (xd_cod D).
Proof.
  intros H1. destruct (tree2diagram_good _ _ H1) as (G & D0).
  destruct (b2r_total _ G) as (d & H2). exists d. split; [exact H2|].
  destruct (b2r_type_preserving_lemma _ _ G H2) as (W & Dd & Cd). rewrite D0 in Dd. auto.
Qed.

(* ------------------------------------------------------------ non-vacuity *)
(* (S\NP)/NP  NP  with rule fa, then NP on the left with rule ba *)
Definition ch (s : list Z) := s.
Example tree_example :
  let NP := [78; 80] in let S := [83] in
  let tv := [40; 83; 92; 78; 80; 41; 47; 78; 80] in   (* "(S\NP)/NP" *)
  let vp := [83; 92; 78; 80] in                        (* "S\NP" *)
  let t := TNode 0 S [TWord 30 NP; TNode 1 vp [TWord 31 tv; TWord 32 NP]] in
  exists D d, tree2diagram t = Ok D /\ length (xd_boxes D) = 5%nat /\
              b2r D = Ok d /\ dcod d = [Ob (str_code S) 0] /\ length (dboxes d) = 5%nat.
Proof.
  cbn zeta. eexists. eexists. split; [vm_compute; reflexivity|]. split; [reflexivity|].
  split; [vm_compute; reflexivity|]. split; reflexivity.
Qed.

Example cat2ty_example :
  cat2ty [40; 83; 91; 100; 93; 92; 78; 80; 41; 47; 78; 80] =   (* "(S[d]\NP)/NP" *)
  Ok [BOver [BUnder [BAtom (str_code [78; 80])] [BAtom (str_code [83])]] [BAtom (str_code [78; 80])]].
Proof. vm_compute. reflexivity. Qed.
